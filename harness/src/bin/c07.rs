//! C07 correspondence harness: homology of chain complexes (yui-homology) vs the Coq model
//! (Model/HomologyCalc.v with the SNF parameter instantiated by Model/Snf.v).
//!
//! Case lines (input of ocaml/c07_driver.ml):
//!   hc <ring> <wt> <valid> <r1> <r2> <nt> <nt planted torsion tokens> <c1> <c2> <c3> <d1: c2*c1 entries> <d2: c3*c2 entries>
//!        HomologyCalc::calculate(d1, d2, wt);  d1 : c2 x c1, d2 : c3 x c2 (row major).  valid = 1: the
//!        generator built the pair with d2*d1 = 0, rank d1 = r1, rank d2 = r2 and the planted divisibility
//!        chain whose non-units are the listed torsion tokens (the model ignores these expectations).
//!        valid = 2: a complex (d2 = 0) whose d1 = U * diag(a_1..a_k) * V has NON-chain diagonal entries (pairwise
//!        non-associate primes and small products, neither dividing the other): the listed tokens are a_1..a_k, not the
//!        invariant factors; rank d1 = r1 = k is known, the torsion is only known through its product (~ a_1*..*a_k) and
//!        the chain condition; cyc, pq, bnd, shape are evaluated as for valid = 1.
//!   cx <ring> <ddeg> <L> <c_0..c_(L-1)> <rows_0..rows_(L-1)> <mat_0> .. <mat_(L-1)>
//!        GenericChainComplex::generate(0..L, ddeg, i -> mat_i (rows_i x c_i)).homology()  (public route)
//!   mg <ring> <ddeg> <valid> <L> <c_0..> <rows_0..> <mat_0> .. <mat_(L-1)> <sd_0> .. <sd_(L-1)>
//!        a complex whose summands carry coordinate maps: raw complex g = generate(0..L, ddeg, mats) as in cx, summand of
//!        degree i described by sd_i =  0                                  (free: g[i])
//!                                   |  1 r F(r x c_i) B(c_i x r)          Summand::new(raw, r, [], Trans::new(F, B))
//!                                   |  2 r1 F1 B1 r2 F2(r2 x r1) B2       Summand::new(.., Trans::new(F1,B1)).merge(Summand::new(.., Trans::new(F2,B2)))
//!                                   |  3 r1 F1 B1 r2 F2 B2                Summand::new(raw, r2, [], Trans::new(F1,B1).merged(&Trans::new(F2,B2)))
//!        cb = ChainComplexBase::new(summands, ddeg, g.d); per degree: h = cb.compute_homology_at(i, true);
//!        sm = cb[i].clone().merge(h)  (Summand::merge = Trans::merge + Trans::reduce);  sl = cb.homology_at(i);
//!        st = from_raw_gens(..).merge(cb[i]).merge(h)  (merge of an already merged summand).
//!        valid = 1: the generator built a complex and unimodular inverse pairs (the clauses are meaningful).
//!   rd <ring> <ddeg> <L> <c_0..> <rows_0..> <mat_0> ..      cr = generate(..).reduced(); per degree
//!        s = cr[i].clone(); s.merge(cr.compute_homology_at(i, true))   (clauses on the implementation's output, the
//!        elimination order is hash dependent; exactly compared: rank and number of torsion summands)
//! Entries are single tokens: integers, `a:b` quadratic integers a + b*omega, rationals `n/d`,
//! polynomials `c0_c1_.._cd` (rings qx = Q[x], f3x = F_3[x]).
//! Result line:  <observables> | <property clauses evaluated on the implementation's own output>
//!   hc:  R=<rank> T=<tors> F=<forward mat> B=<backward mat> | cyc= pq= bnd= shape= rank= tors=
//!   cx:  per degree  i:R= T= F= B= G=<gen(j)> E=<vectorize_euc(d(e_j))>  joined by " ; "  | cyc= vec= bnd=
//!   mg:  per degree  i:R= T= F= B= G=<gen(k)> E=<vectorize_euc(d(e_j))> D=<devectorize(1,..,1)> LF= LB= TF= TB=
//!        (F/B of sm, then of sl and st)  | cyc= vec= bnd= pq= same= inv=   (w.r.t. the ORIGINAL complex g)
//!   rd:  per degree  i:R= N=  | cyc= vec= bnd= pq= same= inv=
//!   `P` = the call panicked; observables are `SKIP` for the rings without a model dictionary (qx, f3x).
//! The generator is text-only (own arithmetic); it never calls the implementation to construct inputs.
use num_bigint::BigInt;
use num_traits::{One, Signed, Zero};
use yui::poly::Poly;
use yui::{EisenInt, EucRing, EucRingOps, GaussInt, Ratio, FF, FF2};
use yui::lc::Lc;
use yui_homology::utils::HomologyCalc;
use yui_homology::{ChainComplexBase, ChainComplexTrait, ComputeHomology, EnumGen, GenericChainComplex, Grid, GridTrait, Summand, SummandTrait};
use yui_matrix::sparse::{SpMat, SpVec, Trans};
use yui_matrix::MatTrait;
use yui_verif_harness::*;

// ------------------------------------------------------------------------------------------------
// entry I/O per ring type
// ------------------------------------------------------------------------------------------------
trait Elt: Sized {
    fn parse(s: &str) -> Self;
    fn show(&self) -> String;
}
macro_rules! elt_int {
    ($t:ty) => {
        impl Elt for $t {
            fn parse(s: &str) -> Self { s.parse::<$t>().expect("int entry") }
            fn show(&self) -> String { self.to_string() }
        }
    };
}
elt_int!(i32);
elt_int!(i64);
elt_int!(i128);
elt_int!(BigInt);

fn split2<'a>(s: &'a str, c: char) -> (&'a str, &'a str) {
    let k = s.find(c).expect("pair entry");
    (&s[..k], &s[k + 1..])
}
macro_rules! elt_quad {
    ($q:ident, $t:ty) => {
        impl Elt for $q<$t> {
            fn parse(s: &str) -> Self {
                let (a, b) = split2(s, ':');
                $q::new(<$t as Elt>::parse(a), <$t as Elt>::parse(b))
            }
            fn show(&self) -> String { format!("{}:{}", self.left().show(), self.right().show()) }
        }
    };
}
elt_quad!(GaussInt, i32);
elt_quad!(GaussInt, i64);
elt_quad!(GaussInt, BigInt);
elt_quad!(EisenInt, i32);
elt_quad!(EisenInt, i64);
elt_quad!(EisenInt, BigInt);
macro_rules! elt_ratio {
    ($t:ty) => {
        impl Elt for Ratio<$t> {
            fn parse(s: &str) -> Self {
                let (a, b) = split2(s, '/');
                Ratio::new(<$t as Elt>::parse(a), <$t as Elt>::parse(b))
            }
            fn show(&self) -> String { format!("{}/{}", self.numer().show(), self.denom().show()) }
        }
    };
}
elt_ratio!(i64);
elt_ratio!(BigInt);
impl<const P: i32> Elt for FF<P> {
    fn parse(s: &str) -> Self {
        let v: i64 = s.parse().expect("ff entry");
        FF::new(v.rem_euclid(P as i64) as i32)
    }
    fn show(&self) -> String { self.rep().to_string() }
}
impl Elt for FF2 {
    fn parse(s: &str) -> Self {
        let v: i64 = s.parse().expect("f2 entry");
        FF2::from(v)
    }
    fn show(&self) -> String { if self.is_zero() { "0".into() } else { "1".into() } }
}
type QX = Poly<'x', Ratio<i64>>;
type F3X = Poly<'x', FF<3>>;
impl Elt for QX {
    fn parse(s: &str) -> Self {
        QX::from_iter(s.split('_').enumerate().map(|(i, c)| (QX::mono(i), Ratio::from(c.parse::<i64>().expect("coeff")))))
    }
    fn show(&self) -> String { "?".into() }
}
impl Elt for F3X {
    fn parse(s: &str) -> Self {
        F3X::from_iter(s.split('_').enumerate().map(|(i, c)| {
            let v: i64 = c.parse().expect("coeff");
            (F3X::mono(i), FF::<3>::new(v.rem_euclid(3) as i32))
        }))
    }
    fn show(&self) -> String { "?".into() }
}

fn has_model(ring: &str) -> bool { ring != "qx" && ring != "f3x" }

// ------------------------------------------------------------------------------------------------
// running the implementation
// ------------------------------------------------------------------------------------------------
fn show_sp<R: Elt + EucRing>(a: &SpMat<R>) -> String
where for<'a> &'a R: EucRingOps<R> {
    let (m, n) = a.shape();
    let d = a.clone().into_dense();
    let rows: Vec<String> = (0..m)
        .map(|i| (0..n).map(|j| d[(i, j)].show()).collect::<Vec<_>>().join(","))
        .collect();
    format!("{}x{}:{}", m, n, rows.join(";"))
}
fn show_vec<R: Elt>(v: &[R]) -> String {
    format!("[{}]", v.iter().map(|x| x.show()).collect::<Vec<_>>().join(","))
}
fn show_tors<R: Elt>(t: &[R]) -> String {
    if t.is_empty() { "-".into() } else { t.iter().map(|x| x.show()).collect::<Vec<_>>().join(",") }
}
fn parse_sp<R: Elt + EucRing>(m: usize, n: usize, toks: &[&str]) -> SpMat<R>
where for<'a> &'a R: EucRingOps<R> {
    assert!(toks.len() == m * n, "entry count");
    SpMat::from_dense_data((m, n), toks.iter().map(|t| R::parse(t)))
}
fn b01(b: bool) -> &'static str { if b { "1" } else { "0" } }
/// a ~ b up to a unit, decided with the ring's own operations
fn assoc<R: EucRing>(a: &R, b: &R) -> bool
where for<'a> &'a R: EucRingOps<R> {
    if a.is_zero() || b.is_zero() { return a.is_zero() && b.is_zero(); }
    (a % b).is_zero() && (b % a).is_zero()
}

/// the clauses of the property on one (d1, d2) -> (rank, tors, p, q)
fn clauses<R: Elt + EucRing>(d1: &SpMat<R>, d2: &SpMat<R>, rank: usize, tors: &[R], p: &SpMat<R>, q: &SpMat<R>) -> (bool, bool, bool, bool)
where for<'a> &'a R: EucRingOps<R> {
    let n = d1.nrows();
    let h = rank + tors.len();
    let shape = p.shape() == (h, n) && q.shape() == (n, h);
    if !shape {
        return (false, false, false, false);
    }
    let cyc = (d2 * q).is_zero();
    let pq = (p * q).is_id();
    let b = (p * d1).into_dense();
    let mut bnd = true;
    for i in 0..h {
        for j in 0..d1.ncols() {
            let e = &b[(i, j)];
            if i < rank {
                bnd &= e.is_zero();
            } else {
                let t = &tors[i - rank];
                bnd &= !t.is_zero() && (e % t).is_zero();
            }
        }
    }
    (cyc, pq, bnd, shape)
}

fn run_hc<R: Elt + EucRing>(ring: &str, wt: bool, t: &[&str]) -> String
where for<'a> &'a R: EucRingOps<R> {
    let valid = t[0] == "1";
    let nonchain = t[0] == "2";
    let (r1, r2): (usize, usize) = (t[1].parse().unwrap(), t[2].parse().unwrap());
    let nt: usize = t[3].parse().unwrap();
    let planted: Vec<R> = t[4..4 + nt].iter().map(|s| R::parse(s)).collect();
    let t = &t[4 + nt..];
    let (c1, c2, c3): (usize, usize, usize) = (t[0].parse().unwrap(), t[1].parse().unwrap(), t[2].parse().unwrap());
    let e = &t[3..];
    assert!(e.len() == c2 * c1 + c3 * c2, "entry count");
    let d1: SpMat<R> = parse_sp(c2, c1, &e[..c2 * c1]);
    let d2: SpMat<R> = parse_sp(c3, c2, &e[c2 * c1..]);
    let res = guarded(|| HomologyCalc::calculate(d1.clone(), d2.clone(), wt));
    // the other value of with_trans must report the same rank and torsion
    let other = guarded(|| HomologyCalc::calculate(d1.clone(), d2.clone(), !wt));
    let Some((rank, tors, tr)) = res else {
        return if other.is_none() { "P".into() } else { "FORMS-DIFFER".into() };
    };
    match other {
        Some((rk, ts, _)) if rk == rank && ts == tors => {}
        _ => return "FORMS-DIFFER".into(),
    }
    if tr.is_some() != wt {
        return "TRANS-FLAG".into();
    }
    let (obs, cl) = match &tr {
        None => (format!("R={} T={} F=- B=-", rank, show_tors(&tors)), "cyc=- pq=- bnd=- shape=-".to_string()),
        Some(tr) => {
            let pq = guarded(|| (tr.forward_mat(), tr.backward_mat()));
            match pq {
                None => (format!("R={} T={} F=P B=P", rank, show_tors(&tors)), "cyc=0 pq=0 bnd=0 shape=0".to_string()),
                Some((p, q)) => {
                    let dims_ok = tr.src_dim() == c2 && tr.tgt_dim() == rank + tors.len();
                    let (cyc, pqi, bnd, shape) = guarded(|| clauses(&d1, &d2, rank, &tors, &p, &q)).unwrap_or((false, false, false, false));
                    // Trans::forward / backward on vectors agree with the matrices
                    let mut fb = true;
                    for j in 0..c2.min(3) {
                        let v = SpVec::<R>::unit(c2, j);
                        fb &= guarded(|| tr.forward(&v).to_dense() == (&p * &v).to_dense()).unwrap_or(false);
                    }
                    for j in 0..(rank + tors.len()).min(3) {
                        let v = SpVec::<R>::unit(rank + tors.len(), j);
                        fb &= guarded(|| tr.backward(&v).to_dense() == (&q * &v).to_dense()).unwrap_or(false);
                    }
                    (
                        format!("R={} T={} F={} B={}", rank, show_tors(&tors), show_sp(&p), show_sp(&q)),
                        format!("cyc={} pq={} bnd={} shape={}", b01(cyc), b01(pqi), b01(bnd), b01(shape && dims_ok && fb)),
                    )
                }
            }
        }
    };
    let (rk, ts) = if valid {
        let rk = c2 >= r1 + r2 && rank == c2 - r1 - r2;
        let ts = tors.len() == planted.len() && tors.iter().zip(planted.iter()).all(|(a, b)| assoc(a, b))
            && tors.iter().all(|a| !a.is_unit() && !a.is_zero());
        (b01(rk), b01(ts))
    } else if nonchain {
        // the planted tokens are the diagonal entries a_1..a_k (all non-zero), not the invariant factors: the reported
        // torsion must be a divisibility chain of non-units whose product is associated to a_1*..*a_k (the k-th
        // determinantal divisor; unit invariant factors contribute units only)
        let rk = c2 >= r1 + r2 && rank == c2 - r1 - r2;
        let ts = guarded(|| {
            let mut ok = tors.len() <= planted.len() && tors.iter().all(|a| !a.is_unit() && !a.is_zero());
            for w in tors.windows(2) { ok &= (&w[1] % &w[0]).is_zero(); }
            let prod = |v: &[R]| v.iter().fold(R::one(), |acc, x| &acc * x);
            ok && assoc(&prod(&tors), &prod(&planted))
        }).unwrap_or(false);
        (b01(rk), b01(ts))
    } else {
        ("-", "-")
    };
    let obs = if has_model(ring) { obs } else { "SKIP".into() };
    format!("{} | {} rank={} tors={}", obs, cl, rk, ts)
}

fn lc_to_vec<R: Elt + EucRing>(z: &Lc<EnumGen<isize>, R>, n: usize) -> Option<Vec<R>>
where for<'a> &'a R: EucRingOps<R> {
    let mut v: Vec<R> = (0..n).map(|_| R::zero()).collect();
    for (x, a) in z.iter() {
        if x.1 >= n { return None; }
        v[x.1] = a.clone();
    }
    Some(v)
}

fn run_cx<R: Elt + EucRing>(ring: &str, ddeg: isize, t: &[&str]) -> String
where for<'a> &'a R: EucRingOps<R> {
    let l: usize = t[0].parse().unwrap();
    let dims: Vec<usize> = t[1..1 + l].iter().map(|s| s.parse().unwrap()).collect();
    let rows: Vec<usize> = t[1 + l..1 + 2 * l].iter().map(|s| s.parse().unwrap()).collect();
    let mut e = &t[1 + 2 * l..];
    let mut mats: Vec<SpMat<R>> = vec![];
    for i in 0..l {
        let k = rows[i] * dims[i];
        mats.push(parse_sp(rows[i], dims[i], &e[..k]));
        e = &e[k..];
    }
    assert!(e.is_empty(), "too many tokens");
    let ms = mats.clone();
    let res = guarded(move || {
        let c = GenericChainComplex::<R>::generate(0..(l as isize), ddeg, |i| {
            if i >= 0 && (i as usize) < l { ms[i as usize].clone() } else { SpMat::zero((0, 0)) }
        });
        let h = c.homology();
        let mut parts = vec![];
        let (mut cyc, mut vec_ok, mut bnd) = (true, true, true);
        for i in c.support() {
            let hi = &h[i];
            let n = c[i].rank();
            let dim = hi.rank() + hi.tors().len();
            let tr = hi.trans();
            let (p, q) = (tr.forward_mat(), tr.backward_mat());
            let mut gens = String::new();
            for j in 0..dim {
                let z = hi.gen(j);
                // generators are cycles; their coordinates are the standard basis
                cyc &= c.d(i, &z).is_zero();
                vec_ok &= hi.vectorize(&z).to_dense() == SpVec::<R>::unit(dim, j).to_dense();
                match lc_to_vec(&z, n) {
                    Some(v) => gens.push_str(&show_vec(&v)),
                    None => gens.push_str("BAD-GEN"),
                }
            }
            // boundaries have zero coordinates modulo the torsion orders
            let kin = i - ddeg;
            let mut bs = String::new();
            if kin >= 0 && (kin as usize) < l {
                for j in 0..c[kin].rank() {
                    let x = c[kin].gen(j);
                    let z = c.d(kin, &x);
                    let v = hi.vectorize_euc(&z);
                    bnd &= v.is_zero();
                    bs.push_str(&show_vec(&v.to_dense()));
                }
            }
            parts.push(format!("{}:R={} T={} F={} B={} G={} E={}", i, hi.rank(), show_tors(hi.tors()), show_sp(&p), show_sp(&q), gens, bs));
        }
        (parts.join(" ; "), format!("cyc={} vec={} bnd={}", b01(cyc), b01(vec_ok), b01(bnd)))
    });
    match res {
        None => "P".into(),
        Some((obs, cl)) => {
            let obs = if has_model(ring) { obs } else { "SKIP".into() };
            format!("{} | {}", obs, cl)
        }
    }
}


// ------------------------------------------------------------------------------------------------
// complexes whose summands carry coordinate maps: Summand::merge / Trans::reduce
// ------------------------------------------------------------------------------------------------
type GS<R> = Summand<EnumGen<isize>, R>;

/// summand descriptor of an `mg` case (matrices parsed, nothing of the API under test called yet)
struct Desc<R> where R: EucRing, for<'a> &'a R: EucRingOps<R> {
    v: usize,
    r1: usize,
    r2: usize,
    f1: Option<SpMat<R>>,
    b1: Option<SpMat<R>>,
    f2: Option<SpMat<R>>,
    b2: Option<SpMat<R>>,
}
fn take_mat<'a, R: Elt + EucRing>(e: &mut &'a [&'a str], m: usize, n: usize) -> SpMat<R>
where for<'x> &'x R: EucRingOps<R> {
    let k = m * n;
    assert!(e.len() >= k, "too few tokens");
    let a = parse_sp(m, n, &e[..k]);
    *e = &e[k..];
    a
}
fn take_num<'a>(e: &mut &'a [&'a str]) -> usize {
    let x = e[0].parse().unwrap();
    *e = &e[1..];
    x
}
fn parse_desc<'a, R: Elt + EucRing>(e: &mut &'a [&'a str], c: usize) -> Desc<R>
where for<'x> &'x R: EucRingOps<R> {
    let v = take_num(e);
    match v {
        0 => Desc { v, r1: c, r2: c, f1: None, b1: None, f2: None, b2: None },
        1 => {
            let r1 = take_num(e);
            let f1 = take_mat(e, r1, c);
            let b1 = take_mat(e, c, r1);
            Desc { v, r1, r2: r1, f1: Some(f1), b1: Some(b1), f2: None, b2: None }
        }
        2 | 3 => {
            let r1 = take_num(e);
            let f1 = take_mat(e, r1, c);
            let b1 = take_mat(e, c, r1);
            let r2 = take_num(e);
            let f2 = take_mat(e, r2, r1);
            let b2 = take_mat(e, r1, r2);
            Desc { v, r1, r2, f1: Some(f1), b1: Some(b1), f2: Some(f2), b2: Some(b2) }
        }
        _ => panic!("bad summand descriptor"),
    }
}
fn build_summand<R: Elt + EucRing>(d: &Desc<R>, i: isize, free: &GS<R>) -> GS<R>
where for<'a> &'a R: EucRingOps<R> {
    let raw = free.raw_gens().clone();
    match d.v {
        0 => free.clone(),
        1 => Summand::new(raw, d.r1, vec![], Trans::new(d.f1.clone().unwrap(), d.b1.clone().unwrap())),
        2 => {
            let mut s = Summand::new(raw, d.r1, vec![], Trans::new(d.f1.clone().unwrap(), d.b1.clone().unwrap()));
            let mid: GS<R> = Summand::new(
                (0..d.r1).map(|j| EnumGen(i, j)).collect(), d.r2, vec![],
                Trans::new(d.f2.clone().unwrap(), d.b2.clone().unwrap()));
            s.merge(mid);
            s
        }
        _ => {
            let t1 = Trans::new(d.f1.clone().unwrap(), d.b1.clone().unwrap());
            let t2 = Trans::new(d.f2.clone().unwrap(), d.b2.clone().unwrap());
            Summand::new(raw, d.r2, vec![], t1.merged(&t2))
        }
    }
}

struct Flags {
    cyc: bool,
    vec: bool,
    bnd: bool,
    pq: bool,
    same: bool,
    inv: bool,
}
impl Flags {
    fn new() -> Self { Flags { cyc: true, vec: true, bnd: true, pq: true, same: true, inv: true } }
    fn show(&self) -> String {
        format!("cyc={} vec={} bnd={} pq={} same={} inv={}", b01(self.cyc), b01(self.vec), b01(self.bnd), b01(self.pq), b01(self.same), b01(self.inv))
    }
}

/// the clauses of the property for a summand `s` that claims to be H_i of the ORIGINAL complex `g`;
/// returns (generators, reduced coordinates of the boundaries)
fn summand_clauses<R: Elt + EucRing>(g: &GenericChainComplex<R>, l: usize, ddeg: isize, i: isize, s: &GS<R>, fl: &mut Flags) -> (String, String)
where for<'a> &'a R: EucRingOps<R> {
    let n = g[i].rank();
    let dim = s.rank() + s.tors().len();
    let mut gens = String::new();
    for j in 0..dim {
        let z = s.gen(j);
        fl.cyc &= g.d(i, &z).is_zero();
        fl.vec &= s.vectorize(&z).to_dense() == SpVec::<R>::unit(dim, j).to_dense();
        match lc_to_vec(&z, n) {
            Some(v) => gens.push_str(&show_vec(&v)),
            None => gens.push_str("BAD-GEN"),
        }
    }
    let kin = i - ddeg;
    let mut bs = String::new();
    if kin >= 0 && (kin as usize) < l {
        for j in 0..g[kin].rank() {
            let x = g[kin].gen(j);
            let z = g.d(kin, &x);
            let v = s.vectorize_euc(&z);
            fl.bnd &= v.is_zero();
            bs.push_str(&show_vec(&v.to_dense()));
        }
    }
    (gens, bs)
}
fn same_summand<R: Elt + EucRing>(a: &GS<R>, b: &GS<R>) -> bool
where for<'x> &'x R: EucRingOps<R> {
    a.rank() == b.rank() && a.tors() == b.tors()
        && a.trans().forward_mat() == b.trans().forward_mat()
        && a.trans().backward_mat() == b.trans().backward_mat()
}
fn same_module<R: Elt + EucRing>(a: &GS<R>, b: &GS<R>) -> bool
where for<'x> &'x R: EucRingOps<R> {
    a.rank() == b.rank() && a.tors().len() == b.tors().len() && a.tors().iter().zip(b.tors().iter()).all(|(x, y)| assoc(x, y))
}

fn parse_complex<'a, R: Elt + EucRing>(t: &'a [&'a str]) -> (usize, Vec<usize>, Vec<SpMat<R>>, &'a [&'a str])
where for<'x> &'x R: EucRingOps<R> {
    let l: usize = t[0].parse().unwrap();
    let dims: Vec<usize> = t[1..1 + l].iter().map(|s| s.parse().unwrap()).collect();
    let rows: Vec<usize> = t[1 + l..1 + 2 * l].iter().map(|s| s.parse().unwrap()).collect();
    let mut e = &t[1 + 2 * l..];
    let mut mats: Vec<SpMat<R>> = vec![];
    for i in 0..l {
        mats.push(take_mat(&mut e, rows[i], dims[i]));
    }
    (l, dims, mats, e)
}

fn run_mg<R: Elt + EucRing>(ring: &str, ddeg: isize, t: &[&str]) -> String
where for<'a> &'a R: EucRingOps<R> {
    let (l, dims, mats, mut e) = parse_complex::<R>(&t[1..]);
    let descs: Vec<Desc<R>> = (0..l).map(|i| parse_desc(&mut e, dims[i])).collect();
    assert!(e.is_empty(), "too many tokens");
    let res = guarded(move || {
        let ms = mats.clone();
        let g = GenericChainComplex::<R>::generate(0..(l as isize), ddeg, |i| {
            if i >= 0 && (i as usize) < l { ms[i as usize].clone() } else { SpMat::zero((0, 0)) }
        });
        let summands = Grid::generate(0..(l as isize), |i| build_summand(&descs[i as usize], i, &g[i]));
        let g2 = g.clone();
        let cb = ChainComplexBase::new(summands, ddeg, move |i, z| g2.d(i, z));
        let mut parts = vec![];
        let mut fl = Flags::new();
        for i in cb.support() {
            let c = &cb[i];
            let h = cb.compute_homology_at(i, true);
            // Summand::merge (Trans::merge + Trans::reduce)
            let mut sm = c.clone();
            sm.merge(h.clone());
            // the library's route (merged, never reduced)
            let sl = cb.homology_at(i);
            // merge of an already merged summand
            let mut st: GS<R> = Summand::from_raw_gens(c.raw_gens().iter().cloned());
            st.merge(c.clone());
            st.merge(h);
            let (p, q) = (sm.trans().forward_mat(), sm.trans().backward_mat());
            let mut fl1 = Flags::new();
            let (gens, bs) = summand_clauses(&g, l, ddeg, i, &sm, &mut fl1);
            let dim = sm.rank() + sm.tors().len();
            let ones = SpVec::<R>::from((0..dim).map(|_| R::one()).collect::<Vec<_>>());
            let dv = match lc_to_vec(&sm.devectorize(&ones), g[i].rank()) {
                Some(v) => show_vec(&v),
                None => "BAD".into(),
            };
            fl.pq &= p.shape() == (dim, g[i].rank()) && q.shape() == (g[i].rank(), dim) && (&p * &q).is_id();
            fl.same &= same_summand(&sm, &sl) && same_summand(&sm, &st);
            // the library's summand must satisfy the same clauses
            let mut fl2 = Flags::new();
            let (gens_l, bs_l) = summand_clauses(&g, l, ddeg, i, &sl, &mut fl2);
            fl.same &= gens_l == gens && bs_l == bs && fl2.cyc == fl1.cyc && fl2.vec == fl1.vec && fl2.bnd == fl1.bnd;
            fl.cyc &= fl1.cyc;
            fl.vec &= fl1.vec;
            fl.bnd &= fl1.bnd;
            // the homology module does not depend on the coordinates (the raw matrices need not be a complex: guarded)
            fl.inv &= guarded(|| same_module(&sm, &g.homology_at(i))).unwrap_or(false);
            parts.push(format!(
                "{}:R={} T={} F={} B={} G={} E={} D={} LF={} LB={} TF={} TB={}",
                i, sm.rank(), show_tors(sm.tors()), show_sp(&p), show_sp(&q), gens, bs, dv,
                show_sp(&sl.trans().forward_mat()), show_sp(&sl.trans().backward_mat()),
                show_sp(&st.trans().forward_mat()), show_sp(&st.trans().backward_mat())));
        }
        (parts.join(" ; "), fl.show())
    });
    match res {
        None => "P".into(),
        Some((obs, cl)) => {
            let obs = if has_model(ring) { obs } else { "SKIP".into() };
            format!("{} | {}", obs, cl)
        }
    }
}

fn run_rd<R: Elt + EucRing>(ring: &str, ddeg: isize, t: &[&str]) -> String
where for<'a> &'a R: EucRingOps<R> {
    let (l, _dims, mats, e) = parse_complex::<R>(t);
    assert!(e.is_empty(), "too many tokens");
    let res = guarded(move || {
        let ms = mats.clone();
        let g = GenericChainComplex::<R>::generate(0..(l as isize), ddeg, |i| {
            if i >= 0 && (i as usize) < l { ms[i as usize].clone() } else { SpMat::zero((0, 0)) }
        });
        let cr = g.reduced();
        let mut parts = vec![];
        let mut fl = Flags::new();
        for i in cr.support() {
            let mut s = cr[i].clone();
            s.merge(cr.compute_homology_at(i, true));
            let sl = cr.homology_at(i);
            let (p, q) = (s.trans().forward_mat(), s.trans().backward_mat());
            let mut fl1 = Flags::new();
            let (gens, bs) = summand_clauses(&g, l, ddeg, i, &s, &mut fl1);
            let dim = s.rank() + s.tors().len();
            fl.pq &= p.shape() == (dim, g[i].rank()) && q.shape() == (g[i].rank(), dim) && (&p * &q).is_id();
            fl.same &= same_summand(&s, &sl);
            let mut fl2 = Flags::new();
            let (gens_l, bs_l) = summand_clauses(&g, l, ddeg, i, &sl, &mut fl2);
            fl.same &= gens_l == gens && bs_l == bs && fl2.cyc == fl1.cyc && fl2.vec == fl1.vec && fl2.bnd == fl1.bnd;
            fl.cyc &= fl1.cyc;
            fl.vec &= fl1.vec;
            fl.bnd &= fl1.bnd;
            fl.inv &= same_module(&s, &g.homology_at(i));
            parts.push(format!("{}:R={} N={}", i, s.rank(), s.tors().len()));
        }
        (parts.join(" ; "), fl.show())
    });
    match res {
        None => "P".into(),
        Some((obs, cl)) => {
            let obs = if has_model(ring) { obs } else { "SKIP".into() };
            format!("{} | {}", obs, cl)
        }
    }
}

macro_rules! dispatch {
    ($ring:expr, $f:ident, $($args:expr),*) => {
        match $ring {
            "i32" => $f::<i32>($($args),*),
            "i64" => $f::<i64>($($args),*),
            "i128" => $f::<i128>($($args),*),
            "big" => $f::<BigInt>($($args),*),
            "gi64" => $f::<GaussInt<i64>>($($args),*),
            "gbig" => $f::<GaussInt<BigInt>>($($args),*),
            "ei64" => $f::<EisenInt<i64>>($($args),*),
            "ebig" => $f::<EisenInt<BigInt>>($($args),*),
            "q64" => $f::<Ratio<i64>>($($args),*),
            "qbig" => $f::<Ratio<BigInt>>($($args),*),
            "f2" => $f::<FF2>($($args),*),
            "f3" => $f::<FF<3>>($($args),*),
            "f5" => $f::<FF<5>>($($args),*),
            "f7" => $f::<FF<7>>($($args),*),
            "qx" => $f::<QX>($($args),*),
            "f3x" => $f::<F3X>($($args),*),
            r => panic!("unknown ring {}", r),
        }
    };
}

fn run_case(line: &str) -> String {
    guarded(|| run_case_inner(line)).unwrap_or("TOP-PANIC".into())
}

fn run_case_inner(line: &str) -> String {
    let t: Vec<&str> = line.split_whitespace().collect();
    let ring = t[1];
    match t[0] {
        "hc" => {
            let wt = t[2] == "1";
            let rest = &t[3..];
            dispatch!(ring, run_hc, ring, wt, rest)
        }
        "cx" => {
            let ddeg: isize = t[2].parse().unwrap();
            let rest = &t[3..];
            dispatch!(ring, run_cx, ring, ddeg, rest)
        }
        "mg" => {
            let ddeg: isize = t[2].parse().unwrap();
            let rest = &t[3..];
            dispatch!(ring, run_mg, ring, ddeg, rest)
        }
        "rd" => {
            let ddeg: isize = t[2].parse().unwrap();
            let rest = &t[3..];
            dispatch!(ring, run_rd, ring, ddeg, rest)
        }
        _ => panic!("bad case {}", line),
    }
}

// ------------------------------------------------------------------------------------------------
// text-only generator (own arithmetic; the implementation is not used)
// ------------------------------------------------------------------------------------------------
/// generator-side ring element: Int [a]; Gauss / Eisen [a, b] = a + b*omega; Poly coefficients c0.. (trimmed)
#[derive(Clone, Debug, PartialEq)]
struct G(Vec<BigInt>);
#[derive(Clone, Copy, PartialEq, Debug)]
enum Fam {
    Int,
    Gauss,
    Eisen,
    Poly,
}
fn bi(x: i64) -> BigInt { BigInt::from(x) }
fn gz(f: Fam) -> G {
    match f {
        Fam::Int => G(vec![bi(0)]),
        Fam::Gauss | Fam::Eisen => G(vec![bi(0), bi(0)]),
        Fam::Poly => G(vec![]),
    }
}
fn gint(f: Fam, a: i64) -> G {
    match f {
        Fam::Int => G(vec![bi(a)]),
        Fam::Gauss | Fam::Eisen => G(vec![bi(a), bi(0)]),
        Fam::Poly => if a == 0 { G(vec![]) } else { G(vec![bi(a)]) },
    }
}
fn gone(f: Fam) -> G { gint(f, 1) }
fn trim(mut v: Vec<BigInt>) -> Vec<BigInt> {
    while v.last().map(|x| x.is_zero()).unwrap_or(false) { v.pop(); }
    v
}
fn gadd(f: Fam, x: &G, y: &G) -> G {
    match f {
        Fam::Poly => {
            let n = x.0.len().max(y.0.len());
            let mut v = vec![bi(0); n];
            for (i, a) in x.0.iter().enumerate() { v[i] += a; }
            for (i, a) in y.0.iter().enumerate() { v[i] += a; }
            G(trim(v))
        }
        _ => G(x.0.iter().zip(y.0.iter()).map(|(a, b)| a + b).collect()),
    }
}
fn gneg(x: &G) -> G { G(x.0.iter().map(|a| -a).collect()) }
fn gmul(f: Fam, x: &G, y: &G) -> G {
    match f {
        Fam::Int => G(vec![&x.0[0] * &y.0[0]]),
        Fam::Gauss | Fam::Eisen => {
            // omega^2 = t*omega + e
            let (t, e) = if f == Fam::Gauss { (0, -1) } else { (1, -1) };
            let bd = &x.0[1] * &y.0[1];
            G(vec![&x.0[0] * &y.0[0] + &bd * bi(e), &x.0[0] * &y.0[1] + &x.0[1] * &y.0[0] + &bd * bi(t)])
        }
        Fam::Poly => {
            if x.0.is_empty() || y.0.is_empty() { return G(vec![]); }
            let mut v = vec![bi(0); x.0.len() + y.0.len() - 1];
            for (i, a) in x.0.iter().enumerate() {
                for (j, b) in y.0.iter().enumerate() { v[i + j] += a * b; }
            }
            G(trim(v))
        }
    }
}
fn gnorm(f: Fam, x: &G) -> BigInt {
    match f {
        Fam::Int => x.0[0].abs(),
        Fam::Gauss => &x.0[0] * &x.0[0] + &x.0[1] * &x.0[1],
        Fam::Eisen => &x.0[0] * &x.0[0] + &x.0[0] * &x.0[1] + &x.0[1] * &x.0[1],
        Fam::Poly => bi(x.0.len() as i64),
    }
}
fn gis_zero(x: &G) -> bool { x.0.iter().all(|a| a.is_zero()) }
type GM = Vec<Vec<G>>;
fn gm_zero(f: Fam, m: usize, n: usize) -> GM { vec![vec![gz(f); n]; m] }
fn gm_id(f: Fam, n: usize) -> GM {
    (0..n).map(|i| (0..n).map(|j| if i == j { gone(f) } else { gz(f) }).collect()).collect()
}
fn gm_mul(f: Fam, a: &GM, b: &GM, m: usize, k: usize, n: usize) -> GM {
    let mut c = gm_zero(f, m, n);
    for i in 0..m {
        for j in 0..n {
            let mut s = gz(f);
            for l in 0..k { s = gadd(f, &s, &gmul(f, &a[i][l], &b[l][j])); }
            c[i][j] = s;
        }
    }
    c
}
fn units(f: Fam) -> Vec<G> {
    match f {
        Fam::Int => vec![gint(f, 1), gint(f, -1)],
        Fam::Gauss => vec![G(vec![bi(1), bi(0)]), G(vec![bi(-1), bi(0)]), G(vec![bi(0), bi(1)]), G(vec![bi(0), bi(-1)])],
        Fam::Eisen => vec![
            G(vec![bi(1), bi(0)]), G(vec![bi(-1), bi(0)]), G(vec![bi(0), bi(1)]), G(vec![bi(0), bi(-1)]),
            G(vec![bi(1), bi(-1)]), G(vec![bi(-1), bi(1)]),
        ],
        Fam::Poly => vec![gint(f, 1), gint(f, -1)],
    }
}
fn unit_inv(f: Fam, u: &G) -> G {
    units(f).into_iter().find(|v| gmul(f, u, v) == gone(f)).expect("unit inverse")
}
fn small_g(r: &mut Rng, f: Fam, bound: i64) -> G {
    match f {
        Fam::Int => gint(f, r.range(-bound, bound)),
        Fam::Gauss | Fam::Eisen => G(vec![bi(r.range(-bound, bound)), bi(r.range(-bound, bound))]),
        Fam::Poly => {
            let d = r.below(2) as usize + 1;
            let b = bound.max(1);
            G(trim((0..d).map(|_| bi(r.range(-b, b))).collect()))
        }
    }
}
/// a random unimodular matrix together with its inverse (product of elementary operations)
fn unimodular(r: &mut Rng, f: Fam, n: usize, steps: usize, bound: i64) -> (GM, GM) {
    let mut u = gm_id(f, n);
    let mut ui = gm_id(f, n);
    if n == 0 { return (u, ui); }
    for _ in 0..steps {
        match r.below(5) {
            0 if n > 1 => {
                let (i, j) = (r.below(n as u64) as usize, r.below(n as u64) as usize);
                u.swap(i, j);
                for row in ui.iter_mut() { row.swap(i, j); }
            }
            1 => {
                let i = r.below(n as u64) as usize;
                let us = units(f);
                let c = r.pick(&us).clone();
                let ci = unit_inv(f, &c);
                for x in u[i].iter_mut() { *x = gmul(f, &c, x); }
                for row in ui.iter_mut() { row[i] = gmul(f, &row[i], &ci); }
            }
            _ if n > 1 => {
                let i = r.below(n as u64) as usize;
                let mut j = r.below(n as u64) as usize;
                if i == j { j = (j + 1) % n; }
                let c = small_g(r, f, bound);
                // row_i += c * row_j ;  inverse: col_j -= c * col_i
                let rowj = u[j].clone();
                for (x, y) in u[i].iter_mut().zip(rowj.iter()) { *x = gadd(f, x, &gmul(f, &c, y)); }
                for row in ui.iter_mut() {
                    let d = gmul(f, &c, &row[i]);
                    row[j] = gadd(f, &row[j], &gneg(&d));
                }
            }
            _ => {}
        }
    }
    debug_assert!(gm_mul(f, &u, &ui, n, n, n) == gm_id(f, n));
    (u, ui)
}
fn tok_g(f: Fam, x: &G) -> String {
    match f {
        Fam::Int => x.0[0].to_string(),
        Fam::Gauss | Fam::Eisen => format!("{}:{}", x.0[0], x.0[1]),
        Fam::Poly => if x.0.is_empty() { "0".into() } else { x.0.iter().map(|c| c.to_string()).collect::<Vec<_>>().join("_") },
    }
}

/// a planted divisibility chain e_0 | e_1 | .. of non-zero elements (cumulative products of small factors)
fn chain(r: &mut Rng, f: Fam, len: usize) -> Vec<G> {
    let mut out = vec![];
    let mut cur = gone(f);
    for _ in 0..len {
        let c = match f {
            Fam::Int => gint(f, *r.pick(&[1, 1, 1, 1, 1, -1, 2, 2, 3, 2, 3, 4, 5, 6])),
            Fam::Gauss => match r.below(10) {
                0..=4 => r.pick(&units(f)).clone(),
                5 => G(vec![bi(1), bi(1)]),   // 1 + i
                6 => G(vec![bi(2), bi(1)]),   // 2 + i  (norm 5)
                7 => G(vec![bi(3), bi(0)]),   // 3 (inert)
                8 => G(vec![bi(1), bi(-2)]),  // 1 - 2i
                _ => gint(f, 2),
            },
            Fam::Eisen => match r.below(10) {
                0..=4 => r.pick(&units(f)).clone(),
                5 => G(vec![bi(1), bi(1)]),   // 1 + w (norm 3)
                6 => G(vec![bi(2), bi(0)]),   // 2 (inert)
                7 => G(vec![bi(3), bi(1)]),   // norm 13
                8 => G(vec![bi(2), bi(1)]),   // norm 7
                _ => gint(f, 3),
            },
            Fam::Poly => match r.below(8) {
                0..=3 => gone(f),
                4 => G(vec![bi(0), bi(1)]),           // x
                5 => G(vec![bi(1), bi(1)]),           // x + 1
                6 => G(vec![bi(-1), bi(1)]),          // x - 1
                _ => G(vec![bi(1), bi(0), bi(1)]),    // x^2 + 1
            },
        };
        cur = gmul(f, &cur, &c);
        out.push(cur.clone());
    }
    out
}

#[derive(Clone)]
struct Plan {
    ring: &'static str,
    fam: Fam,
    modp: i64,        // > 0: entries are reduced mod p by the ring (F_p): expectations are computed mod p
    field: bool,      // every non-zero element is a unit
    rational: bool,   // print entries as n/d with a common denominator per matrix
    maxdim: usize,
    steps: usize,
    bound: i64,
    count: usize,     // random hc complexes (on top of the systematic shapes)
    cx: usize,        // public-route complexes
}

fn nonzero_in(p: &Plan, x: &G) -> bool {
    if p.modp > 0 {
        match p.fam {
            Fam::Poly => x.0.iter().any(|c| !(c % bi(p.modp)).is_zero()),
            _ => !(&x.0[0] % bi(p.modp)).is_zero(),
        }
    } else {
        !gis_zero(x)
    }
}
fn is_unit_in(p: &Plan, x: &G) -> bool {
    if p.field { return nonzero_in(p, x); }
    match p.fam {
        Fam::Poly => {
            // over a field of coefficients: the non-zero constants
            let deg = if p.modp > 0 {
                x.0.iter().rposition(|c| !(c % bi(p.modp)).is_zero())
            } else {
                x.0.iter().rposition(|c| !c.is_zero())
            };
            deg == Some(0)
        }
        f => gnorm(f, x).is_one(),
    }
}

/// one space of a generated complex: blocks [image of the previous map | mapped on by the next map | free homology]
struct Space {
    b: usize,
    a: usize,
    h: usize,
}
impl Space {
    fn dim(&self) -> usize { self.b + self.a + self.h }
}
struct GenComplex {
    dims: Vec<usize>,
    maps: Vec<GM>,          // maps[j] : S_j -> S_(j+1), dims[j+1] x dims[j]
    chains: Vec<Vec<G>>,    // planted diagonal entries of maps[j]
}
/// S_0 -> S_1 -> .. -> S_(len-1) with f_(j+1) f_j = 0, f_j = U_(j+1) N_j U_j^-1
fn gen_complex(r: &mut Rng, p: &Plan, blocks: &[(usize, usize)]) -> GenComplex {
    // blocks[j] = (a_j, h_j); a of the last space is forced to 0
    let f = p.fam;
    let len = blocks.len();
    let mut spaces: Vec<Space> = vec![];
    for j in 0..len {
        let b = if j == 0 { 0 } else { spaces[j - 1].a };
        let a = if j + 1 == len { 0 } else { blocks[j].0 };
        spaces.push(Space { b, a, h: blocks[j].1 });
    }
    let dims: Vec<usize> = spaces.iter().map(|s| s.dim()).collect();
    let us: Vec<(GM, GM)> = dims.iter().map(|&d| {
        let st = if r.chance(1, 6) { 0 } else { p.steps };
        unimodular(r, f, d, st, p.bound)
    }).collect();
    let mut maps = vec![];
    let mut chains = vec![];
    for j in 0..len.saturating_sub(1) {
        let (s, t) = (&spaces[j], &spaces[j + 1]);
        let ch = chain(r, f, s.a);
        let mut nrm = gm_zero(f, t.dim(), s.dim());
        for l in 0..s.a { nrm[l][s.b + l] = ch[l].clone(); }
        let m1 = gm_mul(f, &us[j + 1].0, &nrm, t.dim(), t.dim(), s.dim());
        let mut m = gm_mul(f, &m1, &us[j].1, t.dim(), s.dim(), s.dim());
        if f == Fam::Poly && p.modp == 0 && p.bound > 1 {
            // Q[x]: the non-zero constants are units that are not their own inverses; scaling the columns of the
            // first map and the rows of the last map by them keeps f_(j+1) f_j = 0, ranks and torsion classes, and
            // makes leading coefficients != +-1
            if j == 0 {
                for col in 0..s.dim() {
                    if r.chance(1, 2) {
                        let c = gint(f, *r.pick(&[2, 3, -2, 5, -3]));
                        for row in m.iter_mut() { row[col] = gmul(f, &row[col], &c); }
                    }
                }
            }
            if j + 2 == len {
                for row in m.iter_mut() {
                    if r.chance(1, 2) {
                        let c = gint(f, *r.pick(&[2, 3, -2, 5, -3]));
                        for x in row.iter_mut() { *x = gmul(f, x, &c); }
                    }
                }
            }
        }
        maps.push(m);
        chains.push(ch);
    }
    GenComplex { dims, maps, chains }
}
fn toks_of(r: &mut Rng, p: &Plan, m: &GM) -> Vec<String> {
    if p.rational {
        let den = if r.chance(1, 2) { 1 } else { r.range(1, 6) };
        m.iter().flatten().map(|x| format!("{}/{}", x.0[0], den)).collect()
    } else {
        m.iter().flatten().map(|x| tok_g(p.fam, x)).collect()
    }
}
fn join_nonempty(parts: &[String]) -> String {
    parts.iter().filter(|s| !s.is_empty()).cloned().collect::<Vec<_>>().join(" ")
}

/// the hc case of the middle space of a 3-space complex
fn hc_case(r: &mut Rng, p: &Plan, blocks: &[(usize, usize); 3], wt: bool) -> String {
    let c = gen_complex(r, p, blocks);
    let r1 = c.chains[0].iter().filter(|x| nonzero_in(p, x)).count();
    let r2 = c.chains[1].iter().filter(|x| nonzero_in(p, x)).count();
    let planted: Vec<String> = c.chains[0].iter()
        .filter(|x| nonzero_in(p, x) && !is_unit_in(p, x))
        .map(|x| if p.rational { format!("{}/1", x.0[0]) } else { tok_g(p.fam, x) })
        .collect();
    let d1 = toks_of(r, p, &c.maps[0]).join(" ");
    let d2 = toks_of(r, p, &c.maps[1]).join(" ");
    join_nonempty(&[
        format!("hc {} {} 1 {} {} {}", p.ring, wt as u8, r1, r2, planted.len()),
        planted.join(" "),
        format!("{} {} {}", c.dims[0], c.dims[1], c.dims[2]),
        d1,
        d2,
    ])
}

/// arbitrary small matrices (no complex): the implementation does not check d2*d1 = 0; exact comparison only
fn hc_random_case(r: &mut Rng, p: &Plan, wt: bool) -> String {
    let f = p.fam;
    let (c1, c2, c3) = (r.below(4) as usize, r.below(4) as usize, r.below(4) as usize);
    let mk = |r: &mut Rng, m: usize, n: usize| -> GM {
        (0..m).map(|_| (0..n).map(|_| if r.chance(1, 2) { gz(f) } else { small_g(r, f, 3) }).collect()).collect()
    };
    let d1 = mk(r, c2, c1);
    let d2 = mk(r, c3, c2);
    let prod = gm_mul(f, &d2, &d1, c3, c2, c1);
    let zero = prod.iter().flatten().all(|x| !nonzero_in(p, x));
    // when the product happens to vanish the generator has no independent expectations: valid = 0 all the same
    let _ = zero;
    join_nonempty(&[
        format!("hc {} {} 0 0 0 0", p.ring, wt as u8),
        format!("{} {} {}", c1, c2, c3),
        toks_of(r, p, &d1).join(" "),
        toks_of(r, p, &d2).join(" "),
    ])
}

/// x | y in Z[i] / Z[omega] (generator-side: y * conj(x) / N(x) has integer coordinates)
fn gdivides(f: Fam, x: &G, y: &G) -> bool {
    let n = gnorm(f, x);
    if n.is_zero() { return gis_zero(y); }
    let conj = match f {
        Fam::Gauss => G(vec![x.0[0].clone(), -&x.0[1]]),
        Fam::Eisen => G(vec![&x.0[0] + &x.0[1], -&x.0[1]]), // conj(omega) = 1 - omega (omega^2 = omega - 1)
        _ => panic!("gdivides: quadratic rings only"),
    };
    let z = gmul(f, y, &conj);
    (&z.0[0] % &n).is_zero() && (&z.0[1] % &n).is_zero()
}
/// small primes of Z[i] / Z[omega], pairwise non-associate (conjugate pairs included: they are what a gcd step separates)
fn quad_primes(f: Fam) -> Vec<G> {
    let v: &[(i64, i64)] = match f {
        Fam::Gauss => &[(1, 1), (1, 2), (2, 1), (3, 0), (2, 3), (3, 2), (1, 4), (4, 1)],
        // norms 3, 4, 7, 7, 13, 13, 19 (a^2 + ab + b^2)
        Fam::Eisen => &[(1, 1), (2, 0), (2, 1), (1, 2), (3, 1), (1, 3), (3, 2)],
        _ => panic!("quad_primes: quadratic rings only"),
    };
    v.iter().map(|&(a, b)| G(vec![bi(a), bi(b)])).collect()
}
/// diagonal entries that do NOT form a divisibility chain: products of 1..2 primes (optionally times a common factor and
/// a unit) such that at least one pair has neither x | y nor y | x
fn nonchain_diag(r: &mut Rng, f: Fam, k: usize) -> Vec<G> {
    let ps = quad_primes(f);
    loop {
        let common = match r.below(4) {
            0 => r.pick(&ps).clone(),
            1 => gint(f, *r.pick(&[2, 3])),
            _ => gone(f),
        };
        let mut out = vec![];
        for _ in 0..k {
            let mut x = r.pick(&ps).clone();
            if r.chance(1, 3) { x = gmul(f, &x, r.pick(&ps)); }
            x = gmul(f, &x, &common);
            if r.chance(1, 2) { x = gmul(f, &x, r.pick(&units(f))); }
            out.push(x);
        }
        let mut bad_pair = false;
        for i in 0..k {
            for j in i + 1..k {
                bad_pair |= !gdivides(f, &out[i], &out[j]) && !gdivides(f, &out[j], &out[i]);
            }
        }
        if bad_pair { return out; }
    }
}
/// d1 = U * N * V (N: c2 x c1 with the non-chain diagonal), as tokens; returns (k tokens of a_i, c1, c2, d1 tokens)
fn nonchain_d1(r: &mut Rng, p: &Plan, diag: Option<Vec<G>>) -> (Vec<String>, usize, usize, Vec<String>) {
    let f = p.fam;
    let fixed = diag.is_some();
    let d = diag.unwrap_or_else(|| { let k = 2 + r.below(p.maxdim.min(4) as u64 - 1) as usize; nonchain_diag(r, f, k) });
    let k = d.len();
    let (h0, h1) = if fixed { (0, 0) } else { (r.below(2) as usize, r.below(3) as usize) };
    let (c1, c2) = (k + h0, k + h1);
    let mut n = gm_zero(f, c2, c1);
    let off = if h0 > 0 && r.bool() { h0 } else { 0 };
    for l in 0..k { n[l][off + l] = d[l].clone(); }
    // every fourth case keeps the diagonal matrix itself (the elimination then starts from the non-chain diagonal)
    let st = if fixed || r.chance(1, 4) { 0 } else { p.steps };
    let (u, _) = unimodular(r, f, c2, st, p.bound);
    let (v, _) = unimodular(r, f, c1, st, p.bound);
    let m1 = gm_mul(f, &u, &n, c2, c2, c1);
    let m = gm_mul(f, &m1, &v, c2, c1, c1);
    (d.iter().map(|x| tok_g(f, x)).collect(), c1, c2, m.iter().flatten().map(|x| tok_g(f, x)).collect())
}
/// hc case with valid = 2: C_0 -> C_1 -> C_2, d_out = 0 (c3 = 0..2), d_in with a non-chain diagonal form
fn hc_nonchain_case(r: &mut Rng, p: &Plan, wt: bool, diag: Option<Vec<G>>) -> String {
    let (a, c1, c2, d1) = nonchain_d1(r, p, diag);
    let c3 = r.below(3) as usize;
    let z = tok_g(p.fam, &gz(p.fam));
    join_nonempty(&[
        format!("hc {} {} 2 {} 0 {}", p.ring, wt as u8, a.len(), a.len()),
        a.join(" "),
        format!("{} {} {}", c1, c2, c3),
        d1.join(" "),
        vec![z; c3 * c2].join(" "),
    ])
}
/// the same complexes through the public route (2 or 3 spaces, d_deg = +-1): `vec` = "vectorize(gen k) = e_k" is evaluated
fn cx_nonchain_case(r: &mut Rng, p: &Plan, ddeg: i64) -> String {
    let (_, c1, c2, d1) = nonchain_d1(r, p, None);
    let c3 = r.below(3) as usize;
    let z = tok_g(p.fam, &gz(p.fam));
    // spaces S_0 (c1) -> S_1 (c2) -> S_2 (c3) ; degree i is space i (ddeg = +1) or space 2 - i (ddeg = -1)
    let sp = [(c1, c2, d1.join(" ")), (c2, c3, vec![z; c3 * c2].join(" ")), (c3, 0usize, String::new())];
    let order: Vec<usize> = if ddeg > 0 { vec![0, 1, 2] } else { vec![2, 1, 0] };
    let mut parts = vec![format!("cx {} {} 3", p.ring, ddeg)];
    parts.push(order.iter().map(|&s| sp[s].0.to_string()).collect::<Vec<_>>().join(" "));
    parts.push(order.iter().map(|&s| sp[s].1.to_string()).collect::<Vec<_>>().join(" "));
    for &s in &order { parts.push(sp[s].2.clone()); }
    join_nonempty(&parts)
}

/// the public route: a complex of `len` spaces as GenericChainComplex with d_deg = +-1
fn cx_case(r: &mut Rng, p: &Plan, len: usize, ddeg: i64, malformed: bool) -> String {
    let blocks: Vec<(usize, usize)> = (0..len).map(|_| {
        let a = r.below(p.maxdim.min(3) as u64 + 1) as usize;
        let h = r.below(3) as usize;
        (a, h)
    }).collect();
    let c = gen_complex(r, p, &blocks);
    // degree i of the library complex is space i (ddeg = +1) or space len-1-i (ddeg = -1)
    let space_of = |i: usize| if ddeg > 0 { i } else { len - 1 - i };
    let mut dims = vec![];
    let mut rows = vec![];
    let mut mats = vec![];
    for i in 0..len {
        let s = space_of(i);
        dims.push(c.dims[s]);
        if s + 1 < len {
            let mut nr = c.dims[s + 1];
            let mut m = c.maps[s].clone();
            if malformed && r.chance(1, 2) {
                // a differential with one row too many / too few: the generated d-map must panic
                if r.bool() { m.push(vec![gz(p.fam); c.dims[s]]); nr += 1; } else if nr > 0 { m.pop(); nr -= 1; }
            }
            rows.push(nr);
            mats.push(toks_of(r, p, &m).join(" "));
        } else {
            let nr = if malformed && r.chance(1, 2) { 1 } else { 0 };
            rows.push(nr);
            mats.push(vec!["0"; nr * c.dims[s]].iter().map(|_| if p.rational { "0/1".to_string() } else { tok_g(p.fam, &gz(p.fam)) }).collect::<Vec<_>>().join(" "));
        }
    }
    let mut parts = vec![format!("cx {} {} {}", p.ring, ddeg, len)];
    parts.push(dims.iter().map(|d| d.to_string()).collect::<Vec<_>>().join(" "));
    parts.push(rows.iter().map(|d| d.to_string()).collect::<Vec<_>>().join(" "));
    parts.extend(mats);
    join_nonempty(&parts)
}


/// tokens of a change-of-basis matrix (never scaled: the pair must stay inverse)
fn unit_toks(p: &Plan, m: &GM) -> String {
    m.iter().flatten().map(|x| if p.rational { format!("{}/1", x.0[0]) } else { tok_g(p.fam, x) }).collect::<Vec<_>>().join(" ")
}

/// a complex whose summands carry unimodular coordinate maps (Summand::merge / Trans::reduce)
fn mg_case(r: &mut Rng, p: &Plan, len: usize, ddeg: i64) -> String {
    let base = cx_case(r, p, len, ddeg, false);
    let toks: Vec<&str> = base.split_whitespace().collect();
    let l: usize = toks[3].parse().unwrap();
    let dims: Vec<usize> = toks[4..4 + l].iter().map(|s| s.parse().unwrap()).collect();
    let mut parts = vec![format!("mg {} {} 1", p.ring, ddeg), toks[3..].join(" ")];
    let forced = r.below(l as u64) as usize;
    for i in 0..l {
        let c = dims[i];
        let mut v = *r.pick(&[0usize, 1, 1, 2, 3]);
        if i == forced && v == 0 { v = 1 + r.below(3) as usize; }
        let mut d = vec![v.to_string()];
        let pairs = match v { 0 => 0, 1 => 1, _ => 2 };
        for _ in 0..pairs {
            let (u, ui) = unimodular(r, p.fam, c, p.steps.max(3), p.bound.min(2));
            d.push(c.to_string());
            d.push(unit_toks(p, &u));
            d.push(unit_toks(p, &ui));
        }
        parts.push(join_nonempty(&d));
    }
    join_nonempty(&parts)
}

/// arbitrary small matrices and coordinate maps (not inverse pairs, not a complex): exact comparison only
fn mg_random_case(r: &mut Rng, p: &Plan, len: usize, ddeg: i64) -> String {
    let f = p.fam;
    let dims: Vec<usize> = (0..len).map(|_| r.below(4) as usize).collect();
    let mk = |r: &mut Rng, m: usize, n: usize| -> GM {
        (0..m).map(|_| (0..n).map(|_| if r.chance(1, 2) { gz(f) } else { small_g(r, f, 2) }).collect()).collect()
    };
    let mut rows = vec![];
    let mut mats = vec![];
    for i in 0..len {
        let tgt = i as i64 + ddeg;
        let want = if tgt >= 0 && (tgt as usize) < len { dims[tgt as usize] } else { 0 };
        let nr = if r.chance(1, 10) { r.below(3) as usize } else { want };
        rows.push(nr);
        let m = mk(r, nr, dims[i]);
        mats.push(toks_of(r, p, &m).join(" "));
    }
    let mut parts = vec![format!("mg {} {} 0 {}", p.ring, ddeg, len)];
    parts.push(dims.iter().map(|d| d.to_string()).collect::<Vec<_>>().join(" "));
    parts.push(rows.iter().map(|d| d.to_string()).collect::<Vec<_>>().join(" "));
    parts.extend(mats);
    for i in 0..len {
        let c = dims[i];
        let v = r.below(4) as usize;
        let mut d = vec![v.to_string()];
        if v >= 1 {
            let r1 = if r.chance(2, 3) { c } else { r.below(4) as usize };
            d.push(r1.to_string());
            d.push(unit_toks(p, &mk(r, r1, c)));
            d.push(unit_toks(p, &mk(r, c, r1)));
            if v >= 2 {
                let r2 = if r.chance(2, 3) { r1 } else { r.below(4) as usize };
                d.push(r2.to_string());
                d.push(unit_toks(p, &mk(r, r2, r1)));
                d.push(unit_toks(p, &mk(r, r1, r2)));
            }
        }
        parts.push(join_nonempty(&d));
    }
    join_nonempty(&parts)
}

/// generate(..).reduced(), then Summand::merge of the homology of the reduced complex
fn rd_case(r: &mut Rng, p: &Plan, len: usize, ddeg: i64) -> String {
    let base = cx_case(r, p, len, ddeg, false);
    format!("rd{}", &base[2..])
}

fn main() {
    quiet_panics();
    match parse_args() {
        Mode::Replay { file, out } => {
            let mut o = Out::new(&out);
            for l in read_lines(&file) {
                let res = run_case(&l);
                o.case(&l, &res);
            }
            o.finish();
        }
        Mode::Gen { seed, thorough, out } => {
            let mut o = Out::new(&out);
            let mut r = Rng::new(seed);
            let s = if thorough { 6 } else { 1 };
            let base = Plan { ring: "", fam: Fam::Int, modp: 0, field: false, rational: false, maxdim: 7, steps: 6, bound: 2, count: 0, cx: 0 };
            let plans = vec![
                Plan { ring: "i64", count: 350 * s, cx: 60 * s, ..base.clone() },
                Plan { ring: "big", count: 450 * s, cx: 80 * s, ..base.clone() },
                Plan { ring: "big", count: 40 * s, cx: 6 * s, maxdim: 4, bound: 1000, ..base.clone() },
                Plan { ring: "i128", count: 60 * s, cx: 10 * s, maxdim: 5, ..base.clone() },
                Plan { ring: "i32", count: 60 * s, cx: 10 * s, maxdim: 4, steps: 3, bound: 1, ..base.clone() },
                Plan { ring: "q64", count: 200 * s, cx: 40 * s, field: true, rational: true, maxdim: 5, steps: 4, ..base.clone() },
                Plan { ring: "qbig", count: 100 * s, cx: 20 * s, field: true, rational: true, maxdim: 6, ..base.clone() },
                Plan { ring: "f2", count: 250 * s, cx: 40 * s, modp: 2, field: true, ..base.clone() },
                Plan { ring: "f3", count: 250 * s, cx: 40 * s, modp: 3, field: true, ..base.clone() },
                Plan { ring: "f5", count: 250 * s, cx: 40 * s, modp: 5, field: true, ..base.clone() },
                Plan { ring: "gi64", fam: Fam::Gauss, count: 120 * s, cx: 20 * s, maxdim: 4, steps: 4, bound: 1, ..base.clone() },
                Plan { ring: "gbig", fam: Fam::Gauss, count: 250 * s, cx: 40 * s, maxdim: 5, steps: 5, bound: 1, ..base.clone() },
                Plan { ring: "ei64", fam: Fam::Eisen, count: 120 * s, cx: 20 * s, maxdim: 4, steps: 4, bound: 1, ..base.clone() },
                Plan { ring: "ebig", fam: Fam::Eisen, count: 250 * s, cx: 40 * s, maxdim: 5, steps: 5, bound: 1, ..base.clone() },
                // no model dictionary: the property clauses are evaluated on the implementation's output only
                Plan { ring: "qx", fam: Fam::Poly, count: 120 * s, cx: 15 * s, maxdim: 4, steps: 3, bound: 1, ..base.clone() },
                Plan { ring: "f3x", fam: Fam::Poly, count: 120 * s, cx: 15 * s, modp: 3, maxdim: 4, steps: 3, bound: 1, ..base.clone() },
                // non-monic entries (units of Q[x] other than +-1), larger Gaussian / Eisenstein multipliers: units that
                // are not their own inverses take part in genuine gcd steps
                Plan { ring: "qx", fam: Fam::Poly, count: 150 * s, cx: 15 * s, maxdim: 4, steps: 4, bound: 3, ..base.clone() },
                Plan { ring: "gbig", fam: Fam::Gauss, count: 120 * s, cx: 15 * s, maxdim: 5, steps: 8, bound: 3, ..base.clone() },
                Plan { ring: "ebig", fam: Fam::Eisen, count: 120 * s, cx: 15 * s, maxdim: 5, steps: 8, bound: 3, ..base.clone() },
            ];
            let emit = |o: &mut Out, c: String| {
                let res = run_case(&c);
                o.case(&c, &res);
            };
            for p in plans.iter() {
                // 1. systematic corner shapes: every (a0, h0, a1, h1, h2) in 0..=1 (0..=2 for the two main integer plans)
                let top = if (p.ring == "big" || p.ring == "i64") && p.bound == 2 { 2 } else { 1 };
                if p.bound <= 2 {
                    for code in 0..((top + 1) as u64).pow(5) {
                        let mut c = code;
                        let mut d = [0usize; 5];
                        for x in d.iter_mut() { *x = (c % (top as u64 + 1)) as usize; c /= top as u64 + 1; }
                        let blocks = [(d[0], d[1]), (d[2], d[3]), (0, d[4])];
                        let wt = code % 5 != 4;
                        emit(&mut o, hc_case(&mut r, p, &blocks, wt));
                    }
                }
                // 2. random complexes with planted torsion, middle dimension up to maxdim
                for k in 0..p.count {
                    let md = p.maxdim;
                    let a0 = r.below(md.min(4) as u64 + 1) as usize;
                    let a1 = r.below((md - a0).min(3) as u64 + 1) as usize;
                    let h1 = r.below((md - a0 - a1).min(3) as u64 + 1) as usize;
                    let h0 = r.below(3) as usize;
                    let h2 = r.below(3) as usize;
                    let wt = k % 4 != 3;
                    emit(&mut o, hc_case(&mut r, p, &[(a0, h0), (a1, h1), (0, h2)], wt));
                }
                // 3. arbitrary matrices (d2*d1 != 0 in general): exact comparison of what the code does
                for k in 0..p.count / 8 {
                    emit(&mut o, hc_random_case(&mut r, p, k % 2 == 0));
                }
                // 4. the public route GenericChainComplex::generate(..).homology()
                for k in 0..p.cx {
                    let len = 1 + r.below(4) as usize;
                    let ddeg = if k % 2 == 0 { -1 } else { 1 };
                    emit(&mut o, cx_case(&mut r, p, len, ddeg, k % 10 == 9));
                }
                // 5. summands with coordinate maps: Summand::merge / Trans::reduce against the library's own route
                for k in 0..(2 * p.cx) / 3 {
                    let len = 1 + r.below(4) as usize;
                    let ddeg = if k % 2 == 0 { -1 } else { 1 };
                    if k % 6 == 5 {
                        emit(&mut o, mg_random_case(&mut r, p, len, ddeg));
                    } else {
                        emit(&mut o, mg_case(&mut r, p, len, ddeg));
                    }
                }
                // 6. the reduced complex, its homology merged back onto the original generators
                for k in 0..p.cx / 4 {
                    let len = 2 + r.below(3) as usize;
                    let ddeg = if k % 2 == 0 { -1 } else { 1 };
                    emit(&mut o, rd_case(&mut r, p, len, ddeg));
                }
            }
            // 7. non-chain diagonal forms over Z[i] / Z[omega] (valid = 2): a genuine gcd step in diag_normalize whose lcm entry
            //    leaves the normalised sector, so the final unit normalisation multiplies by units that are not their own inverses
            {
                let mut rr = r.fork();
                let q = |a: i64, b: i64| G(vec![bi(a), bi(b)]);
                for p in plans.iter().filter(|p| p.fam == Fam::Gauss || p.fam == Fam::Eisen) {
                    if p.bound == 1 {
                        let ws: Vec<Vec<G>> = if p.fam == Fam::Gauss {
                            vec![vec![q(3, 6), q(6, 3)], vec![q(1, 2), q(2, 1)], vec![q(2, 1), q(1, 2)], vec![q(1, 2), q(2, 1), q(2, 3)]]
                        } else {
                            vec![vec![q(2, 2), q(2, 4)], vec![q(2, 1), q(1, 2)], vec![q(1, 1), q(2, 0)], vec![q(2, 1), q(3, 1), q(1, 2)]]
                        };
                        for w in ws { emit(&mut o, hc_nonchain_case(&mut rr, p, true, Some(w))); }
                    }
                    for k in 0..(22 * s) {
                        if k % 5 == 4 {
                            emit(&mut o, cx_nonchain_case(&mut rr, p, if k % 2 == 0 { -1 } else { 1 }));
                        } else {
                            emit(&mut o, hc_nonchain_case(&mut rr, p, k % 7 != 6, None));
                        }
                    }
                }
            }
            o.finish();
        }
    }
}
