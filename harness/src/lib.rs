//! Shared utilities of the correspondence harness: one deterministic PRNG (every random choice of a
//! run derives from VERIF_SEED), panic capture, line-oriented output.
pub mod khutil;

use std::fs::File;
use std::io::{BufWriter, Write};
use std::panic::{catch_unwind, AssertUnwindSafe};
use std::path::{Path, PathBuf};

/// splitmix64 / xorshift* PRNG - no external crates, reproducible across platforms.
#[derive(Clone)]
pub struct Rng(pub u64);

impl Rng {
    pub fn new(seed: u64) -> Self {
        let mut r = Rng(seed ^ 0x9E3779B97F4A7C15);
        r.next_u64();
        r
    }
    pub fn next_u64(&mut self) -> u64 {
        self.0 = self.0.wrapping_add(0x9E3779B97F4A7C15);
        let mut z = self.0;
        z = (z ^ (z >> 30)).wrapping_mul(0xBF58476D1CE4E5B9);
        z = (z ^ (z >> 27)).wrapping_mul(0x94D049BB133111EB);
        z ^ (z >> 31)
    }
    /// uniform in 0..n (n > 0)
    pub fn below(&mut self, n: u64) -> u64 {
        self.next_u64() % n
    }
    pub fn range(&mut self, lo: i64, hi: i64) -> i64 {
        // inclusive
        lo + (self.below((hi - lo + 1) as u64) as i64)
    }
    pub fn bool(&mut self) -> bool {
        self.next_u64() & 1 == 1
    }
    pub fn chance(&mut self, num: u64, den: u64) -> bool {
        self.below(den) < num
    }
    pub fn pick<'a, T>(&mut self, xs: &'a [T]) -> &'a T {
        &xs[self.below(xs.len() as u64) as usize]
    }
    pub fn fork(&mut self) -> Rng {
        Rng::new(self.next_u64())
    }
}

/// Install a silent panic hook (panics are expected and captured).
pub fn quiet_panics() {
    std::panic::set_hook(Box::new(|_| {}));
}

/// Run `f`, mapping a panic to `None`.
pub fn guarded<T>(f: impl FnOnce() -> T) -> Option<T> {
    catch_unwind(AssertUnwindSafe(f)).ok()
}

pub struct Out {
    pub cases: BufWriter<File>,
    pub imp: BufWriter<File>,
    pub n: usize,
    pub dir: PathBuf,
}

impl Out {
    pub fn new(dir: &Path) -> Self {
        std::fs::create_dir_all(dir).unwrap();
        Out {
            cases: BufWriter::new(File::create(dir.join("cases.txt")).unwrap()),
            imp: BufWriter::new(File::create(dir.join("impl.txt")).unwrap()),
            n: 0,
            dir: dir.to_path_buf(),
        }
    }
    /// one case line (the model's input) and the implementation's result line
    pub fn case(&mut self, case: &str, result: &str) {
        debug_assert!(!case.contains('\n') && !result.contains('\n'));
        writeln!(self.cases, "{}", case).unwrap();
        writeln!(self.imp, "{}", result).unwrap();
        self.n += 1;
    }
    pub fn finish(mut self) {
        self.cases.flush().unwrap();
        self.imp.flush().unwrap();
    }
}

/// Common command line of every harness binary:
///   <bin> gen <seed> <tier> <outdir>      generate cases, run the implementation
///   <bin> replay <casefile> <outdir>      run the implementation on the given case lines
pub enum Mode {
    Gen { seed: u64, thorough: bool, out: PathBuf },
    Replay { file: PathBuf, out: PathBuf },
}

pub fn parse_args() -> Mode {
    let a: Vec<String> = std::env::args().collect();
    match a.get(1).map(|s| s.as_str()) {
        Some("gen") => Mode::Gen {
            seed: a[2].parse().expect("seed"),
            thorough: a[3] == "thorough",
            out: PathBuf::from(&a[4]),
        },
        Some("replay") => Mode::Replay { file: PathBuf::from(&a[2]), out: PathBuf::from(&a[3]) },
        _ => {
            eprintln!("usage: {} gen <seed> <quick|thorough> <outdir> | replay <cases> <outdir>", a[0]);
            std::process::exit(2)
        }
    }
}

pub fn read_lines(p: &Path) -> Vec<String> {
    std::fs::read_to_string(p).unwrap().lines().map(|s| s.to_string()).collect()
}
