"""C08 - chain reduction is a homotopy equivalence with correct transfer maps.

Obligations: Properties/C08.v (one step = strong deformation retraction over any commutative ring with units;
invariant by induction over every script of reduce_at_spec / reduce_at / reduce_all, every oracle of pivot lists;
reduce / ChainComplexBase::reduced; homology corollary; soundness of the certificate checker).
Correspondence: the harness runs ChainReducer / ChainComplexBase::reduced of /repo and records, through the
cfg(yui_verif) hook verif_hook::observe_pivots, the pivot list used by every reduction step (its order is hash
dependent and cannot be re-derived); the extracted model is driven with exactly these lists (the oracle) and must
reproduce every final matrix, forward_mat / backward_mat and tracked vector as data, with the ghost flag set (every
observed pivot list made the permuted leading block triangular) and no unused oracle answer; the verified checker
check_all / check_vec is evaluated on the implementation's own output wherever every space carries a Trans."""
import os
import time

from . import common as C

RULE = ("cases over Z (i64 and BigInt), Q (Ratio<i64>, Ratio<BigInt>), F2, F3, Z[H] (Poly<'H', BigInt>), equally often; "
        "complexes of 1..6 spaces built text-only as D_p = U_(p+1) E_p U_p^-1 (U random invertible with tracked inverse, "
        "0..3 elementary operations per dimension: from very sparse to dense; E_p partial diagonal with 0..100% unit entries "
        "or a common non-unit factor), ranks 0..8 (quick) / 0..12 (thorough), d_deg = +1 and -1, rayon pools of 1, 2, 3, 4, "
        "8, 16 threads; plus conflict-prone complexes over BigInt (pairs of rows that carry a non-unit in the column where "
        "the partner finds its unit pivot candidate, 2..16 threads: the parallel cycle-free pivot search must detect the "
        "conflict under every schedule; a panic on a valid complex is a failing input); kinds: 'red' = ChainReducer::reduce(c, true) (shallow then deep pass, default strategy), 'cpx' = "
        "ChainComplexBase::reduced (rank, Trans and d_matrix of every summand), 'scr' = ChainReducer::new + set_matrix "
        "(with_trans per key) + add_vec (0..2 tracked vectors per space) + a script of 1..6 operations among "
        "reduce_at_spec(i, Rows|Cols, One|AnyUnit|Weight(1.0)|Weight(2.5)), reduce_at(i, deep), reduce_all(deep) with an "
        "ascending, descending or shuffled support; 'bad' = malformed stream in script form (a matrix replaced by a random one "
        "so that d d != 0, a matrix of inconsistent shape, a tracked vector of the wrong length: the assert! panics must be "
        "mirrored by the model's None and the results must still agree; the checker is not applied). The implementation's "
        "result line starts with the pivot lists it used; "
        "the model is run on them and compared exactly. A case is non-trivial when the implementation returned (no panic) "
        "and at least one reduction step used a non-empty pivot list; distinct = distinct case lines")
ASSUME = ["the pivot search is an oracle in the theorems; the only assumption on its answers is the ghost flag (the permuted "
          "leading block is triangular) - this is the postcondition of find_pivots (C11); the triangular solver and the "
          "Schur complement on sparse data are C12 (the model uses their mathematical definition on dense matrices)",
          "sparse matrices / vectors are compared through their dense renderings (explicit stored zeros are not observed)",
          "machine-width overflow (i64, Ratio<i64>) is out of scope: a case whose run panics in a machine-width ring is dropped "
          "by the harness and counted; the unbounded instances (BigInt, Ratio<BigInt>, F2, F3, Z[H]) are never dropped",
          "thread schedules: the run samples pools of 1..16 threads; independence of the schedule is the oracle quantifier "
          "of the theorems together with C11 / C12, not something the run proves"]


def split_impl(impl):
    """-> (panicked, pivot-log tokens, result text)"""
    if impl.startswith("P ") or impl == "P":
        return True, impl.split()[1:], ""
    if " # " in impl:
        a, b = impl.split(" # ", 1)
        return False, a.split(), b
    if impl.endswith(" #"):
        return False, impl[:-2].split(), ""
    return False, [], impl


def pivot_steps(impl):
    """number of reduction steps that used a non-empty pivot list"""
    _, log, _ = split_impl(impl)
    if not log:
        return 0
    try:
        k = int(log[0])
        i, n = 1, 0
        for _ in range(k):
            l = int(log[i])
            i += 1 + 2 * l
            n += 1 if l > 0 else 0
        return n
    except (ValueError, IndexError):
        return 0


def nontrivial(case, impl):
    p, _, _ = split_impl(impl)
    return (not p) and impl not in ("TOP-PANIC", "DROPPED-MACHINE-OVERFLOW") and pivot_steps(impl) > 0


def equal(case, impl, model):
    if impl in ("TOP-PANIC",):
        return False
    if impl == "DROPPED-MACHINE-OVERFLOW":
        return True
    p, _, res = split_impl(impl)
    if p:
        # a panic is only acceptable on the malformed stream (kind `bad`), where the model's None mirrors the
        # assert!; on a valid complex (kinds red, cpx, scr) the reduction must return for every thread schedule:
        # the model cannot tell a panic inside the pivot search from an exhausted oracle, so it is not asked
        return case.split(" ", 1)[0] == "bad" and model == "P"
    if " # " not in model and not model.endswith(" #"):
        return False
    head, mres = (model.split(" # ", 1) + [""])[:2] if " # " in model else (model[:-2], "")
    kv = dict(x.split("=", 1) for x in head.split())
    return kv.get("ok") == "1" and kv.get("rest") == "0" and kv.get("chk") in ("1", "-") and res == mres


def correspondence(ctx, replay_cases=None):
    """as C.correspondence, but the model's input line is `<case> ## <implementation line>`"""
    res = {"ok": False, "n": 0, "disagreements": [], "distinct_nontrivial": 0, "samples": [], "error": None, "kinds": {}}
    exe, hlog, hdt = C.build_harness("c08")
    res["harness_build_s"] = round(hdt, 1)
    if exe is None:
        res["error"] = "harness does not build against /repo:\n" + hlog
        return res
    runner, rlog = C.build_runner(ctx.pid)
    if runner is None:
        res["error"] = "model runner does not build:\n" + rlog
        return res
    out = os.path.join(ctx.work, "corr")
    if replay_cases is not None:
        cf = os.path.join(ctx.work, "replay_cases.txt")
        open(cf, "w").write("\n".join(replay_cases) + "\n")
        rc, o, dt = C.run_harness(exe, ["replay", cf, out], timeout=900)
    else:
        rc, o, dt = C.run_harness(exe, ["gen", ctx.seed, ctx.tier, out], timeout=900 if ctx.tier == "quick" else 3000)
    res["impl_s"] = round(dt, 1)
    if rc != 0:
        res["error"] = "harness run failed (rc=%d):\n%s" % (rc, o[-3000:])
        return res
    res["harness_note"] = o.strip()[-200:]
    cases = open(os.path.join(out, "cases.txt")).read().splitlines()
    impl = open(os.path.join(out, "impl.txt")).read().splitlines()
    if len(cases) != len(impl):
        res["error"] = "line counts differ: cases %d impl %d" % (len(cases), len(impl))
        return res
    # the model is only asked about cases the implementation answered (or panicked on)
    idx = [i for i, a in enumerate(impl) if a not in ("TOP-PANIC", "DROPPED-MACHINE-OVERFLOW")]
    joined = os.path.join(out, "joined.txt")
    with open(joined, "w") as f:
        for i in idx:
            f.write(cases[i] + " ## " + impl[i] + "\n")
    t1 = time.time()
    ok, msg = C.run_model(runner, joined, os.path.join(out, "model_joined.txt"), per_shard=40)
    res["model_s"] = round(time.time() - t1, 1)
    if not ok:
        res["error"] = "model runner failed:\n" + msg
        return res
    mj = open(os.path.join(out, "model_joined.txt")).read().splitlines()
    if len(mj) != len(idx):
        res["error"] = "model produced %d of %d lines" % (len(mj), len(idx))
        return res
    model = ["-"] * len(cases)
    for i, b in zip(idx, mj):
        model[i] = b
    open(os.path.join(out, "model.txt"), "w").write("\n".join(model) + "\n")
    res["n"] = len(cases)
    seen, kinds = set(), {}
    st = {"panics": 0, "dropped": 0, "checker_evaluated": 0, "checker_skipped": 0, "steps": 0,
          "by_ring": {}, "by_threads": {}}
    for i, (c, a, b) in enumerate(zip(cases, impl, model)):
        t = c.split(" ", 4)
        k = t[0]
        kinds[k] = kinds.get(k, 0) + 1
        st["by_ring"][t[1]] = st["by_ring"].get(t[1], 0) + 1
        st["by_threads"][t[2]] = st["by_threads"].get(t[2], 0) + 1
        if b.startswith("DRIVER-EXN") or b == "MODEL-MISSING":
            res["error"] = "model driver error on case %d: %s -> %s" % (i, c[:200], b[:300])
            return res
        if a.startswith("P"):
            st["panics"] += 1
        if a == "DROPPED-MACHINE-OVERFLOW":
            st["dropped"] += 1
        if "chk=1" in b[:40] or "chk=0" in b[:40]:
            st["checker_evaluated"] += 1
        elif "chk=-" in b[:40]:
            st["checker_skipped"] += 1
        st["steps"] += pivot_steps(a)
        if not equal(c, a, b):
            res["disagreements"].append((i, c, a, b))
        if c not in seen and nontrivial(c, a):
            seen.add(c)
    res["kinds"] = kinds
    res["stats"] = st
    res["distinct_nontrivial"] = len(seen)
    step = max(1, len(cases) // 5)
    res["samples"] = [{"case": cases[i][:300], "impl": impl[i][:300], "model": model[i][:300]}
                      for i in range(0, len(cases), step)][:6]
    res["ok"] = True
    return res


def classify(c, a, b):
    return None


def run(ctx):
    obl = C.coq_obligations(ctx.pid, ["Extract/ExtractC08.vo"], more_props=["C08Hom"])
    extra = {}
    if ctx.thorough:
        extra.update(C.coqchk(ctx.pid, more_props=["C08Hom"]))
    corr = correspondence(ctx)
    if corr.get("ok"):
        extra["c08_stats"] = corr.get("stats")
        extra["harness_note"] = corr.get("harness_note")
        extra["correspondence_kind"] = ("exact (matrices, forward/backward matrices, tracked vectors as data) with the observed "
                                        "pivot lists as oracle; plus the verified checker on the implementation's output")
        st = corr["stats"]
        if not corr["disagreements"] and corr["n"] > 100 and (st["steps"] == 0 or st["checker_evaluated"] == 0):
            corr["error"] = ("no reduction step / no checker evaluation was observed in %d cases: the pivot hook or the "
                             "generator no longer works" % corr["n"])
    return C.finish(ctx, "proof", obl, corr, RULE, extra_cov=extra, assumptions=ASSUME)


def replay(ctx, payload):
    cases = payload.get("cases") or [payload["first"]["case"]]
    corr = correspondence(ctx, replay_cases=cases)
    if corr.get("error"):
        print(corr["error"])
        return 2
    for (i, c, a, b) in corr["disagreements"]:
        print("DISAGREE case=%s\n  impl =%s\n  model=%s" % (c[:1500], a[:1500], b[:1500]))
    print("replayed %d cases, %d disagreements" % (corr["n"], len(corr["disagreements"])))
    return 1 if corr["disagreements"] else 0
