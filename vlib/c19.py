"""C19 - involutive Khovanov complex is the mapping cone of 1+tau and respects symmetry."""
import os
import re
from . import common as C
from . import kh

RULE = ("the 23 strongly invertible diagrams of the built-in table (3_1 ... 7_7b) and their mirrors, plus strongly invertible "
        "pretzel diagrams P(3,1,2,1,1) (two listings), P(1,1,2,1,3), P(3,1,4,1,1) whose off-axis crossings form two groups on "
        "each side of the axis (every table knot has one); for each, reduced and unreduced, "
        "h in {0,1} over F2: (khi) the F2-dimensions of KhIHomology per degree (and per bidegree for h=0) against the mapping cone of "
        "1+tau built on the Coq cube complex (diagrams up to 6 (quick) / 8 (thorough) crossings; the oracle checks on each instance that tau "
        "is defined, involutive and commutes with d mod 2); (sym) SymTngBuilder::build_kh_complex against the ordinary engine on the "
        "underlying knot and against the cube oracle; (cxh) d.d = 0 for the involutive complex over F2[H]; (ssi) ssi_invariants with "
        "c = H over F2[H] on the diagram, on the same diagram with the crossing list reordered, and on the mirror: s0 <= s1, "
        "s0 = s1 mod 2, order independence, mirror = (-s1, -s0); (khw) builder option h_range: SymTngBuilder::new; set_h_range(a..=b); "
        "preprocess; process_all; finalize; into_khi_complex, truncated to a+1..=b as in the repository's own h_range test, must satisfy "
        "d.d = 0 and have in every interior degree a+2..=b-1 the same F2-dimensions (h = 0 and h = 1) as the unrestricted KhIComplex::new, "
        "for every window of width 4 (thorough: 3, 4, 6) sliding over the whole support of the cone, from one degree below the lowest "
        "cube degree up to the top (quick: every window for diagrams up to 7 crossings, a rotating quarter above); (khm) manual builder "
        "schedules - auto_elim and/or auto_deloop switched off, preprocess; process_all; [eliminate_all;] finalize; [eliminate_all;] "
        "into_khi_complex (7 schedules; quick: all of them up to 5 crossings, a rotating subset above) - must not panic, give d.d = 0 over F2 "
        "(h = 0, 1) and F2[H], and the same F2-dimensions in every degree as the automatic schedule. non-trivial = every case (all diagrams have >= 3 crossings); "
        "distinct = distinct case lines")


def relations(case, impl):
    kind = case.split()[0]
    if "PANIC" in impl and kind not in ("khw", "khm"):
        return [("panic", "implementation panicked: " + impl[:100])]
    bad = []
    if kind == "sym" and not impl.startswith("SAME"):
        bad.append(("sym-kh", "symmetric construction without the involutive part differs from ordinary Khovanov homology: " + impl[:200]))
    if kind == "cxh" and impl != "OK":
        bad.append(("khi-dd", "involutive complex over F2[H] is not a complex"))
    if kind == "khw" and not impl.startswith("same=1"):
        bad.append(("khi-h-range", "involutive complex built with the builder option h_range differs from the unrestricted one inside the window "
                    "(or the build panicked): " + impl[:300]))
    if kind == "khm" and not impl.startswith("same=1"):
        bad.append(("khi-schedule", "involutive complex built with a manual deloop/eliminate schedule is not a complex, differs from the automatic "
                    "schedule, or the build panicked: " + impl[:300]))
    if kind == "ssi":
        m = re.match(r"K=(-?\d+),(-?\d+) SH=(-?\d+),(-?\d+) MIR=(-?\d+),(-?\d+)", impl)
        if not m:
            return [("ssi", "ssi_invariants failed: " + impl[:100])]
        k0, k1, s0, s1, m0, m1 = [int(x) for x in m.groups()]
        if not (k0 <= k1 and (k1 - k0) % 2 == 0):
            bad.append(("ssi-parity", "s0 <= s1, s0 = s1 mod 2 fails: (%d,%d)" % (k0, k1)))
        if (s0, s1) != (k0, k1):
            bad.append(("ssi-order", "ssi depends on the crossing order: (%d,%d) vs (%d,%d)" % (k0, k1, s0, s1)))
        if (m0, m1) != (-k1, -k0):
            bad.append(("ssi-mirror", "ssi(mirror) = (%d,%d) but (-s1,-s0) = (%d,%d)" % (m0, m1, -k1, -k0)))
    return bad


def equal(case, impl, model):
    return model in ("REL", "SKIP") or impl == model


def nontrivial(case, impl):
    return True


def run(ctx):
    ctx.equal = equal
    obl = C.coq_obligations(ctx.pid, ["Extract/ExtractC19.vo"])
    extra = {}
    if ctx.thorough:
        extra.update(C.coqchk(ctx.pid))
    corr = C.correspondence(ctx, "c19", nontrivial, per_shard=4)
    ev = []
    if corr.get("ok"):
        cases = open(os.path.join(ctx.work, "corr", "cases.txt")).read().splitlines()
        impl = open(os.path.join(ctx.work, "corr", "impl.txt")).read().splitlines()
        model = open(os.path.join(ctx.work, "corr", "model.txt")).read().splitlines()
        for c, a in zip(cases, impl):
            for key, text in relations(c, a):
                ev.append((key, text, {"case": c, "impl": a[:1500], "model": text}))
        extra["cone_oracle_compared"] = sum(1 for c, m in zip(cases, model) if c.startswith("khi") and m not in ("SKIP", "REL"))
        extra["sym_oracle_compared"] = sum(1 for c, m in zip(cases, model) if c.startswith("sym") and m not in ("SKIP", "REL"))
    return C.finish(ctx, "other", obl, corr, RULE, extra_cov=extra, assumptions=kh.KH_ASSUME + [
        "invariance of the involutive s-type invariants is not proved; their relations are evaluated on the built-in table"],
        explain=("Level 'other': the Coq model is the mapping cone of 1+tau on the cube-of-resolutions complex over F2 (definition), "
                 "with per-instance checks that tau is a well-defined involutive chain map; the library's KhIHomology dimensions are "
                 "compared exactly (all degrees / bidegrees); the remaining clauses are relations evaluated on the implementation."),
        extra_violations=ev)


def replay(ctx, payload):
    ctx.equal = equal
    cases = payload.get("cases") or [payload["first"]["case"]]
    corr = C.correspondence(ctx, "c19", nontrivial, replay_cases=cases, per_shard=4)
    if corr.get("error"):
        print(corr["error"])
        return 2
    impl = open(os.path.join(ctx.work, "corr", "impl.txt")).read().splitlines()
    n = 0
    for c, a in zip(cases, impl):
        for key, text in relations(c, a):
            print("RELATION-FAILS [%s] %s\n  case=%s" % (key, text, c[:400]))
            n += 1
    for (i, c, a, b) in corr["disagreements"]:
        print("DISAGREE with cone oracle case=%s\n  impl =%s\n  model=%s" % (c[:300], a[:600], b[:600]))
    print("replayed %d cases, %d relation failures, %d disagreements" % (corr["n"], n, len(corr["disagreements"])))
    return 1 if (n or corr["disagreements"]) else 0
