"""C20 - the ykh command reports the library's result for every option combination.

obligations   Properties/C20.v (decision table, error outcomes, table layout round trip; all closed)
end to end    the REAL binary, rebuilt from /repo's working tree on every run (cargo build --offline -p ykh,
              /repo's own target dir), is run as a subprocess by harness/src/bin/c20.rs on the whole finite
              product {kh,ckh} x -t x -c x -m x -r x links; three comparisons per argv:
                classification  model (Cli.v, from the raw option strings) vs the binary's exit status / error kind
                layout          Table.v applied to the library's cells vs the printed text, byte for byte
                cell contents   library API (KhHomology / KhComplex called by the harness for the ring, h, t,
                                reduced, mirror that the MODEL decided) vs the printed text
"""
import os
import re

from . import common as C

RULE = ("cases = exhaustive enumeration of the finite option product {kh,ckh} x -t {absent,Z,Q,F2,F3} x "
        "-c {absent,0,2,\"1,1\",H,\"0,T\",\"H,T\",x,\"1,\",T} + constant pairs {\"0,1\",\"0,2\",\"2,1\",\"2,3\",\"0,-1\","
        "\"3,3\",\"0,1/2\"} (h zero with a non-zero constant t = a sequence, not a bigraded table; both non-zero; constants "
        "that vanish only after reduction: 2 = 0 in F2, 3 = 0 in F3, so \"0,2\" over F2 and \"3,3\" over F3 are bigraded "
        "and \"2,1\" over F2 is a sequence) x {-m} x {-r} x 6 link inputs (3_1, 4_1, Hopf PD code, "
        "empty PD code, unknown name, non-closed PD code) = 4080 runs of the real binary, plus 600 random -c strings over "
        "the parsers' alphabet; thorough adds -t {Gauss,Eisen,z,F5,empty,\"Z \"} x 94 further -c strings (integers at the "
        "i32/i64 boundaries, signs, rationals incl. 1/0, monomials H^2, H^{12}, H^{-1}, two-variable forms, white space, "
        "non-ASCII, malformed) on those links, 37 further link inputs (knot/link table names up to K11n34, split / kinked / "
        "multi-component PD codes, Borromean rings, JSON with white space, a file path, malformed JSON, unreadable paths) "
        "on the basic option lists, and 6000 random -c strings; three argv spellings (short, long, attached). A case is "
        "non-trivial when the binary printed a table (compared byte by byte with Table.v's layout of the cells returned "
        "by the library API for the display mode - bigraded table / sequence / generator grid - that the MODEL decided) "
        "or the application itself (not clap) reported an error; distinct = distinct (command, link, "
        "-t, -c, -m, -r)")
ASSUME = [
    "clap delivers option values verbatim (modelled, validated by the run); -g/-a/-s/-d/-f/--log are outside the property",
    "every character of a printed table has display width 1 (unicode-width), validated by the byte-for-byte comparison",
    "kh tables are deterministic (homology); the generator grid printed by ckh depends on the per-process hash seeds of the "
    "tangle-complex builder: when the exact text differs, the printed text is checked by the extracted checker "
    "Table.check_ckh_text (self-consistent layout, sorted axes, right symbol, Euler characteristic per row for q-graded "
    "parameters / in total otherwise, equal to the library's); at most 25% of the q-graded ckh tables may need this fallback",
    "for constants beyond 32 bits a panic (i64 overflow) in one process and a table in the other is not counted",
    "link loading (serde_json, Link::load) and the library computation are parameters of the model",
]

SUFFIX = re.compile(r"( ovf=1)?( cls=([gu]) fb=(ok|no))?$")


def split_model(model):
    m = SUFFIX.search(model)
    core = model[:m.start()] if m else model
    return core, bool(m and m.group(1)), (m.group(3) if m else None), (m.group(4) if m else None)


def kind_of(line):
    t = line.split(" ")
    return t[1] if len(t) > 1 else line


def how_equal(case, impl, model):
    """'exact' | 'fallback' | 'overflow' | None"""
    core, ovf, cls, fb = split_model(model)
    if impl == core:
        return "exact"
    if case.startswith("cmd=ckh ") and fb == "ok" and impl.startswith("exit=0 kind=table ") and \
            core.startswith("exit=0 kind=table "):
        return "fallback"
    if ovf and {kind_of(impl), kind_of(core)} == {"kind=table", "kind=error:panic"}:
        return "overflow"
    return None


def equal(case, impl, model):
    return how_equal(case, impl, model) is not None


def head(case):
    return " ".join(case.split(" ")[:6])          # cmd, L, T, C, M, R  (not the argv form)


def nontrivial(case, impl):
    k = kind_of(impl)
    return k == "kind=table" or (k.startswith("kind=error:") and k != "kind=error:clap")


def build_ykh():
    """cargo build of the CLI from the current tree (incremental); returns (exe, log, seconds)"""
    over = os.environ.get("VERIF_YKH_BIN")
    if over:
        return (over if os.path.exists(over) else None), "binary overridden by VERIF_YKH_BIN=%s (not rebuilt)" % over, 0.0
    env = dict(C.ENV)
    env["CARGO_TARGET_DIR"] = os.path.join(C.REPO, "target")
    env.pop("RUSTFLAGS", None)
    rc, out, dt = C.sh(["cargo", "build", "--offline", "-p", "ykh"], cwd=C.REPO, env=env, timeout=3000)
    exe = os.path.join(C.REPO, "target", "debug", "ykh")
    if rc != 0 or not os.path.exists(exe):
        return None, out[-3000:], dt
    return exe, out[-300:], dt


def stats(ctx):
    """how the cases agreed, per class (read back from the work directory)"""
    d = os.path.join(ctx.work, "corr")
    try:
        cases = open(os.path.join(d, "cases.txt")).read().splitlines()
        impl = open(os.path.join(d, "impl.txt")).read().splitlines()
        model = open(os.path.join(d, "model.txt")).read().splitlines()
    except OSError:
        return {}, None
    st = {"exact": 0, "fallback": 0, "overflow": 0, "ckh_graded_exact": 0, "ckh_graded_fallback": 0,
          "ckh_ungraded_exact": 0, "ckh_ungraded_fallback": 0, "kinds": {}}
    first_fb = None
    seen = set()
    for c, a, b in zip(cases, impl, model):
        h = how_equal(c, a, b)
        k = kind_of(a)
        st["kinds"][k] = st["kinds"].get(k, 0) + 1
        seen.add(head(c))
        if h is None:
            continue
        st[h] += 1
        _, _, cls, _ = split_model(b)
        if cls and h in ("exact", "fallback"):
            key = "ckh_%s_%s" % ("graded" if cls == "g" else "ungraded", h)
            st[key] += 1
            if key == "ckh_graded_fallback" and first_fb is None:
                first_fb = {"case": c, "impl": a, "model": b}
    st["distinct_option_combinations"] = len(seen)
    return st, first_fb


def run(ctx):
    ctx.equal = equal
    obl = C.coq_obligations(ctx.pid, ["Extract/ExtractC20.vo"])
    extra = {}
    if ctx.thorough:
        extra.update(C.coqchk(ctx.pid))
    exe, blog, bdt = build_ykh()
    extra["ykh_build_s"] = round(bdt, 1)
    extra["ykh_binary"] = exe
    extra["ykh_build_log_tail"] = blog[-300:]
    if exe is None:
        corr = {"ok": False, "n": 0, "disagreements": [], "distinct_nontrivial": 0, "samples": [], "kinds": {},
                "error": "the ykh binary does not build from the current tree:\n" + blog}
        return C.finish(ctx, "proof", obl, corr, RULE, extra_cov=extra, assumptions=ASSUME)
    corr = C.correspondence(ctx, "c20", lambda c, a: nontrivial(c, a), harness_env={"VERIF_YKH_BIN": exe})
    extra_viol = []
    if corr.get("ok"):
        st, first_fb = stats(ctx)
        extra["agreement"] = st
        g_fb, g_ex = st.get("ckh_graded_fallback", 0), st.get("ckh_graded_exact", 0)
        if g_fb > max(5, 0.25 * (g_fb + g_ex)):
            extra_viol.append(("ckh-graded-systematic",
                               "ckh tables for q-graded parameters differ from the library's generator grid "
                               "systematically (%d of %d only agree up to Euler characteristic)" % (g_fb, g_fb + g_ex),
                               first_fb or {}))
        # distinct non-trivial cases are counted per option combination, not per argv spelling
        d = os.path.join(ctx.work, "corr")
        cases = open(os.path.join(d, "cases.txt")).read().splitlines()
        impl = open(os.path.join(d, "impl.txt")).read().splitlines()
        corr["distinct_nontrivial"] = len({head(c) for c, a in zip(cases, impl) if nontrivial(c, a)})
    return C.finish(ctx, "proof", obl, corr, RULE, extra_cov=extra, assumptions=ASSUME, extra_violations=extra_viol)


def replay(ctx, payload):
    ctx.equal = equal
    cases = payload.get("cases") or [payload["first"]["case"]]
    exe, blog, _ = build_ykh()
    if exe is None:
        print("the ykh binary does not build:\n" + blog)
        return 2
    corr = C.correspondence(ctx, "c20", lambda c, a: nontrivial(c, a), replay_cases=cases,
                            harness_env={"VERIF_YKH_BIN": exe})
    if corr.get("error"):
        print(corr["error"])
        return 2
    for (i, c, a, b) in corr["disagreements"]:
        print("DISAGREE case=%s\n  impl =%s\n  model=%s" % (c, a, b))
    print("replayed %d cases, %d disagreements" % (corr["n"], len(corr["disagreements"])))
    return 1 if corr["disagreements"] else 0
