"""C11 - parallel pivot search always returns an acyclic (triangular) pivot set.

Obligations: Properties/C11.v (safety for every schedule at lock-region granularity, top-sort/triangularity,
progress).  Correspondence: trace validation under a controlled schedule - the harness (built with
--cfg yui_verif) parks the rayon workers at the schedule points of pivot.rs, a seeded controller releases
one at a time, and the extracted model must reproduce every recorded step (chosen column / retry / commit,
log lengths) and the final pivot set; the returned list is checked by the property's predicate on the real
matrix (harness side) and by the verified checker `pivots_ok` (model side)."""
from . import common as C

RULE = ("cases = 'ctl' controlled traces (1..8 rayon workers; policies: maximal conflict = all searches before any "
        "commit, uniform random, round robin, commit first, lowest id) on random / structured sparse matrices over "
        "Z (i64), Q, F_3, F_5, Z[H] up to 14x14 (quick) / 24x24 (thorough), {Rows, Cols} x {One, AnyUnit, Weight(w)}, "
        "including 'blanket' worst cases where most rows reach the parallel phase and compete for the same candidate "
        "columns, and matrices with explicitly stored zeros; plus 'unc' uncontrolled 16-worker runs and 'seq' 1-worker "
        "runs (exact set predicted). A case is non-trivial when it is a controlled trace with at least one retry or "
        "with two workers inside a row at the same time, or an unc/seq case returning >= 2 pivots; distinct = distinct "
        "case lines. Guard of the generator: all c_weights are integers and row/column sums stay below 2^53 (the "
        "code's f64 sums are then exact); Weight thresholds are integers.")
ASSUME = ["sequential consistency at lock-region granularity: the code between two schedule points is one atomic step "
          "(the only shared accesses are the read-locked sync at task start and the write-locked critical section)",
          "rayon's work distribution (any idle worker may take any remaining row in the model), std::sync::RwLock, "
          "thread_local are trusted; the runtime half of deadlock freedom (no nested lock acquisition) is by inspection",
          "f64 weight sums are exact for the generated matrices (integer weights, small sums)",
          "the controller decides that a worker is idle from /proc/<pid>/task/<tid>/stat (state S and not inside the "
          "hook); traces in which a worker reached a schedule point late are detected and discarded (counted in stats)"]


def _trace_info(case):
    sec = [x.strip() for x in case.split("|")]
    toks = sec[3].split() if len(sec) > 3 and sec[3] not in ("-", "!TIMING") else []
    retries = sum(1 for t in toks if "=r" in t)
    busy = set()
    overlap = False
    for t in toks:
        lhs, rhs = t.split("=", 1)
        tid = lhs[1:].split(":")[0]
        if lhs[0] in "SR":
            if rhs.startswith("s"):
                busy.add(tid)
            else:
                busy.discard(tid)
        else:
            if rhs.startswith("c"):
                busy.discard(tid)
        if len(busy) >= 2:
            overlap = True
    return retries, overlap, len(toks)


def nontrivial(case, impl):
    k = case.split(" ", 1)[0]
    if k == "ctl":
        r, ov, _ = _trace_info(case)
        return r > 0 or ov
    if k in ("unc", "seq"):
        sec = [x.strip() for x in case.split("|")]
        return len(sec) > 3 and len(sec[3].split()) >= 2 and not sec[3].startswith("!")
    return False


def equal(case, impl, model):
    return impl == "OK" and model == "OK"


def _stats(ctx):
    import os
    out = os.path.join(ctx.work, "corr", "cases.txt")
    st = {"ctl_traces": 0, "with_retry": 0, "retries": 0, "with_overlap": 0, "steps": 0, "unc": 0, "seq": 0}
    if not os.path.exists(out):
        return st
    for line in open(out):
        k = line.split(" ", 1)[0]
        if k == "ctl":
            r, ov, n = _trace_info(line)
            st["ctl_traces"] += 1
            st["with_retry"] += 1 if r else 0
            st["retries"] += r
            st["with_overlap"] += 1 if ov else 0
            st["steps"] += n
        elif k in ("unc", "seq"):
            st[k] += 1
        elif k == "stats":
            for kv in line.split()[1:]:
                a, b = kv.split("=")
                st["harness_" + a] = int(b)
    return st


def run(ctx):
    ctx.equal = equal
    obl = C.coq_obligations(ctx.pid, ["Extract/ExtractC11.vo"])
    extra = {}
    if ctx.thorough:
        extra.update(C.coqchk(ctx.pid))
    corr = C.correspondence(ctx, "c11", nontrivial)
    st = _stats(ctx)
    extra["trace_stats"] = st
    extra["correspondence_kind"] = ("exact, as trace validation under a controlled schedule (every recorded step "
                                    "replayed in the model); uncontrolled runs validated by the verified checker only")
    extra_viol = []
    if corr.get("ok") and not corr.get("disagreements") and st["ctl_traces"] > 50 and st["with_retry"] == 0:
        corr["error"] = "no controlled trace contained a retry: the schedule controller does not create conflicts any more"
    return C.finish(ctx, "proof", obl, corr, RULE, extra_cov=extra, assumptions=ASSUME, extra_violations=extra_viol)


def replay(ctx, payload):
    ctx.equal = equal
    cases = payload.get("cases") or [payload["first"]["case"]]
    corr = C.correspondence(ctx, "c11", nontrivial, replay_cases=cases)
    if corr.get("error"):
        print(corr["error"])
        return 2
    for (i, c, a, b) in corr["disagreements"]:
        print("DISAGREE case=%s\n  impl =%s\n  model=%s" % (c[:1500], a, b))
    print("replayed %d cases (recorded traces + fresh controlled runs), %d disagreements" % (corr["n"], len(corr["disagreements"])))
    return 1 if corr["disagreements"] else 0
