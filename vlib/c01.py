"""C01 - Khovanov homology equals the cube-of-resolutions definition."""
from . import common as C
from . import kh
from . import c01tng

RULE = ("diagrams: empty link, crossingless unknot, table knots and their mirrors, Hopf link, split unions, kinked diagrams "
        "(all four Reidemeister-I kinks), a partially resolved diagram, random braid closures on 2-4 strands (relabelled, crossing "
        "order shuffled, mirrored) up to 6 crossings (quick) / 8 (thorough); parameters (h,t) in {(0,0),(1,0),(0,1),(2,0),(1,1),"
        "(3,2),(-1,0),(0,-3)}, reduced and unreduced; per case the tables over Z (rank+torsion), Q, F2, F3 and, for h=t=0, "
        "the bigraded tables are compared exactly; each case is additionally run in pools of 1 and 16 threads and with the "
        "crossing list shuffled (must give the identical table); kind hr: the builder option h_range (TngComplexBuilder::"
        "set_h_range with ranges below / around / above 0 on diagrams with negative crossings, set before any crossing or "
        "after k crossings): inside the range the restricted build must give the unrestricted homology, whose table is "
        "compared with the oracle's. non-trivial = diagram with >= 2 crossings; distinct = distinct case lines")


def nontrivial(case, impl):
    return case.count(",") >= 1


def run(ctx):
    obl = C.coq_obligations(ctx.pid, ["Extract/ExtractC01.vo", c01tng.EXTRACT], more_props=["C01Smith"] + c01tng.PROPS)
    extra = {}
    if ctx.thorough:
        extra.update(C.coqchk(ctx.pid, more_props=["C01Smith"] + c01tng.PROPS))
    corr = C.correspondence(ctx, "c01", nontrivial)
    # hash-order independence: a second, fresh process must print the identical implementation results
    if corr.get("ok"):
        import os, shutil
        first = open(os.path.join(ctx.work, "corr", "impl.txt")).read()
        exe = os.path.join(C.TARGET, "release", "c01")
        out2 = os.path.join(ctx.work, "corr2")
        rc, o, dt = C.run_harness(exe, ["gen", ctx.seed, ctx.tier, out2])
        second = open(os.path.join(out2, "impl.txt")).read() if rc == 0 else None
        extra["fresh_process_rerun_identical"] = (first == second)
        if first != second:
            a, b = first.splitlines(), (second or "").splitlines()
            cases = open(os.path.join(ctx.work, "corr", "cases.txt")).read().splitlines()
            for i, (x, y) in enumerate(zip(a, b)):
                if x != y:
                    corr["disagreements"].append((i, cases[i], x, "SECOND-PROCESS " + y))
                    break
    # the first layer of the v2 engine (tng.rs / path.rs / cob.rs connect): mirrored model, exact correspondence
    obl_t, corr_t = c01tng.run_part(ctx)
    c01tng.merge(obl, corr, obl_t, corr_t)
    return C.finish(ctx, "other", obl, corr, RULE + " || " + c01tng.RULE, extra_cov=extra, assumptions=kh.KH_ASSUME,
                    explain=kh.EXPLAIN % "C01")


def replay(ctx, payload):
    cases = payload.get("cases") or [payload["first"]["case"]]
    tcases = [c for c in cases if c.split(" ", 1)[0] in c01tng.KINDS]
    cases = [c for c in cases if c.split(" ", 1)[0] not in c01tng.KINDS]
    corr = C.correspondence(ctx, "c01", nontrivial, replay_cases=cases) if cases else {"n": 0, "disagreements": []}
    if tcases:
        ct = c01tng.replay_part(ctx, tcases)
        if ct.get("error"):
            print(ct["error"])
            return 2
        corr["n"] = corr.get("n", 0) + ct["n"]
        corr["disagreements"] = list(corr.get("disagreements", [])) + ct["disagreements"]
    if corr.get("error"):
        print(corr["error"])
        return 2
    for (i, c, a, b) in corr["disagreements"]:
        print("DISAGREE case=%s\n  impl =%s\n  model=%s" % (c, a, b))
    print("replayed %d cases, %d disagreements" % (corr["n"], len(corr["disagreements"])))
    return 1 if corr["disagreements"] else 0
