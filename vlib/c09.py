"""C09 - Smith normal form: D = P*A*Q, diagonal divisibility chain, true inverses."""
import os

from . import common as C

RULE = ("cases are generated text-only (the implementation is never used to build inputs) from one PRNG seeded by "
        "VERIF_SEED, per ring: i32 / Z[i] over i32 / Z[w] over i32 / Ratio<i64> / Ratio<BigInt> / FF2 / FF<2>, FF<3>, "
        "FF<5>, FF<7> (no LLL preprocessing in the implementation) and i64 / i128 / BigInt / GaussInt<i64|BigInt> / "
        "EisenInt<i64|BigInt> (LLL-HNF preprocessed; the model runs Model/Lll.v first). Shapes: every (m, n) in "
        "0..maxdim x 0..maxdim (maxdim 4..7 per ring) systematically, then random; matrix kinds: zero, sparse small "
        "(rank deficient), dense small, planted invariant factors U*diag*V with non-sorted non-chain diagonal (units, "
        "primes, composites, Gaussian / Eisenstein multiples) and random unimodular U, V, diagonal inputs with units "
        "and zeros in between, big entries (60 / 400 / 1000 bits = up to 302 decimal digits, BigInt rings only, low-rank products and "
        "independent entries; few of them, the extracted model needs seconds per case there); rationals with small non-reduced denominators. Per matrix: `snf` cases with all four flags, and "
        "all 16 flag subsets for every fourth matrix (two random subsets otherwise), each run through snf() and "
        "snf_in_place() (must agree) and compared as data on (D, P, Pinv, Q, Qinv, rank, factors) with the extracted "
        "model; plus one `chk` case carrying the implementation's own output under all four flags, on which the Coq "
        "checker (chk_pq, chk_inv, chk_shape, proved sound; chk_minors = gcds of k x k minors by Laplace expansion for "
        "m, n small) is evaluated: the expected verdict is all-true. A case is non-trivial when the call returned "
        "(no panic) and the matrix has rank >= 1 (snf) resp. m, n >= 1 (chk); distinct = distinct case lines")
ASSUME = ["pre_ok / pre_total: the LLL-HNF preprocessing returns H = P*A with P*Pinv = I = Pinv*P, and returns at all (property "
          "C10); premises of C09_total for the preprocessed types (i64, i128, BigInt, Z[i]/Z[w] over i64/BigInt), exercised by the "
          "exact comparison; the dictionaries without preprocessing have closed theorems",
          "ring dictionaries of Model/Snf.v behave as the Rust scalar types on the explored entries (validated by the run; "
          "C14/C15); snf_laws, norm_laws, gcdx_total are proved for Z, Z[i], Z[w], Q, F_2, F_p in Coq",
          "uniqueness of the invariant factors is a theorem (Properties/C09Unique.v: any two chain Smith forms of one matrix "
          "over a Bezout integral domain have the same rank and entrywise associate diagonals; equal normalised diagonals for "
          "Z, Z[i], Z[w], fields; gcds of k x k minors over Z via CoqEAL in Properties/C09UniqueMinors.v); chk_minors is "
          "additionally evaluated on the implementation's output for small shapes (validation of individual outputs)",
          "machine-width overflow aborts (i32/i64/i128 and their quadratic / rational extensions panic where the unbounded "
          "model returns a value) are out of scope and counted, not flagged; BigInt rings are compared exactly; a model run "
          "returning None (model_none) or a panic on an arbitrary-precision ring would be reported as a violation"]

MACHINE = {"i32", "i64", "i128", "gi32", "gi64", "ei32", "ei64", "q64"}
BAD = ("TOP-PANIC", "FORMS-DIFFER")


def overflow_abort(case, impl, model):
    return impl == "P" and model != "P" and case.split()[1] in MACHINE


def equal(case, impl, model):
    if impl in BAD:
        return False
    if case.startswith("snf ") and overflow_abort(case, impl, model):
        return True
    return impl == model


def nontrivial(case, impl):
    t = case.split()
    if impl == "P" or impl in BAD:
        return False
    if t[0] == "snf":
        p = impl.split(" | ")
        return len(p) == 7 and p[5].isdigit() and int(p[5]) >= 1
    return int(t[3]) >= 1 and int(t[4]) >= 1


def d_part(line):
    return line.split(" | ")[0]


def scan(ctx):
    """statistics of the run + violations that the line comparison alone does not show:
    a panic of the implementation on an arbitrary-precision ring, a run of the model that returns None"""
    out = os.path.join(ctx.work, "corr")
    try:
        cases = open(os.path.join(out, "cases.txt")).read().splitlines()
        impl = open(os.path.join(out, "impl.txt")).read().splitlines()
        model = open(os.path.join(out, "model.txt")).read().splitlines()
    except OSError:
        return [], {}
    st = {"overflow_aborts": 0, "model_none": 0, "impl_panics_exact_rings": 0, "snf_cases": 0, "chk_cases": 0,
          "chk_with_minors": 0, "flag_subsets_seen": 0, "rings": {}, "max_rank": 0, "preprocessed_ring_cases": 0}
    extra = []
    flags = set()
    for c, a, b in zip(cases, impl, model):
        t = c.split(" ", 5)
        ring = t[1]
        st["rings"][ring] = st["rings"].get(ring, 0) + 1
        if t[0] == "snf":
            st["snf_cases"] += 1
            flags.add(t[2])
            if ring in ("i64", "i128", "big", "gi64", "gbig", "ei64", "ebig"):
                st["preprocessed_ring_cases"] += 1
            if overflow_abort(c, a, b):
                st["overflow_aborts"] += 1
            if b == "P":
                st["model_none"] += 1
                extra.append(("model-none", "the model returns None (a panic of SnfCalc in unbounded arithmetic or fuel "
                              "exhausted): the call does not terminate normally", {"case": c, "impl": a, "model": b}))
            elif a == "P" and ring not in MACHINE:
                st["impl_panics_exact_rings"] += 1
                extra.append(("impl-panic", "the implementation panics on an arbitrary-precision input",
                              {"case": c, "impl": a, "model": b}))
            p = a.split(" | ")
            if len(p) == 7 and p[5].isdigit():
                st["max_rank"] = max(st["max_rank"], int(p[5]))
        else:
            st["chk_cases"] += 1
            if t[2] == "1":
                st["chk_with_minors"] += 1
    st["flag_subsets_seen"] = len(flags)
    return extra, st


def prioritise(corr):
    """order the disagreements so that the first one written to the replay file is a failing input of the property
    itself: (1) a clause of the property evaluated false on the implementation's own output (`chk`), (2) a diagonal
    form that differs from the model's, (3) the two call forms disagree, (4) other differences (P, Q, ...)."""
    def key(d):
        i, c, a, b = d
        if c.startswith("chk "):
            return (0, i)
        if a in BAD:
            return (2, i)
        if a != "P" and b != "P" and d_part(a) != d_part(b):
            return (1, i)
        return (3, i)
    corr["disagreements"] = sorted(corr.get("disagreements", []), key=key)


def explain(corr):
    dis = corr.get("disagreements", [])
    if not dis:
        return None
    k = {"clause_false_on_impl_output": 0, "diagonal_differs": 0, "call_forms_differ": 0, "transforms_or_panic_differ": 0}
    for (i, c, a, b) in dis:
        if c.startswith("chk "):
            k["clause_false_on_impl_output"] += 1
        elif a in BAD:
            k["call_forms_differ"] += 1
        elif a != "P" and b != "P" and d_part(a) != d_part(b):
            k["diagonal_differs"] += 1
        else:
            k["transforms_or_panic_differ"] += 1
    return ("disagreement classes: %s. `chk` cases evaluate the property's clauses (D = P*A*Q, P*Pinv = I = Pinv*P, "
            "Q*Qinv = I = Qinv*Q, diagonal / non-zero first / normalised / chain, gcds of minors) on the implementation's "
            "own output with the Coq checker: a false clause there is a failing input of the property itself; a difference "
            "in P or Q alone with all clauses true means the implementation no longer follows the mirrored pivot schedule "
            "(the model, not the property, is out of date)" % k)


FULL_RUNS = {}


def load_full_runs(ctx):
    """implementation results of the all-flags (1111) run of every matrix, keyed by (ring, matrix tokens)"""
    FULL_RUNS.clear()
    out = os.path.join(ctx.work, "corr")
    try:
        cases = open(os.path.join(out, "cases.txt")).read().splitlines()
        impl = open(os.path.join(out, "impl.txt")).read().splitlines()
    except OSError:
        return
    for c, a in zip(cases, impl):
        t = c.split(" ", 3)
        if t[0] == "snf" and len(t) >= 3 and t[2] == "1111":
            FULL_RUNS[(t[1], t[3] if len(t) > 3 else "")] = a.split(" | ")


def harmless(case, impl, model):
    """an `snf` case whose diagonal form, rank and factors equal the model's (the diagonal is unique: C09_unique) and
    which only differs in the transformation matrices.  With all four flags on, the clauses about P, Pinv, Q, Qinv are
    decided on the implementation's own output by the `chk` case of the same matrix (a false clause there is reported as
    a failing input), so the difference alone is not a failing input.  With a proper subset of the flags the returned
    matrices cannot all be validated on their own (a lone Pinv has nothing to be multiplied with): there every
    returned transform must be the one the implementation returns for the same matrix with all flags on - otherwise
    a requested transform is wrong and the case is a failing input."""
    if not case.startswith("snf ") or impl in BAD or impl == "P" or model == "P":
        return False
    a, b = impl.split(" | "), model.split(" | ")
    if not (len(a) == 7 and len(b) == 7 and a[0] == b[0] and a[5:] == b[5:]):
        return False
    t = case.split(" ", 3)
    if t[2] == "1111":
        return True
    full = FULL_RUNS.get((t[1], t[3] if len(t) > 3 else ""))
    if full is None or len(full) != 7:
        return False
    return all(a[k] == "-" or a[k] == full[k] for k in (1, 2, 3, 4))


def kernel_crosscheck(ctx, limit=80):
    """a sample of the `snf i32` (Z_dict, no preprocessing) and `snf big` (Zpre_dict with the LLL-HNF model as
    preprocessing) cases evaluated by vm_compute inside coqc on Model/Snf.v / Model/Lll.v must give exactly the
    D, P, P^-1, Q, Q^-1, rank and factors the EXTRACTED runner printed"""
    import os
    out = os.path.join(ctx.work, "corr")
    try:
        cases = open(os.path.join(out, "cases.txt")).read().splitlines()
        model = open(os.path.join(out, "model.txt")).read().splitlines()
    except OSError:
        return {}, []
    z = lambda x: "(%d)%%Z" % int(x)

    def mat(m, n, ents):
        rows = [ents[i * n:(i + 1) * n] for i in range(m)]
        return "(mk_dmat %d %d [%s])" % (m, n, "; ".join("[" + "; ".join(z(x) for x in r) + "]" for r in rows))

    def pmat(sx):
        sx = sx.strip()
        if sx == "-":
            return "None"
        dims, body = sx.split(":", 1)
        m, n = [int(x) for x in dims.split("x")]
        ents = [x for r in body.split(";") for x in r.split(",") if x != ""] if body else []
        return "(Some %s)" % mat(m, n, ents)

    ex = []
    for ring, dic, lim in (("i32", "Z_dict", limit // 2), ("big", "(Zpre_dict (Some zpre))", limit - limit // 2)):
        sel = [(c.split(), mm) for c, mm in zip(cases, model)
               if c.startswith("snf %s " % ring) and len(c.split()) <= 5 + 25 and "DONLY" not in mm]
        step = max(1, len(sel) // lim)
        for t, mm in sel[::step][:lim]:
            try:
                m, n = int(t[3]), int(t[4])
                fl = "(%s, %s, %s, %s)" % tuple("true" if ch == "1" else "false" for ch in t[2])
                lhs = ("match snf %s %s %s with None => None | Some r => Some (sr_d r, sr_p r, sr_pinv r, sr_q r, "
                       "sr_qinv r, snf_rank %s r, snf_factors %s r) end" % (dic, mat(m, n, t[5:]), fl, dic, dic))
                if mm == "P":
                    rhs = "None"
                else:
                    f = mm.split(" | ")
                    if len(f) == 6:
                        f.append("")
                    f[6] = f[6].strip()
                    facs = "[" + "; ".join(z(x) for x in f[6].split(",") if x != "") + "]"
                    rhs = "Some (%s, %s, %s, %s, %s, %d, %s)" % (pmat(f[0])[6:-1], pmat(f[1]), pmat(f[2]), pmat(f[3]),
                                                                 pmat(f[4]), int(f[5]), facs)
            except (ValueError, IndexError):
                continue
            ex.append((lhs, rhs))
    pre = ["From Coq Require Import List ZArith NArith Arith.", "Require Import Yui.Base.Ring Yui.Model.Snf Yui.Model.Lll.",
           "Import ListNotations.",
           "Definition zpre : preproc Z := fun _ _ f1 f2 A => lll_hnf Z_lll A (f1, f2) (N.to_nat 1000000)."]
    return C.kernel_examples(ctx, pre, ex, timeout=900)


def run(ctx):
    ctx.equal = equal
    obl = C.coq_obligations(ctx.pid, ["Extract/ExtractC09.vo"], more_props=["C09Unique", "C09UniqueMinors"])
    extra = {}
    if ctx.thorough:
        extra.update(C.coqchk(ctx.pid, more_props=["C09Unique", "C09UniqueMinors"], timeout=2400))
    corr = C.correspondence(ctx, "c09", nontrivial)
    viol, stats = scan(ctx)
    extra["c09_stats"] = stats
    if corr.get("ok"):
        info, probs = kernel_crosscheck(ctx)
        extra.update(info)
        if probs:
            obl["problems"] = obl.get("problems", []) + probs
            obl["ok"] = False
    load_full_runs(ctx)
    prioritise(corr)
    return C.finish(ctx, "proof", obl, corr, RULE, extra_cov=extra, assumptions=ASSUME, extra_violations=viol,
                    explain=explain(corr), harmless=harmless)


def replay(ctx, payload):
    ctx.equal = equal
    cases = payload.get("cases") or [payload["first"]["case"]]
    corr = C.correspondence(ctx, "c09", nontrivial, replay_cases=cases)
    if corr.get("error"):
        print(corr["error"])
        return 2
    viol, _ = scan(ctx)
    for (i, c, a, b) in corr["disagreements"]:
        print("DISAGREE case=%s\n  impl =%s\n  model=%s" % (c[:600], a[:600], b[:600]))
    for (k, text, p) in viol:
        print("FAIL %s: %s\n  case=%s" % (k, text, p["case"][:600]))
    print("replayed %d cases, %d disagreements, %d panics/none" % (corr["n"], len(corr["disagreements"]), len(viol)))
    return 1 if (corr["disagreements"] or viol) else 0
