"""C15 - Euclidean-domain operations: exact division, gcd, Bezout, units, rounding."""
import math
import os
import re

from . import common as C

RULE = ("cases = <type> <op> <operands> for types i32/i64/i128/BigInt, GaussInt and EisenInt over i64/i128/BigInt, "
        "Ratio<i64>/Ratio<BigInt>, FF2, FF<3|5|7|46337>, Poly over Q/F_3/F_5, HPoly over Q/F_3 and ops div, rem, div_round, "
        "divides, gcd, gcdx, lcm, is_unit, inv, nunit, normalized (all call forms: by value, by reference, assigning, must "
        "coincide). Sources: a fixed corpus (witnesses of the two fixed defects, MIN/MAX of every machine width against "
        "0, +-1, +-2, MIN, MAX), exhaustive sweeps (integers in [-7,7]^2 quick / [-12,12]^2 thorough, quadratic integers with "
        "coordinates in [-2,2] / [-4,4], all residues of F_2..F_7), and random structured pairs: independent, exact "
        "multiples, ties (a/b = k + 1/2, also next to a tie), associates / unit multiples in every quadrant and sextant, "
        "common factors, consecutive Fibonacci numbers, zeros; magnitudes concentrated at 2^15..2^128 with boundary values "
        "2^k+-2 for k in {31,32,52,53,54,62,63,64,126,127}, BigInt operands up to 2^200 throughout and a few hundred cases "
        "at 2^600..2^1100 (> 10^300). Machine integers use the full range and the model predicts every overflow panic "
        "exactly (width-checked mirror); machine-based quadratic integers are restricted to |coordinates| < 2^(w/2-2) for "
        "division ops and < 2^20 (i64) / 2^40 (i128) for gcd/gcdx/lcm, Ratio<i64> to |n|,|d| < 2^20, so that no intermediate "
        "overflows (large magnitudes are covered by the BigInt instances); plus pairs with a large common factor "
        "(a = g u, b = g v, |g| ~ 2^(w/2-6), small cofactors) for gcd / lcm / divides, on which every intermediate of the "
        "current algorithms stays below 2^(w-4), so that a panic there is a regression (e.g. multiplying before dividing in lcm). A case is non-trivial when the implementation "
        "does not panic and no operand is zero; distinct = distinct case lines. In addition to the exact comparison the "
        "harness evaluates the property's clauses on the implementation's output with the library's own ring operations "
        "(a = q b + r, norm decrease, d | a, d | b, s a + t b = d, normalizing_unit(d) = 1, gcd(a,b) = gcd(b,a), lcm*gcd ~ a*b, "
        "is_unit <-> inv, a*inv = 1, normalized idempotent and constant on unit multiples) and this module re-evaluates them "
        "for the integer, Gaussian and Eisenstein types with Python integers.")
ASSUME = ["num-integer's gcd (Stein) and lcm are modelled by their results (Z.gcd, |a*(b/gcd)|); extended_gcd is mirrored as a loop",
          "Ratio / FF / Poly / HPoly ring operations (+, -, *) are modelled by their results on canonical representatives "
          "(they are the subject of C14 / C16); div_rem, inv, is_unit, normalizing_unit are mirrored",
          "theorems are proved for Z, Z[i], Z[omega] (all sizes), for every abstract field, for the model's F_p (p prime), for "
          "HPoly and for K[x] = Poly<_, K> over any abstract field; that the concrete Ratio<_> operations form a field is "
          "not proved here (C14's subject): Q, Q[x] and HPoly over Q are covered through the abstract-field theorems plus "
          "exact correspondence (see MANIFEST level text)",
          "machine-based GaussInt/EisenInt/Ratio operands are kept small enough that no intermediate overflows; overflow "
          "panics of these types are out of scope (BigInt is the exact instance)"]

INT_TYPES = {"i32": 32, "i64": 64, "i128": 128, "big": None}
QUAD_TYPES = {"gi64": -1, "gi128": -1, "gbig": -1, "ei64": -3, "ei128": -3, "ebig": -3}


def arity(ty):
    """number of tokens of one operand, or None when it is variable (polynomials)"""
    if ty in INT_TYPES or ty.startswith("f"):
        return 1
    if ty in QUAD_TYPES or ty in ("q64", "qbig"):
        return 2
    return None


def nontrivial(case, impl):
    t = case.split()
    if impl.startswith("P") or "!" in impl or impl in ("TOP-PANIC", "FORMS-DIFFER"):
        return False
    ty, op, toks = t[0], t[1], t[2:]
    k = arity(ty)
    if k is None:
        return len(toks) > 2 and any(x not in ("0", "1") for x in toks)
    ops = [toks[i:i + k] for i in range(0, len(toks), k)]
    if ty in ("q64", "qbig"):
        return all(o[0] != "0" for o in ops)
    return all(any(x != "0" for x in o) for o in ops)


# ---------------------------------------------------------------------------------------------------
# independent evaluation of the property's clauses on the implementation's output (Python integers)
# ---------------------------------------------------------------------------------------------------
def qmul(d, u, v):
    (a, b), (c, e) = u, v
    return (a * c - b * e, a * e + b * c) if d == -1 else (a * c - b * e, a * e + b * c + b * e)


def qnorm(d, u):
    a, b = u
    return a * a + b * b if d == -1 else a * a + a * b + b * b


def qconj(d, u):
    a, b = u
    return (a, -b) if d == -1 else (a + b, -b)


def qsub(u, v):
    return (u[0] - v[0], u[1] - v[1])


def qadd(u, v):
    return (u[0] + v[0], u[1] + v[1])


def qdivides(d, x, y):
    """x | y in Z[i] / Z[omega] (x != 0)"""
    n = qnorm(d, x)
    w = qmul(d, y, qconj(d, x))
    return w[0] % n == 0 and w[1] % n == 0


def qcanonical(d, u):
    a, b = u
    return (a, b) == (0, 0) or (a > 0 and b >= 0)


def qgcd_norm(d, x, y):
    """norm of a gcd, by an independent Euclid with exact rational rounding"""
    def rnd(p, q):  # nearest integer to p/q, q > 0
        return (2 * p + q) // (2 * q)
    while y != (0, 0):
        n = qnorm(d, y)
        w = qmul(d, x, qconj(d, y))
        if d == -1:
            q = (rnd(w[0], n), rnd(w[1], n))
        else:
            m, k = rnd(w[0] + w[1], n), rnd(w[1], n)
            q = (m - k, k)
        x, y = y, qsub(x, qmul(d, y, q))
    return qnorm(d, x)


def pq(s):
    a, b = s.split(",")
    return (int(a), int(b))


def clause_int(op, a, b, res):
    """returns None when the clauses hold, else a description"""
    if op == "div":
        q = int(res)
        r = a - q * b
        if not (abs(r) < abs(b) and (r == 0 or (r > 0) == (a > 0))):
            return "a/b is not the truncated quotient"
    elif op == "rem":
        r = int(res)
        if not ((a - r) % b == 0 and abs(r) < abs(b) and (r == 0 or (r > 0) == (a > 0))):
            return "a%b: not a = q b + r with |r| < |b| and the sign of a"
    elif op == "div_round":
        q = int(res)
        e = abs(a - q * b)
        if not (2 * e <= abs(b) and (2 * e != abs(b) or abs(q * b) > abs(a))):
            return "div_round is not the exactly rounded quotient (ties away from zero)"
    elif op == "divides":
        if (res == "1") != (a != 0 and b % a == 0):
            return "divides wrong"
    elif op == "gcd":
        if int(res) != math.gcd(a, b):
            return "gcd is not the non-negative gcd"
    elif op == "gcdx":
        d, s, t = (int(x) for x in res.split(";"))
        if not (d == math.gcd(a, b) and s * a + t * b == d):
            return "gcdx: d != gcd or s a + t b != d"
    elif op == "lcm":
        g = math.gcd(a, b)
        if int(res) * g != abs(a * b):
            return "lcm * gcd != |a b|"
    elif op == "is_unit":
        if (res == "1") != (a in (1, -1)):
            return "is_unit wrong"
    elif op == "inv":
        if (res != "N") != (a in (1, -1)) or (res != "N" and a * int(res) != 1):
            return "inv wrong"
    elif op == "nunit":
        if int(res) != (1 if a >= 0 else -1):
            return "normalizing_unit wrong"
    elif op == "normalized":
        if int(res) != abs(a):
            return "normalized is not |a|"
    return None


def clause_quad(d, op, a, b, res):
    num, den = (1, 2) if d == -1 else (3, 4)      # N(r) <= num/den N(b)
    if op in ("div", "div_round"):
        q = pq(res)
        r = qsub(a, qmul(d, b, q))
        if not (den * qnorm(d, r) <= num * qnorm(d, b)):
            return "quotient: remainder norm too large"
    elif op == "rem":
        r = pq(res)
        if not (qdivides(d, b, qsub(a, r)) and den * qnorm(d, r) <= num * qnorm(d, b)):
            return "remainder: not a = q b + r with the norm bound"
    elif op == "divides":
        if (res == "1") != (a != (0, 0) and qdivides(d, a, b)):
            return "divides wrong"
    elif op in ("gcd", "gcdx"):
        parts = [pq(x) for x in res.split(";")]
        g = parts[0]
        if a == (0, 0) and b == (0, 0):
            if g != (0, 0):
                return "gcd(0,0) != 0"
        else:
            if g == (0, 0) or not (qdivides(d, g, a) and qdivides(d, g, b)):
                return "gcd does not divide both"
            if not qcanonical(d, g):
                return "gcd is not the normalised associate"
            if qnorm(d, g) != qgcd_norm(d, a, b):
                return "gcd is not greatest"
        if op == "gcdx":
            s, t = parts[1], parts[2]
            if qadd(qmul(d, s, a), qmul(d, t, b)) != g:
                return "s a + t b != d"
    elif op == "lcm":
        m = pq(res)
        if a == (0, 0) or b == (0, 0):
            if m != (0, 0):
                return "lcm with a zero operand is not 0"
        else:
            if not (qdivides(d, a, m) and qdivides(d, b, m) and qcanonical(d, m)
                    and qnorm(d, m) * qgcd_norm(d, a, b) == qnorm(d, a) * qnorm(d, b)):
                return "lcm * gcd is not an associate of a b"
    elif op == "is_unit":
        if (res == "1") != (qnorm(d, a) == 1):
            return "is_unit wrong"
    elif op == "inv":
        if (res != "N") != (qnorm(d, a) == 1) or (res != "N" and qmul(d, a, pq(res)) != (1, 0)):
            return "inv wrong"
    elif op == "nunit":
        u = pq(res)
        if qnorm(d, u) != 1 or not qcanonical(d, qmul(d, a, u)):
            return "a * normalizing_unit(a) is not in the canonical region"
    elif op == "normalized":
        n = pq(res)
        if not (qcanonical(d, n) and qnorm(d, n) == qnorm(d, a) and (a == (0, 0) or qdivides(d, a, n))):
            return "normalized is not the canonical associate"
    return None


def clause_check(case, impl):
    """None = fine / not applicable"""
    if "!" in impl:
        return "clause evaluated by the harness fails: " + impl[impl.index("!"):]
    if impl in ("FORMS-DIFFER", "TOP-PANIC"):
        return impl
    if impl.startswith("P"):
        return None
    t = case.split()
    ty, op, toks = t[0], t[1], t[2:]
    try:
        if ty in INT_TYPES:
            a = int(toks[0])
            b = int(toks[1]) if len(toks) > 1 else 0
            return clause_int(op, a, b, impl)
        if ty in QUAD_TYPES:
            a = (int(toks[0]), int(toks[1]))
            b = (int(toks[2]), int(toks[3])) if len(toks) > 2 else (0, 0)
            return clause_quad(QUAD_TYPES[ty], op, a, b, impl)
    except (ValueError, ZeroDivisionError, IndexError) as e:
        return "unparsable result %r (%s)" % (impl, e)
    return None


def clause_sweep(ctx):
    """evaluate the clauses on every implementation output of the run"""
    out = os.path.join(ctx.work, "corr")
    viol = []
    n = 0
    try:
        cases = open(os.path.join(out, "cases.txt")).read().splitlines()
        impl = open(os.path.join(out, "impl.txt")).read().splitlines()
    except OSError:
        return viol, n
    for c, a in zip(cases, impl):
        why = clause_check(c, a)
        n += 1
        if why:
            viol.append(("clause", "property clause fails on the implementation's output: " + why,
                         {"case": c, "impl": a, "model": None, "why": why}))
    return viol, n


def kernel_crosscheck(ctx, limit=150):
    """a sample of the machine-integer cases (i32/i64/i128: div, rem, div_round, gcd, lcm) evaluated by vm_compute inside
    coqc must equal what the extracted runner printed (cross-check of extraction and the OCaml driver)"""
    out = os.path.join(ctx.work, "corr")
    try:
        cases = open(os.path.join(out, "cases.txt")).read().splitlines()
        model = open(os.path.join(out, "model.txt")).read().splitlines()
    except OSError:
        return {}, []
    fn = {"div": "w_div", "rem": "w_rem", "div_round": "w_div_round", "gcd": "w_gcd", "lcm": "w_lcm"}
    width = {"i32": 32, "i64": 64, "i128": 128}
    sel = []
    for c, m in zip(cases, model):
        t = c.split()
        if len(t) == 4 and t[0] in width and t[1] in fn and (m == "P" or re.fullmatch(r"-?\d+", m)):
            if max(len(t[2]), len(t[3])) <= 40:
                sel.append((t, m))
    step = max(1, len(sel) // limit)
    ex = []
    for t, m in sel[::step][:limit]:
        lhs = "%s (Some %d%%Z) (%s)%%Z (%s)%%Z" % (fn[t[1]], width[t[0]], t[2], t[3])
        rhs = "None" if m == "P" else "Some (%s)%%Z" % m
        ex.append((lhs, rhs))
    return C.kernel_examples(ctx, ["From Coq Require Import ZArith.", "Require Import Yui.Model.Euclid."], ex)


def run(ctx):
    obl = C.coq_obligations(ctx.pid, ["Extract/ExtractC15.vo"])
    extra = {}
    if ctx.thorough:
        extra.update(C.coqchk(ctx.pid))
    corr = C.correspondence(ctx, "c15", nontrivial)
    if corr.get("ok"):
        info, probs = kernel_crosscheck(ctx)
        extra.update(info)
        if probs:
            obl["problems"] = obl.get("problems", []) + probs
            obl["ok"] = False
    viol, n = clause_sweep(ctx)
    extra["clause_evaluations"] = n
    extra["clause_failures"] = len(viol)
    extra["correspondence_strength"] = "exact"
    return C.finish(ctx, "proof", obl, corr, RULE, extra_cov=extra, assumptions=ASSUME, extra_violations=viol)


def replay(ctx, payload):
    cases = payload.get("cases") or [payload["first"]["case"]]
    corr = C.correspondence(ctx, "c15", nontrivial, replay_cases=cases)
    if corr.get("error"):
        print(corr["error"])
        return 2
    for (i, c, a, b) in corr["disagreements"]:
        print("DISAGREE case=%s\n  impl =%s\n  model=%s" % (c, a, b))
    viol, n = clause_sweep(ctx)
    for (_, text, p) in viol:
        print("CLAUSE-FAIL case=%s\n  impl =%s\n  %s" % (p["case"], p["impl"], p["why"]))
    print("replayed %d cases, %d disagreements, %d clause failures" % (corr["n"], len(corr["disagreements"]), len(viol)))
    return 1 if corr["disagreements"] or viol else 0
