"""C14 - scalar types are exact commutative rings with canonical representatives."""
import os
from fractions import Fraction

from . import common as C

RULE = ("cases = a fixed corpus of boundary cases (i64/i128 MIN, zero denominators, the 2^53 comparison pairs of the "
        "fixed defect 52e0a74, sqrt(2^63) products, the first unsupported FF modulus) + per integer type (i32, i64, "
        "i128, BigInt): every operator + - * / % gcd lcm neg is_unit normalizing_unit inv on boundary-biased operands "
        "(0, +-1, small, 2^31+-k, 2^53+-k, 2^63-k, 2^127-k, sqrt of the limit, smooth numbers, 100-300 digit BigInts, "
        "pairs whose sum/product lands next to the limit, exact multiples) and on all pairs of extreme values; "
        "rationals over the four integer types: new/from, + - * /, neg, inv, abs, predicates, cmp/==/<,<=,>,>= on "
        "structured pairs (shared and non-coprime denominators, sums and products that cancel to integers, 0 or 1, "
        "reciprocal/opposite/equal-valued pairs, near-equal pairs p/q vs (pk+-1)/(qk), consecutive integers beyond "
        "2^53, machine-limit numerators), operation histories of 1..40 mixed steps (with rejected steps: zero "
        "denominators, zero divisors, inverse of 0, overflow panics) compared after every step, and an exhaustive sweep "
        "of all four operators and cmp on all pairs of small fractions; FF<p> for p in {2,3,5,7} exhaustively on "
        "-p-1..2p+1 and for p in {251, 46337, 46349, 65537, 2^31-1} (and the rejected moduli 0, -5) on boundary-biased "
        "i32 operands, every inverse of one prime field; FF2 exhaustively plus From<i64/i128/BigInt>; QuadInt<T, D> for "
        "D in {-1,-3,-2,-7,2,3,5} (and the rejected D = 4, -4) over the four integer types: + - * neg conj norm == "
        "predicates, components next to sqrt(limit/2), and an exhaustive sweep of the product on components -2..2 "
        "(all shortcut branches). Every binary operator is evaluated in the six forms a.b, &a.&b, a.&b, &a.b, a.=b, "
        "a.=&b (negation in two) and the forms must agree (FORMS-DIFFER otherwise); results, including every panic, are "
        "compared as data with the extracted Coq model. A case is non-trivial when the implementation returned a value "
        "(no panic, no UNREPRESENTABLE operand) and some operand has absolute value > 1 (histories: at least one "
        "accepted step that changed the value); distinct = distinct case lines")
ASSUME = ["Rust's primitive checked integer arithmetic and num-bigint / num-integer (gcd, lcm, extended_gcd, BigInt "
          "arithmetic, decimal parsing/printing) are modelled by Z arithmetic, not verified; the exact comparison observes them",
          "the six call forms of an operator reach one implementation through auto_impl_ops / macros: their agreement is "
          "checked by execution on every case, not proved",
          "FF<p> is claimed for (p-1)^2 < 2^31 (larger p: the theorem says a returned product is still correct, "
          "otherwise the i32 overflow panics); i64/i128 instances: returned values are exact, panics are predicted by the "
          "model and compared",
          "serde, Display/FromStr, Hash, c_weight, to_f64, Rem of fields are not covered"]

BAD = ("P", "UNREPRESENTABLE", "TOP-PANIC")


def _ints(tokens):
    out = []
    for x in tokens:
        try:
            out.append(int(x))
        except ValueError:
            pass
    return out


def nontrivial(case, impl):
    if impl in BAD or "FORMS-DIFFER" in impl or "ORDER-INCONSISTENT" in impl:
        return False
    t = case.split()
    if t[0] == "rhist":
        outs = impl.split()
        return any(o != "P" and o != outs[0] for o in outs[1:])
    if impl.endswith(" -") or impl.endswith(" P"):
        return False
    return any(abs(x) > 1 for x in _ints(t[1:]))


# --------------------------------------------------------------------------------------------------
# the property's own predicate, evaluated with Python integers / Fractions on the implementation's
# output: used to classify a disagreement (is the implementation's value inexact, or did only the
# panic / representation behaviour move?)
# --------------------------------------------------------------------------------------------------
def _fits(ty, x):
    b = {"i64": 64, "i128": 128}.get(ty)
    return b is None or -(1 << (b - 1)) <= x < (1 << (b - 1))


def _canon(fr):
    return "%d/%d" % (fr.numerator, fr.denominator)


def _rat_op(op, x, y):
    if op == "add":
        return x + y
    if op == "sub":
        return x - y
    if op == "mul":
        return x * y
    if op == "div":
        return None if y == 0 else x / y
    raise ValueError(op)


def _tquot(a, b):
    q = abs(a) // abs(b)
    return q if (a < 0) == (b < 0) else -q


def property_holds(case, impl):
    """True / False (implementation output violates exactness or canonical form) / None (not decided here)"""
    try:
        return _property_holds(case, impl)
    except Exception:  # noqa: BLE001 - classification only
        return None


def _property_holds(case, impl):
    if "FORMS-DIFFER" in impl or "ORDER-INCONSISTENT" in impl or impl == "TOP-PANIC":
        return False
    if impl == "UNREPRESENTABLE":      # an operand does not fit the integer type of the case (harness-level)
        return None
    t = case.split()
    k = t[0]
    if k == "int":
        ty, op, a, b = t[1], t[2], int(t[3]), int(t[4])
        if impl in BAD:
            return False if (ty == "big" and not (op in ("div", "rem") and b == 0)) else None
        import math
        exp = {"add": lambda: a + b, "sub": lambda: a - b, "mul": lambda: a * b,
               "div": lambda: _tquot(a, b), "rem": lambda: a - b * _tquot(a, b),
               "gcd": lambda: math.gcd(a, b),
               "lcm": lambda: 0 if a == 0 and b == 0 else abs(a * b) // math.gcd(a, b)}[op]()
        return int(impl) == exp
    if k == "int1" and t[2] == "neg":
        return None if impl in BAD else int(impl) == -int(t[3])
    if k == "rnew":
        n, d = int(t[2]), int(t[3])
        if d == 0:
            return impl == "P"
        if impl in BAD:
            return False if t[1] == "big" else None
        return impl == _canon(Fraction(n, d))
    if k in ("rbin", "rcmp"):
        off = 3 if k == "rbin" else 2
        n1, d1, n2, d2 = (int(x) for x in t[off:off + 4])
        if d1 == 0 or d2 == 0:
            return None
        x, y = Fraction(n1, d1), Fraction(n2, d2)
        r = impl.split()
        if r[0] in BAD or r[1] in BAD:
            return False if t[1] == "big" else None
        if r[0] != _canon(x) or r[1] != _canon(y):
            return False
        if k == "rcmp":
            if r[3] != ("1" if x == y else "0"):
                return False
            if r[2] == "P":
                return False if t[1] == "big" else None
            return r[2] == ("Lt" if x < y else "Gt" if x > y else "Eq")
        e = _rat_op(t[2], x, y)
        if r[2] == "P":
            return (e is None) if t[1] == "big" else None
        return e is not None and r[2] == _canon(e)
    if k == "rhist":
        outs = impl.split()
        if outs[0] in BAD:
            return None
        n, d = (int(v) for v in outs[0].split("/"))
        cur = Fraction(n, d)
        if outs[0] != _canon(Fraction(int(t[2]), int(t[3]))):
            return False
        i, j = 4, 1
        while i < len(t):
            op = t[i]
            if op == "neg":
                e, i = -cur, i + 1
            elif op == "inv":
                e, i = (None if cur == 0 else 1 / cur), i + 1
            else:
                nn, dd = int(t[i + 1]), int(t[i + 2])
                e = None if dd == 0 else _rat_op(op, cur, Fraction(nn, dd))
                i += 3
            o = outs[j]
            j += 1
            if o == "P":
                if e is not None and t[1] == "big":
                    return False
            else:
                if e is None or o != _canon(e):
                    return False
                cur = e
        return True
    if k == "ff":
        p, op, a, b = int(t[1]), t[2], int(t[3]), int(t[4])
        if p <= 0:
            return impl == "P"
        r = impl.split()
        if r[0] in BAD:
            return False
        if int(r[0]) != a % p or int(r[1]) != b % p or r[3] != ("1" if a % p == b % p else "0"):
            return False
        if r[2] == "P":
            return None if (op == "div" or (p - 1) ** 2 >= 2 ** 31) else False
        v = int(r[2])
        if op == "div":
            return 0 <= v < p and (v * b - a) % p == 0
        return v == {"add": a + b, "sub": a - b, "mul": a * b}[op] % p
    if k == "ff1":
        p, op, a = int(t[1]), t[2], int(t[3])
        if p <= 0:
            return impl == "P"
        r = impl.split()
        if r[0] in BAD or int(r[0]) != a % p:
            return False
        if op == "pred":
            return r[1] == ("1" if a % p == 0 else "0") + ("1" if a % p == 1 else "0")
        if r[1] == "P":
            return None
        if op == "neg":
            return int(r[1]) == (-a) % p
        if r[1] == "N":
            return a % p == 0
        return 0 <= int(r[1]) < p and (int(r[1]) * a) % p == 1 % p
    if k == "run":
        n, d = int(t[3]), int(t[4])
        if d == 0:
            return None
        x = Fraction(n, d)
        r = impl.split()
        if r[0] in BAD:
            return False if t[1] == "big" else None
        if r[0] != _canon(x):
            return False
        if t[2] == "pred":
            return r[1] == "".join("1" if b else "0" for b in (x == 0, x == 1, x.denominator == 1))
        if r[1] == "P":
            return False if t[1] == "big" else None
        if t[2] == "inv":
            return (x == 0) if r[1] == "N" else (x != 0 and r[1] == _canon(1 / x))
        return r[1] == _canon(-x if t[2] == "neg" else abs(x))
    if k == "quad" and t[3] in ("add", "sub", "mul"):
        D = int(t[2])
        a, b, c, d = (int(x) for x in t[4:8])
        if impl in BAD:
            return False if (t[1] == "big" and D % 4 != 0) else None
        tt, e = (1, (D - 1) // 4) if D % 4 == 1 else (0, D)
        exp = {"add": (a + c, b + d), "sub": (a - c, b - d),
               "mul": (a * c + b * d * e, a * d + b * c + b * d * tt)}[t[3]]
        return impl == "%d,%d" % exp
    return None


def _stats(ctx):
    """per case kind: cases, panics, unrepresentable operands; number of multi-hundred-digit cases"""
    d = os.path.join(ctx.work, "corr")
    try:
        cases = open(os.path.join(d, "cases.txt")).read().splitlines()
        impl = open(os.path.join(d, "impl.txt")).read().splitlines()
    except OSError:
        return {}
    st = {}
    big = 0
    steps = 0
    for c, a in zip(cases, impl):
        t = c.split()
        key = t[0] + ":" + (t[1] if t[0] not in ("f2", "f2u", "f2from") else "-")
        s = st.setdefault(key, {"n": 0, "panic": 0, "unrepresentable": 0})
        s["n"] += 1
        if a == "UNREPRESENTABLE":
            s["unrepresentable"] += 1
        elif a == "P" or a.endswith(" P") or " P " in a:
            s["panic"] += 1
        if any(len(x) >= 100 for x in t):
            big += 1
        if t[0] == "rhist":
            steps += len(a.split()) - 1
    return {"by_kind_and_type": st, "cases_with_100plus_digit_operands": big, "history_steps": steps,
            "call_forms_per_binary_operator": 6}


def _classify(corr):
    lines = []
    for (i, c, a, b) in corr.get("disagreements", [])[:50]:
        v = property_holds(c, a)
        lines.append({"case": c[:300], "impl": a[:300], "model": b[:300],
                      "exactness_predicate_on_impl_output": {True: "holds (only panic/representation behaviour differs "
                                                                   "from the model)", False: "FAILS",
                                                             None: "not decided by the python predicate"}[v]})
    return lines


def kernel_crosscheck(ctx, limit=150):
    """a sample of the `int` and `rbin` cases (all four integer types) evaluated by vm_compute inside coqc on
    Model/Ints.v / Model/Ratio.v must give exactly what the EXTRACTED runner printed (cross-checks extraction, the
    Z <-> zarith glue and the OCaml driver's parsing / printing on these cases)"""
    import os
    out = os.path.join(ctx.work, "corr")
    try:
        cases = open(os.path.join(out, "cases.txt")).read().splitlines()
        model = open(os.path.join(out, "model.txt")).read().splitlines()
    except OSError:
        return {}, []
    W = {"i32": "i32", "i64": "i64", "i128": "i128", "big": "Big"}
    IOP = {"add": "iadd", "sub": "isub", "mul": "imul", "div": "iquot", "rem": "irem", "gcd": "igcd", "lcm": "ilcm"}
    ROP = {"add": "rt_add", "sub": "rt_sub", "mul": "rt_mul", "div": "rt_div"}
    z = lambda x: "(%d)%%Z" % int(x)

    def ratio(x):
        n, d = x.split("/")
        return "(mkR %s %s)" % (z(n), z(d))

    def oratio(x):
        return "None" if x == "P" else "(Some %s)" % ratio(x)

    ex = []
    for kind, lim in (("int ", limit // 2), ("rbin ", limit - limit // 2)):
        sel = [(c.split(), m) for c, m in zip(cases, model) if c.startswith(kind) and "UNREP" not in m]
        step = max(1, len(sel) // lim)
        for t, m in sel[::step][:lim]:
            try:
                if t[0] == "int":
                    lhs = "%s %s %s %s" % (IOP[t[2]], W[t[1]], z(t[3]), z(t[4]))
                    rhs = "None" if m == "P" else "Some %s" % z(m)
                else:
                    w = W[t[1]]
                    r = m.split()
                    lhs = ("(rt_new %s %s %s, rt_new %s %s %s, match rt_new %s %s %s, rt_new %s %s %s with "
                           "Some x, Some y => Some (%s %s x y) | _, _ => None end)" % (
                               w, z(t[3]), z(t[4]), w, z(t[5]), z(t[6]), w, z(t[3]), z(t[4]), w, z(t[5]), z(t[6]),
                               ROP[t[2]], w))
                    rhs = "(%s, %s, %s)" % (oratio(r[0]), oratio(r[1]),
                                            "None" if r[2] == "-" else "Some %s" % oratio(r[2]))
            except (KeyError, ValueError, IndexError):
                continue
            ex.append((lhs, rhs))
    pre = ["From Coq Require Import ZArith.", "Require Import Yui.Model.Ints Yui.Model.Ratio."]
    return C.kernel_examples(ctx, pre, ex)


def run(ctx):
    obl = C.coq_obligations(ctx.pid, ["Extract/ExtractC14.vo"])
    extra = {}
    if ctx.thorough:
        extra.update(C.coqchk(ctx.pid))
    corr = C.correspondence(ctx, "c14", nontrivial)
    explain = None
    if corr.get("ok"):
        extra.update(_stats(ctx))
        info, probs = kernel_crosscheck(ctx)
        extra.update(info)
        if probs:
            obl["problems"] = obl.get("problems", []) + probs
            obl["ok"] = False
        extra["forms_differ"] = sum(1 for (_, _, a, _) in corr["disagreements"] if "FORMS-DIFFER" in a)
        extra["order_inconsistent"] = sum(1 for (_, _, a, _) in corr["disagreements"] if "ORDER-INCONSISTENT" in a)
        if corr["disagreements"]:
            cl = _classify(corr)
            extra["disagreement_classification"] = cl
            for x in cl[:5]:
                C.log("  exactness predicate on the implementation's output: %s | case=%s impl=%s model=%s" % (
                    x["exactness_predicate_on_impl_output"], x["case"][:160], x["impl"][:120], x["model"][:120]))
            explain = ("the model is proved exact (Properties/C14.v); a disagreement is an input on which the "
                       "implementation is not the exact ring operation / canonical form / panic behaviour of the model")
    return C.finish(ctx, "proof", obl, corr, RULE, extra_cov=extra, assumptions=ASSUME, explain=explain)


def replay(ctx, payload):
    cases = payload.get("cases") or [payload["first"]["case"]]
    corr = C.correspondence(ctx, "c14", nontrivial, replay_cases=cases)
    if corr.get("error"):
        print(corr["error"])
        return 2
    for (i, c, a, b) in corr["disagreements"]:
        print("DISAGREE case=%s\n  impl =%s\n  model=%s\n  exactness predicate on impl output: %s" % (
            c, a, b, property_holds(c, a)))
    print("replayed %d cases, %d disagreements" % (corr["n"], len(corr["disagreements"])))
    return 1 if corr["disagreements"] else 0
