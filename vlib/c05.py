"""C05 - every Khovanov complex returned is a graded chain complex, over any ring."""
from . import common as C
from . import kh

RULE = ("diagrams as in C01 plus 6_2, 7_4, 8_19, L6a4 (thorough: also 6_3, 7_7, 8_20, L7n1, 9_42) from the repository's resources "
        "and random braid closures up to 8 (quick) / 11 (thorough) crossings; for each diagram and reduced / "
        "unreduced: the complex returned by KhComplex::new over Z, F2, F3, Q with numeric (h,t) in {(0,0),(1,0),(0,1),(2,3)}, over "
        "Q and F5 with (h,t) in {(2,0),(3,0),(1,1),(0,2)} (units other than +-1 in the elimination) and over "
        "Z[H], Z[T], Z[H,T], F2[H], Q[H] with polynomial parameters is dumped (generator quantum degrees + sparse differentials) "
        "and run through the Gallina checker (kind cx: shapes, d.d=0, grading when h,t are 0 or the variables); over Q and Q[H] "
        "every matrix is first multiplied by the least common denominator of its coefficients (a non-zero constant per matrix, "
        "which changes neither d.d=0 nor homogeneity); rational rings are "
        "additionally checked by the library's own d.d=0 test (kind rc); the Z[H,T] (reduced: Z[H]) complex specialised at integer "
        "points is compared with the homology table of the complex built directly with those parameters (kind sp). "
        "Cobordism evaluation (the library's cob.rs run directly; model Model/CobEval.v, theorems Properties/C05Cob.v): "
        "kind ce = every closed component with genus, X-dots, Y-dots <= 6 at every (h,t) in {0,1,-1,2,3}^2 over i64 and "
        "symbolically over Z[H,T] (exhaustive), plus random genus <= 8 (thorough 10), dots <= 12 with BigInt parameters of up "
        "to 40 digits (thorough: also genus 7..9, dots <= 8 symbolically): CobComp::eval, CobComp::part_eval, Cob::part_eval, "
        "Cob::eval, LcCob::eval, deg, euler_num, is_zero_cob, is_unit_cob, should_part_eval must equal the model's (CobComp::eval "
        "against the literal fuel transcription of the Rust match, part_eval against the structural recursion); kind co = "
        "components with boundary (cylinder, cup, cap, arc identity, saddle, merge) x genus <= 3 x dots <= 4 x 6 points (+ random "
        "BigInt): the three coefficients of CobComp::part_eval and Cob::part_eval; kind cp = random cobordisms of 0..4 closed "
        "components over i64 / BigInt / Z[H,T]: Cob::eval, Cob::part_eval, Cob::deg. "
        "kind rj: parameter combinations that KhComplex::new must reject (reduced with t != 0 over Z, Q, Z[H,T]; reduced "
        "on the empty link) - no complex may be returned. non-trivial = a dump with at least one non-zero differential entry, resp. a cobordism case whose values are not all "
        "zero; distinct = distinct case lines")


def nontrivial(case, impl):
    if case[:3] in ("ce ", "co ", "cp "):
        return any(ch in "123456789" for ch in impl.split(" deg=")[0].split(" s=")[0])
    return "*" in case


def run(ctx):
    obl = C.coq_obligations(ctx.pid, ["Extract/ExtractC05.vo"], more_props=["C05Cob"])
    extra = {}
    if ctx.thorough:
        extra.update(C.coqchk(ctx.pid, more_props=["C05Cob"]))
    corr = C.correspondence(ctx, "c05", nontrivial)
    return C.finish(ctx, "other", obl, corr, RULE, extra_cov=extra,
                    assumptions=["the checker validates each returned complex; that every link yields a complex is sampled",
                                 "rational matrices are scaled by their common denominator before the Gallina checker sees them",
                                 "homology of the specialised complex uses the oracle's sparse Smith diagonalisation (KhHomology.smith_loop)",
                                 "Lc<Cob,R> (hash map without zero coefficients) is modelled as the free module on the at most three "
                                 "generators that the recursion of CobComp::part_eval can produce"],
                    explain=("Level 'other': per-output validation by a Gallina checker (extracted), with proved meaning of a passing "
                             "verdict and proved evaluation homomorphism; plus exact comparison of the specialised (H,T)-complex's homology "
                             "with the directly built one. The universally quantified claim about the implementation is sampled. "
                             "Proved for all inputs (Properties/C05Cob.v) about the mirrored cobordism evaluation of cob.rs: closed form "
                             "eps(Hd^g X^x Y^y) in Z[X]/(X^2-hX-t), termination of the literal recursion, soundness of the is_zero_cob / "
                             "is_unit_cob / should_part_eval shortcuts, multiplicativity of Cob::eval, Cob::part_eval = Cob::eval on closed "
                             "cobordisms, homogeneity of degree CobComp::deg with deg H = -2, deg T = -4, the delooping identities; the mirror "
                             "is tied to the library's cob.rs by the exhaustive / random ce, co, cp cases."))


def replay(ctx, payload):
    cases = payload.get("cases") or [payload["first"]["case"]]
    corr = C.correspondence(ctx, "c05", nontrivial, replay_cases=cases)
    if corr.get("error"):
        print(corr["error"])
        return 2
    bad = [d for d in corr["disagreements"] if d[2] != "RECORDED-DUMP"]
    for (i, c, a, b) in bad:
        print("DISAGREE case=%s\n  impl =%s\n  model=%s" % (c[:300], a, b))
    for (i, c, a, b) in corr["disagreements"]:
        if a == "RECORDED-DUMP":
            print("specialised homology of the recorded dump: %s" % b)
    print("replayed %d cases, %d checker failures" % (corr["n"], len(bad)))
    return 1 if bad else 0
