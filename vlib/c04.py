"""C04 - graded Euler characteristic of Kh is the Jones polynomial."""
from . import common as C

RULE = ("cases = for PD codes of yui-link/resources/links (quick: all codes with <= 7 crossings, a quarter of the 8-9 crossing "
        "codes, 1/60 of the rest; thorough: all codes with <= 10 crossings and a quarter of the 11-crossing ones), closures "
        "of random braid words (2-6 strands, up to 16 letters, every sixth with a strand that only passes over), split "
        "unions: `kh` = jones_polynomial of the library compared exactly with jones_model AND the library's own "
        "sum (-1)^i q^j rank Kh^{i,j} (KhComplexBigraded::homology over Z; for <= 12 crossings also the "
        "KhHomologyBigraded::new route) compared with the library's polynomial (EULER-OK / EULER-DIFF); `khbig` = the "
        "same identity, implementation only, for diagrams above the model limit (10 crossings quick / 12 thorough, up "
        "to 16); `jinv mirror` = q -> q^-1 under mirroring; `jinv same` = invariance under relabelling + crossing "
        "reordering, Reidemeister-I kinks, and braid-word moves before closure (conjugation, Markov stabilisation, "
        "sigma sigma^-1 insertion, far commutation, braid relation), evaluated on the implementation and on the model "
        "(`jinvbig`: implementation only); `khhuge` = closures of braid words with 33..48 letters (shuffled 2-strand words "
        "s^a s^-b, 3-strand words u u^-1 v) whose state words need more than 32 bits: sum (-1)^i q^j rank Kh^{i,j} of the "
        "library on the long closure compared with jones_model of the short isotopic closure; `jones` = exact polynomial equality on partially resolved diagrams, random "
        "valid non-planar codes with all crossing types and a malformed stream (DIVERGE = non-terminating traversal, "
        "reported by both sides). A case is non-trivial when the diagram has at least one crossing and the "
        "implementation returned a polynomial; distinct = distinct case lines")
ASSUME = ["coefficients are unbounded integers in the model (i32 in the code: an overflow would panic and show up as a disagreement)",
          "invariance under isotopy moves is a theorem of knot theory, not proved here: checked by execution on moved diagrams",
          "the implementation's homology ranks enter only through the differential run (the model-level identity is proved "
          "for the cube of resolutions with arbitrary differential ranks)",
          "planarity of a PD code is not modelled"]


def nontrivial(case, impl):
    t = case.split()
    if impl.split()[0] in ("P", "DIVERGE", "TOP-PANIC"):
        return False
    if t[0] in ("jinv", "jinvbig"):
        return t[2] != "0"
    return len(t) > 1 and t[1] != "0"


def equal(case, impl, model):
    for bad in ("INV-DIFF", "EULER-DIFF", "EULER-ROUTES-DIFFER", "MODEL-EULER-MISMATCH", "MODEL-NOT-CANONICAL",
                "FORMS-DIFFER", "MIRROR-DATA-DIFFER"):
        if bad in impl or bad in model:
            return False
    return impl == model


def kernel_crosscheck(ctx, limit=80):
    """a sample of small `jones` cases evaluated by vm_compute inside coqc (jones_model and the generator sum kh_euler)
    must equal what the extracted runner printed"""
    import os
    import re
    out = os.path.join(ctx.work, "corr")
    try:
        cases = open(os.path.join(out, "cases.txt")).read().splitlines()
        model = open(os.path.join(out, "model.txt")).read().splitlines()
    except OSError:
        return {}, []
    ct = {"X": "X", "M": "Xm", "V": "V", "H": "H"}
    sel = []
    for c, m in zip(cases, model):
        t = c.split()
        if t[0] == "jones" and len(t) >= 2 and t[1].isdigit() and int(t[1]) <= 6 and len(t) == 2 + 5 * int(t[1]) \
                and re.fullmatch(r"(0|P|(-?\d+:-?\d+)(,-?\d+:-?\d+)*)", m) and all(int(x) <= 60 for x in t[2:] if x.isdigit()):
            sel.append((t, m))
    step = max(1, len(sel) // limit)
    ex = []
    for t, m in sel[::step][:limit]:
        n = int(t[1])
        xs = ["mkX %s %s %s %s %s" % (ct[t[2 + 5 * k]], t[3 + 5 * k], t[4 + 5 * k], t[5 + 5 * k], t[6 + 5 * k]) for k in range(n)]
        link = "[" + "; ".join(xs) + "]"
        if m == "P":
            rhs = "None"
        elif m == "0":
            rhs = "Some []"
        else:
            rhs = "Some [" + "; ".join("((%s)%%Z, (%s)%%Z)" % tuple(q.split(":")) for q in m.split(",")) + "]"
        ex.append(("(jones_model %s, kh_euler %s)" % (link, link), "(%s, %s)" % (rhs, rhs)))
    pre = ["From Coq Require Import List ZArith Arith.", "Require Import Yui.Model.Link Yui.Model.Jones.", "Import ListNotations."]
    return C.kernel_examples(ctx, pre, ex)


def run(ctx):
    ctx.equal = equal
    obl = C.coq_obligations(ctx.pid, ["Extract/ExtractC04.vo"])
    extra = {}
    if ctx.thorough:
        extra.update(C.coqchk(ctx.pid))
    corr = C.correspondence(ctx, "c04", nontrivial)
    if corr.get("ok"):
        info, probs = kernel_crosscheck(ctx)
        extra.update(info)
        if probs:
            obl["problems"] = obl.get("problems", []) + probs
            obl["ok"] = False
    return C.finish(ctx, "proof", obl, corr, RULE, extra_cov=extra, assumptions=ASSUME)


def replay(ctx, payload):
    ctx.equal = equal
    cases = payload.get("cases") or [payload["first"]["case"]]
    corr = C.correspondence(ctx, "c04", nontrivial, replay_cases=cases)
    if corr.get("error"):
        print(corr["error"])
        return 2
    for (i, c, a, b) in corr["disagreements"]:
        print("DISAGREE case=%s\n  impl =%s\n  model=%s" % (c, a, b))
    print("replayed %d cases, %d disagreements" % (corr["n"], len(corr["disagreements"])))
    return 1 if corr["disagreements"] else 0
