"""C06 - canonical (Lee) classes and the s-type invariant behave as knot invariants."""
import os
import re
from . import common as C
from . import kh

RULE = ("knots = closures of random braid words on 2-4 strands whose permutation is a single cycle, plus fixed small knots; for each knot K and a "
        "moved diagram M (conjugation, rotation, Reidemeister II, Markov stabilisation, Reidemeister I kink, relabelling, crossing "
        "reordering): (cyc) the library's canonical cycles for h in {0,1,2,3}, reduced and unreduced: count, homological degree 0, "
        "d z = 0, non-torsion class for h != 0, and the same cycles built on the Coq cube complex must be cycles; (ss) ss_invariant "
        "for c in {2,3} over Z (and c = H over F2[H], F3[H], Q[H]) on K, M, mirror K, reduced and unreduced, and after every single "
        "crossing change: ss(M)=ss(K), reduced=unreduced, ss(mirror)=-ss(K), ss(K-) <= ss(K+) <= ss(K-)+2; (lee) for random links the "
        "homology with (h,t)=(1,0) over Z and (0,1) over Q is free of total rank 2^components; (sso) the VALUE ss_invariant(l, c, red) over i64 "
        "and BigInt, c in {2,3}, reduced and unreduced, must equal the Coq oracle ss_spec (cube complex around degree 0, homology "
        "coordinates from the verified homology calculator + SNF mirror, divisibility of Lee's class, 2d + w - r + 1) exactly, on table "
        "knots up to 6 crossings and unknot diagrams, their mirrors, kinked / relabelled / reordered copies and closures of braid "
        "words with at most 6 letters (the oracle skips a diagram when a chain group around degree 0 has more than 100 (quick) / 150 "
        "(thorough) generators). "
        "non-trivial = knot with >= 3 crossings (cyc, ss) or link with >= 2 components (lee); ss is also compared between table knots and the same diagrams with an already resolved, orientation-compatible entry inserted in front of unresolved crossings; distinct = distinct case lines")


# companion property files: C06Ss = the definition-level oracle ss_spec for the value of the invariant
MORE_PROPS = ["C06Ss"]


def relations(case, impl):
    kind = case.split()[0]
    bad = []
    if "PANIC" in impl or impl == "TOP-PANIC":
        return [("panic", "implementation panicked: " + impl[:120])]
    if kind == "cyc":
        for seg in impl.split(";"):
            kv = dict(x.split("=") for x in seg.split())
            want_n = "1" if kv["r"] == "1" else "2"
            if kv["n"] != want_n or kv["deg0"] != "1" or kv["cyc"] != "1" or kv["nontors"] != "1":
                bad.append(("canon-cycle", "canonical cycle clause fails: " + seg.strip()))
    elif kind == "lee":
        kv = dict(x.split("=") for x in impl.split())
        want = "%d/0" % (2 ** int(kv["comps"]))
        if kv["Z10"] != want or kv["Q01"] != want:
            bad.append(("lee-rank", "Lee homology not free of rank 2^components: " + impl))
    elif kind in ("ss", "ssh"):
        m = re.match(r"K=(\S+) M=(\S+) MIR=(\S+)(?: X=\[(.*)\])?", impl)
        if not m or "P" in impl:
            return [("ss", "ss_invariant failed: " + impl[:120])]
        ku, kr = [int(x) for x in m.group(1).split(",")]
        mu, mr = [int(x) for x in m.group(2).split(",")]
        iu, ir = [int(x) for x in m.group(3).split(",")]
        if ku != kr or mu != mr or iu != ir:
            bad.append(("ss-reduced", "reduced != unreduced: " + impl[:80]))
        if mu != ku:
            bad.append(("ss-invariance", "ss differs on an isotopic diagram: K=%d M=%d" % (ku, mu)))
        if iu != -ku:
            bad.append(("ss-mirror", "ss(mirror) != -ss: %d vs %d" % (iu, ku)))
        if m.group(4):
            for x in m.group(4).split(","):
                sg, v = x.split(":")
                v = int(v)
                if sg == "+":      # K = K+, changed diagram = K-
                    ok = v <= ku <= v + 2
                else:              # K = K-, changed diagram = K+
                    ok = ku <= v <= ku + 2
                if not ok:
                    bad.append(("ss-crossing-change", "crossing change inequality fails: ss=%d, after changing a %s crossing %d" % (ku, sg, v)))
    return bad


def equal(case, impl, model):
    if model in ("REL", "SKIP"):
        return True
    if case.startswith("sso "):
        # exact comparison of the integer; a panic of the library ("P") matches only a rejection (None) of the oracle
        return impl == model or (impl == "P" and model == "NONE")
    # cyc: the cycles built on the definition must be cycles and as many as the library reports
    im = [dict(x.split("=") for x in seg.split()) for seg in impl.split(";")] if "PANIC" not in impl else []
    mo = [dict(x.split("=") for x in seg.split() if "=" in x) for seg in model.split(";")]
    if "MODEL-NONE" in model or len(im) != len(mo):
        return False
    for a, b in zip(im, mo):
        if a.get("n") != b.get("n") or b.get("cyc") != "1":
            return False
        if a.get("h") != "0" and b.get("nz") != "1":
            return False
    return True


def nontrivial(case, impl):
    return case.count(",") >= 2


def run(ctx):
    ctx.equal = equal
    obl = C.coq_obligations(ctx.pid, ["Extract/ExtractC06.vo"], more_props=MORE_PROPS)
    extra = {}
    if ctx.thorough:
        extra.update(C.coqchk(ctx.pid, more_props=MORE_PROPS))
    corr = C.correspondence(ctx, "c06", nontrivial, per_shard=3)
    ev = []
    if corr.get("ok"):
        cases = open(os.path.join(ctx.work, "corr", "cases.txt")).read().splitlines()
        impl = open(os.path.join(ctx.work, "corr", "impl.txt")).read().splitlines()
        model = open(os.path.join(ctx.work, "corr", "model.txt")).read().splitlines()
        for c, a in zip(cases, impl):
            for key, text in relations(c, a):
                ev.append((key, text, {"case": c, "impl": a[:1500], "model": text}))
        extra["lee_cycles_checked_on_definition"] = sum(1 for m in model if m.startswith("h="))
        extra["crossing_changes_evaluated"] = sum(a.count(":") for c, a in zip(cases, impl) if c.startswith("ss "))
        sso = [(c, a, m) for c, a, m in zip(cases, impl, model) if c.startswith("sso ")]
        extra["ss_values_compared_with_oracle"] = sum(1 for c, a, m in sso if m not in ("SKIP", "NONE"))
        extra["ss_values_nonzero_compared"] = sum(1 for c, a, m in sso if m not in ("SKIP", "NONE", "0"))
        extra["ss_oracle_skipped_by_size"] = sum(1 for c, a, m in sso if m == "SKIP")
    return C.finish(ctx, "other", obl, corr, RULE, extra_cov=extra, assumptions=kh.KH_ASSUME + [
        "the invariance properties of the s-type invariant are theorems of the cited paper; they are evaluated on generated instances, not proved",
        "the value of ss is compared with the definition-level oracle ss_spec only for diagrams whose chain groups around degree 0 have at most "
        "100 (quick) / 150 (thorough) generators (knots up to about 6 crossings); for larger diagrams only the relations are checked"],
        explain=("Level 'other': relations of the property evaluated on the implementation's values for generated knots/moves/mirrors/crossing "
                 "changes; Lee's canonical chains rebuilt on the Coq cube complex (the definition) and checked to be cycles per instance; "
                 "Coq lemmas: a.b = 0, a.a = h a, b.b = -h b, comul a = a(x)a, comul b = b(x)b for all h.  The value of ss_invariant is compared "
                 "exactly with the Coq oracle ss_spec (Properties/C06Ss.v: divisibility well defined and independent of the homology coordinates, "
                 "coordinates are homology coordinates by C07 + C09, ss = 2d + w - r + 1) on small knots."), extra_violations=ev)


def replay(ctx, payload):
    ctx.equal = equal
    cases = payload.get("cases") or [payload["first"]["case"]]
    corr = C.correspondence(ctx, "c06", nontrivial, replay_cases=cases, per_shard=3)
    if corr.get("error"):
        print(corr["error"])
        return 2
    impl = open(os.path.join(ctx.work, "corr", "impl.txt")).read().splitlines()
    n = 0
    for c, a in zip(cases, impl):
        for key, text in relations(c, a):
            print("RELATION-FAILS [%s] %s\n  case=%s" % (key, text, c[:400]))
            n += 1
    for (i, c, a, b) in corr["disagreements"]:
        print("DISAGREE with definition case=%s\n  impl =%s\n  model=%s" % (c[:300], a[:600], b[:600]))
    print("replayed %d cases, %d relation failures, %d disagreements" % (corr["n"], n, len(corr["disagreements"])))
    return 1 if (n or corr["disagreements"]) else 0
