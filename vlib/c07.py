"""C07 - homology of any chain complex over a Euclidean domain is computed correctly."""
import os

from . import common as C

RULE = ("cases = (hc) pairs d1, d2 built text-only as d1 = U1*N0*U0^-1, d2 = U2*N1*U1^-1 (U random unimodular with tracked "
        "inverse, N block matrices carrying a planted divisibility chain 1,..,2,6,12,.. / Gaussian, Eisenstein primes / "
        "monic polynomials) so that d2*d1 = 0 with known ranks and torsion: every block shape (a0,h0,a1,h1,h2) in 0..1 "
        "(0..2 for i64/BigInt; includes 0-dimensional, no incoming, no outgoing and zero maps), random shapes with middle "
        "dimension 0..7, with_trans on and off, plus arbitrary small matrix pairs (d2*d1 != 0, exact comparison only); "
        "(cx) GenericChainComplex::generate(0..L, +-1, ..).homology() on complexes of 1..4 spaces incl. malformed row "
        "counts; rings i64, i128, i32, BigInt, Ratio<i64>, Ratio<BigInt>, F2, F3, F5, Z[i], Z[w] (exact comparison of "
        "rank, torsion, forward/backward matrices, generators, reduced coordinates of boundaries) and Q[x], F3[x] "
        "(property clauses on the implementation's output only); a case is non-trivial when the call returns, the "
        "middle dimension is >= 1 and at least one differential is non-zero (hc) or the complex has >= 2 spaces (cx); "
        "distinct = distinct case lines")
ASSUME = ["SNF contract: the theorems hold for every SNF routine meeting the specification of property C09 (D = P*A*Q, "
          "inverse pairs, diagonal, non-zero entries first, divisibility chain, zero input -> identity transformations); "
          "the executable model instantiates the routine with Model/Snf.v (+ Model/Lll.v preprocessing)",
          "ring dictionaries of Model/Snf.v behave as the Rust scalar types on the explored entries (validated by the run; C14/C15)",
          "the property clauses on the implementation's output (d2*q = 0, p*q = I, p*d1 = 0 mod tors) are evaluated with the "
          "library's own ring arithmetic",
          "machine-width overflow aborts (i32/i64/i128 panics where the unbounded model returns a value) are out of scope and counted, not flagged",
          "sparse containers are represented by their dense contents (structural equality of SpVec with stored zeros is not observed)"]

MACHINE = {"i32", "i64", "i128", "gi64", "ei64", "q64"}


def split(impl):
    p = impl.split(" | ")
    return p[0], (p[1] if len(p) > 1 else "")


def overflow_abort(case, impl, model):
    return impl == "P" and model not in ("P", "SKIP") and case.split()[1] in MACHINE


def equal(case, impl, model):
    """exact comparison of the mirrored observables"""
    if impl in ("TOP-PANIC", "FORMS-DIFFER", "TRANS-FLAG"):
        return False
    obs, _ = split(impl)
    if model == "SKIP":
        return obs in ("SKIP", "P")
    if overflow_abort(case, impl, model):
        return True
    return obs == model


def clause_failures(case, impl):
    """property clauses evaluated by the harness on the implementation's own output -> list of failed clause names"""
    obs, cl = split(impl)
    if not cl:
        return []
    kv = dict(x.split("=") for x in cl.split())
    t = case.split()
    if t[0] == "hc" and t[3] != "1":
        # not a complex (d2*d1 != 0 in general): only the clauses that do not depend on it
        kv = {k: v for k, v in kv.items() if k in ("pq", "shape")}
    return sorted(k for k, v in kv.items() if v == "0")


def nontrivial(case, impl):
    t = case.split()
    if impl.startswith("P") or impl.startswith("TOP"):
        return False
    if t[0] == "hc":
        nt = int(t[6])
        c2 = int(t[7 + nt + 1])
        return t[3] == "1" and c2 >= 1 and (int(t[4]) + int(t[5]) > 0)
    return int(t[3]) >= 2


def scan(ctx):
    """clause failures and overflow aborts over the whole run"""
    out = os.path.join(ctx.work, "corr")
    try:
        cases = open(os.path.join(out, "cases.txt")).read().splitlines()
        impl = open(os.path.join(out, "impl.txt")).read().splitlines()
        model = open(os.path.join(out, "model.txt")).read().splitlines()
    except OSError:
        return [], {}
    extra, stats = [], {"overflow_aborts": 0, "panics": 0, "clause_evaluations": 0, "exact_comparisons": 0, "checker_only": 0}
    for c, a, b in zip(cases, impl, model):
        if overflow_abort(c, a, b):
            stats["overflow_aborts"] += 1
        if a == "P":
            stats["panics"] += 1
        if b == "SKIP":
            stats["checker_only"] += 1
        else:
            stats["exact_comparisons"] += 1
        if " | " in a:
            stats["clause_evaluations"] += 1
        f = clause_failures(c, a)
        if f:
            extra.append(("clause-" + "-".join(f),
                          "property clause(s) %s fail on the implementation's output" % ",".join(f),
                          {"case": c, "impl": a, "model": b}))
    return extra, stats


def harmless(case, impl, model):
    """the implementation's output differs from the model's (another, equally valid choice of generators /
    coordinates) while every clause of the property evaluated on the implementation's own output holds, including
    rank and torsion against the planted values"""
    obs, cl = split(impl)
    if not cl or impl.startswith("P") or obs in ("TOP-PANIC", "FORMS-DIFFER", "TRANS-FLAG"):
        return False
    t = case.split()
    kv = dict(x.split("=") for x in cl.split())
    if t[0] == "hc" and t[3] != "1":
        # arbitrary matrices with d2*d1 != 0: outside the property's domain; only the clauses that do not depend on
        # being a complex are meaningful
        return kv.get("pq") == "1" and kv.get("shape") == "1"
    if not kv or any(v != "1" for v in kv.values()):
        return False
    # rank and torsion must also agree with the model's (they are canonical)
    m = model.split()
    o = obs.split()
    return len(m) >= 2 and len(o) >= 2 and o[0] == m[0] and o[1] == m[1]


def run(ctx):
    ctx.equal = equal
    obl = C.coq_obligations(ctx.pid, ["Extract/ExtractC07.vo"], more_props=["C07Uct"])
    extra = {}
    if ctx.thorough:
        extra.update(C.coqchk(ctx.pid, more_props=["C07Uct"]))
    corr = C.correspondence(ctx, "c07", nontrivial)
    viol, stats = scan(ctx)
    extra["c07_stats"] = stats
    return C.finish(ctx, "proof", obl, corr, RULE, extra_cov=extra, assumptions=ASSUME, extra_violations=viol,
                    harmless=harmless)


def replay(ctx, payload):
    ctx.equal = equal
    cases = payload.get("cases") or [payload["first"]["case"]]
    corr = C.correspondence(ctx, "c07", nontrivial, replay_cases=cases)
    if corr.get("error"):
        print(corr["error"])
        return 2
    bad = 0
    for (i, c, a, b) in corr["disagreements"]:
        print("DISAGREE case=%s\n  impl =%s\n  model=%s" % (c[:400], a[:400], b[:400]))
        bad += 1
    viol, _ = scan(ctx)
    for (k, text, p) in viol:
        print("CLAUSE-FAILS %s case=%s\n  impl =%s" % (text, p["case"][:400], p["impl"][:400]))
        bad += 1
    print("replayed %d cases, %d failures" % (corr["n"], bad))
    return 1 if bad else 0
