"""C07 - homology of any chain complex over a Euclidean domain is computed correctly."""
import os

from . import common as C

RULE = ("cases = (hc) pairs d1, d2 built text-only as d1 = U1*N0*U0^-1, d2 = U2*N1*U1^-1 (U random unimodular with tracked "
        "inverse, N block matrices carrying a planted divisibility chain 1,..,2,6,12,.. / Gaussian, Eisenstein primes / "
        "monic polynomials) so that d2*d1 = 0 with known ranks and torsion: every block shape (a0,h0,a1,h1,h2) in 0..1 "
        "(0..2 for i64/BigInt; includes 0-dimensional, no incoming, no outgoing and zero maps), random shapes with middle "
        "dimension 0..7, with_trans on and off, plus arbitrary small matrix pairs (d2*d1 != 0, exact comparison only); "
        "(hc, valid = 2, and cx; Z[i] and Z[w] plans only) NON-chain diagonal forms: d_out = 0 (c3 = 0..2) and "
        "d_in = U*diag(a_1..a_k)*V, k = 2..4 (plus 0..1 zero columns and 0..2 zero rows), a_i = products of 1..2 pairwise "
        "non-associate Gaussian / Eisenstein primes (conjugate pairs 1+2i / 2+i, 2+w / 1+2w included), optionally times a "
        "common factor and a unit, redrawn until some pair has neither a_i | a_j nor a_j | a_i, so that diag_normalize "
        "performs a genuine gcd step whose lcm entry falls outside the normalised sector and the final unit normalisation "
        "uses units that are not their own inverses; U, V random unimodular (identity in every fourth case) and the fixed "
        "witnesses diag(3+6i, 6+3i), diag(1+2i, 2+i), diag(2+2w, 2+4w), ..; the invariant factors are not planted: "
        "cyc, pq, bnd, shape and rank = c2 - k are evaluated, the reported torsion must be a divisibility chain of non-units "
        "whose product is associated to a_1*..*a_k, and rank, torsion, forward/backward matrices are compared exactly with the "
        "model; one case in five goes through GenericChainComplex::generate(..).homology() (vec: vectorize(gen k) = e_k); "
        "(cx) GenericChainComplex::generate(0..L, +-1, ..).homology() on complexes of 1..4 spaces incl. malformed row "
        "counts; (mg) composition of coordinate maps: the same generated complexes g, but every summand carries a coordinate "
        "map chosen among free / Summand::new(.., Trans::new(U, U^-1)) / two such steps joined by Summand::merge (reduced to "
        "one factor) / Trans::new(U1,..).merged(Trans::new(U2,..)) (two factors, as reduced() leaves them), U random "
        "unimodular with tracked inverse, at least one degree non-free; cb = ChainComplexBase::new(summands, d_deg, g.d); "
        "per degree h = cb.compute_homology_at(i, true), then the three routes cb[i].clone().merge(h) (Trans::merge + "
        "Trans::reduce), cb.homology_at(i) (merged, not reduced) and from_raw_gens(..).merge(cb[i]).merge(h) (merge of a "
        "merged summand): exact comparison of rank, torsion, forward_mat/backward_mat of all three, gen(k), "
        "vectorize_euc of the boundaries of g, devectorize(1,..,1), and the clauses on the implementation's output with "
        "respect to the ORIGINAL complex g (generators are cycles of g, vectorize(gen k) = e_k, boundaries of g vanish "
        "mod torsion, p*q = I, the three routes agree, same module as g.homology_at(i)); one case in six uses arbitrary "
        "small matrices and non-inverse coordinate maps of arbitrary rank (exact comparison incl. panics, and agreement "
        "of the routes); (rd) generate(..).reduced(), s = cr[i].clone(); s.merge(cr.compute_homology_at(i, true)): the "
        "same clauses against the original complex and against cr.homology_at(i) (the elimination order is hash "
        "dependent: only rank and number of torsion summands are compared with the model's homology of g); "
        "rings i64, i128, i32, BigInt, Ratio<i64>, Ratio<BigInt>, F2, F3, F5, Z[i], Z[w] (exact comparison of "
        "rank, torsion, forward/backward matrices, generators, reduced coordinates of boundaries) and Q[x], F3[x] "
        "(property clauses on the implementation's output only); a case is non-trivial when the call returns, the "
        "middle dimension is >= 1 and at least one differential is non-zero (hc), the complex has >= 2 spaces (cx, rd), "
        "or it is a valid complex with >= 2 spaces and a non-free summand (mg); distinct = distinct case lines")
ASSUME = ["SNF contract: the theorems hold for every SNF routine meeting the specification of property C09 (D = P*A*Q, "
          "inverse pairs, diagonal, non-zero entries first, divisibility chain, zero input -> identity transformations); "
          "the executable model instantiates the routine with Model/Snf.v (+ Model/Lll.v preprocessing)",
          "ring dictionaries of Model/Snf.v behave as the Rust scalar types on the explored entries (validated by the run; C14/C15)",
          "the property clauses on the implementation's output (d2*q = 0, p*q = I, p*d1 = 0 mod tors) are evaluated with the "
          "library's own ring arithmetic",
          "machine-width overflow aborts (i32/i64/i128 panics where the unbounded model returns a value) are out of scope and counted, not flagged",
          "sparse containers are represented by their dense contents (structural equality of SpVec with stored zeros is not observed)",
          "composition theorems (Properties/C07Merge.v) hold for Trans / Summand values satisfying the shape invariant that every "
          "constructor of the API establishes (trans_ok / summand_ok, proved preserved by id, new, append, merged, reduce, "
          "calculate, Summand::new); for ChainComplexBase::reduced() the retraction-by-chain-maps hypotheses of C07_merge_complex "
          "are property C08's theorems and are not re-derived here (the rd cases evaluate the clauses on the implementation's output)"]

MACHINE = {"i32", "i64", "i128", "gi64", "ei64", "q64"}


def split(impl):
    p = impl.split(" | ")
    return p[0], (p[1] if len(p) > 1 else "")


def overflow_abort(case, impl, model):
    return impl == "P" and model not in ("P", "SKIP") and case.split()[1] in MACHINE


def equal(case, impl, model):
    """exact comparison of the mirrored observables"""
    if impl in ("TOP-PANIC", "FORMS-DIFFER", "TRANS-FLAG"):
        return False
    obs, _ = split(impl)
    if model == "SKIP":
        return obs in ("SKIP", "P")
    if overflow_abort(case, impl, model):
        return True
    return obs == model


def clause_failures(case, impl):
    """property clauses evaluated by the harness on the implementation's own output -> list of failed clause names"""
    obs, cl = split(impl)
    if not cl:
        return []
    kv = dict(x.split("=") for x in cl.split())
    t = case.split()
    if t[0] == "hc" and t[3] not in ("1", "2"):
        # not a complex (d2*d1 != 0 in general): only the clauses that do not depend on it
        # (valid = 2: a complex with d2 = 0 and a non-chain diagonal form of d1: every clause is evaluated)
        kv = {k: v for k, v in kv.items() if k in ("pq", "shape")}
    if t[0] == "mg" and t[3] != "1":
        # arbitrary matrices and coordinate maps (no inverse pairs, no complex): only the agreement of the three routes
        # (Trans::merge + reduce against merged) is a theorem for them
        kv = {k: v for k, v in kv.items() if k == "same"}
    return sorted(k for k, v in kv.items() if v == "0")


def nontrivial(case, impl):
    t = case.split()
    if impl.startswith("P") or impl.startswith("TOP"):
        return False
    if t[0] == "hc":
        nt = int(t[6])
        c2 = int(t[7 + nt + 1])
        return t[3] in ("1", "2") and c2 >= 1 and (int(t[4]) + int(t[5]) > 0)
    if t[0] == "mg":
        # a valid complex with >= 2 spaces (at least one summand carries a non-trivial coordinate map by construction)
        return t[3] == "1" and int(t[4]) >= 2
    return int(t[3]) >= 2


def scan(ctx):
    """clause failures and overflow aborts over the whole run"""
    out = os.path.join(ctx.work, "corr")
    try:
        cases = open(os.path.join(out, "cases.txt")).read().splitlines()
        impl = open(os.path.join(out, "impl.txt")).read().splitlines()
        model = open(os.path.join(out, "model.txt")).read().splitlines()
    except OSError:
        return [], {}
    extra, stats = [], {"overflow_aborts": 0, "panics": 0, "clause_evaluations": 0, "exact_comparisons": 0, "checker_only": 0,
                        "merge_cases": 0, "merge_cases_arbitrary": 0, "reduced_merge_cases": 0, "nonchain_cases": 0}
    for c, a, b in zip(cases, impl, model):
        if c.startswith("mg "):
            stats["merge_cases" if c.split()[3] == "1" else "merge_cases_arbitrary"] += 1
        elif c.startswith("rd "):
            stats["reduced_merge_cases"] += 1
        elif c.startswith("hc ") and c.split()[3] == "2":
            stats["nonchain_cases"] += 1
        if overflow_abort(c, a, b):
            stats["overflow_aborts"] += 1
        if a == "P":
            stats["panics"] += 1
        if b == "SKIP":
            stats["checker_only"] += 1
        else:
            stats["exact_comparisons"] += 1
        if " | " in a:
            stats["clause_evaluations"] += 1
        f = clause_failures(c, a)
        if f:
            extra.append(("clause-" + "-".join(f),
                          "property clause(s) %s fail on the implementation's output" % ",".join(f),
                          {"case": c, "impl": a, "model": b}))
    return extra, stats


def harmless(case, impl, model):
    """the implementation's output differs from the model's (another, equally valid choice of generators /
    coordinates) while every clause of the property evaluated on the implementation's own output holds, including
    rank and torsion against the planted values"""
    obs, cl = split(impl)
    if not cl or impl.startswith("P") or obs in ("TOP-PANIC", "FORMS-DIFFER", "TRANS-FLAG"):
        return False
    t = case.split()
    kv = dict(x.split("=") for x in cl.split())
    if t[0] == "hc" and t[3] not in ("1", "2"):
        # arbitrary matrices with d2*d1 != 0: outside the property's domain; only the clauses that do not depend on
        # being a complex are meaningful
        return kv.get("pq") == "1" and kv.get("shape") == "1"
    if t[0] in ("mg", "rd"):
        # the composition routes are mirrored statement by statement (mg) / compared on canonical observables only (rd)
        return False
    if not kv or any(v != "1" for v in kv.values()):
        return False
    # rank and torsion must also agree with the model's (they are canonical)
    m = model.split()
    o = obs.split()
    return len(m) >= 2 and len(o) >= 2 and o[0] == m[0] and o[1] == m[1]


def kernel_crosscheck(ctx, limit=60):
    """a sample of the `hc` cases over Z (i32: Z_dict; i64 / i128 / big: Zpre_dict with the LLL-HNF model as SNF
    preprocessing) evaluated by vm_compute inside coqc - HomologyCalc.calculate with the Model/Snf.v adapter, then
    forward_mat / backward_mat - must give exactly the rank, torsion list and coordinate matrices the EXTRACTED
    runner printed"""
    import os
    out = os.path.join(ctx.work, "corr")
    try:
        cases = open(os.path.join(out, "cases.txt")).read().splitlines()
        model = open(os.path.join(out, "model.txt")).read().splitlines()
    except OSError:
        return {}, []
    z = lambda x: "(%d)%%Z" % int(x)

    def mat(m, n, ents):
        if len(ents) != m * n:
            raise ValueError
        rows = [] if (m == 0 and n != 0) else [ents[i * n:(i + 1) * n] for i in range(m)]
        return "(mkm %d %d [%s])" % (m, n, "; ".join("[" + "; ".join(z(x) for x in r) + "]" for r in rows))

    def pmat(sx):
        if sx == "P":
            return "None"
        dims, body = sx.split(":", 1)
        m, n = [int(x) for x in dims.split("x")]
        ents = [x for r in body.split(";") for x in r.split(",") if x != ""]
        return "(Some %s)" % mat(m, n, ents)

    ex = []
    for rings, dic, lim in ((("i32",), "Z_dict", limit // 2), (("i64", "i128", "big"), "(Zpre_dict (Some zpre))", limit - limit // 2)):
        sel = [(c.split(), mm) for c, mm in zip(cases, model)
               if c.startswith(tuple("hc %s " % r for r in rings)) and len(c.split()) <= 60 and mm != "SKIP"]
        step = max(1, len(sel) // lim)
        for t, mm in sel[::step][:lim]:
            try:
                wt = "true" if t[2] == "1" else "false"
                rest = t[7 + int(t[6]):]
                c1, c2, c3 = int(rest[0]), int(rest[1]), int(rest[2])
                ents = rest[3:]
                d1 = mat(c2, c1, ents[:c2 * c1])
                d2 = mat(c3, c2, ents[c2 * c1:])
                lhs = ("match hc_calculate %s %s %s %s with None => None | Some (rk, tors, tr) => Some (rk, tors, "
                       "match tr with None => None | Some t => Some (forward_mat (ed_ring %s) t, backward_mat (ed_ring %s) t) end) end"
                       % (dic, d1, d2, wt, dic, dic))
                if mm == "P":
                    rhs = "None"
                else:
                    f = dict(x.split("=", 1) for x in mm.split())
                    tors = "[]" if f["T"] == "-" else "[" + "; ".join(z(x) for x in f["T"].split(",")) + "]"
                    tr = "None" if f["F"] == "-" else "Some (%s, %s)" % (pmat(f["F"]), pmat(f["B"]))
                    rhs = "Some (%d, %s, %s)" % (int(f["R"]), tors, tr)
            except (ValueError, IndexError, KeyError):
                continue
            ex.append((lhs, rhs))
    pre = ["From Coq Require Import List ZArith NArith Arith.",
           "Require Import Yui.Base.Ring Yui.Model.Snf Yui.Model.Lll Yui.Model.HomologyCalc Yui.Extract.ExtractC07.",
           "Import ListNotations.",
           "Definition zpre : preproc Z := fun _ _ f1 f2 A => lll_hnf Z_lll A (f1, f2) (N.to_nat 1000000)."]
    return C.kernel_examples(ctx, pre, ex, timeout=900)


def run(ctx):
    ctx.equal = equal
    obl = C.coq_obligations(ctx.pid, ["Extract/ExtractC07.vo"], more_props=["C07Uct", "C07Merge"])
    extra = {}
    if ctx.thorough:
        extra.update(C.coqchk(ctx.pid, more_props=["C07Uct", "C07Merge"]))
    corr = C.correspondence(ctx, "c07", nontrivial)
    viol, stats = scan(ctx)
    extra["c07_stats"] = stats
    if corr.get("ok"):
        info, probs = kernel_crosscheck(ctx)
        extra.update(info)
        if probs:
            obl["problems"] = obl.get("problems", []) + probs
            obl["ok"] = False
    return C.finish(ctx, "proof", obl, corr, RULE, extra_cov=extra, assumptions=ASSUME, extra_violations=viol,
                    harmless=harmless)


def replay(ctx, payload):
    ctx.equal = equal
    cases = payload.get("cases") or [payload["first"]["case"]]
    corr = C.correspondence(ctx, "c07", nontrivial, replay_cases=cases)
    if corr.get("error"):
        print(corr["error"])
        return 2
    bad = 0
    for (i, c, a, b) in corr["disagreements"]:
        print("DISAGREE case=%s\n  impl =%s\n  model=%s" % (c[:400], a[:400], b[:400]))
        bad += 1
    viol, _ = scan(ctx)
    for (k, text, p) in viol:
        print("CLAUSE-FAILS %s case=%s\n  impl =%s" % (text, p["case"][:400], p["impl"][:400]))
        bad += 1
    print("replayed %d cases, %d failures" % (corr["n"], bad))
    return 1 if bad else 0
