"""C02 - Khovanov homology is a link invariant with the expected mirror duality."""
import os
from . import common as C
from . import kh
from .c03 import parse_tables

RULE = ("pairs (D1, D2): D1 = closure of a random braid word on 2-4 strands; D2 = D1 after a random sequence of 1-4 braid moves "
        "(conjugation, cyclic rotation, Reidemeister II insertion, braid relation / Reidemeister III, far commutation, Markov "
        "stabilisation of either sign) followed by optional Reidemeister I kink, global orientation reversal, edge relabelling and "
        "crossing reordering; every second pair also (D1, mirror D1); table knots with their mirrors, kinked and reversed versions; "
        "every third pair has 6-14 crossings (implementation only). Evaluated on the implementation's bigraded tables over Z, Q, F2, F3 "
        "(unreduced; reduced for knots): SAME = identical tables; MIRROR = free part (i,j)->(-i,-j), torsion (i,j)->(1-i,-j); "
        "small pairs are additionally compared with the oracle. non-trivial = at least one diagram with >= 3 crossings and non-trivial "
        "move sequence; every fourth moved braid is closed by the library itself (Braid::closure) instead of the generator-side closure; distinct = distinct case lines")


def relation(case, impl):
    head = case.split(";")[0].split()
    kind = head[1]
    if "||" not in impl:
        return [("impl", "no tables: " + impl[:100])]
    a, b = impl.split("||")
    if a.strip() == "P" or b.strip() == "P":
        return [("panic", "implementation panicked on one diagram of the pair")]
    A, B = parse_tables(a), parse_tables(b)
    bad = []
    if set(A) != set(B):
        return [("segments", "different table sets %s vs %s" % (sorted(A), sorted(B)))]
    for key in A:
        ta, tb = A[key], B[key]
        if kind == "SAME":
            if ta != tb:
                cells = sorted(k for k in set(ta) | set(tb) if ta.get(k) != tb.get(k))
                bad.append(("invariance", "tables differ over %s red=%d at %s" % (key[0], key[2], cells[:5])))
        else:
            ring = key[0]
            keys = set(tb) | set((-i, -j) for (i, j) in ta) | set((1 - i, -j) for (i, j) in ta)
            for (i, j) in keys:
                r2, t2 = tb.get((i, j), (0, []))
                r1 = ta.get((-i, -j), (0, []))[0]
                t1 = ta.get((1 - i, -j), (0, []))[1]
                if r1 != r2 or (ring == "Z" and sorted(t1) != sorted(t2)):
                    bad.append(("mirror", "mirror duality fails over %s red=%d at (%d,%d): %s vs rank %d tors %s" % (ring, key[2], i, j, (r2, t2), r1, t1)))
                    break
    return bad


def equal(case, impl, model):
    return model == "SKIP" or impl == model


def nontrivial(case, impl):
    return case.count(",") >= 4


def run(ctx):
    ctx.equal = equal
    obl = C.coq_obligations(ctx.pid, ["Extract/ExtractC02.vo"], more_props=["C02Inv"])
    extra = {}
    if ctx.thorough:
        extra.update(C.coqchk(ctx.pid, more_props=["C02Inv"]))
    corr = C.correspondence(ctx, "c02", nontrivial)
    ev = []
    if corr.get("ok"):
        cases = open(os.path.join(ctx.work, "corr", "cases.txt")).read().splitlines()
        impl = open(os.path.join(ctx.work, "corr", "impl.txt")).read().splitlines()
        kinds = {}
        for c, a in zip(cases, impl):
            k = c.split()[1]
            kinds[k] = kinds.get(k, 0) + 1
            for key, text in relation(c, a):
                ev.append((key, text, {"case": c, "impl": a[:2000], "model": text}))
        extra["relation_kinds"] = kinds
        extra["oracle_compared"] = sum(1 for c in cases if c.split(";")[0].split()[-1] == "1")
    return C.finish(ctx, "other", obl, corr, RULE, extra_cov=extra, assumptions=kh.KH_ASSUME + [
        "Reidemeister / Markov invariance of Khovanov homology and mirror duality are theorems of knot theory about the definition; "
        "they are not proved here, they are evaluated on every generated pair"], explain=kh.EXPLAIN % "C02", extra_violations=ev)


def replay(ctx, payload):
    ctx.equal = equal
    cases = payload.get("cases") or [payload["first"]["case"]]
    corr = C.correspondence(ctx, "c02", nontrivial, replay_cases=cases)
    if corr.get("error"):
        print(corr["error"])
        return 2
    impl = open(os.path.join(ctx.work, "corr", "impl.txt")).read().splitlines()
    n = 0
    for c, a in zip(cases, impl):
        for key, text in relation(c, a):
            print("RELATION-FAILS [%s] %s\n  case=%s" % (key, text, c[:400]))
            n += 1
    for (i, c, a, b) in corr["disagreements"]:
        print("DISAGREE with oracle case=%s\n  impl =%s\n  model=%s" % (c[:300], a[:600], b[:600]))
    print("replayed %d cases, %d relation failures, %d oracle disagreements" % (corr["n"], n, len(corr["disagreements"])))
    return 1 if (n or corr["disagreements"]) else 0
