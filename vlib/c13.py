"""C13 - sparse and dense matrix containers implement ordinary matrix algebra; composed transforms."""
from . import common as C

RULE = ("a case is a stack program `<ring> tok ...` (ring in Z, Q, F5) evaluated by the real yui-matrix API and by the "
        "extracted Coq model; the rendered final stack (shape, stored pattern in CSC order with explicit zeros, nnz, "
        "dense rendering, is_zero/is_id/is_diag, Mat::iter) or the index of the panicking token must be equal. "
        "cases = (1) every kind of operation drawn at random on operands of every shape of a list containing (0,0),(0,n),"
        "(m,0),(1,1)..(8,8) (thorough: all shapes <= 8x8) over the three rings, operands built through "
        "from_col_vecs/from_sorted_entries with explicit zeros, from_entries with duplicates and cancelling pairs, a - a, "
        "dense conversion; (2) a fixed list of operations at boundary parameters for every shape (incl. every divide4 "
        "corner followed by combine_blocks, permutation matrices with both sides of row_perm(p)*a == a.permute_rows(p) and "
        "a*col_perm(q) == a.permute_cols(q)); (3) random programs of "
        "1-5 chained operations; (4) random transform histories (<= 8 operations among append, append_perm, merge, reduce, "
        "sub) observed through forward/backward on random vectors and forward_mat/backward_mat, before and after reduce; "
        "(5) a malformed stream. About one parameter in ten is out of range on purpose. Every call form of an operator "
        "(value/reference/assigning) is evaluated and the forms must agree. A case is non-trivial when it does not panic "
        "and its result has at least one stored entry or a non-empty dense rendering; distinct = distinct case lines. "
        "coverage.op_counts / op_panics give, per operation token, how often it was executed in this run and how often it "
        "was the panicking token; coverage.zero_dim_results counts cases whose rendered result contains a matrix with a "
        "zero dimension, coverage.stored_zero_results those with an explicitly stored zero")
ASSUME = ["nalgebra (DMatrix), nalgebra-sparse (COO->CSC assembly, CSC + - * neg transpose, dense<->CSC) and sprs::Perm "
          "are modelled by their mathematical definition, not verified; the run observes that they behave so",
          "scalar types: exactness of i64 / Ratio<i64> / FF<5> is C14's subject; entries stay far below the i64 range",
          "serde, Display, density/redundancy/mean_weight (floating point) and SpMat::is_triang are not covered"]

# SpMat::is_id inspects stored entries only, so a square matrix with an unstored diagonal position (e.g.
# SpMat::zero((n,n)), n >= 1) is reported to be the identity.  The model mirrors this (theorem
# C13_sp_is_id_stored_only / example C13_sp_is_id_zero_matrix), the property text of C13 lists operations that
# yield entries and not this predicate, so it is recorded as a note in the evidence and not as a violation.
# Setting ESCALATE_IS_ID routes it through the known-findings protocol (key below).
ESCALATE_IS_ID = False
IS_ID_KEY = "sp-is-id-ignores-unstored-diagonal"


def nontrivial(case, impl):
    if impl.startswith("P@") or impl.startswith("ERR") or impl == "-":
        return False
    return "[]" not in impl.replace("it=[]", "") or any(ch.isdigit() for ch in impl.split("[", 1)[-1])


def probe_is_id(ctx, corr):
    """adjacent finding: does SpMat::zero((2,2)).is_id() answer true?  (looks at the recorded run)"""
    import os
    out = os.path.join(ctx.work, "corr")
    try:
        cases = open(os.path.join(out, "cases.txt")).read().splitlines()
        impl = open(os.path.join(out, "impl.txt")).read().splitlines()
    except OSError:
        return None
    for c, a in zip(cases, impl):
        if c == "Z zero 2 2":
            return {"case": c, "impl": a, "zero_matrix_reported_as_identity": " id=1 " in a}
    return None


OPS = set(("dup swap over drop p pid pfi csc fe fdd zero id fcv frp fcp ofd tr neg add sub mul perm permr permc sm smr "
           "smc exmod div4 comb concat stack extc tod colv vfe vfse vzero vunit vfv vmat vperm vsub vstack vsplit vstackn "
           "vneg vadd vsubt mulv dfd dzero did ddiag dsm dsmr dsmc dswr dswc dmr dmc dart dact dle dre dneg dadd dsubt "
           "dmul tid tnew tapp tappp tmerge tred tsub tfwd tbwd tfm tbm").split())


def distribution(ctx):
    """operation mix / panic positions / zero-dimension and stored-zero results of the recorded run"""
    import os
    import re
    out = os.path.join(ctx.work, "corr")
    try:
        cases = open(os.path.join(out, "cases.txt")).read().splitlines()
        impl = open(os.path.join(out, "impl.txt")).read().splitlines()
    except OSError:
        return {}
    cnt, pan = {}, {}
    zero_dim = stored_zero = panics = 0
    zd = re.compile(r"\b[MD] (0 \d+|\d+ 0) |\bV 0 ")
    sz = re.compile(r"\[(?:[^\]]*,)?\d+ (?:\d+ )?0(?:/1)?(?:,[^\]]*)?\]")
    for c, a in zip(cases, impl):
        t = c.split()[1:]
        for x in t:
            if x in OPS:
                cnt[x] = cnt.get(x, 0) + 1
        m = re.match(r"P@(\d+)", a)
        if m:
            panics += 1
            k = int(m.group(1))
            if k < len(t):
                pan[t[k]] = pan.get(t[k], 0) + 1
            continue
        if zd.search(a):
            zero_dim += 1
        if any(sz.search(part.split("] [")[0] + "]") for part in a.split(" | ") if part[:1] in "MV"):
            stored_zero += 1
    return {"op_counts": dict(sorted(cnt.items())), "op_panics": dict(sorted(pan.items())), "panicking_cases": panics,
            "zero_dim_results": zero_dim, "stored_zero_results": stored_zero}


def run(ctx):
    obl = C.coq_obligations(ctx.pid, ["Extract/ExtractC13.vo"])
    extra = {}
    if ctx.thorough:
        extra.update(C.coqchk(ctx.pid))
    corr = C.correspondence(ctx, "c13", nontrivial)
    extra_viol = []
    if corr.get("ok"):
        extra.update(distribution(ctx))
    pr = probe_is_id(ctx, corr)
    if pr is not None:
        extra["adjacent_findings"] = [{"key": IS_ID_KEY, "probe": pr,
                                       "text": "SpMat::is_id() only inspects stored entries: SpMat::<i64>::zero((2,2)).is_id() == true"}]
        if pr["zero_matrix_reported_as_identity"]:
            C.log("NOTE property=C13 adjacent finding %s: SpMat::zero((2,2)).is_id() is true (predicate outside the "
                  "operations listed by C13; mirrored by the model)" % IS_ID_KEY)
            if ESCALATE_IS_ID:
                extra_viol.append((IS_ID_KEY, "SpMat::is_id() is true for the zero matrix",
                                   {"case": pr["case"], "impl": pr["impl"], "model": "is_id must be false"}))
    return C.finish(ctx, "proof", obl, corr, RULE, extra_cov=extra, assumptions=ASSUME, extra_violations=extra_viol)


def replay(ctx, payload):
    cases = payload.get("cases") or [payload["first"]["case"]]
    corr = C.correspondence(ctx, "c13", nontrivial, replay_cases=cases)
    if corr.get("error"):
        print(corr["error"])
        return 2
    for (i, c, a, b) in corr["disagreements"]:
        print("DISAGREE case=%s\n  impl =%s\n  model=%s" % (c, a, b))
    print("replayed %d cases, %d disagreements" % (corr["n"], len(corr["disagreements"])))
    return 1 if corr["disagreements"] else 0
