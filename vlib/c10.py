"""C10 - LLL and LLL-based Hermite normal form return unimodular, reduced results."""
import os

from . import common as C

RULE = ("cases = lll_hnf(&a, [f1, f2]) / lll_hnf_in_place and lll(&a, f) / lll_in_place over Z (BigInt, and the same "
        "input over i64 and i128), Z[i] and Z[w] (GaussInt / EisenInt over BigInt, i64, i128): (1) exhaustive sweep of "
        "every Z-matrix with entries in {-1,0,1} (thorough: {-2..2} up to 4 cells) of the shapes 1x1..3x2/2x3, all flag "
        "combinations on the small shapes; every 1x1, 2x1, 1x2 matrix over Z[i], Z[w] with coordinates in {-2..2} (all "
        "unit classes); (2) empty shapes 0x0, 0xn, mx0; (3) random HNF inputs for every shape 0..6 x 0..6 from 10 "
        "families (zero, sparse, low-rank products, duplicate/proportional/zero rows, zero leading columns, unit-scaled "
        "permutations, scrambled echelon forms, [I|x], dense) with entry magnitudes tiny / one digit / around 2^30; "
        "(4) random LLL inputs with independent rows for every shape m <= n <= 6 (identity columns, planted triangular "
        "minor scrambled by a unimodular matrix, dense; independence certified by the rank modulo 1000000009) plus "
        "dependent-row inputs (exact comparison only); (5) entries of 40..300 decimal digits (beyond every machine "
        "width) on shapes up to 4x4; (6) the repository's own examples and the witnesses of the two fixed defects. "
        "Compared exactly: (H, P, Pinv) resp. (B, P) including which transforms are returned, panics, and "
        "by-reference = in-place; i64/i128 runs must give the BigInt answer or abort. On every agreeing output the "
        "verified checkers are evaluated: hnf_shape_b, check_trans (flags 11), and for lll the exit conditions on "
        "(det, lambda), gs_consistent, and size-reducedness + Lovasz condition by exact rational Gram-Schmidt on B "
        "(skipped only for entries > 40 digits on shapes with more than 3 rows). A case is non-trivial when the call "
        "returns, the matrix has >= 2 rows, >= 1 column and a non-zero entry; distinct = distinct case lines")
ASSUME = ["termination of the two loops is not proved (theorems are conditional on the run returning); non-termination of "
          "the implementation would show as TIMEOUT (20 s per case) and is reported as a violation",
          "the maintained (det, lambda) are the integral Gram-Schmidt data of the target: validated by the checker "
          "gs_consistent on every explored LLL output, not proved; LLL-reducedness of B is validated by exact rational "
          "Gram-Schmidt on every explored output with independent rows",
          "machine-width overflow aborts (i64/i128 panic where BigInt returns a value) are out of scope and counted, not flagged; "
          "a machine-width run that returns a different value IS flagged",
          "nalgebra containers (DMatrix row/column views, swap_rows, set_row) are modelled by tabulated list matrices; "
          "that they behave as modelled is observed by the exact comparison, not proved",
          "lll on dependent rows (outside the property's domain) panics with a division by zero in the implementation "
          "and in the model alike; only the exact correspondence is checked there"]

BAD_IMPL = ("TIMEOUT", "TIMEOUT-SKIPPED", "TOP-PANIC", "FORMS-DIFFER", "FLAGS-IGNORED")


def split(line):
    p = line.split(" # ")
    return p[0], (p[1] if len(p) > 1 else "")


def equal(case, impl, model):
    """exact comparison of the mirrored observables (H|P|Pinv resp. B|P, or P = panic)"""
    a, aw = split(impl)
    b, _ = split(model)
    if a in BAD_IMPL or "FLAGS-IGNORED" in a or "!shape" in a:
        return False
    if "DIFF" in aw:
        return False
    return a == b


def clause_failures(case, impl, model):
    """property clauses evaluated by the verified checkers on an output on which implementation and model agree"""
    a, aw = split(impl)
    b, chk = split(model)
    t = case.split()
    alg, flags, tag = t[0], t[4], t[5]
    out = []
    if a != b:
        return out          # reported as a correspondence disagreement
    if alg == "hnf":
        if a == "P":
            out.append("hnf-panics")        # the Hermite routine must return for every matrix
            return out
        kv = dict(x.split("=") for x in chk.split())
        if kv.get("sh") != "1":
            out.append("hnf-shape")
        if flags == "11" and kv.get("tr") != "1":
            out.append("hnf-transform")
    else:
        ind = tag.endswith(":ind1")
        if a == "P":
            if ind:
                out.append("lll-panics-on-independent-rows")
            return out
        kv = dict(x.split("=") for x in chk.split())
        if ind:
            if kv.get("ex") != "1":
                out.append("lll-exit-conditions")
            if kv.get("gs") not in ("1", "-"):
                out.append("lll-gram-data")
            if kv.get("sz") not in ("1", "-"):
                out.append("lll-size-reduced")
            if kv.get("lo") not in ("1", "-"):
                out.append("lll-lovasz")
    return out


def nontrivial(case, impl):
    a, _ = split(impl)
    if a == "P" or a in BAD_IMPL:
        return False
    t = case.split()
    return int(t[2]) >= 2 and int(t[3]) >= 1 and any(x != "0" for x in t[6:])


def scan(ctx):
    out = os.path.join(ctx.work, "corr")
    try:
        cases = open(os.path.join(out, "cases.txt")).read().splitlines()
        impl = open(os.path.join(out, "impl.txt")).read().splitlines()
        model = open(os.path.join(out, "model.txt")).read().splitlines()
    except OSError:
        return [], {}
    viol = []
    st = {"by_alg_ring": {}, "overflow_aborts_i64": 0, "overflow_aborts_i128": 0, "machine_runs_same": 0,
          "impl_panics": 0, "impl_panics_lll_dependent_rows": 0, "timeouts": 0, "big_entry_cases": 0,
          "hnf_shape_checked": 0, "hnf_transform_checked": 0, "lll_independent": 0, "lll_exit_checked": 0,
          "lll_gram_checked": 0, "lll_reduced_checked": 0, "lll_rational_checker_skipped": 0}
    for c, a, b in zip(cases, impl, model):
        t = c.split()
        key = "%s/%s" % (t[0], t[1])
        st["by_alg_ring"][key] = st["by_alg_ring"].get(key, 0) + 1
        am, aw = split(a)
        bm, chk = split(b)
        if t[5].startswith("big-"):
            st["big_entry_cases"] += 1
        if am.startswith("TIMEOUT"):
            st["timeouts"] += 1
        if am == "P":
            st["impl_panics"] += 1
            if t[0] == "lll" and not t[5].endswith(":ind1"):
                st["impl_panics_lll_dependent_rows"] += 1
        if aw.startswith("w="):
            w = aw[2:].split(",")
            st["overflow_aborts_i64"] += w[0] == "P" and am != "P"
            st["overflow_aborts_i128"] += w[1] == "P" and am != "P"
            st["machine_runs_same"] += (w[0] == "same") + (w[1] == "same")
        if am == bm and chk:
            kv = dict(x.split("=") for x in chk.split())
            if t[0] == "hnf":
                st["hnf_shape_checked"] += 1
                st["hnf_transform_checked"] += kv.get("tr") in ("0", "1")
            elif t[5].endswith(":ind1"):
                st["lll_independent"] += 1
                st["lll_exit_checked"] += 1
                st["lll_gram_checked"] += kv.get("gs") in ("0", "1")
                st["lll_reduced_checked"] += kv.get("sz") in ("0", "1")
                st["lll_rational_checker_skipped"] += kv.get("sz") == "-"
        f = clause_failures(c, a, b)
        if f:
            viol.append(("clause-" + "-".join(f),
                         "property clause(s) %s fail on the implementation's output" % ",".join(f),
                         {"case": c, "impl": a, "model": b}))
    for k in st:
        if isinstance(st[k], bool):
            st[k] = int(st[k])
    return viol, st


def kernel_crosscheck(ctx, limit=80):
    """a sample of the Z cases (`hnf`: lll_hnf with the case's [p, pinv] flags; `lll`: lll with / without the
    transformation) evaluated by vm_compute inside coqc on Model/Lll.v must give exactly the matrices the EXTRACTED
    runner printed"""
    import os
    out = os.path.join(ctx.work, "corr")
    try:
        cases = open(os.path.join(out, "cases.txt")).read().splitlines()
        model = open(os.path.join(out, "model.txt")).read().splitlines()
    except OSError:
        return {}, []

    def mat(m, n, ents):
        if len(ents) != m * n:
            raise ValueError
        rows = [ents[i * n:(i + 1) * n] for i in range(m)]
        return "[%s]" % "; ".join("[" + "; ".join("(%d)%%Z" % int(x) for x in r) + "]" for r in rows)

    def omat(m, n, sx):
        sx = sx.strip()
        return "None" if sx == "-" else "(Some %s)" % mat(m, n, sx.split())

    ex = []
    for alg, lim in (("hnf", limit // 2), ("lll", limit - limit // 2)):
        sel = [(c.split(), mm) for c, mm in zip(cases, model)
               if c.startswith(alg + " Z ") and 7 <= len(c.split()) <= 6 + 20 and max(len(x) for x in c.split()[6:]) <= 30
               and "." not in mm.split("#")[0].split()]
        step = max(1, len(sel) // lim)
        for t, mm in sel[::step][:lim]:
            try:
                m, n = int(t[2]), int(t[3])
                a = mat(m, n, t[6:])
                b = lambda ch: "true" if ch == "1" else "false"
                if alg == "hnf":
                    lhs = "lll_hnf Z_lll %s (%s, %s) fuel" % (a, b(t[4][0]), b(t[4][1]))
                else:
                    lhs = "lll Z_lll %s %s fuel" % (a, b(t[4][0]))
                if mm.strip() == "P":
                    rhs = "None"
                else:
                    f = mm.split("#")[0].split("|")
                    if alg == "hnf":
                        rhs = "Some (%s, %s, %s)" % (mat(m, n, f[0].split()), omat(m, m, f[1]), omat(m, m, f[2]))
                    else:
                        rhs = "Some (%s, %s)" % (mat(m, n, f[0].split()), omat(m, m, f[1]))
            except (ValueError, IndexError):
                continue
            ex.append((lhs, rhs))
    pre = ["From Coq Require Import List ZArith NArith Arith.", "Require Import Yui.Model.Lll.", "Import ListNotations.",
           "Definition fuel : nat := N.to_nat 300000."]
    return C.kernel_examples(ctx, pre, ex, timeout=900)


def run(ctx):
    ctx.equal = equal
    obl = C.coq_obligations(ctx.pid, ["Extract/ExtractC10.vo"])
    extra = {}
    if ctx.thorough:
        extra.update(C.coqchk(ctx.pid))
    corr = C.correspondence(ctx, "c10", nontrivial)
    viol, stats = scan(ctx)
    extra["c10_stats"] = stats
    if corr.get("ok"):
        info, probs = kernel_crosscheck(ctx)
        extra.update(info)
        if probs:
            obl["problems"] = obl.get("problems", []) + probs
            obl["ok"] = False
    explain = ("category 'other': unimodularity (every reachable state, both algorithms, all flags) and the HNF shape are "
               "Coq theorems for all inputs, but termination is not proved and the LLL-reducedness of B is a theorem only "
               "with respect to the maintained Gram data; the link to the true Gram-Schmidt data is validated by verified "
               "checkers on every explored output")
    return C.finish(ctx, "other", obl, corr, RULE, extra_cov=extra, assumptions=ASSUME, extra_violations=viol,
                    explain=explain)


def replay(ctx, payload):
    ctx.equal = equal
    cases = payload.get("cases") or [payload["first"]["case"]]
    corr = C.correspondence(ctx, "c10", nontrivial, replay_cases=cases)
    if corr.get("error"):
        print(corr["error"])
        return 2
    bad = 0
    for (i, c, a, b) in corr["disagreements"]:
        print("DISAGREE case=%s\n  impl =%s\n  model=%s" % (c[:400], a[:400], b[:400]))
        bad += 1
    viol, _ = scan(ctx)
    for (k, text, p) in viol:
        print("CLAUSE-FAILS %s case=%s\n  impl =%s\n  model=%s" % (text, p["case"][:400], p["impl"][:400], p["model"][:400]))
        bad += 1
    print("replayed %d cases, %d failures" % (corr["n"], bad))
    return 1 if bad else 0
