"""Shared machinery of the /verif checks (see DESIGN.md section 2.4).

A check =  (1) proof obligations: build Properties/<id>.vo with coqc, audit axioms / forbidden commands
           (2) correspondence: run the real implementation (Rust harness built against /repo's working
               tree) and the extracted Coq model on the same generated cases, diff line by line
           (3) verdict, evidence file, VIOLATION / KNOWN-FINDING lines.
"""
import hashlib
import json
import os
import re
import shutil
import subprocess
import sys
import time
from concurrent.futures import ThreadPoolExecutor

VERIF = os.path.dirname(os.path.dirname(os.path.abspath(__file__)))
REPO = os.environ.get("VERIF_REPO", "/repo")
CACHE = os.path.join(VERIF, ".cache")
COQ = os.path.join(VERIF, "coq")
OCAML = os.path.join(VERIF, "ocaml")
HARNESS = os.path.join(VERIF, "harness")
EVID = os.path.join(VERIF, "evidence")
REPLAYS = os.path.join(VERIF, "replays")
KNOWN = os.path.join(VERIF, "known_findings.txt")
TARGET = os.path.join(CACHE, "target")
GUARD = "yui_verif"

ENV = dict(os.environ)
ENV.update({"CARGO_NET_OFFLINE": "true", "CARGO_TARGET_DIR": TARGET})

# axioms of the Coq standard library that a property theorem may depend on (named in DESIGN.md section 3)
AXIOM_ALLOW = {
}

TRUSTED_BASE = [
    "Coq 8.16.1 kernel (coqc, vm_compute; no native_compute; no checks disabled)",
    "extraction: Require Extraction + ExtrOcamlBasic only (bool, option, unit, list, prod, sumbool, sumor, andb, orb)",
    "OCaml 4.13.1, zarith (decimal I/O only) and the hand-written line drivers in /verif/ocaml",
    "Rust harness /verif/harness (generators, serialisation, canonicalisation), rustc/cargo",
    "hand-written Gallina model tied to the code by differential execution only (correspondence check)",
]


def log(*a):
    print(*a, flush=True)


def sh(cmd, cwd=None, timeout=None, env=None, capture=True):
    t0 = time.time()
    try:
        p = subprocess.run(cmd, cwd=cwd, env=env or ENV, timeout=timeout, text=True,
                           stdout=subprocess.PIPE if capture else None,
                           stderr=subprocess.STDOUT if capture else None, shell=isinstance(cmd, str))
        return p.returncode, p.stdout or "", time.time() - t0
    except subprocess.TimeoutExpired as e:
        out = e.stdout if isinstance(e.stdout, str) else (e.stdout or b"").decode(errors="replace")
        return 124, out + "\nTIMEOUT", time.time() - t0


# ------------------------------------------------------------------------------------------------
# Coq side
# ------------------------------------------------------------------------------------------------
def strip_comments(src):
    out, depth, i, n = [], 0, 0, len(src)
    instr = False
    while i < n:
        if not instr and src.startswith("(*", i):
            depth += 1
            i += 2
        elif not instr and depth > 0 and src.startswith("*)", i):
            depth -= 1
            i += 2
        else:
            if depth == 0:
                if src[i] == '"':
                    instr = not instr
                out.append(src[i])
            i += 1
    return "".join(out)


FORBIDDEN = re.compile(
    r"\b(Admitted|admit|Axiom|Axioms|Parameter|Parameters|Conjecture|Conjectures|Admit\s+Obligations|"
    r"Unset\s+Guard\s+Checking|Unset\s+Positivity\s+Checking|Unset\s+Universe\s+Checking|bypass_check|"
    r"Local\s+Unset\s+Guard|native_compute)\b|type-in-type|impredicative-set")
SECTIONLESS = re.compile(r"^\s*(Variable|Variables|Hypothesis|Hypotheses|Context)\b", re.M)


def coq_deps_closure(vo_targets):
    """all .v files the targets depend on (inside coq/)"""
    vs = []
    for d, _, fs in os.walk(COQ):
        if "/." in d[len(COQ):]:
            continue
        vs += [os.path.relpath(os.path.join(d, f), COQ) for f in fs if f.endswith(".v") and not f.startswith(".")]
    p = subprocess.run(["coqdep", "-Q", ".", "Yui"] + sorted(vs), cwd=COQ, capture_output=True, text=True)
    g = {}
    for line in p.stdout.splitlines():
        if ":" not in line:
            continue
        lhs, rhs = line.split(":", 1)
        tg = [t for t in lhs.split() if t.endswith(".vo")]
        if tg:
            g[os.path.normpath(tg[0])] = [os.path.normpath(x) for x in rhs.split()
                                          if x.endswith(".vo") and not os.path.isabs(x)]
    seen, st = set(), list(vo_targets)
    while st:
        x = st.pop()
        if x in seen:
            continue
        seen.add(x)
        st += g.get(x, [])
    return sorted(v[:-1] for v in seen)


def audit_sources(vfiles):
    """forbidden commands / section-less variables in the given .v files -> list of problems"""
    probs = []
    for v in vfiles:
        src = strip_comments(open(os.path.join(COQ, v)).read())
        for m in FORBIDDEN.finditer(src):
            probs.append("%s: forbidden `%s`" % (v, m.group(0)))
        # Variable/Hypothesis outside a section: track section depth line by line
        depth = 0
        for line in src.splitlines():
            if re.match(r"^\s*Section\b", line):
                depth += 1
            elif re.match(r"^\s*End\b", line) and depth > 0:
                depth -= 1
            elif depth == 0 and SECTIONLESS.match(line):
                probs.append("%s: `%s` outside a section" % (v, line.strip()[:60]))
    return probs


def coq_obligations(pid, extra_targets=(), timeout=3000, more_props=()):
    """Build Properties/<pid>.vo (+ further property files `more_props`, + extraction), audit. Returns dict."""
    props = [pid] + list(more_props)
    targets = ["Properties/%s.vo" % q for q in props] + list(extra_targets)
    rc, out, dt = sh([sys.executable, os.path.join(COQ, "build.py"), "-j", "16", "--timeout", str(timeout)] + targets,
                     cwd=COQ, timeout=timeout + 60)
    res = {"build_ok": rc == 0, "build_log": out[-3000:], "build_s": round(dt, 1)}
    problems = []
    files = coq_deps_closure(targets)
    res["files"] = files
    problems += audit_sources(files)
    all_thms, axioms = [], {}
    for q in props:
        prop_v = "Properties/%s.v" % q
        src = strip_comments(open(os.path.join(COQ, prop_v)).read())
        thms = re.findall(r"^\s*(?:Theorem|Lemma|Corollary|Example|Fact|Remark|Proposition)\s+([A-Za-z0-9_']+)", src, re.M)
        prints = re.findall(r"Print\s+Assumptions\s+([A-Za-z0-9_'.]+)\s*\.", src)
        all_thms += thms
        # every `Theorem Cxx_*` must be followed by a Print Assumptions
        missing = [t for t in thms if t.startswith(pid + "_") and t not in prints and not re.search(
            r"Example\s+" + re.escape(t) + r"\b", src)]
        if missing:
            problems.append("theorems without Print Assumptions in %s: %s" % (prop_v, ", ".join(missing)))
        if rc == 0:
            lp = os.path.join(COQ, ".logs", "Properties.%s.out" % q)
            txt = open(lp).read() if os.path.exists(lp) else ""
            blocks = re.split(r"(?=Closed under the global context|Axioms:)", txt)
            blocks = [b for b in blocks if b.startswith("Closed under") or b.startswith("Axioms:")]
            if len(blocks) != len(prints):
                problems.append("%s: Print Assumptions output count %d != commands %d" % (prop_v, len(blocks), len(prints)))
            for name, b in zip(prints, blocks):
                if b.startswith("Closed under"):
                    continue
                ax = re.findall(r"^([A-Za-z0-9_'.]+)\s*:", b[len("Axioms:"):], re.M)
                axioms[name] = ax
                for a in ax:
                    if a not in AXIOM_ALLOW:
                        problems.append("theorem %s depends on axiom %s (not in allowlist)" % (name, a))
    res["theorems"] = all_thms
    res["obligations"] = len(all_thms)
    if rc == 0:
        res["discharged"] = len(all_thms)
    else:
        res["discharged"] = 0
        problems.append("coq build failed for %s" % " ".join(targets))
    res["axioms"] = axioms
    res["problems"] = problems
    res["ok"] = rc == 0 and not problems
    return res


def coqchk(pid, timeout=1500, more_props=()):
    mods = ["Yui.Properties.%s" % q for q in [pid] + list(more_props)]
    rc, out, dt = sh(["coqchk", "-silent", "-o", "-Q", ".", "Yui"] + mods, cwd=COQ, timeout=timeout)
    probs = []
    if rc != 0:
        probs.append("coqchk failed (rc=%d): %s" % (rc, out[-600:]))
    m = re.search(r"\* Axioms:(.*?)\n\s*\n", out, re.S)
    axs = []
    if m and "<none>" not in m.group(1):
        axs = [a.strip() for a in m.group(1).splitlines() if a.strip()]
        for a in axs:
            if a.split(".")[-1] not in AXIOM_ALLOW and a not in AXIOM_ALLOW:
                probs.append("coqchk: loaded library axiom %s (not in allowlist)" % a)
    return {"coqchk_rc": rc, "coqchk_tail": out[-1500:], "coqchk_s": round(dt, 1), "coqchk_axioms": axs,
            "coqchk_problems": probs}


def kernel_examples(ctx, preamble, examples, name="kernel_crosscheck", timeout=600):
    """Second evaluation route for a model (DESIGN.md 2.3, step 4): every (lhs, rhs) pair becomes
    `Example k : lhs = rhs. Proof. vm_compute. reflexivity. Qed.` in a scratch file compiled by coqc against the
    development; rhs is what the EXTRACTED runner printed, rendered as a Coq term, so a successful compilation means
    the kernel's own evaluator agrees with extraction + OCaml driver on these cases.  -> (info dict, problems list)"""
    lines = list(preamble)
    for k, (lhs, rhs) in enumerate(examples):
        lines.append("Example k%d : %s = %s." % (k, lhs, rhs))
        lines.append("Proof. vm_compute. reflexivity. Qed.")
    vf = os.path.join(ctx.work, name + ".v")
    open(vf, "w").write("\n".join(lines) + "\n")
    try:
        p = subprocess.run(["coqc", "-q", "-Q", COQ, "Yui", vf], cwd=ctx.work, capture_output=True, text=True, timeout=timeout)
        ok, msg = p.returncode == 0, (p.stdout + p.stderr)[-800:]
    except subprocess.TimeoutExpired:
        ok, msg = False, "coqc timed out"
    info = {name: {"cases_evaluated_by_vm_compute": len(examples), "agree_with_extracted_runner": ok}}
    probs = [] if ok else ["kernel cross-check: vm_compute and the extracted runner disagree (or coqc failed): " + msg]
    return info, probs


# ------------------------------------------------------------------------------------------------
# OCaml runner
# ------------------------------------------------------------------------------------------------
def file_hash(paths):
    h = hashlib.sha256()
    for p in paths:
        h.update(open(p, "rb").read())
    return h.hexdigest()


def build_runner(pid):
    """compile ocaml/gen/<pid>_model.ml + zio_body.ml + <pid>_driver.ml into .cache/ocaml/<pid>/runner"""
    low = pid.lower()
    gen = os.path.join(OCAML, "gen", "%s_model.ml" % low)
    if not os.path.exists(gen):
        # extraction output missing although the .vo may be cached: force re-extraction
        vo = os.path.join(COQ, "Extract", "Extract%s.vo" % pid)
        if os.path.exists(vo):
            os.remove(vo)
        os.makedirs(os.path.dirname(gen), exist_ok=True)
        rc, out, _ = sh([sys.executable, os.path.join(COQ, "build.py"), "Extract/Extract%s.vo" % pid], cwd=COQ, timeout=3000)
        if rc != 0 or not os.path.exists(gen):
            return None, "extraction failed:\n" + out[-2000:]
    srcs = [gen, gen + "i", os.path.join(OCAML, "zio_body.ml"), os.path.join(OCAML, "%s_driver.ml" % low)]
    incs = [os.path.join(OCAML, i) for i in re.findall(r"\(\*INCLUDE ([A-Za-z0-9_.]+)\*\)", open(srcs[3]).read())]
    hsh = file_hash(srcs + incs)
    bdir = os.path.join(CACHE, "ocaml", low)
    exe = os.path.join(bdir, "runner")
    stamp = os.path.join(bdir, "stamp")
    if os.path.exists(exe) and os.path.exists(stamp) and open(stamp).read() == hsh:
        return exe, "cached"
    shutil.rmtree(bdir, ignore_errors=True)
    os.makedirs(bdir)
    mod = "%s_model" % low
    shutil.copy(gen, os.path.join(bdir, mod + ".ml"))
    shutil.copy(gen + "i", os.path.join(bdir, mod + ".mli"))
    with open(os.path.join(bdir, "main.ml"), "w") as f:
        f.write("module ZA = Z\nopen %s\n" % (mod[0].upper() + mod[1:]))
        f.write(open(srcs[2]).read())
        f.write("\n")
        drv = open(srcs[3]).read()
        # textual includes: a line (*INCLUDE file.ml*) is replaced by ocaml/file.ml
        for inc in re.findall(r"\(\*INCLUDE ([A-Za-z0-9_.]+)\*\)", drv):
            drv = drv.replace("(*INCLUDE %s*)" % inc, open(os.path.join(OCAML, inc)).read())
        f.write(drv)
    rc, out, _ = sh(["ocamlfind", "ocamlopt", "-w", "-a", "-package", "zarith", "-linkpkg",
                     mod + ".mli", mod + ".ml", "main.ml", "-o", "runner"],
                    cwd=bdir, timeout=900)
    if rc != 0:
        return None, out[-3000:]
    open(stamp, "w").write(hsh)
    return exe, out[-500:]


def run_model(exe, cases_path, out_path, shards=16, timeout=3000, per_shard=200):
    """run the model runner on cases (sharded), concatenate outputs in order"""
    lines = open(cases_path).read().splitlines()
    n = len(lines)
    if n == 0:
        open(out_path, "w").close()
        return True, ""
    k = max(1, min(shards, n // per_shard + 1))
    size = (n + k - 1) // k
    d = out_path + ".shards"
    shutil.rmtree(d, ignore_errors=True)
    os.makedirs(d)
    jobs = []
    for i in range(k):
        part = lines[i * size:(i + 1) * size]
        if not part:
            continue
        ip, op = os.path.join(d, "in%d" % i), os.path.join(d, "out%d" % i)
        open(ip, "w").write("\n".join(part) + "\n")
        jobs.append((ip, op, len(part)))

    def one(j):
        env = dict(ENV)
        env["OCAMLRUNPARAM"] = "l=8G"
        return sh("ulimit -s unlimited 2>/dev/null; exec '%s' '%s' '%s'" % (exe, j[0], j[1]), timeout=timeout, env=env)

    with ThreadPoolExecutor(max_workers=len(jobs)) as ex:
        rs = list(ex.map(one, jobs))
    ok = all(r[0] == 0 for r in rs)
    msg = "\n".join(r[1][-500:] for r in rs if r[0] != 0)
    with open(out_path, "w") as f:
        for (ip, op, cnt), r in zip(jobs, rs):
            got = open(op).read().splitlines() if os.path.exists(op) else []
            if len(got) != cnt:
                ok = False
                msg += "\nshard %s produced %d of %d lines" % (ip, len(got), cnt)
                got = got + ["MODEL-MISSING"] * (cnt - len(got))
            f.write("\n".join(got) + "\n")
    shutil.rmtree(d, ignore_errors=True)
    return ok, msg


# ------------------------------------------------------------------------------------------------
# Rust harness
# ------------------------------------------------------------------------------------------------
def build_harness(binname, timeout=3000, features=None):
    env = dict(ENV)
    env["RUSTFLAGS"] = (env.get("RUSTFLAGS", "") + " --cfg %s" % GUARD).strip()
    cmd = ["cargo", "build", "--release", "--offline", "--bin", binname]
    if features:
        cmd += ["--features", features]
    rc, out, dt = sh(cmd, cwd=HARNESS, timeout=timeout, env=env)
    exe = os.path.join(TARGET, "release", binname)
    if rc != 0 or not os.path.exists(exe):
        return None, out[-4000:], dt
    return exe, out[-300:], dt


def run_harness(exe, args, timeout=3000, env=None):
    e = dict(ENV)
    if env:
        e.update(env)
    return sh([exe] + [str(a) for a in args], timeout=timeout, env=e)


# ------------------------------------------------------------------------------------------------
# Known findings
# ------------------------------------------------------------------------------------------------
def known_findings(pid):
    """entries `finding: property=<id> key=<key> <text>`; `fixed:` entries suppress nothing"""
    out = []
    if os.path.exists(KNOWN):
        for line in open(KNOWN):
            m = re.match(r"^finding:\s+property=(\S+)\s+key=(\S+)\s+(.*)$", line.strip())
            if m and m.group(1) == pid:
                out.append((m.group(2), m.group(3)))
    return out


# ------------------------------------------------------------------------------------------------
# Evidence / verdict
# ------------------------------------------------------------------------------------------------
def write_evidence(pid, tier, seed, level, coverage, assumptions, wall, violations):
    os.makedirs(EVID, exist_ok=True)
    ev = {"property_id": pid, "tier": tier, "seed": int(seed), "level": level, "coverage": coverage,
          "assumptions": assumptions, "wall_s": round(wall, 2), "violations": int(violations)}
    tmp = os.path.join(EVID, ".%s.tmp" % pid)
    json.dump(ev, open(tmp, "w"), indent=1)
    os.replace(tmp, os.path.join(EVID, "%s.json" % pid))


def write_replay(pid, seed, payload):
    os.makedirs(REPLAYS, exist_ok=True)
    p = os.path.join(REPLAYS, "%s-%s.json" % (pid, seed))
    json.dump(payload, open(p, "w"), indent=1)
    return p


class Ctx:
    """per-run context handed to a property module"""

    def __init__(self, pid, tier, seed):
        self.pid, self.tier, self.seed = pid, tier, int(seed)
        self.thorough = tier == "thorough"
        self.t0 = time.time()
        self.work = os.path.join(CACHE, "work", pid)
        shutil.rmtree(self.work, ignore_errors=True)
        os.makedirs(self.work)
        self.notes = []

    def wall(self):
        return time.time() - self.t0


def correspondence(ctx, binname, nontrivial, gen_args=None, model_shards=16, replay_cases=None, harness_env=None,
                   per_shard=200):
    """Generic exact correspondence run.
    Returns dict(ok, n, disagreements=[(idx, case, impl, model)], distinct_nontrivial, samples, error)."""
    pid = ctx.pid
    res = {"ok": False, "n": 0, "disagreements": [], "distinct_nontrivial": 0, "samples": [], "error": None,
           "kinds": {}}
    exe, hlog, hdt = build_harness(binname)
    res["harness_build_s"] = round(hdt, 1)
    if exe is None:
        res["error"] = "harness does not build against /repo:\n" + hlog
        return res
    runner, rlog = build_runner(pid)
    if runner is None:
        res["error"] = "model runner does not build:\n" + rlog
        return res
    out = os.path.join(ctx.work, "corr")
    # a run that does not finish (an implementation that loops, or is slower by orders of magnitude) must not hang
    # the check: quick-tier harness runs take seconds to a minute on the unchanged tree
    hto = int(os.environ.get("VERIF_HARNESS_TIMEOUT", "0")) or (900 if ctx.tier == "quick" else 3000)
    if replay_cases is not None:
        cf = os.path.join(ctx.work, "replay_cases.txt")
        open(cf, "w").write("\n".join(replay_cases) + "\n")
        rc, o, dt = run_harness(exe, ["replay", cf, out], env=harness_env, timeout=hto)
    else:
        rc, o, dt = run_harness(exe, ["gen", ctx.seed, ctx.tier, out] + list(gen_args or []), env=harness_env,
                                timeout=hto)
    res["impl_s"] = round(dt, 1)
    if rc == 124:
        res["error"] = ("the implementation run did not finish within %d s (on the unchanged tree it takes %s): some call "
                        "into the library does not terminate or is slower by orders of magnitude\n%s"
                        % (hto, "seconds to a minute" if ctx.tier == "quick" else "minutes", o[-1500:]))
        return res
    if rc != 0:
        res["error"] = "harness run failed (rc=%d):\n%s" % (rc, o[-3000:])
        return res
    t1 = time.time()
    ok, msg = run_model(runner, os.path.join(out, "cases.txt"), os.path.join(out, "model.txt"), shards=model_shards,
                        per_shard=per_shard)
    res["model_s"] = round(time.time() - t1, 1)
    if not ok:
        res["error"] = "model runner failed:\n" + msg
        return res
    cases = open(os.path.join(out, "cases.txt")).read().splitlines()
    impl = open(os.path.join(out, "impl.txt")).read().splitlines()
    model = open(os.path.join(out, "model.txt")).read().splitlines()
    if not (len(cases) == len(impl) == len(model)):
        res["error"] = "line counts differ: cases %d impl %d model %d" % (len(cases), len(impl), len(model))
        return res
    res["n"] = len(cases)
    seen = set()
    kinds = {}
    for i, (c, a, b) in enumerate(zip(cases, impl, model)):
        k = c.split(" ", 1)[0]
        kinds[k] = kinds.get(k, 0) + 1
        if b.startswith("DRIVER-EXN") or b == "MODEL-MISSING":
            res["error"] = "model driver error on case %d: %s -> %s" % (i, c[:200], b)
            return res
        if not ctx_equal(ctx, c, a, b):
            res["disagreements"].append((i, c, a, b))
        if c not in seen and nontrivial(c, a):
            seen.add(c)
    res["kinds"] = kinds
    res["distinct_nontrivial"] = len(seen)
    step = max(1, len(cases) // 5)
    res["samples"] = [{"case": cases[i][:300], "impl": impl[i][:300], "model": model[i][:300]}
                      for i in range(0, len(cases), step)][:6]
    res["ok"] = True
    return res


def ctx_equal(ctx, case, impl, model):
    f = getattr(ctx, "equal", None)
    return f(case, impl, model) if f else impl == model


def finish(ctx, level, obl, corr, rule, extra_cov=None, assumptions=None, classify=None, explain=None,
           extra_violations=None, harmless=None):
    """Common verdict logic. Prints KNOWN-FINDING / VIOLATION lines, writes evidence, returns exit code.
    extra_violations: list of (key, text, payload) found by property-specific searches.
    harmless(case, impl, model) -> True when implementation and model differ on a mirrored observable but the
    property's own executable predicates hold on the implementation's output (the model no longer mirrors the code;
    not a failing input): such cases alone give `VIOLATION ... no-failing-input-found`."""
    pid = ctx.pid
    findings = known_findings(pid)
    viol = []          # (text, payload) unknown violations
    known_hit = {}
    dis = corr.get("disagreements", []) if corr else []
    soft = []
    for (i, c, a, b) in dis:
        key = classify(c, a, b) if classify else None
        hit = None
        if key:
            for fk, ft in findings:
                if fk == key:
                    hit = (fk, ft)
        if hit:
            known_hit.setdefault(hit[0], (hit[1], c, a, b))
        elif harmless and harmless(c, a, b):
            soft.append({"case": c, "impl": a, "model": b, "index": i})
        else:
            viol.append(("correspondence: implementation and model differ", {"case": c, "impl": a, "model": b, "index": i}))
    for (key, text, payload) in (extra_violations or []):
        hit = None
        for fk, ft in findings:
            if fk == key:
                hit = (fk, ft)
        if hit:
            known_hit.setdefault(hit[0], (hit[1],) + tuple(payload.get(k) for k in ("case", "impl", "model")))
        else:
            viol.append((text, payload))
    for k, v in known_hit.items():
        log("KNOWN-FINDING: property=%s %s" % (pid, v[0]))
    rc = 0
    replay = None
    broken = []
    if obl is not None and not obl["ok"]:
        broken += obl["problems"]
    if corr is not None and corr.get("error"):
        broken.append(corr["error"])
    if extra_cov and extra_cov.get("coqchk_problems"):
        broken += extra_cov["coqchk_problems"]
    if soft:
        broken.append("correspondence no longer checks: implementation and model differ on %d case(s), while every "
                      "executable clause of the property evaluated on the implementation's output holds in each of them "
                      "(the model no longer mirrors the code); first: %s" % (len(soft), json.dumps(soft[0])[:1200]))
    if viol:
        text, payload = viol[0]
        replay = write_replay(pid, ctx.seed, {
            "property": pid, "kind": "failing-input", "what": text, "first": payload,
            "cases": [v[1].get("case") for v in viol[:50] if v[1].get("case")],
            "count": len(viol), "seed": ctx.seed, "tier": ctx.tier,
            "replay_cmd": "./check %s --replay %s" % (pid, os.path.join("replays", "%s-%s.json" % (pid, ctx.seed)))})
        log("VIOLATION property=%s replay=%s" % (pid, replay))
        for v in viol[:5]:
            log("  ", v[0], json.dumps(v[1])[:400])
        rc = 1
    elif broken:
        replay = write_replay(pid, ctx.seed, {
            "property": pid, "kind": "no-failing-input-found",
            "what": "a proof obligation or the correspondence machinery no longer checks; no concrete input on which the "
                    "property fails was found among %d explored cases" % (corr.get("n", 0) if corr else 0),
            "broken": broken, "cases": [x["case"] for x in soft[:50]], "seed": ctx.seed, "tier": ctx.tier})
        log("VIOLATION property=%s replay=%s no-failing-input-found" % (pid, replay))
        for b in broken[:5]:
            log("  ", b[:1500])
        rc = 1
    cov = {
        "obligations": obl["obligations"] if obl else 0,
        "discharged": obl["discharged"] if obl else 0,
        "checker_cmd": "python3 coq/build.py Properties/%s.vo  (coqc 8.16.1, full .vo build; Print Assumptions audited)" % pid,
        "trusted_base": TRUSTED_BASE,
        "theorems": obl["theorems"] if obl else [],
        "axioms_used": obl["axioms"] if obl else {},
        "audit_problems": obl["problems"] if obl else [],
        "coq_files": obl.get("files", []) if obl else [],
        "evaluations": corr.get("n", 0) if corr else 0,
        "distinct_nontrivial": corr.get("distinct_nontrivial", 0) if corr else 0,
        "rule": rule,
        "samples": corr.get("samples", []) if corr else [],
        "case_kinds": corr.get("kinds", {}) if corr else {},
        "disagreements": len(dis),
        "disagreements_property_holds": len(soft),
        "known_findings_hit": sorted(known_hit),
        "timing": {k: corr.get(k) for k in ("harness_build_s", "impl_s", "model_s")} if corr else {},
        "coq_build_s": obl.get("build_s") if obl else None,
    }
    if explain:
        cov["explanation"] = explain
    if extra_cov:
        cov.update(extra_cov)
    write_evidence(pid, ctx.tier, ctx.seed, level, cov, assumptions or [], ctx.wall(), len(viol) + (1 if (broken and not viol) else 0))
    if rc == 0:
        log("OK property=%s tier=%s obligations=%d/%d cases=%d nontrivial=%d wall=%.1fs" % (
            pid, ctx.tier, cov["discharged"], cov["obligations"], cov["evaluations"], cov["distinct_nontrivial"], ctx.wall()))
    return rc
