"""C18 - link diagrams: components, signs, resolutions and braid closures are correct."""
from . import common as C

RULE = ("cases = (a) every PD code of yui-link/resources/links selected by the tier (quick: all codes with <= 10 crossings "
        "and 1/8 of the 11-crossing codes; thorough: all 2214), each with the full battery: all "
        "observers (components, is_knot, crossing_signs, signed_crossing_nums, writhe, ori_pres_state, seifert_circles, "
        "first_edge, edges), one traversal, mirror, three resolved_by states (right / wrong length), resolved_at, a "
        "relabelled, a crossing-reordered and the mirrored variant (invariance evaluated on the implementation AND on the "
        "model), a partially resolved variant, one and two Reidemeister-I kinks (repeated labels in one crossing); "
        "(b) closures of random braid words on 2-8 strands with <= 14 letters, every fifth with a strand that only passes "
        "over (closure code, crossing count = letters, writhe = exponent sum, components = cycles of the braid "
        "permutation; wrong strand counts and zero letters as rejected inputs), their closures again through the battery; "
        "(c) split unions of two pool diagrams; (d) random valid but mostly non-planar codes (random perfect matchings of "
        "the 4n slots, all four crossing types); (e) a malformed stream (labels occurring 1, 3, 4 times, damaged valid "
        "codes) where a non-terminating traversal is reported as DIVERGE by both sides. A case is non-trivial when the "
        "diagram has at least one crossing and the implementation did not reject it; distinct = distinct case lines; `bgrp` = Braid::inv, the product of two braids in both call forms (panic when the strand counts differ) and the closure of w * w^-1; "
        "`resseq <link> <k> (i b)*` = a sequence of 2-5 resolved_at(i, b) calls in arbitrary order (back-to-front, middle-out, "
        "random, indices >= 1, now and then an index out of range) on genuine diagrams, on partially resolved variants "
        "(V / H entries in front of / between the crossings), on mixed X/Xm/V/H diagrams, on random valid codes and on the "
        "malformed stream: after the input and after every step the data vector, the number of unresolved crossings and "
        "crossing_at(j) for every j = 0..=crossing_num (the last index must panic) are compared exactly with the model "
        "(Model/LinkAt.v crossing_index / crossing_at: the i-th UNRESOLVED crossing), both call forms (resolved_at / clone + "
        "crossing_at_mut(i).resolve(b)) must agree, a panicking step prints P and keeps the diagram; resolved_at is also "
        "applied once to partially resolved diagrams")
ASSUME = ["planarity of a PD code is not modelled (the code does not check it either)",
          "Link::load is exercised on the corpus (must equal the generator-side parse), not proved",
          "edge labels are unbounded naturals in the model (usize in the code; no arithmetic is done on labels)",
          "the orientation theorems assume that the code admits a consistent orientation (proved for braid closures); "
          "invariance of writhe / signed crossing numbers under crossing reordering is proved when every component "
          "passes under somewhere, and for diagrams with a component that only passes over it is validated by execution "
          "on every generated genuine diagram (it needs planarity, see level_claimed); the braid clauses 'writhe = "
          "exponent sum' and 'components = cycles' are proved for all inputs"]


def nontrivial(case, impl):
    t = case.split()
    if impl in ("P", "DIVERGE", "TOP-PANIC"):
        return False
    if t[0] in ("braid", "braidfrom"):
        return len(t) > 2
    if t[0] == "inv":
        return t[2] != "0"
    return len(t) > 1 and t[1] != "0"


def equal(case, impl, model):
    # exact comparison; additionally an invariance or specification failure is a failing input even when
    # implementation and model agree with each other
    if ("INV-DIFF" in impl or "INV-DIFF" in model or "MODEL-SPEC-MISMATCH" in model
            or "MIRROR-DATA-DIFFER" in impl or "FORMS-DIFFER" in impl or "LOAD-DIFF" in impl):
        return False
    return impl == model


def kernel_crosscheck(ctx, limit=100):
    """a sample of the `braid` cases evaluated by vm_compute inside coqc (closure code, exponent sum, number of cycles of
    the braid permutation) must equal what the extracted runner printed"""
    import os
    import re
    out = os.path.join(ctx.work, "corr")
    try:
        cases = open(os.path.join(out, "cases.txt")).read().splitlines()
        model = open(os.path.join(out, "model.txt")).read().splitlines()
    except OSError:
        return {}, []
    sel = [(c.split(), m) for c, m in zip(cases, model) if c.startswith("braid ") and len(c.split()) <= 14
           and "MISMATCH" not in m and "DIVERGE" not in m]
    step = max(1, len(sel) // limit)
    ex = []
    for t, m in sel[::step][:limit]:
        w = "[" + "; ".join("(%s)%%Z" % x for x in t[2:]) + "]"
        if m == "P":
            ex.append(("closure_code %s %s" % (t[1], w), "None"))
            continue
        mm = re.fullmatch(r"pd=(\S+) ncr=(\d+) w=(-?\d+) nc=(\d+)", m)
        if not mm:
            continue
        code = "[]" if mm.group(1) == "-" else "[" + "; ".join(
            "(%s)" % q.strip("[]") for q in mm.group(1).split(";")) + "]"
        ex.append(("(closure_code %s %s, exponent_sum %s, count_cycles (braid_perm %s %s))" % (t[1], w, w, t[1], w),
                   "(Some %s, (%s)%%Z, %s)" % (code, mm.group(3), mm.group(4))))
    pre = ["From Coq Require Import List ZArith Arith.", "Require Import Yui.Model.Link Yui.Model.Braid.", "Import ListNotations."]
    return C.kernel_examples(ctx, pre, ex)


def run(ctx):
    ctx.equal = equal
    obl = C.coq_obligations(ctx.pid, ["Extract/ExtractC18.vo"], more_props=["C18At"])
    extra = {}
    if ctx.thorough:
        extra.update(C.coqchk(ctx.pid, more_props=["C18At"]))
    corr = C.correspondence(ctx, "c18", nontrivial)
    if corr.get("ok"):
        info, probs = kernel_crosscheck(ctx)
        extra.update(info)
        if probs:
            obl["problems"] = obl.get("problems", []) + probs
            obl["ok"] = False
    return C.finish(ctx, "proof", obl, corr, RULE, extra_cov=extra, assumptions=ASSUME)


def replay(ctx, payload):
    ctx.equal = equal
    cases = payload.get("cases") or [payload["first"]["case"]]
    corr = C.correspondence(ctx, "c18", nontrivial, replay_cases=cases)
    if corr.get("error"):
        print(corr["error"])
        return 2
    for (i, c, a, b) in corr["disagreements"]:
        print("DISAGREE case=%s\n  impl =%s\n  model=%s" % (c, a, b))
    print("replayed %d cases, %d disagreements" % (corr["n"], len(corr["disagreements"])))
    return 1 if corr["disagreements"] else 0
