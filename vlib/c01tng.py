"""C01, tangle layer: the first layer of the v2 engine (yui-link Path, TngComp / Tng of kh/internal/v2/tng.rs, the numeric
bookkeeping of CobComp::connect / Cob::connect, and the vertical composition Cob::stack / Cob::id / Cob::inv / cap_off /
part_eval / LcCob of cob.rs, and the tangle complex TngComplex of tng_complex.rs: append / connect / deloop / eliminate)
inside the Coq model (Model/Tng.v, Model/TngCob.v, Model/TngStack.v, Model/TngComplex.v, theorems Properties/C01Tng.v,
Properties/C01Stack.v and Properties/C01Cpx.v) with an exact correspondence run against the real code.

Used by vlib/c01.py:   obl_part, corr_part = c01tng.run_part(ctx)
  obl_part  = C.coq_obligations("C01", [...ExtractC01Tng.vo], more_props=PROPS) restricted to the tangle files
              (PROPS = ["C01Tng", "C01Stack", "C01Cpx"]; vlib/c01.py should pass `["C01Smith"] + c01tng.PROPS` as more_props of its own
              coq_obligations / coqchk calls so that the thorough tier runs coqchk on Properties/C01Stack.vo too)
              (keys as C.coq_obligations: ok, problems, theorems, obligations, discharged, axioms, files, build_s)
  corr_part = C.correspondence(<own Ctx "C01TNG">, "c01tng", ...) (keys as C.correspondence: ok, n, disagreements,
              distinct_nontrivial, samples, kinds, error, timings)
`merge(obl, corr, obl_part, corr_part)` folds both into the dictionaries of the main C01 run.
Stand-alone:  python3 -m vlib.c01tng [quick|thorough] [seed]
"""
import os
import re
import sys

from . import common as C

PID = "C01TNG"
PROP = "C01Tng"
PROPS = ["C01Tng", "C01Stack", "C01Cpx"]
EXTRACT = "Extract/ExtractC01Tng.vo"

RULE = ("tangle layer (Model/Tng.v against the real yui-link Path and v2 TngComp/Tng, every component compared RAW = the stored "
        "Vec of labels, and every public observer: ncomps, is_empty, is_closed, contains_circle, euler_num, endpts, comp(i) with "
        "len/is_arc/is_circle/endpts/min_edge, contains, index_of, find_comp, remove_at, convert_edges, ==, cmp, Display, "
        "connect vs connected): scripts over two tangle registers. kc = all crossings of a random diagram (table knots, random "
        "braid closures on 2-4 strands up to 9 (quick) / 14 (thorough) crossings, kinks, split unions, relabelled, shuffled), each "
        "resolved V or H at random, glued crossing by crossing with Tng::connect(Tng::from_resolved(x)); the final tangle must be "
        "closed and its label sets must be Link::components() of the resolved diagram (implementation) resp. KhCube.circles "
        "(model); all 2^n resolutions of the table diagrams with <= 4 crossings; kp = the same crossings (or a prefix: open "
        "tangle) glued in a second random order, or arc by arc in random orientations with append_arc: the two tangles must be == ; "
        "kt = open tangles of random crossing subsets with observers, remove_at, convert_edges; cn = two tangles built separately "
        "and joined by Tng::connect, == the one built in one go; wf = disjoint simple paths / cycles cut into arcs of 2-4 labels, "
        "appended in random order and orientation, result == the expected components; mf = malformed streams (labels from a "
        "range of 3..7, repeated labels, one-label arcs, empty arcs, the empty circle arc[e]+arc[e] and the sort panics it causes, "
        "Tng::new of connectable components and the index shift of append_arc, unresolved crossings; panic = P in both); "
        "pc = pairs of paths: is_connectable, connect both ways, ==, !=, cmp, contains, min_edge. "
        "Cobordism bookkeeping (Model/TngCob.v against the real cob.rs): cb = the saddles CobComp::new(from_resolved(x.resolved(0)), "
        "from_resolved(x.resolved(1)), g, dots) (= sdl_from when plain) of 0-2 crossings and the cylinders (= Cob::id when plain) "
        "over the V/H resolutions of the other crossings of a random diagram (or of a prefix), 1/4 of them with genus <= 2 and "
        "<= 2+2 dots, sometimes a closed component, joined one after the other by Cob::connect (= connected): after every step all "
        "components (src and tgt RAW, genus, dots, nbdr_comps, euler_num, deg) and Cob::euler_num / deg / nbdr_comps / "
        "is_invertible / is_closed, at the end Cob::inv; cx = CobComp::connect called directly on two components (also "
        "non-connectable ones: the assert on the shared end points is a P in both); nbdr_comps iterates hash sets: its count "
        "is order independent on these well-formed components (three fresh processes gave identical output). "
        "Vertical composition (Model/TngStack.v against the real Cob::stack / is_stackable / Mul / Cob::id / inv / src / tgt / "
        "cap_off / part_eval and LcCob<i64> `*` / part_eval / is_invertible / inv): sk = scripts over a Cob register and an LcCob "
        "register; layers are either abstract surfaces (a random tangle of <= 3 arcs and <= 2 circles; every group of 0-3 "
        "components goes to new components with the same end points re-paired at random and 0-2 new circles, random genus / dots "
        "within a budget, built through CobComp::new / cup / cap / id / merge / split / sdl, the middle components re-oriented "
        "and rotated at random so that only == holds) or consecutive edges of the cube of resolutions of a random diagram with "
        "<= 6 crossings (saddle at one crossing, cylinders over the V/H resolutions of the others, joined by Cob::connect in a "
        "random order); 2-4 layers are stacked one after the other (after every stack: is_stackable, the RAW components with "
        "genus, dots, nbdr_comps, euler_num, deg; `cur * acc` must print the same), then the same layers stacked from the top "
        "down must be == (AS), src / tgt (SRC), Cob::id(src).stack(c) == c == c.stack(Cob::id(tgt)) (ID), c.stack(c.inv()) == "
        "id (INV), cap_off of a circle with a dot (CO), part_eval(h, t) with small h, t (PE); linear combinations with 1-3 "
        "terms per factor (coarsenings of the same layer, other genus / dots, coefficients -2..2) multiplied and part_eval'ed "
        "(LC / MUL / LPE / LINV), compared as sets of terms with canonically oriented keys; 1/12 malformed (a component "
        "dropped, layers swapped: not stackable, release build goes on or panics - P in both). "
        "Tangle complex (Model/TngComplex.v against the real TngComplex<i64> driven through its public API): tc / tm = scripts over "
        "two complex registers: init(h, t, deg_shift, base_pt) with h, t in -2..3 (half of them 0, 0), 1/3 reduced (base point = "
        "a label of the diagram); the crossings of a random diagram with <= 5 (quick) / 6 (thorough) crossings (table knots, "
        "braid closures, kinks, split unions, 1/6 truncated to an open tangle; 1/8 of the crossings already resolved) are "
        "appended one by one with TngComplex::append (= make_x + connect: connect_vertices, connect_edges with the sign "
        "(-1)^deg, Cob::id, LcCob::connected, part_eval); in between and at the end deloop(k, r) and eliminate(k, l) steps "
        "chosen deterministically from the CURRENT complex by the same rule on both sides (DL: the least key, sorted as "
        "strings, whose tangle has a circle not through the base point - or any circle - and find_comp of it; EL n: the n-th "
        "edge with is_invertible() in sorted order; DLA / ELA: until there is none) in the builder's pattern (after every "
        "crossing), as single steps, lazily (the whole cube first, <= 4 crossings) or mixed; two complexes built separately, "
        "partly simplified, and joined by TngComplex::connect (CO; also with different h or base points: the asserts); "
        "malformed scripts (explicit deloop / eliminate / remove_vertex on missing keys, arcs, non-invertible edges, repeated "
        "and degenerate crossings, set_deg_shift). After EVERY step the whole complex is printed canonically: dim, deg_shift, "
        "base_pt, nverts, is_completely_delooped, whether validate() returns, rank(i) over h_range, and every vertex (key = "
        "state bits / label, sorted) with its RAW tangle, its in-edges and its out-edges with all LcCob terms (coefficient, "
        "canonically oriented cobordism with genus and dots, degree), sorted; at the end edge(k, l).eval(h, t) of every edge "
        "(EV) and the differential of convert_edges(id).into_raw_complex() on every generator (RAW); on every completely "
        "delooped complex d d = 0 is computed from the public API (sum over m of (edge(m,y) * edge(x,m)).part_eval) on both "
        "sides (dd=). Reduced scripts use t = 0 (KhComplex::new asserts it). A tc script is rejected unless validate() "
        "returned after every step and no dd=0 occurred; tm = the malformed scripts (no such requirement). "
        "non-trivial = some printed component has >= 3 labels; distinct = distinct case lines")

MARKERS = ("FAIL", "?connected", "?partial_cmp", "?ctor", "?dots", "BAD-", "P-CASE", "circ=P", "?mul", "DRIVER-EXN")


def nontrivial(case, impl):
    return re.search(r"[ac]\d+\.\d+\.\d+", impl) is not None


def equal(case, impl, model):
    """exact equality, and the implementation's self-checks must have passed"""
    if impl != model:
        return False
    if any(m in impl for m in MARKERS):
        return False
    kind = case.split(" ", 1)[0]
    if kind in ("kp", "cn") and ("same=1" not in impl or "same=0" in impl):
        return False
    if kind == "wf" and not impl.rstrip().endswith("eq=1 cmp=Eq"):
        return False
    if kind == "kc" and "circ=ok" not in impl:
        return False
    if kind == "tc" and ("val=0" in impl or "dd=0" in impl or "dd=P" in impl):
        return False          # a well-formed script: validate() returns and d d = 0 on every completely delooped complex
    return True


def _own_files(files):
    return [f for f in files if re.search(r"(Model/Tng(Cob|Stack|Complex)?\.v|Proofs/TngP[A-Za-z0-9]*\.v|Properties/C01(Tng|Stack|Cpx)\.v|Extract/ExtractC01Tng\.v)$", f)]


def obligations():
    """Properties/C01Tng.vo, Properties/C01Stack.vo, Properties/C01Cpx.vo + extraction, audited like every property file (theorem prefix C01_)"""
    gen = os.path.join(C.OCAML, "gen", "c01tng_model.ml")
    vo = os.path.join(C.COQ, "Extract", "ExtractC01Tng.vo")
    if not os.path.exists(gen) and os.path.exists(vo):
        os.remove(vo)                      # force re-extraction (build_runner's fallback derives another file name)
    obl = C.coq_obligations("C01", [EXTRACT], more_props=PROPS)
    # restrict the theorem list to the tangle property files
    own = []
    for q in PROPS:
        src = C.strip_comments(open(os.path.join(C.COQ, "Properties", q + ".v")).read())
        own += re.findall(r"^\s*(?:Theorem|Lemma|Corollary|Example|Fact|Remark|Proposition)\s+([A-Za-z0-9_']+)", src, re.M)
    part = dict(obl)
    part["theorems"] = own
    part["obligations"] = len(own)
    part["discharged"] = len(own) if obl["build_ok"] else 0
    part["own_files"] = _own_files(obl.get("files", []))
    return part


def correspondence(tier, seed, replay_cases=None):
    ctx = C.Ctx(PID, tier, seed)
    ctx.equal = equal
    return C.correspondence(ctx, "c01tng", nontrivial, replay_cases=replay_cases)


def run_part(ctx):
    """-> (obligations dict, correspondence dict) of the tangle layer; ctx = the Ctx of the C01 run (tier, seed)"""
    obl = obligations()
    corr = correspondence(ctx.tier, ctx.seed)
    return obl, corr


def replay_part(ctx, cases):
    """re-run recorded case lines of this layer (those whose first token is one of KINDS)"""
    return correspondence(ctx.tier, ctx.seed, replay_cases=cases)


KINDS = ("pc", "kc", "kp", "kt", "cn", "wf", "mf", "cb", "cx", "sk", "tc", "tm")


def merge(obl, corr, obl_part, corr_part):
    """fold the tangle layer's results into the dictionaries of the main C01 run (in place)"""
    if obl is not None and obl_part is not None:
        for t in obl_part["theorems"]:
            if t not in obl["theorems"]:
                obl["theorems"].append(t)
        obl["obligations"] = len(obl["theorems"])
        obl["discharged"] = len(obl["theorems"]) if (obl.get("build_ok") and obl_part.get("build_ok")) else 0
        for p in obl_part["problems"]:
            if p not in obl["problems"]:
                obl["problems"].append(p)
        obl["axioms"].update(obl_part.get("axioms", {}))
        obl["files"] = sorted(set(obl.get("files", [])) | set(obl_part.get("files", [])))
        obl["ok"] = obl["ok"] and obl_part["ok"]
    if corr is not None and corr_part is not None:
        if corr_part.get("error") and not corr.get("error"):
            corr["error"] = "tangle layer: " + corr_part["error"]
        base = corr.get("n", 0)
        corr["disagreements"] = list(corr.get("disagreements", [])) + [
            (base + i, c, a, b) for (i, c, a, b) in corr_part.get("disagreements", [])]
        corr["n"] = base + corr_part.get("n", 0)
        corr["distinct_nontrivial"] = corr.get("distinct_nontrivial", 0) + corr_part.get("distinct_nontrivial", 0)
        kinds = dict(corr.get("kinds", {}))
        for k, v in corr_part.get("kinds", {}).items():
            kinds["tng:" + k] = v
        corr["kinds"] = kinds
        corr["samples"] = list(corr.get("samples", [])) + corr_part.get("samples", [])[:3]
        for k in ("harness_build_s", "impl_s", "model_s"):
            if corr_part.get(k) is not None:
                corr[k] = round((corr.get(k) or 0) + corr_part[k], 1)
    return obl, corr


if __name__ == "__main__":
    tier = sys.argv[1] if len(sys.argv) > 1 else "quick"
    seed = int(sys.argv[2]) if len(sys.argv) > 2 else int(os.environ.get("VERIF_SEED", "1"))
    import time
    t0 = time.time()
    if "--no-coq" in sys.argv:
        obl = None
    else:
        obl = obligations()
        print("obligations: ok=%s theorems=%d problems=%s build=%.1fs" % (obl["ok"], obl["obligations"], obl["problems"], obl["build_s"]))
    corr = correspondence(tier, seed)
    print("correspondence: ok=%s error=%s n=%d nontrivial=%d disagreements=%d kinds=%s impl=%ss model=%ss wall=%.1fs" % (
        corr["ok"], (corr["error"] or "")[:2000], corr["n"], corr["distinct_nontrivial"], len(corr["disagreements"]),
        corr["kinds"], corr.get("impl_s"), corr.get("model_s"), time.time() - t0))
    for (i, c, a, b) in corr["disagreements"][:5]:
        print("DISAGREE #%d case=%s\n  impl =%s\n  model=%s" % (i, c[:600], a[:1500], b[:1500]))
    sys.exit(0 if corr["ok"] and not corr["disagreements"] and (obl is None or obl["ok"]) else 1)
