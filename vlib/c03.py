"""C03 - tables over Z, Q, F2, F3 are mutually consistent (universal coefficients)."""
import math
import re
from . import common as C
from . import kh

RULE = ("diagrams: table knots and mirrors, a rotating sample of the library's knot table (7-10 crossings), split unions, torus links "
        "T(3,4), T(3,5), T(4,4) (thorough: more), random braid closures on 2-5 strands up to 11 (quick) / 13 (thorough) crossings, and the "
        "recorded witness T(5,6) + trefoil of the known finding; per diagram the bigraded tables over Z (i64; i128 and BigInt up to 9 "
        "crossings), Q, F2, F3, reduced and unreduced, through both library routes; evaluated relations: routes agree cell by cell, "
        "rank_Q = rank_Z, dim_Fp(i,j) = rank + #{p | tors(i,j)} + #{p | tors(i+1,j)}, F2 unreduced(i,j) = red(i,j-1) + red(i,j+1), "
        "i64 = i128 = BigInt, the tables computed without generators (compute_homology(false), i64; i128 up to 10 crossings) = the tables with generators (10_132 and its mirror always in the corpus), and equality with the oracle's tables for diagrams up to 6 (8) crossings. "
        "`ig` cases (every diagram of the corpus, i64 unreduced and reduced, BigInt too up to 7 crossings; the witness over BigInt unreduced): the "
        "harness dumps, through the public API, what collect_gen_info reads of KhHomology::new(l,0,0,red) (per homological "
        "degree rank, torsion orders, q-degrees of the terms of every generator) together with into_bigraded() of the same object "
        "(support shape, non-zero cells, torsion in library order); Model/IntoBigraded.into_bigraded recomputes the table from "
        "the dump, exact comparison; the number of dumped generators that are not q-homogeneous is recorded. "
        "non-trivial = diagram with torsion in its integral homology or >= 2 components; distinct = distinct case lines")

SEG = re.compile(r"([A-Z0-9]+?)([AB]?)([01])\[([^\]]*)\]")


def parse_tables(line):
    """-> {(ring, route, red): {(i,j): (rank, [tors])}}"""
    out = {}
    for m in SEG.finditer(line):
        ring, route, red, body = m.group(1), m.group(2), m.group(3), m.group(4)
        if ring == "NHD":
            continue
        cells = {}
        for c in body.split():
            k, v = c.split("=")
            i, j = k.strip("()").split(",")
            if "/" in v:
                r, t = v.split("/")
                tors = [int(x) for x in t.split(".") if x]
            else:
                r, tors = v, []
            cells[(int(i), int(j))] = (int(r), tors)
        out[(ring, route, int(red))] = cells
    return out


def inhomogeneous_degrees(line):
    """{red: set of homological degrees} of the NHD<red>[..] segments: the degrees in which the total homology whose
    into_bigraded() table is the ZB<red> segment of the same line has a generator that is not q-homogeneous"""
    out = {}
    for m in SEG.finditer(line):
        if m.group(1) == "NHD":
            out[int(m.group(3))] = set(int(x) for x in m.group(4).split())
    return out


# The recorded finding is about coprime torsion that MERGES (then no q-homogeneous invariant-factor basis exists and the
# disagreement shows in every run).  into_bigraded is equally wrong whenever the basis the Smith normalisation happens to
# return is not q-homogeneous although a homogeneous one exists (Model/IntoBigraded.v: a generator is filed under the minimal
# q-degree of its terms; Properties/C03Big.v C03_into_bigraded_homogeneous / _agrees_iff): the summand is then RELOCATED,
# nothing merges.  On the unchanged tree that happens on the witness in roughly 1 run in 60 (homological degree 12, a Z/2
# between q = 42 and 44; the builder's pivot order follows randomized hash order).  The rule below does not match that to the
# finding (it is reported as a violation, as before); set this to True to match a disagreement in a degree whose dumped
# generators (same KhHomology object) are not all q-homogeneous and whose row only relocates summands.  Left False because it
# would also absorb a change that makes the Smith normalisation return inhomogeneous generators more often.
RELOCATION_IS_KNOWN = False


def invariant_factors(orders):
    """invariant-factor form of the direct sum of cyclic groups of the given orders (as a sorted list)"""
    from collections import defaultdict
    primes = defaultdict(list)
    for n in orders:
        p = 2
        m = n
        while p * p <= m:
            e = 0
            while m % p == 0:
                m //= p
                e += 1
            if e:
                primes[p].append(p ** e)
            p += 1
        if m > 1:
            primes[m].append(m)
    k = max((len(v) for v in primes.values()), default=0)
    facs = [1] * k
    for p, v in primes.items():
        v = sorted(v, reverse=True)
        for idx, q in enumerate(v):
            facs[idx] *= q
    return sorted(facs)


def ig_inhomogeneous(case):
    """{homological degree: number of dumped generators whose terms do not all have one q-degree}, total generators"""
    out, total = {}, 0
    parts = case.split(";")
    if len(parts) < 3:
        return out, total
    toks = parts[2].split()
    k = 0
    while k < len(toks) and toks[k] == "H":
        i, r, t = int(toks[k + 1]), int(toks[k + 2]), int(toks[k + 3])
        gens = toks[k + 4 + t:k + 4 + t + r + t]
        out[i] = sum(1 for g in gens if "," in g)
        total += len(gens)
        k += 4 + 2 * t + r
    return out, total


def relations(case, impl):
    """evaluate the property's clauses on the implementation's tables -> list of (key, text)"""
    if case.startswith("ig "):
        return []
    if impl == "P":
        return [("panic", "implementation panicked")]
    T = parse_tables(impl)
    bad = []
    for red in (0, 1):
        za = T.get(("Z", "A", red))
        if za is None:
            continue
        # routes
        for ring in ("Z", "Q", "F2", "F3"):
            a, b = T.get((ring, "A", red)), T.get((ring, "B", red))
            if a is not None and b is not None and a != b:
                cells = sorted(set(k for k in set(a) | set(b) if a.get(k) != b.get(k)))
                key = "route-differs"
                if ring == "Z":
                    # known-finding class: in every disagreeing homological degree the torsion of route A sits in
                    # several q-degrees and merges in the invariant-factor form of the total homology
                    degs = sorted(set(i for (i, j) in cells))
                    cls = True
                    nhd = inhomogeneous_degrees(impl).get(red)
                    for i in degs:
                        per_q = [t for (ii, j), (r, t) in a.items() if ii == i and t]
                        flat = [x for t in per_q for x in t]
                        ranks_equal = sum(r for (ii, j), (r, t) in a.items() if ii == i) == sum(r for (ii, j), (r, t) in b.items() if ii == i)
                        merged = invariant_factors(flat) != sorted(flat)
                        btors = sorted(x for (ii, j), (r, t) in b.items() if ii == i for x in t)
                        # on the LISTED witness input (case kind `wt`: T(5,6) + trefoil) the finding is matched in its
                        # general form: a non-q-homogeneous generator of the total homology (dumped from the same
                        # KhHomology object) is filed at its minimal q-degree, so the row only relocates summands.  Which
                        # generators come out inhomogeneous there depends on the process (hash-seeded elimination order):
                        # about 1 run in 64 shows it in degree 12 as well, without coprime orders.  On every other input
                        # only the coprime-merge shape is matched, everything else is reported.
                        relocated = ((RELOCATION_IS_KNOWN or case.startswith("wt ")) and nhd is not None and i in nhd
                                     and ranks_equal and invariant_factors(btors) == invariant_factors(flat))
                        if not (len(per_q) >= 2 and merged and ranks_equal and btors == invariant_factors(flat)) and not relocated:
                            cls = False
                    if cls:
                        key = "into_bigraded-coprime-torsion"
                note = ""
                if ring == "Z" and inhomogeneous_degrees(impl).get(red) is not None:
                    note = "; degrees with a non-q-homogeneous generator in that total homology: %s" % sorted(inhomogeneous_degrees(impl)[red])
                bad.append((key, "routes differ over %s red=%d at cells %s%s" % (ring, red, cells[:6], note)))
        # universal coefficients on route A
        q = T.get(("Q", "A", red))
        for k in (set(za) | set(q)) if q is not None else ():
            if za.get(k, (0, []))[0] != q.get(k, (0, []))[0]:
                bad.append(("uct-Q", "rank_Q != rank_Z at %s red=%d" % (k, red)))
        for p, ring in ((2, "F2"), (3, "F3")):
            f = T.get((ring, "A", red))
            if f is None:
                continue
            keys = set(f) | set(za) | set((i - 1, j) for (i, j) in za)
            for (i, j) in keys:
                want = za.get((i, j), (0, []))[0] + sum(1 for x in za.get((i, j), (0, []))[1] if x % p == 0) \
                    + sum(1 for x in za.get((i + 1, j), (0, []))[1] if x % p == 0)
                got = f.get((i, j), (0, []))[0]
                if want != got:
                    bad.append(("uct-F%d" % p, "dim_F%d(%d,%d)=%d but universal coefficients give %d (red=%d)" % (p, i, j, got, want, red)))
        for w in ("W", "B"):
            t = T.get((w, "A", red))
            if t is not None and t != za:
                bad.append(("int-width", "i64 table differs from %s table red=%d" % ({"W": "i128", "B": "BigInt"}[w], red)))
        # the same pieces computed without generators (compute_homology(with_trans = false)), i64 and i128
        for w in ("N", "M"):
            t = T.get((w, "A", red))
            if t is not None and t != za:
                cells = sorted(k for k in set(t) | set(za) if t.get(k) != za.get(k))
                bad.append(("no-generators", "the %s table computed without generators differs from the table with generators, red=%d at cells %s"
                            % ({"N": "i64", "M": "i128"}[w], red, cells[:6])))
    # F2: unreduced = reduced (x) unknot
    u, r = T.get(("F2", "A", 0)), T.get(("F2", "A", 1))
    if u is not None and r is not None:
        keys = set(u) | set((i, j + 1) for (i, j) in r) | set((i, j - 1) for (i, j) in r)
        for (i, j) in keys:
            want = r.get((i, j - 1), (0, []))[0] + r.get((i, j + 1), (0, []))[0]
            if u.get((i, j), (0, []))[0] != want:
                bad.append(("f2-split", "F2 unreduced(%d,%d)=%d != red(i,j-1)+red(i,j+1)=%d" % (i, j, u.get((i, j), (0, []))[0], want)))
    return bad


def equal(case, impl, model):
    if case.startswith("ig "):
        # the model of into_bigraded is total: a panic of the library ("P" against "SKIP-P") is a disagreement
        return impl == model
    if model == "SKIP":
        return True
    T, M = parse_tables(impl), parse_tables(model)
    for (ring, route, red), cells in M.items():
        if T.get((ring, "A", red)) != cells:
            return False
    return True


def nontrivial(case, impl):
    if case.startswith("ig "):
        return "/2" in impl or "/3" in impl or case.split(";")[1].count(",") >= 4
    return "/2" in impl or "/3" in impl or case.count(",") >= 4


def run(ctx):
    ctx.equal = equal
    obl = C.coq_obligations(ctx.pid, ["Extract/ExtractC03.vo"], more_props=["C01Smith", "C03Uct", "C03Big"])
    extra = {}
    if ctx.thorough:
        extra.update(C.coqchk(ctx.pid, more_props=["C01Smith", "C03Uct", "C03Big"]))
    corr = C.correspondence(ctx, "c03", nontrivial)
    ev = []
    nrel = 0
    if corr.get("ok"):
        import os
        cases = open(os.path.join(ctx.work, "corr", "cases.txt")).read().splitlines()
        impl = open(os.path.join(ctx.work, "corr", "impl.txt")).read().splitlines()
        nig, ngen, ninh = 0, 0, 0
        for c, a in zip(cases, impl):
            if c.startswith("ig "):
                per_deg, total = ig_inhomogeneous(c)
                nig += 1
                ngen += total
                ninh += sum(per_deg.values())
        for c, a in zip(cases, impl):
            if c.startswith("ig "):
                continue
            for key, text in relations(c, a):
                ev.append((key, text, {"case": c, "impl": a[:2000], "model": text}))
            nrel += 1
        extra["relation_evaluations"] = nrel
        extra["into_bigraded_model_cases"] = nig
        extra["into_bigraded_dumped_generators"] = ngen
        extra["into_bigraded_inhomogeneous_generators"] = ninh
        extra["oracle_compared"] = sum(1 for c in cases if c.split(";")[0].split()[-1] == "1" and c.startswith("tb"))
    return C.finish(ctx, "other", obl, corr, RULE, extra_cov=extra, assumptions=kh.KH_ASSUME, explain=kh.EXPLAIN % "C03",
                    extra_violations=ev)


def replay(ctx, payload):
    ctx.equal = equal
    cases = payload.get("cases") or [payload["first"]["case"]]
    corr = C.correspondence(ctx, "c03", nontrivial, replay_cases=cases)
    if corr.get("error"):
        print(corr["error"])
        return 2
    import os
    impl = open(os.path.join(ctx.work, "corr", "impl.txt")).read().splitlines()
    n = 0
    for c, a in zip(cases, impl):
        for key, text in relations(c, a):
            print("RELATION-FAILS [%s] %s\n  case=%s" % (key, text, c[:300]))
            n += 1
    for (i, c, a, b) in corr["disagreements"]:
        print("DISAGREE with oracle case=%s\n  impl =%s\n  model=%s" % (c[:300], a[:600], b[:600]))
    print("replayed %d cases, %d relation failures, %d oracle disagreements" % (corr["n"], n, len(corr["disagreements"])))
    return 1 if (n or corr["disagreements"]) else 0
