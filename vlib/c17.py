"""C17 - bit sequences behave as sequences of at most 64 bits."""
from . import common as C

RULE = ("cases = exhaustive sweep of every single operation on every sequence of length <= 4 (quick) / 6 (thorough), "
        "boundary sweep (all-zero, all-one, alternating at every length 0..66), random operation histories "
        "(boundary-biased lengths and indices) and random single calls; a case is non-trivial when it is a history "
        "with at least one accepted and state-changing operation or a single call on a non-empty sequence; "
        "distinct = distinct case lines")
ASSUME = ["u64 primitives (<<, >>, &, |, !, reverse_bits) behave as the model's N-based definitions (validated by the run)",
          "serde paths and Hash are not covered"]


def nontrivial(case, impl):
    t = case.split()
    if t[0] == "hist":
        outs = impl.split()
        return any(o != "P" for o in outs) and len(set(outs)) > 1 or (len(outs) == 1 and outs[0] != "P" and t[2] != "0")
    return len(t) > 2 and t[-1] != "0" or (t[0] in ("from_iter", "from_str", "zeros", "ones", "generate") and len(t) > 1)


def equal(case, impl, model):
    if case.startswith("hist"):
        # model prints "model|reference-list" per step; compare the model part, and (independently)
        # the implementation's value decoded as a list with the list reference
        mp = model.split()
        ip = impl.split()
        if len(mp) != len(ip):
            return False
        for a, m in zip(ip, mp):
            mm, ref = m.split("|")
            if a != mm:
                return False
            if a != "P":
                v, l = a.split(":")
                v, l = int(v), int(l)
                bits = "".join("1" if (v >> i) & 1 else "0" for i in range(l))
                if bits != ref or v >> l != 0:
                    return False
            elif ref != "P":
                return False
        return True
    return impl == model


def run(ctx):
    ctx.equal = equal
    obl = C.coq_obligations(ctx.pid, ["Extract/ExtractC17.vo"])
    extra = {}
    if ctx.thorough:
        extra.update(C.coqchk(ctx.pid))
    corr = C.correspondence(ctx, "c17", nontrivial)
    return C.finish(ctx, "proof", obl, corr, RULE, extra_cov=extra, assumptions=ASSUME)


def replay(ctx, payload):
    ctx.equal = equal
    cases = payload.get("cases") or [payload["first"]["case"]]
    corr = C.correspondence(ctx, "c17", nontrivial, replay_cases=cases)
    if corr.get("error"):
        print(corr["error"])
        return 2
    for (i, c, a, b) in corr["disagreements"]:
        print("DISAGREE case=%s\n  impl =%s\n  model=%s" % (c, a, b))
    print("replayed %d cases, %d disagreements" % (corr["n"], len(corr["disagreements"])))
    return 1 if corr["disagreements"] else 0
