"""C17 - bit sequences behave as sequences of at most 64 bits."""
import re

from . import common as C

RULE = ("cases = exhaustive sweep of every single operation on every sequence of length <= 4 (quick) / 6 (thorough), "
        "boundary sweep (all-zero, all-one, alternating at every length 0..66), random operation histories "
        "(boundary-biased lengths and indices) and random single calls; a case is non-trivial when it is a history "
        "with at least one accepted and state-changing operation or a single call on a non-empty sequence; "
        "distinct = distinct case lines")
ASSUME = ["u64 primitives (<<, >>, &, |, !, reverse_bits) behave as the model's N-based definitions (validated by the run)",
          "serde paths and Hash are not covered"]


def nontrivial(case, impl):
    t = case.split()
    if t[0] == "hist":
        outs = impl.split()
        return any(o != "P" for o in outs) and len(set(outs)) > 1 or (len(outs) == 1 and outs[0] != "P" and t[2] != "0")
    return len(t) > 2 and t[-1] != "0" or (t[0] in ("from_iter", "from_str", "zeros", "ones", "generate") and len(t) > 1)


def equal(case, impl, model):
    if case.startswith("hist"):
        # model prints "model|reference-list" per step; compare the model part, and (independently)
        # the implementation's value decoded as a list with the list reference
        mp = model.split()
        ip = impl.split()
        if len(mp) != len(ip):
            return False
        for a, m in zip(ip, mp):
            mm, ref = m.split("|")
            if a != mm:
                return False
            if a != "P":
                v, l = a.split(":")
                v, l = int(v), int(l)
                bits = "".join("1" if (v >> i) & 1 else "0" for i in range(l))
                if bits != ref or v >> l != 0:
                    return False
            elif ref != "P":
                return False
        return True
    return impl == model


def kernel_crosscheck(ctx, limit=120):
    """Second evaluation route for the model (DESIGN.md 2.3, step 4): a sample of the history cases is evaluated by the
    kernel (vm_compute inside coqc) and must give exactly what the EXTRACTED runner printed - this cross-checks
    extraction, the OCaml driver and its parsing / printing against Coq's own evaluator.  Each sampled case becomes
    `Example k : hist b0 ops = <runner's output as a Coq term>. Proof. vm_compute. reflexivity. Qed.`"""
    import os
    import subprocess
    out = os.path.join(ctx.work, "corr")
    try:
        cases = open(os.path.join(out, "cases.txt")).read().splitlines()
        model = open(os.path.join(out, "model.txt")).read().splitlines()
    except OSError:
        return {"kernel_crosscheck": "no run"}, []
    hist = [(c, m) for c, m in zip(cases, model) if c.startswith("hist ")]
    step = max(1, len(hist) // limit)
    sample = hist[::step][:limit]

    def op_term(t, k):
        o = t[k]
        if o == "set":
            return "OSet %s %s" % (t[k + 1], "true" if t[k + 2] == "1" else "false"), k + 3
        if o == "push":
            return "OPush %s" % ("true" if t[k + 1] == "1" else "false"), k + 2
        if o == "append":
            return "OAppend %s%%N %s" % (t[k + 1], t[k + 2]), k + 3
        if o == "remove":
            return "ORemove %s" % t[k + 1], k + 2
        if o == "insert":
            return "OInsert %s %s" % (t[k + 1], "true" if t[k + 2] == "1" else "false"), k + 3
        if o == "sub":
            return "OSub %s" % t[k + 1], k + 2
        raise ValueError(o)

    lines = ["From Coq Require Import List NArith Arith.", "Require Import Yui.Model.BitSeq.", "Import ListNotations.",
             "Fixpoint hist (b : bitseq) (ops : list op) : list (option bitseq) :=",
             "  match ops with [] => [] | o :: r => step b o :: hist (run_step b o) r end."]
    n = 0
    for c, m in sample:
        t = c.split()
        try:
            ops, k = [], 3
            while k < len(t):
                term, k = op_term(t, k)
                ops.append("(" + term + ")")
            exp = []
            for x in m.split():
                a = x.split("|")[0]
                if a == "P":
                    exp.append("None")
                else:
                    v, l = a.split(":")
                    exp.append("Some (mk %s%%N %s)" % (v, l))
        except (ValueError, IndexError):
            continue
        if any(int(z) > 200 for z in re.findall(r"(?<![%\d])\b(\d+)\b(?!%N)", " ".join(ops))):
            continue  # unary nat literals: keep them small
        lines.append("Example k%d : hist (mk %s%%N %s) [%s] = [%s]." % (n, t[1], t[2], "; ".join(ops), "; ".join(exp)))
        lines.append("Proof. vm_compute. reflexivity. Qed.")
        n += 1
    vf = os.path.join(ctx.work, "kernel_crosscheck.v")
    open(vf, "w").write("\n".join(lines) + "\n")
    try:
        p = subprocess.run(["coqc", "-q", "-Q", C.COQ, "Yui", vf], cwd=ctx.work, capture_output=True, text=True, timeout=600)
        ok, msg = p.returncode == 0, (p.stdout + p.stderr)[-800:]
    except subprocess.TimeoutExpired:
        ok, msg = False, "coqc timed out"
    info = {"kernel_crosscheck": {"cases_evaluated_by_vm_compute": n, "agree_with_extracted_runner": ok}}
    probs = [] if ok else ["kernel cross-check: vm_compute and the extracted runner disagree (or coqc failed): " + msg]
    return info, probs


def run(ctx):
    ctx.equal = equal
    obl = C.coq_obligations(ctx.pid, ["Extract/ExtractC17.vo"])
    extra = {}
    if ctx.thorough:
        extra.update(C.coqchk(ctx.pid))
    corr = C.correspondence(ctx, "c17", nontrivial)
    if corr.get("ok"):
        info, probs = kernel_crosscheck(ctx)
        extra.update(info)
        if probs:
            obl["problems"] = obl.get("problems", []) + probs
            obl["ok"] = False
    return C.finish(ctx, "proof", obl, corr, RULE, extra_cov=extra, assumptions=ASSUME)


def replay(ctx, payload):
    ctx.equal = equal
    cases = payload.get("cases") or [payload["first"]["case"]]
    corr = C.correspondence(ctx, "c17", nontrivial, replay_cases=cases)
    if corr.get("error"):
        print(corr["error"])
        return 2
    for (i, c, a, b) in corr["disagreements"]:
        print("DISAGREE case=%s\n  impl =%s\n  model=%s" % (c, a, b))
    print("replayed %d cases, %d disagreements" % (corr["n"], len(corr["disagreements"])))
    return 1 if corr["disagreements"] else 0
