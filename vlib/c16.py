"""C16 - polynomial and linear-combination types form the free algebra they denote."""
from . import common as C

RULE = ("cases = a fixed corpus, then (a) straight-line programs over 2-5 registers ('prog R M ...': ring R in "
        "Z(i64), Z(BigInt), Q(Ratio<i64>), Q(Ratio<BigInt>), F_3, Z[i](i64), Z[i](BigInt); type M in Poly/LPoly/"
        "Poly2/LPoly2/Poly3/LPoly3/PolyN/LPolyN/Lc<Free<i64>>): half random operation sequences (from_iter of raw term "
        "lists with zero coefficients / repeated monomials / unreduced multi-degrees, + - neg, scalar *, *, the Lc "
        "product, pow, map_gens, filter_gens, apply, interleaved observers ==, coeff, as_mono, inv, is_unit, "
        "normalizing_unit, eval, lead_term_for), half cancellation templates (p-p, (a+b)(a-b)-a^2+b^2, ab-ba, "
        "(ab)c-a(bc), a(b+c)-ab-ac, F_3 sums reaching 0, Frobenius, geometric sums, Laurent x*x^-1, (x+i)(x-i), ...); "
        "after every operation the canonical sorted term list and nterms/is_zero/is_mono/is_const/is_one/const_term/"
        "lead_term are compared; (b) monomial cases (mul, checked div, cmp_lex/cmp_grlex and their compatibility with "
        "the product, unit/inv/divides) and MultiDeg cases; (c) HPoly cases. Sizes are bounded by generator-side "
        "shadows (<= 64 terms, machine integers never overflow). A case is non-trivial when it is a program whose "
        "output contains at least one non-zero polynomial with >= 2 terms or a cancellation to 0 after a non-zero "
        "value, or a monomial/MultiDeg/HPoly case with a non-unit operand; distinct = distinct case lines; program op `powz d a n` calls Pow<i32>, Pow<i64>, Pow<isize> with a signed exponent (negative exponents go through inv().unwrap(); a panic prints P and leaves the register unchanged); "
        "SINGLE-TERM CONSTRUCTORS (program ops whose result is used exactly as returned, without += / collect in between): "
        "`term d x@c` = From<(X, R)> (PolyBase::from((mono, c)) / (mono, c).into() / PolyBase::from(Lc::from((mono, c))), "
        "Lc::from((gen, c))), `dterm d x a b` = the same on (x, a - b), `gen d x` = From<X>, `const d c` = "
        "PolyBase::from_const, `pstr d s` = PolyBase::from_str / str::parse on an integer literal (0, 00, -0, F_3: 3 6 -3 9, "
        "small and BigInt-sized values) or, for Poly / LPoly, on a monomial string x, x^d, x^{d}; coefficients are arbitrary, "
        "literally zero (0, 0/k, 0:0), zero only after reduction (F_3: 3, 6, -3, -6, 9) or a difference a - a; about 2/5 of "
        "these ops build a zero value; each is followed by the full observation (sorted iter() terms, nterms, is_zero, "
        "is_mono, is_const, is_one, const_term, lead_term, the public-API check that no zero coefficient is stored) and "
        "three templates compare the result with the never-written zero register (==), carry it through `* 1`, neg, "
        "clone, *, +, pow, and check additivity (from((x,a)) + from((x,-a)) == from((x,0)), from_const(a) + from_const(-a) "
        "== from_const(0), parse(l) + parse(-l) == parse(0)); they occur in every template round (all 7 rings x 9 types), "
        "in 2/5 of the random `set` positions and in 1/6 of the initial loads")
ASSUME = ["coefficient rings are those of C14 (i64/BigInt/Ratio/FF<3>/GaussInt arithmetic is taken as exact ring "
          "arithmetic; the model uses Z, reduced fractions, residues mod 3 and pairs; i64 overflow is avoided by the "
          "generator, not modelled)",
          "usize/isize exponent overflow is not modelled (exponents are unbounded N / Z; generated exponents stay small)",
          "hash-map iteration order is unobservable: outputs are sorted term lists; any_term() is not compared",
          "Pow<&usize> of i64/BigInt (num-traits, num-bigint) is the mathematical power",
          "Display / serde / TeX of polynomials are not covered; FromStr only on integer literals (all types) and on the "
          "one-variable monomial strings x, x^d, x^{d} (the string syntax itself is interpreted by the driver, the value "
          "is the model's p_from_const / p_from_mono); div_rem of Poly over a field belongs to C15"]

MARKERS = ("FORMS-DIFFER", "ZERO-STORED", "NTERMS-DIFFER", "COEFF-DIFFER", "EQ-BROKEN", "ZERO-EXP-STORED",
           "ORDER-INCONSISTENT", "TOP-PANIC")


def nontrivial(case, impl):
    t = case.split()
    if t[0] == "prog":
        toks = impl.split()
        big = any("|" in x and x.split("|")[0].count("+") >= 1 for x in toks)
        seen_nonzero = False
        cancel = False
        for x in toks:
            if "|" in x:
                if x.startswith("0|"):
                    cancel = cancel or seen_nonzero
                else:
                    seen_nonzero = True
        return big or cancel
    if t[0] in ("mono", "mdeg"):
        return any(a not in ("0", "-", "0,0", "0,0,0") for a in t[3:])
    if t[0] == "hp":
        return len(t) > 3
    return False


def equal(case, impl, model):
    # exact correspondence; any marker printed by the harness (call forms disagree, a zero coefficient or
    # exponent is stored, the orders are inconsistent, ...) is a failure even if the model line happened to match
    if any(mk in impl for mk in MARKERS):
        return False
    return impl == model


def kernel_crosscheck(ctx, limit=150):
    """a sample of the MultiDeg cases (`mdeg u|i` with mk / arr / add / sub / neg / total, exponent dictionaries N_exp
    and Z_exp) evaluated by vm_compute inside coqc on Model/Mono.v must give exactly what the EXTRACTED runner printed"""
    import os
    out = os.path.join(ctx.work, "corr")
    try:
        cases = open(os.path.join(out, "cases.txt")).read().splitlines()
        model = open(os.path.join(out, "model.txt")).read().splitlines()
    except OSError:
        return {}, []

    def mk(kind):
        sc = "%N" if kind == "u" else "%Z"
        e = "N_exp" if kind == "u" else "Z_exp"
        num = lambda x: "(%d)%s" % (int(x), sc)
        pairs = lambda sx: "[" + "; ".join("(%d, %s)" % (int(t.split("^")[0]), num(t.split("^")[1]))
                                           for t in ([] if sx == "-" else sx.split(","))) + "]"
        return e, num, pairs

    ops = ("mk", "arr", "add", "sub", "neg", "total")
    sel = [(c.split(), mm) for c, mm in zip(cases, model) if c.startswith("mdeg ") and c.split()[2] in ops]
    step = max(1, len(sel) // limit)
    ex = []
    for t, mm in sel[::step][:limit]:
        try:
            e, num, pairs = mk(t[1])
            p = lambda sx: "(md_from_iter %s %s)" % (e, pairs(sx))
            op = t[2]
            if op == "mk":
                lhs, rhs = p(t[3]), pairs(mm)
            elif op == "arr":
                lhs = "md_from_array %s [%s]" % (e, "; ".join(num(x) for x in ([] if t[3] == "-" else t[3].split(","))))
                rhs = pairs(mm)
            elif op == "add":
                lhs, rhs = "md_add %s %s %s" % (e, p(t[3]), p(t[4])), pairs(mm)
            elif op == "sub":
                lhs = "md_sub %s %s %s" % (e, p(t[3]), p(t[4]))
                rhs = "None" if mm == "P" else "Some %s" % pairs(mm)
            elif op == "neg":
                lhs, rhs = "md_neg %s %s" % (e, p(t[3])), pairs(mm)
            else:
                lhs, rhs = "md_total %s %s" % (e, p(t[3])), num(mm)
        except (ValueError, IndexError):
            continue
        ex.append((lhs, rhs))
    # HPoly over Z (hp Zi / Zb): add / sub (None = panic on different degrees), neg, smul, mul
    hops = ("add", "sub", "neg", "smul", "mul")
    hsel = [(c.split(), mm) for c, mm in zip(cases, model)
            if c.startswith(("hp Zi ", "hp Zb ")) and c.split()[2] in hops]
    hstep = max(1, len(hsel) // 60)
    for t, mm in hsel[::hstep][:60]:
        try:
            hp = lambda sx: "(@mk_hpoly Z (%d)%%N (%d)%%Z)" % (int(sx.split("@")[0]), int(sx.split("@")[1]))
            op = t[2]
            if op in ("add", "sub"):
                lhs = "h_%s Z_ring %s %s" % (op, hp(t[3]), hp(t[4]))
                rhs = "None" if mm == "P" else "Some %s" % hp(mm)
            elif op == "neg":
                lhs, rhs = "h_neg Z_ring %s" % hp(t[3]), hp(mm)
            elif op == "smul":
                lhs, rhs = "h_smul Z_ring %s (%d)%%Z" % (hp(t[3]), int(t[4])), hp(mm)
            else:
                lhs, rhs = "h_mul Z_ring %s %s" % (hp(t[3]), hp(t[4])), hp(mm)
        except (ValueError, IndexError):
            continue
        ex.append((lhs, rhs))
    pre = ["From Coq Require Import List ZArith NArith Arith.", "Require Import Yui.Base.Ring Yui.Model.Mono Yui.Model.Poly.",
           "Import ListNotations."]
    return C.kernel_examples(ctx, pre, ex)


def run(ctx):
    ctx.equal = equal
    obl = C.coq_obligations(ctx.pid, ["Extract/ExtractC16.vo"], more_props=["C16Rest"])
    extra = {}
    if ctx.thorough:
        extra.update(C.coqchk(ctx.pid, more_props=["C16Rest"]))
    corr = C.correspondence(ctx, "c16", nontrivial)
    if corr.get("ok"):
        info, probs = kernel_crosscheck(ctx)
        extra.update(info)
        if probs:
            obl["problems"] = obl.get("problems", []) + probs
            obl["ok"] = False
    return C.finish(ctx, "proof", obl, corr, RULE, extra_cov=extra, assumptions=ASSUME)


def replay(ctx, payload):
    ctx.equal = equal
    cases = payload.get("cases") or [payload["first"]["case"]]
    corr = C.correspondence(ctx, "c16", nontrivial, replay_cases=cases)
    if corr.get("error"):
        print(corr["error"])
        return 2
    for (i, c, a, b) in corr["disagreements"]:
        print("DISAGREE case=%s\n  impl =%s\n  model=%s" % (c, a, b))
    print("replayed %d cases, %d disagreements" % (corr["n"], len(corr["disagreements"])))
    return 1 if corr["disagreements"] else 0
