"""C12 - sparse kernels (triangular solve, Schur complement, block splitting) are exact."""
from . import common as C

RULE = ("cases = fixed corner cases (empty systems and shapes) + per ring (Z with diagonal +-1, Q = Ratio<i64>, "
        "F_7 = FF<7>, Z[i] = GaussInt<i64> with diagonal units i, -i, -1): random valid triangular systems of size 0..12 "
        "(upper and lower, explicit stored zeros on both sides of the diagonal and in the right-hand sides, 0..6 or 8..31 "
        "right-hand side columns, matrix / left / vector / inverse forms), invalid systems (non-unit, zero or missing "
        "diagonal entry, entry on the wrong side, non-square, shape mismatch), Schur complements of m x n matrices "
        "(m, n <= 10, r from 0 to min(m, n), boundary-biased, with and without transfer maps) and direct-sum "
        "decompositions of block-structured matrices hidden by random permutations (plus zero rows/columns, explicit "
        "zeros glueing blocks, unstructured matrices; wide matrices with 35..80 columns forming a few stars with the hub "
        "column last; and `decompw`: parametric matrices with 4000..10000-row hub columns, 8..32 stars of one-entry leaf "
        "columns, too large for the nat-indexed model - there the implementation's sorted multiset of block shapes and "
        "non-zero counts and the validity of the permutations are compared with the values the parameters determine; and "
        "lopsided columns (Z and F_7, exact model route, about 20..90 rows x 3..13 columns): 1..3 long columns with 17..40 stored "
        "rows and 1..8 random, boundary-biased gaps, each in its own band of rows, next to 2..9 short columns of 1..4 stored "
        "rows placed around a gap g of a long column L (incl. the rows before its first / after its last stored row): "
        "{g, succ_L g} (6 of 14), {pred_L g, g}, {g}, {g, g+2}, {g, g', succ_L g'}, {g, succ_L succ_L g}, {g, g'}, "
        "{g, last row of L}, {row of another long column, g, succ_L g}; no row is used by two short columns, so the listed "
        "stored row of L is the only link of the short column to the rest; with probability 1/3 two long columns share exactly "
        "one row; columns in the given, reversed or shuffled order, optional empty column, explicit zeros as links in 1/5 of "
        "the cases); every case is executed in rayon pools of 1, 2 and 16 threads, "
        "5 times per pool on the same pool, and all 15 results must be identical (THREADS-DIFFER otherwise); results are "
        "compared as data (CSC structure including explicit zeros, permutations, blocks). A case is non-trivial when "
        "the implementation returned a result (no panic) that stores at least one entry; distinct = distinct case lines")
ASSUME = ["memory visibility of thread-locals and rayon's work distribution are runtime behaviour and trusted: the theorems "
          "cover every assignment of columns to per-thread buffers, the run samples schedules with 1, 2 and 16 threads",
          "nalgebra-sparse (CSC assembly, pattern of products and differences, transpose) and sprs::PermOwned are modelled; "
          "that the crates behave as modelled is observed by the exact comparison, not proved",
          "i64 / Ratio<i64> overflow is out of scope (generated values stay far below the machine width)"]


def nontrivial(case, impl):
    if impl == "P" or impl.startswith(("THREADS-DIFFER", "TOP-PANIC", "FORMS-DIFFER", "P |")):
        return False
    t = case.split()
    if t[0] in ("solve", "solvel", "inv"):
        r = impl.split()
        return len(r) >= 3 and int(r[2]) > 0
    if t[0] == "solvev":
        r = impl.split()
        return len(r) >= 2 and int(r[1]) > 0
    if t[0] == "schur":
        s = impl.split(" | ")[0].split()
        return int(t[3]) > 0 and len(s) >= 3 and int(s[0]) > 0 and int(s[1]) > 0
    if t[0] == "decomp":
        parts = impl.split(" | ")
        return len(parts) == 3 and int(parts[2].split()[0]) >= 1
    return False


def _mat_term(toks, k):
    """<mat> = m n nnz (i j v)*  ->  (Coq term of type spmat Z, next index)"""
    m, n, nnz = int(toks[k]), int(toks[k + 1]), int(toks[k + 2])
    k += 3
    cols = [[] for _ in range(n)]
    for _ in range(nnz):
        i, j, v = int(toks[k]), int(toks[k + 1]), int(toks[k + 2])
        k += 3
        cols[j].append("(%d, (%d)%%Z)" % (i, v))
    return "(mk_spmat %d %d [%s])" % (m, n, "; ".join("[" + "; ".join(c) + "]" for c in cols)), k


def _vec_term(toks, k):
    d, nnz = int(toks[k]), int(toks[k + 1])
    k += 2
    es = []
    for _ in range(nnz):
        es.append("(%d, (%d)%%Z)" % (int(toks[k]), int(toks[k + 1])))
        k += 2
    return "(%d, [%s])" % (d, "; ".join(es)), k


def kernel_crosscheck(ctx, limit=120):
    """a sample of the Z-ring triangular-solve cases (solve / solvel / solvev / inv) evaluated by vm_compute inside coqc
    (the kernel's evaluator on Model/Triang.v itself) must give exactly what the EXTRACTED runner printed: this
    cross-checks extraction + OCaml driver (parsing, printing, nat/int glue) on these cases"""
    import os
    out = os.path.join(ctx.work, "corr")
    try:
        cases = open(os.path.join(out, "cases.txt")).read().splitlines()
        model = open(os.path.join(out, "model.txt")).read().splitlines()
    except OSError:
        return {}, []
    sel = [(c.split(), m) for c, m in zip(cases, model)
           if c.startswith(("solve Z ", "solvel Z ", "solvev Z ", "inv Z ")) and len(c.split()) <= 160
           and "DIFFER" not in m]
    step = max(1, len(sel) // limit)
    ex = []
    for t, m in sel[::step][:limit]:
        try:
            up = "true" if t[2] == "U" else "false"
            a, k = _mat_term(t, 3)
            if t[0] == "inv":
                lhs = "inv_triangular Z_ring Z_units %s %s" % (up, a)
            elif t[0] == "solvev":
                y, k = _vec_term(t, k)
                lhs = "solve_triangular_vec Z_ring Z_units %s %s %s" % (up, a, y)
            else:
                y, k = _mat_term(t, k)
                fn = "solve_triangular" if t[0] == "solve" else "solve_triangular_left"
                lhs = "%s Z_ring Z_units %s %s %s" % (fn, up, a, y)
            if m == "P":
                rhs = "None"
            elif t[0] == "solvev":
                rhs = "Some %s" % _vec_term(m.split(), 0)[0]
            else:
                rhs = "Some %s" % _mat_term(m.split(), 0)[0]
        except (ValueError, IndexError):
            continue
        ex.append((lhs, rhs))
    pre = ["From Coq Require Import List ZArith Arith.",
           "Require Import Yui.Base.Ring Yui.Model.Triang Yui.Proofs.C12Rings.", "Import ListNotations."]
    return C.kernel_examples(ctx, pre, ex)


def run(ctx):
    obl = C.coq_obligations(ctx.pid, ["Extract/ExtractC12.vo"])
    extra = {}
    if ctx.thorough:
        extra.update(C.coqchk(ctx.pid))
    corr = C.correspondence(ctx, "c12", nontrivial)
    if corr.get("ok"):
        # a result that differs between thread counts / repetitions is a violation of C12 by itself; it also
        # differs from the (schedule-independent) model line, so it is among the disagreements already.
        extra["threads_differ"] = sum(1 for (_, _, a, _) in corr["disagreements"] if a.startswith("THREADS-DIFFER"))
        extra["pools"] = [1, 2, 16]
        extra["repetitions_per_pool"] = 5
        info, probs = kernel_crosscheck(ctx)
        extra.update(info)
        if probs:
            obl["problems"] = obl.get("problems", []) + probs
            obl["ok"] = False
    return C.finish(ctx, "proof", obl, corr, RULE, extra_cov=extra, assumptions=ASSUME)


def replay(ctx, payload):
    cases = payload.get("cases") or [payload["first"]["case"]]
    corr = C.correspondence(ctx, "c12", nontrivial, replay_cases=cases)
    if corr.get("error"):
        print(corr["error"])
        return 2
    for (i, c, a, b) in corr["disagreements"]:
        print("DISAGREE case=%s\n  impl =%s\n  model=%s" % (c, a, b))
    print("replayed %d cases, %d disagreements" % (corr["n"], len(corr["disagreements"])))
    return 1 if corr["disagreements"] else 0
