"""Shared pieces of the Khovanov-family checks (C01, C02, C03, C05, C06, C19): verified-definition oracle +
observational correspondence."""
from . import common as C

KH_ASSUME = [
    "the v2 engine is tied to the cube-of-resolutions definition only on the explored diagrams (observational correspondence); "
    "that it computes this homology for every diagram is Bar-Natan's theorem, not proved here",
    "crossing signs (n+, n-) of each diagram are taken from the library's Link::signed_crossing_nums (property C18)",
    "the sparse Smith diagonalisation of the oracle (KhHomology.smith_loop) is executable Gallina; its soundness theorem is "
    "staged (see Properties/C01.v header); it is cross-validated against the library on every case",
]
EXPLAIN = ("Level 'other': the Coq model is the DEFINITION of Khovanov homology (cube of resolutions), executable and "
           "extracted; theorems in Properties/%s.v concern the definition (Frobenius-algebra laws for all h,t; the oracle only "
           "answers on instances it has checked to satisfy d.d=0; universal-coefficient count). The implementation is "
           "compared with the oracle table-by-table on generated diagrams; the universally quantified statement about the "
           "implementation is therefore sampled, not proved.")
