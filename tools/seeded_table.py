#!/usr/bin/env python3
"""Markdown table of the seeded breaking changes (seeded/*/meta.json) and which checks detect them."""
import glob, json, os
root = os.path.dirname(os.path.dirname(os.path.abspath(__file__)))
print("| seeded id | breaks | change (file) | needs to manifest | detected by (quick tier) | missed by |")
print("|---|---|---|---|---|---|")
for d in sorted(glob.glob(os.path.join(root, "seeded", "*"))):
    m = json.load(open(os.path.join(d, "meta.json")))
    det = m.get("detection", {})
    yes = [k + (" (no-failing-input-found)" if (v.get("violation_line") or "").endswith("no-failing-input-found") else "")
           for k, v in sorted(det.items()) if v.get("detected")]
    no = [k for k, v in sorted(det.items()) if not v.get("detected")]
    summ = (m.get("summary") or "").replace("|", "/").replace("\n", " ")
    needs = (m.get("needs") if isinstance(m.get("needs"), str) else json.dumps(m.get("needs")) or "").replace("|", "/").replace("\n", " ")
    files = ", ".join(os.path.basename(f) for f in (m.get("files") or []))
    print("| %s | %s | %s (%s) | %s | %s | %s |" % (os.path.basename(d), m.get("property"), summ[:230], files, needs[:200],
                                                ", ".join(yes) or "-", ", ".join(no) or "-"))
