#!/bin/bash
# Regression over all seeded changes: every change is run (isolated copy) against the checks recorded as detecting it
# (or its own property when none is recorded); prints one line per (change, check) and a summary.
cd "$(dirname "$0")/.."
tot=0; det=0
for d in seeded/*/; do
  n=$(basename "$d")
  ps=$(python3 - "$d/meta.json" <<'PY'
import json,sys
m=json.load(open(sys.argv[1]))
det=[k for k,v in (m.get("detection") or {}).items() if v.get("detected")]
print(" ".join(sorted(det)) if det else m.get("property",""))
PY
)
  out=$(python3 tools/seeded_run.py "seeded/$n" $ps --record | grep -E "^SEEDED")
  echo "$out" | cut -c1-160
  tot=$((tot + $(echo "$out" | wc -l))); det=$((det + $(echo "$out" | grep -c "detected=yes")))
done
echo "SUMMARY runs=$tot detected=$det"
