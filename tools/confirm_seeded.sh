#!/bin/bash
# usage: tools/confirm_seeded.sh <mutation dir with patch.diff, demo/run.sh, meta.json> <scratch worktree of /repo> <seeded name>
# Confirms independently, in the scratch worktree (never /repo):
#   (a) with the patch applied the whole existing suite still passes,
#   (b) the demonstration fails with the patch and passes without it,
# and copies the mutation to /verif/seeded/<name>/ with a "confirmed" record appended to meta.json.
set -u
M=$(realpath "$1"); WT=$(realpath "$2"); NAME=$3
export CARGO_NET_OFFLINE=true
cd "$WT" || exit 2
git checkout -q -- . ; git clean -fdq -e target
if [ -n "$(git status --short)" ]; then echo "worktree not clean"; git status --short; exit 2; fi
LOG=$(mktemp)
# demo on the clean tree
bash "$M/demo/run.sh" "$WT" >"$LOG.demo0" 2>&1; D0=$?
git checkout -q -- . ; git clean -fdq -e target
git apply "$M/patch.diff" || { echo "patch does not apply"; exit 2; }
cargo test --workspace --no-fail-fast --offline -j 8 >"$LOG.suite" 2>&1; S=$?
PASSED=$(grep -E "^test result" "$LOG.suite" | sed -E 's/.* ([0-9]+) passed.*/\1/' | paste -sd+ | bc)
FAILED=$(grep -E "^test result" "$LOG.suite" | sed -E 's/.* ([0-9]+) failed.*/\1/' | paste -sd+ | bc)
bash "$M/demo/run.sh" "$WT" >"$LOG.demo1" 2>&1; D1=$?
git checkout -q -- . ; git clean -fdq -e target
echo "CONFIRM $NAME suite_rc=$S passed=$PASSED failed=$FAILED demo_clean_rc=$D0 demo_patched_rc=$D1"
if [ "$S" = 0 ] && [ "$FAILED" = 0 ] && [ "$PASSED" -ge 610 ] && [ "$D0" = 0 ] && [ "$D1" != 0 ]; then
  DST=/verif/seeded/$NAME
  rm -rf "$DST"; mkdir -p "$DST"
  cp "$M/patch.diff" "$DST/"; cp -r "$M/demo" "$DST/demo"
  python3 - "$M/meta.json" "$DST/meta.json" "$PASSED" "$D0" "$D1" <<'PY'
import json, sys
src, dst, passed, d0, d1 = sys.argv[1:]
try:
    m = json.load(open(src))
except Exception as e:
    m = {"note": "agent meta.json unreadable: %s" % e}
m["confirmed_by_lead"] = {
    "where": "scratch git worktree of /repo (removed afterwards)",
    "suite_with_patch": "cargo test --workspace --no-fail-fast --offline: %s passed, 0 failed" % passed,
    "demo_on_clean_tree_rc": int(d0), "demo_with_patch_rc": int(d1)}
json.dump(m, open(dst, "w"), indent=1)
PY
  tail -n 5 "$LOG.demo1" > "$DST/demo/observed_failure_tail.txt"
  echo "KEPT $DST"
else
  echo "REJECTED $NAME (see $LOG.suite $LOG.demo0 $LOG.demo1)"; tail -n 5 "$LOG.demo0" "$LOG.demo1"
  exit 1
fi
rm -f "$LOG" "$LOG".*
