#!/usr/bin/env python3
"""Run checks against a seeded (deliberately broken) variant of /repo.

usage: tools/seeded_run.py <patch.diff | seeded/<name>> <Cxx> [<Cyy> ...] [--thorough] [--in-place] [--keep]

default (isolated) mode: nothing in /repo or /verif is modified.
  * a detached git worktree of /repo's HEAD is created under /tmp/seedrun/<name>/repo and the patch applied there;
  * /verif (with its build caches) is copied to /tmp/seedrun/<name>/verif, the harness' path dependencies are
    rewritten to the patched worktree, and `VERIF_REPO=<worktree> ./check Cxx --quick` runs in the copy;
  * worktree and copy are removed afterwards (unless --keep).
--in-place: the sanctioned sequence  git -C /repo apply <patch>; ./check ...; git -C /repo checkout -- .
  (only when nobody else is building against /repo).
Prints one line per check:  SEEDED <name> <Cxx> rc=<rc> detected=<yes|no> <VIOLATION line if any>
"""
import os
import re
import shutil
import subprocess
import sys
import time

VERIF = os.path.dirname(os.path.dirname(os.path.abspath(__file__)))


def sh(cmd, **kw):
    return subprocess.run(cmd, shell=isinstance(cmd, str), text=True, stdout=subprocess.PIPE,
                          stderr=subprocess.STDOUT, **kw)


def main():
    a = [x for x in sys.argv[1:] if not x.startswith("--")]
    flags = [x for x in sys.argv[1:] if x.startswith("--")]
    if len(a) < 2:
        print(__doc__)
        return 2
    src = a[0]
    patch = os.path.join(src, "patch.diff") if os.path.isdir(src) else src
    patch = os.path.abspath(patch)
    name = os.path.basename(os.path.dirname(patch)) if os.path.basename(patch) == "patch.diff" else \
        os.path.splitext(os.path.basename(patch))[0]
    pids = [p.upper() for p in a[1:]]
    tier = "--thorough" if "--thorough" in flags else "--quick"
    results = []
    if "--in-place" in flags:
        r = sh(["git", "-C", "/repo", "apply", patch])
        if r.returncode != 0:
            print("patch does not apply:", r.stdout)
            return 2
        try:
            for pid in pids:
                t0 = time.time()
                r = sh(["./check", pid, tier], cwd=VERIF)
                results.append((pid, r.returncode, r.stdout, time.time() - t0))
        finally:
            sh(["git", "-C", "/repo", "checkout", "--", "."])
    else:
        base = "/tmp/seedrun/%s" % name
        shutil.rmtree(base, ignore_errors=True)
        os.makedirs(base)
        wt = os.path.join(base, "repo")
        r = sh(["git", "-C", "/repo", "worktree", "add", "--detach", wt, "HEAD"])
        if r.returncode != 0:
            print(r.stdout)
            return 2
        try:
            r = sh(["git", "-C", wt, "apply", patch])
            if r.returncode != 0:
                print("patch does not apply:", r.stdout)
                return 2
            vc = os.path.join(base, "verif")
            sh(["rsync", "-a", "--exclude", ".git", "--exclude", ".cache/work", "--exclude", ".cache/prompts",
                "--exclude", "replays", VERIF + "/", vc + "/"])
            ct = os.path.join(vc, "harness", "Cargo.toml")
            s = open(ct).read().replace('path = "/repo/', 'path = "%s/' % wt)
            open(ct, "w").write(s)
            env = dict(os.environ)
            env["VERIF_REPO"] = wt
            for pid in pids:
                t0 = time.time()
                r = sh(["./check", pid, tier], cwd=vc, env=env)
                results.append((pid, r.returncode, r.stdout, time.time() - t0))
                rp = os.path.join(vc, "replays")
                if os.path.isdir(rp):
                    dst = os.path.join("/tmp/seedrun", "replays-" + name)
                    shutil.rmtree(dst, ignore_errors=True)
                    shutil.copytree(rp, dst)
        finally:
            if "--keep" not in flags:
                sh(["git", "-C", "/repo", "worktree", "remove", "--force", wt])
                shutil.rmtree(base, ignore_errors=True)
    allrc = 0
    rec = {}
    for pid, rc, out, dt in results:
        v = [l for l in out.splitlines() if l.startswith("VIOLATION")]
        det = rc != 0 and bool(v)
        print("SEEDED %s %s rc=%d detected=%s wall=%.0fs %s" % (name, pid, rc, "yes" if det else "no", dt, v[0] if v else ""))
        first = next((l.strip() for l in out.splitlines() if l.startswith("  ")), "")
        rec[pid] = {"tier": tier[2:], "rc": rc, "detected": det, "violation_line": v[0] if v else None,
                    "first_report": first[:400], "mode": "in-place" if "--in-place" in flags else "isolated copy"}
        if not det:
            allrc = 1
            print("   tail:", " | ".join(out.splitlines()[-4:])[:600])
        else:
            for l in out.splitlines():
                if l.startswith("   ") or l.startswith("  "):
                    print("   " + l.strip()[:300])
                    break
    meta = os.path.join(os.path.dirname(patch), "meta.json")
    if "--record" in flags and os.path.exists(meta) and os.path.dirname(patch).startswith(os.path.join(VERIF, "seeded")):
        import json
        m = json.load(open(meta))
        m.setdefault("detection", {}).update(rec)
        json.dump(m, open(meta, "w"), indent=1)
    return allrc


if __name__ == "__main__":
    sys.exit(main())
