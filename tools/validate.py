#!/usr/bin/env python3
"""Validate MANIFEST.json and evidence/*.json against the schemas in /root/.vp (run with python3-vt if the
default python3 has no jsonschema)."""
import glob, json, os, sys
import jsonschema
root = os.path.dirname(os.path.dirname(os.path.abspath(__file__)))
bad = 0
ms = json.load(open("/root/.vp/MANIFEST.schema.json"))
es = json.load(open("/root/.vp/EVIDENCE.schema.json"))
m = json.load(open(os.path.join(root, "MANIFEST.json")))
try:
    jsonschema.validate(m, ms); print("MANIFEST ok: %d checks, %d not_applicable" % (len(m["checks"]), len(m.get("not_applicable", []))))
except jsonschema.ValidationError as e:
    bad += 1; print("MANIFEST INVALID:", e.message)
level = {c["property_id"]: c["level_claimed"]["category"] for c in m["checks"]}
for c in m["checks"]:
    f = os.path.join(root, c["evidence_file"])
    if not os.path.exists(f):
        bad += 1; print(c["property_id"], "evidence missing"); continue
    e = json.load(open(f))
    try:
        jsonschema.validate(e, es)
        note = "" if e["level"] == level[c["property_id"]] else " (LEVEL MISMATCH manifest=%s)" % level[c["property_id"]]
        if note: bad += 1
        print(c["property_id"], "evidence ok", e["tier"], e["level"], "viol=%s" % e.get("violations"), note)
    except jsonschema.ValidationError as ex:
        bad += 1; print(c["property_id"], "evidence INVALID:", ex.message[:300])
sys.exit(1 if bad else 0)
