#!/usr/bin/env python3
"""Dependency-aware full (.vo) build of the Coq development with plain coqc.

usage: build.py [-j N] [--timeout S] [--force] [target.vo ...]     (default: every .v under this dir)

* dependencies come from `coqdep -Q . Yui`;
* a file is recompiled when its .vo is missing, older than its .v, or older than a dependency's .vo;
* each compilation holds an flock on <file>.lock so that concurrent invocations never write the same .vo;
* coqc's stdout/stderr (this is where `Print Assumptions` output goes) is kept in .logs/<path>.out and
  survives cached runs; a failed compilation removes the .vo and leaves .logs/<path>.err;
* exit status 0 iff every requested target is up to date at the end.
Writes _CoqProject (for coqchk / editors) as a side effect.
"""
import sys, os, subprocess, re, fcntl, time, argparse
from concurrent.futures import ThreadPoolExecutor, wait, FIRST_COMPLETED

ROOT = os.path.dirname(os.path.abspath(__file__))
LOGS = os.path.join(ROOT, ".logs")
QARGS = ["-Q", ".", "Yui"]


def all_v():
    out = []
    for d, _, fs in os.walk(ROOT):
        if "/." in d[len(ROOT):]:
            continue
        for f in fs:
            if f.endswith(".v") and not f.startswith("."):
                out.append(os.path.relpath(os.path.join(d, f), ROOT))
    return sorted(out)


def deps(vfiles):
    p = subprocess.run(["coqdep"] + QARGS + vfiles, cwd=ROOT, capture_output=True, text=True)
    g = {}
    for line in p.stdout.splitlines():
        if ":" not in line:
            continue
        lhs, rhs = line.split(":", 1)
        tg = [t for t in lhs.split() if t.endswith(".vo")]
        if not tg:
            continue
        vo = os.path.normpath(tg[0])
        ds = [os.path.normpath(x) for x in rhs.split() if x.endswith(".vo")]
        g[vo] = [d for d in ds if not os.path.isabs(d) and not d.startswith("..")]
    return g, p.stderr


def mtime(p):
    try:
        return os.stat(os.path.join(ROOT, p)).st_mtime_ns
    except OSError:
        return None


def logpath(vo, ext):
    return os.path.join(LOGS, vo[:-3].replace("/", ".") + ext)


def stale(vo, g):
    mv = mtime(vo)
    if mv is None:
        return True
    ms = mtime(vo[:-1])
    if ms is None or ms > mv:
        return True
    for d in g.get(vo, []):
        md = mtime(d)
        if md is None or md > mv:
            return True
    return False


def compile_one(vo, g, timeout):
    v = vo[:-1]
    os.makedirs(LOGS, exist_ok=True)
    lock = open(os.path.join(LOGS, vo.replace("/", ".") + ".lock"), "w")
    fcntl.flock(lock, fcntl.LOCK_EX)
    try:
        if not stale(vo, g):
            return True, 0.0
        t0 = time.time()
        try:
            p = subprocess.run(["coqc", "-q"] + QARGS + [v], cwd=ROOT, capture_output=True, text=True,
                               timeout=timeout)
            rc, out, err = p.returncode, p.stdout, p.stderr
        except subprocess.TimeoutExpired as e:
            rc, out, err = 124, (e.stdout or b"").decode() if isinstance(e.stdout, bytes) else (e.stdout or ""), "TIMEOUT after %ss" % timeout
        dt = time.time() - t0
        if rc == 0:
            open(logpath(vo, ".out"), "w").write(out + err)
            try:
                os.remove(logpath(vo, ".err"))
            except OSError:
                pass
            return True, dt
        for ext in (".vo", ".vok", ".vos", ".glob"):
            try:
                os.remove(os.path.join(ROOT, v[:-2] + ext))
            except OSError:
                pass
        open(logpath(vo, ".err"), "w").write(out + "\n" + err)
        try:
            os.remove(logpath(vo, ".out"))
        except OSError:
            pass
        return False, dt
    finally:
        fcntl.flock(lock, fcntl.LOCK_UN)
        lock.close()


def main():
    ap = argparse.ArgumentParser()
    ap.add_argument("-j", type=int, default=16)
    ap.add_argument("--timeout", type=int, default=1500)
    ap.add_argument("--quiet", action="store_true")
    ap.add_argument("--keep-going", "-k", action="store_true")
    ap.add_argument("targets", nargs="*")
    a = ap.parse_args()
    vs = all_v()
    with open(os.path.join(ROOT, "_CoqProject.tmp%d" % os.getpid()), "w") as f:
        f.write("-Q . Yui\n" + "\n".join(vs) + "\n")
    os.replace(os.path.join(ROOT, "_CoqProject.tmp%d" % os.getpid()), os.path.join(ROOT, "_CoqProject"))
    g, warn = deps(vs)
    targets = [os.path.normpath(t) for t in a.targets] or sorted(g)
    for t in targets:
        if t not in g:
            print("build.py: unknown target", t)
            return 2
    need = set()
    st = list(targets)
    while st:
        x = st.pop()
        if x in need:
            continue
        need.add(x)
        st.extend(g.get(x, []))
    done, failed, running = set(), set(), {}
    ok = True
    with ThreadPoolExecutor(max_workers=a.j) as ex:
        while True:
            for vo in sorted(need - done - failed - set(running.values())):
                ds = g.get(vo, [])
                if any(d in failed for d in ds):
                    failed.add(vo)
                    if not a.quiet:
                        print("SKIP  %s (dependency failed)" % vo)
                    continue
                if all(d in done for d in ds):
                    running[ex.submit(compile_one, vo, g, a.timeout)] = vo
            if not running:
                break
            fin, _ = wait(list(running), return_when=FIRST_COMPLETED)
            for f in fin:
                vo = running.pop(f)
                good, dt = f.result()
                if good:
                    done.add(vo)
                    if dt > 0 and not a.quiet:
                        print("COQC  %s (%.1fs)" % (vo, dt))
                else:
                    failed.add(vo)
                    ok = False
                    print("FAIL  %s (%.1fs) -- see %s" % (vo, dt, logpath(vo, ".err")))
                    try:
                        print("".join(open(logpath(vo, ".err")).readlines()[-25:]))
                    except OSError:
                        pass
    bad = [t for t in targets if t in failed or t not in done]
    return 0 if not bad else 1


if __name__ == "__main__":
    sys.exit(main())
