(* C10: the elementary steps of LLLData (add_row_to, swap, mul_row) are left multiplications by explicit
   elementary matrices whose mirrored update of P^-1 is right multiplication by the inverse
   (DESIGN.md appendix A.3).  Entry lemmas of the tabulated matrix operations of Model/Lll.v. *)
From Coq Require Import ZArith List Bool Arith Lia Ring.
Require Import Yui.Base.Ring Yui.Base.MatF Yui.Base.MatL Yui.Model.Lll Yui.Proofs.C10Laws.
Import ListNotations.

(* ---------- option folds ---------- *)
Lemma ofold_nil {S} (f : S -> nat -> option S) s : ofold f [] s = Some s.
Proof. reflexivity. Qed.

Lemma ofold_none {S} (f : S -> nat -> option S) l :
  fold_left (fun acc i => do x <- acc; f x i) l None = None.
Proof. induction l as [|i l IH]; cbn; [reflexivity|exact IH]. Qed.

Lemma ofold_cons {S} (f : S -> nat -> option S) i l s :
  ofold f (i :: l) s = do x <- f s i; ofold f l x.
Proof.
  unfold ofold. cbn [fold_left obind]. destruct (f s i) as [x|]; cbn [obind]; [reflexivity|apply ofold_none].
Qed.

Lemma ofold_app {S} (f : S -> nat -> option S) l1 l2 s :
  ofold f (l1 ++ l2) s = do x <- ofold f l1 s; ofold f l2 x.
Proof.
  revert s. induction l1 as [|i l1 IH]; intros s; [reflexivity|].
  cbn [app]. rewrite !ofold_cons. destruct (f s i) as [x|]; cbn [obind]; [apply IH|reflexivity].
Qed.

Lemma ofold_inv {S} (f : S -> nat -> option S) (P : S -> Prop) (Q : nat -> Prop) l :
  (forall x i x', Q i -> P x -> f x i = Some x' -> P x') ->
  (forall i, In i l -> Q i) ->
  forall s s', P s -> ofold f l s = Some s' -> P s'.
Proof.
  intros Hf. induction l as [|i l IH]; intros HQ s s' Hs H.
  - cbn in H. injection H as <-. exact Hs.
  - rewrite ofold_cons in H. destruct (f s i) as [x|] eqn:E; cbn [obind] in H; [|discriminate].
    apply (IH (fun j Hj => HQ j (or_intror Hj)) x s'); [|exact H].
    apply (Hf s i x); [apply HQ; now left|exact Hs|exact E].
Qed.

Section Ops.
  Context {R : Type} (L : lll_ring R) (LW : lll_laws L).
  Local Notation o := (lops L).
  Local Notation RL := (ll_ring L LW).
  Local Notation fmat := (MatF.mat R).

  Add Ring Rring : (ring_theory_of_laws o RL).

  Local Notation "0" := (rzero o).
  Local Notation "1" := (rone o).
  Local Infix "+" := (radd o).
  Local Infix "*" := (rmul o).
  Local Notation "- x" := (rneg o x).

  Ltac eqb_cases :=
    repeat match goal with
           | |- context [(?x =? ?y)%nat] => destruct (Nat.eqb_spec x y)
           | H : context [(?x =? ?y)%nat] |- _ => destruct (Nat.eqb_spec x y)
           end.

  (* ---------- entry lemmas ---------- *)
  Lemma mget_eq M i j : mget L M i j = lget o M i j.
  Proof. reflexivity. Qed.

  Lemma lget_m_set m n M i j x a b : (a < m)%nat -> (b < n)%nat ->
    lget o (m_set L m n M i j x) a b = if ((a =? i) && (b =? j))%nat then x else lget o M a b.
  Proof. intros Ha Hb. cbv beta zeta delta [m_set]. now rewrite lget_lmk. Qed.

  Lemma lget_m_swap_rows m n M i j a b : (a < m)%nat -> (b < n)%nat ->
    lget o (m_swap_rows L m n M i j) a b = lget o M (if a =? i then j else if a =? j then i else a)%nat b.
  Proof. intros Ha Hb. cbv beta zeta delta [m_swap_rows]. now rewrite lget_lmk. Qed.

  Lemma lget_m_swap_cols m n M i j a b : (a < m)%nat -> (b < n)%nat ->
    lget o (m_swap_cols L m n M i j) a b = lget o M a (if b =? i then j else if b =? j then i else b)%nat.
  Proof. intros Ha Hb. cbv beta zeta delta [m_swap_cols]. now rewrite lget_lmk. Qed.

  Lemma lget_m_mul_row m n M i r a b : (a < m)%nat -> (b < n)%nat ->
    lget o (m_mul_row L m n M i r) a b = if (a =? i)%nat then lget o M a b * r else lget o M a b.
  Proof. intros Ha Hb. cbv beta zeta delta [m_mul_row]. now rewrite lget_lmk. Qed.

  Lemma lget_m_mul_col m n M j r a b : (a < m)%nat -> (b < n)%nat ->
    lget o (m_mul_col L m n M j r) a b = if (b =? j)%nat then lget o M a b * r else lget o M a b.
  Proof. intros Ha Hb. cbv beta zeta delta [m_mul_col]. now rewrite lget_lmk. Qed.

  Lemma lget_m_add_row_to m n M i j r a b : (a < m)%nat -> (b < n)%nat ->
    lget o (m_add_row_to L m n M i j r) a b
    = if (a =? j)%nat then lget o M j b + lget o M i b * r else lget o M a b.
  Proof. intros Ha Hb. cbv beta zeta delta [m_add_row_to]. now rewrite lget_lmk. Qed.

  Lemma lget_m_add_col_to m n M i j r a b : (a < m)%nat -> (b < n)%nat ->
    lget o (m_add_col_to L m n M i j r) a b
    = if (b =? j)%nat then lget o M a j + lget o M a i * r else lget o M a b.
  Proof. intros Ha Hb. cbv beta zeta delta [m_add_col_to]. now rewrite lget_lmk. Qed.

  Lemma wf_m_set m n M i j x : wf m n (m_set L m n M i j x).
  Proof. apply wf_lmk. Qed.
  Lemma wf_m_swap_rows m n M i j : wf m n (m_swap_rows L m n M i j).
  Proof. apply wf_lmk. Qed.
  Lemma wf_m_swap_cols m n M i j : wf m n (m_swap_cols L m n M i j).
  Proof. apply wf_lmk. Qed.
  Lemma wf_m_mul_row m n M i r : wf m n (m_mul_row L m n M i r).
  Proof. apply wf_lmk. Qed.
  Lemma wf_m_mul_col m n M i r : wf m n (m_mul_col L m n M i r).
  Proof. apply wf_lmk. Qed.
  Lemma wf_m_add_row_to m n M i j r : wf m n (m_add_row_to L m n M i j r).
  Proof. apply wf_lmk. Qed.
  Lemma wf_m_add_col_to m n M i j r : wf m n (m_add_col_to L m n M i j r).
  Proof. apply wf_lmk. Qed.

  (* vectors *)
  Lemma vget_vset m v i x a : (a < m)%nat -> vget L (vset L m v i x) a = if (a =? i)%nat then x else vget L v a.
  Proof.
    intros Ha. cbv beta zeta delta [vset vmk]. unfold vget at 1.
    rewrite nth_indep with (d' := (fun a => if (a =? i)%nat then x else vget L v a) O)
      by (now rewrite map_length, seq_length).
    rewrite (map_nth (fun a => if (a =? i)%nat then x else vget L v a) (seq 0 m) O a), seq_nth by assumption.
    reflexivity.
  Qed.

  Lemma vset_length m v i x : length (vset L m v i x) = m.
  Proof. cbv beta zeta delta [vset vmk]. now rewrite map_length, seq_length. Qed.

  (* ---------- elementary matrices ---------- *)
  Definition tr (i j a : nat) : nat := if (a =? i)%nat then j else if (a =? j)%nat then i else a.
  Definition e_add (k i : nat) (r : R) : fmat := fun a b =>
    if (a =? b)%nat then 1 else if ((a =? k) && (b =? i))%nat then r else 0.
  Definition e_swap (i j : nat) : fmat := fun a b => if (tr i j a =? b)%nat then 1 else 0.
  Definition e_scal (i : nat) (u : R) : fmat := fun a b =>
    if (a =? b)%nat then (if (a =? i)%nat then u else 1) else 0.

  Lemma tr_invol i j a : tr i j (tr i j a) = a.
  Proof. unfold tr. eqb_cases; lia. Qed.
  Lemma tr_lt i j a m : (i < m -> j < m -> a < m -> tr i j a < m)%nat.
  Proof. unfold tr. intros. eqb_cases; lia. Qed.

  Lemma mmul_e_add_l m k i r (M : fmat) a b : (k < m)%nat -> (i < m)%nat -> i <> k -> (a < m)%nat ->
    mmul o m (e_add k i r) M a b = if (a =? k)%nat then M k b + r * M i b else M a b.
  Proof.
    intros Hk Hi Hik Ha. unfold mmul.
    destruct (Nat.eqb_spec a k) as [->|Hak].
    - rewrite (sum_ext o m _ (fun c => (if (c =? k)%nat then M c b else 0) + (if (c =? i)%nat then r * M c b else 0))).
      + rewrite (sum_add o RL), !(sum_delta o RL) by assumption. reflexivity.
      + intros c Hc. unfold e_add. eqb_cases; subst; cbn [andb]; try lia; ring.
    - rewrite (sum_ext o m _ (fun c => if (c =? a)%nat then M c b else 0)).
      + now rewrite (sum_delta o RL).
      + intros c Hc. unfold e_add. eqb_cases; subst; cbn [andb]; try lia; ring.
  Qed.

  Lemma mmul_e_add_r m k i r (M : fmat) a b : (k < m)%nat -> (i < m)%nat -> i <> k -> (b < m)%nat ->
    mmul o m M (e_add k i r) a b = if (b =? i)%nat then M a i + M a k * r else M a b.
  Proof.
    intros Hk Hi Hik Hb. unfold mmul.
    destruct (Nat.eqb_spec b i) as [->|Hbi].
    - rewrite (sum_ext o m _ (fun c => (if (c =? i)%nat then M a c else 0) + (if (c =? k)%nat then M a c * r else 0))).
      + rewrite (sum_add o RL), !(sum_delta o RL) by assumption. reflexivity.
      + intros c Hc. unfold e_add. eqb_cases; subst; cbn [andb]; try lia; ring.
    - rewrite (sum_ext o m _ (fun c => if (c =? b)%nat then M a c else 0)).
      + now rewrite (sum_delta o RL).
      + intros c Hc. unfold e_add. eqb_cases; subst; cbn [andb]; try lia; ring.
  Qed.

  Lemma mmul_e_swap_l m i j (M : fmat) a b : (i < m)%nat -> (j < m)%nat -> (a < m)%nat ->
    mmul o m (e_swap i j) M a b = M (tr i j a) b.
  Proof.
    intros Hi Hj Ha. unfold mmul.
    rewrite (sum_ext o m _ (fun c => if (c =? tr i j a)%nat then M c b else 0)).
    - rewrite (sum_delta o RL); [reflexivity|now apply tr_lt].
    - intros c Hc. unfold e_swap. rewrite (Nat.eqb_sym c). destruct (_ =? _)%nat; ring.
  Qed.

  Lemma mmul_e_swap_r m i j (M : fmat) a b : (i < m)%nat -> (j < m)%nat -> (b < m)%nat ->
    mmul o m M (e_swap i j) a b = M a (tr i j b).
  Proof.
    intros Hi Hj Hb. unfold mmul.
    rewrite (sum_ext o m _ (fun c => if (c =? tr i j b)%nat then M a c else 0)).
    - rewrite (sum_delta o RL); [reflexivity|now apply tr_lt].
    - intros c Hc. unfold e_swap.
      destruct (Nat.eqb_spec (tr i j c) b) as [E|E]; destruct (Nat.eqb_spec c (tr i j b)) as [E'|E']; try ring.
      + exfalso. apply E'. rewrite <- E. now rewrite tr_invol.
      + exfalso. apply E. rewrite E'. now rewrite tr_invol.
  Qed.

  Lemma mmul_e_scal_l m i u (M : fmat) a b : (a < m)%nat ->
    mmul o m (e_scal i u) M a b = (if (a =? i)%nat then u else 1) * M a b.
  Proof.
    intros Ha. unfold mmul.
    rewrite (sum_ext o m _ (fun c => if (c =? a)%nat then (if (a =? i)%nat then u else 1) * M c b else 0)).
    - now rewrite (sum_delta o RL).
    - intros c Hc. unfold e_scal. rewrite (Nat.eqb_sym c). destruct (a =? c)%nat; ring.
  Qed.

  Lemma mmul_e_scal_r m i u (M : fmat) a b : (b < m)%nat ->
    mmul o m M (e_scal i u) a b = M a b * (if (b =? i)%nat then u else 1).
  Proof.
    intros Hb. unfold mmul.
    rewrite (sum_ext o m _ (fun c => if (c =? b)%nat then M a c * (if (c =? i)%nat then u else 1) else 0)).
    - now rewrite (sum_delta o RL).
    - intros c Hc. unfold e_scal. destruct (c =? b)%nat; ring.
  Qed.

  (* inverses *)
  Lemma e_add_inv m k i r : (k < m)%nat -> (i < m)%nat -> i <> k ->
    meq m m (mmul o m (e_add k i r) (e_add k i (- r))) (mid o).
  Proof.
    intros Hk Hi Hik a b Ha Hb. rewrite mmul_e_add_l by assumption.
    unfold e_add, mid. eqb_cases; subst; cbn [andb]; try lia; ring.
  Qed.

  Lemma e_swap_inv m i j : (i < m)%nat -> (j < m)%nat ->
    meq m m (mmul o m (e_swap i j) (e_swap i j)) (mid o).
  Proof.
    intros Hi Hj a b Ha Hb. rewrite mmul_e_swap_l by assumption.
    unfold e_swap, mid. rewrite tr_invol. reflexivity.
  Qed.

  Lemma e_scal_inv m i u v : u * v = 1 ->
    meq m m (mmul o m (e_scal i u) (e_scal i v)) (mid o).
  Proof.
    intros Huv a b Ha Hb. rewrite mmul_e_scal_l by assumption.
    unfold e_scal, mid. eqb_cases; subst; try lia; try ring. exact Huv.
  Qed.

  (* ---------- the generic step: T = P A, P Q = I = Q P is kept by (E T, E P, Q E') when E E' = I = E' E ---------- *)
  Lemma step_invariant m n (A T P Q T' P' Q' E E' : fmat) :
    meq m n T (mmul o m P A) -> meq m m (mmul o m P Q) (mid o) -> meq m m (mmul o m Q P) (mid o) ->
    meq m m (mmul o m E E') (mid o) -> meq m m (mmul o m E' E) (mid o) ->
    meq m n T' (mmul o m E T) -> meq m m P' (mmul o m E P) -> meq m m Q' (mmul o m Q E') ->
    meq m n T' (mmul o m P' A) /\ meq m m (mmul o m P' Q') (mid o) /\ meq m m (mmul o m Q' P') (mid o).
  Proof.
    intros HT HPQ HQP HE HE' HT' HP' HQ'. repeat split.
    - (* T' = E T = E (P A) = (E P) A = P' A *)
      intros a b Ha Hb. rewrite HT' by assumption.
      rewrite (mmul_ext o m m n E E T (mmul o m P A) (meq_refl m m E) HT a b Ha Hb).
      rewrite <- (mmul_assoc o RL).
      symmetry. apply (mmul_ext o m m n P' (mmul o m E P) A A HP'); [|assumption|assumption].
      intros ? ? _ _. reflexivity.
    - (* P' Q' = (E P)(Q E') = E ((P Q) E') = E E' = I *)
      intros a b Ha Hb.
      rewrite (mmul_ext o m m m P' (mmul o m E P) Q' (mmul o m Q E') HP' HQ' a b Ha Hb).
      rewrite (mmul_assoc o RL).
      rewrite (mmul_ext o m m m E E (mmul o m P (mmul o m Q E')) E' (meq_refl m m E)); [now apply HE| |assumption|assumption].
      intros c d Hc Hd. rewrite <- (mmul_assoc o RL).
      rewrite (mmul_ext o m m m (mmul o m P Q) (mid o) E' E' HPQ (meq_refl m m E') c d Hc Hd).
      now apply (mmul_id_l o RL).
    - (* Q' P' = (Q E')(E P) = Q ((E' E) P) = Q P = I *)
      intros a b Ha Hb.
      rewrite (mmul_ext o m m m Q' (mmul o m Q E') P' (mmul o m E P) HQ' HP' a b Ha Hb).
      rewrite (mmul_assoc o RL).
      rewrite (mmul_ext o m m m Q Q (mmul o m E' (mmul o m E P)) P (meq_refl m m Q)); [now apply HQP| |assumption|assumption].
      intros c d Hc Hd. rewrite <- (mmul_assoc o RL).
      rewrite (mmul_ext o m m m (mmul o m E' E) (mid o) P P HE' (meq_refl m m P) c d Hc Hd).
      now apply (mmul_id_l o RL).
  Qed.

  (* ---------- the invariant on states ---------- *)
  Definition uinv (m n : nat) (A : lmat R) (s : lll_data) : Prop :=
    nr s = m /\ nc s = n /\
    exists P Q, tp s = Some P /\ tpinv s = Some Q /\
      meq m n (lget o (target s)) (mmul o m (lget o P) (lget o A)) /\
      meq m m (mmul o m (lget o P) (lget o Q)) (mid o) /\
      meq m m (mmul o m (lget o Q) (lget o P)) (mid o).

  Lemma uinv_init A : uinv (length A) (lncols A) A (data_new L A (true, true)).
  Proof.
    unfold uinv, data_new. cbn [nr nc tp tpinv target fst snd].
    repeat split. exists (lid o (length A)), (lid o (length A)). repeat split.
    - intros a b Ha Hb. symmetry.
      rewrite (mmul_ext o (length A) (length A) (lncols A) (lget o (lid o (length A))) (mid o) (lget o A) (lget o A));
        [now apply (mmul_id_l o RL)| |apply meq_refl|assumption|assumption].
      intros c d Hc Hd. now apply lget_lid.
    - intros a b Ha Hb.
      rewrite (mmul_ext o (length A) (length A) (length A) _ (mid o) _ (mid o)); [now apply (mmul_id_l o RL)| | |assumption|assumption];
        intros c d Hc Hd; now apply lget_lid.
    - intros a b Ha Hb.
      rewrite (mmul_ext o (length A) (length A) (length A) _ (mid o) _ (mid o)); [now apply (mmul_id_l o RL)| | |assumption|assumption];
        intros c d Hc Hd; now apply lget_lid.
  Qed.

  Lemma add_row_to_uinv m n A s i k r s' :
    uinv m n A s -> add_row_to L s i k r = Some s' -> uinv m n A s'.
  Proof.
    intros (Hm & Hn & P & Q & HP & HQ & HT & HPQ & HQP). cbv beta zeta delta [add_row_to].
    destruct (Nat.ltb_spec i k) as [Hik|]; [|discriminate].
    destruct (Nat.ltb_spec k (nr s)) as [Hk|]; [|discriminate]. cbn [negb orb].
    intros H. injection H as <-. unfold uinv. cbn [nr nc tp tpinv target]. rewrite HP, HQ. cbn [option_map].
    rewrite Hm, Hn in *. repeat split.
    eexists. eexists. split; [reflexivity|]. split; [reflexivity|].
    apply (step_invariant m n (lget o A) (lget o (target s)) (lget o P) (lget o Q) _ _ _
             (e_add k i r) (e_add k i (- r)) HT HPQ HQP).
    - apply e_add_inv; lia.
    - replace r with (- - r) at 2 by ring. apply e_add_inv; lia.
    - intros a b Ha Hb. rewrite lget_m_add_row_to, mmul_e_add_l by lia. destruct (a =? k)%nat; ring.
    - intros a b Ha Hb. rewrite lget_m_add_row_to, mmul_e_add_l by lia. destruct (a =? k)%nat; ring.
    - intros a b Ha Hb. rewrite lget_m_add_col_to, mmul_e_add_r by lia. reflexivity.
  Qed.

  Lemma swap_rows_uinv m n A (s s' : lll_data) i j P Q :
    (i < m)%nat -> (j < m)%nat ->
    uinv m n A s -> tp s = Some P -> tpinv s = Some Q ->
    nr s' = m -> nc s' = n ->
    target s' = m_swap_rows L m n (target s) i j ->
    tp s' = Some (m_swap_rows L m m P i j) ->
    tpinv s' = Some (m_swap_cols L m m Q i j) ->
    uinv m n A s'.
  Proof.
    intros Hi Hj (Hm & Hn & P0 & Q0 & HP & HQ & HT & HPQ & HQP) HP' HQ' Hm' Hn' Ht' Hp' Hq'.
    rewrite HP in HP'. injection HP' as ->. rewrite HQ in HQ'. injection HQ' as ->.
    unfold uinv. repeat split; try assumption.
    eexists. eexists. split; [exact Hp'|]. split; [exact Hq'|]. rewrite Ht'.
    apply (step_invariant m n (lget o A) (lget o (target s)) (lget o P) (lget o Q) _ _ _
             (e_swap i j) (e_swap i j) HT HPQ HQP).
    - now apply e_swap_inv.
    - now apply e_swap_inv.
    - intros a b Ha Hb. rewrite lget_m_swap_rows, mmul_e_swap_l by lia. reflexivity.
    - intros a b Ha Hb. rewrite lget_m_swap_rows, mmul_e_swap_l by lia. reflexivity.
    - intros a b Ha Hb. rewrite lget_m_swap_cols, mmul_e_swap_r by lia. reflexivity.
  Qed.

  Lemma swap_uinv m n A s k s' : uinv m n A s -> swap L s k = Some s' -> uinv m n A s'.
  Proof.
    intros HU. pose proof HU as (Hm & Hn & P & Q & HP & HQ & _). cbv beta zeta delta [swap].
    destruct (Nat.eqb_spec k 0) as [|Hk0]; [discriminate|].
    destruct (Nat.ltb_spec k (nr s)) as [Hk|]; [|discriminate]. cbn [negb orb].
    destruct (ofold _ _ _) as [l2|]; [|discriminate]. cbn [obind].
    destruct (ldiv L _ _) as [dk|]; [|discriminate]. cbn [obind].
    intros H. injection H as <-.
    apply (swap_rows_uinv m n A s _ (k - 1) k P Q); cbn [nr nc target tp tpinv]; try assumption; try lia.
    - now rewrite Hm, Hn.
    - now rewrite HP, Hm.
    - now rewrite HQ, Hm.
  Qed.

  Lemma mul_row_uinv m n A s i u s' : uinv m n A s -> mul_row L s i u = Some s' -> uinv m n A s'.
  Proof.
    intros (Hm & Hn & P & Q & HP & HQ & HT & HPQ & HQP). cbv beta zeta delta [mul_row].
    destruct (lis_unit L u) eqn:Hu; [|discriminate].
    destruct (Nat.ltb_spec i (nr s)) as [Hi|]; [|discriminate]. cbn [negb orb].
    rewrite HQ. destruct (linv L u) as [v|] eqn:Hv; [|discriminate]. cbn [obind].
    intros H. injection H as <-. unfold uinv. cbn [nr nc tp tpinv target]. rewrite HP. cbn [option_map].
    rewrite Hm, Hn in *. repeat split.
    eexists. eexists. split; [reflexivity|]. split; [reflexivity|].
    pose proof (ll_inv_mul L LW u v Hv) as Huv.
    apply (step_invariant m n (lget o A) (lget o (target s)) (lget o P) (lget o Q) _ _ _
             (e_scal i u) (e_scal i v) HT HPQ HQP).
    - now apply e_scal_inv.
    - apply e_scal_inv. rewrite (rmul_comm o RL). exact Huv.
    - intros a b Ha Hb. rewrite lget_m_mul_row, mmul_e_scal_l by lia. destruct (a =? i)%nat; ring.
    - intros a b Ha Hb. rewrite lget_m_mul_row, mmul_e_scal_l by lia. destruct (a =? i)%nat; ring.
    - intros a b Ha Hb. rewrite lget_m_mul_col, mmul_e_scal_r by lia. destruct (b =? i)%nat; ring.
  Qed.

  (* changes of det / lambda / step only *)
  Lemma uinv_same m n A (s s' : lll_data) :
    uinv m n A s -> nr s' = nr s -> nc s' = nc s -> target s' = target s -> tp s' = tp s -> tpinv s' = tpinv s ->
    uinv m n A s'.
  Proof. unfold uinv. intros H -> -> -> -> ->. exact H. Qed.
End Ops.
