(* C09 - the SNF contract that property C07 takes as a premise ([snf_contract] of Proofs/C07Calc.v) holds
   for the mirror of snf.rs: for the adapter between the dense-matrix records of Model/HomologyCalc.v and
   Model/Snf.v that C07's executable model uses (Extract/ExtractC07.v, [snf_of_dict]; the definition is
   repeated here verbatim as [snf_adapter] so that this file does not depend on an extraction file),
   every dictionary with [snf_laws] and [pre_ok].  The contract is of the form "whenever the routine
   returns Some" - exactly what [snf_total_partial] provides. *)
From Coq Require Import ZArith List Bool Arith Lia Ring.
Require Import Yui.Base.Ring Yui.Base.MatF Yui.Base.MatL.
Require Yui.Model.Snf Yui.Model.HomologyCalc.
Require Import Yui.Proofs.C09Mat Yui.Proofs.C09Inv Yui.Proofs.C09Run Yui.Proofs.C09Total Yui.Proofs.C09Laws.
Require Import Yui.Proofs.C07Algebra Yui.Proofs.C07Calc.
Import ListNotations.

Module H := Yui.Model.HomologyCalc.
Module SN := Yui.Model.Snf.

Definition to_snf_mat {R} (A : H.dmat R) : SN.dmat R := SN.mk_dmat (H.nr A) (H.nc A) (H.ent A).
Definition of_snf_mat {R} (A : SN.dmat R) : H.dmat R := H.mkm (SN.dm_m A) (SN.dm_n A) (SN.dm_rows A).

Definition snf_adapter {R} (D : SN.euc_dict R) (A : H.dmat R) (fp fpi fq fqi : bool) : option (H.snf_result R) :=
  match SN.snf D (to_snf_mat A) (fp, fpi, fq, fqi) with
  | None => None
  | Some r => Some (H.mk_snf (of_snf_mat (SN.sr_d r))
                           (option_map of_snf_mat (SN.sr_p r)) (option_map of_snf_mat (SN.sr_pinv r))
                           (option_map of_snf_mat (SN.sr_q r)) (option_map of_snf_mat (SN.sr_qinv r)))
  end.

Section Contract.
  Context {R : Type} (D : SN.euc_dict R) (SL : snf_laws D) (Hpre : pre_ok D).
  Let o := SN.ed_ring D.
  Let L : ring_laws o := sl_ring D SL.
  Add Ring Rring : (ring_theory_of_laws o L).
  Local Notation get := (lget o).

  Lemma out_shape k b x (X : lmat R) :
    out_is k b x X -> opt_shape b (option_map of_snf_mat x) k.
  Proof.
    unfold out_is, opt_shape. intros ->. destruct b; cbn [option_map]; [|reflexivity].
    eexists. split; [reflexivity|]. split; reflexivity.
  Qed.

  Lemma out_agrees k b x (X : lmat R) :
    out_is k b x X -> opt_agrees o k (option_map of_snf_mat x) (get X).
  Proof.
    unfold out_is, opt_agrees. intros -> M. destruct b; cbn [option_map]; [|discriminate].
    intros E. injection E as <-. intros i j _ _. reflexivity.
  Qed.

  Theorem snf_adapter_contract : snf_contract o (snf_adapter D).
  Proof.
    intros A fp fpi fq fqi s W H. unfold snf_adapter in H.
    destruct (SN.snf D (to_snf_mat A) (fp, fpi, fq, fqi)) as [r|] eqn:E; [|discriminate].
    injection H as <-.
    change (SN.snf D (to_snf_mat A) (fp, fpi, fq, fqi))
      with (SN.snf_with (SN.default_fuel D) D (SN.mk_dmat (H.nr A) (H.nc A) (H.ent A)) (fp, fpi, fq, fqi)) in E.
    apply (snf_total_partial D SL Hpre) in E; [|exact W].
    destruct E as (T & P & Pi & Q & Qi & ET & WT & WP & WPi & WQ & WQi & O1 & O2 & O3 & O4 & HT & H1 & H2 & H3 & H4
                   & HX & HZ).
    cbv zeta in HX. destruct HX as (Hr & Hoff & Hnz & Hz & _ & Hch).
    set (rk := SN.snf_rank D r) in *.
    unfold snf_ok. cbv zeta. cbn [H.sr_d H.sr_p H.sr_pinv H.sr_q H.sr_qinv].
    assert (ED : of_snf_mat (SN.sr_d r) = H.mkm (H.nr A) (H.nc A) T) by (rewrite ET; reflexivity).
    rewrite ED. unfold H.mget. cbn [H.nr H.nc H.ent].
    split; [reflexivity|]. split; [reflexivity|].
    split; [exact (out_shape _ _ _ _ O1)|]. split; [exact (out_shape _ _ _ _ O2)|].
    split; [exact (out_shape _ _ _ _ O3)|]. split; [exact (out_shape _ _ _ _ O4)|].
    exists (get P), (get Pi), (get Q), (get Qi).
    split; [exact (out_agrees _ _ _ _ O1)|]. split; [exact (out_agrees _ _ _ _ O2)|].
    split; [exact (out_agrees _ _ _ _ O3)|]. split; [exact (out_agrees _ _ _ _ O4)|].
    split; [exact HT|]. split; [split; assumption|]. split; [split; assumption|].
    split; [exact Hoff|].
    split; [|split].
    - intros i j Hij Hj Hi0.
      destruct (Nat.lt_ge_cases i rk) as [Hlt|Hge]; [exfalso; now apply (Hnz i)|].
      apply Hz; lia.
    - intros i Hi.
      destruct (Nat.lt_ge_cases (S i) rk) as [Hlt|Hge].
      + destruct (Hch i Hlt) as [q Hq]. exists q. etransitivity; [exact Hq|]. fold o. ring.
      + exists (rzero o). etransitivity; [apply (Hz (S i)); lia|]. fold o. ring.
    - intros HA. destruct (HZ HA) as (-> & -> & -> & ->).
      repeat split; intros i j Hi Hj; now apply get_id.
  Qed.
End Contract.

(* closed instance: the integers without preprocessing *)
Corollary Z_snf_contract : snf_contract Z_ring (snf_adapter SN.Z_dict).
Proof. exact (snf_adapter_contract SN.Z_dict Z_snf_laws I). Qed.
