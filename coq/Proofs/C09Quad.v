(* C09 - Z[i] and Z[omega]: the Euclidean function N(x) = |x * conj x| satisfies [norm_laws], and the generic
   EucRing::gcdx terminates within the model's fuel 3*log2 N(x) + 3*log2 N(y) + 6 ([gcdx_total]):
   the remainder x - y*round(x/y) has 4*N(r) <= 3*N(y)  (2*N(r) <= N(y) for Z[i]), because rounding to the
   nearest integer leaves an error of at most 1/2 in every coordinate, so N(y)^3 at least halves per step. *)
From Coq Require Import ZArith NArith List Bool Arith Lia Ring.
Require Import Yui.Base.Ring Yui.Base.MatF Yui.Base.MatL Yui.Model.Snf Yui.Proofs.C09Inv Yui.Proofs.C09Run
  Yui.Proofs.C09Laws Yui.Proofs.C09Term Yui.Proofs.C09Total Yui.Proofs.C09Elim.
Import ListNotations.
Local Open Scope Z_scope.

(* Integer::div_round: the error is at most half the divisor *)
Lemma Z_div_round_bound a q : q <> 0 -> 2 * Z.abs (a - q * Z_div_round a q) <= Z.abs q.
Proof.
  intros Hq. unfold Z_div_round.
  pose proof (Z.quot_rem' a q) as E. pose proof (Z.rem_bound_abs a q Hq) as B.
  set (d := Z.quot a q) in *. set (r := Z.rem a q) in *.
  destruct (Z.eqb_spec r 0) as [R0|R0].
  - replace (a - q * d) with 0 by lia. lia.
  - pose proof (Z.rem_sign_nz a q Hq R0) as Sg. fold r in Sg.
    assert (Ha : a <> 0). { intros ->. unfold r in R0. now rewrite Z.rem_0_l in R0 by exact Hq. }
    destruct (Z.ltb_spec 0 r); destruct (Z.ltb_spec 0 q);
      match goal with |- context [?x <=? ?y] => destruct (Z.leb_spec x y) end;
      destruct (Z.ltb_spec a 0); destruct (Z.ltb_spec q 0); cbn [Bool.eqb]; try lia;
      try (exfalso; destruct a; cbn in Sg; lia).
Qed.

Lemma log2_half' a b : 0 < a -> 2 * a <= b -> Z.log2 a + 1 <= Z.log2 b.
Proof.
  intros Ha H. pose proof (Z.log2_double a Ha) as E.
  assert (Z.log2 (2 * a) <= Z.log2 b) by (apply Z.log2_le_mono; lia). lia.
Qed.

(* log2 (N^3) <= 3 log2 N + 2 *)
Lemma log2_cube N : 0 < N -> Z.log2 (N * N * N) <= 3 * Z.log2 N + 2.
Proof.
  intros HN. pose proof (Z.log2_spec N HN) as [_ Hu]. pose proof (Z.log2_nonneg N) as L0.
  set (l := Z.log2 N) in *.
  assert (H3 : N * N * N < 2 ^ (3 * l + 3)).
  { replace (3 * l + 3) with (Z.succ l + Z.succ l + Z.succ l) by lia.
    rewrite !Z.pow_add_r by lia. set (P := 2 ^ Z.succ l) in *.
    assert (0 < P) by (unfold P; apply Z.pow_pos_nonneg; lia).
    fold P in Hu.
    assert (N * N < P * P) by (apply Z.mul_lt_mono_nonneg; lia).
    apply Z.mul_lt_mono_nonneg; nia. }
  assert (0 < N * N * N) by nia.
  apply Z.log2_lt_pow2 in H3; lia.
Qed.

Section QuadTerm.
  Variables t e : Z.
  Variable eisen : bool.
  Local Notation N := (q_norm t e).
  Local Notation qmul := (q_mul t e).

  Hypothesis norm_nonneg : forall x, 0 <= N x.
  Hypothesis norm_zero : forall x, N x = 0 -> x = (0, 0).
  Hypothesis norm_conj : forall x, N (q_conj t x) = N x.
  (* the rounding bound *)
  Hypothesis rem_small : forall x y, y <> (0, 0) -> 4 * N (q_rem t e eisen x y) <= 3 * N y.
  Hypothesis nunit_inv : forall a, exists v, q_inv t e (q_nunit eisen a) = Some v.

  Let o := q_ring t e.
  Let eo := q_euc t e eisen.

  Lemma norm_pos x : x <> (0, 0) -> 0 < N x.
  Proof. intros Hx. pose proof (norm_nonneg x). assert (N x <> 0) by (intros E; now apply Hx, norm_zero). lia. Qed.

  Definition cube (x : quad) : Z := N x * N x * N x.

  Lemma cube_step x y : y <> (0, 0) -> q_rem t e eisen x y <> (0, 0) ->
    Z.log2 (cube (q_rem t e eisen x y)) + 1 <= Z.log2 (cube y).
  Proof.
    intros Hy Hr. pose proof (rem_small x y Hy) as H. pose proof (norm_pos _ Hr) as P1. pose proof (norm_pos _ Hy) as P2.
    unfold cube. set (a := N (q_rem t e eisen x y)) in *. set (b := N y) in *.
    apply log2_half'; [nia|].
    (* 64 a^3 <= 27 b^3 *)
    assert (H2 : 16 * (a * a) <= 9 * (b * b)) by nia.
    assert (H3 : 64 * (a * a * a) <= 27 * (b * b * b)) by nia.
    nia.
  Qed.

  Lemma qz_true a : ris_zero o a = true <-> a = (0, 0).
  Proof. unfold ris_zero. apply (reqb_eq o (q_ring_laws t e)). Qed.
  Lemma qz_false a : ris_zero o a = false <-> a <> (0, 0).
  Proof. unfold ris_zero. apply (reqb_false o (q_ring_laws t e)). Qed.

  Lemma gcdx_loop_total fuel : forall x y s0 s1 t0 t1,
    (y = (0, 0) /\ (1 <= fuel)%nat) \/ (y <> (0, 0) /\ (Z.to_nat (Z.log2 (cube y)) + 2 <= fuel)%nat) ->
    exists res, gcdx_loop o eo fuel x y s0 s1 t0 t1 = Some res.
  Proof.
    induction fuel as [|f IH]; intros x y s0 s1 t0 t1 Hf; [destruct Hf as [[_ H]|[_ H]]; lia|].
    cbn [gcdx_loop]. destruct (ris_zero o y) eqn:Z; [eexists; reflexivity|].
    apply qz_false in Z. destruct Hf as [[Hy _]|[_ Hf]]; [contradiction|]. cbv zeta.
    apply IH. cbn [eo q_euc rrem].
    destruct (q_eqb (q_rem t e eisen x y) (0, 0)) eqn:Er.
    - left. split; [|lia]. apply (reqb_eq o (q_ring_laws t e)). exact Er.
    - right. assert (Hr : q_rem t e eisen x y <> (0, 0)) by (apply (reqb_false o (q_ring_laws t e)); exact Er).
      split; [exact Hr|]. pose proof (cube_step x y Z Hr) as H.
      assert (0 <= Z.log2 (cube (q_rem t e eisen x y))) by apply Z.log2_nonneg. lia.
  Qed.

  Lemma q_gcdx_total x y : exists res, q_gcdx t e eisen x y = Some res.
  Proof.
    unfold q_gcdx, generic_gcdx. fold o. fold eo.
    destruct (ris_zero o x && ris_zero o y); [eexists; reflexivity|].
    destruct (divides o eo x y); [eexists; reflexivity|].
    destruct (divides o eo y x) eqn:D2; [eexists; reflexivity|].
    destruct (gcdx_loop_total (q_gcdx_fuel t e x y) x y (rone o) (rzero o) (rzero o) (rone o)) as [[[d s] t'] E].
    - destruct (q_eqb y (0, 0)) eqn:Ey.
      + left. split; [apply (reqb_eq o (q_ring_laws t e)); exact Ey|]. unfold q_gcdx_fuel. lia.
      + right. assert (Hy' : y <> (0, 0)) by (apply (reqb_false o (q_ring_laws t e)); exact Ey).
        split; [exact Hy'|]. unfold q_gcdx_fuel, cube.
        pose proof (norm_pos y Hy') as P. pose proof (log2_cube (N y) P) as H.
        pose proof (Z.log2_nonneg (N x)). pose proof (Z.log2_nonneg (N y)).
        pose proof (Z.log2_nonneg (N y * N y * N y)). lia.
    - rewrite E. destruct (ris_one o (rnunit (q_units t e eisen) d)); eexists; reflexivity.
  Qed.
End QuadTerm.

(* ---------- norm_laws for a quadratic dictionary ---------- *)
Section QuadNorm.
  Variables t e : Z.
  Variable eisen : bool.
  Variable pre : option (preproc quad).
  Local Notation N := (q_norm t e).
  Hypothesis norm_nonneg : forall x, 0 <= N x.
  Hypothesis norm_zero : forall x, N x = 0 -> x = (0, 0).

  Lemma quad_norm_laws : norm_laws (quad_dict t e eisen pre).
  Proof.
    constructor; cbn [quad_dict ed_ring ed_euc ed_unit q_euc q_units q_ring rnorm rrem rinv rmul rzero rone].
    - intros a Ha. pose proof (norm_pos t e norm_nonneg norm_zero a Ha) as P.
      apply N2Z.inj_le. rewrite N2Z.inj_abs_N. cbn. lia.
    - intros q d Hd Hq Hu. rewrite q_norm_mul, Zabs2N.inj_mul.
      pose proof (norm_pos t e norm_nonneg norm_zero q Hq) as Pq.
      assert (H1 : N q <> 1).
      { intros E1. destruct (q_inv t e q) as [qi|] eqn:I.
        - apply (Hu qi). now apply q_inv_spec.
        - unfold q_inv in I. rewrite E1 in I. cbn in I. discriminate. }
      assert (2 <= Z.abs_N (N q))%N by (apply N2Z.inj_le; rewrite N2Z.inj_abs_N; cbn; lia).
      nia.
    - intros q b Hb. unfold q_rem. rewrite (q_div_exact t e eisen norm_zero q b Hb).
      apply quad_eq; unfold q_add, q_neg, q_mul; cbn [fst snd]; ring.
    - intros a z Haz. unfold q_inv.
      assert (E : N a * N z = 1).
      { rewrite <- q_norm_mul, Haz. unfold q_norm. cbn [fst snd]. ring. }
      assert (U : Z_is_unit (N a) = true).
      { apply Z_is_unit_iff. destruct (Z.mul_eq_1 _ _ E) as [-> | ->]; [now left|now right]. }
      rewrite U. eexists; reflexivity.
  Qed.
End QuadNorm.

(* ---------- Z[i] ---------- *)
Lemma gauss_norm_nonneg x : 0 <= q_norm 0 (-1) x.
Proof. destruct x as [a b]. unfold q_norm. cbn [fst snd]. nia. Qed.
Lemma eisen_norm_nonneg x : 0 <= q_norm 1 (-1) x.
Proof. destruct x as [a b]. unfold q_norm. cbn [fst snd]. nia. Qed.

Lemma gauss_rem_small x y : y <> (0, 0) -> 4 * q_norm 0 (-1) (q_rem 0 (-1) false x y) <= 3 * q_norm 0 (-1) y.
Proof.
  intros Hy. pose proof (norm_pos 0 (-1) gauss_norm_nonneg gauss_norm_zero y Hy) as P.
  destruct x as [x1 x2], y as [y1 y2]. unfold q_rem, q_div. cbn [fst snd].
  set (nm := q_norm 0 (-1) (y1, y2)) in *.
  set (w := q_mul 0 (-1) (x1, x2) (q_conj 0 (y1, y2))).
  pose proof (Z_div_round_bound (fst w) nm ltac:(lia)) as B1.
  pose proof (Z_div_round_bound (snd w) nm ltac:(lia)) as B2.
  set (q1 := Z_div_round (fst w) nm) in *. set (q2 := Z_div_round (snd w) nm) in *. clearbody q1 q2.
  set (e1 := fst w - nm * q1) in *. set (e2 := snd w - nm * q2) in *.
  assert (Hid : q_norm 0 (-1) (q_add (x1, x2) (q_neg (q_mul 0 (-1) (y1, y2) (q1, q2)))) * nm = e1 * e1 + e2 * e2).
  { unfold e1, e2, w, nm, q_norm, q_add, q_neg, q_mul, q_conj. cbn [fst snd]. ring. }
  set (nr := q_norm 0 (-1) (q_add (x1, x2) (q_neg (q_mul 0 (-1) (y1, y2) (q1, q2))))) in *. clearbody nr e1 e2.
  assert (4 * (e1 * e1) <= nm * nm) by nia. assert (4 * (e2 * e2) <= nm * nm) by nia.
  nia.
Qed.

Lemma eisen_rem_small x y : y <> (0, 0) -> 4 * q_norm 1 (-1) (q_rem 1 (-1) true x y) <= 3 * q_norm 1 (-1) y.
Proof.
  intros Hy. pose proof (norm_pos 1 (-1) eisen_norm_nonneg eisen_norm_zero y Hy) as P.
  destruct x as [x1 x2], y as [y1 y2]. unfold q_rem, q_div. cbn [fst snd].
  set (nm := q_norm 1 (-1) (y1, y2)) in *.
  set (w := q_mul 1 (-1) (x1, x2) (q_conj 1 (y1, y2))).
  pose proof (Z_div_round_bound (fst w + snd w) nm ltac:(lia)) as B1.
  pose proof (Z_div_round_bound (snd w) nm ltac:(lia)) as B2.
  set (q1 := Z_div_round (fst w + snd w) nm) in *. set (q2 := Z_div_round (snd w) nm) in *. clearbody q1 q2.
  set (u := fst w + snd w - nm * q1) in *. set (v := snd w - nm * q2) in *.
  assert (Hid : q_norm 1 (-1) (q_add (x1, x2) (q_neg (q_mul 1 (-1) (y1, y2) (q1 - q2, q2)))) * nm
                = u * u - u * v + v * v).
  { unfold u, v, w, nm, q_norm, q_add, q_neg, q_mul, q_conj. cbn [fst snd]. ring. }
  set (nr := q_norm 1 (-1) (q_add (x1, x2) (q_neg (q_mul 1 (-1) (y1, y2) (q1 - q2, q2))))) in *. clearbody nr u v.
  assert (4 * (u * u) <= nm * nm) by nia. assert (4 * (v * v) <= nm * nm) by nia.
  assert (0 <= (nm + 2 * u) * (nm + 2 * v)) by (apply Z.mul_nonneg_nonneg; lia).
  assert (0 <= (nm - 2 * u) * (nm - 2 * v)) by (apply Z.mul_nonneg_nonneg; lia).
  nia.
Qed.

Lemma gauss_term_laws pre : norm_laws (gausspre_dict pre) /\ gcdx_total (gausspre_dict pre).
Proof.
  split; [apply quad_norm_laws; [exact gauss_norm_nonneg|exact gauss_norm_zero]|].
  intros x y. cbn [gausspre_dict quad_dict ed_gcdx].
  apply (q_gcdx_total 0 (-1) false gauss_norm_nonneg gauss_norm_zero gauss_rem_small).
Qed.

Lemma eisen_term_laws pre : norm_laws (eisenpre_dict pre) /\ gcdx_total (eisenpre_dict pre).
Proof.
  split; [apply quad_norm_laws; [exact eisen_norm_nonneg|exact eisen_norm_zero]|].
  intros x y. cbn [eisenpre_dict quad_dict ed_gcdx].
  apply (q_gcdx_total 1 (-1) true eisen_norm_nonneg eisen_norm_zero eisen_rem_small).
Qed.

(* closed instances: Z[i] and Z[omega] without preprocessing (GaussInt<i32>, EisenInt<i32> in the implementation) *)
Corollary gauss_snf_total : forall m n (A : lmat quad) f1 f2 f3 f4, wf m n A ->
  exists res, snf gauss_dict (mk_dmat m n A) (f1, f2, f3, f4) = Some res /\ snf_spec gauss_dict m n A f1 f2 f3 f4 res.
Proof.
  destruct (gauss_term_laws None) as [NL GT]. exact (snf_total gauss_dict (gauss_snf_laws None) NL GT I I).
Qed.

Corollary eisen_snf_total : forall m n (A : lmat quad) f1 f2 f3 f4, wf m n A ->
  exists res, snf eisen_dict (mk_dmat m n A) (f1, f2, f3, f4) = Some res /\ snf_spec eisen_dict m n A f1 f2 f3 f4 res.
Proof.
  destruct (eisen_term_laws None) as [NL GT]. exact (snf_total eisen_dict (eisen_snf_laws None) NL GT I I).
Qed.
