(* Tangle layer, part 4: connecting two simple arcs that meet at ends only gives a simple arc or a simple circle
   on the union of their labels. *)
From Coq Require Import List Arith Bool Lia Permutation.
Import ListNotations.
Require Import Yui.Model.Link Yui.Model.Tng Yui.Proofs.TngPBase Yui.Proofs.TngPSegs Yui.Proofs.TngPDeg.

Definition lend (l : list nat) (v : nat) : Prop := v = hd 0 l \/ v = last l 0.

Lemma lend_rev : forall l v, lend (rev l) v <-> lend l v.
Proof. intros l v. unfold lend. rewrite hd_rev, last_rev. tauto. Qed.
Lemma hd_in : forall (l : list nat), l <> [] -> In (hd 0 l) l.
Proof. intros [|x l] Hl; [contradiction|left; reflexivity]. Qed.
Lemma last_in : forall (l : list nat), l <> [] -> In (last l 0) l.
Proof.
  intros l Hl. rewrite (split_last l 0 Hl) at 2. apply in_or_app. right. left. reflexivity.
Qed.
Lemma len2_ne : forall (l : list nat), 2 <= length l -> l <> [].
Proof. intros l Hl E. subst. cbn in Hl. lia. Qed.

Section Join.
  Variables x y : list nat.
  Hypothesis Nx : NoDup x.
  Hypothesis Ny : NoDup y.
  Hypothesis Lx : 2 <= length x.
  Hypothesis Ly : 2 <= length y.
  Hypothesis E : last x 0 = hd 0 y.
  Hypothesis Hxy : forall v, In v x -> In v y -> lend x v /\ lend y v.

  Let Hx : x <> [] := len2_ne x Lx.
  Let Hy : y <> [] := len2_ne y Ly.

  Lemma join_in : forall v, In v (join x y) <-> In v x \/ In v y.
  Proof.
    intros v. unfold join. rewrite in_app_iff. split.
    - intros [H1|H1]; [left; apply in_removelast; auto|right; auto].
    - intros [H1|H1]; [|right; auto].
      destruct (in_split_last x v 0 H1) as [H2|H2]; [left; auto|].
      right. rewrite H2, E. apply hd_in; auto.
  Qed.

  Lemma join_hd : hd 0 (join x y) = hd 0 x.
  Proof. unfold join. rewrite hd_app_ne by (apply removelast_ne; auto). apply hd_removelast; auto. Qed.
  Lemma join_last : last (join x y) 0 = last y 0.
  Proof. unfold join. apply last_app_ne; auto. Qed.
  Lemma join_len : 2 <= length (join x y).
  Proof. unfold join. rewrite app_length, removelast_length. lia. Qed.

  Lemma join_disjoint : forall v, In v (removelast x) -> In v y -> v = hd 0 x /\ v = last y 0.
  Proof.
    intros v H1 H2. pose proof (NoDup_last_notin x 0 Nx Hx) as Hl.
    assert (Hv : v <> last x 0) by (intros ->; contradiction).
    destruct (Hxy v (in_removelast _ _ H1) H2) as [[A|A] [B|B]]; try contradiction; auto.
    rewrite <- E in B. contradiction.
  Qed.

  Lemma join_nodup_open : hd 0 x <> last y 0 -> NoDup (join x y).
  Proof.
    intros Hne. unfold join. apply NoDup_app_intro; auto.
    - apply NoDup_removelast; auto.
    - intros v H1 H2. destruct (join_disjoint v H1 H2) as [A B]. apply Hne. congruence.
  Qed.

  Lemma join_closed_eq : removelast (join x y) = removelast x ++ removelast y.
  Proof. unfold join. apply removelast_app_ne; auto. Qed.

  Lemma join_nodup_closed : NoDup (removelast (join x y)).
  Proof.
    rewrite join_closed_eq. apply NoDup_app_intro.
    - apply NoDup_removelast; auto.
    - apply NoDup_removelast; auto.
    - intros v H1 H2. destruct (join_disjoint v H1 (in_removelast _ _ H2)) as [A B].
      apply (NoDup_last_notin y 0 Ny Hy). rewrite <- B. exact H2.
  Qed.

  Lemma join_closed_in : hd 0 x = last y 0 -> forall v, In v (removelast (join x y)) <-> In v x \/ In v y.
  Proof.
    intros Hc v. rewrite join_closed_eq, in_app_iff. split.
    - intros [H1|H1]; [left|right]; apply in_removelast; auto.
    - intros [H1|H1].
      + destruct (in_split_last x v 0 H1) as [H2|H2]; [left; auto|].
        right. rewrite H2, E, <- (hd_removelast y 0 Ly). apply hd_in. apply removelast_ne; auto.
      + destruct (in_split_last y v 0 H1) as [H2|H2]; [right; auto|].
        left. rewrite H2, <- Hc, <- (hd_removelast x 0 Lx). apply hd_in. apply removelast_ne; auto.
  Qed.

  (* the component produced by close_up *)
  Lemma join_close_up :
    let r := close_up (join x y) in
    simple r /\ (forall v, In v (pedges r) <-> In v x \/ In v y) /\
    (pclosed r = false ->
       (forall v, lend (pedges r) v -> lend x v \/ lend y v) /\
       (forall v, lend x v -> ~ In v y -> lend (pedges r) v) /\
       (forall v, lend y v -> ~ In v x -> lend (pedges r) v)) /\
    (pclosed r = true -> (forall v, lend x v -> In v y) /\ (forall v, lend y v -> In v x)).
  Proof.
    cbv zeta. unfold close_up. rewrite join_hd, join_last.
    destruct (hd 0 x =? last y 0) eqn:Ec; cbn [pedges pclosed].
    - apply Nat.eqb_eq in Ec. split; [|split; [|split]].
      + split; cbn [pedges pclosed]; [apply join_nodup_closed|].
        rewrite join_closed_eq. intros Ea. apply app_eq_nil in Ea. destruct Ea as [Ea _].
        apply (removelast_ne x Lx Ea).
      + apply join_closed_in; auto.
      + discriminate.
      + intros _. unfold lend. split.
        * intros v [A|A]; rewrite A; [rewrite Ec; apply last_in; auto|rewrite E; apply hd_in; auto].
        * intros v [A|A]; rewrite A; [rewrite <- E; apply last_in; auto|rewrite <- Ec; apply hd_in; auto].
    - apply Nat.eqb_neq in Ec. split; [|split; [|split]].
      + split; cbn [pedges pclosed]; [apply join_nodup_open; auto|apply join_len].
      + apply join_in.
      + intros _. unfold lend. rewrite join_hd, join_last. repeat split.
        * intros v [A|A]; [left; left; auto|right; right; auto].
        * intros v [A|A] Hn; [left; auto|]. exfalso. apply Hn. rewrite A, E. apply hd_in; auto.
        * intros v [A|A] Hn; [|right; auto]. exfalso. apply Hn. rewrite A, <- E. apply last_in; auto.
      + discriminate.
  Qed.
End Join.

Lemma p_connectable_sym : forall p q, p_connectable p q = p_connectable q p.
Proof.
  intros p q. unfold p_connectable. destruct (p_ends p) as [[e0 e1]|], (p_ends q) as [[f0 f1]|]; auto.
  rewrite (Nat.eqb_sym e0 f0), (Nat.eqb_sym e0 f1), (Nat.eqb_sym e1 f0), (Nat.eqb_sym e1 f1).
  destruct (f0 =? e0), (f1 =? e0), (f0 =? e1), (f1 =? e1); reflexivity.
Qed.

Lemma connectable_shares_end : forall p q, p_connectable p q = true ->
  exists v, is_end p v /\ is_end q v.
Proof.
  intros p q Hc. destruct (connectable_arcs _ _ Hc) as [Hp Hq].
  rewrite connectable_spec in Hc by auto. unfold is_end.
  apply orb_true_iff in Hc. destruct Hc as [Hc|Hc]; [apply orb_true_iff in Hc; destruct Hc as [Hc|Hc];
    [apply orb_true_iff in Hc; destruct Hc as [Hc|Hc]|]|]; apply Nat.eqb_eq in Hc.
  - exists (hd 0 (pedges p)). auto.
  - exists (hd 0 (pedges p)). auto.
  - exists (last (pedges p) 0). auto.
  - exists (last (pedges p) 0). auto.
Qed.

Lemma shares_end_connectable : forall p q v, pclosed p = false -> pclosed q = false ->
  is_end p v -> is_end q v -> p_connectable p q = true.
Proof.
  intros p q v Hp Hq [A|A] [B|B]; rewrite connectable_spec by auto; rewrite <- A, <- B, Nat.eqb_refl;
    repeat rewrite orb_true_r; reflexivity.
Qed.

Theorem connect_simple : forall p q, simple p -> simple q -> p_connectable p q = true ->
  (forall v, In v (pedges p) -> In v (pedges q) -> is_end p v /\ is_end q v) ->
  exists r, p_connect p q = Some r /\ simple r /\
    (forall v, In v (pedges r) <-> In v (pedges p) \/ In v (pedges q)) /\
    (pclosed r = false ->
       (forall v, is_end r v -> is_end p v \/ is_end q v) /\
       (forall v, is_end p v -> ~ In v (pedges q) -> is_end r v) /\
       (forall v, is_end q v -> ~ In v (pedges p) -> is_end r v)) /\
    (pclosed r = true ->
       (forall v, is_end p v -> In v (pedges q)) /\ (forall v, is_end q v -> In v (pedges p))).
Proof.
  intros p q Sp Sq Hc Hpq. unfold p_connect. rewrite Hc. eexists. split; [reflexivity|].
  destruct (connectable_arcs _ _ Hc) as [Hp Hq].
  destruct Sp as [Np Lp], Sq as [Nq Lq]. rewrite Hp in Lp. rewrite Hq in Lq.
  rewrite connectable_spec in Hc by auto.
  destruct (glue_join _ _ (len2_ne _ Lp) (len2_ne _ Lq) Hc) as (x & y & Eg & El & Hxy).
  rewrite Eg. unfold is_end in *. fold (lend (pedges p)) in *. fold (lend (pedges q)) in *.
  assert (Rq : NoDup (rev (pedges q)) /\ 2 <= length (rev (pedges q))).
  { split; [apply NoDup_rev; auto|rewrite rev_length; auto]. }
  destruct Rq as [Nr Lr].
  destruct Hxy as [[-> [->| ->]]|[-> [->| ->]]].
  - destruct (join_close_up (pedges p) (pedges q) Np Nq Lp Lq El) as (S1 & S2 & S3 & S4).
    { intros v H1 H2. apply Hpq; auto. }
    split; [exact S1|]. split; [exact S2|]. split; [|exact S4]. intros Hr. destruct (S3 Hr) as (A & B & C).
    repeat split; auto.
  - destruct (join_close_up (pedges p) (rev (pedges q)) Np Nr Lp Lr El) as (S1 & S2 & S3 & S4).
    { intros v H1 H2. rewrite lend_rev. apply Hpq; auto. apply in_rev; auto. }
    split; [exact S1|]. split.
    { intros v. rewrite S2, <- in_rev. tauto. }
    split.
    { intros Hr. destruct (S3 Hr) as (A & B & C). repeat split.
      + intros v Hv. destruct (A v Hv) as [Hl|Hl]; [left; auto|right; apply lend_rev; auto].
      + intros v Hv Hn. apply B; auto. rewrite <- in_rev. auto.
      + intros v Hv Hn. apply C; auto. apply lend_rev; auto. }
    intros Hr. destruct (S4 Hr) as (A & B). split.
    + intros v Hv. apply in_rev. apply A; auto.
    + intros v Hv. apply B. apply lend_rev; auto.
  - destruct (join_close_up (pedges q) (pedges p) Nq Np Lq Lp El) as (S1 & S2 & S3 & S4).
    { intros v H1 H2. apply and_comm. apply Hpq; auto. }
    split; [exact S1|]. split.
    { intros v. rewrite S2. tauto. }
    split.
    { intros Hr. destruct (S3 Hr) as (A & B & C). repeat split.
      + intros v Hv. destruct (A v Hv) as [Hl|Hl]; [right; auto|left; auto].
      + intros v Hv Hn. apply C; auto.
      + intros v Hv Hn. apply B; auto. }
    intros Hr. destruct (S4 Hr) as (A & B). split; auto.
  - destruct (join_close_up (rev (pedges q)) (pedges p) Nr Np Lr Lp El) as (S1 & S2 & S3 & S4).
    { intros v H1 H2. rewrite lend_rev. apply and_comm. apply Hpq; auto. apply in_rev; auto. }
    split; [exact S1|]. split.
    { intros v. rewrite S2, <- in_rev. tauto. }
    split.
    { intros Hr. destruct (S3 Hr) as (A & B & C). repeat split.
      + intros v Hv. destruct (A v Hv) as [Hl|Hl]; [right; apply lend_rev; auto|left; auto].
      + intros v Hv Hn. apply C; auto. rewrite <- in_rev. auto.
      + intros v Hv Hn. apply B; auto. apply lend_rev; auto. }
    intros Hr. destruct (S4 Hr) as (A & B). split.
    + intros v Hv. apply in_rev. apply B; auto.
    + intros v Hv. apply A. apply lend_rev; auto.
Qed.
