(* Soundness of the certificate checker of Model/Reducer.v (check_all, check_vec) and the concrete
   examples quoted in Properties/C08.v. *)
From Coq Require Import Arith List Lia Bool ZArith.
Require Import Yui.Base.Ring Yui.Base.MatF Yui.Base.MatL Yui.Model.Reducer.
Require Import Yui.Proofs.C08Mat Yui.Proofs.C08Step Yui.Proofs.C08All Yui.Proofs.C08Run.
Import ListNotations.

Section Check.
  Context {R : Type} (o : ring_ops R) (L : ring_laws o).
  Local Notation dmat := (dmat R).
  Local Notation dwf := (@dwf R).
  Local Notation z := (dzero o 0 0).

  Lemma check_space_sound D d F B : check_space o D d F B = true ->
    dwf D /\ dwf d /\ dwf F /\ dwf B /\ dr F = dc d /\ dc F = dc D /\ dr B = dc D /\ dc B = dc d /\
    dmul o F B = did o (dc d).
  Proof.
    unfold check_space. rewrite !andb_true_iff, !Nat.eqb_eq, !dwfb_dwf.
    intros ((((((((W1 & W2) & W3) & W4) & E1) & E2) & E3) & E4) & E5).
    apply (deqb_eq o L) in E5; [tauto|dwfs|dwfs].
  Qed.

  Lemma check_maps_sound D d F B F1 B1 : check_maps o D d F B F1 B1 = true ->
    dmul o F1 D = dmul o d F /\ dmul o D B = dmul o B1 d.
  Proof.
    unfold check_maps. rewrite andb_true_iff. intros [E1 E2].
    apply (deqb_eq o L) in E1; [|dwfs|dwfs]. apply (deqb_eq o L) in E2; [|dwfs|dwfs]. auto.
  Qed.

  Definition chain_at (orig cur fs bs : list dmat) (p : nat) : Prop :=
    let D := nth p orig z in let d := nth p cur z in let F := nth p fs z in let B := nth p bs z in
    dwf D /\ dwf d /\ dwf F /\ dwf B /\
    dr F = dc d /\ dc F = dc D /\ dr B = dc D /\ dc B = dc d /\
    dmul o F B = did o (dc d) /\
    (S p = length orig -> dr D = 0 /\ dr d = 0) /\
    (S p < length orig ->
       dr D = dc (nth (S p) orig z) /\ dr d = dc (nth (S p) cur z) /\
       dmul o (nth (S p) fs z) D = dmul o d F /\ dmul o D B = dmul o (nth (S p) bs z) d).

  Lemma check_chain_sound : forall orig cur fs bs, check_chain o orig cur fs bs = true ->
    length cur = length orig /\ length fs = length orig /\ length bs = length orig /\
    forall p, p < length orig -> chain_at orig cur fs bs p.
  Proof.
    induction orig as [|D orig IH]; intros cur fs bs Hc.
    { destruct cur, fs, bs; discriminate. }
    destruct cur as [|d cur]; [destruct orig; discriminate|].
    destruct fs as [|F fs]; [destruct orig, cur; discriminate|].
    destruct bs as [|B bs]; [destruct orig, cur, fs; discriminate|].
    destruct orig as [|D1 orig].
    - destruct cur; [|discriminate]. destruct fs; [|discriminate]. destruct bs; [|discriminate].
      cbn [check_chain] in Hc. rewrite !andb_true_iff, !Nat.eqb_eq in Hc. destruct Hc as [[Hs H1] H2].
      apply check_space_sound in Hs. cbn [length]. refine (conj eq_refl (conj eq_refl (conj eq_refl _))).
      intros p Hp. assert (p = 0) as -> by lia. unfold chain_at. cbn [nth length].
      destruct Hs as (? & ? & ? & ? & ? & ? & ? & ? & ?). repeat (split; [assumption|]).
      split; [intros _; split; assumption|intros HH; lia].
    - destruct cur as [|d1 cur]; [discriminate|]. destruct fs as [|F1 fs]; [discriminate|].
      destruct bs as [|B1 bs]; [discriminate|].
      change (check_chain o (D :: D1 :: orig) (d :: d1 :: cur) (F :: F1 :: fs) (B :: B1 :: bs))
        with (check_space o D d F B && (dr D =? dc D1) && (dr d =? dc d1) && check_maps o D d F B F1 B1 &&
              check_chain o (D1 :: orig) (d1 :: cur) (F1 :: fs) (B1 :: bs)) in Hc.
      rewrite !andb_true_iff, !Nat.eqb_eq in Hc. destruct Hc as [[[[Hs H1] H2] Hm] Hrec].
      apply check_space_sound in Hs. apply check_maps_sound in Hm.
      destruct (IH _ _ _ Hrec) as (L1 & L2 & L3 & Hall).
      cbn [length] in *. refine (conj _ (conj _ (conj _ _))); try congruence.
      intros p Hp. destruct p as [|p].
      + unfold chain_at. cbn [nth length].
        destruct Hs as (? & ? & ? & ? & ? & ? & ? & ? & ?). destruct Hm. repeat (split; [assumption|]).
        split; [intros HH; lia|]. intros _. repeat (split; [assumption|]). assumption.
      + specialize (Hall p ltac:(lia)). unfold chain_at in *. cbn [nth length] in *.
        destruct Hall as (? & ? & ? & ? & ? & ? & ? & ? & ? & Ha & Hb).
        repeat (split; [assumption|]).
        split; [intros HH; apply Ha; lia|intros HH; apply Hb; lia].
  Qed.

  Lemma check_pairs_sound : forall cur, check_pairs o cur = true ->
    forall p, S p < length cur ->
      dmul o (nth (S p) cur z) (nth p cur z) = dzero o (dr (nth (S p) cur z)) (dc (nth p cur z)).
  Proof.
    induction cur as [|d0 cur IH]; intros Hc p Hp; [cbn in Hp; lia|].
    destruct cur as [|d1 cur]; [cbn in Hp; lia|].
    change (check_pairs o (d0 :: d1 :: cur))
      with ((dc d1 =? dr d0) && deqb o (dmul o d1 d0) (dzero o (dr d1) (dc d0)) && check_pairs o (d1 :: cur)) in Hc.
    rewrite !andb_true_iff in Hc. destruct Hc as [[_ H1] H2].
    destruct p as [|p].
    - cbn [nth]. apply (deqb_eq o L) in H1; [exact H1|dwfs|dwfs].
    - cbn [length] in Hp. apply (IH H2 p). cbn [length]. lia.
  Qed.

  Theorem check_all_sound (orig cur fs bs : list dmat) :
    check_all o orig cur fs bs = true ->
    length cur = length orig /\ length fs = length orig /\ length bs = length orig /\
    forall p, p < length orig ->
      let z := dzero o 0 0 in
      let D := nth p orig z in let d := nth p cur z in let F := nth p fs z in let B := nth p bs z in
      dwf D /\ dwf d /\ dwf F /\ dwf B /\
      dr F = dc d /\ dc F = dc D /\ dr B = dc D /\ dc B = dc d /\
      dmul o F B = did o (dc d) /\
      (S p = length orig -> dr D = 0 /\ dr d = 0) /\
      (S p < length orig ->
         let D1 := nth (S p) orig z in let d1 := nth (S p) cur z in
         let F1 := nth (S p) fs z in let B1 := nth (S p) bs z in
         dr D = dc D1 /\ dr d = dc d1 /\
         dmul o F1 D = dmul o d F /\ dmul o D B = dmul o B1 d /\
         dmul o d1 d = dzero o (dr d1) (dc d)).
  Proof.
    unfold check_all. rewrite andb_true_iff. intros [Hc Hp].
    destruct (check_chain_sound _ _ _ _ Hc) as (L1 & L2 & L3 & Hall).
    refine (conj L1 (conj L2 (conj L3 _))). intros p Hlt. cbv zeta.
    specialize (Hall p Hlt). unfold chain_at in Hall; cbv zeta in Hall.
    destruct Hall as (? & ? & ? & ? & ? & ? & ? & ? & ? & Ha & Hb).
    repeat (split; [assumption|]). intros HS. specialize (Hb HS).
    destruct Hb as (? & ? & ? & ?). repeat (split; [assumption|]).
    apply (check_pairs_sound cur Hp). congruence.
  Qed.

  Theorem check_vec_sound (F : dmat) (v0 v : list R) :
    check_vec o F v0 v = true -> length v0 = dc F /\ length v = dr F /\ vmat o v = dmul o F (vmat o v0).
  Proof.
    unfold check_vec. rewrite !andb_true_iff, !Nat.eqb_eq. intros [[H1 H2] H3].
    apply (deqb_eq o L) in H3; [auto|apply dwf_dmk|dwfs].
  Qed.
End Check.

(* ---------- the concrete example of Properties/C08.v ---------- *)
Definition ex_D0 : dmat Z := mkD 2 2 [[1; 0]; [0; 2]]%Z.

Lemma ex_complex_ok : is_complex Z_ring [2; 2] [ex_D0].
Proof.
  unfold is_complex. cbn [length]. split; [reflexivity|]. split.
  - intros p Hp. assert (p = 0) as -> by lia. cbn [nth]. split; [|split; reflexivity].
    unfold dwf, wf. cbn. split; [reflexivity|]. repeat constructor.
  - intros p Hp. lia.
Qed.

Lemma ex_run_ok :
  exists st, reduced Z_ring Z_units [2; 2] [ex_D0] false [[(0, 0)]; []] = Some (st, []) /\ okf st = true /\
             mats st 0 = Some (mkD 1 1 [[2%Z]]) /\
             option_map (fun t => (t_f t, t_b t)) (trs st 0) = Some (mkD 1 2 [[0; 1]]%Z, mkD 2 1 [[0]; [1]]%Z).
Proof.
  destruct (reduced Z_ring Z_units [2; 2] [ex_D0] false [[(0, 0)]; []]) as [[st rest]|] eqn:E.
  - exists st. vm_compute in E. injection E as <- <-. vm_compute. repeat split; reflexivity.
  - vm_compute in E. discriminate.
Qed.
