(* C09 - the complete specification of one snf call ("whenever the run returns Some"): transformation
   invariant + exit conditions + the zero shortcut of SnfCalc::process, for every ring dictionary with
   [snf_laws], every fuel policy and every flag subset. *)
From Coq Require Import ZArith List Bool Arith Lia Ring.
Require Import Yui.Base.Ring Yui.Base.MatF Yui.Base.MatL Yui.Model.Snf Yui.Proofs.C09Mat Yui.Proofs.C09Inv
  Yui.Proofs.C09Run Yui.Proofs.C09Exit Yui.Proofs.C09Diag.
Import ListNotations.

Section Total.
  Context {R : Type} (D : euc_dict R) (SL : snf_laws D) (Hpre : pre_ok D).
  Let o := ed_ring D.
  Let L : ring_laws o := sl_ring D SL.
  Add Ring Rring : (ring_theory_of_laws o L).
  Local Notation get := (lget o).

  (* Mat::is_zero on a well-formed matrix *)
  Lemma mat_is_zero_true m n (A : lmat R) :
    wf m n A -> (forall i j, i < m -> j < n -> get A i j = rzero o) -> mat_is_zero D A = true.
  Proof.
    intros W H. unfold mat_is_zero. apply forallb_forall. intros r Hr.
    apply forallb_forall. intros x Hx.
    destruct (In_nth A r [] Hr) as [i [Hi Ei]].
    destruct (In_nth r x (rzero o) Hx) as [j [Hj Ej]].
    assert (Him : i < m) by (destruct W; lia).
    assert (Hjn : j < n). { pose proof (wf_row m n A i W Him) as E. rewrite Ei in E. lia. }
    apply (is_zero_true D SL). rewrite <- Ej, <- Ei. apply (H i j Him Hjn).
  Qed.

  (* the zero shortcut: nothing is touched *)
  Lemma snf_zero_shortcut (fp : fuel_policy R) m n (A : lmat R) fl :
    mat_is_zero D A = true ->
    snf_with fp D (mk_dmat m n A) fl = Some (result_of m n (init_state D m n A fl)).
  Proof.
    intros Z. unfold snf_with, snf_run. cbv zeta. cbn [dm_m dm_n dm_rows].
    unfold process. destruct fl as [[[f1 f2] f3] f4]. cbn [init_state st_t]. rewrite Z. reflexivity.
  Qed.

  Lemma FInv_init m n (A : lmat R) :
    FInv D m n (get A) (get A) (get (id_mat D m)) (get (id_mat D m)) (get (id_mat D n)) (get (id_mat D n)).
  Proof.
    split; [|repeat split; apply (id_id_meq D SL)].
    apply meq_sym.
    eapply meq_trans; [apply (meq_mmul D m m n (get (id_mat D m)) (mid o) _ (get A))|].
    - intros x y Hx Hy. now apply get_id.
    - eapply meq_trans; [apply (meq_mmul D m n n (get A) (get A) (get (id_mat D n)) (mid o))|].
      + apply meq_refl.
      + intros x y Hx Hy. now apply get_id.
      + apply (meq_id_r D SL).
    - apply (meq_id_l D SL).
  Qed.

  (* the six elementary operations of SnfCalc preserve the state invariant *)
  Lemma SInv_steps m n (A : lmat R) f1 f2 f3 f4 (s : state R) :
    SInv D m n A f1 f2 f3 f4 s ->
    (forall a b c d i j, i <> j -> i < m -> j < m -> radd o (rmul o a d) (rneg o (rmul o b c)) = rone o ->
       SInv D m n A f1 f2 f3 f4 (s_left_elem D a b c d i j s)) /\
    (forall a b c d i j, i <> j -> i < n -> j < n -> radd o (rmul o a d) (rneg o (rmul o b c)) = rone o ->
       SInv D m n A f1 f2 f3 f4 (s_right_elem D a b c d i j s)) /\
    (forall i j, i <> j -> i < m -> j < m -> SInv D m n A f1 f2 f3 f4 (s_swap_rows i j s)) /\
    (forall i j, i <> j -> i < n -> j < n -> SInv D m n A f1 f2 f3 f4 (s_swap_cols i j s)) /\
    (forall i u ui, rinv (ed_unit D) u = Some ui ->
       exists s', s_mul_row D i u s = Some s' /\ SInv D m n A f1 f2 f3 f4 s') /\
    (forall i u ui, rinv (ed_unit D) u = Some ui ->
       exists s', s_mul_col D i u s = Some s' /\ SInv D m n A f1 f2 f3 f4 s').
  Proof.
    intros HS. split; [|split; [|split; [|split; [|split]]]].
    - intros. now apply (SInv_left_elem D SL).
    - intros. now apply (SInv_right_elem D SL).
    - intros. now apply (SInv_swap_rows D SL).
    - intros. now apply (SInv_swap_cols D SL).
    - intros i u ui Hu. now apply (SInv_mul_row D SL m n A f1 f2 f3 f4 i u ui s).
    - intros i u ui Hu. now apply (SInv_mul_col D SL m n A f1 f2 f3 f4 i u ui s).
  Qed.

  (* the specification of one call, as a predicate on (A, flags, result) *)
  Definition snf_spec (m n : nat) (A : lmat R) (f1 f2 f3 f4 : bool) (res : snf_result R) : Prop :=
    exists T P Pi Q Qi : lmat R,
      sr_d res = mk_dmat m n T /\
      wf m n T /\ wf m m P /\ wf m m Pi /\ wf n n Q /\ wf n n Qi /\
      out_is m f1 (sr_p res) P /\ out_is m f2 (sr_pinv res) Pi /\
      out_is n f3 (sr_q res) Q /\ out_is n f4 (sr_qinv res) Qi /\
      (* D = P * A * Q, true inverses *)
      meq m n (get T) (mmul o m (get P) (mmul o n (get A) (get Q))) /\
      meq m m (mmul o m (get P) (get Pi)) (mid o) /\ meq m m (mmul o m (get Pi) (get P)) (mid o) /\
      meq n n (mmul o n (get Q) (get Qi)) (mid o) /\ meq n n (mmul o n (get Qi) (get Q)) (mid o) /\
      (* diagonal, non-zero entries first, normalised, divisibility chain *)
      (let r := snf_rank D res in
       r <= Nat.min m n /\
       (forall k l, k < m -> l < n -> k <> l -> get T k l = rzero o) /\
       (forall k, k < r -> get T k k <> rzero o) /\
       (forall k, r <= k -> k < Nat.min m n -> get T k k = rzero o) /\
       (forall k, k < r -> rnunit (ed_unit D) (get T k k) = rone o) /\
       (forall k, S k < r -> exists q, get T (S k) (S k) = rmul o q (get T k k))) /\
      (* zero input: identity transformations *)
      ((forall i j, i < m -> j < n -> get A i j = rzero o) ->
       P = id_mat D m /\ Pi = id_mat D m /\ Q = id_mat D n /\ Qi = id_mat D n).

  Theorem snf_total_partial (fp : fuel_policy R) m n (A : lmat R) f1 f2 f3 f4 res :
    wf m n A ->
    snf_with fp D (mk_dmat m n A) (f1, f2, f3, f4) = Some res ->
    snf_spec m n A f1 f2 f3 f4 res.
  Proof.
    intros W H.
    pose proof (snf_exit D SL Hpre fp m n A (f1, f2, f3, f4) res W H) as HX. cbv zeta in HX.
    destruct (mat_is_zero D A) eqn:Z.
    - (* zero shortcut: the witnesses are the identity matrices *)
      rewrite (snf_zero_shortcut fp m n A (f1, f2, f3, f4) Z) in H.
      injection H as <-.
      exists A, (id_mat D m), (id_mat D m), (id_mat D n), (id_mat D n).
      cbn [result_of init_state sr_d sr_p sr_pinv sr_q sr_qinv st_t st_p st_pinv st_q st_qinv].
      pose proof (FInv_init m n A) as (F0 & F1 & F2 & F3 & F4).
      split; [reflexivity|]. split; [exact W|].
      do 4 (split; [apply wf_id|]).
      split; [unfold out_is; now destruct f1|]. split; [unfold out_is; now destruct f2|].
      split; [unfold out_is; now destruct f3|]. split; [unfold out_is; now destruct f4|].
      split; [exact F0|]. split; [exact F1|]. split; [exact F2|]. split; [exact F3|]. split; [exact F4|].
      split; [exact HX|]. intros _. repeat split; reflexivity.
    - destruct (snf_invariant D SL Hpre fp m n A f1 f2 f3 f4 res W H)
        as (T & P & Pi & Q & Qi & ET & WT & WP & WPi & WQ & WQi & O1 & O2 & O3 & O4 & HT & H1 & H2 & H3 & H4).
      exists T, P, Pi, Q, Qi.
      rewrite ET in HX. cbn [dm_rows] in HX.
      do 15 (split; [assumption|]).
      split; [exact HX|].
      intros HZ. exfalso. rewrite (mat_is_zero_true m n A W HZ) in Z. discriminate.
  Qed.
End Total.
