(* C04 - the mirror rule: jones_model (mirror l) = jones_model l [q -> q^-1], for every diagram, as options
   (the two sides panic on the same inputs).
   1. the substitution q -> q^-1 ([pinv]) on canonical Laurent polynomials: coefficient semantics, canonical
      forms are preserved, ring homomorphism (padd, pmul, ppow, constants, monomials), involution;
   2. Model/Link.v: resolving the mirror diagram by a state s = mirror of resolving the diagram by the
      complemented state; components do not see the crossing types X / Xm; hence
      circles (mirror l) s = circles l (map negb s);
   3. the state sum: coefficientwise description of jones_body, reindexing of the sum over all_states n by
      complementation, exponent / sign bookkeeping. *)
From Coq Require Import List Arith Bool ZArith Lia.
Require Import Yui.Model.Link Yui.Model.Jones Yui.Proofs.C04Poly Yui.Proofs.C04Euler.
Require Import Yui.Proofs.C18Base Yui.Proofs.C18Signs.
Import ListNotations.
Local Open Scope Z_scope.

(* ---------------------------------------------------------------------------------------------- *)
(* 1. the substitution q -> q^-1 *)
Lemma zsum_rev : forall A (f : A -> Z) l, zsum f (rev l) = zsum f l.
Proof. induction l as [|a l IH]; auto. cbn [rev]. rewrite zsum_app, IH, !zsum_cons, zsum_nil. lia. Qed.

Lemma pinv_cons : forall t p, pinv (t :: p) = pinv p ++ [(- fst t, snd t)].
Proof. reflexivity. Qed.

Lemma zsum_pinv : forall (f : Z * Z -> Z) p, zsum f (pinv p) = zsum (fun t => f (- fst t, snd t)) p.
Proof. intros. unfold pinv. rewrite zsum_rev, zsum_map. reflexivity. Qed.

(* coefficient semantics: the coefficient of q^e in p(q^-1) is the coefficient of q^-e in p *)
Lemma coeff_pinv : forall p e, coeff (pinv p) e = coeff p (- e).
Proof.
  intros. unfold pinv, coeff. rewrite zsum_rev, zsum_map. apply zsum_ext. intros [e1 c1] _. cbn [fst snd].
  destruct (Z.eqb_spec (- e1) e); destruct (Z.eqb_spec e1 (- e)); lia.
Qed.

Lemma canon_from_snoc : forall p lo e c, canon_from lo p -> (forall t, In t p -> fst t < e) -> lo < e -> c <> 0 ->
  canon_from lo (p ++ [(e, c)]).
Proof.
  induction p as [|[e1 c1] r IH]; intros lo e c Hp Hlt Hlo Hc; cbn [app canon_from]; auto.
  cbn in Hp. destruct Hp as (A & B & C). repeat split; auto. apply IH; auto.
  - intros t Ht. apply Hlt. cbn; auto.
  - apply (Hlt (e1, c1)). cbn; auto.
Qed.

Lemma pinv_canon_from : forall p lo, canon_from lo p ->
  exists lo', canon_from lo' (pinv p) /\ forall t, In t (pinv p) -> fst t < - lo.
Proof.
  induction p as [|[e c] r IH]; intros lo Hp.
  - exists 0. split; [exact I|intros t []].
  - cbn in Hp. destruct Hp as (A & B & C). destruct (IH e C) as (lo' & H1 & H2).
    rewrite pinv_cons. cbn [fst snd]. exists (Z.min lo' (- e - 1)). split.
    + apply canon_from_snoc; auto; [|lia]. eapply canon_from_weaken; [|exact H1]. lia.
    + intros t Ht. apply in_app_iff in Ht. destruct Ht as [Ht|[<-|[]]]; [apply H2 in Ht; lia|cbn; lia].
Qed.

(* canonical forms are preserved: no re-canonicalisation is needed *)
Theorem pinv_canon : forall p, canon p -> canon (pinv p).
Proof. intros p [lo H]. destruct (pinv_canon_from p lo H) as (lo' & H' & _). exists lo'. exact H'. Qed.

Theorem pinv_involutive : forall p, pinv (pinv p) = p.
Proof.
  intros. unfold pinv. rewrite map_rev, rev_involutive, map_map. rewrite <- (map_id p) at 2.
  apply map_ext. intros [e c]. cbn [fst snd]. f_equal. lia.
Qed.

(* ring homomorphism *)
Theorem pinv_padd : forall p q, canon q -> pinv (padd p q) = padd (pinv p) (pinv q).
Proof.
  intros p q Hq. apply canon_ext.
  - apply pinv_canon, padd_canon, Hq.
  - apply padd_canon, pinv_canon, Hq.
  - intros e. rewrite coeff_pinv, !coeff_padd, !coeff_pinv. reflexivity.
Qed.
Theorem pinv_pmul : forall p q, pinv (pmul p q) = pmul (pinv p) (pinv q).
Proof.
  intros p q. apply canon_ext.
  - apply pinv_canon, pmul_canon.
  - apply pmul_canon.
  - intros e. rewrite coeff_pinv, !coeff_pmul, zsum_pinv.
    apply zsum_ext. intros [e1 c1] _. cbn [fst snd]. rewrite coeff_pinv. do 2 f_equal. lia.
Qed.
Lemma pinv_pone : pinv pone = pone.
Proof. reflexivity. Qed.
Lemma pinv_nil : pinv [] = [].
Proof. reflexivity. Qed.
Lemma pinv_pconst : forall c, pinv (pconst c) = pconst c.
Proof. intros. unfold pconst. destruct (c =? 0); reflexivity. Qed.
Lemma pinv_qpow : forall k, pinv (qpow k) = qpow (- k).
Proof. reflexivity. Qed.
Theorem pinv_ppow : forall p n, pinv (ppow p n) = ppow (pinv p) n.
Proof. induction n as [|n IH]; [reflexivity|]. cbn [ppow]. rewrite pinv_pmul, IH. reflexivity. Qed.
Lemma pinv_q0 : pinv q0 = q0.
Proof. reflexivity. Qed.

(* q + q^-1 is invariant, so the coefficients of its powers are symmetric *)
Lemma coeff_ppow_q0_sym : forall r x, coeff (ppow q0 r) (- x) = coeff (ppow q0 r) x.
Proof. intros. rewrite <- coeff_pinv, pinv_ppow, pinv_q0. reflexivity. Qed.

(* ---------------------------------------------------------------------------------------------- *)
(* 2. resolutions and circles of the mirror diagram *)
Lemma mirror_c_resolved : forall c, is_resolved c = true -> mirror_c c = c.
Proof. intros [[] ? ? ? ?] H; try discriminate; reflexivity. Qed.
Lemma resolve_c_mirror : forall c r, resolve_c (mirror_c c) r = resolve_c c (negb r).
Proof. intros [[] ? ? ? ?] []; reflexivity. Qed.
Lemma resolve_c_resolved : forall c r c', resolve_c c r = Some c' -> mirror_c c' = c'.
Proof. intros [[] ? ? ? ?] [] c' H; inversion H; reflexivity. Qed.

Lemma resolve_at_mirror : forall l i r,
  resolve_at (mirror l) i r = option_map mirror (resolve_at l i (negb r)).
Proof.
  induction l as [|c l IH]; intros i r; [reflexivity|].
  cbn [mirror map resolve_at]. fold (mirror l). rewrite is_resolved_mirror.
  destruct (is_resolved c) eqn:R.
  - rewrite IH. destruct (resolve_at l i (negb r)); cbn [option_map mirror map];
      rewrite ?(mirror_c_resolved c R); reflexivity.
  - destruct i as [|i].
    + rewrite resolve_c_mirror. destruct (resolve_c c (negb r)) as [c'|] eqn:E; [|reflexivity].
      cbn [option_map mirror map]. rewrite (resolve_c_resolved _ _ _ E). reflexivity.
    + rewrite IH. destruct (resolve_at l i (negb r)); reflexivity.
Qed.

(* resolving the mirror diagram by s = mirror of resolving the diagram by the complemented state *)
Theorem resolved_by_mirror : forall s l,
  resolved_by (mirror l) s = option_map mirror (resolved_by l (map negb s)).
Proof.
  induction s as [|r s IH]; intros l; [reflexivity|].
  cbn [resolved_by map]. rewrite resolve_at_mirror.
  destruct (resolve_at l 0 (negb r)) as [l1|]; [|reflexivity]. cbn [option_map]. apply IH.
Qed.

(* components do not look at the crossing types X / Xm *)
Lemma comp_loop_mirror : forall l starts passed, comp_loop (mirror l) starts passed = comp_loop l starts passed.
Proof.
  intros l. induction starts as [|p r IH]; intros passed; cbn [comp_loop]; auto.
  rewrite mirror_edge_at. destruct (mem (edge_at l p) passed); auto.
  rewrite (traverse_sim l (mirror l) (mirror_sim l)).
  destruct (traverse_edges l p) as [ps|]; auto.
  rewrite (map_ext _ _ (mirror_edge_at l)), IH. reflexivity.
Qed.
Theorem components_mirror : forall l, components (mirror l) = components l.
Proof. intros. unfold components, comp_starts, starts_j. rewrite mirror_length. apply comp_loop_mirror. Qed.

Theorem circles_mirror : forall l s, circles (mirror l) s = circles l (map negb s).
Proof.
  intros. unfold circles. rewrite resolved_by_mirror.
  destruct (resolved_by l (map negb s)) as [l'|]; [|reflexivity]. cbn [option_map].
  rewrite components_mirror. reflexivity.
Qed.

(* ---------------------------------------------------------------------------------------------- *)
(* 3. the state sum *)
Definition compl (s : list bool) : list bool := map negb s.

Lemma compl_involutive : forall s, compl (compl s) = s.
Proof.
  intros. unfold compl. rewrite map_map. rewrite <- (map_id s) at 2. apply map_ext. intros []; reflexivity.
Qed.
Lemma all_states_complete : forall n s, length s = n -> In s (all_states n).
Proof.
  induction n as [|n IH]; intros s H.
  - destruct s; [cbn; auto|discriminate].
  - destruct s as [|b s]; [discriminate|]. cbn [all_states]. apply in_flat_map. exists s. split.
    + apply IH. cbn in H. lia.
    + destruct b; cbn; auto.
Qed.
Lemma all_states_compl : forall n s, In s (all_states n) -> In (compl s) (all_states n).
Proof.
  intros n s H. apply all_states_complete. unfold compl. rewrite map_length. apply all_states_length; auto.
Qed.
Lemma weight_compl : forall s, (weight s + weight (compl s) = length s)%nat.
Proof.
  unfold weight, compl. induction s as [|[] s IH]; cbn [map negb filter length]; lia.
Qed.

(* reindexing of a sum over all states by complementation *)
Lemma zsum_all_states_compl : forall n (f : list bool -> Z),
  zsum (fun s => f (compl s)) (all_states n) = zsum f (all_states n).
Proof.
  induction n as [|n IH]; intros f; [reflexivity|].
  cbn [all_states]. rewrite !zsum_flat_map.
  rewrite <- (IH (fun t => zsum f [false :: t; true :: t])).
  apply zsum_ext. intros t _. rewrite !zsum_cons, !zsum_nil. unfold compl. cbn [map negb]. lia.
Qed.

(* the body of the state sum, coefficientwise *)
Definition term_c (l : link) (x : Z) (s : list bool) : Z :=
  match circles l s with Some r => coeff (jones_term (weight s) r) x | None => 0 end.

Lemma jones_body_some : forall l states b, jones_body l states = Some b ->
  forall x, coeff b x = zsum (term_c l x) states.
Proof.
  intros l. induction states as [|s rest IH]; intros b H x; cbn [jones_body] in H.
  - inversion H. reflexivity.
  - unfold term_c at 1. rewrite zsum_cons.
    destruct (circles l s) as [r|]; [|discriminate].
    destruct (jones_body l rest) as [acc|]; [|discriminate].
    inversion H. rewrite coeff_padd, (IH acc eq_refl). reflexivity.
Qed.
Lemma jones_body_none : forall l states,
  jones_body l states = None <-> exists s, In s states /\ circles l s = None.
Proof.
  intros l. induction states as [|s rest IH]; cbn [jones_body].
  - split; [discriminate|intros (s & [] & _)].
  - destruct (circles l s) as [r|] eqn:C.
    + destruct (jones_body l rest) as [acc|].
      * split; [discriminate|]. intros (s' & [<-|Hs] & E); [congruence|].
        destruct IH as [_ IH]. discriminate IH. eauto.
      * split; auto. intros _. destruct IH as [IH _]. destruct (IH eq_refl) as (s' & Hs & E).
        exists s'. cbn; auto.
    + split; auto. intros _. exists s. cbn; auto.
Qed.

Lemma jones_body_mirror_none : forall l n,
  jones_body (mirror l) (all_states n) = None <-> jones_body l (all_states n) = None.
Proof.
  intros l n. rewrite !jones_body_none. split; intros (s & Hs & E); exists (compl s);
    (split; [apply all_states_compl; auto|]).
  - rewrite circles_mirror in E. exact E.
  - rewrite circles_mirror. fold (compl (compl s)). rewrite compl_involutive. exact E.
Qed.

Lemma sgn_nat_add : forall a b, sgn_nat (a + b) = sgn_nat a * sgn_nat b.
Proof.
  intros. unfold sgn_nat. rewrite Nat.even_add. destruct (Nat.even a), (Nat.even b); reflexivity.
Qed.

Lemma coeff_jones_term : forall w r x,
  coeff (jones_term w r) x = sgn_nat w * coeff (ppow q0 r) (x - Z.of_nat w).
Proof. intros. unfold jones_term. rewrite ppow_minus_q, coeff_pmul_mono. reflexivity. Qed.

(* one state: the term of s in the mirror diagram against the term of the complemented state *)
Theorem mirror_term : forall np nn w r e, (w <= np + nn)%nat ->
  sgn_nat np * coeff (jones_term (np + nn - w) r) (e - (Z.of_nat nn - 2 * Z.of_nat np)) =
  sgn_nat nn * coeff (jones_term w r) (- e - (Z.of_nat np - 2 * Z.of_nat nn)).
Proof.
  intros np nn w r e Hw. rewrite !coeff_jones_term.
  rewrite <- (coeff_ppow_q0_sym r (- e - (Z.of_nat np - 2 * Z.of_nat nn) - Z.of_nat w)).
  replace (e - (Z.of_nat nn - 2 * Z.of_nat np) - Z.of_nat (np + nn - w))
    with (- (- e - (Z.of_nat np - 2 * Z.of_nat nn) - Z.of_nat w)) by lia.
  rewrite !Z.mul_assoc. f_equal.
  assert (H : sgn_nat (np + nn - w) * sgn_nat w = sgn_nat np * sgn_nat nn).
  { rewrite <- !sgn_nat_add. f_equal. lia. }
  destruct (sgn_nat_cases np) as [A|A], (sgn_nat_cases nn) as [B|B], (sgn_nat_cases w) as [C|C],
    (sgn_nat_cases (np + nn - w)%nat) as [D|D]; rewrite A, B, C, D in *; lia.
Qed.

Lemma count_pos_neg_length : forall sg, (count_pos sg + count_neg sg = length sg)%nat.
Proof. unfold count_pos, count_neg. induction sg as [|[] sg IH]; cbn [filter is_pos negb length]; lia. Qed.
Lemma signed_nums_total : forall l np nn, signed_crossing_nums l = Some (np, nn) -> (np + nn = crossing_num l)%nat.
Proof.
  intros l np nn H. unfold signed_crossing_nums, crossing_signs in H.
  destruct (sign_loop l (starts_j l 0) [] (repeat None (length l))) as [[passed sg]|]; [|discriminate].
  destruct (if unsigned_left l sg then sign_loop l (starts_j l 1 ++ starts_j l 2) passed sg else Some (passed, sg))
    as [[p' sg']|]; [|discriminate].
  destruct (Nat.eqb_spec (length (flatten_opt sg')) (crossing_num l)) as [E|]; [|discriminate].
  cbn [option_map] in H. inversion H. rewrite count_pos_neg_length. exact E.
Qed.

(* the mirror rule *)
Theorem jones_mirror : forall l, jones_model (mirror l) = option_map pinv (jones_model l).
Proof.
  intros l. unfold jones_model. rewrite signed_nums_mirror, crossing_num_mirror.
  destruct (signed_crossing_nums l) as [[np nn]|] eqn:SN; [|reflexivity]. cbn [option_map fst snd].
  destruct (64 <? crossing_num l)%nat; [reflexivity|].
  pose proof (signed_nums_total l np nn SN) as Hn.
  pose proof (jones_body_mirror_none l (crossing_num l)) as HN.
  destruct (jones_body (mirror l) (all_states (crossing_num l))) as [b'|] eqn:B';
    destruct (jones_body l (all_states (crossing_num l))) as [b|] eqn:B; cbn [option_map];
    [|destruct HN as [_ HN]; discriminate HN; auto|destruct HN as [HN _]; discriminate HN; auto|reflexivity].
  f_equal. apply canon_ext; [apply pmul_canon|apply pinv_canon, pmul_canon|].
  intros e. rewrite coeff_pinv, !jones_prefactor_mono, !coeff_pmul_mono.
  rewrite (jones_body_some _ _ _ B'), (jones_body_some _ _ _ B), !zsum_scal.
  rewrite <- (zsum_all_states_compl (crossing_num l)
    (fun s => sgn_nat nn * term_c l (- e - (Z.of_nat np - 2 * Z.of_nat nn)) s)).
  apply zsum_ext. intros s Hs. unfold term_c. rewrite circles_mirror. fold (compl s).
  destruct (circles l (compl s)) as [r|]; [|lia].
  pose proof (weight_compl s) as W. rewrite (all_states_length _ _ Hs) in W.
  replace (weight s) with (np + nn - weight (compl s))%nat by lia.
  apply mirror_term. lia.
Qed.

(* consequences: same panics; the rule for the generator sum of the cube; mirroring twice *)
Corollary jones_mirror_none : forall l, jones_model (mirror l) = None <-> jones_model l = None.
Proof. intros l. rewrite jones_mirror. destruct (jones_model l); cbn; split; auto; discriminate. Qed.
Corollary jones_mirror_coeff : forall l p, jones_model l = Some p ->
  exists p', jones_model (mirror l) = Some p' /\ canon p' /\ forall e, coeff p' e = coeff p (- e).
Proof.
  intros l p H. exists (pinv p). rewrite jones_mirror, H. split; [reflexivity|]. split; [|apply coeff_pinv].
  apply pinv_canon. rewrite <- kh_euler_jones in H. unfold kh_euler in H.
  destruct (kh_gens l); inversion H. apply euler_poly_canon.
Qed.
Corollary kh_euler_mirror : forall l, kh_euler (mirror l) = option_map pinv (kh_euler l).
Proof. intros. rewrite !kh_euler_jones. apply jones_mirror. Qed.
