(* C20: the FORMAT_CLEAN layout can be read back: parse_layout (layout t) = Some t. *)
From Coq Require Import ZArith NArith List Bool Arith Lia ZifyN ZifyBool ZifyNat.
Require Import Yui.Model.Table Yui.Proofs.C20Str.
Import ListNotations.

(* ---------- rstrip ---------- *)
Lemma rstrip_spaces : forall k, rstrip (spaces k) = [].
Proof.
  induction k as [|k IH]; [reflexivity|].
  unfold spaces in *. cbn [repeat rstrip]. rewrite IH. reflexivity.
Qed.
Lemma spaces_S_app : forall p (r : str), spaces (S p) ++ r = spaces p ++ 32%N :: r.
Proof.
  induction p as [|p IH]; intro r; [reflexivity|].
  unfold spaces in *. cbn [repeat app] in *. f_equal. apply IH.
Qed.
Lemma rstrip_app_nil : forall a b, rstrip b = [] -> rstrip (a ++ b) = rstrip a.
Proof.
  induction a as [|c a IH]; intros b Hb; cbn [app rstrip]; [exact Hb|]. now rewrite IH.
Qed.
Lemma rstrip_id : forall s, s = [] \/ is_space (last s 0%N) = false -> rstrip s = s.
Proof.
  induction s as [|c r IH]; intros H; [reflexivity|].
  destruct H as [H|H]; [discriminate|].
  cbn [rstrip]. destruct r as [|d r'].
  - cbn [rstrip]. cbn [last] in H. now rewrite H.
  - rewrite IH; [reflexivity|]. right. exact H.
Qed.

(* a cell that survives printing and reading: no line break inside, no trailing space *)
Definition okc (s : str) : Prop := (forall c, In c s -> c <> 10%N) /\ rstrip s = s.
(* a title cell: moreover non-empty and without spaces *)
Definition okh (s : str) : Prop := s <> [] /\ (forall c, In c s -> c <> 10%N /\ is_space c = false).

Lemma okh_okc : forall s, okh s -> okc s.
Proof.
  intros s [Hne H]. split; [intros c Hc; now apply H|].
  apply rstrip_id. right.
  destruct (exists_last Hne) as (s' & x & ->). rewrite last_last. apply H, in_or_app. right. now left.
Qed.

(* ---------- a row as the concatenation of its segments ---------- *)
Fixpoint segs (ws : list nat) (r : list str) : list str :=
  match ws with
  | [] => []
  | w :: ws' =>
      let c := hd [] r in
      match ws' with
      | [] => [32%N :: c ++ [32%N]]
      | _ => (32%N :: c ++ spaces (w - length c) ++ [32%N]) :: segs ws' (tl r)
      end
  end.
Lemma render_row_segs : forall ws r, render_row ws r = concat (segs ws r).
Proof.
  induction ws as [|w ws IH]; intro r; [reflexivity|].
  cbn [render_row segs]. destruct ws as [|w' ws'].
  - cbn [concat]. now rewrite app_nil_r.
  - cbn [concat]. rewrite IH. cbn [app]. now rewrite <- !app_assoc.
Qed.

Inductive lens_ok : list nat -> list str -> Prop :=
| lo_last : forall l s, lens_ok [l] [s]
| lo_cons : forall l ls s sg, l = length s -> lens_ok ls sg -> lens_ok (l :: ls) (s :: sg).

Lemma split_lens_ok : forall lens sg, lens_ok lens sg -> split_lens lens (concat sg) = sg.
Proof.
  induction 1 as [l s | l ls s sg Hl Hok IH].
  - cbn. now rewrite app_nil_r.
  - cbn [split_lens concat]. destruct ls as [|l' ls']; [inversion Hok|].
    subst l. rewrite firstn_app, Nat.sub_diag, firstn_all. cbn [firstn]. rewrite app_nil_r.
    rewrite skipn_app, skipn_all, Nat.sub_diag. cbn [skipn app]. now rewrite IH.
Qed.

Definition fits (ws : list nat) (r : list str) : Prop := Forall2 (fun w c => length c <= w) ws r.

Lemma segs_lens_ok : forall ws r1 r2, ws <> [] -> fits ws r1 -> fits ws r2 ->
  lens_ok (map (@length N) (segs ws r1)) (segs ws r2).
Proof.
  induction ws as [|w ws IH]; intros r1 r2 Hne H1 H2; [congruence|].
  inversion H1 as [|w1 c1 ws1 r1' Hc1 Hr1]; subst. inversion H2 as [|w2 c2 ws2 r2' Hc2 Hr2]; subst.
  cbn [segs hd tl]. destruct ws as [|w' ws'].
  - cbn. constructor.
  - cbn [map]. constructor.
    + cbn [length]. rewrite !app_length. unfold spaces. rewrite !repeat_length. cbn [length]. lia.
    + apply IH; [discriminate | assumption | assumption].
Qed.

Lemma map_cell_of_seg_segs : forall ws r, fits ws r -> Forall okc r -> map cell_of_seg (segs ws r) = r.
Proof.
  induction ws as [|w ws IH]; intros r Hf Hok.
  - inversion Hf. reflexivity.
  - inversion Hf as [|w1 c ws1 r' Hc Hr]; subst. inversion Hok as [|c0 r0 Hokc Hok']; subst.
    cbn [segs hd tl]. destruct Hokc as [_ Hrs].
    destruct ws as [|w' ws'].
    + inversion Hr; subst. cbn [map]. unfold cell_of_seg. cbn [tl].
      rewrite rstrip_app_nil by reflexivity. now rewrite Hrs.
    + cbn [map]. unfold cell_of_seg at 1. cbn [tl].
      rewrite rstrip_app_nil.
      * rewrite Hrs. f_equal. now apply IH.
      * replace (spaces (w - length c) ++ [32%N]) with (spaces (S (w - length c)) ++ []).
        -- rewrite app_nil_r. apply rstrip_spaces.
        -- apply spaces_S_app.
Qed.

(* ---------- the title line gives the segment lengths ---------- *)
Lemma cut_tok : forall tok rest cur,
  (forall c, In c tok -> is_space c = false) -> rest <> [] ->
  cut_header (tok ++ rest) cur = cut_header rest (length tok + cur).
Proof.
  induction tok as [|a tok IH]; intros rest cur Hns Hne; [reflexivity|].
  cbn [app cut_header length].
  destruct (tok ++ rest) as [|b q] eqn:E.
  - apply app_eq_nil in E. destruct E. contradiction.
  - rewrite (Hns a (or_introl eq_refl)). cbn [andb]. rewrite <- E.
    rewrite IH; [f_equal; lia | intros c Hc; apply Hns; now right | exact Hne].
Qed.
Lemma cut_spaces : forall p rest cur,
  cut_header (spaces p ++ 32%N :: rest) cur = cut_header (32%N :: rest) (p + cur).
Proof.
  induction p as [|p IH]; intros rest cur; [reflexivity|].
  unfold spaces in *. cbn [repeat app].
  set (R := cut_header (32%N :: rest) (S p + cur)). cbn [cut_header].
  destruct (repeat 32%N p ++ 32%N :: rest) as [|b q] eqn:E.
  - destruct p; discriminate.
  - assert (Hb : b = 32%N) by (destruct p; cbn in E; now inversion E).
    subst b. cbn [is_space N.eqb Pos.eqb negb andb]. rewrite <- E, IH. subst R. f_equal; lia.
Qed.

(* a title segment: " tok pad " *)
Definition hseg (s : str) : Prop :=
  exists tok p, s = 32%N :: tok ++ spaces p ++ [32%N] /\ tok <> [] /\ (forall c, In c tok -> is_space c = false).

Lemma cut_header_hsegs : forall sg s,
  hseg s -> Forall hseg sg ->
  cut_header (tl (concat (s :: sg))) 1 = map (@length N) (s :: sg).
Proof.
  induction sg as [|s2 sg IH]; intros s (tok & p & -> & Hne & Hns) Hall.
  - cbn [concat map]. rewrite app_nil_r. cbn [tl].
    rewrite cut_tok by (auto; destruct p; discriminate).
    destruct p as [|p].
    + cbn [spaces repeat app cut_header]. cbn [length]. rewrite app_length. cbn [length]. f_equal; lia.
    + replace (spaces (S p) ++ [32%N]) with (spaces p ++ 32%N :: [32%N]).
      * rewrite cut_spaces. cbn [cut_header]. cbn [is_space N.eqb Pos.eqb negb andb].
        cbn [length]. rewrite !app_length. unfold spaces.
        rewrite repeat_length. cbn [length]. f_equal; lia.
      * symmetry. apply spaces_S_app.
  - inversion Hall as [|x y Hs2 Hsg]; subst.
    pose proof Hs2 as (tok2 & p2 & E2 & Hne2 & Hns2).
    specialize (IH s2 Hs2 Hsg).
    change (concat ((32%N :: tok ++ spaces p ++ [32%N]) :: s2 :: sg))
      with ((32%N :: tok ++ spaces p ++ [32%N]) ++ concat (s2 :: sg)).
    cbn [app tl]. rewrite <- !app_assoc.
    rewrite cut_tok; [| exact Hns | destruct p; discriminate].
    assert (Hc2 : concat (s2 :: sg) = 32%N :: tl (concat (s2 :: sg))).
    { cbn [concat]. rewrite E2. reflexivity. }
    (* the spaces of this segment, its closing space, then the opening space of the next one *)
    replace (spaces p ++ [32%N] ++ concat (s2 :: sg)) with (spaces p ++ 32%N :: concat (s2 :: sg)) by reflexivity.
    rewrite cut_spaces. rewrite Hc2.
    set (rest := tl (concat (s2 :: sg))) in *.
    assert (Hrest : exists b q, rest = b :: q /\ is_space b = false).
    { unfold rest. cbn [concat]. rewrite E2. cbn [app tl].
      destruct tok2 as [|b q]; [congruence|]. exists b, (q ++ (spaces p2 ++ [32%N]) ++ concat sg).
      split; [now rewrite <- app_assoc | apply Hns2; now left]. }
    destruct Hrest as (b & q & Hr & Hb).
    cbn [cut_header]. rewrite Hr. cbn [is_space N.eqb Pos.eqb negb andb].
    rewrite Hb. cbn [negb andb].
    destruct (S (p + (length tok + 1)) =? 0) eqn:E0; [apply Nat.eqb_eq in E0; lia|].
    cbn [negb]. rewrite <- Hr. rewrite IH.
    cbn [map length]. rewrite !app_length. unfold spaces. rewrite repeat_length. cbn [length].
    f_equal; lia.
Qed.

Lemma cut_header_segs : forall s sg,
  hseg s -> Forall hseg sg -> cut_header (concat (s :: sg)) 0 = map (@length N) (s :: sg).
Proof.
  intros s sg Hs Hall. rewrite <- (cut_header_hsegs sg s Hs Hall).
  destruct Hs as (tok & p & -> & Hne & Hns).
  cbn [concat app tl]. destruct tok as [|b q]; [congruence|].
  cbn [app cut_header]. rewrite (Hns b (or_introl eq_refl)). reflexivity.
Qed.

Lemma segs_hseg : forall ws r, fits ws r -> Forall okh r -> Forall hseg (segs ws r).
Proof.
  induction ws as [|w ws IH]; intros r Hf Hok; [constructor|].
  inversion Hf as [|w1 c ws1 r' Hc Hr]; subst. inversion Hok as [|c0 r0 Hokc Hok']; subst.
  cbn [segs hd tl]. destruct Hokc as [Hne Hch].
  destruct ws as [|w' ws'].
  - constructor; [|constructor]. exists c, 0. cbn [spaces repeat app]. repeat split; auto.
    intros x Hx. now apply Hch.
  - constructor; [|now apply IH]. exists c, (w - length c). repeat split; auto.
    intros x Hx. now apply Hch.
Qed.
Lemma segs_nonempty : forall ws r, ws <> [] -> segs ws r <> [].
Proof. intros [|w [|w' ws]] r H; cbn [segs]; congruence. Qed.

(* ---------- lines ---------- *)
Lemma lines_of_app : forall l rest, (forall c, In c l -> c <> 10%N) ->
  lines_of (l ++ 10%N :: rest) = l :: lines_of rest.
Proof.
  induction l as [|c l IH]; intros rest H.
  - cbn [app lines_of]. reflexivity.
  - cbn [app lines_of]. destruct (c =? 10)%N eqn:E.
    + apply N.eqb_eq in E. exfalso. apply (H c); [now left | exact E].
    + rewrite IH by (intros x Hx; apply H; now right). reflexivity.
Qed.
Lemma lines_of_concat : forall (ls : list str), Forall (fun l => forall c, In c l -> c <> 10%N) ls ->
  lines_of (concat (map (fun l => l ++ [10%N]) ls)) = ls.
Proof.
  induction ls as [|l ls IH]; intro H; [reflexivity|].
  inversion H; subst. cbn [map concat]. rewrite <- app_assoc. cbn [app].
  rewrite lines_of_app by assumption. now rewrite IH.
Qed.

Lemma render_row_no_nl : forall ws r, fits ws r -> Forall okc r -> forall c, In c (render_row ws r) -> c <> 10%N.
Proof.
  induction ws as [|w ws IH]; intros r Hf Hok c Hc; [destruct Hc|].
  inversion Hf as [|w1 c1 ws1 r' Hc1 Hr]; subst. inversion Hok as [|c0 r0 Hokc Hok']; subst.
  cbn [render_row hd tl] in Hc. destruct Hokc as [Hnl _].
  assert (Hsp : forall k x, In x (spaces k) -> x <> 10%N).
  { intros k x Hx. unfold spaces in Hx. apply repeat_spec in Hx. subst. discriminate. }
  destruct ws as [|w' ws'].
  - destruct Hc as [<-|Hc]; [discriminate|]. apply in_app_or in Hc. destruct Hc as [Hc|[<-|[]]]; [now apply Hnl | discriminate].
  - destruct Hc as [<-|Hc]; [discriminate|].
    apply in_app_or in Hc. destruct Hc as [Hc|Hc]; [now apply Hnl|].
    apply in_app_or in Hc. destruct Hc as [Hc|Hc]; [now apply (Hsp _ _ Hc)|].
    apply in_app_or in Hc. destruct Hc as [[<-|[]]|Hc]; [discriminate|].
    now apply (IH r').
Qed.

(* ---------- column widths ---------- *)
Lemma fits_length : forall ws r, fits ws r -> length ws = length r.
Proof. induction 1; cbn [length]; congruence. Qed.
Lemma fits_self : forall r, fits (map (@length N) r) r.
Proof. induction r as [|c r IH]; cbn [map]; constructor; auto. Qed.
Lemma zip_max_fits1 : forall r acc, length acc = length r \/ acc = [] ->
  fits (zip_max (map (@length N) r) acc) r.
Proof.
  induction r as [|c r IH]; intros acc Hlen.
  - cbn [map zip_max]. destruct Hlen as [H| ->]; [destruct acc; [constructor|discriminate]|constructor].
  - destruct acc as [|y acc].
    + cbn [map zip_max]. apply (fits_self (c :: r)).
    + destruct Hlen as [Hlen|Hlen]; [|discriminate]. cbn [length] in Hlen.
      cbn [map zip_max]. constructor; [lia | apply IH; left; lia].
Qed.
Lemma zip_max_fits2 : forall r acc r', length acc = length r -> fits acc r' ->
  fits (zip_max (map (@length N) r) acc) r'.
Proof.
  induction r as [|c r IH]; intros acc r' Hlen Hf.
  - destruct acc; [exact Hf | discriminate].
  - destruct acc as [|y acc]; [discriminate|]. cbn [length] in Hlen.
    inversion Hf as [|y' c' acc' r'' Hc' Hr'']; subst.
    cbn [map zip_max]. constructor; [lia | apply IH; [lia | exact Hr'']].
Qed.

Lemma col_widths_fits : forall n t, Forall (fun r => length r = n) t ->
  length (col_widths t) = match t with [] => 0 | _ => n end /\ Forall (fits (col_widths t)) t.
Proof.
  intros n. induction t as [|r t IH]; intro Hall; [split; [reflexivity|constructor]|].
  inversion Hall as [|r0 t0 Hr Ht]; subst. destruct (IH Ht) as [Hlen Hfit].
  unfold col_widths in *. cbn [fold_right].
  set (acc := fold_right (fun r acc => zip_max (map (@length N) r) acc) [] t) in *.
  assert (Hacc : length acc = length r \/ acc = []).
  { destruct t as [|r1 t1]; [right; reflexivity | left; exact Hlen]. }
  pose proof (zip_max_fits1 r acc Hacc) as H1.
  split.
  - apply fits_length in H1. rewrite H1. destruct t; reflexivity.
  - constructor; [exact H1|]. destruct t as [|r1 t1]; [constructor|].
    eapply Forall_impl; [|exact Hfit]. intros r' Hr'. now apply zip_max_fits2.
Qed.

(* ---------- the round trip ---------- *)
(* a table: a title row of title cells and rows of cells, all of the same positive length *)
Definition wf_table (t : list (list str)) : Prop :=
  match t with
  | [] => False
  | h :: rows => h <> [] /\ Forall okh h /\ Forall (fun r => length r = length h /\ Forall okc r) rows
  end.

Lemma wf_table_rows : forall t, wf_table t ->
  exists h rows, t = h :: rows /\ Forall (fun r => length r = length h) t /\ Forall (Forall okc) t.
Proof.
  intros [|h rows] H; [destruct H|]. destruct H as (Hne & Hh & Hrows).
  exists h, rows. split; [reflexivity|]. split.
  - constructor; [reflexivity|]. eapply Forall_impl; [|exact Hrows]. now intros r [H _].
  - constructor; [eapply Forall_impl; [|exact Hh]; apply okh_okc|].
    eapply Forall_impl; [|exact Hrows]. now intros r [_ H].
Qed.

Theorem parse_layout_layout : forall t, wf_table t -> parse_layout (layout t) = Some t.
Proof.
  intros t Hwf. destruct (wf_table_rows t Hwf) as (h & rows & -> & Hlen & Hokc).
  destruct Hwf as (Hne & Hh & _).
  destruct (col_widths_fits (length h) (h :: rows) Hlen) as [Hwl Hfit].
  set (ws := col_widths (h :: rows)) in *.
  assert (Hws : ws <> []) by (destruct ws; [destruct h; [congruence | discriminate] | discriminate]).
  unfold parse_layout, layout. fold ws.
  rewrite <- (map_map (render_row ws) (fun l => l ++ [10%N])).
  rewrite lines_of_concat.
  2:{ apply Forall_forall. intros l Hl. apply in_map_iff in Hl. destruct Hl as (r & <- & Hr).
      rewrite Forall_forall in Hfit, Hokc. apply render_row_no_nl; auto. }
  cbn [map]. f_equal.
  inversion Hfit as [|h0 rows0 Hfh Hfrows]; subst.
  inversion Hokc as [|h0 rows0 Hoh Horows]; subst.
  (* the lengths read from the title line *)
  assert (Hcut : cut_header (render_row ws h) 0 = map (@length N) (segs ws h)).
  { rewrite render_row_segs. pose proof (segs_hseg ws h Hfh Hh) as Hsg.
    destruct (segs ws h) as [|s sg] eqn:E; [exfalso; now apply (segs_nonempty ws h Hws)|].
    inversion Hsg; subst. now apply cut_header_segs. }
  rewrite Hcut.
  assert (Hrow : forall r, fits ws r -> Forall okc r ->
            map cell_of_seg (split_lens (map (@length N) (segs ws h)) (render_row ws r)) = r).
  { intros r Hfr Hor. rewrite render_row_segs, split_lens_ok by (now apply segs_lens_ok).
    now apply map_cell_of_seg_segs. }
  f_equal; [now apply Hrow|].
  rewrite map_map. rewrite <- (map_id rows) at 2. apply map_ext_in. intros r Hr.
  rewrite Forall_forall in Hfrows, Horows. now apply Hrow; auto.
Qed.
