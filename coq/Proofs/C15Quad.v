(* C15, Gaussian and Eisenstein integers (qint.rs): ring laws of the mirrored multiplication,
   multiplicative norm, rounding division with its remainder bound, units and the quadrant / sextant
   tables of normalizing_unit; packaged as [euc_dict_laws] so that the generic gcd theorems apply. *)
From Coq Require Import ZArith Lia Bool Psatz.
Require Import Yui.Base.Ring Yui.Model.Euclid Yui.Proofs.C15Gcd Yui.Proofs.C15Int.
Local Open Scope Z_scope.

Lemma q_eqb_eq u v : q_eqb u v = true <-> u = v.
Proof.
  destruct u as [a b], v as [c d]. unfold q_eqb. cbn [fst snd].
  rewrite andb_true_iff, !Z.eqb_eq. split; [intros [-> ->]; reflexivity|intros [= -> ->]; auto].
Qed.

Lemma pair_neq_zero (a b : Z) : (a, b) <> q_zero <-> a <> 0 \/ b <> 0.
Proof.
  unfold q_zero. split.
  - intros H. destruct (Z.eq_dec a 0) as [->|]; [|auto]. destruct (Z.eq_dec b 0) as [->|]; [|auto]. contradiction.
  - intros H [= -> ->]. lia.
Qed.

(* ================================ Gaussian integers ================================ *)
Lemma g_mul_eq u v : g_mul u v = (fst u * fst v - snd u * snd v, fst u * snd v + snd u * fst v).
Proof.
  destruct u as [a b], v as [c d]. unfold g_mul. cbn [fst snd].
  destruct (Z.eqb_spec b 0) as [->|_]; [f_equal; ring|].
  destruct (Z.eqb_spec d 0) as [->|_]; f_equal; ring.
Qed.

Ltac qring_law mul_eq :=
  intros; repeat match goal with u : qint |- _ => destruct u as [? ?] end;
  repeat rewrite mul_eq; unfold q_add, q_neg, q_zero, q_one; cbn [fst snd];
  repeat rewrite mul_eq; cbn [fst snd]; f_equal; ring.

Lemma gauss_ring_laws : ring_laws gauss_ring.
Proof.
  constructor; unfold gauss_ring; cbn [radd rneg rmul rzero rone reqb];
    try (qring_law g_mul_eq).
  apply q_eqb_eq.
Qed.

Lemma g_norm_eq u : g_norm u = fst u * fst u + snd u * snd u.
Proof. destruct u as [a b]. unfold g_norm. cbn [fst snd]. ring. Qed.
Lemma g_norm_mul u v : g_norm (g_mul u v) = g_norm u * g_norm v.
Proof. rewrite g_mul_eq, !g_norm_eq. cbn [fst snd]. ring. Qed.
Lemma g_norm_nonneg u : 0 <= g_norm u.
Proof. rewrite g_norm_eq. nia. Qed.
Lemma g_norm_zero u : g_norm u = 0 -> u = q_zero.
Proof. destruct u as [a b]. rewrite g_norm_eq. cbn [fst snd]. intros H. unfold q_zero. f_equal; nia. Qed.
Lemma g_norm_pos u : u <> q_zero -> 0 < g_norm u.
Proof. intros H. pose proof (g_norm_nonneg u). destruct (Z.eq_dec (g_norm u) 0) as [E|]; [|lia]. apply g_norm_zero in E. contradiction. Qed.

Lemma gauss_integral : integral gauss_ring.
Proof.
  split; cbn; [discriminate|]. intros u v H.
  assert (E : g_norm u * g_norm v = 0) by (rewrite <- g_norm_mul, H; reflexivity).
  apply Z.mul_eq_0 in E. destruct E as [E|E]; [left|right]; now apply g_norm_zero.
Qed.

(* rounding division: N(u - v q) <= N(v) / 2 *)
Lemma g_div_rem u v : v <> q_zero ->
  exists q r, g_div u v = Some q /\ g_rem u v = Some r /\
              u = q_add (g_mul q v) r /\ 2 * g_norm r <= g_norm v.
Proof.
  intros Hv. pose proof (g_norm_pos v Hv) as Hn.
  unfold g_rem, g_div, g_div_round.
  destruct (g_mul u (g_conj v)) as [x y] eqn:Ew.
  destruct (int_div_round_err x (g_norm v) Hn) as (q1 & -> & H1).
  destruct (int_div_round_err y (g_norm v) Hn) as (q2 & -> & H2). cbn [obind].
  do 2 eexists. split; [reflexivity|]. split; [reflexivity|].
  rewrite g_mul_eq in Ew. destruct u as [a b], v as [c d]. unfold g_conj in Ew. cbn [fst snd] in Ew.
  injection Ew as Ex Ey.
  rewrite !g_mul_eq. unfold q_add, q_sub. cbn [fst snd]. split; [f_equal; ring|].
  rewrite g_norm_eq in *. cbn [fst snd] in *.
  set (n := c * c + d * d) in *.
  set (r1 := a - (c * q1 - d * q2)). set (r2 := b - (c * q2 + d * q1)).
  (* (r1 + r2 i) * conj v = (x - n q1) + (y - n q2) i *)
  assert (E : (r1 * r1 + r2 * r2) * n = (x - q1 * n) * (x - q1 * n) + (y - q2 * n) * (y - q2 * n)).
  { unfold r1, r2, n. rewrite <- Ex, <- Ey. ring. }
  assert (B1 : 4 * ((x - q1 * n) * (x - q1 * n)) <= n * n) by nia.
  assert (B2 : 4 * ((y - q2 * n) * (y - q2 * n)) <= n * n) by nia.
  nia.
Qed.

Lemma g_div_zero u : g_div u q_zero = None /\ g_rem u q_zero = None.
Proof.
  unfold g_rem, g_div, g_div_round. destruct (g_mul u (g_conj q_zero)) as [x y]. split; reflexivity.
Qed.

(* units *)
Lemma g_unit_cases u : g_is_unit u = true <-> u = (1, 0) \/ u = (-1, 0) \/ u = (0, 1) \/ u = (0, -1).
Proof.
  unfold g_is_unit. rewrite int_is_unit_spec, g_norm_eq. destruct u as [a b]. cbn [fst snd]. split.
  - intros H. assert (Ha : -1 <= a <= 1) by nia. assert (Hb : -1 <= b <= 1) by nia.
    assert (C : (a = 1 /\ b = 0) \/ (a = -1 /\ b = 0) \/ (a = 0 /\ b = 1) \/ (a = 0 /\ b = -1)) by nia.
    destruct C as [[-> ->]|[[-> ->]|[[-> ->]|[-> ->]]]]; auto.
  - intros [E|[E|[E|E]]]; injection E as -> ->; left; reflexivity.
Qed.

Ltac cmp_cases :=
  repeat match goal with
  | |- context [?x <? ?y] => destruct (Z.ltb_spec x y)
  end; cbn [andb negb].

Lemma gauss_unit_laws : unit_laws gauss_ring (dict_units gauss_dict).
Proof.
  constructor; cbn.
  - (* inv a = Some b -> a * b = 1 *)
    intros u w. unfold g_inv, int_inv. fold (g_is_unit u). destruct (g_is_unit u) eqn:E; [|discriminate].
    intros [= <-]. apply g_unit_cases in E. destruct E as [->|[->|[->|->]]]; reflexivity.
  - intros u. unfold g_inv, int_inv. fold (g_is_unit u). destruct (g_is_unit u); split; intros H; eauto; try discriminate.
    destruct H as [b H]; discriminate.
  - intros u w H. unfold g_is_unit. apply int_is_unit_spec.
    assert (E : g_norm u * g_norm w = 1) by (rewrite <- g_norm_mul, H; reflexivity).
    pose proof (g_norm_nonneg u). pose proof (g_norm_nonneg w). left. nia.
  - intros [a b]. unfold g_nunit. cmp_cases; reflexivity.
  - intros [a b]. rewrite g_mul_eq. unfold g_nunit at 2. cbn [fst snd].
    cmp_cases; unfold q_neg, q_omega, q_one; cbn [fst snd]; unfold g_nunit; cmp_cases; try reflexivity; lia.
  - intros [a b] v Hv. apply g_unit_cases in Hv. rewrite !g_mul_eq.
    destruct Hv as [->|[->|[->|->]]]; cbn [fst snd]; unfold g_nunit; cmp_cases;
      unfold q_neg, q_omega, q_one; cbn [fst snd]; try (f_equal; lia).
Qed.

Theorem gauss_laws : euc_dict_laws gauss_dict g_norm.
Proof.
  constructor.
  - exact gauss_ring_laws.
  - exact gauss_integral.
  - exact gauss_unit_laws.
  - exact g_norm_nonneg.
  - exact g_norm_zero.
  - intros b c Hb Hc. cbn. rewrite g_norm_mul. pose proof (g_norm_pos c Hc). pose proof (g_norm_nonneg b). nia.
  - exact g_div_zero.
  - exact g_div_rem.
Qed.
