(* C15, Gaussian and Eisenstein integers (qint.rs): ring laws of the mirrored multiplication,
   multiplicative norm, rounding division with its remainder bound, units and the quadrant / sextant
   tables of normalizing_unit; packaged as [euc_dict_laws] so that the generic gcd theorems apply. *)
From Coq Require Import ZArith Lia Bool.
Require Import Yui.Base.Ring Yui.Model.Euclid Yui.Proofs.C15Gcd Yui.Proofs.C15Int.
Local Open Scope Z_scope.

Lemma q_eqb_eq u v : q_eqb u v = true <-> u = v.
Proof.
  destruct u as [a b], v as [c d]. unfold q_eqb. cbn [fst snd].
  rewrite andb_true_iff, !Z.eqb_eq. split; [intros [-> ->]; reflexivity|intros [= -> ->]; auto].
Qed.

Lemma pair_neq_zero (a b : Z) : (a, b) <> q_zero <-> a <> 0 \/ b <> 0.
Proof.
  unfold q_zero. split.
  - intros H. destruct (Z.eq_dec a 0) as [-> | ]; [|auto]. destruct (Z.eq_dec b 0) as [-> | ]; [|auto]. contradiction.
  - intros H [= -> ->]. lia.
Qed.

(* ---------- arithmetic helpers (kept in clean contexts for nia / lia) ---------- *)
Lemma sq_bound e n : - n <= 2 * e <= n -> 4 * (e * e) <= n * n.
Proof. intros H. nia. Qed.
Lemma half_bound N n s : 0 < n -> N * n = s -> 4 * s <= 2 * (n * n) -> 2 * N <= n.
Proof. intros Hn E H. nia. Qed.
Lemma tq_bound N n s : 0 < n -> N * n = s -> 4 * s <= 3 * (n * n) -> 4 * N <= 3 * n.
Proof. intros Hn E H. nia. Qed.
Lemma eis_bound al be n : - n <= 2 * al <= n -> - n <= 2 * be <= n ->
  4 * (al * al - al * be + be * be) <= 3 * (n * n).
Proof.
  intros H1 H2.
  assert (A : 0 <= (n - 2 * al) * (n + 2 * al)) by (apply Z.mul_nonneg_nonneg; lia).
  assert (B : 0 <= (n - 2 * be) * (n + 2 * be)) by (apply Z.mul_nonneg_nonneg; lia).
  assert (C1 : 0 <= (n - 2 * al) * (n - 2 * be)) by (apply Z.mul_nonneg_nonneg; lia).
  assert (C2 : 0 <= (n + 2 * al) * (n + 2 * be)) by (apply Z.mul_nonneg_nonneg; lia).
  lia.
Qed.
Lemma cube_halves N n : 0 <= N -> 0 < n -> 4 * N <= 3 * n -> 2 * N ^ 3 <= n ^ 3.
Proof.
  intros H0 Hn H.
  assert (A : (4 * N) ^ 3 <= (3 * n) ^ 3) by (apply Z.pow_le_mono_l; lia).
  replace ((4 * N) ^ 3) with (64 * N ^ 3) in A by ring.
  replace ((3 * n) ^ 3) with (27 * n ^ 3) in A by ring.
  assert (0 <= N ^ 3) by (apply Z.pow_nonneg; lia).
  assert (0 < n ^ 3) by (apply Z.pow_pos_nonneg; lia).
  lia.
Qed.
Lemma sum_sq_zero a b : a * a + b * b = 0 -> a = 0 /\ b = 0.
Proof. intros H. split; nia. Qed.
Lemma sum_sq_one a b : a * a + b * b = 1 ->
  (a = 1 /\ b = 0) \/ (a = -1 /\ b = 0) \/ (a = 0 /\ b = 1) \/ (a = 0 /\ b = -1).
Proof.
  intros H. assert (Ha : -1 <= a <= 1) by nia. assert (Hb : -1 <= b <= 1) by nia.
  assert (Ca : a = -1 \/ a = 0 \/ a = 1) by lia. assert (Cb : b = -1 \/ b = 0 \/ b = 1) by lia.
  destruct Ca as [-> | [-> | ->]]; destruct Cb as [-> | [-> | ->]]; cbn in H; try discriminate; auto 10.
Qed.

(* ================================ Gaussian integers ================================ *)
Lemma g_mul_eq u v : g_mul u v = (fst u * fst v - snd u * snd v, fst u * snd v + snd u * fst v).
Proof.
  destruct u as [a b], v as [c d]. unfold g_mul. cbn [fst snd].
  destruct (Z.eqb_spec b 0) as [-> | _]; [f_equal; ring|].
  destruct (Z.eqb_spec d 0) as [-> | _]; f_equal; ring.
Qed.

Ltac qring_law mul_eq :=
  intros; repeat match goal with u : qint |- _ => destruct u as [? ?] end;
  repeat rewrite mul_eq; unfold q_add, q_neg, q_zero, q_one; cbn [fst snd];
  repeat rewrite mul_eq; cbn [fst snd]; f_equal; ring.

Lemma gauss_ring_laws : ring_laws gauss_ring.
Proof.
  constructor; unfold gauss_ring; cbn [radd rneg rmul rzero rone reqb];
    try (qring_law g_mul_eq).
  apply q_eqb_eq.
Qed.

Lemma g_norm_eq u : g_norm u = fst u * fst u + snd u * snd u.
Proof. destruct u as [a b]. unfold g_norm. cbn [fst snd]. ring. Qed.
Lemma g_norm_mul u v : g_norm (g_mul u v) = g_norm u * g_norm v.
Proof. rewrite g_mul_eq, !g_norm_eq. cbn [fst snd]. ring. Qed.
Lemma g_norm_nonneg u : 0 <= g_norm u.
Proof. rewrite g_norm_eq. nia. Qed.
Lemma g_norm_zero u : g_norm u = 0 -> u = q_zero.
Proof. destruct u as [a b]. rewrite g_norm_eq. cbn [fst snd]. intros H. destruct (sum_sq_zero a b H) as [-> ->]. reflexivity. Qed.
Lemma g_norm_pos u : u <> q_zero -> 0 < g_norm u.
Proof. intros H. pose proof (g_norm_nonneg u). destruct (Z.eq_dec (g_norm u) 0) as [E|]; [|lia]. apply g_norm_zero in E. contradiction. Qed.

Lemma gauss_integral : integral gauss_ring.
Proof.
  split; cbn; [discriminate|]. intros u v H.
  assert (E : g_norm u * g_norm v = 0) by (rewrite <- g_norm_mul, H; reflexivity).
  apply Z.mul_eq_0 in E. destruct E as [E|E]; [left|right]; now apply g_norm_zero.
Qed.

(* rounding division: N(u - v q) <= N(v) / 2 *)
Lemma g_div_rem u v : v <> q_zero ->
  exists q r, g_div u v = Some q /\ g_rem u v = Some r /\
              u = q_add (g_mul q v) r /\ 2 * g_norm r <= g_norm v.
Proof.
  intros Hv. pose proof (g_norm_pos v Hv) as Hn.
  unfold g_rem, g_div, g_div_round.
  destruct (g_mul u (g_conj v)) as [x y] eqn:Ew.
  destruct (int_div_round_err x (g_norm v) Hn) as (q1 & -> & H1).
  destruct (int_div_round_err y (g_norm v) Hn) as (q2 & -> & H2). cbn [obind].
  do 2 eexists. split; [reflexivity|]. split; [reflexivity|].
  rewrite g_mul_eq in Ew. destruct u as [a b], v as [c d]. unfold g_conj in Ew. cbn [fst snd] in Ew.
  injection Ew as Ex Ey.
  rewrite !g_mul_eq. unfold q_add, q_sub. cbn [fst snd]. split; [f_equal; ring|].
  rewrite g_norm_eq in Hn, H1, H2. rewrite !g_norm_eq. cbn [fst snd] in *.
  set (n := c * c + d * d) in *.
  set (r1 := a - (c * q1 - d * q2)). set (r2 := b - (c * q2 + d * q1)).
  (* (r1 + r2 i) * conj v = (x - n q1) + (y - n q2) i *)
  assert (E : (r1 * r1 + r2 * r2) * n = (x - q1 * n) * (x - q1 * n) + (y - q2 * n) * (y - q2 * n)).
  { unfold r1, r2, n. rewrite <- Ex, <- Ey. ring. }
  pose proof (sq_bound (x - q1 * n) n H1) as B1.
  pose proof (sq_bound (y - q2 * n) n H2) as B2.
  apply (half_bound _ n _ Hn E). lia.
Qed.

Lemma g_div_zero u : g_div u q_zero = None /\ g_rem u q_zero = None.
Proof.
  unfold g_rem, g_div, g_div_round. destruct (g_mul u (g_conj q_zero)) as [x y]. split; reflexivity.
Qed.

(* units *)
Lemma g_unit_cases u : g_is_unit u = true <-> u = (1, 0) \/ u = (-1, 0) \/ u = (0, 1) \/ u = (0, -1).
Proof.
  unfold g_is_unit. rewrite int_is_unit_spec, g_norm_eq. destruct u as [a b]. cbn [fst snd]. split.
  - intros H. assert (H' : a * a + b * b = 1) by (pose proof (Z.square_nonneg a); pose proof (Z.square_nonneg b); lia).
    destruct (sum_sq_one a b H') as [[-> ->]|[[-> ->]|[[-> ->]|[-> ->]]]]; auto.
  - intros [E|[E|[E|E]]]; injection E as -> ->; left; reflexivity.
Qed.

Ltac cmp_cases :=
  repeat match goal with
  | |- context [?x <? ?y] => destruct (Z.ltb_spec x y)
  end; cbn [andb negb].

Ltac pick_conj := repeat split; first [lia | reflexivity].
Ltac choose_case := first [ solve [pick_conj] | solve [left; pick_conj] | right; choose_case ].

(* the quadrant table of normalizing_unit *)
Lemma g_nunit_cases a b :
  (0 < a /\ 0 <= b /\ g_nunit (a, b) = (1, 0)) \/
  (a <= 0 /\ 0 < b /\ g_nunit (a, b) = (0, -1)) \/
  (a < 0 /\ b <= 0 /\ g_nunit (a, b) = (-1, 0)) \/
  (0 <= a /\ b < 0 /\ g_nunit (a, b) = (0, 1)) \/
  (a = 0 /\ b = 0 /\ g_nunit (a, b) = (1, 0)).
Proof. unfold g_nunit. cmp_cases; unfold q_neg, q_omega, q_one; cbn [fst snd Z.opp]; choose_case. Qed.

(* [g_nunit (x, y) = (1, 0)] for a product that lands in the first quadrant *)
Ltac nunit_of x y cases :=
  let a' := fresh "a'" in let b' := fresh "b'" in
  set (a' := x) in *; set (b' := y) in *;
  destruct (cases a' b') as [(?&?&?)|[(?&?&?)|[(?&?&?)|[(?&?&?)|(?&?&?)]]]]; subst a' b'.

Lemma gauss_unit_laws : unit_laws gauss_ring (dict_units gauss_dict).
Proof.
  constructor; cbn.
  - (* inv a = Some b -> a * b = 1 *)
    intros u w. unfold g_inv, int_inv. fold (g_is_unit u). destruct (g_is_unit u) eqn:E; [|discriminate].
    intros [= <-]. apply g_unit_cases in E. destruct E as [-> | [-> | [-> | ->]]]; reflexivity.
  - intros u. unfold g_inv, int_inv. fold (g_is_unit u). destruct (g_is_unit u); split; intros H; eauto; try discriminate.
    destruct H as [b H]; discriminate.
  - intros u w H. unfold g_is_unit. apply int_is_unit_spec.
    assert (E : g_norm u * g_norm w = 1) by (rewrite <- g_norm_mul, H; reflexivity).
    pose proof (g_norm_nonneg u). destruct (Z.mul_eq_1 _ _ E); lia.
  - intros [a b]. unfold g_is_unit.
    destruct (g_nunit_cases a b) as [(_&_&->)|[(_&_&->)|[(_&_&->)|[(_&_&->)|(_&_&->)]]]]; reflexivity.
  - intros [a b]. rewrite g_mul_eq.
    destruct (g_nunit_cases a b) as [(?&?&->)|[(?&?&->)|[(?&?&->)|[(?&?&->)|(?&?&->)]]]]; cbn [fst snd];
    match goal with |- g_nunit (?x, ?y) = _ => nunit_of x y g_nunit_cases end;
    first [assumption | exfalso; lia].
  - intros [a b] v Hv. apply g_unit_cases in Hv. rewrite !g_mul_eq.
    destruct Hv as [-> | [-> | [-> | ->]]]; cbn [fst snd];
    destruct (g_nunit_cases a b) as [(?&?&->)|[(?&?&->)|[(?&?&->)|[(?&?&->)|(?&?&->)]]]];
    match goal with |- context [g_nunit (?x, ?y)] => nunit_of x y g_nunit_cases end;
    try (exfalso; lia);
    match goal with H : g_nunit _ = _ |- _ => rewrite H end; cbn [fst snd]; f_equal; lia.
Qed.

Theorem gauss_laws : euc_dict_laws gauss_dict g_norm.
Proof.
  constructor.
  - exact gauss_ring_laws.
  - exact gauss_integral.
  - exact gauss_unit_laws.
  - exact g_norm_nonneg.
  - exact g_norm_zero.
  - intros b c Hb Hc. cbn. rewrite g_norm_mul. pose proof (g_norm_pos c Hc). pose proof (g_norm_nonneg b). nia.
  - exact g_div_zero.
  - exact g_div_rem.
Qed.

(* ================================ Eisenstein integers ================================ *)
Lemma e_mul_eq u v :
  e_mul u v = (fst u * fst v - snd u * snd v, fst u * snd v + snd u * fst v + snd u * snd v).
Proof.
  destruct u as [a b], v as [c d]. unfold e_mul. cbn [fst snd].
  destruct (Z.eqb_spec b 0) as [->|_]; [f_equal; ring|].
  destruct (Z.eqb_spec d 0) as [->|_]; f_equal; ring.
Qed.

Lemma eisen_ring_laws : ring_laws eisen_ring.
Proof.
  constructor; unfold eisen_ring; cbn [radd rneg rmul rzero rone reqb];
    try (qring_law e_mul_eq).
  apply q_eqb_eq.
Qed.

Lemma e_norm_eq u : e_norm u = fst u * fst u + fst u * snd u + snd u * snd u.
Proof. destruct u as [a b]. unfold e_norm. cbn [fst snd]. ring. Qed.
Lemma e_norm_mul u v : e_norm (e_mul u v) = e_norm u * e_norm v.
Proof. rewrite e_mul_eq, !e_norm_eq. cbn [fst snd]. ring. Qed.
Lemma e_norm_4 u : 4 * e_norm u = (2 * fst u + snd u) * (2 * fst u + snd u) + 3 * (snd u * snd u).
Proof. rewrite e_norm_eq. ring. Qed.
Lemma e_norm_nonneg u : 0 <= e_norm u.
Proof. pose proof (e_norm_4 u). pose proof (Z.square_nonneg (2 * fst u + snd u)). pose proof (Z.square_nonneg (snd u)). lia. Qed.
Lemma e_norm_zero u : e_norm u = 0 -> u = q_zero.
Proof.
  intros H. pose proof (e_norm_4 u) as H4. rewrite H in H4. destruct u as [a b]. cbn [fst snd] in *.
  pose proof (Z.square_nonneg (2 * a + b)). pose proof (Z.square_nonneg b).
  assert (Hb : b * b = 0) by lia. assert (Ha : (2 * a + b) * (2 * a + b) = 0) by lia.
  apply Z.mul_eq_0 in Hb. apply Z.mul_eq_0 in Ha. unfold q_zero. f_equal; lia.
Qed.
Lemma e_norm_pos u : u <> q_zero -> 0 < e_norm u.
Proof. intros H. pose proof (e_norm_nonneg u). destruct (Z.eq_dec (e_norm u) 0) as [E|]; [|lia]. apply e_norm_zero in E. contradiction. Qed.

Lemma eisen_integral : integral eisen_ring.
Proof.
  split; cbn; [discriminate|]. intros u v H.
  assert (E : e_norm u * e_norm v = 0) by (rewrite <- e_norm_mul, H; reflexivity).
  apply Z.mul_eq_0 in E. destruct E as [E|E]; [left|right]; now apply e_norm_zero.
Qed.

(* rounding division in the basis (1, ω - 1): N(u - v q) <= 3 N(v) / 4 *)
Lemma e_div_rem u v : v <> q_zero ->
  exists q r, e_div u v = Some q /\ e_rem u v = Some r /\
              u = q_add (e_mul q v) r /\ 4 * e_norm r <= 3 * e_norm v.
Proof.
  intros Hv. pose proof (e_norm_pos v Hv) as Hn.
  unfold e_rem, e_div, e_div_round.
  destruct (e_mul u (e_conj v)) as [x y] eqn:Ew.
  destruct (int_div_round_err (x + y) (e_norm v) Hn) as (m & -> & H1).
  destruct (int_div_round_err y (e_norm v) Hn) as (k & -> & H2). cbn [obind].
  do 2 eexists. split; [reflexivity|]. split; [reflexivity|].
  rewrite e_mul_eq in Ew. destruct u as [a b], v as [c d]. unfold e_conj in Ew. cbn [fst snd] in Ew.
  injection Ew as Ex Ey.
  rewrite !e_mul_eq. unfold q_add, q_sub. cbn [fst snd]. split; [f_equal; ring|].
  rewrite e_norm_eq in Hn, H1, H2. rewrite !e_norm_eq. cbn [fst snd] in *.
  set (n := c * c + c * d + d * d) in *.
  set (r1 := a - (c * (m - k) - d * k)). set (r2 := b - (c * k + d * (m - k) + d * k)).
  set (al := x + y - m * n) in *. set (be := y - k * n) in *.
  assert (E : (r1 * r1 + r1 * r2 + r2 * r2) * n = al * al - al * be + be * be).
  { unfold r1, r2, al, be, n. rewrite <- Ex, <- Ey. ring. }
  pose proof (eis_bound al be n H1 H2) as B.
  apply (tq_bound _ n _ Hn E). exact B.
Qed.

Lemma e_div_zero u : e_div u q_zero = None /\ e_rem u q_zero = None.
Proof.
  unfold e_rem, e_div, e_div_round. destruct (e_mul u (e_conj q_zero)) as [x y]. split; reflexivity.
Qed.

(* units: the six sixth roots of unity *)
Lemma eis_norm_one a b : a * a + a * b + b * b = 1 ->
  (a = 1 /\ b = 0) \/ (a = 0 /\ b = 1) \/ (a = -1 /\ b = 1) \/
  (a = -1 /\ b = 0) \/ (a = 0 /\ b = -1) \/ (a = 1 /\ b = -1).
Proof.
  intros H.
  assert (H4 : (2 * a + b) * (2 * a + b) + 3 * (b * b) = 4) by lia.
  pose proof (Z.square_nonneg (2 * a + b)).
  assert (Hb : -1 <= b <= 1) by nia.
  assert (Cb : b = -1 \/ b = 0 \/ b = 1) by lia.
  destruct Cb as [-> | [-> | ->]].
  - assert (Ha : -1 <= 2 * a - 1 <= 1) by nia. assert (Ca : a = 0 \/ a = 1) by lia. destruct Ca as [-> | ->]; auto 10.
  - assert (Ha : -1 <= a <= 1) by nia. assert (Ca : a = -1 \/ a = 0 \/ a = 1) by lia.
    destruct Ca as [-> | [-> | ->]]; cbn in H; try discriminate; auto 10.
  - assert (Ha : -1 <= 2 * a + 1 <= 1) by nia. assert (Ca : a = 0 \/ a = -1) by lia. destruct Ca as [-> | ->]; auto 10.
Qed.

Lemma e_unit_cases u : e_is_unit u = true <->
  u = (1, 0) \/ u = (0, 1) \/ u = (-1, 1) \/ u = (-1, 0) \/ u = (0, -1) \/ u = (1, -1).
Proof.
  unfold e_is_unit. rewrite int_is_unit_spec. split.
  - intros H. pose proof (e_norm_nonneg u) as Hn. assert (H' : e_norm u = 1) by lia.
    rewrite e_norm_eq in H'. destruct u as [a b]. cbn [fst snd] in H'.
    destruct (eis_norm_one a b H') as [[-> ->]|[[-> ->]|[[-> ->]|[[-> ->]|[[-> ->]|[-> ->]]]]]]; auto 10.
  - intros [E|[E|[E|[E|[E|E]]]]]; subst u; left; reflexivity.
Qed.

(* the sextant table of normalizing_unit *)
Lemma e_nunit_cases a b :
  (0 < a /\ 0 <= b /\ e_nunit (a, b) = (1, 0)) \/
  (a <= 0 /\ 0 < a + b /\ e_nunit (a, b) = (1, -1)) \/
  (a + b <= 0 /\ 0 < b /\ e_nunit (a, b) = (0, -1)) \/
  (a < 0 /\ b <= 0 /\ e_nunit (a, b) = (-1, 0)) \/
  (0 <= a /\ a + b < 0 /\ e_nunit (a, b) = (-1, 1)) \/
  (0 <= a + b /\ b < 0 /\ e_nunit (a, b) = (0, 1)) \/
  (a = 0 /\ b = 0 /\ e_nunit (a, b) = (1, 0)).
Proof. unfold e_nunit. cbv zeta. cmp_cases; unfold q_neg, q_omega, q_one; cbn [fst snd Z.opp]; choose_case. Qed.

Ltac e_nunit_of x y :=
  let a' := fresh "a'" in let b' := fresh "b'" in
  set (a' := x) in *; set (b' := y) in *;
  destruct (e_nunit_cases a' b') as [(?&?&?)|[(?&?&?)|[(?&?&?)|[(?&?&?)|[(?&?&?)|[(?&?&?)|(?&?&?)]]]]]]; subst a' b'.

Lemma eisen_unit_laws : unit_laws eisen_ring (dict_units eisen_dict).
Proof.
  constructor; cbn.
  - intros u w. unfold e_inv, int_inv. fold (e_is_unit u). destruct (e_is_unit u) eqn:E; [|discriminate].
    intros [= <-]. apply e_unit_cases in E. destruct E as [-> | [-> | [-> | [-> | [-> | ->]]]]]; reflexivity.
  - intros u. unfold e_inv, int_inv. fold (e_is_unit u). destruct (e_is_unit u); split; intros H; eauto; try discriminate.
    destruct H as [b H]; discriminate.
  - intros u w H. unfold e_is_unit. apply int_is_unit_spec.
    assert (E : e_norm u * e_norm w = 1) by (rewrite <- e_norm_mul, H; reflexivity).
    pose proof (e_norm_nonneg u). destruct (Z.mul_eq_1 _ _ E); lia.
  - intros [a b]. unfold e_is_unit.
    destruct (e_nunit_cases a b) as [(_&_&->)|[(_&_&->)|[(_&_&->)|[(_&_&->)|[(_&_&->)|[(_&_&->)|(_&_&->)]]]]]]; reflexivity.
  - intros [a b]. rewrite e_mul_eq.
    destruct (e_nunit_cases a b) as [(?&?&->)|[(?&?&->)|[(?&?&->)|[(?&?&->)|[(?&?&->)|[(?&?&->)|(?&?&->)]]]]]]; cbn [fst snd];
    match goal with |- e_nunit (?x, ?y) = _ => e_nunit_of x y end;
    first [assumption | exfalso; lia].
  - intros [a b] v Hv. apply e_unit_cases in Hv. rewrite !e_mul_eq.
    destruct Hv as [-> | [-> | [-> | [-> | [-> | ->]]]]]; cbn [fst snd];
    destruct (e_nunit_cases a b) as [(?&?&->)|[(?&?&->)|[(?&?&->)|[(?&?&->)|[(?&?&->)|[(?&?&->)|(?&?&->)]]]]]];
    match goal with |- context [e_nunit (?x, ?y)] => e_nunit_of x y end;
    try (exfalso; lia);
    match goal with H : e_nunit _ = _ |- _ => rewrite H end; cbn [fst snd]; f_equal; lia.
Qed.

Definition e_phi (u : qint) : Z := e_norm u ^ 3.

Theorem eisen_laws : euc_dict_laws eisen_dict e_phi.
Proof.
  constructor.
  - exact eisen_ring_laws.
  - exact eisen_integral.
  - exact eisen_unit_laws.
  - intros a. apply Z.pow_nonneg, e_norm_nonneg.
  - intros a H. apply e_norm_zero. unfold e_phi in H. apply Z.pow_eq_0_iff in H. lia.
  - intros b c Hb Hc. change (e_phi b <= e_phi (e_mul c b)). unfold e_phi. rewrite e_norm_mul. apply Z.pow_le_mono_l.
    pose proof (e_norm_pos c Hc). pose proof (e_norm_nonneg b). nia.
  - exact e_div_zero.
  - intros a b Hb. destruct (e_div_rem a b Hb) as (q & r & H1 & H2 & H3 & H4).
    exists q, r. repeat split; try assumption. unfold e_phi.
    apply cube_halves; [apply e_norm_nonneg|now apply e_norm_pos|assumption].
Qed.
