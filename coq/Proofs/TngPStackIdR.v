(* Vertical composition, part 8: the identity cobordism on top.  c.stack(Cob::id(&c.tgt())) gives back the components
   of c (unit test `stack_id` of cob.rs). *)
From Coq Require Import List Arith Bool Lia ZArith Permutation Sorted.
Import ListNotations.
Require Import Yui.Model.Link Yui.Model.Tng Yui.Model.TngCob Yui.Model.TngStack.
Require Import Yui.Proofs.TngPBase Yui.Proofs.TngPSegs Yui.Proofs.TngPDeg Yui.Proofs.TngPJoin Yui.Proofs.TngPStep
  Yui.Proofs.TngPSeq Yui.Proofs.TngPConn Yui.Proofs.TngPMain Yui.Proofs.TngPCob Yui.Proofs.TngPCobDeg
  Yui.Proofs.TngPStackBase Yui.Proofs.TngPStackBfs Yui.Proofs.TngPStackWf Yui.Proofs.TngPStackDeg
  Yui.Proofs.TngPStackAssoc Yui.Proofs.TngPStackId Yui.Proofs.TngPStackIdL.

Definition idr_inv (bot top : list cobcomp) : Prop :=
  stack_wf bot top /\ Permutation top (ids_of (flat ctgt bot)) /\ Forall ok_comp bot.

Lemma idr_step : forall b0 bot1 top bot' top' gb gt, idr_inv (b0 :: bot1) top ->
  take_stackable (b0 :: bot1) top = Some (bot', top', gb, gt) ->
  gb = [b0] /\ Permutation (b0 :: bot1) (bot' ++ [b0]) /\ Permutation top (top' ++ gt) /\
  (gt <> [] -> stack_comps [b0] gt = Some b0) /\ idr_inv bot' top'.
Proof.
  intros b0 bot1 top bot' top' gb gt (W & PT & OK) Et.
  pose proof (wf_mid_t _ _ W) as IT. pose proof (wf_mid_b _ _ W) as IB.
  assert (Htop : forall t, In t top -> exists m, t = cc_id m /\ In m (flat ctgt (b0 :: bot1))).
  { intros t Ht. apply in_ids_of. eapply Permutation_in; [exact PT|exact Ht]. }
  destruct (take_stackable_perm _ _ _ _ _ _ Et) as (Pa & Pb & _ & Hhd & _).
  pose proof (take_stackable_closed _ _ _ _ _ _ IB IT Et) as Cl. pose proof Cl as [C1 C2].
  destruct (Hhd _ _ eq_refl) as (more & Hgb).
  assert (Hb0 : In b0 (b0 :: bot1)) by (left; reflexivity).
  destruct (take_stackable_sound (eq b0) (fun t => exists m, t = cc_id m /\ In m (ctgt b0)) _ _ _ _ _ _ Et) as [Fb Ft].
  { intros b t m <- Ht Hm Hh. destruct (Htop t Ht) as (m1 & -> & Hm1). exists m. split; auto.
    apply hit_iff in Hh. destruct Hh as (m2 & Hm2 & He). cbn in Hm2. destruct Hm2 as [<-|[]].
    destruct (unori_eq_shares m1 m (inv_simple_in _ _ IB Hm1) He) as (_ & _ & Hs).
    destruct (first_label m1 (inv_simple_in _ _ IB Hm1)) as (v & Hv). f_equal.
    apply (inv_same_comp (flat ctgt (b0 :: bot1)) m1 m v IB); auto; [eapply flat_in; eauto|apply Hs; exact Hv]. }
  { intros t b m (m1 & -> & Hm1) Hb Hm Hh. cbn in Hm. destruct Hm as [<-|[]].
    destruct (hit_shares ctgt (b0 :: bot1) m1 b IB Hb Hh) as [_ Hs].
    destruct (first_label m1 (inv_simple_in _ _ IB (flat_in _ _ _ _ Hb0 Hm1))) as (v & Hv).
    apply (owner_unique' ctgt (b0 :: bot1) b0 b v IB Hb0 Hb); [apply in_verts; exists m1; auto|apply Hs; exact Hv]. }
  { intros b r E. inversion E. reflexivity. }
  { intros t r E. discriminate. }
  (* the top half of the group: the identities over the target tangle of b0 *)
  assert (Ib0 : tng_inv (ctgt b0)) by (apply (flat_inv_in ctgt (b0 :: bot1)); auto).
  assert (Pg : Permutation gt (ids_of (ctgt b0))).
  { apply NoDup_Permutation.
    - apply (flat_nodup csrc); [apply (flat_sub csrc _ top' gt Pb IT)|].
      intros x Hx. rewrite Forall_forall in Ft. destruct (Ft x Hx) as (m & -> & _). discriminate.
    - apply nodup_ids_of. apply inv_nodup_paths. exact Ib0.
    - intros x. rewrite in_ids_of. split.
      + intros Hx. rewrite Forall_forall in Ft. apply Ft. exact Hx.
      + intros (m & -> & Hm).
        assert (Hin : In (cc_id m) top).
        { eapply Permutation_in; [apply Permutation_sym; exact PT|]. apply in_ids_of. exists m. split; auto. eapply flat_in; eauto. }
        assert (H : In (cc_id m) (top' ++ gt)) by (eapply Permutation_in; eauto).
        apply in_app_or in H. destruct H as [H|H]; auto. exfalso.
        assert (Hh : hit csrc m (cc_id m) = true) by (apply hit_self; left; reflexivity).
        rewrite (C1 b0 m (cc_id m)) in Hh; [discriminate|rewrite Hgb; left; reflexivity|exact Hm|exact H]. }
  assert (Egb : gb = [b0]).
  { destruct (ctgt b0) as [|m0 r0] eqn:Eb0.
    - cbn in Pg. apply Permutation_sym, Permutation_nil in Pg. subst gt.
      destruct (take_stackable_no_top _ _ _ _ _ Et) as [(E & _)|(b & r & E & ->)]; [discriminate|]. inversion E. reflexivity.
    - apply (all_equal_one ctgt gb b0); auto; [apply (flat_sub ctgt _ bot' gb Pa IB)|rewrite Eb0; discriminate|rewrite Hgb; left; reflexivity]. }
  clear Hgb Fb. subst gb. split; [reflexivity|]. split; [exact Pa|]. split; [exact Pb|].
  assert (OK0 : ok_comp b0) by (inversion OK; assumption).
  destruct OK0 as (Os & Ot & On). destruct (cc_nbdr b0) as [nb|] eqn:Enb; [|congruence].
  destruct (perm_ids_data gt (ctgt b0) Pg (proj1 Ib0)) as (Eu & _ & Dx & Dy & _ & Ptg).
  split.
  { intros Hgne.
    rewrite (stack_comps_compute [b0] gt (2 - 2 * Z.of_nat (cgenus b0) - Z.of_nat nb)%Z (Z.of_nat (tng_euler_num (ctgt b0)))
               (csrc b0) (ctgt b0) nb (cgenus b0)); auto.
    - rewrite Dx, Dy. destruct b0 as [s t g x y]. cbn. f_equal. f_equal; lia.
    - discriminate.
    - rewrite euls_single. unfold cc_euler. rewrite Enb. reflexivity.
    - cbn [map]. apply fold_connect_single. exact Os.
    - apply (fold_connect_perm gt ctgt); auto. eapply inv_perm; [apply Permutation_sym; exact Ptg|exact Ib0].
    - intros dx dy. rewrite <- Enb. apply cc_nbdr_ext; reflexivity.
    - unfold arcs_of. cbn [map sum_nat fold_right]. lia. }
  split; [exact (wf_rest _ _ _ _ _ _ W Pa Pb Cl)|]. split; [|eapply ok_tail; eauto].
  apply (Permutation_app_inv_r gt).
  eapply perm_trans; [apply Permutation_sym; exact Pb|]. eapply perm_trans; [exact PT|].
  eapply perm_trans; [apply Permutation_map; apply flat_perm; exact Pa|]. fold (ids_of (flat ctgt (bot' ++ [b0]))).
  rewrite flat_app, ids_of_app. apply Permutation_app_head. unfold flat at 1. cbn [flat_map]. rewrite app_nil_r.
  apply Permutation_sym. exact Pg.
Qed.

Lemma idr_loop : forall fuel bot top acc, idr_inv bot top -> length bot + length top <= fuel ->
  exists out, stack_loop fuel bot top acc = Some (Some out) /\ Permutation out (acc ++ bot).
Proof.
  induction fuel as [|f IH]; intros bot top acc Inv Hl.
  - destruct bot; [|cbn in Hl; lia]. destruct top; [|cbn in Hl; lia]. exists acc. cbn. rewrite app_nil_r. auto.
  - destruct bot as [|b0 bot1].
    + destruct Inv as (_ & PT & _). cbn in PT. apply Permutation_sym, Permutation_nil in PT. subst top.
      exists acc. cbn. rewrite app_nil_r. auto.
    + cbn [stack_loop is_nil andb].
      destruct (take_stackable (b0 :: bot1) top) as [[[[bot' top'] gb] gt]|] eqn:Et; [|exfalso; eapply take_stackable_some; eauto].
      destruct (idr_step _ _ _ _ _ _ _ Inv Et) as (-> & Pa & Pt & Ec & Inv').
      assert (Hlen : length bot' + length top' <= f).
      { apply Permutation_length in Pa, Pt. rewrite app_length in Pa, Pt. cbn [length] in *. lia. }
      destruct (IH bot' top' (acc ++ [b0]) Inv' Hlen) as (out & Eo & Po).
      assert (Hout : Permutation out (acc ++ b0 :: bot1)).
      { eapply perm_trans; [exact Po|]. rewrite <- app_assoc. apply Permutation_app_head.
        eapply perm_trans; [|apply Permutation_sym; exact Pa]. apply Permutation_app_comm. }
      destruct gt as [|t0 gt'].
      * cbn [is_nil]. exists out. auto.
      * cbn [is_nil]. rewrite Ec by discriminate. exists out. auto.
Qed.

Definition cob_okr (a : list cobcomp) : Prop := tng_inv (flat csrc a) /\ tng_inv (flat ctgt a) /\ Forall ok_comp a.

Theorem cob_stack_id_r : forall a, cob_okr a ->
  exists T ids c, cob_tgt a = Some T /\ cob_id T = Some ids /\ cob_stack a ids = Some c /\ Permutation c a.
Proof.
  intros a (Is & Ia & OK).
  destruct (fold_connect_disjoint (map ctgt a)) as (T & ET & PT & ST); [rewrite concat_map_flat; exact Ia|].
  rewrite concat_map_flat in PT.
  assert (ITT : tng_inv T) by (eapply inv_perm; [apply Permutation_sym; exact PT|exact Ia]).
  assert (Eid : cob_id T = Some (cc_isort (ids_of T))).
  { unfold cob_id, cob_new. apply cob_sort_some. apply Forall_forall. intros c Hc. apply in_ids_of in Hc.
    destruct Hc as (m & -> & Hm). cbn. split; repeat constructor; eapply inv_simple_in; eauto. }
  exists T, (cc_isort (ids_of T)).
  assert (Pids : Permutation (cc_isort (ids_of T)) (ids_of (flat ctgt a))).
  { eapply perm_trans; [apply cc_isort_perm|]. apply Permutation_map. exact PT. }
  assert (Inv : idr_inv a (cc_isort (ids_of T))).
  { split; [|split; [exact Pids|exact OK]].
    assert (F1 : Permutation (flat csrc (cc_isort (ids_of T))) (flat ctgt a)).
    { eapply perm_trans; [apply flat_perm; exact Pids|]. rewrite flat_src_ids. apply Permutation_refl. }
    constructor.
    - exact Is.
    - exact Ia.
    - eapply inv_perm; [apply Permutation_sym; exact F1|exact Ia].
    - intros m Hm. exists m. split; [eapply Permutation_in; [apply Permutation_sym; exact F1|exact Hm]|apply unori_eq_refl].
    - intros m Hm. exists m. split; [eapply Permutation_in; [exact F1|exact Hm]|apply unori_eq_refl]. }
  unfold cob_stack, cob_stack_fuel.
  destruct (is_nil a) eqn:N1.
  { destruct a; [|discriminate]. cbn in Pids. apply Permutation_sym, Permutation_nil in Pids. rewrite Pids in *. exists []. repeat split; auto. }
  destruct (is_nil (cc_isort (ids_of T))) eqn:N2.
  { exists a. repeat split; auto. }
  destruct (idr_loop (length a + length (cc_isort (ids_of T))) _ _ [] Inv (Nat.le_refl _)) as (out & Eo & Po).
  rewrite Eo. cbn [app] in Po.
  assert (Es : cob_sort out = Some (cc_isort out)).
  { apply cob_sort_some. apply Forall_forall. intros c Hc.
    assert (Hc' : In c a) by (eapply Permutation_in; eauto). rewrite Forall_forall in OK.
    destruct (OK c Hc') as (Os & Ot & _). split; [apply Os|apply Ot]. }
  exists (cc_isort out). repeat split; auto. eapply perm_trans; [apply cc_isort_perm|exact Po].
Qed.
