(* C02 invariance, part 4: the cube and the homology tables depend on the circles only through
   equality tests between circles.  If phi is a map on circles that preserves [list_eqb] on the circles
   that occur, applying phi to the circles of every vertex leaves the differentials [d_images] (hence
   [c_rows]) literally unchanged, and the tables ([kh_groups], [kh_groups_bigraded]) do not look at the
   circles of the generators at all. *)
From Coq Require Import List Arith Bool ZArith Lia.
Require Import Yui.Model.KhCube Yui.Model.KhHomology Yui.Proofs.C02Sorted.
Import ListNotations.

(* ---------- list lemmas ---------- *)
Lemma filter_map_comm {A B} (f : B -> bool) (g : A -> B) l :
  filter f (map g l) = map g (filter (fun x => f (g x)) l).
Proof. induction l as [|x l IH]; [reflexivity|]. cbn [map filter]. destruct (f (g x)); cbn [map]; now rewrite IH. Qed.

Lemma existsb_map {A B} (f : B -> bool) (g : A -> B) l : existsb f (map g l) = existsb (fun x => f (g x)) l.
Proof. induction l as [|x l IH]; [reflexivity|]. cbn [map existsb]. now rewrite IH. Qed.

Lemma existsb_ext_in {A} (f g : A -> bool) l : (forall x, In x l -> f x = g x) -> existsb f l = existsb g l.
Proof.
  induction l as [|x l IH]; intros H; [reflexivity|]. cbn [existsb].
  rewrite (H x (or_introl eq_refl)), IH; [reflexivity|]. intros y Hy. apply H. now right.
Qed.

Lemma index_where_map {A B} (f : B -> bool) (g : A -> B) l :
  index_where f (map g l) = index_where (fun x => f (g x)) l.
Proof. induction l as [|x l IH]; [reflexivity|]. cbn [map index_where]. now rewrite IH. Qed.

Lemma index_where_ext_in {A} (f g : A -> bool) l :
  (forall x, In x l -> f x = g x) -> index_where f l = index_where g l.
Proof.
  induction l as [|x l IH]; intros H; [reflexivity|]. cbn [index_where].
  rewrite (H x (or_introl eq_refl)), IH; [reflexivity|]. intros y Hy. apply H. now right.
Qed.

Lemma flat_map_map {A B C} (f : B -> list C) (g : A -> B) l : flat_map f (map g l) = flat_map (fun x => f (g x)) l.
Proof. induction l as [|x l IH]; [reflexivity|]. cbn [map flat_map]. now rewrite IH. Qed.

Lemma map_flat_map {A B C} (f : A -> list B) (g : B -> C) l : map g (flat_map f l) = flat_map (fun x => map g (f x)) l.
Proof. induction l as [|x l IH]; [reflexivity|]. cbn [flat_map]. now rewrite map_app, IH. Qed.

Lemma flat_map_ext_in {A B} (f g : A -> list B) l : (forall x, In x l -> f x = g x) -> flat_map f l = flat_map g l.
Proof.
  induction l as [|x l IH]; intros H; [reflexivity|]. cbn [flat_map].
  rewrite (H x (or_introl eq_refl)), IH; [reflexivity|]. intros y Hy. apply H. now right.
Qed.

Section CircleMap.
Variable phi : circle -> circle.
Variable good : circle -> Prop.
Hypothesis Hphi : forall c d, good c -> good d -> list_eqb (phi c) (phi d) = list_eqb c d.

Definition vmap (v : vertex) : vertex :=
  mk_vertex (v_state v) (map phi (v_circles v)) (v_base v) (v_labels v).
Definition gmap (g : vertex * label) : vertex * label := (vmap (fst g), snd g).
Definition cube_map (c : cube) : cube := mk_cube (c_n c) (map (map gmap) (c_gens c)) (c_rows c).

Definition cs_good (cs : list circle) : Prop := forall c, In c cs -> good c.
Definition vs_good (vs : list vertex) : Prop := forall v, In v vs -> cs_good (v_circles v).

Lemma in_part_map c ds : good c -> cs_good ds -> in_part (phi c) (map phi ds) = in_part c ds.
Proof.
  intros Hc Hd. unfold in_part. rewrite existsb_map. apply existsb_ext_in. intros d Hin. apply Hphi; [exact Hc|now apply Hd].
Qed.

Lemma label_of_map cs x c : good c -> cs_good cs -> label_of (map phi cs) x (phi c) = label_of cs x c.
Proof.
  intros Hc Hcs. unfold label_of. rewrite index_where_map.
  rewrite (index_where_ext_in _ (list_eqb c) cs); [reflexivity|]. intros d Hd. apply Hphi; [exact Hc|now apply Hcs].
Qed.

Lemma edge_images_map h t v w x : cs_good (v_circles v) -> cs_good (v_circles w) ->
  edge_images h t (vmap v) (vmap w) x = edge_images h t v w x.
Proof.
  intros Gv Gw. unfold edge_images. cbn [vmap v_circles].
  set (cs := v_circles v) in *. set (ds := v_circles w) in *.
  rewrite !filter_map_comm.
  rewrite (filter_ext_in (fun c => negb (in_part (phi c) (map phi ds))) (fun c => negb (in_part c ds)) cs)
    by (intros c Hc; now rewrite in_part_map by auto).
  rewrite (filter_ext_in (fun c => negb (in_part (phi c) (map phi cs))) (fun c => negb (in_part c cs)) ds)
    by (intros c Hc; now rewrite in_part_map by auto).
  assert (Rin : forall a, In a (filter (fun c => negb (in_part c ds)) cs) -> good a)
    by (intros a Ha; apply filter_In in Ha; apply Gv; tauto).
  assert (Ain : forall a, In a (filter (fun c => negb (in_part c cs)) ds) -> good a)
    by (intros a Ha; apply filter_In in Ha; apply Gw; tauto).
  destruct (filter (fun c => negb (in_part c ds)) cs) as [|a [|b [|b3 rr]]];
    destruct (filter (fun c => negb (in_part c cs)) ds) as [|c [|c2 [|c3 aa]]]; try reflexivity.
  - (* split: removed [a], added [c; c2] *)
    cbn [map].
    assert (Ga : good a) by (apply Rin; now left).
    assert (Gc : good c) by (apply Ain; now left).
    assert (Gc2 : good c2) by (apply Ain; right; now left).
    rewrite !label_of_map by assumption.
    apply map_ext. intros p. f_equal. rewrite map_map. apply map_ext_in. intros d Hd.
    rewrite !Hphi by auto. destruct (list_eqb d c); [reflexivity|]. destruct (list_eqb d c2); [reflexivity|].
    apply label_of_map; auto.
  - (* merge: removed [a; b], added [c] *)
    cbn [map].
    assert (Ga : good a) by (apply Rin; now left).
    assert (Gb : good b) by (apply Rin; right; now left).
    assert (Gc : good c) by (apply Ain; now left).
    rewrite !label_of_map by assumption.
    apply map_ext. intros p. f_equal. rewrite map_map. apply map_ext_in. intros d Hd.
    rewrite Hphi by auto. destruct (list_eqb d c); [reflexivity|]. apply label_of_map; auto.
Qed.

Lemma vertex_at_map vs s : vertex_at (map vmap vs) s = vmap (vertex_at vs s).
Proof. unfold vertex_at. change dummy_vertex with (vmap dummy_vertex) at 1. apply map_nth. Qed.

Lemma vertex_at_good vs s : vs_good vs -> cs_good (v_circles (vertex_at vs s)).
Proof.
  intros G. unfold vertex_at. destruct (nth_in_or_default (state_pos s) vs dummy_vertex) as [H| ->].
  - now apply G.
  - intros c [].
Qed.

Lemma gens_of_weight_map vs k : gens_of_weight (map vmap vs) k = map gmap (gens_of_weight vs k).
Proof.
  unfold gens_of_weight. rewrite filter_map_comm, flat_map_map, map_flat_map. cbn [vmap v_state v_labels].
  apply flat_map_ext. intros v. now rewrite map_map.
Qed.

Lemma gen_index_map gs s x : gen_index (map gmap gs) s x = gen_index gs s x.
Proof. unfold gen_index. now rewrite index_where_map. Qed.

Lemma gens_of_weight_In vs k v x : In (v, x) (gens_of_weight vs k) -> In v vs.
Proof.
  unfold gens_of_weight. intros H. apply in_flat_map in H. destruct H as [v' [Hv' H]].
  apply in_map_iff in H. destruct H as [y [E _]]. injection E as -> _. apply filter_In in Hv'. tauto.
Qed.

Lemma d_images_map vs h t k : vs_good vs -> d_images (map vmap vs) h t k = d_images vs h t k.
Proof.
  intros G. unfold d_images. rewrite !gens_of_weight_map, map_map.
  apply map_ext_in. intros [v x] Hin. cbn [gmap fst snd vmap v_state].
  apply gens_of_weight_In in Hin.
  apply flat_map_ext. intros i. rewrite vertex_at_map.
  change (mk_vertex (v_state v) (map phi (v_circles v)) (v_base v) (v_labels v)) with (vmap v).
  rewrite edge_images_map; [|now apply G|now apply vertex_at_good].
  apply map_ext. intros yc. now rewrite gen_index_map.
Qed.

(* ---------- the tables do not look at the circles ---------- *)
Definition sel_inv (sel : vertex * label -> bool) : Prop := forall g, sel (gmap g) = sel g.

Lemma gens_at_map c k : gens_at (cube_map c) k = map gmap (gens_at c k).
Proof. unfold gens_at. cbn [cube_map c_gens]. change (@nil (vertex * label)) with (map gmap []) at 1. apply map_nth. Qed.

Lemma combine_filter_map {R} (sel : vertex * label -> bool) gs (rows : list R) : sel_inv sel ->
  map snd (filter (fun p => sel (fst p)) (combine (map gmap gs) rows))
  = map snd (filter (fun p => sel (fst p)) (combine gs rows)).
Proof.
  intros Hs. revert rows. induction gs as [|g gs IH]; intros [|r rows]; try reflexivity.
  cbn [map combine filter fst]. rewrite Hs. destruct (sel g); cbn [map snd]; now rewrite IH.
Qed.

Lemma factors_map c k sel : sel_inv sel -> factors (cube_map c) k sel = factors c k sel.
Proof.
  intros Hs. unfold factors. change (rows_at (cube_map c) k) with (rows_at c k).
  destruct (rows_at c k) as [rows|]; [|reflexivity]. now rewrite gens_at_map, combine_filter_map.
Qed.

Lemma count_gens_map c k sel : sel_inv sel -> count_gens (cube_map c) k sel = count_gens c k sel.
Proof.
  intros Hs. unfold count_gens. rewrite gens_at_map, filter_map_comm, map_length.
  f_equal. apply filter_ext. exact Hs.
Qed.

Lemma groups_from_map c sel todo : sel_inv sel -> forall k dprev,
  groups_from (cube_map c) sel k todo dprev = groups_from c sel k todo dprev.
Proof.
  intros Hs. induction todo as [|m IH]; intros k dprev; [reflexivity|]. cbn [groups_from].
  rewrite factors_map by exact Hs. destruct (factors c k sel) as [dk|]; [|reflexivity].
  now rewrite IH, count_gens_map.
Qed.

Lemma cube_ok_map c : cube_ok (cube_map c) = cube_ok c.
Proof. reflexivity. Qed.

Lemma q_local_map g : q_local (gmap g) = q_local g.
Proof. reflexivity. Qed.

Lemma q_values_map c : q_values (cube_map c) = q_values c.
Proof.
  unfold q_values. f_equal. cbn [cube_map c_gens]. rewrite flat_map_map. apply flat_map_ext.
  intros gs. rewrite map_map. reflexivity.
Qed.

Theorem kh_groups_map c : kh_groups (cube_map c) = kh_groups c.
Proof.
  unfold kh_groups. rewrite cube_ok_map. destruct (cube_ok c); [|reflexivity].
  apply groups_from_map. intros g. reflexivity.
Qed.

Theorem kh_groups_bigraded_map c : kh_groups_bigraded (cube_map c) = kh_groups_bigraded c.
Proof.
  unfold kh_groups_bigraded. rewrite cube_ok_map, q_values_map. destruct (cube_ok c); [|reflexivity].
  generalize (q_values c). intros qs. induction qs as [|q qs IH]; [reflexivity|]. cbn [fold_right]. rewrite IH.
  rewrite groups_from_map; [reflexivity|]. intros g. reflexivity.
Qed.

End CircleMap.
