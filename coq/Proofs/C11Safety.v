(* C11 - safety of the concurrent phase: every step of the transition system is defined (no panic,
   fuel suffices) and preserves the global invariant, for every schedule. *)
From Coq Require Import ZArith List Bool Arith Lia Permutation.
Require Import Yui.Model.Pivot Yui.Proofs.C11Base Yui.Proofs.C11Seq Yui.Proofs.C11Worker.
Import ListNotations.

Section Safety.
Variable M : mstr.
Hypothesis Hwf : wf_str M.
Variable nthr : nat.

(* what a thread knows, relative to the shared log P *)
Definition thread_inv_of (P : plog) (th : thread) : Prop :=
  match t_pc th with
  | PIdle => True
  | PSearched j => t_snap th <= length P /\ searched_ok M (firstn (t_snap th) P) (t_w th) j
  | PRetrying => t_snap th <= length P /\ wk_inv M (firstn (t_snap th) P) (t_w th) /\ row_seen M (t_w th)
  end.

(* the row a thread is working on *)
Definition busy_of (th : thread) : option nat :=
  match t_pc th with PIdle => None | _ => Some (w_row (t_w th)) end.

Record GInv (s : gstate) : Prop := mk_GInv {
  gi_piv : PInv M (g_log s);
  gi_todo_nd : NoDup (g_todo s);
  gi_todo_free : forall i, In i (g_todo s) -> ~ prow (g_log s) i;
  gi_busy_free : forall t i, busy_of (g_thr s t) = Some i -> ~ prow (g_log s) i /\ ~ In i (g_todo s);
  gi_busy_inj : forall t t' i, busy_of (g_thr s t) = Some i -> busy_of (g_thr s t') = Some i -> t = t';
  gi_thr : forall t, thread_inv_of (g_log s) (g_thr s t)
}.

Lemma firstn_app_le : forall {A} (l x : list A) k, k <= length l -> firstn k (l ++ x) = firstn k l.
Proof.
  intros A l x k H. rewrite firstn_app. replace (k - length l) with 0 by lia.
  cbn [firstn]. apply app_nil_r.
Qed.

Lemma thread_inv_app : forall P X th, thread_inv_of P th -> thread_inv_of (P ++ X) th.
Proof.
  intros P X th. unfold thread_inv_of. destruct (t_pc th) as [|j|]; [auto| |].
  - intros [H1 H2]. rewrite app_length, firstn_app_le by exact H1. split; [lia | exact H2].
  - intros [H1 H2]. rewrite app_length, firstn_app_le by exact H1. split; [lia | exact H2].
Qed.

Lemma thr_upd_same : forall f t v, thr_upd f t v t = v.
Proof. intros f t v. unfold thr_upd. rewrite Nat.eqb_refl. reflexivity. Qed.

Lemma thr_upd_other : forall f t v t0, t0 <> t -> thr_upd f t v t0 = f t0.
Proof. intros f t v t0 H. unfold thr_upd. apply Nat.eqb_neq in H. rewrite H. reflexivity. Qed.

Lemma prow_app : forall P i j i', prow (P ++ [(i, j)]) i' -> prow P i' \/ i' = i.
Proof.
  intros P i j i' [j' H]. apply in_app_or in H. destruct H as [H|[H|[]]]; [left; exists j'; exact H|].
  inversion H; subst. right. reflexivity.
Qed.

(* ---------------- the three kinds of step ---------------- *)
Lemma step_start : forall s t row, GInv s ->
  is_idle (g_thr s t) = true -> In row (g_todo s) ->
  exists w1 c, wk_init M (g_log s) row <> None /\
    (forall w0, wk_init M (g_log s) row = Some w0 -> wk_search M (g_log s) w0 = Some (w1, c)) /\
    GInv (mk_gstate (g_log s) (remove_row row (g_todo s))
            (thr_upd (g_thr s) t (mk_thread (length (g_log s)) w1 (pc_of_choice c)))).
Proof.
  intros s t row G Hidle Hrow. set (P := g_log s).
  destruct (init_spec M P row (wf_row_NoDup M row Hwf)) as [w0 [E0 [Hinv0 [Hrow0 Hrs0]]]].
  destruct (search_spec M P w0 Hinv0 Hrs0) as [w1 [c [E1 [Hrow1 Hc]]]].
  exists w1, c. split; [fold P; rewrite E0; discriminate|]. split.
  { intros w0' E0'. fold P in E0'. rewrite E0 in E0'. inversion E0'; subst. exact E1. }
  destruct (remove_row_NoDup row (g_todo s) (gi_todo_nd s G)) as [Hnd' Hnot'].
  assert (Hidle' : busy_of (g_thr s t) = None).
  { unfold busy_of. unfold is_idle in Hidle. destruct (t_pc (g_thr s t)); [reflexivity | discriminate | discriminate]. }
  assert (Hb1 : forall i, busy_of (mk_thread (length P) w1 (pc_of_choice c)) = Some i -> i = row).
  { intros i. unfold busy_of. cbn [t_pc t_w]. destruct c as [j|]; cbn [pc_of_choice]; [|discriminate].
    intros H. inversion H. rewrite Hrow1. exact Hrow0. }
  constructor; cbn [g_log g_todo g_thr].
  - apply (gi_piv s G).
  - exact Hnd'.
  - intros i Hi. apply (gi_todo_free s G). eapply remove_row_In. exact Hi.
  - intros t0 i. destruct (Nat.eq_dec t0 t) as [E|E].
    + subst t0. rewrite thr_upd_same. intros H. apply Hb1 in H. subst i. split; [apply (gi_todo_free s G); exact Hrow | exact Hnot'].
    + rewrite thr_upd_other by exact E. intros H. destruct (gi_busy_free s G t0 i H) as [H1 H2]. split; [exact H1|].
      intros Hin. apply H2. eapply remove_row_In. exact Hin.
  - intros t0 t0' i. destruct (Nat.eq_dec t0 t) as [E|E]; destruct (Nat.eq_dec t0' t) as [E'|E']; try subst t0; try subst t0';
      rewrite ?thr_upd_same, ?thr_upd_other by assumption; intros H H'.
    + reflexivity.
    + apply Hb1 in H. subst i. exfalso. apply (gi_busy_free s G t0' row H'). exact Hrow.
    + apply Hb1 in H'. subst i. exfalso. apply (gi_busy_free s G t0 row H). exact Hrow.
    + eapply (gi_busy_inj s G); eassumption.
  - intros t0. destruct (Nat.eq_dec t0 t) as [E|E].
    + subst t0. rewrite thr_upd_same. unfold thread_inv_of. cbn [t_pc t_snap t_w].
      destruct c as [j|]; cbn [pc_of_choice]; [|exact I]. fold P. rewrite firstn_all. split; [lia | exact Hc].
    + rewrite thr_upd_other by exact E. apply (gi_thr s G).
Qed.

Lemma step_research : forall s t, GInv s -> t_pc (g_thr s t) = PRetrying ->
  exists w1 c, wk_search M (firstn (t_snap (g_thr s t)) (g_log s)) (t_w (g_thr s t)) = Some (w1, c) /\
    GInv (mk_gstate (g_log s) (g_todo s)
            (thr_upd (g_thr s) t (mk_thread (t_snap (g_thr s t)) w1 (pc_of_choice c)))).
Proof.
  intros s t G Hpc. pose proof (gi_thr s G t) as Ht. unfold thread_inv_of in Ht. rewrite Hpc in Ht.
  destruct Ht as [Hk [Hinv Hrs]].
  destruct (search_spec M _ _ Hinv Hrs) as [w1 [c [E1 [Hrow1 Hc]]]].
  exists w1, c. split; [exact E1|].
  assert (Hb : busy_of (g_thr s t) = Some (w_row (t_w (g_thr s t)))) by (unfold busy_of; rewrite Hpc; reflexivity).
  assert (Hb1 : forall i, busy_of (mk_thread (t_snap (g_thr s t)) w1 (pc_of_choice c)) = Some i -> busy_of (g_thr s t) = Some i).
  { intros i. unfold busy_of at 1. cbn [t_pc t_w]. destruct c as [j|]; cbn [pc_of_choice]; [|discriminate].
    intros H. inversion H. rewrite Hb, Hrow1. reflexivity. }
  constructor; cbn [g_log g_todo g_thr].
  - apply (gi_piv s G).
  - apply (gi_todo_nd s G).
  - apply (gi_todo_free s G).
  - intros t0 i. destruct (Nat.eq_dec t0 t) as [E|E].
    + subst t0. rewrite thr_upd_same. intros H. apply Hb1 in H. apply (gi_busy_free s G t i H).
    + rewrite thr_upd_other by exact E. apply (gi_busy_free s G).
  - intros t0 t0' i. destruct (Nat.eq_dec t0 t) as [E|E]; destruct (Nat.eq_dec t0' t) as [E'|E']; try subst t0; try subst t0';
      rewrite ?thr_upd_same, ?thr_upd_other by assumption; intros H H'.
    + reflexivity.
    + apply Hb1 in H. eapply (gi_busy_inj s G); eassumption.
    + apply Hb1 in H'. eapply (gi_busy_inj s G); eassumption.
    + eapply (gi_busy_inj s G); eassumption.
  - intros t0. destruct (Nat.eq_dec t0 t) as [E|E].
    + subst t0. rewrite thr_upd_same. unfold thread_inv_of. cbn [t_pc t_snap t_w].
      destruct c as [j|]; cbn [pc_of_choice]; [|exact I]. split; [exact Hk | exact Hc].
    + rewrite thr_upd_other by exact E. apply (gi_thr s G).
Qed.

Lemma should_retry_false : forall w, wk_should_retry w = false <-> w_queue w = [].
Proof. intros w. unfold wk_should_retry. destruct (w_queue w); split; intros H; try reflexivity; discriminate. Qed.

Lemma step_enter : forall s t j, GInv s -> t_pc (g_thr s t) = PSearched j ->
  let th := g_thr s t in
  let P := g_log s in
  let w1 := wk_update_diff (skipn (t_snap th) P) (t_w th) in
  if wk_should_retry w1 then
    GInv (mk_gstate P (g_todo s) (thr_upd (g_thr s) t (mk_thread (length P) w1 PRetrying)))
  else
    exists P', pset P (w_row w1) j = Some P' /\
      GInv (mk_gstate P' (g_todo s) (thr_upd (g_thr s) t (mk_thread (t_snap th) w1 PIdle))).
Proof.
  intros s t j G Hpc th P w1. pose proof (gi_thr s G t) as Ht. unfold thread_inv_of in Ht. fold th in Ht.
  unfold th in Hpc. fold th in Hpc. rewrite Hpc in Ht. fold P in Ht. destruct Ht as [Hk Hso].
  set (L := firstn (t_snap th) P) in *. set (D := skipn (t_snap th) P) in *.
  assert (HLD : L ++ D = P) by apply firstn_skipn.
  destruct Hso as [Hinv [Hrs [Hq Hj]]].
  destruct (update_diff_spec M D L (t_w th) Hinv) as [U1 [U2 [U3 U4]]]. cbv zeta in *. fold w1 in U1, U2, U3, U4.
  rewrite HLD in U1.
  assert (Hb : busy_of (g_thr s t) = Some (w_row (t_w th))) by (unfold busy_of; fold th; rewrite Hpc; reflexivity).
  assert (Hrow1 : w_row w1 = w_row (t_w th)) by apply (le_row _ _ U2).
  destruct (wk_should_retry w1) eqn:Er.
  - (* retry: re-sync *)
    constructor; cbn [g_log g_todo g_thr].
    + apply (gi_piv s G).
    + apply (gi_todo_nd s G).
    + apply (gi_todo_free s G).
    + intros t0 i. destruct (Nat.eq_dec t0 t) as [E|E].
      * subst t0. rewrite thr_upd_same. unfold busy_of. cbn [t_pc t_w]. rewrite Hrow1. rewrite <- Hb. apply (gi_busy_free s G).
      * rewrite thr_upd_other by exact E. apply (gi_busy_free s G).
    + intros t0 t0' i. destruct (Nat.eq_dec t0 t) as [E|E]; destruct (Nat.eq_dec t0' t) as [E'|E']; try subst t0; try subst t0';
        rewrite ?thr_upd_same, ?thr_upd_other by assumption; unfold busy_of at 1 2; cbn [t_pc t_w]; rewrite ?Hrow1, <- ?Hb; intros H H'.
      * reflexivity.
      * eapply (gi_busy_inj s G); eassumption.
      * eapply (gi_busy_inj s G); eassumption.
      * eapply (gi_busy_inj s G); eassumption.
    + intros t0. destruct (Nat.eq_dec t0 t) as [E|E].
      * subst t0. rewrite thr_upd_same. unfold thread_inv_of. cbn [t_pc t_snap t_w]. rewrite firstn_all.
        split; [lia|]. split; [exact U1|]. intros c Hc. apply (le_seen _ _ U2). apply Hrs. rewrite <- Hrow1. exact Hc.
      * rewrite thr_upd_other by exact E. apply (gi_thr s G).
  - (* commit *)
    apply should_retry_false in Er.
    assert (Ew : w1 = t_w th) by (apply U4; rewrite Er, Hq; reflexivity).
    rewrite Ew in *. clear Ew.
    destruct (gi_piv s G) as [Hpw Hac]. fold P in Hpw, Hac.
    assert (Hso : searched_ok M P (t_w th) j) by (unfold searched_ok; splits; assumption).
    destruct (commit_ok M P (t_w th) j (proj1 (proj2 Hpw)) Hac Hso) as [C1 [C2 [C3 C4]]].
    set (i := w_row (t_w th)) in *.
    exists (P ++ [(i, j)]). split; [apply pset_Some; exact C1|].
    destruct (gi_busy_free s G t i Hb) as [Hfree Hnt].
    constructor; cbn [g_log g_todo g_thr].
    + split; [apply pivots_wf_add; assumption | exact C4].
    + apply (gi_todo_nd s G).
    + intros i' Hi' Hp. apply prow_app in Hp. destruct Hp as [Hp|Hp]; [apply (gi_todo_free s G i' Hi'); exact Hp | subst; apply Hnt; exact Hi'].
    + intros t0 i'. destruct (Nat.eq_dec t0 t) as [E|E].
      * subst t0. rewrite thr_upd_same. unfold busy_of. cbn [t_pc]. discriminate.
      * rewrite thr_upd_other by exact E. intros H. destruct (gi_busy_free s G t0 i' H) as [H1 H2]. split; [|exact H2].
        intros Hp. apply prow_app in Hp. destruct Hp as [Hp|Hp]; [apply H1; exact Hp|]. subst i'.
        apply E. eapply (gi_busy_inj s G); eassumption.
    + intros t0 t0' i'. destruct (Nat.eq_dec t0 t) as [E|E]; destruct (Nat.eq_dec t0' t) as [E'|E']; try subst t0; try subst t0';
        rewrite ?thr_upd_same, ?thr_upd_other by assumption; intros H H'.
      * reflexivity.
      * unfold busy_of in H. cbn [t_pc] in H. discriminate.
      * unfold busy_of in H'. cbn [t_pc] in H'. discriminate.
      * eapply (gi_busy_inj s G); eassumption.
    + intros t0. destruct (Nat.eq_dec t0 t) as [E|E].
      * subst t0. rewrite thr_upd_same. unfold thread_inv_of. cbn [t_pc]. exact I.
      * rewrite thr_upd_other by exact E. apply thread_inv_app. apply (gi_thr s G).
Qed.

(* ---------------- every step ---------------- *)
Lemma step_ok : forall s e, GInv s -> exists s', step M nthr s e = Some s' /\ GInv s'.
Proof.
  intros s e G. unfold step. destruct (enabled nthr s e) eqn:Een; cbn [negb]; [|exists s; split; [reflexivity | exact G]].
  destruct e as [t row | t | t]; cbn [enabled] in Een.
  - apply andb_true_iff in Een. destruct Een as [Een Hrow]. apply andb_true_iff in Een. destruct Een as [_ Hidle].
    apply memb_In in Hrow.
    destruct (step_start s t row G Hidle Hrow) as [w1 [c [Hi [Hs HG]]]].
    destruct (wk_init M (g_log s) row) as [w0|] eqn:E0; [|exfalso; apply Hi; reflexivity].
    rewrite (Hs w0 eq_refl). eexists. split; [reflexivity | exact HG].
  - apply andb_true_iff in Een. destruct Een as [_ Hpc].
    destruct (t_pc (g_thr s t)) as [|j|] eqn:Epc; try discriminate.
    pose proof (step_enter s t j G Epc) as H. cbv zeta in H.
    destruct (wk_should_retry (wk_update_diff (skipn (t_snap (g_thr s t)) (g_log s)) (t_w (g_thr s t)))).
    + eexists. split; [reflexivity | exact H].
    + destruct H as [P' [E HG]]. rewrite E. eexists. split; [reflexivity | exact HG].
  - apply andb_true_iff in Een. destruct Een as [_ Hpc].
    destruct (t_pc (g_thr s t)) as [|j|] eqn:Epc; try discriminate.
    destruct (step_research s t G Epc) as [w1 [c [E HG]]]. rewrite E. eexists. split; [reflexivity | exact HG].
Qed.

Lemma run_ok : forall sched s, GInv s -> exists s', run M nthr sched s = Some s' /\ GInv s'.
Proof.
  intros sched s G. unfold run. apply fold_opt_inv; [exact G|]. intros a b _ Ha. apply step_ok. exact Ha.
Qed.

Lemma init_state_inv : forall P, PInv M P -> GInv (init_state M P).
Proof.
  intros P HP. constructor; cbn [init_state g_log g_todo g_thr].
  - exact HP.
  - apply remain_rows_NoDup.
  - intros i Hi. apply (remain_rows_In M P i Hi).
  - intros t i H. unfold busy_of, idle_thread in H. cbn [t_pc] in H. discriminate.
  - intros t t' i H. unfold busy_of, idle_thread in H. cbn [t_pc] in H. discriminate.
  - intros t. unfold thread_inv_of, idle_thread. cbn [t_pc]. exact I.
Qed.

(* the whole search, for every schedule of the parallel phase *)
Theorem find_pivots_safe : forall sched,
  exists s, find_pivots_sched M nthr sched = Some s /\ GInv s.
Proof.
  intros sched. unfold find_pivots_sched.
  destruct (find_fl_pivots_ok M Hwf) as [P1 [E1 HP1]]. rewrite E1.
  destruct (find_fl_col_pivots_ok M P1 HP1) as [P2 [E2 [HP2 _]]]. rewrite E2.
  apply run_ok. apply init_state_inv. exact HP2.
Qed.

End Safety.

(* the invariant spelled out for the shared pivot table *)
Lemma GInv_explicit : forall M nthr sched, wf_str M ->
  exists s, find_pivots_sched M nthr sched = Some s /\
    NoDup (map fst (g_log s)) /\ NoDup (map snd (g_log s)) /\
    (forall i j, In (i, j) (g_log s) ->
       i < m_rows M /\ j < m_cols M /\ In j (cols_in M i) /\ is_cand M i j = true) /\
    (exists rk : nat -> nat, forall j j', edge M (g_log s) j j' -> rk j < rk j') /\
    (forall j, ~ Relation_Operators.clos_trans nat (edge M (g_log s)) j j).
Proof.
  intros M nthr sched Hwf. destruct (find_pivots_safe M Hwf nthr sched) as [s [E G]].
  exists s. split; [exact E|]. destruct (gi_piv M s G) as [[H1 [H2 H3]] H4]. splits; auto.
  - intros i j Hin. destruct (H3 i j Hin) as [A B]. splits; auto.
    + eapply wf_row_lt; eassumption.
    + destruct Hwf as [_ [Hc _]]. eapply Hc. exact A.
  - apply acyclic_no_cycle. exact H4.
Qed.
