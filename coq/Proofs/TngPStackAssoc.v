(* Vertical composition, part 5: the target tangles and the dots of Cob::stack, the well-formedness of the result, and
   the associativity of Cob::stack on the numeric data (degree, Euler number, dots, source and target tangles). *)
From Coq Require Import List Arith Bool Lia ZArith Permutation Sorted.
Import ListNotations.
Require Import Yui.Model.Link Yui.Model.Tng Yui.Model.TngCob Yui.Model.TngStack.
Require Import Yui.Proofs.TngPBase Yui.Proofs.TngPSegs Yui.Proofs.TngPDeg Yui.Proofs.TngPJoin Yui.Proofs.TngPStep
  Yui.Proofs.TngPSeq Yui.Proofs.TngPConn Yui.Proofs.TngPMain Yui.Proofs.TngPCob Yui.Proofs.TngPCobDeg
  Yui.Proofs.TngPStackBase Yui.Proofs.TngPStackBfs Yui.Proofs.TngPStackWf Yui.Proofs.TngPStackDeg.

Lemma sum_nat_app : forall a b, sum_nat (a ++ b) = sum_nat a + sum_nat b.
Proof. induction a as [|x a IH]; intros b; cbn; [reflexivity|]. unfold sum_nat in *. rewrite IH. lia. Qed.
Lemma sum_nat_perm : forall a b, Permutation a b -> sum_nat a = sum_nat b.
Proof. intros a b Hp. unfold sum_nat. induction Hp; cbn; lia. Qed.
Lemma dots_of_app : forall a b, dots_of (a ++ b) = dots_of a + dots_of b.
Proof. intros. unfold dots_of. rewrite !map_app, !sum_nat_app. lia. Qed.
Lemma dots_of_perm : forall a b, Permutation a b -> dots_of a = dots_of b.
Proof.
  intros a b Hp. unfold dots_of. rewrite (sum_nat_perm _ _ (Permutation_map cdx Hp)), (sum_nat_perm _ _ (Permutation_map cdy Hp)).
  reflexivity.
Qed.
Lemma dots_of_single : forall x, dots_of [x] = cdx x + cdy x.
Proof. intros. unfold dots_of. cbn. lia. Qed.

Lemma stack_loop_tgt : forall fuel bot top acc out, stack_wf bot top -> tng_inv (flat ctgt top) ->
  stack_loop fuel bot top acc = Some (Some out) ->
  Permutation (flat ctgt out) (flat ctgt acc ++ flat ctgt top) /\
  dots_of out = dots_of acc + dots_of bot + dots_of top.
Proof.
  induction fuel as [|f IH]; intros bot top acc out W I4; cbn [stack_loop].
  - destruct (is_nil bot && is_nil top) eqn:En; [|discriminate].
    apply andb_true_iff in En. destruct En as [E1 E2]. destruct bot; [|discriminate]. destruct top; [|discriminate].
    intros E. inversion E; subst. cbn. rewrite app_nil_r. split; [apply Permutation_refl|unfold dots_of; cbn; lia].
  - destruct (is_nil bot && is_nil top) eqn:En.
    { apply andb_true_iff in En. destruct En as [E1 E2]. destruct bot; [|discriminate]. destruct top; [|discriminate].
      intros E. inversion E; subst. cbn. rewrite app_nil_r. split; [apply Permutation_refl|unfold dots_of; cbn; lia]. }
    destruct (take_stackable bot top) as [[[[bot' top'] gb] gt]|] eqn:Et; [|discriminate].
    destruct (take_stackable_perm _ _ _ _ _ _ Et) as (Pa & Pb & _ & Hhd & _).
    pose proof (take_stackable_closed _ _ _ _ _ _ (wf_mid_b _ _ W) (wf_mid_t _ _ W) Et) as Cl.
    pose proof (wf_rest _ _ _ _ _ _ W Pa Pb Cl) as W'.
    destruct (flat_sub ctgt top top' gt Pb I4) as [I4' I4g].
    assert (Ft : Permutation (flat ctgt top) (flat ctgt top' ++ flat ctgt gt)) by (rewrite <- flat_app; apply flat_perm; exact Pb).
    assert (Da : dots_of bot = dots_of bot' + dots_of gb) by (rewrite (dots_of_perm _ _ Pa); apply dots_of_app).
    assert (Db : dots_of top = dots_of top' + dots_of gt) by (rewrite (dots_of_perm _ _ Pb); apply dots_of_app).
    assert (Step : forall x, Permutation (ctgt x) (flat ctgt gt) -> cdx x + cdy x = dots_of gb + dots_of gt ->
              stack_loop f bot' top' (acc ++ [x]) = Some (Some out) ->
              Permutation (flat ctgt out) (flat ctgt acc ++ flat ctgt top) /\
              dots_of out = dots_of acc + dots_of bot + dots_of top).
    { intros x Px Dx E. destruct (IH _ _ _ _ W' I4' E) as (P & D). split.
      - eapply perm_trans; [exact P|]. rewrite flat_app. unfold flat at 2. cbn [flat_map]. rewrite app_nil_r.
        eapply perm_trans; [|apply Permutation_app_head; apply Permutation_sym; exact Ft].
        eapply perm_trans; [apply Permutation_app_tail; apply Permutation_app_head; exact Px|]. perm_app.
      - rewrite D, dots_of_app, dots_of_single. lia. }
    destruct (is_nil gt) eqn:Ngt.
    + destruct gt; [|discriminate]. destruct gb as [|x [|y gb]]; try discriminate.
      assert (Hx : ctgt x = []).
      { destruct (ctgt x) as [|m r] eqn:Em; [reflexivity|exfalso].
        apply (single_bot_closed bot top bot' top' x m W Pa Pb Cl). rewrite Em. left. reflexivity. }
      apply Step; [rewrite Hx; constructor|rewrite dots_of_single; unfold dots_of; cbn; lia].
    + destruct (is_nil gb) eqn:Ngb.
      * destruct gb; [|discriminate]. destruct gt as [|x [|y gt]]; try discriminate.
        apply Step; [unfold flat; cbn [flat_map]; rewrite app_nil_r; apply Permutation_refl|rewrite dots_of_single; unfold dots_of; cbn; lia].
      * destruct (stack_comps gb gt) as [c|] eqn:Ec; [|discriminate].
        destruct (stack_comps_spec _ _ _ Ec) as (_ & _ & x0 & x1 & _ & _ & _ & _ & Etg & Ex & Ey).
        destruct (fold_connect_disjoint (map ctgt gt)) as (r & Er & Pr & _); [rewrite concat_map_flat; exact I4g|].
        rewrite Etg in Er. inversion Er; subst r. rewrite concat_map_flat in Pr.
        apply Step; [exact Pr|unfold dots_of; lia].
Qed.

Theorem cob_stack_tgt : forall a b c, stack_wf a b -> tng_inv (flat ctgt b) -> cob_stack a b = Some c ->
  Permutation (flat ctgt c) (flat ctgt b) /\ dots_of c = dots_of a + dots_of b.
Proof.
  intros a b c W I4. unfold cob_stack, cob_stack_fuel.
  destruct (is_nil a) eqn:Na.
  - destruct a; [|discriminate]. intros E. inversion E; subst c. split; [apply Permutation_refl|unfold dots_of; cbn; lia].
  - destruct (is_nil b) eqn:Nb.
    + destruct b; [|discriminate]. intros E. inversion E; subst c.
      assert (Ha : flat ctgt a = []).
      { destruct (flat ctgt a) as [|m r] eqn:Em; [reflexivity|exfalso].
        destruct (wf_match_bt _ _ W m) as (m' & [] & _). rewrite Em. left. reflexivity. }
      rewrite Ha. split; [constructor|unfold dots_of; cbn; lia].
    + destruct (stack_loop (length a + length b) a b []) as [[out|]|] eqn:El; try discriminate. intros Es.
      destruct (stack_loop_tgt _ _ _ _ _ W I4 El) as (P & D).
      pose proof (cob_sort_perm _ _ Es) as Hp. split.
      * eapply perm_trans; [apply flat_perm; exact Hp|]. exact P.
      * rewrite (dots_of_perm _ _ Hp), D. unfold dots_of at 1. cbn. lia.
Qed.

(* ---------- the result of a well-formed stack can be stacked again ---------- *)
Lemma in_perm_iff : forall (l l' : list path) m, Permutation l l' -> (In m l <-> In m l').
Proof. intros l l' m Hp. split; apply Permutation_in; [exact Hp|apply Permutation_sym; exact Hp]. Qed.

Lemma wf_stack_l : forall a b c ab, stack_wf a b -> stack_wf b c -> cob_stack a b = Some ab -> stack_wf ab c.
Proof.
  intros a b c ab Wab Wbc E.
  destruct (cob_stack_deg _ _ _ Wab E) as (_ & _ & Ps).
  destruct (cob_stack_tgt _ _ _ Wab (wf_mid_b _ _ Wbc) E) as (Pt & _).
  constructor.
  - eapply inv_perm; [apply Permutation_sym; exact Ps|apply (wf_src _ _ Wab)].
  - eapply inv_perm; [apply Permutation_sym; exact Pt|apply (wf_mid_b _ _ Wbc)].
  - apply (wf_mid_t _ _ Wbc).
  - intros m Hm. apply (wf_match_bt _ _ Wbc). apply (in_perm_iff _ _ m Pt). exact Hm.
  - intros m' Hm'. destruct (wf_match_tb _ _ Wbc m' Hm') as (m & Hm & He). exists m. split; auto.
    apply (in_perm_iff _ _ m Pt). exact Hm.
Qed.

Lemma wf_stack_r : forall a b c bc, stack_wf a b -> stack_wf b c -> cob_stack b c = Some bc -> stack_wf a bc.
Proof.
  intros a b c bc Wab Wbc E.
  destruct (cob_stack_deg _ _ _ Wbc E) as (_ & _ & Ps).
  constructor.
  - apply (wf_src _ _ Wab).
  - apply (wf_mid_b _ _ Wab).
  - eapply inv_perm; [apply Permutation_sym; exact Ps|apply (wf_mid_t _ _ Wab)].
  - intros m Hm. destruct (wf_match_bt _ _ Wab m Hm) as (m' & Hm' & He). exists m'. split; auto.
    apply (in_perm_iff _ _ m' Ps). exact Hm'.
  - intros m' Hm'. apply (wf_match_tb _ _ Wab). apply (in_perm_iff _ _ m' Ps). exact Hm'.
Qed.

(* ---------- associativity on the numeric data ---------- *)
Theorem cob_stack_assoc_numeric : forall a b c ab bc l r,
  stack_wf a b -> stack_wf b c -> tng_inv (flat ctgt c) ->
  cob_stack a b = Some ab -> cob_stack b c = Some bc -> cob_stack ab c = Some l -> cob_stack a bc = Some r ->
  cob_deg l = cob_deg r /\ cob_euler l = cob_euler r /\ dots_of l = dots_of r /\
  Permutation (flat csrc l) (flat csrc r) /\ Permutation (flat ctgt l) (flat ctgt r) /\
  cob_deg l = oadd (cob_deg a) (oadd (cob_deg b) (cob_deg c)).
Proof.
  intros a b c ab bc l r Wab Wbc I4 Eab Ebc El Er.
  pose proof (wf_stack_l _ _ _ _ Wab Wbc Eab) as Wl. pose proof (wf_stack_r _ _ _ _ Wab Wbc Ebc) as Wr.
  destruct (cob_stack_deg _ _ _ Wab Eab) as (D1 & U1 & S1). destruct (cob_stack_deg _ _ _ Wbc Ebc) as (D2 & U2 & S2).
  destruct (cob_stack_deg _ _ _ Wl El) as (D3 & U3 & S3). destruct (cob_stack_deg _ _ _ Wr Er) as (D4 & U4 & S4).
  destruct (cob_stack_tgt _ _ _ Wab (wf_mid_b _ _ Wbc) Eab) as (T1 & N1).
  destruct (cob_stack_tgt _ _ _ Wbc I4 Ebc) as (T2 & N2).
  destruct (cob_stack_tgt _ _ _ Wl I4 El) as (T3 & N3).
  assert (I4' : tng_inv (flat ctgt bc)) by (eapply inv_perm; [apply Permutation_sym; exact T2|exact I4]).
  destruct (cob_stack_tgt _ _ _ Wr I4' Er) as (T4 & N4).
  assert (A : tng_euler_num (flat ctgt ab) = tng_euler_num (flat ctgt b)) by (apply euler_num_perm; exact T1).
  split; [|split; [|split; [|split; [|split]]]].
  - rewrite D3, D4, D1, D2. destruct (cob_deg a), (cob_deg b), (cob_deg c); cbn; try reflexivity. f_equal. lia.
  - rewrite U3, U4, U1, U2, A. unfold omap_sub.
    destruct (cob_euler a), (cob_euler b), (cob_euler c); cbn; try reflexivity. f_equal. lia.
  - lia.
  - eapply perm_trans; [exact S3|]. eapply perm_trans; [exact S1|]. apply Permutation_sym. exact S4.
  - eapply perm_trans; [exact T3|]. apply Permutation_sym. eapply perm_trans; [exact T4|]. exact T2.
  - rewrite D3, D1. destruct (cob_deg a), (cob_deg b), (cob_deg c); cbn; try reflexivity. f_equal. lia.
Qed.
