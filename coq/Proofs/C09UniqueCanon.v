(* C09 (uniqueness), part 9: normalised associates are equal, hence the diagonal matrix D returned by SnfCalc
   is a FUNCTION of the input (not only unique up to units) - for Z, Z[i], Z[omega] and every field dictionary.
   [nunit_canon D]: if a <> 0 and both a and u*a (u invertible) are normalised (normalizing_unit = 1) then u*a = a.
   [snf_D_unique]:  two results meeting the contract for the same input - under two dictionaries with the same ring
                    and unit operations (e.g. with and without the LLL preprocessing), any flags, any fuel - have the
                    same D, rank() and factors(). *)
From Coq Require Import ZArith Arith List Lia Ring Bool.
Require Import Yui.Base.Ring Yui.Base.MatF Yui.Base.MatL Yui.Model.Snf.
Require Import Yui.Proofs.C07Algebra Yui.Proofs.C09UniqueKer Yui.Proofs.C09Unique.
Require Import Yui.Proofs.C09Inv Yui.Proofs.C09Total Yui.Proofs.C09Term Yui.Proofs.C09Laws Yui.Proofs.C09Quad.
Import ListNotations.

Definition nunit_canon {R : Type} (D : euc_dict R) : Prop :=
  forall a u v : R,
    rmul (ed_ring D) u v = rone (ed_ring D) -> a <> rzero (ed_ring D) ->
    rnunit (ed_unit D) a = rone (ed_ring D) ->
    rnunit (ed_unit D) (rmul (ed_ring D) u a) = rone (ed_ring D) ->
    rmul (ed_ring D) u a = a.

Theorem snf_D_unique {R : Type} (D D' : euc_dict R) :
  snf_laws D -> bezout (ed_ring D) -> nunit_canon D ->
  ed_ring D' = ed_ring D -> ed_unit D' = ed_unit D ->
  forall m n (A : lmat R) f1 f2 f3 f4 g1 g2 g3 g4 res res',
  snf_spec D m n A f1 f2 f3 f4 res -> snf_spec D' m n A g1 g2 g3 g4 res' ->
  sr_d res = sr_d res' /\ snf_rank D res = snf_rank D' res' /\ snf_factors D res = snf_factors D' res'.
Proof.
  intros SL B CN Eo Eu m n A f1 f2 f3 f4 g1 g2 g3 g4 res res' HS HS'.
  set (o := ed_ring D) in *.
  destruct (spec_smith_form D' m n A g1 g2 g3 g4 res' HS') as [F' [C' Hnu']]. cbv zeta in F', C', Hnu'.
  rewrite Eo in F', C', Hnu'. rewrite Eu in Hnu'. fold o in F', C', Hnu'.
  destruct (spec_smith_form D m n A f1 f2 f3 f4 res HS) as [F [_ Hnu]]. cbv zeta in F, Hnu. fold o in F, Hnu.
  destruct (snf_result_unique D SL m n A f1 f2 f3 f4 res _ _ B HS F' C') as [Er Ha]. fold o in Ha.
  assert (Hd : forall k, (k < snf_rank D' res')%nat ->
                         lget o (dm_rows (sr_d res)) k k = lget o (dm_rows (sr_d res')) k k).
  { intros k Hk. destruct (Ha k Hk) as [u [v [Huv Hb]]].
    destruct F as [_ [_ [_ [_ [_ [_ [_ [Hnz _]]]]]]]].
    rewrite Hb. symmetry. apply (CN _ u v Huv).
    - apply Hnz. rewrite Er. exact Hk.
    - apply Hnu. rewrite Er. exact Hk.
    - fold o. rewrite <- Hb. now apply Hnu'. }
  assert (ED : sr_d res = sr_d res').
  { destruct HS as (T & P & Pi & Q & Qi & ET & WT & _ & _ & _ & _ & _ & _ & _ & _ & _ & _ & _ & _ & _ & HX & _).
    destruct HS' as (T' & P' & Pi' & Q' & Qi' & ET' & WT' & _ & _ & _ & _ & _ & _ & _ & _ & _ & _ & _ & _ & _ & HX' & _).
    cbv zeta in HX, HX'. rewrite Eo in HX'. fold o in HX, HX'.
    rewrite ET, ET' in *. cbn [dm_rows] in *. f_equal.
    destruct HX as (Hr & Hoff & _ & Hz & _ & _). destruct HX' as (Hr' & Hoff' & _ & Hz' & _ & _).
    apply (lmat_ext o m n); [exact WT|exact WT'|].
    intros i j Hi Hj. destruct (Nat.eq_dec i j) as [<-|Hne].
    - destruct (le_lt_dec (snf_rank D' res') i) as [Hge|Hlt].
      + rewrite Hz, Hz'; [reflexivity|exact Hge|lia|lia|lia].
      + now apply Hd.
    - rewrite Hoff, Hoff' by assumption. reflexivity. }
  split; [exact ED|]. split; [exact Er|].
  unfold snf_factors, mget. rewrite ED, Eo. reflexivity.
Qed.

(* ---------- the supported rings ---------- *)
Lemma Z_canon pre : nunit_canon (Zpre_dict pre).
Proof.
  intros a u v Huv Ha H1 H2. cbn in *.
  destruct (Z.mul_eq_1 u v Huv) as [->| ->]; [lia|].
  repeat match goal with
  | H : context[Z.ltb ?x ?y] |- _ => destruct (Z.ltb_spec x y); try discriminate H
  end. lia.
Qed.

Section QuadCanon.
  Open Scope Z_scope.

  Ltac kill_ltb :=
    repeat match goal with
    | H : context[Z.ltb ?x ?y] |- _ => destruct (Z.ltb_spec x y); cbn [andb negb] in H; try discriminate H
    end.

  Lemma gauss_units u1 u2 v1 v2 : u1 * v1 + u2 * v2 * -1 = 1 -> u1 * v2 + u2 * v1 + u2 * v2 * 0 = 0 ->
    (u1 = 1 /\ u2 = 0) \/ (u1 = -1 /\ u2 = 0) \/ (u1 = 0 /\ u2 = 1) \/ (u1 = 0 /\ u2 = -1).
  Proof.
    intros H1 H2.
    assert (N : (u1*u1 + u2*u2) * (v1*v1 + v2*v2) = 1).
    { set (w1 := u1 * v1 + u2 * v2 * -1) in *. set (w2 := u1 * v2 + u2 * v1 + u2 * v2 * 0) in *.
      transitivity (w1 * w1 + w2 * w2); [unfold w1, w2; ring|]. rewrite H1, H2. reflexivity. }
    assert (N1 : u1*u1 + u2*u2 = 1) by (destruct (Z.mul_eq_1 _ _ N) as [E|E]; nia).
    assert (B1 : -1 <= u1 <= 1) by nia. assert (B2 : -1 <= u2 <= 1) by nia.
    assert (A1 : u1 = -1 \/ u1 = 0 \/ u1 = 1) by lia. assert (A2 : u2 = -1 \/ u2 = 0 \/ u2 = 1) by lia.
    destruct A1 as [->|[->| ->]]; destruct A2 as [->|[->| ->]]; cbn in N1; try discriminate; auto 10.
  Qed.

  Lemma gauss_canon_raw (a u v : quad) :
    q_mul 0 (-1) u v = (1, 0) -> a <> (0, 0) ->
    q_nunit false a = (1, 0) -> q_nunit false (q_mul 0 (-1) u a) = (1, 0) -> q_mul 0 (-1) u a = a.
  Proof.
    destruct a as [a1 a2], u as [u1 u2], v as [v1 v2]. unfold q_mul, q_nunit. cbn [fst snd].
    intros Huv Ha H1 H2. injection Huv as E1 E2.
    destruct (gauss_units u1 u2 v1 v2 E1 E2) as [[-> ->]|[[-> ->]|[[-> ->]|[-> ->]]]];
      kill_ltb; try (f_equal; lia); exfalso; apply Ha; f_equal; lia.
  Qed.

  Lemma eisen_units u1 u2 v1 v2 : u1 * v1 + u2 * v2 * -1 = 1 -> u1 * v2 + u2 * v1 + u2 * v2 * 1 = 0 ->
    (u1 = 1 /\ u2 = 0) \/ (u1 = -1 /\ u2 = 0) \/ (u1 = 0 /\ u2 = 1) \/ (u1 = 0 /\ u2 = -1) \/
    (u1 = 1 /\ u2 = -1) \/ (u1 = -1 /\ u2 = 1).
  Proof.
    intros H1 H2.
    assert (N : (u1*u1 + u1*u2 + u2*u2) * (v1*v1 + v1*v2 + v2*v2) = 1).
    { set (w1 := u1 * v1 + u2 * v2 * -1) in *. set (w2 := u1 * v2 + u2 * v1 + u2 * v2 * 1) in *.
      transitivity (w1 * w1 + w1 * w2 + w2 * w2); [unfold w1, w2; ring|]. rewrite H1, H2. reflexivity. }
    assert (P1 : 0 <= u1*u1 + u1*u2 + u2*u2) by nia.
    assert (N1 : u1*u1 + u1*u2 + u2*u2 = 1) by (destruct (Z.mul_eq_1 _ _ N) as [E|E]; lia).
    assert (Q : (2*u1+u2)*(2*u1+u2) + 3*(u2*u2) = 4) by lia.
    assert (Q' : (2*u2+u1)*(2*u2+u1) + 3*(u1*u1) = 4) by lia.
    assert (B2 : -1 <= u2 <= 1) by nia. assert (B1 : -1 <= u1 <= 1) by nia.
    assert (A1 : u1 = -1 \/ u1 = 0 \/ u1 = 1) by lia. assert (A2 : u2 = -1 \/ u2 = 0 \/ u2 = 1) by lia.
    destruct A1 as [->|[->| ->]]; destruct A2 as [->|[->| ->]]; cbn in N1; try discriminate; auto 10.
  Qed.

  Lemma eisen_canon_raw (a u v : quad) :
    q_mul 1 (-1) u v = (1, 0) -> a <> (0, 0) ->
    q_nunit true a = (1, 0) -> q_nunit true (q_mul 1 (-1) u a) = (1, 0) -> q_mul 1 (-1) u a = a.
  Proof.
    destruct a as [a1 a2], u as [u1 u2], v as [v1 v2]. unfold q_mul, q_nunit. cbn [fst snd].
    intros Huv Ha H1 H2. injection Huv as E1 E2.
    destruct (eisen_units u1 u2 v1 v2 E1 E2) as [[-> ->]|[[-> ->]|[[-> ->]|[[-> ->]|[[-> ->]|[-> ->]]]]]];
      kill_ltb; try (f_equal; lia); exfalso; apply Ha; f_equal; lia.
  Qed.
End QuadCanon.

Lemma gauss_canon pre : nunit_canon (gausspre_dict pre).
Proof. intros a u v. exact (gauss_canon_raw a u v). Qed.

Lemma eisen_canon pre : nunit_canon (eisenpre_dict pre).
Proof. intros a u v. exact (eisen_canon_raw a u v). Qed.

Lemma field_canon {F : Type} (o : ring_ops F) (finv : F -> F) :
  ring_laws o -> rone o <> rzero o -> (forall a, a <> rzero o -> rmul o a (finv a) = rone o) ->
  nunit_canon (field_dict o finv).
Proof.
  intros L H1 Hinv a u v Huv Ha N1 N2. cbn in *.
  assert (One : forall x, x <> rzero o -> (if ris_zero o x then rone o else finv x) = rone o -> x = rone o).
  { intros x Hx E. unfold ris_zero in E. rewrite (proj2 (reqb_false o L x (rzero o)) Hx) in E.
    rewrite <- (Hinv x Hx), E. rewrite (rmul_comm o L). symmetry. apply (rmul_1_l o L). }
  assert (Hua : rmul o u a <> rzero o).
  { intros E. pose proof (sl_integral _ (field_snf_laws o finv L H1 Hinv)) as [_ Hi]. cbn in Hi.
    destruct (Hi u a E) as [E0|E0]; [|contradiction].
    apply H1. rewrite <- Huv, E0. rewrite (rmul_comm o L).
    transitivity (rmul o v (radd o (rzero o) (rzero o))); [now rewrite (radd_0_l o L)|].
    pose proof (ring_theory_of_laws o L) as RT.
    assert (Z0 : forall x, rmul o x (rzero o) = rzero o).
    { intros x. rewrite (rmul_comm o L). apply (Ring_theory.ARmul_0_l (Ring_theory.Rth_ARth (Eqsth F) (Ring_theory.Eq_ext _ _ _) RT)). }
    rewrite (radd_0_l o L). apply Z0. }
  pose proof (One a Ha N1) as Ea. apply (One _ Hua) in N2. rewrite N2, Ea. reflexivity.
Qed.

(* ---------- closed instances ---------- *)
Theorem gauss_snf_D_unique pre pre' m n (A : lmat quad) f1 f2 f3 f4 g1 g2 g3 g4 res res' :
  snf_spec (gausspre_dict pre) m n A f1 f2 f3 f4 res -> snf_spec (gausspre_dict pre') m n A g1 g2 g3 g4 res' ->
  sr_d res = sr_d res' /\ snf_rank (gausspre_dict pre) res = snf_rank (gausspre_dict pre') res' /\
  snf_factors (gausspre_dict pre) res = snf_factors (gausspre_dict pre') res'.
Proof.
  exact (snf_D_unique (gausspre_dict pre) (gausspre_dict pre') (gauss_snf_laws pre) (gauss_bezout pre)
           (gauss_canon pre) eq_refl eq_refl m n A f1 f2 f3 f4 g1 g2 g3 g4 res res').
Qed.

Theorem eisen_snf_D_unique pre pre' m n (A : lmat quad) f1 f2 f3 f4 g1 g2 g3 g4 res res' :
  snf_spec (eisenpre_dict pre) m n A f1 f2 f3 f4 res -> snf_spec (eisenpre_dict pre') m n A g1 g2 g3 g4 res' ->
  sr_d res = sr_d res' /\ snf_rank (eisenpre_dict pre) res = snf_rank (eisenpre_dict pre') res' /\
  snf_factors (eisenpre_dict pre) res = snf_factors (eisenpre_dict pre') res'.
Proof.
  exact (snf_D_unique (eisenpre_dict pre) (eisenpre_dict pre') (eisen_snf_laws pre) (eisen_bezout pre)
           (eisen_canon pre) eq_refl eq_refl m n A f1 f2 f3 f4 g1 g2 g3 g4 res res').
Qed.

Theorem field_snf_D_unique {F : Type} (o : ring_ops F) (finv : F -> F) :
  ring_laws o -> rone o <> rzero o -> (forall a, a <> rzero o -> rmul o a (finv a) = rone o) ->
  forall m n (A : lmat F) f1 f2 f3 f4 g1 g2 g3 g4 res res',
  snf_spec (field_dict o finv) m n A f1 f2 f3 f4 res -> snf_spec (field_dict o finv) m n A g1 g2 g3 g4 res' ->
  sr_d res = sr_d res' /\ snf_rank (field_dict o finv) res = snf_rank (field_dict o finv) res' /\
  snf_factors (field_dict o finv) res = snf_factors (field_dict o finv) res'.
Proof.
  intros L H1 Hinv.
  exact (snf_D_unique (field_dict o finv) (field_dict o finv) (field_snf_laws o finv L H1 Hinv)
           (field_bezout o finv L H1 Hinv) (field_canon o finv L H1 Hinv) eq_refl eq_refl).
Qed.

Lemma canon_rings :
  (forall pre, nunit_canon (Zpre_dict pre)) /\
  (forall pre, nunit_canon (gausspre_dict pre)) /\
  (forall pre, nunit_canon (eisenpre_dict pre)) /\
  (forall (F : Type) (o : ring_ops F) (finv : F -> F), ring_laws o -> rone o <> rzero o ->
     (forall a, a <> rzero o -> rmul o a (finv a) = rone o) -> nunit_canon (field_dict o finv)).
Proof. exact (conj Z_canon (conj gauss_canon (conj eisen_canon (@field_canon)))). Qed.
