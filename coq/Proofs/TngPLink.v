(* Tangle layer, part 11: relation with the C18 model of yui-link (Model/Link.v, Proofs/C18Components.v):
   the strand-through-crossing relation of C18 is the adjacency of the segment graph, so for a valid, completely
   resolved diagram the components of the glued tangle are the circles `Link::components` finds. *)
From Coq Require Import List Arith Bool Lia Permutation Sorted Relations.
Import ListNotations.
Require Import Yui.Model.Link Yui.Model.Tng Yui.Proofs.TngPBase Yui.Proofs.TngPSegs Yui.Proofs.TngPDeg
  Yui.Proofs.TngPJoin Yui.Proofs.TngPStep Yui.Proofs.TngPSeq Yui.Proofs.TngPConn Yui.Proofs.TngPMain.
Require Yui.Proofs.C18Base Yui.Proofs.C18Components.

Module B := Yui.Proofs.C18Base.
Module K := Yui.Proofs.C18Components.

Lemma count_label_occ : forall e es, count_label e es = count_occ Nat.eq_dec es e.
Proof.
  intros e es. unfold count_label. induction es as [|x es IH]; [reflexivity|].
  cbn [filter count_occ]. destruct (Nat.eq_dec x e) as [->|Hne].
  - rewrite Nat.eqb_refl. cbn [length]. rewrite IH. reflexivity.
  - assert (e =? x = false) as -> by (apply Nat.eqb_neq; auto). exact IH.
Qed.

Local Opaque nseg.
Lemma crossing_segs_pass : forall x j, j < 4 -> In (nseg (edge x j) (edge x (pass (ct x) j))) (crossing_segs x).
Proof.
  intros x j Hj. unfold crossing_segs.
  destruct (ct x); do 4 (destruct j as [|j];
    [cbn; first [now auto | now (left; apply nseg_sym) | now (right; left; apply nseg_sym)]|]); lia.
Qed.

Lemma crossing_segs_thru : forall x e e', In (nseg e e') (crossing_segs x) ->
  exists j, j < 4 /\ edge x j = e /\ edge x (pass (ct x) j) = e'.
Proof.
  intros x e e'. unfold crossing_segs.
  destruct (ct x); cbn [In]; intros [E|[E|[]]]; destruct (nseg_inj _ _ _ _ E) as [[<- <-]|[<- <-]].
  all: first [ exists 0; cbn; repeat split; (lia || reflexivity)
             | exists 1; cbn; repeat split; (lia || reflexivity)
             | exists 2; cbn; repeat split; (lia || reflexivity)
             | exists 3; cbn; repeat split; (lia || reflexivity) ].
Qed.

Local Transparent nseg.

Lemma thru_adj : forall l e e', K.thru l e e' <-> adj (flat_map crossing_segs l) e e'.
Proof.
  intros l e e'. unfold K.thru, adj, B.InR, edge_at, exit_of, cross_at. split.
  - intros ([i j] & [Hi Hj] & E1 & E2). cbn [fst snd] in *. subst e e'.
    apply in_flat_map. exists (nth i l dummy_c). split; [apply nth_In; auto|]. apply crossing_segs_pass; auto.
  - intros Hin. apply in_flat_map in Hin. destruct Hin as (x & Hx & Hs).
    destruct (In_nth _ _ dummy_c Hx) as (i & Hi & Ei).
    destruct (crossing_segs_thru _ _ _ Hs) as (j & Hj & E1 & E2).
    exists (i, j). cbn [fst snd]. rewrite Ei. auto.
Qed.

Lemma conn_conn : forall l e e', K.conn l e e' <-> conn (flat_map crossing_segs l) e e'.
Proof.
  intros l e e'. unfold K.conn, conn. split; intros Hc; induction Hc.
  - apply rt_step. apply thru_adj; auto.
  - apply rt_refl.
  - eapply rt_trans; eauto.
  - apply rt_step. apply thru_adj; auto.
  - apply rt_refl.
  - eapply rt_trans; eauto.
Qed.

Theorem tng_circles_are_link_components : forall l, B.Valid l -> Forall (fun x => is_resolved x = true) l ->
  exists cs t, components l = Some cs /\ tng_of_crossings l = Some t /\ tng_ok t /\ tng_is_closed t = true /\
    length cs = length t /\
    (forall c, In c cs -> exists c', In c' t /\ forall e, In e (pedges c) <-> In e (pedges c')) /\
    (forall c', In c' t -> exists c, In c cs /\ forall e, In e (pedges c) <-> In e (pedges c')).
Proof.
  intros l Hv Hr.
  destruct (K.components_valid l Hv) as (cs & Ecs & Fcs & NDcs & Covcs & Clcs).
  assert (Hl2 : labels_le2 l).
  { intros v. destruct (in_dec Nat.eq_dec v (edge_labels l)) as [Hi|Hn].
    - rewrite <- count_label_occ, (Hv v Hi). auto.
    - rewrite count_notin; auto. }
  destruct (crossings_components l Hr Hl2) as (t & Et & Ot & Hvt & Hct).
  assert (Hcl : tng_is_closed t = true).
  { apply (closed_diagram_circles l t Hr); auto. intros v Hi. rewrite <- count_label_occ. apply Hv; auto. }
  exists cs, t. split; auto. split; auto. split; auto. split; auto.
  assert (Ht_ne : forall c', In c' t -> pedges c' <> []).
  { intros c' Hc'. destruct Ot as [[Hs _] _]. rewrite Forall_forall in Hs. apply simple_ne; auto. }
  assert (M1 : forall c, In c cs -> exists c', In c' t /\ forall e, In e (pedges c) <-> In e (pedges c')).
  { intros c Hc. rewrite Forall_forall in Fcs. destruct (Fcs c Hc) as (_ & Hne & _).
    destruct (pedges c) as [|e0 es] eqn:Ec; [contradiction|].
    assert (He0 : In e0 (pedges c)) by (rewrite Ec; left; reflexivity).
    assert (Hl0 : In e0 (edge_labels l)).
    { apply Covcs. apply in_concat. exists (pedges c). split; auto. apply in_map; auto. }
    destruct (proj1 (in_verts t e0) (proj2 (Hvt e0) Hl0)) as (c' & Hc' & He0').
    exists c'. split; auto. intros e. rewrite <- Ec. rewrite (Clcs c Hc e0 He0 e), conn_conn, (Hct e0 e Hl0).
    split.
    - intros (d & Hd & H0 & H1). rewrite (inv_same_comp t c' d e0 (proj1 Ot) Hc' Hd He0' H0). auto.
    - intros He. exists c'. auto. }
  assert (M2 : forall c', In c' t -> exists c, In c cs /\ forall e, In e (pedges c) <-> In e (pedges c')).
  { intros c' Hc'. pose proof (hd_in (pedges c') (Ht_ne c' Hc')) as Hh. set (e0 := hd 0 (pedges c')) in *.
    assert (Hl0 : In e0 (edge_labels l)) by (apply Hvt; apply in_verts; eauto).
    apply Covcs in Hl0. apply in_concat in Hl0. destruct Hl0 as (es & Hes & He0).
    apply in_map_iff in Hes. destruct Hes as (c & <- & Hc). exists c. split; auto.
    destruct (M1 c Hc) as (d & Hd & Hset). intros e. rewrite Hset.
    rewrite (inv_same_comp t c' d e0 (proj1 Ot) Hc' Hd Hh (proj1 (Hset e0) He0)). tauto. }
  split; [|split; auto].
  (* the numbers agree: the first labels of the components of t are representatives of the classes *)
  set (hdf := fun c' : path => hd 0 (pedges c')).
  assert (Hreps : K.reps_of l (map hdf t)).
  { split; [|split; [|split]].
    - destruct Ot as [Hinv _]. clear - Hinv. induction t as [|c r IH]; [constructor|].
      apply inv_cons in Hinv. destruct Hinv as (Sc & Ir & Hd). cbn [map]. constructor; [|apply IH; auto].
      intros Hi. apply in_map_iff in Hi. destruct Hi as (d & Ed & Hdr).
      apply (Hd (hdf c)); [apply hd_in; apply simple_ne; auto|].
      apply in_verts. exists d. split; auto. rewrite <- Ed. apply hd_in.
      destruct Ir as [Hs _]. rewrite Forall_forall in Hs. apply simple_ne; auto.
    - intros r Hr'. apply in_map_iff in Hr'. destruct Hr' as (c' & <- & Hc'). apply Hvt. apply in_verts.
      exists c'. split; auto. apply hd_in; auto.
    - intros a b Ha Hb Hc. apply in_map_iff in Ha. destruct Ha as (c1 & <- & H1).
      apply in_map_iff in Hb. destruct Hb as (c2 & <- & H2).
      assert (Hl1 : In (hdf c1) (edge_labels l)).
      { apply Hvt. apply in_verts. exists c1. split; auto. apply hd_in; auto. }
      apply conn_conn in Hc. apply (Hct _ _ Hl1) in Hc. destruct Hc as (d & Hd & A & B').
      rewrite (inv_same_comp t c1 d (hdf c1) (proj1 Ot) H1 Hd (hd_in _ (Ht_ne c1 H1)) A).
      rewrite (inv_same_comp t c2 d (hdf c2) (proj1 Ot) H2 Hd (hd_in _ (Ht_ne c2 H2)) B'). reflexivity.
    - intros e He. pose proof (proj2 (Hvt e) He) as Hev. apply in_verts in Hev. destruct Hev as (c' & Hc' & Hec).
      exists (hdf c'). split; [apply in_map; auto|]. apply conn_conn.
      assert (Hl1 : In (hdf c') (edge_labels l)).
      { apply Hvt. apply in_verts. exists c'. split; auto. apply hd_in; auto. }
      apply (Hct _ _ Hl1). exists c'. split; auto. split; auto. apply hd_in; auto. }
  rewrite (K.components_count l Hv cs Ecs _ Hreps). apply map_length.
Qed.
