(* C07, composition of coordinate maps: the hypotheses are satisfiable, non-trivially.
   The complex  Z^2 --D2--> Z^3 --0--> Z  (degrees 2, 1, 0; d_deg = -1) with D2 = U^-1 * diag(1, 2), whose summand of
   degree 1 carries the coordinate map (U, U^-1), U = [[1,1,0],[0,1,0],[0,0,1]]: in the new coordinates the incoming
   differential is diag(1, 2), H_1 = Z + Z/2, and the merged summand has the generators e_3 and (-1, 1, 0) of the
   ORIGINAL complex.  The SNF routine is the tiny [snf_diag] of Proofs/C07Example.v (answers on Smith forms only). *)
From Coq Require Import ZArith Arith List Lia Bool.
Require Import Yui.Base.Ring Yui.Base.MatF Yui.Base.MatL Yui.Model.HomologyCalc Yui.Model.HomologyMerge.
Require Import Yui.Proofs.C07Calc Yui.Proofs.C07Example.
Require Import Yui.Proofs.C07MergeTrans Yui.Proofs.C07Merge Yui.Proofs.C07MergeComplex.
Import ListNotations.

Definition mx_U : dmat Z := mkm 3 3 [[1; 1; 0]; [0; 1; 0]; [0; 0; 1]]%Z.
Definition mx_Ui : dmat Z := mkm 3 3 [[1; -1; 0]; [0; 1; 0]; [0; 0; 1]]%Z.
Definition mx_D2 : dmat Z := mkm 3 2 [[1; -2]; [0; 2]; [0; 0]]%Z.
Definition mx_D1 : dmat Z := mkm 1 3 [[0; 0; 0]]%Z.
Definition mx_D0 : dmat Z := mkm 0 1 [].

Definition mx_raw : complex Z :=
  mk_complex [0; 1; 2]%Z (-1)%Z
             (fun i => if (i =? 2)%Z then mx_D2 else if (i =? 1)%Z then mx_D1 else if (i =? 0)%Z then mx_D0
                       else mkm 0 0 []).
Definition mx_s1 : summand Z := mk_summand 3 3 [] (mk_trans 3 3 [mx_U] [mx_Ui]).
Definition mx_bc : bcomplex Z :=
  mk_bcomplex mx_raw (fun i => if (i =? 1)%Z then mx_s1 else summand_free (c_rank mx_raw i)).

(* the summand of degree 1 is the one Summand::new(gens, 3, [], Trans::new(U, U^-1)) builds *)
Lemma mx_s1_new : obind (trans_new mx_U mx_Ui) (fun t => summand_new 3 3 [] t) = Some mx_s1.
Proof. vm_compute. reflexivity. Qed.

Lemma mx_run :
  b_homology_merge Z_ring zisu snf_diag mx_bc 1%Z
  = Some (mk_summand 3 1 [2%Z]
            (mk_trans 3 2 [mkm 2 3 [[0; 0; 1]; [0; 1; 0]]%Z] [mkm 3 2 [[0; -1]; [0; 1]; [1; 0]]%Z])).
Proof. vm_compute. reflexivity. Qed.

(* the other two routes give the same rank and torsion; the un-reduced Trans of homology_at keeps both factors *)
Lemma mx_run_at :
  b_homology_at Z_ring zisu snf_diag mx_bc 1%Z
  = Some (mk_summand 3 1 [2%Z]
            (mk_trans 3 2 [mx_U; mkm 2 3 [[0; 0; 1]; [0; 1; 0]]%Z] [mx_Ui; mkm 3 2 [[0; 0]; [0; 1]; [1; 0]]%Z])).
Proof. vm_compute. reflexivity. Qed.

Lemma mx_run_twice :
  b_homology_merge_twice Z_ring zisu snf_diag mx_bc 1%Z = b_homology_merge Z_ring zisu snf_diag mx_bc 1%Z.
Proof. vm_compute. reflexivity. Qed.

Lemma mx_bc_ok : bc_ok mx_bc 2%Z /\ bc_ok mx_bc 1%Z /\ bc_ok mx_bc 0%Z.
Proof.
  unfold bc_ok. repeat split; try reflexivity.
  - apply (summand_free_ok 2).
  - unfold trans_ok. cbn. constructor; try reflexivity. constructor.
  - apply (summand_free_ok 1).
Qed.

Lemma meq_small_Z m n (A B : mat Z) :
  forallb (fun i => forallb (fun j => (A i j =? B i j)%Z) (seq 0 n)) (seq 0 m) = true -> meq m n A B.
Proof.
  intros H i j Hi Hj. rewrite forallb_forall in H. specialize (H i). rewrite in_seq in H. specialize (H ltac:(lia)).
  rewrite forallb_forall in H. specialize (H j). rewrite in_seq in H. specialize (H ltac:(lia)). now apply Z.eqb_eq.
Qed.

Lemma mx_iso : iso_at Z_ring mx_bc 2%Z /\ iso_at Z_ring mx_bc 1%Z /\ iso_at Z_ring mx_bc 0%Z.
Proof.
  unfold iso_at. split; [|split].
  - exists (d_id Z_ring 2), (d_id Z_ring 2). split; [reflexivity|]. split; [reflexivity|].
    split; apply meq_small_Z; vm_compute; reflexivity.
  - exists mx_U, mx_Ui. split; [reflexivity|]. split; [reflexivity|].
    split; apply meq_small_Z; vm_compute; reflexivity.
  - exists (d_id Z_ring 1), (d_id Z_ring 1). split; [reflexivity|]. split; [reflexivity|].
    split; apply meq_small_Z; vm_compute; reflexivity.
Qed.

Lemma mx_raw_mats :
  d_matrix Z_ring mx_raw 2%Z = Some (dmk 3 2 (mget Z_ring mx_D2)) /\
  d_matrix Z_ring mx_raw 1%Z = Some (dmk 1 3 (mget Z_ring mx_D1)).
Proof. split; reflexivity. Qed.

Lemma mx_zero_prod : zero_prod Z_ring (dmk 3 2 (mget Z_ring mx_D2)) (dmk 1 3 (mget Z_ring mx_D1)).
Proof. unfold zero_prod. apply meq_small_Z. vm_compute. reflexivity. Qed.
