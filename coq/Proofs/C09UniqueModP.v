(* C09 (uniqueness), part 5: the rank of an integer matrix modulo a prime, read off its invariant factors.
   If P A Q = diag(a_0 | a_1 | ... | a_(r-1), 0 ..) over Z then over F_p the matrix A mod p is equivalent to
   diag(a_k mod p): the entries not divisible by p come first (divisibility chain) and are invertible, so
       rank_(F_p)(A mod p) = #{k < r : p does not divide a_k} = r - #{k < r : p | a_k}
   where rank_(F_p) is the size of ANY diagonal form with non-zero entries of A mod p over F_p (Proofs/C07Rank.v).
   This is the counting identity behind the universal-coefficient relations (C03, C07).

   Generic part: a homomorphism of ring dictionaries maps Smith-type forms to Smith-type forms. *)
From Coq Require Import ZArith Znumtheory Arith List Lia Ring Bool.
Require Import Yui.Base.Ring Yui.Base.MatF Yui.Model.Snf.
Require Import Yui.Proofs.C07Algebra Yui.Proofs.C07Rank Yui.Proofs.C09UniqueKer.
Require Import Yui.Proofs.C09Inv Yui.Proofs.C09Laws.
Import ListNotations.

Section Hom.
  Context {R R' : Type} (o : ring_ops R) (o' : ring_ops R') (L : ring_laws o) (L' : ring_laws o').
  Variable phi : R -> R'.
  Hypothesis phi0 : phi (rzero o) = rzero o'.
  Hypothesis phi1 : phi (rone o) = rone o'.
  Hypothesis phi_add : forall a b, phi (radd o a b) = radd o' (phi a) (phi b).
  Hypothesis phi_mul : forall a b, phi (rmul o a b) = rmul o' (phi a) (phi b).

  Definition mmap (A : mat R) : mat R' := fun i j => phi (A i j).

  Lemma phi_sum n f : phi (sum o n f) = sum o' n (fun k => phi (f k)).
  Proof. induction n as [|n IH]; cbn [sum]; [exact phi0|]. now rewrite phi_add, IH. Qed.

  Lemma phi_mmul n A B i j : phi (mmul o n A B i j) = mmul o' n (mmap A) (mmap B) i j.
  Proof. unfold mmul. rewrite phi_sum. apply (sum_ext o'). intros k _. apply phi_mul. Qed.

  Lemma phi_mid i j : phi (mid o i j) = mid o' i j.
  Proof. unfold mid. destruct (i =? j); [exact phi1|exact phi0]. Qed.

  Lemma phi_inv_pair k P Pi : inv_pair o k P Pi -> inv_pair o' k (mmap P) (mmap Pi).
  Proof.
    intros [H1 H2]. split; intros i j Hi Hj; rewrite <- phi_mmul, <- phi_mid; f_equal; [now apply H1|now apply H2].
  Qed.

  (* the image of a Smith-type form whose entries surviving phi come first *)
  Lemma hom_smith_form m n (A : mat R) r a t :
    smith_form o m n A r a ->
    (t <= r)%nat ->
    (forall k, (k < t)%nat -> phi (a k) <> rzero o') ->
    (forall k, (t <= k)%nat -> (k < r)%nat -> phi (a k) = rzero o') ->
    smith_form o' m n (mmap A) t (fun k => phi (a k)).
  Proof.
    intros [P [Pi [Q [Qi [HP [HQ [He [Hnz Hr]]]]]]]] Ht Hin Hout.
    exists (mmap P), (mmap Pi), (mmap Q), (mmap Qi).
    split; [now apply phi_inv_pair|]. split; [now apply phi_inv_pair|].
    split; [|split; [exact Hin|lia]].
    intros i j Hi Hj.
    transitivity (phi (mmul o m P (mmul o n A Q) i j)).
    - rewrite phi_mmul. apply (mmul_ext_r o'). intros l Hl. symmetry. exact (phi_mmul n A Q l j).
    - rewrite (He i j Hi Hj).
      destruct (Nat.eqb_spec i j) as [->|Hne]; cbn [andb]; [|exact phi0].
      destruct (Nat.ltb_spec j r) as [Hjr|Hjr]; destruct (Nat.ltb_spec j t) as [Hjt|Hjt];
        try reflexivity; try exact phi0; try lia.
      apply Hout; assumption.
  Qed.
End Hom.

(* ---------- Z -> F_p ---------- *)
Section ModP.
  Open Scope Z_scope.
  Variable p : Z.
  Hypothesis Hp : prime p.

  Let pgt : 1 < p := p_gt_1 p Hp.

  Lemma fp_mk_add a b : fp_mk p (a + b) = radd (fp_ring p) (fp_mk p a) (fp_mk p b).
  Proof. apply fp_eq. cbn [fp_ring radd]. rewrite !fp_val_mk. apply Zplus_mod. Qed.

  Lemma fp_mk_mul a b : fp_mk p (a * b) = rmul (fp_ring p) (fp_mk p a) (fp_mk p b).
  Proof. apply fp_eq. cbn [fp_ring rmul]. rewrite !fp_val_mk. apply Zmult_mod. Qed.

  Lemma fp_mk_zero_iff a : fp_mk p a = rzero (fp_ring p) <-> a mod p = 0.
  Proof.
    cbn [fp_ring rzero]. split.
    - intros E. apply (f_equal fp_val) in E. rewrite !fp_val_mk, Zmod_0_l in E. exact E.
    - intros E. apply fp_eq. rewrite !fp_val_mk, Zmod_0_l. exact E.
  Qed.

  (* the number of entries of a_0 .. a_(r-1) not divisible by p *)
  Definition cnt_unit (a : nat -> Z) (r : nat) : nat :=
    length (filter (fun k => negb (a k mod p =? 0)) (seq 0 r)).
  Definition cnt_div (a : nat -> Z) (r : nat) : nat :=
    length (filter (fun k => a k mod p =? 0) (seq 0 r)).

  Lemma cnt_S a r : cnt_unit a (S r) = (cnt_unit a r + (if (a r mod p =? 0)%Z then 0 else 1))%nat.
  Proof.
    unfold cnt_unit. rewrite seq_S, filter_app, app_length. cbn [Nat.add filter].
    destruct (a r mod p =? 0); reflexivity.
  Qed.

  Lemma cnt_le a r : (cnt_unit a r <= r)%nat.
  Proof. induction r as [|r IH]; [cbn; lia|]. rewrite cnt_S. destruct (a r mod p =? 0); lia. Qed.

  Lemma cnt_sum a r : (cnt_unit a r + cnt_div a r = r)%nat.
  Proof.
    induction r as [|r IH]; [reflexivity|]. rewrite cnt_S.
    unfold cnt_div in *. rewrite seq_S, filter_app, app_length. cbn [Nat.add filter].
    destruct (a r mod p =? 0); cbn [length]; lia.
  Qed.

  (* along a divisibility chain the entries prime to p come first *)
  Lemma cnt_prefix a r :
    (forall k, (S k < r)%nat -> (a k | a (S k))) ->
    forall k, (k < r)%nat -> (a k mod p <> 0 <-> (k < cnt_unit a r)%nat).
  Proof.
    induction r as [|r IH]; intros C k Hk; [lia|].
    assert (C' : forall k0, (S k0 < r)%nat -> (a k0 | a (S k0))) by (intros; apply C; lia).
    specialize (IH C'). rewrite cnt_S. pose proof (cnt_le a r) as Hle.
    destruct (Z.eqb_spec (a r mod p) 0) as [Er|Er].
    - rewrite Nat.add_0_r. destruct (Nat.eq_dec k r) as [->|Hne].
      + split; [intros H; contradiction|lia].
      + apply IH. lia.
    - (* p does not divide a_r, hence none of the earlier entries *)
      assert (Hall : forall k0, (k0 < r)%nat -> a k0 mod p <> 0).
      { intros k0 Hk0 E. apply Er.
        assert (D : (a k0 | a r)).
        { apply (chain_le Z_ring Z_ring_laws (S r) a k0 r); [|lia|lia].
          intros k1 Hk1. destruct (C k1 Hk1) as [q Hq]. exists q. exact Hq. }
        apply Z.mod_divide in E; [|lia]. apply Z.mod_divide; [lia|]. now apply Z.divide_trans with (a k0). }
      assert (Hc : cnt_unit a r = r).
      { destruct r as [|r']; [reflexivity|].
        pose proof (proj1 (IH r' ltac:(lia)) (Hall r' ltac:(lia))). lia. }
      rewrite Hc. split; [lia|]. intros _.
      destruct (Nat.eq_dec k r) as [->|Hne]; [exact Er|apply Hall; lia].
  Qed.

  Let Lp : ring_laws (fp_ring p) := fp_ring_laws p Hp.
  Let Ip : integral (fp_ring p) := sl_integral (fp_dict p) (fp_snf_laws p Hp).

  (* A mod p has the diagonal form diag(a_k mod p : k < cnt_unit) over F_p *)
  Lemma modp_smith_form m n (A : mat Z) r a :
    smith_form Z_ring m n A r a ->
    (forall k, (S k < r)%nat -> (a k | a (S k))) ->
    smith_form (fp_ring p) m n (fun i j => fp_mk p (A i j)) (cnt_unit a r) (fun k => fp_mk p (a k)).
  Proof.
    intros F C.
    apply (hom_smith_form Z_ring (fp_ring p) (fp_mk p) eq_refl eq_refl fp_mk_add fp_mk_mul m n A r a (cnt_unit a r) F).
    - apply cnt_le.
    - intros k Hk E. apply fp_mk_zero_iff in E. pose proof (cnt_le a r).
      apply (proj2 (cnt_prefix a r C k ltac:(lia))) in Hk. contradiction.
    - intros k Hk Hkr. apply fp_mk_zero_iff.
      destruct (Z.eq_dec (a k mod p) 0) as [E|E]; [exact E|].
      apply (proj1 (cnt_prefix a r C k Hkr)) in E. lia.
  Qed.

  Theorem modp_rank m n (A : mat Z) r a rp c :
    smith_form Z_ring m n A r a ->
    (forall k, (S k < r)%nat -> (a k | a (S k))) ->
    smith_form (fp_ring p) m n (fun i j => fp_mk p (A i j)) rp c ->
    rp = cnt_unit a r /\ (rp + cnt_div a r = r)%nat.
  Proof.
    intros F C Fp.
    pose proof (modp_smith_form m n A r a F C) as F'.
    pose proof (smith_form_rank_unique (fp_ring p) Lp Ip m n _ _ _ _ _ Fp F') as E.
    split; [exact E|]. rewrite E. apply cnt_sum.
  Qed.
End ModP.
