(* C03Big, part 1: collect_gen_info is the regrouping of the generators by (homological degree, q_deg). *)
From Coq Require Import List ZArith Bool Lia Permutation.
Require Import Yui.Model.IntoBigraded.
Import ListNotations.
Open Scope Z_scope.

Lemma key_eqb_spec : forall a b : key, key_eqb a b = true <-> a = b.
Proof.
  intros [a1 a2] [b1 b2]. unfold key_eqb. cbn [fst snd]. rewrite andb_true_iff, !Z.eqb_eq.
  split; [intros [-> ->]; reflexivity | intros H; inversion H; auto].
Qed.

Lemma key_eqb_refl : forall a, key_eqb a a = true.
Proof. intros a. apply key_eqb_spec. reflexivity. Qed.

Lemma key_eqb_false : forall a b : key, key_eqb a b = false <-> a <> b.
Proof.
  intros a b. split.
  - intros H E. apply key_eqb_spec in E. congruence.
  - intros H. destruct (key_eqb a b) eqn:E; [apply key_eqb_spec in E; contradiction | reflexivity].
Qed.

Lemma key_eqb_sym : forall a b, key_eqb a b = key_eqb b a.
Proof.
  intros a b. destruct (key_eqb a b) eqn:E.
  - apply key_eqb_spec in E. subst. symmetry. apply key_eqb_refl.
  - symmetry. apply key_eqb_false. apply key_eqb_false in E. congruence.
Qed.

(* ---------- the (rank, tors) view of a table entry ---------- *)
Definition cellv (k : key) (t : table) : cell := cell_of (tbl_find k t).

Definition push_cell (g : gkind) (c : cell) : cell :=
  match g with
  | GFree => (S (fst c), snd c)
  | GTor t => (fst c, snd c ++ [t])
  end.

Lemma cell_of_push : forall idx g e, cell_of (Some (push_gen idx g e)) = push_cell g (cell_of (Some e)).
Proof. intros idx g [[rk ts] ix]. destruct g; reflexivity. Qed.

Lemma cellv_update : forall kk k idx g t,
  cellv kk (tbl_update k (push_gen idx g) t) = if key_eqb kk k then push_cell g (cellv kk t) else cellv kk t.
Proof.
  intros kk k idx g t. unfold cellv. induction t as [|[k1 e] t IH].
  - cbn [tbl_update tbl_find]. destruct (key_eqb kk k) eqn:E.
    + apply cell_of_push.
    + reflexivity.
  - cbn [tbl_update tbl_find]. destruct (key_eqb k k1) eqn:E1.
    + apply key_eqb_spec in E1. subst k1. cbn [tbl_find].
      destruct (key_eqb kk k) eqn:E; [apply cell_of_push | reflexivity].
    + cbn [tbl_find]. destruct (key_eqb kk k1) eqn:E2.
      * apply key_eqb_spec in E2. subst k1. rewrite key_eqb_sym, E1. reflexivity.
      * exact IH.
Qed.

(* ---------- located generators ---------- *)
Definition locate (i : Z) (gs : list (gkind * list Z)) : list (key * gkind) :=
  map (fun gq => ((i, chain_q_deg (snd gq)), fst gq)) gs.

Definition all_located (hs : list (Z * summand_info)) : list (key * gkind) :=
  flat_map (fun ih => locate (fst ih) (tagged (snd ih))) hs.

Definition gather_step (kk : key) (c : cell) (x : key * gkind) : cell :=
  if key_eqb kk (fst x) then push_cell (snd x) c else c.

Lemma cellv_collect_from : forall kk i gs k t,
  cellv kk (collect_from i k gs t) = fold_left (gather_step kk) (locate i gs) (cellv kk t).
Proof.
  intros kk i gs. induction gs as [|[g qs] gs IH]; intros k t.
  - reflexivity.
  - cbn [collect_from locate map fold_left]. rewrite IH. f_equal.
    rewrite cellv_update. reflexivity.
Qed.

Lemma cellv_collect_gen_info_from : forall kk hs t,
  cellv kk (fold_left (fun t ih => collect_from (fst ih) O (tagged (snd ih)) t) hs t)
  = fold_left (gather_step kk) (all_located hs) (cellv kk t).
Proof.
  intros kk hs. induction hs as [|ih hs IH]; intros t.
  - reflexivity.
  - cbn [fold_left all_located flat_map]. rewrite IH, cellv_collect_from, fold_left_app. reflexivity.
Qed.

Lemma cellv_collect_gen_info : forall kk hs,
  cellv kk (collect_gen_info hs) = fold_left (gather_step kk) (all_located hs) zero_cell.
Proof. intros kk hs. unfold collect_gen_info. rewrite cellv_collect_gen_info_from. reflexivity. Qed.

(* ---------- gather = (count of free, orders of torsion) of the selected generators ---------- *)
Definition loc_cell (kk : key) (L : list (key * gkind)) : cell :=
  (length (filter (fun x => key_eqb kk (fst x) && is_free_b (snd x)) L),
   flat_map (fun x => if key_eqb kk (fst x) then tor_list (snd x) else []) L).

Lemma gather_from : forall kk L c,
  fold_left (gather_step kk) L c = ((fst c + fst (loc_cell kk L))%nat, snd c ++ snd (loc_cell kk L)).
Proof.
  intros kk L. induction L as [|[k g] L IH]; intros [rk ts].
  - cbn. rewrite Nat.add_0_r, app_nil_r. reflexivity.
  - cbn [fold_left]. rewrite IH. unfold gather_step, loc_cell. cbn [fst snd filter flat_map].
    destruct (key_eqb kk k); cbn [andb].
    + destruct g; cbn [push_cell is_free_b tor_list fst snd length app].
      * f_equal. lia.
      * rewrite <- app_assoc. reflexivity.
    + reflexivity.
Qed.

Lemma gather_zero : forall kk L, fold_left (gather_step kk) L zero_cell = loc_cell kk L.
Proof.
  intros kk L. rewrite gather_from. unfold zero_cell. cbn [fst snd app plus Nat.add].
  symmetry. apply surjective_pairing.
Qed.

(* ---------- loc_cell of all_located = regroup of gens_at ---------- *)
Lemma regroup_app : forall q_of j g1 g2,
  regroup q_of j (g1 ++ g2)
  = ((fst (regroup q_of j g1) + fst (regroup q_of j g2))%nat, snd (regroup q_of j g1) ++ snd (regroup q_of j g2)).
Proof.
  intros. unfold regroup. cbn [fst snd]. rewrite !filter_app, app_length, flat_map_app. reflexivity.
Qed.

Lemma loc_cell_app : forall kk L1 L2,
  loc_cell kk (L1 ++ L2)
  = ((fst (loc_cell kk L1) + fst (loc_cell kk L2))%nat, snd (loc_cell kk L1) ++ snd (loc_cell kk L2)).
Proof.
  intros. unfold loc_cell. cbn [fst snd]. rewrite filter_app, app_length, flat_map_app. reflexivity.
Qed.

Lemma loc_cell_locate_same : forall i j gs,
  loc_cell (i, j) (locate i gs) = regroup chain_q_deg j gs.
Proof.
  intros i j gs. induction gs as [|[g qs] gs IH].
  - reflexivity.
  - change (locate i ((g, qs) :: gs)) with ([((i, chain_q_deg qs), g)] ++ locate i gs).
    change ((g, qs) :: gs) with ([(g, qs)] ++ gs).
    rewrite loc_cell_app, regroup_app, IH. f_equal; f_equal.
    + unfold loc_cell, regroup, key_eqb. cbn [fst snd filter flat_map].
      rewrite Z.eqb_refl. cbn [andb]. rewrite (Z.eqb_sym j).
      destruct (chain_q_deg qs =? j); destruct g; reflexivity.
    + unfold loc_cell, regroup, key_eqb. cbn [fst snd filter flat_map].
      rewrite Z.eqb_refl. cbn [andb]. rewrite (Z.eqb_sym j).
      destruct (chain_q_deg qs =? j); destruct g; reflexivity.
Qed.

Lemma loc_cell_locate_other : forall i i' j gs, i' <> i -> loc_cell (i, j) (locate i' gs) = zero_cell.
Proof.
  intros i i' j gs Hne. induction gs as [|[g qs] gs IH].
  - reflexivity.
  - unfold loc_cell in *. cbn [locate map filter flat_map fst snd].
    assert (E : key_eqb (i, j) (i', chain_q_deg qs) = false).
    { apply key_eqb_false. intros H. inversion H. congruence. }
    rewrite E. cbn [andb]. exact IH.
Qed.

Lemma loc_cell_all_located : forall i j hs,
  loc_cell (i, j) (all_located hs) = regroup chain_q_deg j (gens_at hs i).
Proof.
  intros i j hs. induction hs as [|[i' s] hs IH].
  - reflexivity.
  - cbn [all_located gens_at flat_map fst snd]. rewrite loc_cell_app, regroup_app.
    fold (all_located hs). fold (gens_at hs i). rewrite IH.
    destruct (i' =? i) eqn:E.
    + apply Z.eqb_eq in E. subst i'. rewrite loc_cell_locate_same. reflexivity.
    + apply Z.eqb_neq in E. rewrite (loc_cell_locate_other i i' j _ E). reflexivity.
Qed.

(* the table entry of (i, j) is the regrouping of the generators of degree i by q_deg; no hypothesis *)
Lemma collect_gen_info_regroup : forall hs i j,
  cell_of (tbl_find (i, j) (collect_gen_info hs)) = regroup chain_q_deg j (gens_at hs i).
Proof.
  intros hs i j. fold (cellv (i, j) (collect_gen_info hs)).
  rewrite cellv_collect_gen_info, gather_zero. apply loc_cell_all_located.
Qed.

(* ---------- keys of the table = keys of the located generators ---------- *)
Lemma tbl_find_update_some : forall kk k f t,
  (exists e, tbl_find kk (tbl_update k f t) = Some e) <-> (kk = k \/ exists e, tbl_find kk t = Some e).
Proof.
  intros kk k f t. induction t as [|[k1 e1] t IH].
  - cbn [tbl_update tbl_find]. destruct (key_eqb kk k) eqn:E.
    + apply key_eqb_spec in E. split; [auto | intros _; eexists; reflexivity].
    + apply key_eqb_false in E. split; [intros [e He]; discriminate | intros [H|[e He]]; [contradiction | discriminate]].
  - cbn [tbl_update]. destruct (key_eqb k k1) eqn:E1.
    + apply key_eqb_spec in E1. subst k1. cbn [tbl_find].
      destruct (key_eqb kk k) eqn:E.
      * apply key_eqb_spec in E. split; [auto | intros _; eexists; reflexivity].
      * apply key_eqb_false in E. tauto.
    + cbn [tbl_find]. destruct (key_eqb kk k1) eqn:E2.
      * split; [intros _; right; eexists; reflexivity | intros _; eexists; reflexivity].
      * exact IH.
Qed.

Lemma tbl_find_in_keys : forall kk t, (exists e, tbl_find kk t = Some e) <-> In kk (map fst t).
Proof.
  intros kk t. induction t as [|[k1 e1] t IH].
  - cbn. split; [intros [e He]; discriminate | tauto].
  - cbn [tbl_find map fst In]. destruct (key_eqb kk k1) eqn:E.
    + apply key_eqb_spec in E. split; [auto | intros _; eexists; reflexivity].
    + apply key_eqb_false in E. rewrite IH. split; [auto | intros [H|H]; [congruence | exact H]].
Qed.

Lemma keys_collect_from : forall kk i gs k t,
  In kk (map fst (collect_from i k gs t)) <-> In kk (map fst (locate i gs)) \/ In kk (map fst t).
Proof.
  intros kk i gs. induction gs as [|[g qs] gs IH]; intros k t.
  - cbn. tauto.
  - cbn [collect_from locate map fst snd In]. rewrite IH.
    rewrite <- (tbl_find_in_keys kk (tbl_update _ _ _)), tbl_find_update_some, tbl_find_in_keys.
    unfold locate. intuition congruence.
Qed.

Lemma keys_collect_gen_info_from : forall kk hs t,
  In kk (map fst (fold_left (fun t ih => collect_from (fst ih) O (tagged (snd ih)) t) hs t))
  <-> In kk (map fst (all_located hs)) \/ In kk (map fst t).
Proof.
  intros kk hs. induction hs as [|ih hs IH]; intros t.
  - cbn. tauto.
  - cbn [fold_left all_located flat_map]. rewrite IH, keys_collect_from, map_app, in_app_iff.
    fold (all_located hs). tauto.
Qed.

Lemma keys_collect_gen_info : forall kk hs,
  In kk (map fst (collect_gen_info hs)) <-> In kk (map fst (all_located hs)).
Proof.
  intros kk hs. unfold collect_gen_info. rewrite keys_collect_gen_info_from. cbn. tauto.
Qed.

(* the keys of the table are pairwise distinct *)
Lemma tbl_update_keys_nodup : forall k f t, NoDup (map fst t) -> NoDup (map fst (tbl_update k f t)).
Proof.
  intros k f t. induction t as [|[k1 e1] t IH]; intros H.
  - cbn. constructor; [intros [] | constructor].
  - cbn [tbl_update]. destruct (key_eqb k k1) eqn:E.
    + exact H.
    + cbn [map fst]. inversion H as [|? ? Hn Hd]; subst. constructor.
      * intros Hin. apply Hn. apply tbl_find_in_keys. apply tbl_find_in_keys in Hin.
        apply tbl_find_update_some in Hin. destruct Hin as [Hin|Hin]; [|exact Hin].
        subst k1. rewrite key_eqb_refl in E. discriminate.
      * apply IH. exact Hd.
Qed.

Lemma collect_from_keys_nodup : forall i gs k t, NoDup (map fst t) -> NoDup (map fst (collect_from i k gs t)).
Proof.
  intros i gs. induction gs as [|[g qs] gs IH]; intros k t H.
  - exact H.
  - cbn [collect_from]. apply IH. apply tbl_update_keys_nodup. exact H.
Qed.

Lemma collect_gen_info_keys_nodup : forall hs, NoDup (map fst (collect_gen_info hs)).
Proof.
  intros hs. unfold collect_gen_info.
  assert (G : forall t, NoDup (map fst t) ->
     NoDup (map fst (fold_left (fun t ih => collect_from (fst ih) O (tagged (snd ih)) t) hs t))).
  { induction hs as [|ih hs IH]; intros t H; [exact H|]. cbn [fold_left]. apply IH.
    apply collect_from_keys_nodup. exact H. }
  apply G. constructor.
Qed.
