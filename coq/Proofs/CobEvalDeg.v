(* The closed evaluation with symbolic parameters H, T (polynomials of KhCheck.v over Z):
     - specialising H -> h, T -> t gives the numeric evaluation,
     - the result is homogeneous of quantum degree  deg = 2 - 2g - 2(x+y)  when deg H = -2, deg T = -4
       (CobComp::deg of the closed component), and products are homogeneous of the summed degree. *)
From Coq Require Import List Arith Bool ZArith Lia Ring.
Require Import Yui.Model.KhCheck Yui.Model.CobEval Yui.Proofs.KhCheckP Yui.Proofs.CobEvalP.
Import ListNotations.
Open Scope Z_scope.

(* every monomial of p has quantum degree d (the zero polynomial is homogeneous of every degree) *)
Definition hom (d : Z) (p : poly) : Prop := forall e, In e p -> mono_qdeg (fst e) = d.

Lemma hom_nil d : hom d [].
Proof. intros e []. Qed.
Lemma hom_cast d d' p : hom d p -> d = d' -> hom d' p.
Proof. intros H <-. exact H. Qed.

Lemma insert_keys m e p x : In x (p_insert m e p) -> fst x = fst e \/ In x p.
Proof.
  induction p as [|[k c] r IH]; cbn [p_insert].
  - destruct (cred m (snd e) =? 0); [intros []|]. intros [<-|[]]. left. reflexivity.
  - destruct (mono_ltb (fst e) k).
    + destruct (cred m (snd e) =? 0); [auto|]. intros [<-|H]; [left; reflexivity|auto].
    + destruct (mono_eqb (fst e) k) eqn:Ek.
      * apply mono_eqb_eq in Ek. cbv zeta.
        destruct (cred m (c + snd e) =? 0).
        -- intros H. right. right. exact H.
        -- intros [<-|H]; [left; cbn [fst]; congruence|right; right; exact H].
      * intros [<-|H]; [right; left; reflexivity|].
        destruct (IH H) as [E|E]; [left; exact E|right; right; exact E].
Qed.

Lemma hom_insert m d e p : mono_qdeg (fst e) = d -> hom d p -> hom d (p_insert m e p).
Proof.
  intros He Hp x Hx. destruct (insert_keys m e p x Hx) as [E|E]; [rewrite E; exact He|exact (Hp x E)].
Qed.

Lemma hom_norm m d p : (forall e, In e p -> mono_qdeg (fst e) = d) -> hom d (p_norm m p).
Proof.
  unfold p_norm. induction p as [|e p IH]; intros H; cbn [fold_right]; [apply hom_nil|].
  apply hom_insert; [apply H; left; reflexivity|]. apply IH. intros x Hx. apply H. right. exact Hx.
Qed.

Lemma hom_add m d a b : hom d a -> hom d b -> hom d (p_add m a b).
Proof.
  unfold p_add. induction a as [|e a IH]; intros Ha Hb; cbn [fold_right]; [exact Hb|].
  apply hom_insert; [apply Ha; left; reflexivity|]. apply IH; [|exact Hb]. intros x Hx. apply Ha. right. exact Hx.
Qed.

Lemma mono_qdeg_add a b a' b' :
  mono_qdeg ((a + a')%nat, (b + b')%nat) = mono_qdeg (a, b) + mono_qdeg (a', b').
Proof. unfold mono_qdeg. cbn [fst snd]. rewrite !Nat2Z.inj_add. ring. Qed.

Lemma hom_scale_mono m d1 d2 e b : mono_qdeg (fst e) = d1 -> hom d2 b -> hom (d1 + d2) (p_scale_mono m e b).
Proof.
  intros He Hb. unfold p_scale_mono. apply hom_norm. intros x Hx.
  apply in_map_iff in Hx. destruct Hx as [y [<- Hy]]. cbn [fst].
  rewrite mono_qdeg_add. rewrite <- He, <- (Hb y Hy).
  destruct e as [[e1 e2] ec], y as [[y1 y2] yc]. reflexivity.
Qed.

Lemma hom_mul m d1 d2 a b : hom d1 a -> hom d2 b -> hom (d1 + d2) (p_mul m a b).
Proof.
  unfold p_mul. induction a as [|e a IH]; intros Ha Hb; cbn [fold_right]; [apply hom_nil|].
  apply hom_add.
  - apply hom_scale_mono; [apply Ha; left; reflexivity|exact Hb].
  - apply IH; [|exact Hb]. intros x Hx. apply Ha. right. exact Hx.
Qed.

Lemma hom_neg m d a : hom d a -> hom d (p_neg m a).
Proof.
  intros Ha. unfold p_neg. apply hom_norm. intros x Hx.
  apply in_map_iff in Hx. destruct Hx as [y [<- Hy]]. cbn [fst]. exact (Ha y Hy).
Qed.

Lemma hom_pH : hom (-2) pH.
Proof. intros e [<-|[]]. reflexivity. Qed.
Lemma hom_pT : hom (-4) pT.
Proof. intros e [<-|[]]. reflexivity. Qed.
Lemma hom_pOne : hom 0 pOne.
Proof. intros e [<-|[]]. reflexivity. Qed.

Notation PEX := (pe_x (p_add 0) (p_mul 0) [] pOne pH pT).
Notation PEY := (pe_y (p_neg 0) (p_add 0) (p_mul 0) [] pOne pH pT).
Notation PE0 := (pe_0 (p_neg 0) (p_add 0) (p_mul 0) [] pOne pOne pH pT).

Lemma pe_x_homog x : hom (2 - 2 * Z.of_nat x) (PEX x).
Proof.
  induction x as [| |n IH0 IH1] using nat_ind2.
  - apply hom_nil.
  - exact hom_pOne.
  - change (PEX (S (S n))) with (p_add 0 (p_mul 0 pH (PEX (S n))) (p_mul 0 pT (PEX n))).
    apply hom_add.
    + eapply hom_cast; [apply hom_mul; [exact hom_pH|exact IH1]|lia].
    + eapply hom_cast; [apply hom_mul; [exact hom_pT|exact IH0]|lia].
Qed.

Lemma pe_y_homog y : hom (2 - 2 * Z.of_nat y) (PEY y).
Proof.
  induction y as [| |n IH0 IH1] using nat_ind2.
  - apply hom_nil.
  - exact hom_pOne.
  - change (PEY (S (S n))) with (p_add 0 (p_mul 0 (p_neg 0 pH) (PEY (S n))) (p_mul 0 pT (PEY n))).
    apply hom_add.
    + eapply hom_cast; [apply hom_mul; [apply hom_neg; exact hom_pH|exact IH1]|lia].
    + eapply hom_cast; [apply hom_mul; [exact hom_pT|exact IH0]|lia].
Qed.

Lemma pe_0_homog x y : hom (2 - 2 * Z.of_nat x - 2 * Z.of_nat y) (PE0 x y).
Proof.
  revert y. induction x as [|x IH]; intros [|y].
  - apply hom_nil.
  - eapply hom_cast; [apply (pe_y_homog (S y))|lia].
  - eapply hom_cast; [apply (pe_x_homog (S x))|lia].
  - cbn [pe_0]. eapply hom_cast; [apply hom_mul; [exact hom_pT|apply IH]|lia].
Qed.

Theorem eval_closed_poly_homog g x y : hom (deg (mk_ccomp g x y)) (eval_closed_poly g x y).
Proof.
  rewrite deg_closed. cbn [cc_g cc_x cc_y]. unfold eval_closed_poly.
  revert x y. induction g as [|g IH]; intros x y.
  - cbn [pe]. eapply hom_cast; [apply pe_0_homog|lia].
  - cbn [pe]. apply hom_add.
    + eapply hom_cast; [apply IH|lia].
    + eapply hom_cast; [apply IH|lia].
Qed.

(* specialisation H -> h, T -> t *)
Lemma eval_pH h t : p_eval h t pH = h.
Proof. unfold p_eval, pH. cbn [fold_right fst snd zpow]. ring. Qed.
Lemma eval_pT h t : p_eval h t pT = t.
Proof. unfold p_eval, pT. cbn [fold_right fst snd zpow]. ring. Qed.
Lemma eval_pOne h t : p_eval h t pOne = 1.
Proof. unfold p_eval, pOne. cbn [fold_right fst snd zpow]. ring. Qed.

Theorem eval_closed_poly_spec g x y h t : p_eval h t (eval_closed_poly g x y) = eval_closed g x y h t.
Proof.
  unfold eval_closed_poly, eval_closed.
  rewrite (pe_hom (p_neg 0) (p_add 0) (p_mul 0) Z.opp Z.add Z.mul (p_eval h t) (p_eval h t)
             (eval_neg h t) (eval_add h t) (eval_mul h t)).
  rewrite eval_pH, eval_pT, eval_pOne. reflexivity.
Qed.

Lemma cob_eval_poly_acc_spec h t cs a :
  p_eval h t (fold_left (fun acc c => p_mul 0 acc (eval_closed_poly (cc_g c) (cc_x c) (cc_y c))) cs a)
  = p_eval h t a * cob_eval h t cs.
Proof.
  revert a. induction cs as [|c cs IH]; intros a; cbn [fold_left].
  - rewrite cob_eval_nil. ring.
  - rewrite IH, eval_mul, eval_closed_poly_spec, cob_eval_cons. unfold comp_eval. ring.
Qed.

Theorem cob_eval_poly_spec h t cs : p_eval h t (cob_eval_poly cs) = cob_eval h t cs.
Proof. unfold cob_eval_poly. rewrite cob_eval_poly_acc_spec, eval_pOne. ring. Qed.

Lemma cob_eval_poly_acc_homog cs a d :
  hom d a -> hom (d + cob_deg cs)
               (fold_left (fun acc c => p_mul 0 acc (eval_closed_poly (cc_g c) (cc_x c) (cc_y c))) cs a).
Proof.
  revert a d. induction cs as [|c cs IH]; intros a d Ha; cbn [fold_left].
  - eapply hom_cast; [exact Ha|unfold cob_deg; cbn [fold_left]; ring].
  - eapply hom_cast; [apply IH; apply hom_mul; [exact Ha|apply (eval_closed_poly_homog (cc_g c) (cc_x c) (cc_y c))]|].
    rewrite cob_deg_cons. destruct c as [g x y]. cbn [cc_g cc_x cc_y]. ring.
Qed.

Theorem cob_eval_poly_homog cs : hom (cob_deg cs) (cob_eval_poly cs).
Proof.
  unfold cob_eval_poly. eapply hom_cast; [apply cob_eval_poly_acc_homog; exact hom_pOne|ring].
Qed.
