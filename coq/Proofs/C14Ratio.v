(* Ratio<BigInt> (Model/Ratio.v at width Big): every operation returns a value, the value is in
   canonical form (positive denominator, numerator and denominator coprime) and denotes the right
   rational number.  "Denotes" is stated here by cross-multiplication over Z; Proofs/C14RatioQ.v
   restates it in Q.  *)
From Coq Require Import ZArith Bool Lia Znumtheory.
Require Import Yui.Model.Ints Yui.Model.Ratio Yui.Proofs.C14Ints.
Open Scope Z_scope.

Definition Canon (r : ratio) : Prop := 0 < denom r /\ Z.gcd (numer r) (denom r) = 1.
Definition canonb (r : ratio) : bool := (0 <? denom r) && (Z.gcd (numer r) (denom r) =? 1).

Lemma canonb_spec r : canonb r = true <-> Canon r.
Proof. unfold canonb, Canon. rewrite andb_true_iff, Z.ltb_lt, Z.eqb_eq. tauto. Qed.

(* x and y denote the same rational number *)
Definition Req (x y : ratio) : Prop := numer x * denom y = numer y * denom x.

Ltac finish r Hr Hc := exists r; split; [exact Hr | split; [exact Hc | ]].

(* ---------- arithmetic helpers ---------- *)
Lemma gcd1_divide_l a a' b : Z.gcd a b = 1 -> (a' | a) -> Z.gcd a' b = 1.
Proof.
  intros H D. apply Zgcd_1_rel_prime. apply Zgcd_1_rel_prime in H. eapply rel_prime_div; eauto.
Qed.

Lemma gcd1_divide_r a b b' : Z.gcd a b = 1 -> (b' | b) -> Z.gcd a b' = 1.
Proof. intros H D. rewrite Z.gcd_comm. rewrite Z.gcd_comm in H. eapply gcd1_divide_l; eauto. Qed.

Lemma gcd1_mul_l a b c : Z.gcd a c = 1 -> Z.gcd b c = 1 -> Z.gcd (a * b) c = 1.
Proof.
  intros H1 H2. apply Zgcd_1_rel_prime. apply rel_prime_sym. apply rel_prime_mult;
    apply rel_prime_sym; now apply Zgcd_1_rel_prime.
Qed.

Lemma gcd1_mul_r a b c : Z.gcd a b = 1 -> Z.gcd a c = 1 -> Z.gcd a (b * c) = 1.
Proof. intros H1 H2. rewrite Z.gcd_comm. apply gcd1_mul_l; now rewrite Z.gcd_comm. Qed.

(* splitting two numbers by their gcd *)
Lemma gcd_split a b : (a <> 0 \/ b <> 0) ->
  exists a' b', a = a' * Z.gcd a b /\ b = b' * Z.gcd a b /\ Z.gcd a' b' = 1 /\ 0 < Z.gcd a b.
Proof.
  intros H. set (g := Z.gcd a b).
  assert (Hg : 0 < g).
  { pose proof (Z.gcd_nonneg a b). assert (g <> 0); [|fold g in H0; lia].
    intros E. apply Z.gcd_eq_0 in E. lia. }
  destruct (Z.gcd_divide_l a b) as [a' Ha]. destruct (Z.gcd_divide_r a b) as [b' Hb]. fold g in Ha, Hb.
  exists a', b'. repeat split; auto.
  assert (E : g = Z.gcd a' b' * g).
  { unfold g at 1. rewrite Ha at 1. rewrite Hb at 1. apply Z.gcd_mul_mono_r_nonneg. lia. }
  nia.
Qed.

Lemma quot_mul_r a b : b <> 0 -> a * b ÷ b = a.
Proof. apply Z.quot_mul. Qed.

Lemma sgn_pos_mul a b : 0 < a * b -> 0 < b -> 0 < a.
Proof. nia. Qed.

(* ---------- canonical values ---------- *)
Lemma canon_zero_denom r : Canon r -> numer r = 0 -> denom r = 1.
Proof. intros [Hd Hg] E. rewrite E in Hg. rewrite Z.gcd_0_l in Hg. lia. Qed.

Lemma canon_one r : Canon r -> numer r = denom r -> numer r = 1 /\ denom r = 1.
Proof. intros [Hd Hg] E. rewrite E in Hg. rewrite Z.gcd_diag in Hg. lia. Qed.

(* two canonical values that denote the same number are identical *)
Lemma canon_unique x y : Canon x -> Canon y -> Req x y -> x = y.
Proof.
  destruct x as [a b], y as [c d]. unfold Canon, Req. cbn [numer denom]. intros [Hb Hab] [Hd Hcd] E.
  assert (D1 : (b | d)).
  { apply Z.gauss with a; [|now rewrite Z.gcd_comm]. exists c. lia. }
  assert (D2 : (d | b)).
  { apply Z.gauss with c; [|now rewrite Z.gcd_comm]. exists a. lia. }
  assert (b = d) by (apply Z.divide_antisym_nonneg; auto; lia).
  subst d. f_equal. nia.
Qed.

Lemma rt_eqb_eq x y : rt_eqb x y = true <-> x = y.
Proof.
  destruct x as [a b], y as [c d]. unfold rt_eqb. cbn [numer denom].
  rewrite andb_true_iff, !Z.eqb_eq. split; [intros [-> ->]; reflexivity|intros H; inversion H; auto].
Qed.

Lemma canon_from_int a : Canon (rt_from_int a).
Proof. unfold rt_from_int. split; cbn [numer denom]; [lia|apply Z.gcd_1_r]. Qed.

(* ---------- reduce ---------- *)
(* the part of reduce after the sign normalisation *)
Definition reduce_tail (w : width) (r1 : ratio) : option ratio :=
  do stop <- (if iis_one (denom r1) then Some true else iis_unit w (numer r1));
  if stop then Some r1
  else
    do g <- igcd w (numer r1) (denom r1);
    if iis_one g then Some r1
    else do n <- iquot w (numer r1) g; do d <- iquot w (denom r1) g; Some (mkR n d).

Lemma rt_reduce_unfold w r :
  rt_reduce w r =
  if iis_zero (numer r) then Some (mkR (numer r) 1)
  else do r1 <- (if iis_one (inormalizing_unit (denom r)) then Some r
                 else do n <- imul w (numer r) (inormalizing_unit (denom r));
                      do d <- imul w (denom r) (inormalizing_unit (denom r)); Some (mkR n d));
       reduce_tail w r1.
Proof. reflexivity. Qed.

Lemma reduce_tail_spec n d : 0 < d ->
  exists r, reduce_tail Big (mkR n d) = Some r /\ Canon r /\ numer r * d = n * denom r.
Proof.
  intros Hd. unfold reduce_tail. cbn [numer denom]. unfold iis_one.
  destruct (d =? 1) eqn:E1; cbn [obind].
  { apply Z.eqb_eq in E1. subst d. exists (mkR n 1). repeat split; cbn [numer denom]; try lia. apply Z.gcd_1_r. }
  rewrite iis_unit_big. cbn [obind].
  destruct ((n =? 1) || (n =? -1)) eqn:E2.
  { exists (mkR n d). repeat split; cbn [numer denom]; try lia.
    apply orb_true_iff in E2 as [E|E]; apply Z.eqb_eq in E; subst n.
    - apply Z.gcd_1_l.
    - change (-1) with (Z.opp 1). rewrite Z.gcd_opp_l. apply Z.gcd_1_l. }
  rewrite igcd_big. cbn [obind].
  destruct (Z.gcd n d =? 1) eqn:E3.
  { apply Z.eqb_eq in E3. exists (mkR n d). repeat split; cbn [numer denom]; auto. }
  destruct (gcd_split n d) as (n' & d' & Hn & Hd' & Hg & Hpos); [lia|].
  set (g := Z.gcd n d) in *.
  rewrite !iquot_big by lia. cbn [obind].
  assert (E4 : n ÷ g = n') by (rewrite Hn at 1; apply quot_mul_r; lia).
  assert (E5 : d ÷ g = d') by (rewrite Hd' at 1; apply quot_mul_r; lia).
  rewrite E4, E5.
  exists (mkR n' d'). repeat split; cbn [numer denom].
  - apply sgn_pos_mul with g; lia.
  - exact Hg.
  - rewrite Hn, Hd'. ring.
Qed.

Lemma reduce_spec n d : d <> 0 ->
  exists r, rt_reduce Big (mkR n d) = Some r /\ Canon r /\ numer r * d = n * denom r.
Proof.
  intros Hd. rewrite rt_reduce_unfold. cbn [numer denom]. unfold iis_zero.
  destruct (n =? 0) eqn:E0.
  { apply Z.eqb_eq in E0. subst n. exists (mkR 0 1). repeat split; cbn [numer denom]; lia. }
  unfold inormalizing_unit. destruct (d <? 0) eqn:Es.
  - apply Z.ltb_lt in Es. cbn [iis_one Z.eqb Pos.eqb]. change (-1 =? 1) with false. cbv iota.
    rewrite !imul_big. cbn [obind].
    destruct (reduce_tail_spec (n * -1) (d * -1)) as (r & Hr & Hc & He); [lia|].
    exists r. split; [exact Hr|split; [exact Hc|nia]].
  - apply Z.ltb_ge in Es. change (iis_one 1) with true. cbv iota. cbn [obind].
    destruct (reduce_tail_spec n d) as (r & Hr & Hc & He); [lia|].
    exists r. auto.
Qed.

(* on a canonical value reduce is the identity *)
Lemma reduce_canon r : Canon r -> rt_reduce Big r = Some r.
Proof.
  intros Hc. destruct r as [n d].
  destruct (reduce_spec n d) as (r & Hr & Hc' & He); [destruct Hc; cbn [numer denom] in *; lia|].
  rewrite Hr. f_equal. apply canon_unique; auto.
Qed.

Lemma new_spec n d : d <> 0 ->
  exists r, rt_new Big n d = Some r /\ Canon r /\ numer r * d = n * denom r.
Proof.
  intros Hd. unfold rt_new, iis_zero. apply Z.eqb_neq in Hd as Hd'. rewrite Hd'. now apply reduce_spec.
Qed.

Lemma new_zero_denom w n : rt_new w n 0 = None.
Proof. reflexivity. Qed.

(* ---------- += and -= ---------- *)
(* [s] = 1 for +=, -1 for -= *)
Lemma add_sub_spec (pm : width -> Z -> Z -> option Z) (s : Z) x y :
  (forall a b, pm Big a b = Some (a + s * b)) -> s = 1 \/ s = -1 ->
  Canon x -> Canon y ->
  exists r, rt_add_sub_assign Big pm x y = Some r /\ Canon r /\
            numer r * (denom x * denom y) = (numer x * denom y + s * (numer y * denom x)) * denom r.
Proof.
  intros Hpm Hs Hx Hy. destruct x as [a b], y as [c d]. unfold rt_add_sub_assign. cbn [numer denom].
  unfold rt_is_zero, iis_zero. cbn [numer denom].
  destruct (c =? 0) eqn:Ec.
  { apply Z.eqb_eq in Ec. subst c. pose proof (canon_zero_denom _ Hy eq_refl) as Ed. cbn [numer denom] in Ed. subst d.
    exists (mkR a b). split; [reflexivity|split; [exact Hx|cbn [numer denom]; ring]]. }
  destruct (a =? 0) eqn:Ea.
  { apply Z.eqb_eq in Ea. subst a. pose proof (canon_zero_denom _ Hx eq_refl) as Eb. cbn [numer denom] in Eb. subst b.
    rewrite Hpm. cbn [obind]. exists (mkR (0 + s * c) d). destruct Hy as [Hd Hg]. cbn [numer denom] in Hd, Hg.
    repeat split; cbn [numer denom]; auto.
    - destruct Hs; subst s; rewrite Z.add_0_l.
      + now rewrite Z.mul_1_l.
      + replace (-1 * c) with (- c) by ring. now rewrite Z.gcd_opp_l.
    - ring. }
  destruct Hx as [Hb Hab], Hy as [Hd Hcd]. cbn [numer denom] in Hb, Hab, Hd, Hcd.
  destruct (b =? d) eqn:Ebd.
  { apply Z.eqb_eq in Ebd. subst d. rewrite Hpm. cbn [obind].
    destruct (reduce_spec (a + s * c) b) as (r & Hr & Hc & He); [lia|].
    finish r Hr Hc.
    replace (numer r * (b * b)) with (numer r * b * b) by ring. rewrite He. ring. }
  (* general case: through the least common multiple *)
  rewrite ilcm_big. cbn [obind].
  destruct (gcd_split b d) as (b' & d' & Hb' & Hd' & Hg & Hpos); [lia|].
  set (g := Z.gcd b d) in *.
  assert (Hd'pos : 0 < d') by (apply sgn_pos_mul with g; lia).
  assert (Hb'pos : 0 < b') by (apply sgn_pos_mul with g; lia).
  assert (Eq1 : d ÷ g = d') by (rewrite Hd' at 1; apply quot_mul_r; lia).
  rewrite Eq1.
  assert (El : Z.abs (b * d') = b * d') by (apply Z.abs_eq; nia).
  rewrite El.
  rewrite !iquot_big by lia.
  assert (Ex : b * d' ÷ b = d') by (rewrite Z.mul_comm; apply quot_mul_r; lia).
  assert (Ey : b * d' ÷ d = b').
  { replace (b * d') with (b' * d) by (rewrite Hb', Hd'; ring). apply quot_mul_r; lia. }
  cbn [obind]. rewrite Ex, Ey. rewrite !imul_big. cbn [obind]. rewrite Hpm. cbn [obind].
  destruct (reduce_spec (a * d' + s * (b' * c)) (b * d')) as (r & Hr & Hc & He); [nia|].
  finish r Hr Hc.
  (* numer r * (b d') = (a d' + s b' c) * denom r ;  b = b' g, d = d' g *)
  apply Z.mul_reg_r with (b * d'); [nia|].
  replace (numer r * (b * d) * (b * d')) with (numer r * (b * d') * (b * d)) by ring.
  rewrite He. rewrite Hb', Hd'. ring.
Qed.

Lemma add_spec x y : Canon x -> Canon y ->
  exists r, rt_add Big x y = Some r /\ Canon r /\
            numer r * (denom x * denom y) = (numer x * denom y + numer y * denom x) * denom r.
Proof.
  intros Hx Hy.
  assert (Hpm : forall a b, iadd Big a b = Some (a + 1 * b)) by (intros; rewrite iadd_big; f_equal; ring).
  destruct (add_sub_spec iadd 1 x y Hpm) as (r & Hr & Hc & He); auto.
  finish r Hr Hc. rewrite He. ring.
Qed.

Lemma sub_spec x y : Canon x -> Canon y ->
  exists r, rt_sub Big x y = Some r /\ Canon r /\
            numer r * (denom x * denom y) = (numer x * denom y - numer y * denom x) * denom r.
Proof.
  intros Hx Hy.
  assert (Hpm : forall a b, isub Big a b = Some (a + -1 * b)) by (intros; rewrite isub_big; f_equal; ring).
  destruct (add_sub_spec isub (-1) x y Hpm) as (r & Hr & Hc & He); auto.
  finish r Hr Hc. rewrite He. ring.
Qed.

(* ---------- negation ---------- *)
Lemma neg_spec x : Canon x -> rt_neg Big x = Some (mkR (- numer x) (denom x)) /\ Canon (mkR (- numer x) (denom x)).
Proof.
  intros [Hd Hg]. assert (Hc : Canon (mkR (- numer x) (denom x))).
  { split; cbn [numer denom]; auto. now rewrite Z.gcd_opp_l. }
  split; auto. unfold rt_neg. rewrite ineg_big. cbn [obind]. unfold rt_new, iis_zero.
  destruct (denom x =? 0) eqn:E; [apply Z.eqb_eq in E; lia|]. now apply reduce_canon.
Qed.

(* ---------- *= ---------- *)
Lemma mul_spec x y : Canon x -> Canon y ->
  exists r, rt_mul Big x y = Some r /\ Canon r /\
            numer r * (denom x * denom y) = (numer x * numer y) * denom r.
Proof.
  intros Hx Hy. destruct x as [a b], y as [c d]. unfold rt_mul. cbn [numer denom].
  unfold rt_is_zero, rt_is_one, rt_is_int, iis_zero, iis_one. cbn [numer denom].
  destruct (a =? 0) eqn:Ea; cbn [orb].
  { apply Z.eqb_eq in Ea. subst a. exists (mkR 0 b). split; [reflexivity|split; [exact Hx|cbn [numer denom]; ring]]. }
  destruct (c =? d) eqn:Ecd.
  { apply Z.eqb_eq in Ecd. destruct (canon_one _ Hy Ecd) as [E1 E2]. cbn [numer denom] in E1, E2. subst c d.
    exists (mkR a b). split; [reflexivity|split; [exact Hx|cbn [numer denom]; ring]]. }
  destruct (c =? 0) eqn:Ec.
  { apply Z.eqb_eq in Ec. subst c. exists rt_zero. split; [reflexivity|split; [apply (canon_from_int 0)|cbn [numer denom rt_zero rt_from_int]; ring]]. }
  destruct Hx as [Hb Hab], Hy as [Hd Hcd]. cbn [numer denom] in Hb, Hab, Hd, Hcd.
  apply Z.eqb_neq in Ea, Ec.
  destruct (d =? 1) eqn:Ed.
  { (* rhs is an integer *)
    apply Z.eqb_eq in Ed. subst d. rewrite igcd_big. cbn [obind].
    destruct (gcd_split b c) as (b' & c' & Hb' & Hc' & Hg & Hpos); [lia|].
    set (k := Z.gcd b c) in *.
    rewrite !iquot_big by lia. cbn [obind]. rewrite imul_big. cbn [obind].
    assert (E1 : c ÷ k = c') by (rewrite Hc' at 1; apply quot_mul_r; lia).
    assert (E2 : b ÷ k = b') by (rewrite Hb' at 1; apply quot_mul_r; lia).
    rewrite E1, E2. exists (mkR (a * c') b'). repeat split; cbn [numer denom].
    - apply sgn_pos_mul with k; lia.
    - apply gcd1_mul_l.
      + apply gcd1_divide_r with b; auto. exists k. lia.
      + now rewrite Z.gcd_comm.
    - rewrite Hb', Hc'. ring. }
  destruct (b =? 1) eqn:Eb.
  { (* self is an integer *)
    apply Z.eqb_eq in Eb. subst b. rewrite igcd_big. cbn [obind].
    destruct (gcd_split a d) as (a' & d' & Ha' & Hd' & Hg & Hpos); [lia|].
    set (k := Z.gcd a d) in *.
    rewrite !iquot_big by lia. cbn [obind]. rewrite imul_big. cbn [obind].
    assert (E1 : a ÷ k = a') by (rewrite Ha' at 1; apply quot_mul_r; lia).
    assert (E2 : d ÷ k = d') by (rewrite Hd' at 1; apply quot_mul_r; lia).
    rewrite E1, E2. exists (mkR (a' * c) d'). repeat split; cbn [numer denom].
    - apply sgn_pos_mul with k; lia.
    - apply gcd1_mul_l; auto.
      apply gcd1_divide_r with d; auto. exists k. lia.
    - rewrite Ha', Hd'. ring. }
  (* general case *)
  rewrite !igcd_big. cbn [obind].
  destruct (gcd_split a d) as (a' & d' & Ha' & Hd' & Hg1 & Hpos1); [lia|].
  destruct (gcd_split b c) as (b' & c' & Hb' & Hc' & Hg2 & Hpos2); [lia|].
  set (k := Z.gcd a d) in *. set (l := Z.gcd b c) in *.
  rewrite !iquot_big by lia. cbn [obind]. rewrite !imul_big. cbn [obind].
  assert (E1 : a ÷ k = a') by (rewrite Ha' at 1; apply quot_mul_r; lia).
  assert (E2 : d ÷ k = d') by (rewrite Hd' at 1; apply quot_mul_r; lia).
  assert (E3 : b ÷ l = b') by (rewrite Hb' at 1; apply quot_mul_r; lia).
  assert (E4 : c ÷ l = c') by (rewrite Hc' at 1; apply quot_mul_r; lia).
  rewrite E1, E2, E3, E4.
  assert (Hd'pos : 0 < d') by (apply sgn_pos_mul with k; lia).
  assert (Hb'pos : 0 < b') by (apply sgn_pos_mul with l; lia).
  exists (mkR (a' * c') (b' * d')). repeat split; cbn [numer denom].
  - nia.
  - assert (Da : (a' | a)) by (exists k; lia).
    assert (Db : (b' | b)) by (exists l; lia).
    assert (Dc : (c' | c)) by (exists l; lia).
    assert (Dd : (d' | d)) by (exists k; lia).
    apply gcd1_mul_l; apply gcd1_mul_r.
    + apply gcd1_divide_l with a; auto. apply gcd1_divide_r with b; auto.
    + exact Hg1.
    + now rewrite Z.gcd_comm.
    + apply gcd1_divide_l with c; auto. apply gcd1_divide_r with d; auto.
  - rewrite Ha', Hd', Hb', Hc'. ring.
Qed.

(* ---------- inv, /= ---------- *)
Lemma inv_zero w x : numer x = 0 -> rt_inv w x = Some None.
Proof. intros E. unfold rt_inv, rt_is_zero, iis_zero. now rewrite E. Qed.

Lemma inv_spec x : Canon x -> numer x <> 0 ->
  exists r, rt_inv Big x = Some (Some r) /\ Canon r /\ numer r * numer x = denom x * denom r.
Proof.
  intros Hx Hn. unfold rt_inv, rt_is_zero, iis_zero. apply Z.eqb_neq in Hn as Hn'. rewrite Hn'.
  destruct (new_spec (denom x) (numer x)) as (r & Hr & Hc & He); auto.
  rewrite Hr. cbn [obind]. exists r. auto.
Qed.

Lemma div_zero w x y : numer y = 0 -> rt_div w x y = None.
Proof. intros E. unfold rt_div, rt_is_zero, iis_zero. now rewrite E. Qed.

Lemma div_spec x y : Canon x -> Canon y -> numer y <> 0 ->
  exists r, rt_div Big x y = Some r /\ Canon r /\
            numer r * (denom x * numer y) = (numer x * denom y) * denom r.
Proof.
  intros Hx Hy Hn. unfold rt_div. unfold rt_is_zero at 1. unfold iis_zero.
  apply Z.eqb_neq in Hn as Hn'. rewrite Hn'.
  destruct (inv_spec y Hy Hn) as (i & Hi & Hci & Hei). rewrite Hi. cbn [obind].
  destruct (mul_spec x i Hx Hci) as (r & Hr & Hc & He). finish r Hr Hc.
  destruct Hci as [Hid _].
  apply Z.mul_reg_r with (denom i); [lia|].
  replace (numer r * (denom x * numer y) * denom i) with (numer r * (denom x * denom i) * numer y) by ring.
  rewrite He.
  replace (numer x * numer i * denom r * numer y) with (numer x * (numer i * numer y) * denom r) by ring.
  rewrite Hei. ring.
Qed.

(* ---------- abs ---------- *)
Lemma abs_spec x : Canon x ->
  rt_abs Big x = Some (mkR (Z.abs (numer x)) (denom x)) /\ Canon (mkR (Z.abs (numer x)) (denom x)).
Proof.
  intros Hx. unfold rt_abs. destruct (numer x <? 0) eqn:E.
  - apply Z.ltb_lt in E. rewrite Z.abs_neq by lia. now apply neg_spec.
  - apply Z.ltb_ge in E. rewrite Z.abs_eq by lia. destruct x as [a b]; cbn [numer denom]. auto.
Qed.

(* ---------- cmp ---------- *)
Lemma cmp_big x y : rt_cmp Big x y = Some (Z.compare (numer x * denom y) (numer y * denom x)).
Proof. reflexivity. Qed.

(* ---------- predicates ---------- *)
Lemma is_zero_spec x : rt_is_zero x = true <-> numer x = 0.
Proof. unfold rt_is_zero, iis_zero. apply Z.eqb_eq. Qed.

Lemma is_one_spec x : Canon x -> (rt_is_one x = true <-> x = rt_one).
Proof.
  intros Hx. unfold rt_is_one. rewrite Z.eqb_eq. split.
  - intros E. destruct (canon_one _ Hx E) as [E1 E2]. destruct x as [a b]; cbn [numer denom] in *; subst; reflexivity.
  - intros ->. reflexivity.
Qed.
