(* C03 - the F_2, F_3 and Q columns of the Khovanov oracle's tables are dimensions of the homology of the base-changed
   cube complex: for every entry of [groups_from] (hence of [kh_groups] and of every quantum-degree piece of
   [kh_groups_bigraded]) in cube degree k
       g_dim2 = n_k - rank_(F_2) d_k - rank_(F_2) d_(k-1),   g_dim3 likewise over F_3,
       g_rank = n_k - rank_Q d_k - rank_Q d_(k-1),
   where the rank over a field F of d_k is the size of ANY Smith-type form over F (diagonal, non-zero entries) of the
   base change of the dense matrix of the selected rows of [rows_at c k] - the matrix [factors] diagonalises over Z.
   (The rank is an invariant of the matrix: Proofs/C07Rank.v.)
   Ingredients: soundness of the sparse Smith routine (KhSmithMain.smith_diag_sound), the rank modulo p read off the
   invariant factors (C09UniqueCor.oracle_modp_rank), and Z -> Q (C07Uct.rank_over_Q). *)
From Coq Require Import List Arith Bool ZArith Znumtheory Lia QArith Qcanon.
Require Import Yui.Base.Ring Yui.Base.MatF Yui.Model.Snf.
Require Import Yui.Proofs.C07Algebra Yui.Proofs.C07Rank Yui.Proofs.C09UniqueModP Yui.Proofs.C09UniqueCor Yui.Proofs.C07Uct.
Require Import Yui.Model.KhCube Yui.Model.KhHomology.
Require Import Yui.Proofs.KhSmithRows Yui.Proofs.KhSmithMat Yui.Proofs.KhSmithSteps Yui.Proofs.KhSmithMain
  Yui.Proofs.KhSmithTables Yui.Proofs.KhOracle.
Import ListNotations.
Local Close Scope Q_scope.
Local Close Scope Qc_scope.
Local Open Scope Z_scope.

(* r is the rank over the ring o' (through the base change phi) of the selected differential d_k of the cube:
   the matrix has one row per selected source generator (count_gens c k sel of them); n is any width that
   contains all its columns *)
Definition is_rank_of {F : Type} (o' : ring_ops F) (phi : Z -> F)
           (c : cube) (sel : vertex * label -> bool) (k : nat) (r : nat) : Prop :=
  exists (rows : list row) (n : nat) (cc : nat -> F),
    rows_at c k = Some rows /\
    rows_wf n (sel_rows c k sel rows) /\
    smith_form o' (count_gens c k sel) n (fun i j => phi (dense (sel_rows c k sel rows) i j)) r cc.

(* the incoming differential of degree k: none in degree 0 *)
Definition is_rank_prev {F : Type} (o' : ring_ops F) (phi : Z -> F)
           (c : cube) (sel : vertex * label -> bool) (k : nat) (r : nat) : Prop :=
  match k with O => r = O | S k' => is_rank_of o' phi c sel k' r end.

Lemma sel_rows_count c k sel rows :
  cube_shape c -> rows_at c k = Some rows -> length (sel_rows c k sel rows) = count_gens c k sel.
Proof.
  intros Hc Er. destruct (Hc k rows Er) as [_ Hlen].
  unfold sel_rows, count_gens. apply sel_rows_length. now rewrite Hlen.
Qed.

Lemma factors_SmithOf c k sel ds rows n :
  cube_shape c -> factors c k sel = Some ds -> rows_at c k = Some rows -> rows_wf n (sel_rows c k sel rows) ->
  SmithOf (count_gens c k sel) n (dense (sel_rows c k sel rows)) ds.
Proof.
  intros Hc H Er Hn. unfold factors in H. rewrite Er in H. cbv zeta in H. fold (sel_rows c k sel rows) in H.
  rewrite <- (sel_rows_count c k sel rows Hc Er). exact (smith_diag_sound n _ _ ds Hn H).
Qed.

Lemma factors_modp_rank p c k sel ds r :
  prime p -> cube_shape c -> factors c k sel = Some ds ->
  is_rank_of (fp_ring p) (fp_mk p) c sel k r -> r = length (filter (not_div p) ds).
Proof.
  intros Hp Hc H [rows [n [cc [Er [Hn F]]]]].
  exact (SmithOf_modp_rank p Hp _ n _ ds r cc (factors_SmithOf c k sel ds rows n Hc H Er Hn) F).
Qed.

Lemma factors_Q_rank c k sel ds r :
  cube_shape c -> factors c k sel = Some ds ->
  is_rank_of Q_ring z2q c sel k r -> r = length ds.
Proof.
  intros Hc H [rows [n [cc [Er [Hn F]]]]].
  pose proof (SmithOf_smith_form _ n _ ds (factors_SmithOf c k sel ds rows n Hc H Er Hn)) as FZ.
  exact (rank_over_Q _ n _ _ _ r cc FZ F).
Qed.

Lemma factors_Z_rank c k sel ds r :
  cube_shape c -> factors c k sel = Some ds ->
  is_rank_of Z_ring (fun a => a) c sel k r -> r = length ds.
Proof.
  intros Hc H [rows [n [cc [Er [Hn F]]]]].
  exact (SmithOf_rank_unique _ n _ ds (factors_SmithOf c k sel ds rows n Hc H Er Hn) r cc F).
Qed.

(* such ranks exist (non-vacuity of [is_rank_of]) *)
Lemma factors_rank_exists p c k sel ds :
  prime p -> cube_shape c -> factors c k sel = Some ds ->
  (exists r, is_rank_of (fp_ring p) (fp_mk p) c sel k r) /\ (exists r, is_rank_of Q_ring z2q c sel k r).
Proof.
  intros Hp Hc H. destruct (factors_sound c k sel ds Hc H) as [rows [n [Er [Hn [_ HS]]]]].
  pose proof (SmithOf_smith_form _ n _ ds HS) as FZ. destruct HS as [_ [Hch _]].
  split.
  - eexists. exists rows, n. eexists. split; [exact Er|]. split; [exact Hn|].
    exact (modp_smith_form p Hp _ n _ _ _ FZ Hch).
  - eexists. exists rows, n. eexists. split; [exact Er|]. split; [exact Hn|].
    exact (Q_smith_form _ n _ _ _ FZ).
Qed.

(* what one table entry denotes over F_2, F_3, Q (and Z) *)
Definition entry_uct (c : cube) (sel : vertex * label -> bool) (k : nat) (g : group) : Prop :=
  let nk := Z.of_nat (count_gens c k sel) in
  (forall r r', is_rank_of (fp_ring 2) (fp_mk 2) c sel k r -> is_rank_prev (fp_ring 2) (fp_mk 2) c sel k r' ->
     g_dim2 g = nk - Z.of_nat r - Z.of_nat r') /\
  (forall r r', is_rank_of (fp_ring 3) (fp_mk 3) c sel k r -> is_rank_prev (fp_ring 3) (fp_mk 3) c sel k r' ->
     g_dim3 g = nk - Z.of_nat r - Z.of_nat r') /\
  (forall r r', is_rank_of Q_ring z2q c sel k r -> is_rank_prev Q_ring z2q c sel k r' ->
     g_rank g = nk - Z.of_nat r - Z.of_nat r') /\
  (forall r r', is_rank_of Z_ring (fun a => a) c sel k r -> is_rank_prev Z_ring (fun a => a) c sel k r' ->
     g_rank g = nk - Z.of_nat r - Z.of_nat r').

Lemma group_at_uct_true c sel k dp dk :
  cube_shape c -> factors c k sel = Some dk ->
  match k with O => dp = [] | S k' => factors c k' sel = Some dp end ->
  entry_uct c sel k (group_at (count_gens c k sel) dp dk).
Proof.
  intros Hc Hk Hprev. unfold entry_uct, group_at, zlen. cbn [g_dim2 g_dim3 g_rank]. cbv zeta.
  assert (P : forall (F : Type) (o' : ring_ops F) (phi : Z -> F) (cnt : list Z -> nat),
             cnt [] = O ->
             (forall k0 ds r, factors c k0 sel = Some ds -> is_rank_of o' phi c sel k0 r -> r = cnt ds) ->
             forall r r', is_rank_of o' phi c sel k r -> is_rank_prev o' phi c sel k r' ->
                          r = cnt dk /\ r' = cnt dp).
  { intros F o' phi cnt C0 HR r r' H1 H2. split; [exact (HR k dk r Hk H1)|].
    destruct k as [|k']; cbn [is_rank_prev] in H2.
    - subst dp. rewrite C0. exact H2.
    - exact (HR k' dp r' Hprev H2). }
  split; [|split; [|split]]; intros r r' H1 H2.
  - destruct (P _ (fp_ring 2) (fp_mk 2) (fun ds => length (filter (not_div 2) ds)) eq_refl
                (fun k0 ds r0 => factors_modp_rank 2 c k0 sel ds r0 prime_2 Hc) r r' H1 H2) as [-> ->]. reflexivity.
  - destruct (P _ (fp_ring 3) (fp_mk 3) (fun ds => length (filter (not_div 3) ds)) eq_refl
                (fun k0 ds r0 => factors_modp_rank 3 c k0 sel ds r0 prime_3 Hc) r r' H1 H2) as [-> ->]. reflexivity.
  - destruct (P _ Q_ring z2q (@length Z) eq_refl
                (fun k0 ds r0 => factors_Q_rank c k0 sel ds r0 Hc) r r' H1 H2) as [-> ->]. reflexivity.
  - destruct (P _ Z_ring (fun a => a) (@length Z) eq_refl
                (fun k0 ds r0 => factors_Z_rank c k0 sel ds r0 Hc) r r' H1 H2) as [-> ->]. reflexivity.
Qed.

Theorem groups_from_uct c sel todo gs :
  cube_shape c -> groups_from c sel 0 todo [] = Some gs ->
  forall k, (k < todo)%nat -> exists g, nth_error gs k = Some (k, g) /\ entry_uct c sel k g.
Proof.
  intros Hc H k Hk. destruct (groups_from_entries c sel todo 0 [] gs H k Hk) as [dp [dk [F1 [F2 F3]]]].
  cbn [Nat.add] in *. eexists. split; [exact F3|].
  apply group_at_uct_true; [exact Hc|exact F1|]. destruct k; exact F2.
Qed.

Theorem kh_groups_uct l red h t gs :
  kh_groups (build_cube l red h t) = Some gs ->
  let c := build_cube l red h t in
  forall k, (k <= crossing_num l)%nat ->
  exists g, nth_error gs k = Some (k, g) /\ entry_uct c (fun _ => true) k g.
Proof.
  intros H c k Hk. unfold kh_groups in H. fold c in H. destruct (cube_ok c); [|discriminate].
  apply (groups_from_uct c _ (S (c_n c)) gs (build_cube_shape l red h t) H). cbn [c build_cube c_n]. lia.
Qed.

Theorem kh_groups_bigraded_uct l red h t tbl :
  kh_groups_bigraded (build_cube l red h t) = Some tbl ->
  let c := build_cube l red h t in
  forall q gq, In (q, gq) tbl ->
  forall k, (k <= crossing_num l)%nat ->
  exists g, nth_error gq k = Some (k, g) /\ entry_uct c (fun g0 => q_local g0 =? q) k g.
Proof.
  intros H c q gq Hin k Hk.
  pose proof (kh_groups_bigraded_entries c tbl H q gq Hin) as G.
  apply (groups_from_uct c _ (S (c_n c)) gq (build_cube_shape l red h t) G). cbn [c build_cube c_n]. lia.
Qed.

(* the ranks the theorem quantifies over exist for every entry of a table *)
Theorem groups_from_ranks_exist c sel todo gs :
  cube_shape c -> groups_from c sel 0 todo [] = Some gs ->
  forall k, (k < todo)%nat -> forall p, prime p ->
  (exists r, is_rank_of (fp_ring p) (fp_mk p) c sel k r) /\ (exists r, is_rank_of Q_ring z2q c sel k r).
Proof.
  intros Hc H k Hk p Hp. destruct (groups_from_entries c sel todo 0 [] gs H k Hk) as [dp [dk [F1 _]]].
  cbn [Nat.add] in F1. exact (factors_rank_exists p c k sel dk Hp Hc F1).
Qed.

(* ---------- the relation between the columns of one table, in terms of the listed torsion ---------- *)
(* p | t *)
Definition pdivides (p t : Z) : bool := t mod p =? 0.

Lemma count_div_tors p ds :
  1 < p -> (forall d, In d ds -> 0 < d) ->
  length (filter (fun d => negb (not_div p d)) ds) = length (filter (pdivides p) (filter (fun d => 1 <? d) ds)).
Proof.
  intros Hp Hpos. rewrite filter_filter_implied.
  - f_equal. apply filter_ext. intros d. unfold not_div, pdivides. apply negb_involutive.
  - intros d Hd Hdiv. unfold pdivides in Hdiv. apply Z.eqb_eq in Hdiv. apply Z.ltb_lt.
    specialize (Hpos d Hd). apply Z.mod_divide in Hdiv; [|lia]. apply Z.divide_pos_le in Hdiv; lia.
Qed.

Lemma factors_pos c k sel ds : cube_shape c -> factors c k sel = Some ds -> forall d, In d ds -> 0 < d.
Proof. intros Hc H. destruct (factors_sound c k sel ds Hc H) as [rows [n [_ [_ [_ [Hpos _]]]]]]. exact Hpos. Qed.

(* dim_(F_p) H^k = rank H^k + #{t in tors H^k : p | t} + #{t in tors H^(k+1) : p | t}, p = 2, 3;
   tors H^(k+1) = the factors > 1 of d_k, which is what the table lists in degree k+1 whenever it has that entry *)
Theorem groups_from_table_uct c sel todo gs :
  cube_shape c -> groups_from c sel 0 todo [] = Some gs ->
  forall k, (k < todo)%nat -> exists g tnext,
    nth_error gs k = Some (k, g) /\
    (exists dk, factors c k sel = Some dk /\ tnext = filter (fun d => 1 <? d) dk) /\
    (forall e, nth_error gs (S k) = Some e -> fst e = S k /\ g_tors (snd e) = tnext) /\
    g_dim2 g = g_rank g + Z.of_nat (length (filter (pdivides 2) (g_tors g)))
                        + Z.of_nat (length (filter (pdivides 2) tnext)) /\
    g_dim3 g = g_rank g + Z.of_nat (length (filter (pdivides 3) (g_tors g)))
                        + Z.of_nat (length (filter (pdivides 3) tnext)).
Proof.
  intros Hc H k Hk. destruct (groups_from_entries c sel todo 0 [] gs H k Hk) as [dp [dk [F1 [F2 F3]]]].
  cbn [Nat.add] in *.
  exists (group_at (count_gens c k sel) dp dk), (filter (fun d => 1 <? d) dk).
  split; [exact F3|]. split; [exists dk; split; [exact F1|reflexivity]|]. split.
  - intros e He.
    destruct (Nat.lt_ge_cases (S k) todo) as [Hlt|Hge].
    + destruct (groups_from_entries c sel todo 0 [] gs H (S k) Hlt) as [dp' [dk' [G1 [G2 G3]]]].
      cbn [Nat.add] in *. rewrite G3 in He. injection He as <-. cbn [fst snd].
      split; [reflexivity|]. rewrite G2 in F1. injection F1 as ->. reflexivity.
    + exfalso. pose proof (groups_from_degrees c sel 0 todo [] gs H) as HD.
      assert (HL : length gs = todo) by (rewrite <- (map_length fst), HD; apply seq_length).
      assert (HN : nth_error gs (S k) = None) by (apply nth_error_None; lia). congruence.
  - assert (Pk : forall d, In d dk -> 0 < d) by exact (factors_pos c k sel dk Hc F1).
    assert (Pp : forall d, In d dp -> 0 < d).
    { destruct k as [|k']; [subst dp; intros d []|exact (factors_pos c k' sel dp Hc F2)]. }
    pose proof (group_at_uct 2 (count_gens c k sel) dp dk (or_introl eq_refl)) as U2.
    pose proof (group_at_uct 3 (count_gens c k sel) dp dk (or_intror eq_refl)) as U3.
    cbv zeta in U2, U3. cbn [Z.eqb Pos.eqb] in U2, U3.
    rewrite (count_div_tors 2 dk), (count_div_tors 2 dp) in U2 by (try assumption; lia).
    rewrite (count_div_tors 3 dk), (count_div_tors 3 dp) in U3 by (try assumption; lia).
    change (g_tors (group_at (count_gens c k sel) dp dk)) with (filter (fun d => 1 <? d) dp).
    split; [rewrite U2|rewrite U3]; lia.
Qed.
