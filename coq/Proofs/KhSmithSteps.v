(* Soundness of the sparse Smith diagonalisation of Model/KhHomology.v, part 3: the single steps.
   Dense semantics [dense] of a list of sparse rows, what [find_pivot] / [find_nondivisible] / the
   column-clear test return, the dense effect of the row phase, the column phase, the row addition and
   the removal of the pivot row, and the matrix equivalences they induce on the "full" matrix
   (working rows on top, one row per finished pivot below). *)
From Coq Require Import List Arith Bool ZArith Lia.
Require Import Yui.Base.Ring Yui.Base.MatF Yui.Proofs.C07Algebra.
Require Import Yui.Model.KhCube Yui.Model.KhHomology Yui.Proofs.KhSmithRows Yui.Proofs.KhSmithMat.
Import ListNotations.
Open Scope Z_scope.

Definition dense (rows : list row) : zmat := fun i c => row_get (nth i rows []) c.

Lemma dense_overflow rows x c : (length rows <= x)%nat -> dense rows x c = 0.
Proof. intros H. unfold dense. now rewrite nth_overflow by exact H. Qed.

(* ---------- find_pivot ---------- *)
Definition rm_step (acc : option (nat * Z)) (e : nat * Z) : option (nat * Z) :=
  match acc with
  | None => Some e
  | Some e0 => if Z.abs (snd e) <? Z.abs (snd e0) then Some e else acc
  end.

Lemma row_min_eq r : row_min r = fold_left rm_step r None.
Proof. reflexivity. Qed.

Lemma rm_fold r : forall acc,
  match fold_left rm_step r acc with
  | Some e => acc = Some e \/ In e r
  | None => acc = None /\ r = []
  end.
Proof.
  induction r as [|e0 r IH]; intros acc; cbn [fold_left].
  - destruct acc; auto.
  - specialize (IH (rm_step acc e0)). destruct (fold_left rm_step r (rm_step acc e0)) as [e|].
    + destruct IH as [E|Hin]; [|right; now right].
      destruct acc as [e1|]; cbn [rm_step] in E.
      * destruct (Z.abs (snd e0) <? Z.abs (snd e1)); injection E as <-; [right; now left|now left].
      * injection E as <-. right. now left.
    + destruct IH as [E _]. destruct acc as [e1|]; cbn [rm_step] in E; [|discriminate].
      destruct (Z.abs (snd e0) <? Z.abs (snd e1)); discriminate.
Qed.

Lemma row_min_in r e : row_min r = Some e -> In e r.
Proof.
  rewrite row_min_eq. intros H. pose proof (rm_fold r None) as K. rewrite H in K.
  destruct K as [K|K]; [discriminate|exact K].
Qed.

Lemma row_min_none r : row_min r = None -> r = [].
Proof.
  rewrite row_min_eq. intros H. pose proof (rm_fold r None) as K. rewrite H in K. apply K.
Qed.

Definition fp_step (all : list row) (st : option (nat * nat * Z) * nat) (r : row) : option (nat * nat * Z) * nat :=
  let '(best, i) := st in
  let best' :=
    match row_min r with
    | None => best
    | Some (c, v) =>
        match best with
        | None => Some (i, c, v)
        | Some (i0, c0, v0) =>
            if better (Z.abs v, length r) (Z.abs v0, length (nth i0 all [])) then Some (i, c, v)
            else best
        end
    end in
  (best', S i).

Lemma find_pivot_eq rows : find_pivot rows = fst (fold_left (fp_step rows) rows (None, O)).
Proof. reflexivity. Qed.

Lemma fp_fold all l : forall pre best,
  all = pre ++ l ->
  (forall i c v, best = Some (i, c, v) -> In (c, v) (nth i all [])) ->
  match fst (fold_left (fp_step all) l (best, length pre)) with
  | Some (i, c, v) => In (c, v) (nth i all [])
  | None => best = None /\ forall r, In r l -> r = []
  end.
Proof.
  induction l as [|r l IH]; intros pre best Hall Hbest; cbn [fold_left].
  - cbn [fst]. destruct best as [[[i c] v]|]; [now apply Hbest|]. split; [reflexivity|intros r []].
  - cbn [fp_step].
    assert (Hr : nth (length pre) all [] = r) by (rewrite Hall; now rewrite nth_middle).
    assert (Hall' : all = (pre ++ [r]) ++ l) by (rewrite <- app_assoc; exact Hall).
    assert (Hlen : S (length pre) = length (pre ++ [r])) by (rewrite app_length; cbn [length]; lia).
    rewrite Hlen.
    destruct (row_min r) as [[c v]|] eqn:Em.
    + apply row_min_in in Em.
      match goal with |- context [fold_left _ l (?b, _)] => set (best' := b) end.
      assert (Hb' : forall i0 c0 v0, best' = Some (i0, c0, v0) -> In (c0, v0) (nth i0 all [])).
      { intros i0 c0 v0 E. unfold best' in E. destruct best as [[[i1 c1] v1]|].
        - destruct (better _ _); [|now apply Hbest].
          injection E as <- <- <-. now rewrite Hr.
        - injection E as <- <- <-. now rewrite Hr. }
      specialize (IH (pre ++ [r]) best' Hall' Hb').
      destruct (fst (fold_left (fp_step all) l (best', length (pre ++ [r])))) as [[[i2 c2] v2]|]; [exact IH|].
      destruct IH as [E _]. exfalso. unfold best' in E. destruct best as [[[i1 c1] v1]|]; [|discriminate].
      destruct (better _ _); discriminate.
    + apply row_min_none in Em.
      specialize (IH (pre ++ [r]) best Hall' Hbest).
      destruct (fst (fold_left (fp_step all) l (best, length (pre ++ [r])))) as [[[i2 c2] v2]|]; [exact IH|].
      destruct IH as [E H]. split; [exact E|]. intros r' [<-|Hin]; [exact Em|now apply H].
Qed.

Lemma find_pivot_some rows i j a : find_pivot rows = Some (i, j, a) -> In (j, a) (nth i rows []).
Proof.
  rewrite find_pivot_eq. intros H.
  pose proof (fp_fold rows rows [] None eq_refl ltac:(intros; discriminate)) as K.
  cbn [length] in K. rewrite H in K. exact K.
Qed.

Lemma find_pivot_none rows : find_pivot rows = None -> forall r, In r rows -> r = [].
Proof.
  rewrite find_pivot_eq. intros H.
  pose proof (fp_fold rows rows [] None eq_refl ltac:(intros; discriminate)) as K.
  cbn [length] in K. rewrite H in K. apply K.
Qed.

Lemma find_pivot_some_wf n rows i j a :
  rows_wf n rows -> find_pivot rows = Some (i, j, a) ->
  (i < length rows)%nat /\ (j < n)%nat /\ a <> 0 /\ dense rows i j = a.
Proof.
  intros Hwf H. apply find_pivot_some in H.
  pose proof (rows_wf_nth n rows i Hwf) as [W B].
  split.
  { destruct (Nat.lt_ge_cases i (length rows)) as [Hi|Hi]; [exact Hi|].
    rewrite nth_overflow in H by exact Hi. destruct H. }
  split; [exact (B j a H)|]. split; [exact (proj1 (wf_above_in_nz 0 _ j a W H))|].
  unfold dense. exact (row_get_in 0 _ j a W H).
Qed.

Lemma find_pivot_none_dense rows : find_pivot rows = None -> forall x c, dense rows x c = 0.
Proof.
  intros H x c. unfold dense. destruct (Nat.lt_ge_cases x (length rows)) as [Hx|Hx].
  - rewrite (find_pivot_none rows H (nth x rows [])) by (now apply nth_In). reflexivity.
  - now rewrite nth_overflow by exact Hx.
Qed.

(* ---------- the pieces of one round of [smith_loop] ---------- *)
Definition row_phase (i j : nat) (a : Z) (rows : list row) : list row :=
  mapi (fun k r => if (k =? i)%nat then r
                   else let b := row_get r j in
                        if b =? 0 then r else row_axpy (b / a) (nth i rows []) r) rows.

Definition col_dirty (i j : nat) (rows1 : list row) : bool :=
  existsb (fun b => b) (mapi (fun k r => negb (k =? i)%nat && negb (row_get r j =? 0)) rows1).

Lemma smith_loop_S f rows acc :
  smith_loop (S f) rows acc =
  match find_pivot rows with
  | None => Some (rev acc)
  | Some (i, j, a) =>
      let rows1 := row_phase i j a rows in
      if col_dirty i j rows1 then smith_loop f rows1 acc
      else
        let ri' := col_reduce j a (nth i rows []) in
        if (1 <? length ri')%nat then smith_loop f (replace_nth i ri' rows1) acc
        else
          match find_nondivisible a i rows1 with
          | Some r => smith_loop f (replace_nth i (row_add (nth r rows1 []) ri') rows1) acc
          | None => smith_loop f (remove_nth i rows1) (Z.abs a :: acc)
          end
  end.
Proof. reflexivity. Qed.

Lemma row_phase_length i j a rows : length (row_phase i j a rows) = length rows.
Proof. apply mapi_length. Qed.

Lemma row_phase_wf n i j a rows : rows_wf n rows -> rows_wf n (row_phase i j a rows).
Proof.
  intros H. apply mapi_Forall. intros k r Hr.
  assert (Wr : row_wf n r) by (unfold rows_wf in H; rewrite Forall_forall in H; now apply H).
  destruct (k =? i)%nat; [exact Wr|]. cbv zeta. destruct (row_get r j =? 0); [exact Wr|].
  apply row_axpy_wf; [now apply rows_wf_nth|exact Wr].
Qed.

Lemma row_phase_dense n i j a rows : rows_wf n rows ->
  forall x c, dense (row_phase i j a rows) x c
              = dense rows x c - (if (x =? i)%nat then 0 else dense rows x j / a * dense rows i c).
Proof.
  intros H x c. destruct (Nat.lt_ge_cases x (length rows)) as [Hx|Hx].
  - unfold dense, row_phase. rewrite (@mapi_nth row row _ rows x [] [] Hx).
    destruct (x =? i)%nat; [lia|]. cbv zeta.
    destruct (Z.eqb_spec (row_get (nth x rows []) j) 0) as [Ez|Ez].
    + rewrite Ez. rewrite Zdiv_0_l. lia.
    + rewrite (row_axpy_get _ 0) by (apply (rows_wf_nth n); exact H). reflexivity.
  - rewrite !dense_overflow by (try rewrite row_phase_length; exact Hx).
    rewrite Zdiv_0_l. destruct (x =? i)%nat; lia.
Qed.

Lemma row_phase_pivot_row i j a rows : (i < length rows)%nat -> nth i (row_phase i j a rows) [] = nth i rows [].
Proof. intros Hi. unfold row_phase. rewrite (@mapi_nth row row _ rows i [] [] Hi). now rewrite Nat.eqb_refl. Qed.

Lemma col_dirty_false i j rows1 : col_dirty i j rows1 = false -> forall x, x <> i -> dense rows1 x j = 0.
Proof.
  intros H x Hne. destruct (Nat.lt_ge_cases x (length rows1)) as [Hx|Hx]; [|now apply dense_overflow].
  pose proof (existsb_id_false _ H x) as K. rewrite (mapi_nth _ rows1 x [] false Hx) in K.
  destruct (Nat.eqb_spec x i); [contradiction|]. cbn [negb andb] in K.
  apply negb_false_iff in K. now apply Z.eqb_eq in K.
Qed.

Lemma find_nondiv_some a i rows r : find_nondivisible a i rows = Some r -> r <> i /\ (r < length rows)%nat.
Proof.
  unfold find_nondivisible. intros H. apply (index_where_some _ _ _ []) in H. destruct H as [H1 H2].
  rewrite mapi_length in H1. split; [|exact H1].
  intros ->. rewrite (@mapi_nth row row _ rows i [] [] H1) in H2. rewrite Nat.eqb_refl in H2. discriminate.
Qed.

Lemma find_nondiv_none a i rows : a <> 0 -> find_nondivisible a i rows = None ->
  forall x c, x <> i -> (a | dense rows x c).
Proof.
  unfold find_nondivisible. intros Ha H x c Hne.
  destruct (Nat.lt_ge_cases x (length rows)) as [Hx|Hx]; [|rewrite dense_overflow by exact Hx; apply Z.divide_0_r].
  pose proof (index_where_none _ _ H (nth x (mapi (fun k r => if (k =? i)%nat then [] else r) rows) [])) as K.
  rewrite (@mapi_nth row row _ rows x [] [] Hx) in K.
  assert (Hin : In (nth x rows []) (mapi (fun k r => if (k =? i)%nat then [] else r) rows)).
  { replace (nth x rows []) with (nth x (mapi (fun k r => if (k =? i)%nat then [] else r) rows) []).
    - apply nth_In. now rewrite mapi_length.
    - rewrite (@mapi_nth row row _ rows x [] [] Hx). destruct (Nat.eqb_spec x i); [contradiction|reflexivity]. }
  destruct (Nat.eqb_spec x i); [contradiction|]. specialize (K Hin).
  unfold dense. destruct (row_get_zero_or_in (nth x rows []) c) as [E|E]; [rewrite E; apply Z.divide_0_r|].
  assert (F : negb (snd (c, row_get (nth x rows []) c) mod a =? 0) = false).
  { destruct (negb _) eqn:EE; [|reflexivity].
    assert (X : existsb (fun e => negb (snd e mod a =? 0)) (nth x rows []) = true)
      by (apply existsb_exists; eexists; split; [exact E|exact EE]).
    congruence. }
  cbn [snd] in F. apply negb_false_iff in F. apply Z.eqb_eq in F. now apply Z.mod_divide.
Qed.

(* ---------- the full matrix of a state: working rows on top, one row per finished pivot ---------- *)
Definition pivrow (pl : list (nat * Z)) (t c : nat) : Z :=
  let p := nth t pl (O, 0) in if (c =? fst p)%nat then snd p else 0.

Definition fullD (m : nat) (D : zmat) (pl : list (nat * Z)) : zmat :=
  fun x c => if (x <? m)%nat then D x c else pivrow pl (x - m) c.

Definition full (W : list row) (pl : list (nat * Z)) : zmat := fullD (length W) (dense W) pl.

Lemma pivrow_zero pl t c : (forall d, ~ In (c, d) pl) -> pivrow pl t c = 0.
Proof.
  intros H. unfold pivrow. cbv zeta. destruct (Nat.lt_ge_cases t (length pl)) as [Ht|Ht].
  - destruct (Nat.eqb_spec c (fst (nth t pl (O, 0)))) as [E|_]; [|reflexivity].
    exfalso. apply (H (snd (nth t pl (O, 0)))). rewrite E, <- surjective_pairing. now apply nth_In.
  - rewrite nth_overflow by exact Ht. cbn [fst snd]. destruct (c =? 0)%nat; reflexivity.
Qed.

Ltac noif t := lazymatch t with context [if _ then _ else _] => fail | _ => idtac end.
Ltac dcase :=
  repeat match goal with
         | |- context [(?a <? ?b)%nat] => noif a; noif b; destruct (Nat.ltb_spec a b)
         | |- context [(?a =? ?b)%nat] => noif a; noif b; destruct (Nat.eqb_spec a b)
         end.

(* row phase *)
Lemma step_rowphase m0 n m D D1 pl i j a :
  (i < m)%nat -> (m <= m0)%nat -> (forall x c, (m <= x)%nat -> D x c = 0) ->
  (forall x c, D1 x c = D x c - (if (x =? i)%nat then 0 else D x j / a * D i c)) ->
  equiv m0 n (fullD m D pl) (fullD m D1 pl).
Proof.
  intros Hi Hm Hov HD1. apply (equiv_row_op m0 n _ _ i (fun x => - (D x j / a))); [lia|].
  intros x c Hx Hc. unfold fullD. rewrite HD1.
  destruct (Nat.ltb_spec i m) as [_|]; [|lia].
  destruct (Nat.ltb_spec x m) as [Hxm|Hxm].
  - destruct (x =? i)%nat; ring.
  - rewrite (Hov x j Hxm), Zdiv_0_l. destruct (x =? i)%nat; ring.
Qed.

(* column phase: D1 -> D2 *)
Lemma step_colphase m0 n m D1 D2 pl i j a :
  (i < m)%nat -> (j < n)%nat -> a <> 0 -> D1 i j = a ->
  (forall x, x <> i -> D1 x j = 0) -> (forall t, pivrow pl t j = 0) ->
  (forall x c, D2 x c = if (x =? i)%nat && negb (c =? j)%nat then D1 i c mod a else D1 x c) ->
  equiv m0 n (fullD m D1 pl) (fullD m D2 pl).
Proof.
  intros Hi Hj Ha Hij Hclear Hpiv HD2.
  apply (equiv_col_op m0 n _ _ j (fun c => - (D1 i c / a))); [exact Hj|].
  intros x c Hx Hc. unfold fullD. rewrite HD2.
  destruct (Nat.ltb_spec x m) as [Hxm|Hxm].
  - destruct (Nat.eqb_spec x i) as [->|Hxi]; destruct (Nat.eqb_spec c j) as [->|Hcj]; cbn [negb andb]; try ring.
    + rewrite Hij. rewrite (Z.mod_eq (D1 i c) a Ha). ring.
    + rewrite (Hclear x Hxi). ring.
  - rewrite Hpiv. destruct (c =? j)%nat; ring.
Qed.

(* adding row r to row i: D2 -> D3 *)
Lemma step_rowadd m0 n m D2 D3 pl i r :
  (i < m)%nat -> (r < m)%nat -> (m <= m0)%nat -> r <> i ->
  (forall x c, D3 x c = D2 x c + (if (x =? i)%nat then D2 r c else 0)) ->
  equiv m0 n (fullD m D2 pl) (fullD m D3 pl).
Proof.
  intros Hi Hr Hm Hne HD3.
  apply (equiv_row_op m0 n _ _ r (fun x => if (x =? i)%nat then 1 else 0)); [lia|].
  intros x c Hx Hc. unfold fullD. rewrite HD3.
  destruct (Nat.ltb_spec r m) as [_|]; [|lia].
  destruct (Nat.ltb_spec x m) as [Hxm|Hxm].
  - destruct (Nat.eqb_spec x i) as [->|Hxi].
    + destruct (Nat.eqb_spec i r) as [E|_]; [congruence|ring].
    + destruct (x =? r)%nat; ring.
  - destruct (Nat.eqb_spec x i); [lia|]. destruct (x =? r)%nat; ring.
Qed.

(* finishing a pivot: row i of D2 is a single entry a in column j; the row leaves the working matrix *)
Lemma step_final m0 n m D2 D4 pl i j a :
  (i < m)%nat -> (m <= m0)%nat -> a <> 0 ->
  (forall c, D2 i c = if (c =? j)%nat then a else 0) ->
  (forall x c, (x < m - 1)%nat -> D4 x c = D2 (if (x <? i)%nat then x else S x) c) ->
  equiv m0 n (fullD m D2 pl) (fullD (m - 1) D4 ((j, Z.abs a) :: pl)).
Proof.
  intros Hi Hm Ha Hrow HD4.
  set (u := fun x : nat => if (x =? i)%nat then (if a <? 0 then -1 else 1) else 1).
  apply (equiv_trans m0 n _ (fun x c => u x * fullD m D2 pl x c)).
  { apply (equiv_row_scale m0 n _ _ u); [|apply meq_refl].
    intros x. unfold u. destruct (x =? i)%nat; destruct (a <? 0); reflexivity. }
  set (f := fun x : nat => if (x <? i)%nat then x else if (x <? m - 1)%nat then S x
                           else if (x =? m - 1)%nat then i else x).
  set (g := fun y : nat => if (y <? i)%nat then y else if (y =? i)%nat then (m - 1)%nat
                           else if (y <? m)%nat then (y - 1)%nat else y).
  apply (equiv_row_perm m0 n _ _ f g).
  { intros x Hx. unfold f, g. repeat split; dcase; lia. }
  intros x c Hx Hc. unfold fullD at 1.
  destruct (Nat.ltb_spec x (m - 1)) as [Hx1|Hx1].
  - rewrite HD4 by exact Hx1.
    assert (Ef : f x = if (x <? i)%nat then x else S x) by (unfold f; dcase; lia).
    rewrite Ef. unfold u, fullD.
    assert (Hne : (if (x <? i)%nat then x else S x) <> i) by (dcase; lia).
    assert (Hlt : ((if (x <? i)%nat then x else S x) < m)%nat) by (dcase; lia).
    destruct (Nat.eqb_spec (if (x <? i)%nat then x else S x) i); [contradiction|].
    destruct (Nat.ltb_spec (if (x <? i)%nat then x else S x) m); [ring|lia].
  - destruct (Nat.eq_dec x (m - 1)) as [->|Hx2].
    + assert (Ef : f (m - 1)%nat = i) by (unfold f; dcase; lia).
      rewrite Ef. unfold u, fullD. rewrite Nat.eqb_refl, Nat.sub_diag.
      destruct (Nat.ltb_spec i m); [|lia]. rewrite Hrow. unfold pivrow. cbn [nth fst snd].
      destruct (c =? j)%nat; [|ring]. destruct (Z.ltb_spec a 0); lia.
    + assert (Ef : f x = x) by (unfold f; dcase; lia).
      rewrite Ef. unfold u, fullD.
      destruct (Nat.eqb_spec x i); [lia|]. destruct (Nat.ltb_spec x m); [lia|].
      unfold pivrow. replace (x - (m - 1))%nat with (S (x - m)) by lia. cbn [nth]. ring.
Qed.
