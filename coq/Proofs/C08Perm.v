(* Permutations produced by perm_order (util::perm_for_indices) and their matrices. *)
From Coq Require Import Arith List Lia Bool Ring Permutation.
Require Import Yui.Base.Ring Yui.Base.MatF Yui.Base.MatL Yui.Model.Reducer Yui.Proofs.C08Mat.
Import ListNotations.

(* a vector listing 0..n-1 in some order *)
Definition is_perm (n : nat) (v : list nat) : Prop := Permutation v (seq 0 n).

Lemma memb_In x l : memb x l = true <-> In x l.
Proof.
  unfold memb. rewrite existsb_exists. split.
  - intros [y [H1 H2]]. apply Nat.eqb_eq in H2. now subst.
  - intros H. exists x. split; [exact H|apply Nat.eqb_refl].
Qed.

Lemma nodupb_NoDup l : nodupb l = true <-> NoDup l.
Proof.
  induction l as [|x l IH]; cbn [nodupb].
  - split; [constructor|reflexivity].
  - rewrite andb_true_iff, negb_true_iff, IH. split.
    + intros [H1 H2]. constructor; [|exact H2]. intros Hin. apply memb_In in Hin. congruence.
    + intros H. inversion H as [|? ? H1 H2]; subst. split; [|exact H2].
      destruct (memb x l) eqn:E; [|reflexivity]. apply memb_In in E. contradiction.
Qed.

Lemma NoDup_app_disj {A} (l1 l2 : list A) :
  NoDup l1 -> NoDup l2 -> (forall x, In x l1 -> ~ In x l2) -> NoDup (l1 ++ l2).
Proof.
  induction l1 as [|a l1 IH]; intros H1 H2 H; cbn [app]; [exact H2|].
  inversion H1 as [|? ? Ha Hl]; subst. constructor.
  - rewrite in_app_iff. intros [Hin|Hin]; [contradiction|]. apply (H a); [now left|exact Hin].
  - apply IH; try assumption. intros x Hx. apply H. now right.
Qed.

Lemma perm_order_spec n idx v :
  perm_order n idx = Some v ->
  is_perm n v /\ NoDup idx /\ Forall (fun x => x < n) idx /\ (forall k, k < length idx -> pat v k = nth k idx 0).
Proof.
  unfold perm_order. destruct (forallb _ idx && nodupb idx) eqn:E; [|discriminate].
  intros [= <-]. apply andb_true_iff in E. destruct E as [E1 E2].
  apply nodupb_NoDup in E2. rewrite forallb_forall in E1.
  assert (Hb : Forall (fun x => x < n) idx).
  { apply Forall_forall. intros x Hx. apply Nat.ltb_lt. now apply E1. }
  set (rest := filter (fun i => negb (memb i idx)) (seq 0 n)).
  repeat split; try assumption.
  - unfold is_perm. apply NoDup_Permutation.
    + apply NoDup_app_disj; [exact E2|apply NoDup_filter, seq_NoDup|].
      intros x Hx Hr. unfold rest in Hr. apply filter_In in Hr. destruct Hr as [_ Hr].
      apply negb_true_iff in Hr. apply memb_In in Hx. congruence.
    + apply seq_NoDup.
    + intros x. rewrite in_app_iff, in_seq. split.
      * intros [Hx|Hx].
        -- rewrite Forall_forall in Hb. specialize (Hb x Hx). lia.
        -- unfold rest in Hx. apply filter_In in Hx. destruct Hx as [Hx _]. apply in_seq in Hx. lia.
      * intros Hx. destruct (memb x idx) eqn:Em.
        -- left. now apply memb_In.
        -- right. unfold rest. apply filter_In. split; [apply in_seq; lia|]. now rewrite Em.
  - intros k Hk. unfold pat. now rewrite app_nth1.
Qed.

Lemma perm_order_some n idx :
  NoDup idx -> Forall (fun x => x < n) idx -> exists v, perm_order n idx = Some v.
Proof.
  intros H1 H2. unfold perm_order.
  assert (E : forallb (fun i => i <? n) idx && nodupb idx = true).
  { apply andb_true_iff. split.
    - apply forallb_forall. intros x Hx. rewrite Forall_forall in H2. apply Nat.ltb_lt. now apply H2.
    - now apply nodupb_NoDup. }
  rewrite E. eauto.
Qed.

Section PermFacts.
  Context (n : nat) (v : list nat) (Hv : is_perm n v).

  Lemma perm_length : length v = n.
  Proof. rewrite (Permutation_length Hv). apply seq_length. Qed.

  Lemma perm_lt k : k < n -> pat v k < n.
  Proof.
    intros Hk. unfold pat.
    assert (Hin : In (nth k v 0) v) by (apply nth_In; rewrite perm_length; exact Hk).
    apply (Permutation_in _ Hv) in Hin. apply in_seq in Hin. lia.
  Qed.

  Lemma perm_inj k k' : k < n -> k' < n -> pat v k = pat v k' -> k = k'.
  Proof.
    intros Hk Hk' E.
    assert (Hnd : NoDup v).
    { apply (Permutation_NoDup (Permutation_sym Hv)), seq_NoDup. }
    rewrite (NoDup_nth v 0) in Hnd. apply Hnd; rewrite ?perm_length; assumption.
  Qed.
End PermFacts.

Section PermSum.
  Context {R : Type} (o : ring_ops R) (L : ring_laws o).
  Add Ring Rring3 : (ring_theory_of_laws o L).
  Local Notation r0 := (rzero o).
  Local Notation r1 := (rone o).

  Lemma sum_nth (g : nat -> R) (l : list nat) d :
    sum o (length l) (fun k => g (nth k l d)) = rsum o (map g l).
  Proof.
    induction l as [|x l IH]; cbn [length map rsum]; [reflexivity|].
    rewrite (sum_S_first o L). cbn [nth]. now rewrite IH.
  Qed.

  Lemma rsum_perm (l l' : list R) : Permutation l l' -> rsum o l = rsum o l'.
  Proof.
    induction 1 as [|x l l' H IH|x y l|l l' l'' H1 IH1 H2 IH2]; cbn [rsum].
    - reflexivity.
    - now rewrite IH.
    - ring.
    - now rewrite IH1.
  Qed.

  Lemma sum_seq (g : nat -> R) n : sum o n g = rsum o (map g (seq 0 n)).
  Proof.
    rewrite <- (sum_nth g (seq 0 n) 0), seq_length. apply (sum_ext o). intros k Hk.
    now rewrite seq_nth.
  Qed.

  Lemma sum_reindex n v (g : nat -> R) : is_perm n v -> sum o n (fun k => g (pat v k)) = sum o n g.
  Proof.
    intros Hv. rewrite (sum_seq g). unfold pat.
    rewrite <- (perm_length n v Hv) at 1. rewrite sum_nth.
    apply rsum_perm. now apply Permutation_map.
  Qed.

  (* ---------- permutation matrices ---------- *)
  Local Notation dmat := (dmat R).

  Lemma dmul_row_perm n v (A : dmat) : is_perm n v -> dr A = n ->
    dmul o (row_perm_mat o v) A = dmk n (dc A) (fun k j => dget o A (pat v k) j).
  Proof.
    intros Hv HA. pose proof (perm_length n v Hv) as Hl.
    unfold dmul, row_perm_mat. autorewrite with ddim. rewrite Hl. apply (dmk_ext o). intros k j Hk Hj.
    rewrite (sum_ext o n _ (fun x => if x =? pat v k then dget o A x j else r0)).
    - apply (sum_delta o L n (pat v k) (fun x => dget o A x j)). now apply perm_lt.
    - intros x Hx. rewrite dget_dmk by assumption. destruct (x =? pat v k); ring.
  Qed.

  Lemma dmul_col_perm n v (A : dmat) : is_perm n v -> dc A = n ->
    dmul o A (col_perm_mat o v) = dmk (dr A) n (fun i k => dget o A i (pat v k)).
  Proof.
    intros Hv HA. pose proof (perm_length n v Hv) as Hl.
    unfold dmul, col_perm_mat. autorewrite with ddim. rewrite Hl, HA. apply (dmk_ext o). intros i k Hi Hk.
    rewrite (sum_ext o n _ (fun x => if x =? pat v k then dget o A i x else r0)).
    - apply (sum_delta o L n (pat v k) (fun x => dget o A i x)). now apply perm_lt.
    - intros x Hx. rewrite dget_dmk by assumption. destruct (x =? pat v k); ring.
  Qed.

  Lemma row_col_perm n v : is_perm n v -> dmul o (row_perm_mat o v) (col_perm_mat o v) = did o n.
  Proof.
    intros Hv. pose proof (perm_length n v Hv) as Hl.
    rewrite (dmul_row_perm n) by (try assumption; unfold col_perm_mat; now autorewrite with ddim).
    unfold col_perm_mat, did. autorewrite with ddim. rewrite Hl. apply (dmk_ext o). intros k j Hk Hj.
    rewrite dget_dmk by (try assumption; now apply perm_lt).
    destruct (Nat.eqb_spec (pat v k) (pat v j)) as [E|E]; destruct (Nat.eqb_spec k j) as [E'|E']; try reflexivity.
    - exfalso. apply E'. now apply (perm_inj n v Hv).
    - subst. contradiction.
  Qed.

  Lemma col_row_perm n v : is_perm n v -> dmul o (col_perm_mat o v) (row_perm_mat o v) = did o n.
  Proof.
    intros Hv. pose proof (perm_length n v Hv) as Hl.
    unfold dmul at 1, did. unfold col_perm_mat at 1 2, row_perm_mat at 1 2. autorewrite with ddim. rewrite Hl.
    apply (dmk_ext o). intros i j Hi Hj.
    transitivity (sum o n (fun x => if (i =? x) && (j =? x) then r1 else r0)).
    - etransitivity; [|apply (sum_reindex n v (fun x => if (i =? x) && (j =? x) then r1 else r0) Hv)].
      apply (sum_ext o). intros k Hk. unfold col_perm_mat, row_perm_mat. rewrite Hl.
      rewrite !dget_dmk by assumption.
      destruct (i =? pat v k); destruct (j =? pat v k); cbn [andb]; ring.
    - rewrite (sum_ext o n _ (fun x => if x =? i then (if j =? x then r1 else r0) else r0)).
      + rewrite (sum_delta o L n i (fun x => if j =? x then r1 else r0)) by assumption.
        rewrite Nat.eqb_sym. reflexivity.
      + intros x Hx. rewrite (Nat.eqb_sym i x). destruct (x =? i); reflexivity.
  Qed.
End PermSum.
