(* Proofs about Model/Mono.v: the monomial types are commutative monoids (MultiDeg: on reduced values,
   which every operation returns), and cmp_lex / cmp_grlex are total orders compatible with the product.
   Exponent types are handled uniformly through an order-embedding into Z ([exp_laws]). *)
From Coq Require Import List Bool Arith NArith ZArith Lia.
Require Import Yui.Model.Mono.
Import ListNotations.

(* ---------- exponent types ---------- *)
Record exp_laws {I : Type} (e : exp_ops I) (eZ : I -> Z) : Prop := mk_exp_laws {
  eZ_inj : forall a b, eZ a = eZ b -> a = b;
  eZ_0 : eZ (ezero e) = 0%Z;
  eZ_add : forall a b, eZ (eadd e a b) = (eZ a + eZ b)%Z;
  ecmp_Z : forall a b, ecmp e a b = (eZ a ?= eZ b)%Z;
  eeqb_Z : forall a b, eeqb e a b = (eZ a =? eZ b)%Z;
  esub_some : forall a b c, esub e a b = Some c -> eZ c = (eZ a - eZ b)%Z;
  esub_none : forall a b, esub e a b = None <-> (esigned e = false /\ (eZ a < eZ b)%Z);
  eneg_Z : esigned e = true -> forall a, eZ (eneg e a) = (- eZ a)%Z;
  eunsigned : esigned e = false -> forall a, (0 <= eZ a)%Z;
}.

Lemma N_exp_laws : exp_laws N_exp Z.of_N.
Proof.
  constructor; cbn.
  - intros a b. apply N2Z.inj.
  - reflexivity.
  - intros. lia.
  - intros. symmetry. apply N2Z.inj_compare.
  - intros a b. destruct (N.eqb_spec a b), (Z.eqb_spec (Z.of_N a) (Z.of_N b)); lia.
  - intros a b c H. destruct (N.leb_spec b a); [|discriminate]. injection H as <-. lia.
  - intros a b. destruct (N.leb_spec b a); split; intros H0; try discriminate; try lia; try (split; [reflexivity|lia]); try reflexivity.
  - discriminate.
  - intros. lia.
Qed.

Lemma Z_exp_laws : exp_laws Z_exp (fun z => z).
Proof.
  constructor; cbn.
  - auto.
  - reflexivity.
  - reflexivity.
  - reflexivity.
  - reflexivity.
  - intros a b c [= <-]. reflexivity.
  - intros a b. split; [discriminate|]. intros [H _]. discriminate.
  - reflexivity.
  - discriminate.
Qed.

Lemma Zadd_compare_mono_r n m p : (n + p ?= m + p)%Z = (n ?= m)%Z.
Proof. rewrite (Z.add_comm n), (Z.add_comm m). apply Z.add_compare_mono_l. Qed.

(* ---------- total orders ---------- *)
Definition ord_laws {A : Type} (P : A -> Prop) (cmp : A -> A -> comparison) : Prop :=
  (forall x y, P x -> P y -> (cmp x y = Eq <-> x = y)) /\
  (forall x y, P x -> P y -> cmp y x = CompOpp (cmp x y)) /\
  (forall x y z, P x -> P y -> P z -> cmp x y = Lt -> cmp y z = Lt -> cmp x z = Lt).

Lemma then_with_Eq c1 c2 : then_with c1 c2 = Eq <-> c1 = Eq /\ c2 = Eq.
Proof. destruct c1, c2; cbn; intuition congruence. Qed.
Lemma then_with_opp c1 c2 : CompOpp (then_with c1 c2) = then_with (CompOpp c1) (CompOpp c2).
Proof. now destruct c1, c2. Qed.
Lemma then_with_Lt c1 c2 : then_with c1 c2 = Lt <-> c1 = Lt \/ (c1 = Eq /\ c2 = Lt).
Proof. destruct c1, c2; cbn; intuition congruence. Qed.
Lemma then_with_Eq_r c : then_with c Eq = c.
Proof. now destruct c. Qed.
Lemma then_with_assoc a b c : then_with (then_with a b) c = then_with a (then_with b c).
Proof. now destruct a. Qed.

Lemma ord_pair {A B} (P1 : A -> Prop) (P2 : B -> Prop) c1 c2 :
  ord_laws P1 c1 -> ord_laws P2 c2 ->
  ord_laws (fun p => P1 (fst p) /\ P2 (snd p)) (fun x y => then_with (c1 (fst x) (fst y)) (c2 (snd x) (snd y))).
Proof.
  intros (E1 & A1 & T1) (E2 & A2 & T2). split; [|split].
  - intros [x1 x2] [y1 y2] [Px1 Px2] [Py1 Py2]. cbn in *. rewrite then_with_Eq. split.
    + intros [Ha Hb]. apply E1 in Ha; try assumption. apply E2 in Hb; try assumption. congruence.
    + intros [= <- <-]. split; [now apply E1|now apply E2].
  - intros x y [Px1 Px2] [Py1 Py2]. now rewrite then_with_opp, <- A1, <- A2.
  - intros [x1 x2] [y1 y2] [z1 z2] [Px1 Px2] [Py1 Py2] [Pz1 Pz2] Hxy Hyz. cbn in *.
    apply then_with_Lt in Hxy, Hyz. apply then_with_Lt.
    destruct Hxy as [Hxy|[Hxy Hxy']], Hyz as [Hyz|[Hyz Hyz']].
    + left. now apply (T1 x1 y1 z1).
    + left. apply E1 in Hyz; try assumption. now subst.
    + left. apply E1 in Hxy; try assumption. now subst.
    + right. apply E1 in Hxy, Hyz; try assumption. subst. split; [now apply E1|]. now apply (T2 x2 y2 z2).
Qed.

Lemma ord_graded {A B} (P : A -> Prop) (PB : B -> Prop) (g : A -> B) cB cA :
  ord_laws PB cB -> ord_laws P cA -> (forall x, P x -> PB (g x)) ->
  ord_laws P (fun x y => then_with (cB (g x) (g y)) (cA x y)).
Proof.
  intros (E1 & A1 & T1) (E2 & A2 & T2) G. split; [|split].
  - intros x y Px Py. rewrite then_with_Eq. split.
    + intros [_ Hb]. now apply E2 in Hb.
    + intros <-. split; [apply E1; auto|now apply E2].
  - intros x y Px Py. rewrite then_with_opp, <- A1, <- A2; auto.
  - intros x y z Px Py Pz Hxy Hyz. apply then_with_Lt in Hxy, Hyz. apply then_with_Lt.
    destruct Hxy as [Hxy|[Hxy Hxy']], Hyz as [Hyz|[Hyz Hyz']].
    + left. apply (T1 (g x) (g y) (g z)); auto.
    + left. apply E1 in Hyz; auto. now rewrite <- Hyz.
    + left. apply E1 in Hxy; auto. now rewrite Hxy.
    + right. apply E1 in Hxy, Hyz; auto. split; [apply E1; auto; congruence|]. now apply (T2 x y z).
Qed.

Lemma ord_iso {A B} (P : A -> Prop) (Q : B -> Prop) (f : A -> B) cB :
  ord_laws Q cB -> (forall x, P x -> Q (f x)) -> (forall x y, P x -> P y -> f x = f y -> x = y) ->
  ord_laws P (fun x y => cB (f x) (f y)).
Proof.
  intros (E & A0 & T) HQ Hinj. split; [|split].
  - intros x y Px Py. split.
    + intros H1. apply E in H1; auto.
    + intros <-. apply E; auto.
  - intros x y Px Py. apply A0; auto.
  - intros x y z Px Py Pz. apply (T (f x) (f y) (f z)); auto.
Qed.

Lemma Z_ord : ord_laws (fun _ : Z => True) Z.compare.
Proof.
  split; [|split].
  - intros x y _ _. split; [apply Z.compare_eq|intros <-; apply Z.compare_refl].
  - intros x y _ _. apply Z.compare_antisym.
  - intros x y z _ _ _. rewrite !Z.compare_lt_iff. lia.
Qed.

Section Vars.
  Context {I : Type} (e : exp_ops I) (eZ : I -> Z) (EL : exp_laws e eZ).

  Lemma ecmp_ord : ord_laws (fun _ : I => True) (ecmp e).
  Proof.
    assert (H : ord_laws (fun _ : I => True) (fun x y => Z.compare (eZ x) (eZ y))).
    { apply (ord_iso _ (fun _ => True)); auto using Z_ord. intros x y _ _. apply (eZ_inj e eZ EL). }
    destruct H as (E & A & T). repeat split; intros; rewrite ?(ecmp_Z e eZ EL) in *; auto.
    - now apply E.
    - apply E; auto.
    - now apply (T x y z).
  Qed.

  Lemma ecmp_add a b c : ecmp e (eadd e a c) (eadd e b c) = ecmp e a b.
  Proof. rewrite !(ecmp_Z e eZ EL), !(eZ_add e eZ EL). apply Zadd_compare_mono_r. Qed.

  Lemma eeqb_eq a b : eeqb e a b = true <-> a = b.
  Proof.
    rewrite (eeqb_Z e eZ EL), Z.eqb_eq. split; [apply (eZ_inj e eZ EL)|congruence].
  Qed.
  Lemma eis_zero_iff a : eis_zero e a = true <-> a = ezero e.
  Proof. apply eeqb_eq. Qed.
  Lemma eis_zero_false a : eis_zero e a = false <-> a <> ezero e.
  Proof. rewrite <- eis_zero_iff. destruct (eis_zero e a); intuition congruence. Qed.

  Ltac ez := apply (eZ_inj e eZ EL); rewrite ?(eZ_add e eZ EL), ?(eZ_0 e eZ EL); try lia.
  Lemma eadd_comm a b : eadd e a b = eadd e b a. Proof. ez. Qed.
  Lemma eadd_assoc a b c : eadd e a (eadd e b c) = eadd e (eadd e a b) c. Proof. ez. Qed.
  Lemma eadd_0_l a : eadd e (ezero e) a = a. Proof. ez. Qed.
  Lemma eadd_0_r a : eadd e a (ezero e) = a. Proof. ez. Qed.

  (* ---------- the abstract interface ---------- *)
  Record mono_laws {X : Type} (m : mono_ops X) (ok : X -> Prop) : Prop := mk_mono_laws {
    meqb_eq : forall x y, meqb m x y = true <-> x = y;
    mone_ok : ok (mone m);
    mmul_ok : forall x y, ok x -> ok y -> ok (mmul m x y);
    mmul_comm : forall x y, ok x -> ok y -> mmul m x y = mmul m y x;
    mmul_assoc : forall x y z, ok x -> ok y -> ok z -> mmul m x (mmul m y z) = mmul m (mmul m x y) z;
    mmul_1_l : forall x, ok x -> mmul m (mone m) x = x;
    mdiv_sound : forall x y z, ok x -> ok y -> mdiv m x y = Some z -> ok z /\ mmul m z y = x;
    mlex_ord : ord_laws ok (mcmp_lex m);
    mgrlex_ord : ord_laws ok (mcmp_grlex m);
    mlex_mul : forall x y z, ok x -> ok y -> ok z -> mcmp_lex m (mmul m x z) (mmul m y z) = mcmp_lex m x y;
    mgrlex_mul : forall x y z, ok x -> ok y -> ok z -> mcmp_grlex m (mmul m x z) (mmul m y z) = mcmp_grlex m x y;
  }.

  Definition any {A} (_ : A) : Prop := True.

  (* ---------- Var ---------- *)
  Lemma esub_sound x y z : esub e x y = Some z -> eadd e z y = x.
  Proof. intros H. apply (esub_some e eZ EL) in H. ez. Qed.

  Theorem var_laws : mono_laws (var_mono e) any.
  Proof.
    constructor; cbn; unfold any; intros; auto.
    - apply eeqb_eq.
    - apply eadd_comm.
    - apply eadd_assoc.
    - apply eadd_0_l.
    - split; [exact Logic.I|now apply esub_sound].
    - apply ecmp_ord.
    - apply ecmp_ord.
    - apply ecmp_add.
    - apply ecmp_add.
  Qed.

  (* ---------- Var2 ---------- *)
  Lemma ord_any2 {A B} (c : A * B -> A * B -> comparison) :
    ord_laws (fun p => True /\ True) c -> ord_laws any c.
  Proof. intros (E & A0 & T). unfold any. repeat split; intros; try (apply E; auto); try (apply A0; auto). now apply (T x y z). Qed.

  Lemma v2_lex_ord : ord_laws any (v2_cmp_lex e).
  Proof. apply ord_any2. apply (ord_pair _ _ _ _ ecmp_ord ecmp_ord). Qed.
  Lemma v2_grlex_ord : ord_laws any (v2_cmp_grlex e).
  Proof. apply (ord_graded any (fun _ => True) (v2_total e) _ _ ecmp_ord v2_lex_ord). auto. Qed.

  Theorem var2_laws : mono_laws (var2_mono e) any.
  Proof.
    constructor; cbn; unfold any; intros; auto.
    - destruct x, y. cbn. rewrite andb_true_iff, !eeqb_eq. split; [intros []|intros [=]]; subst; auto.
    - destruct x, y. cbn. f_equal; apply eadd_comm.
    - destruct x, y, z. cbn. f_equal; apply eadd_assoc.
    - destruct x. cbn. f_equal; apply eadd_0_l.
    - split; [exact Logic.I|]. destruct x as [x1 x2], y as [y1 y2]. cbn in *.
      destruct (esub e x1 y1) eqn:E1; [|discriminate]. destruct (esub e x2 y2) eqn:E2; [|discriminate].
      cbn in H1. injection H1 as <-. cbn. f_equal; now apply esub_sound.
    - apply v2_lex_ord.
    - apply v2_grlex_ord.
    - unfold v2_cmp_lex. cbn. now rewrite !ecmp_add.
    - unfold v2_cmp_grlex, v2_cmp_lex, v2_total. cbn. rewrite !ecmp_add. f_equal.
      rewrite !(ecmp_Z e eZ EL), !(eZ_add e eZ EL).
      replace (eZ (fst x) + eZ (fst z) + (eZ (snd x) + eZ (snd z)))%Z with (eZ (fst x) + eZ (snd x) + (eZ (fst z) + eZ (snd z)))%Z by lia.
      replace (eZ (fst y) + eZ (fst z) + (eZ (snd y) + eZ (snd z)))%Z with (eZ (fst y) + eZ (snd y) + (eZ (fst z) + eZ (snd z)))%Z by lia.
      apply Zadd_compare_mono_r.
  Qed.

  (* ---------- Var3 ---------- *)
  Lemma v3_lex_ord : ord_laws any (v3_cmp_lex e).
  Proof.
    apply ord_any2.
    pose proof (ord_pair _ _ _ _ (ord_pair _ _ _ _ ecmp_ord ecmp_ord) ecmp_ord) as (E & A0 & T).
    unfold v3_cmp_lex, v3_0, v3_1, v3_2. repeat split; intros.
    - apply E in H1; auto.
    - apply E; auto.
    - apply A0; auto.
    - apply (T x y z); auto.
  Qed.
  Lemma v3_grlex_ord : ord_laws any (v3_cmp_grlex e).
  Proof. apply (ord_graded any (fun _ => True) (v3_total e) _ _ ecmp_ord v3_lex_ord). auto. Qed.

  Theorem var3_laws : mono_laws (var3_mono e) any.
  Proof.
    constructor; cbn; unfold any; intros; auto.
    - destruct x as [[x0 x1] x2], y as [[y0 y1] y2]. unfold v3_0, v3_1, v3_2. cbn.
      rewrite !andb_true_iff, !eeqb_eq. split; [intros [[] ?]|intros [=]]; subst; auto.
    - destruct x as [[x0 x1] x2], y as [[y0 y1] y2]. unfold v3_0, v3_1, v3_2. cbn. f_equal; [f_equal|]; apply eadd_comm.
    - destruct x as [[x0 x1] x2], y as [[y0 y1] y2], z as [[z0 z1] z2]. unfold v3_0, v3_1, v3_2. cbn.
      f_equal; [f_equal|]; apply eadd_assoc.
    - destruct x as [[x0 x1] x2]. unfold v3_0, v3_1, v3_2. cbn. f_equal; [f_equal|]; apply eadd_0_l.
    - split; [exact Logic.I|]. destruct x as [[x0 x1] x2], y as [[y0 y1] y2]. unfold v3_0, v3_1, v3_2 in *. cbn in *.
      destruct (esub e x0 y0) eqn:E0; [|discriminate]. destruct (esub e x1 y1) eqn:E1; [|discriminate].
      destruct (esub e x2 y2) eqn:E2; [|discriminate].
      cbn in H1. injection H1 as <-. cbn. f_equal; [f_equal|]; now apply esub_sound.
    - apply v3_lex_ord.
    - apply v3_grlex_ord.
    - unfold v3_cmp_lex, v3_0, v3_1, v3_2. cbn. now rewrite !ecmp_add.
    - unfold v3_cmp_grlex, v3_cmp_lex, v3_total, v3_0, v3_1, v3_2. cbn. rewrite !ecmp_add. f_equal.
      rewrite !(ecmp_Z e eZ EL), !(eZ_add e eZ EL).
      destruct x as [[x0 x1] x2], y as [[y0 y1] y2], z as [[z0 z1] z2]. cbn.
      replace (eZ x0 + eZ z0 + (eZ x1 + eZ z1) + (eZ x2 + eZ z2))%Z with (eZ x0 + eZ x1 + eZ x2 + (eZ z0 + eZ z1 + eZ z2))%Z by lia.
      replace (eZ y0 + eZ z0 + (eZ y1 + eZ z1) + (eZ y2 + eZ z2))%Z with (eZ y0 + eZ y1 + eZ y2 + (eZ z0 + eZ z1 + eZ z2))%Z by lia.
      apply Zadd_compare_mono_r.
  Qed.
End Vars.
