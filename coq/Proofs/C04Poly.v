(* C04 - semantics of the canonical-list Laurent polynomials of Model/Jones.v: the coefficient function,
   its behaviour under padd_term / padd / pscale / pmul (commutative), canonical forms are unique. *)
From Coq Require Import List Arith Bool ZArith Lia.
Require Import Yui.Model.Jones.
Import ListNotations.
Local Open Scope Z_scope.

(* finite sums over lists *)
Definition zsum {A} (f : A -> Z) (l : list A) : Z := fold_right (fun a acc => f a + acc) 0 l.

Lemma zsum_nil : forall A (f : A -> Z), zsum f [] = 0.
Proof. reflexivity. Qed.
Lemma zsum_cons : forall A (f : A -> Z) a l, zsum f (a :: l) = f a + zsum f l.
Proof. reflexivity. Qed.
Lemma zsum_app : forall A (f : A -> Z) l m, zsum f (l ++ m) = zsum f l + zsum f m.
Proof. induction l; intros; cbn [app]; rewrite ?zsum_cons, ?zsum_nil, ?IHl; lia. Qed.
Lemma zsum_ext : forall A (f g : A -> Z) l, (forall a, In a l -> f a = g a) -> zsum f l = zsum g l.
Proof.
  induction l; intros H; auto. rewrite !zsum_cons, (H a), IHl; cbn; auto. intros; apply H; cbn; auto.
Qed.
Lemma zsum_add : forall A (f g : A -> Z) l, zsum (fun a => f a + g a) l = zsum f l + zsum g l.
Proof. induction l; auto. rewrite !zsum_cons, IHl. lia. Qed.
Lemma zsum_scal : forall A (f : A -> Z) c l, c * zsum f l = zsum (fun a => c * f a) l.
Proof. induction l; [cbn; lia|]. rewrite !zsum_cons, <- IHl. lia. Qed.
Lemma zsum_zero : forall A (l : list A), zsum (fun _ => 0) l = 0.
Proof. induction l; cbn; auto. Qed.
Lemma zsum_map : forall A B (g : A -> B) (f : B -> Z) l, zsum f (map g l) = zsum (fun a => f (g a)) l.
Proof. induction l; auto. cbn [map]. rewrite !zsum_cons, IHl. reflexivity. Qed.
Lemma zsum_flat_map : forall A B (g : A -> list B) (f : B -> Z) l,
  zsum f (flat_map g l) = zsum (fun a => zsum f (g a)) l.
Proof. induction l; auto. cbn [flat_map]. rewrite zsum_app, zsum_cons, IHl. reflexivity. Qed.
Lemma zsum_swap : forall A B (f : A -> B -> Z) l m,
  zsum (fun a => zsum (fun b => f a b) m) l = zsum (fun b => zsum (fun a => f a b) l) m.
Proof.
  induction l; intros m.
  - cbn. rewrite zsum_zero. reflexivity.
  - rewrite zsum_cons, IHl. rewrite <- zsum_add. apply zsum_ext. intros b _. rewrite zsum_cons. reflexivity.
Qed.

(* the coefficient of q^e *)
Definition coeff (p : lpoly) (e : Z) : Z := zsum (fun t => if fst t =? e then snd t else 0) p.

Lemma coeff_nil : forall e, coeff [] e = 0.
Proof. reflexivity. Qed.
Lemma coeff_cons : forall e0 c0 p e, coeff ((e0, c0) :: p) e = (if e0 =? e then c0 else 0) + coeff p e.
Proof. reflexivity. Qed.

Lemma coeff_padd_term : forall e0 c0 p e,
  coeff (padd_term e0 c0 p) e = (if e0 =? e then c0 else 0) + coeff p e.
Proof.
  intros e0 c0. induction p as [|[e' c'] r IH]; intros e; cbn [padd_term].
  - destruct (Z.eqb_spec c0 0) as [->|N]; [rewrite coeff_nil; destruct (e0 =? e); lia|].
    rewrite coeff_cons, coeff_nil. lia.
  - destruct (e0 <? e').
    + destruct (Z.eqb_spec c0 0) as [->|N]; [destruct (e0 =? e); lia|]. rewrite coeff_cons. lia.
    + destruct (Z.eqb_spec e0 e') as [->|Ne].
      * cbn zeta. destruct (Z.eqb_spec (c0 + c') 0) as [Z0|NZ]; rewrite ?coeff_cons; destruct (e' =? e); lia.
      * rewrite !coeff_cons, IH. lia.
Qed.

Lemma coeff_padd : forall p q e, coeff (padd p q) e = coeff p e + coeff q e.
Proof.
  unfold padd. induction p as [|[e0 c0] p IH]; intros q e; cbn [fold_right fst snd].
  - rewrite coeff_nil. lia.
  - rewrite coeff_padd_term, IH, coeff_cons. lia.
Qed.

Lemma coeff_pscale : forall e0 c0 p e, coeff (pscale e0 c0 p) e = c0 * coeff p (e - e0).
Proof.
  intros e0 c0 p e. unfold pscale. destruct (Z.eqb_spec c0 0) as [->|N]; [rewrite coeff_nil; lia|].
  unfold coeff. rewrite zsum_map, zsum_scal. apply zsum_ext. intros [e1 c1] _. cbn [fst snd].
  destruct (Z.eqb_spec (e0 + e1) e); destruct (Z.eqb_spec e1 (e - e0)); lia.
Qed.

Lemma coeff_pmul : forall p q e,
  coeff (pmul p q) e = zsum (fun t => snd t * coeff q (e - fst t)) p.
Proof.
  unfold pmul. induction p as [|[e0 c0] p IH]; intros q e; cbn [fold_right fst snd]; auto.
  rewrite coeff_padd, coeff_pscale, IH, zsum_cons. reflexivity.
Qed.

Lemma coeff_pmul_comm : forall p q e, coeff (pmul p q) e = coeff (pmul q p) e.
Proof.
  intros p q e. rewrite !coeff_pmul.
  transitivity (zsum (fun t1 => zsum (fun t2 => if fst t1 + fst t2 =? e then snd t1 * snd t2 else 0) q) p).
  - apply zsum_ext. intros [e1 c1] _. cbn [fst snd]. unfold coeff. rewrite zsum_scal.
    apply zsum_ext. intros [e2 c2] _. cbn [fst snd].
    destruct (Z.eqb_spec e2 (e - e1)); destruct (Z.eqb_spec (e1 + e2) e); lia.
  - rewrite zsum_swap. apply zsum_ext. intros [e2 c2] _. cbn [fst snd]. unfold coeff. rewrite zsum_scal.
    apply zsum_ext. intros [e1 c1] _. cbn [fst snd].
    destruct (Z.eqb_spec e1 (e - e2)); destruct (Z.eqb_spec (e1 + e2) e); lia.
Qed.

(* multiplication by a monomial *)
Lemma coeff_pmul_mono : forall k c q e, coeff (pmul [(k, c)] q) e = c * coeff q (e - k).
Proof. intros. rewrite coeff_pmul, zsum_cons, zsum_nil. cbn [fst snd]. lia. Qed.

(* ---------------------------------------------------------------------------------------------- *)
(* canonical forms *)
Fixpoint canon_from (lo : Z) (p : lpoly) : Prop :=
  match p with
  | [] => True
  | (e, c) :: r => lo < e /\ c <> 0 /\ canon_from e r
  end.
Definition canon (p : lpoly) : Prop := exists lo, canon_from lo p.

Lemma canon_from_weaken : forall p lo lo', lo' <= lo -> canon_from lo p -> canon_from lo' p.
Proof. destruct p as [|[e c] r]; cbn; auto. intros lo lo' H (A & B & C). repeat split; auto; lia. Qed.

Lemma padd_term_canon_from : forall e0 c0 p lo, lo < e0 -> canon_from lo p -> canon_from lo (padd_term e0 c0 p).
Proof.
  intros e0 c0. induction p as [|[e' c'] r IH]; intros lo Hlo Hc; cbn [padd_term].
  - destruct (Z.eqb_spec c0 0); cbn; auto.
  - cbn in Hc. destruct Hc as (A & B & C).
    destruct (Z.ltb_spec e0 e').
    + destruct (Z.eqb_spec c0 0); cbn; auto 6.
    + destruct (Z.eqb_spec e0 e') as [->|Ne].
      * cbn zeta. destruct (Z.eqb_spec (c0 + c') 0).
        { eapply canon_from_weaken; [|exact C]. lia. }
        { cbn. repeat split; auto. }
      * cbn. repeat split; auto. apply IH; auto. lia.
Qed.
Lemma padd_term_canon : forall e0 c0 p, canon p -> canon (padd_term e0 c0 p).
Proof.
  intros e0 c0 p [lo H]. exists (Z.min lo (e0 - 1)). apply padd_term_canon_from; [lia|].
  eapply canon_from_weaken; [|exact H]. lia.
Qed.
Lemma canon_nil : canon [].
Proof. exists 0. exact I. Qed.
Lemma padd_canon : forall p q, canon q -> canon (padd p q).
Proof.
  unfold padd. induction p as [|[e c] p IH]; intros q H; cbn [fold_right]; auto.
  apply padd_term_canon. apply IH; auto.
Qed.
Lemma pmul_canon : forall p q, canon (pmul p q).
Proof.
  unfold pmul. induction p as [|[e c] p IH]; intros q; cbn [fold_right]; [apply canon_nil|].
  apply padd_canon. apply IH.
Qed.
Lemma euler_poly_canon : forall g, canon (euler_poly g).
Proof.
  unfold euler_poly. induction g as [|[h j] g IH]; cbn [fold_right]; [apply canon_nil|].
  apply padd_term_canon; auto.
Qed.
Lemma euler_of_table_canon : forall f tbl, canon (euler_of_table f tbl).
Proof.
  unfold euler_of_table. induction tbl as [|[j c] t IH]; cbn [fold_right]; [apply canon_nil|].
  apply padd_term_canon; auto.
Qed.

Lemma canon_from_coeff_low : forall p lo e, canon_from lo p -> e <= lo -> coeff p e = 0.
Proof.
  induction p as [|[e1 c1] r IH]; intros lo e H Hle; [reflexivity|].
  cbn in H. destruct H as (A & B & C). rewrite coeff_cons.
  destruct (Z.eqb_spec e1 e); [lia|]. rewrite (IH e1); auto; lia.
Qed.

Lemma canon_from_ext : forall p q lo, canon_from lo p -> canon_from lo q ->
  (forall e, coeff p e = coeff q e) -> p = q.
Proof.
  induction p as [|[e1 c1] r1 IH]; intros q lo Hp Hq Heq.
  - destruct q as [|[e2 c2] r2]; auto. exfalso. cbn in Hq. destruct Hq as (A & B & C).
    specialize (Heq e2). rewrite coeff_nil, coeff_cons, Z.eqb_refl in Heq.
    rewrite (canon_from_coeff_low r2 e2 e2) in Heq; auto; lia.
  - cbn in Hp. destruct Hp as (A1 & B1 & C1).
    destruct q as [|[e2 c2] r2].
    + exfalso. specialize (Heq e1). rewrite coeff_nil, coeff_cons, Z.eqb_refl in Heq.
      rewrite (canon_from_coeff_low r1 e1 e1) in Heq; auto; lia.
    + cbn in Hq. destruct Hq as (A2 & B2 & C2).
      assert (H1 : coeff ((e1, c1) :: r1) e1 = c1).
      { rewrite coeff_cons, Z.eqb_refl, (canon_from_coeff_low r1 e1 e1); auto; lia. }
      assert (H2 : coeff ((e2, c2) :: r2) e2 = c2).
      { rewrite coeff_cons, Z.eqb_refl, (canon_from_coeff_low r2 e2 e2); auto; lia. }
      destruct (Z.lt_trichotomy e1 e2) as [L|[E|G]].
      * exfalso. pose proof (Heq e1) as H. rewrite H1 in H.
        rewrite (canon_from_coeff_low ((e2, c2) :: r2) (e2 - 1) e1) in H; [lia| |lia].
        cbn. repeat split; auto; lia.
      * subst e2. assert (c1 = c2) by (rewrite <- H1, <- H2; apply Heq). subst c2.
        f_equal. apply (IH r2 e1); auto.
        intros e. specialize (Heq e). rewrite !coeff_cons in Heq. lia.
      * exfalso. pose proof (Heq e2) as H. rewrite H2 in H.
        rewrite (canon_from_coeff_low ((e1, c1) :: r1) (e1 - 1) e2) in H; [lia| |lia].
        cbn. repeat split; auto; lia.
Qed.

Theorem canon_ext : forall p q, canon p -> canon q -> (forall e, coeff p e = coeff q e) -> p = q.
Proof.
  intros p q [l1 H1] [l2 H2] Heq. apply (canon_from_ext p q (Z.min l1 l2)); auto;
    eapply canon_from_weaken; eauto; lia.
Qed.

(* coefficient of a sum of signed monomials *)
Lemma coeff_euler_poly : forall g e,
  coeff (euler_poly g) e = zsum (fun x => if snd x =? e then hsign (fst x) else 0) g.
Proof.
  unfold euler_poly. induction g as [|[h j] g IH]; intros e; cbn [fold_right fst snd]; auto.
  rewrite coeff_padd_term, IH, zsum_cons. reflexivity.
Qed.
Lemma coeff_euler_of_table : forall f tbl e,
  coeff (euler_of_table f tbl) e = zsum (fun jc => if fst jc =? e then f (snd jc) else 0) tbl.
Proof.
  unfold euler_of_table. induction tbl as [|[j c] t IH]; intros e; cbn [fold_right fst snd]; auto.
  rewrite coeff_padd_term, IH, zsum_cons. reflexivity.
Qed.
