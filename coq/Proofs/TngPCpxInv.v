(* Invariants of the elimination phase on completely delooped complexes (Model/TngComplex.v): the well-formedness
   [cpx_wf] (distinct keys, in_edges records every edge, edges raise the weight of the state by one, every edge is a
   non-zero multiple of the empty cobordism) together with d d = 0 over Z is preserved by EVERY returning eliminate step,
   hence by every sequence of them. *)
From Coq Require Import List Arith Bool ZArith Lia.
Import ListNotations.
Require Import Yui.Model.Link Yui.Model.Tng Yui.Model.TngCob Yui.Model.TngStack Yui.Model.TngComplex.
Require Import Yui.Proofs.TngPElim Yui.Proofs.TngPElimMat Yui.Proofs.TngPCpx Yui.Proofs.TngPCpxSem Yui.Proofs.TngPCpxScalar.

(* edges raise the weight by one (the homological grading) *)
Definition graded (vs : list vertex) : Prop :=
  forall k l f, edge vs k l = Some f -> key_weight l = S (key_weight k).

Lemma graded_no_loop vs k : graded vs -> edge vs k k = None.
Proof. intros G. destruct (edge vs k k) as [f|] eqn:E; [|reflexivity]. apply G in E. lia. Qed.
Lemma graded_neq vs k l f : graded vs -> edge vs k l = Some f -> k <> l.
Proof. intros G E ->. apply G in E. lia. Qed.

(* ---------- in_complete through the primitive operations ---------- *)
Lemma key_ins_In k a ks : In a (key_ins k ks) <-> a = k \/ In a ks.
Proof.
  unfold key_ins. destruct (key_mem k ks) eqn:E.
  - apply key_mem_In in E. split; [now right|]. intros [->|Hi]; assumption.
  - rewrite in_app_iff. cbn [In]. split; [intros [Hi|[<-|[]]]; auto|intros [->|Hi]; auto].
Qed.
Lemma key_del_In k a ks : In a (key_del k ks) <-> In a ks /\ a <> k.
Proof.
  unfold key_del. rewrite filter_In. split; intros [Hi Hn]; (split; [assumption|]).
  - apply negb_true_iff, key_eqb_neq in Hn. assumption.
  - apply negb_true_iff, key_eqb_neq. assumption.
Qed.

Lemma add_edge_in_complete vs k l f vs' : add_edge vs k l f = Some vs' -> in_complete vs -> in_complete vs'.
Proof.
  intros Ea Ic. pose proof (add_edge_spec _ _ _ _ _ Ea) as (_ & _ & Ee).
  unfold add_edge in Ea. destruct (has_edge vs k l) as [[|]|]; try discriminate.
  destruct (is_nil f); [discriminate|]. destruct (has_key vs l); [|discriminate]. injection Ea as <-.
  intros a b w' g Eg Ew. rewrite Ee in Eg.
  rewrite find_v_upd in Ew by (now intros v). rewrite find_v_upd in Ew by (now intros v).
  destruct (key_eqb_spec b l) as [->|Nb].
  - (* the in-list of l got k *)
    destruct (key_eqb l k).
    + destruct (find_v vs l) as [w|] eqn:Ewl; [|discriminate]. cbn [option_map] in Ew. injection Ew as <-.
      cbn [set_in set_out vin]. apply key_ins_In. destruct (key_eqb_spec a k) as [->|Na]; [now left|]. right.
      cbn [andb] in Eg. eapply Ic; eassumption.
    + destruct (find_v vs l) as [w|] eqn:Ewl; [|discriminate]. cbn [option_map] in Ew. injection Ew as <-.
      cbn [set_in vin]. apply key_ins_In. destruct (key_eqb_spec a k) as [->|Na]; [now left|]. right.
      cbn [andb] in Eg. eapply Ic; eassumption.
  - rewrite andb_false_r in Eg. destruct (key_eqb b k).
    + destruct (find_v vs b) as [w|] eqn:Ewb; [|discriminate]. cbn [option_map] in Ew. injection Ew as <-.
      cbn [set_out vin]. eapply Ic; eassumption.
    + eapply Ic; eassumption.
Qed.

Lemma remove_edge_in_complete vs k l vs' f : remove_edge vs k l = Some (vs', f) -> in_complete vs -> in_complete vs'.
Proof.
  intros Er Ic. pose proof (remove_edge_spec _ _ _ _ _ Er) as (_ & _ & Ee).
  unfold remove_edge in Er. destruct (has_edge vs k l) as [[|]|]; try discriminate.
  destruct (edge vs k l) as [g0|]; [|discriminate]. destruct (has_key vs l); [|discriminate]. injection Er as <- <-.
  intros a b w' g Eg Ew. rewrite Ee in Eg.
  rewrite find_v_upd in Ew by (now intros v). rewrite find_v_upd in Ew by (now intros v).
  destruct (key_eqb_spec a k) as [->|Na]; destruct (key_eqb_spec b l) as [->|Nb]; cbn [andb] in Eg; try discriminate.
  - (* a = k, b <> l *)
    destruct (key_eqb b k).
    + destruct (key_eqb_spec b l); [contradiction|].
      destruct (find_v vs b) as [w|] eqn:Ewb; [|discriminate]. cbn [option_map] in Ew. injection Ew as <-.
      cbn [set_out vin]. eapply Ic; eassumption.
    + destruct (key_eqb_spec b l); [contradiction|]. eapply Ic; eassumption.
  - (* a <> k, b = l *)
    destruct (key_eqb l k).
    + destruct (find_v vs l) as [w|] eqn:Ewl; [|discriminate]. cbn [option_map] in Ew. injection Ew as <-.
      cbn [set_out set_in vin]. apply key_del_In. split; [eapply Ic; eassumption|assumption].
    + destruct (find_v vs l) as [w|] eqn:Ewl; [|discriminate]. cbn [option_map] in Ew. injection Ew as <-.
      cbn [set_in vin]. apply key_del_In. split; [eapply Ic; eassumption|assumption].
  - destruct (key_eqb b k).
    + destruct (key_eqb_spec b l); [contradiction|].
      destruct (find_v vs b) as [w|] eqn:Ewb; [|discriminate]. cbn [option_map] in Ew. injection Ew as <-.
      cbn [set_out vin]. eapply Ic; eassumption.
    + destruct (key_eqb_spec b l); [contradiction|]. eapply Ic; eassumption.
Qed.

Lemma elim_write_in_complete s q s' : elim_write s q = Some s' -> in_complete s -> in_complete s'.
Proof.
  destruct q as [[l0 l1] f]. unfold elim_write. destruct (has_edge s l0 l1) as [he|]; [|discriminate].
  intros E Ic.
  assert (Ic1 : forall s1, (if he then option_map fst (remove_edge s l0 l1) else Some s) = Some s1 -> in_complete s1).
  { intros s1 E1. destruct he.
    - destruct (remove_edge s l0 l1) as [[s2 g]|] eqn:Er; [|discriminate]. cbn in E1. injection E1 as <-.
      eapply remove_edge_in_complete; eassumption.
    - now injection E1 as <-. }
  destruct (if he then option_map fst (remove_edge s l0 l1) else Some s) as [s1|]; [|discriminate].
  specialize (Ic1 s1 eq_refl). destruct (is_nil f).
  - now injection E as <-.
  - eapply add_edge_in_complete; eassumption.
Qed.

(* ---------- remove_vertex: nothing dangles ---------- *)
(* edges are only removed, in-lists only lose k *)
Definition shrinks (k : tkey) (s s' : list vertex) : Prop :=
  (forall a b f, edge s' a b = Some f -> edge s a b = Some f) /\
  (forall j w', find_v s' j = Some w' -> exists w, find_v s j = Some w /\ forall a, a <> k -> In a (vin w) -> In a (vin w')).
Lemma shrinks_refl k s : shrinks k s s.
Proof. split; [auto|]. intros j w' E. exists w'. auto. Qed.
Lemma shrinks_trans k s1 s2 s3 : shrinks k s1 s2 -> shrinks k s2 s3 -> shrinks k s1 s3.
Proof.
  intros [E1 V1] [E2 V2]. split; [auto|]. intros j w3 E. destruct (V2 j w3 E) as (w2 & F2 & I2).
  destruct (V1 j w2 F2) as (w1 & F1 & I1). exists w1. split; [assumption|]. auto.
Qed.

Lemma shrinks_del_out k s j :
  shrinks k s (upd_v s j (fun u => set_out u (del_e (vout u) k))) /\
  edge (upd_v s j (fun u => set_out u (del_e (vout u) k))) j k = None.
Proof.
  split; [split|].
  - intros a b f E. rewrite edge_upd_out in E by (now intros u). destruct (key_eqb a j); [|assumption].
    unfold edge. destruct (find_v s a) as [u|]; [|discriminate]. cbn [set_out vout] in E. rewrite find_e_del in E.
    destruct (key_eqb b k); [discriminate|assumption].
  - intros i w' E. rewrite find_v_upd in E by (now intros u). destruct (key_eqb i j).
    + destruct (find_v s i) as [w|]; [|discriminate]. cbn [option_map] in E. injection E as <-. exists w. split; [reflexivity|auto].
    + exists w'. auto.
  - rewrite edge_upd_out by (now intros u). rewrite key_eqb_refl. destruct (find_v s j) as [u|]; [|reflexivity].
    cbn [set_out vout]. rewrite find_e_del. now rewrite key_eqb_refl.
Qed.
Lemma shrinks_del_in k s l : shrinks k s (upd_v s l (fun w => set_in w (key_del k (vin w)))).
Proof.
  split.
  - intros a b f E. now rewrite edge_upd_in in E by (now intros u).
  - intros i w' E. rewrite find_v_upd in E by (now intros u). destruct (key_eqb i l).
    + destruct (find_v s i) as [w|]; [|discriminate]. cbn [option_map] in E. injection E as <-. exists w.
      split; [reflexivity|]. intros a Na Hi. cbn [set_in vin]. apply key_del_In. now split.
    + exists w'. auto.
Qed.
Lemma shrinks_del_v k s : shrinks k s (del_v s k).
Proof.
  split.
  - intros a b f E. unfold edge in *. rewrite find_v_del in E. destruct (key_eqb a k); [discriminate|assumption].
  - intros j w' E. rewrite find_v_del in E. destruct (key_eqb j k); [discriminate|]. exists w'. auto.
Qed.

Lemma remove_vertex_shrinks vs k vs' v :
  remove_vertex vs k = Some (vs', v) ->
  shrinks k vs vs' /\ find_v vs' k = None /\ forall j, In j (vin v) -> edge vs' j k = None.
Proof.
  unfold remove_vertex. destruct (find_v vs k) as [v0|] eqn:Ev; [|discriminate].
  destruct (fold_opt _ (vin v0) (del_v vs k)) as [vs2|] eqn:E2; [|discriminate].
  destruct (fold_opt _ (out_keys v0) vs2) as [vs3|] eqn:E3; [|discriminate]. intros [= <- <-].
  (* the first fold: out-entries k of the predecessors *)
  assert (R2 : shrinks k (del_v vs k) vs2 /\ forall j, In j (vin v0) -> edge vs2 j k = None).
  { revert E2. generalize (del_v vs k) as s0. induction (vin v0) as [|j js IH]; intros s0 E; cbn [fold_opt] in E.
    - injection E as <-. split; [apply shrinks_refl|intros j []].
    - destruct (has_key s0 j); [|discriminate]. destruct (shrinks_del_out k s0 j) as [Sh Nn].
      destruct (IH _ E) as [Sh2 Nn2]. split; [eapply shrinks_trans; eassumption|].
      intros i [<-|Hi]; [|now apply Nn2].
      destruct (edge vs2 j k) as [f|] eqn:Ef; [|reflexivity]. apply (proj1 Sh2) in Ef. congruence. }
  assert (R3 : shrinks k vs2 vs3).
  { revert E3. apply (fold_opt_inv (shrinks k)); [apply shrinks_refl|apply shrinks_trans|].
    intros s l s' E. destruct (has_key s l); [|discriminate]. injection E as <-. apply shrinks_del_in. }
  destruct R2 as [R2 N2]. split; [|split].
  - eapply shrinks_trans; [apply shrinks_del_v|]. eapply shrinks_trans; eassumption.
  - destruct (find_v vs3 k) as [w'|] eqn:Ew; [|reflexivity].
    destruct (proj2 (shrinks_trans _ _ _ _ R2 R3) _ _ Ew) as (w & Fw & _). rewrite find_v_del, key_eqb_refl in Fw. discriminate.
  - intros j Hj. destruct (edge vs3 j k) as [f|] eqn:Ef; [|reflexivity]. apply (proj1 R3) in Ef. rewrite (N2 j Hj) in Ef. discriminate.
Qed.

Lemma remove_vertex_in_complete vs k vs' v :
  remove_vertex vs k = Some (vs', v) -> in_complete vs ->
  in_complete vs' /\ forall a, edge vs' a k = None.
Proof.
  intros Er Ic. pose proof (remove_vertex_spec _ _ _ _ Er) as (Ev & _ & _ & _).
  destruct (remove_vertex_shrinks _ _ _ _ Er) as ([Se Sv] & Nk & Nin). split.
  - intros a b w' f Ef Ew. destruct (Sv _ _ Ew) as (w & Fw & Iw). apply Iw.
    + intros ->. unfold edge in Ef. rewrite Nk in Ef. discriminate.
    + eapply Ic; [apply Se; eassumption|assumption].
  - intros a. destruct (edge vs' a k) as [f|] eqn:Ef; [|reflexivity].
    pose proof (Se _ _ _ Ef) as Ef0. pose proof (Ic _ _ _ _ Ef0 Ev) as Hi. rewrite (Nin a Hi) in Ef. discriminate.
Qed.

(* ---------- the invariant ---------- *)
Record cpx_wf (vs : list vertex) : Prop := mk_cpx_wf {
  wf_nodup : NoDup (map vkey vs);
  wf_in : in_complete vs;
  wf_graded : graded vs;
  wf_scalar : typed ty_scalar vs;
}.
Definition cpx_dd (vs : list vertex) : Prop :=
  forall x y, In x (map vkey vs) -> In y (map vkey vs) ->
    zsum (map vkey vs) (fun m => zentry vs m y * zentry vs x m)%Z = 0%Z.

Lemma eliminate_in_complete c k0 k1 c' :
  cpx_eliminate c k0 k1 = Some c' -> in_complete (c_verts c) ->
  in_complete (c_verts c') /\ (forall a, edge (c_verts c') a k0 = None) /\ (forall a, edge (c_verts c') a k1 = None).
Proof.
  unfold cpx_eliminate. destruct (edge (c_verts c) k0 k1) as [a|]; [|discriminate].
  destruct (lc_inv a) as [[ainv|]|]; try discriminate.
  destruct (find_v (c_verts c) k1) as [v1|]; [|discriminate].
  destruct (find_v (c_verts c) k0) as [v0|]; [|discriminate].
  destruct (map_opt _ _) as [values|]; [|discriminate].
  match goal with |- context [@fold_opt ?A ?S ?f values ?s0] =>
    destruct (@fold_opt A S f values s0) as [vs1|] eqn:Efold; [|discriminate] end.
  change (fold_opt elim_write values (c_verts c) = Some vs1) in Efold.
  destruct (remove_vertex vs1 k0) as [[vs2 u0]|] eqn:Er0; [|discriminate].
  destruct (remove_vertex vs2 k1) as [[vs3 u1]|] eqn:Er1; [|discriminate]. intros [= <-] Ic. cbn [c_verts set_verts].
  assert (Ic1 : in_complete vs1).
  { revert Ic. revert Efold. generalize (c_verts c) as s0. induction values as [|q values IH]; intros s0 E Ic; cbn [fold_opt] in E.
    - now injection E as <-.
    - destruct (elim_write s0 q) as [s1|] eqn:Ew; [|discriminate]. eapply IH; [eassumption|].
      eapply elim_write_in_complete; eassumption. }
  destruct (remove_vertex_in_complete _ _ _ _ Er0 Ic1) as [Ic2 N0].
  destruct (remove_vertex_in_complete _ _ _ _ Er1 Ic2) as [Ic3 N1].
  split; [assumption|]. split; [|assumption].
  intros x. destruct (edge vs3 x k0) as [f|] eqn:Ef; [|reflexivity].
  destruct (remove_vertex_shrinks _ _ _ _ Er1) as ([Se _] & _ & _). apply Se in Ef. rewrite N0 in Ef. discriminate.
Qed.

Theorem eliminate_wf c k0 k1 c' :
  cpx_eliminate c k0 k1 = Some c' -> cpx_wf (c_verts c) -> cpx_wf (c_verts c').
Proof.
  intros El [Nd Ic Gr Sc].
  destruct (eliminate_in_complete _ _ _ _ El Ic) as (Ic' & D0 & D1).
  destruct (eliminate_scalar c k0 k1 c' Sc Ic El) as (a & ainv & Ea & Einv & _ & _ & Hsc).
  pose proof (eliminate_spec _ _ _ _ El) as (a2 & ainv2 & v0 & v1 & Ea2 & Einv2 & Ev0 & Ev1 & _ & _ & _ & _ & _ & Hk & Ht & Hed & Hval).
  (* an edge of c' joins two remaining vertices *)
  assert (Rem : forall l0 l1 f, edge (c_verts c') l0 l1 = Some f -> l0 <> k0 /\ l0 <> k1 /\ l1 <> k0 /\ l1 <> k1).
  { intros l0 l1 f Ef.
    assert (Nf : forall k, (k = k0 \/ k = k1) -> find_v (c_verts c') k = None).
    { intros k Hkk. specialize (Ht k). destruct Hkk as [-> | ->]; rewrite key_eqb_refl in Ht; rewrite ?orb_true_r in Ht;
        cbn [orb] in Ht; now destruct (find_v (c_verts c') _). }
    repeat split; intros ->.
    - unfold edge in Ef. rewrite (Nf k0) in Ef by now left. discriminate.
    - unfold edge in Ef. rewrite (Nf k1) in Ef by now right. discriminate.
    - rewrite D0 in Ef. discriminate.
    - rewrite D1 in Ef. discriminate. }
  constructor.
  - eapply eliminate_nodup; eassumption.
  - exact Ic'.
  - intros l0 l1 f Ef. destruct (Rem _ _ _ Ef) as (N00 & N01 & N10 & N11). rewrite Hed in Ef by assumption.
    destruct (key_mem l0 (elim_ins k0 v1) && key_mem l1 (elim_outs k1 v0)) eqn:Hm; [|eapply Gr; eassumption].
    destruct (Hval l0 l1 Hm) as [g Eg]. unfold elim_value in Eg.
    destruct (edge (c_verts c) l0 k1) as [b|] eqn:Eb; [|discriminate].
    destruct (edge (c_verts c) k0 l1) as [c0|] eqn:Ec; [|discriminate].
    apply Gr in Eb, Ec, Ea2. lia.
  - intros l0 l1 f Ef. destruct (Rem _ _ _ Ef) as (N00 & N01 & N10 & N11). exact (Hsc l0 l1 f N00 N01 N10 N11 Ef).
Qed.

Theorem eliminate_wf_dd c k0 k1 c' :
  cpx_eliminate c k0 k1 = Some c' -> cpx_wf (c_verts c) -> cpx_dd (c_verts c) ->
  cpx_wf (c_verts c') /\ cpx_dd (c_verts c').
Proof.
  intros El Wf Dd. split; [eapply eliminate_wf; eassumption|].
  destruct Wf as [Nd Ic Gr Sc].
  pose proof (eliminate_spec _ _ _ _ El) as (a & _ & _ & _ & Ea & _).
  intros x y Hx Hy.
  apply (eliminate_dd_scalar c k0 k1 c' Sc Ic Nd (graded_neq _ _ _ _ Gr Ea) (graded_no_loop _ _ Gr) (graded_no_loop _ _ Gr)
           El Dd x y Hx Hy).
Qed.

(* any sequence of eliminate steps *)
Fixpoint eliminate_all (c : cpx) (steps : list (tkey * tkey)) : option cpx :=
  match steps with
  | [] => Some c
  | (k0, k1) :: r => match cpx_eliminate c k0 k1 with None => None | Some c1 => eliminate_all c1 r end
  end.

Theorem eliminate_all_wf_dd steps : forall c c',
  eliminate_all c steps = Some c' -> cpx_wf (c_verts c) -> cpx_dd (c_verts c) ->
  cpx_wf (c_verts c') /\ cpx_dd (c_verts c').
Proof.
  induction steps as [|[k0 k1] r IH]; intros c c' E Wf Dd; cbn [eliminate_all] in E.
  - injection E as <-. now split.
  - destruct (cpx_eliminate c k0 k1) as [c1|] eqn:E1; [|discriminate].
    destruct (eliminate_wf_dd _ _ _ _ E1 Wf Dd) as [Wf1 Dd1]. eapply IH; eassumption.
Qed.

(* ---------- decidable form of the invariant (for concrete complexes) ---------- *)
Definition graded_b (vs : list vertex) : bool :=
  forallb (fun v => forallb (fun e : tkey * lccob => key_weight (fst e) =? S (key_weight (vkey v))) (vout v)) vs.
Lemma graded_b_sound vs : graded_b vs = true -> graded vs.
Proof.
  intros E k l f Ee. unfold edge in Ee. destruct (find_v vs k) as [u|] eqn:Eu; [|discriminate].
  destruct (find_v_some _ _ _ Eu) as [Hu Hk]. apply find_e_some in Ee.
  unfold graded_b in E. rewrite forallb_forall in E. specialize (E u Hu). rewrite forallb_forall in E.
  specialize (E (l, f) Ee). cbn [fst] in E. apply Nat.eqb_eq in E. now rewrite <- Hk.
Qed.
Lemma cpx_wf_check c :
  nodup_b (map vkey (c_verts c)) = true -> cpx_validate c = Some true -> graded_b (c_verts c) = true ->
  cpx_scalar_b (c_verts c) = true -> cpx_wf (c_verts c).
Proof.
  intros E1 E2 E3 E4. constructor.
  - now apply nodup_b_sound.
  - now apply validate_in_complete.
  - now apply graded_b_sound.
  - now apply cpx_scalar_b_sound.
Qed.
