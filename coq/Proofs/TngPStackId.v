(* Vertical composition, part 6: tools for the exact computation of Cob::stack on cylinders.
   * the `assert_eq!(b.len(), 1)` / `assert_eq!(t.len(), 1)` of Cob::stack never fire, on ALL inputs;
   * with an empty bottom pool the loop moves the top components to the result one by one;
   * soundness of take_stackable_comps for two predicates closed under links;
   * [stack_comps_compute]: the component stack_comps builds, from the data of the group;
   * cylinders: nbdr_comps, Euler number. *)
From Coq Require Import List Arith Bool Lia ZArith Permutation Sorted.
Import ListNotations.
Require Import Yui.Model.Link Yui.Model.Tng Yui.Model.TngCob Yui.Model.TngStack.
Require Import Yui.Proofs.TngPBase Yui.Proofs.TngPSegs Yui.Proofs.TngPDeg Yui.Proofs.TngPJoin Yui.Proofs.TngPStep
  Yui.Proofs.TngPSeq Yui.Proofs.TngPConn Yui.Proofs.TngPMain Yui.Proofs.TngPCob Yui.Proofs.TngPCobDeg
  Yui.Proofs.TngPStackBase Yui.Proofs.TngPStackBfs Yui.Proofs.TngPStackWf Yui.Proofs.TngPStackDeg
  Yui.Proofs.TngPStackAssoc.

(* ---------- empty pools ---------- *)
Lemma pull_nil : forall sel cs q, pull sel cs [] q = ([], q).
Proof. intros sel. induction cs as [|m r IH]; intros q; cbn [pull find_index]; auto. Qed.

Lemma take_stackable_bot_nil : forall t r, take_stackable [] (t :: r) = Some ([], r, [], [t]).
Proof. intros t r. cbn [take_stackable bfs is_nil andb drain app]. rewrite pull_nil. reflexivity. Qed.

Lemma stack_loop_bot_nil : forall fuel top acc, length top <= fuel -> stack_loop fuel [] top acc = Some (Some (acc ++ top)).
Proof.
  induction fuel as [|f IH]; intros top acc Hl.
  - destruct top; [|cbn in Hl; lia]. cbn. rewrite app_nil_r. reflexivity.
  - destruct top as [|t r]; [cbn; rewrite app_nil_r; reflexivity|].
    cbn [stack_loop is_nil andb]. rewrite take_stackable_bot_nil. cbn [is_nil].
    rewrite IH by (cbn in Hl; lia). rewrite <- app_assoc. reflexivity.
Qed.

(* ---------- the length asserts of Cob::stack never fire ---------- *)
Lemma drain_nil_q : forall other own pool qo res, drain other own [] pool qo res = (pool, qo, res).
Proof. reflexivity. Qed.

Lemma bfs_no_top : forall fuel bot top qb resb bot' top' gb,
  bfs fuel bot top qb [] resb [] = Some (bot', top', gb, []) -> gb = resb ++ qb.
Proof.
  intros [|f] bot top qb resb bot' top' gb; cbn [bfs].
  - destruct qb; cbn [is_nil andb]; [|discriminate]. intros E. inversion E. rewrite app_nil_r. reflexivity.
  - destruct qb as [|b qb]; cbn [is_nil andb]; [intros E; inversion E; rewrite app_nil_r; reflexivity|].
    destruct (drain csrc ctgt (b :: qb) top [] resb) as [[top1 qt1] resb1] eqn:E1.
    destruct (drain ctgt csrc qt1 bot [] []) as [[bot1 qb1] rest1] eqn:E2. intros E.
    destruct (drain_spec _ _ _ _ _ _ _ _ _ E1) as (p1 & -> & -> & Hp1 & _). cbn [app] in *.
    destruct (drain_spec _ _ _ _ _ _ _ _ _ E2) as (p2 & Eq & -> & Hp2 & _). cbn [app] in *. subst qb1.
    destruct (bfs_perm _ _ _ _ _ _ _ _ _ _ _ E) as (_ & _ & _ & (m2 & M2)). cbn [app] in M2.
    destruct p1; [|discriminate]. cbn [drain] in E2. inversion E2; subst.
    destruct f; cbn [bfs is_nil andb] in E; inversion E; reflexivity.
Qed.

Theorem take_stackable_no_top : forall bot top bot' top' gb, take_stackable bot top = Some (bot', top', gb, []) ->
  (bot = [] /\ top = [] /\ gb = []) \/ exists b r, bot = b :: r /\ gb = [b].
Proof.
  intros [|b bot] [|t top] bot' top' gb.
  - cbn [take_stackable]. intros E. inversion E. left. auto.
  - rewrite take_stackable_bot_nil. discriminate.
  - cbn [take_stackable]. intros E. right. exists b, bot. split; auto. apply bfs_no_top in E. exact E.
  - cbn [take_stackable]. intros E. right. exists b, bot. split; auto. apply bfs_no_top in E. exact E.
Qed.

Theorem take_stackable_no_bot : forall bot top bot' top' gt, take_stackable bot top = Some (bot', top', [], gt) ->
  bot = [] /\ (top = [] /\ gt = [] \/ exists t r, top = t :: r /\ gt = [t]).
Proof.
  intros bot top bot' top' gt E. destruct (take_stackable_perm _ _ _ _ _ _ E) as (_ & _ & _ & Hhd & _).
  destruct bot as [|b r]; [|destruct (Hhd b r eq_refl) as (more & Hm); discriminate]. split; auto.
  destruct top as [|t r]; [cbn in E; inversion E; auto|]. rewrite take_stackable_bot_nil in E. inversion E.
  right. exists t, r. subst. auto.
Qed.

(* Cob::stack panics only inside stack_comps *)
Theorem stack_loop_panics_in_stack_comps : forall fuel bot top acc, stack_loop fuel bot top acc = Some None ->
  exists gb gt, gb <> [] /\ gt <> [] /\ stack_comps gb gt = None.
Proof.
  induction fuel as [|f IH]; intros bot top acc; cbn [stack_loop].
  - destruct (is_nil bot && is_nil top); discriminate.
  - destruct (is_nil bot && is_nil top) eqn:En; [discriminate|].
    destruct (take_stackable bot top) as [[[[bot' top'] gb] gt]|] eqn:Et; [|discriminate].
    destruct (is_nil gt) eqn:Ngt.
    + destruct gt; [|discriminate]. destruct (take_stackable_no_top _ _ _ _ _ Et) as [(-> & -> & _)|(b & r & -> & ->)];
        [discriminate|]. apply IH.
    + destruct (is_nil gb) eqn:Ngb.
      * destruct gb; [|discriminate].
        destruct (take_stackable_no_bot _ _ _ _ _ Et) as (_ & [[_ ->]|(t & r & _ & ->)]); [discriminate|]. apply IH.
      * destruct (stack_comps gb gt) eqn:Ec; [apply IH|]. intros _. exists gb, gt.
        apply is_nil_false in Ngt, Ngb. auto.
Qed.

(* ---------- soundness at the level of take_stackable_comps ---------- *)
Theorem take_stackable_sound : forall (Pb Pt : cobcomp -> Prop) bot top bot' top' gb gt,
  take_stackable bot top = Some (bot', top', gb, gt) ->
  (forall b t m, Pb b -> In t top -> In m (ctgt b) -> hit csrc m t = true -> Pt t) ->
  (forall t b m, Pt t -> In b bot -> In m (csrc t) -> hit ctgt m b = true -> Pb b) ->
  (forall b r, bot = b :: r -> Pb b) -> (forall t r, bot = [] -> top = t :: r -> Pt t) ->
  Forall Pb gb /\ Forall Pt gt.
Proof.
  intros Pb Pt [|b bot] [|t top] bot' top' gb gt; cbn [take_stackable]; intros E L1 L2 Hb Ht.
  - inversion E; subst. split; constructor.
  - apply (bfs_sound Pb Pt _ _ _ _ _ _ _ _ _ _ _ E).
    + intros b t' m Hpb Hin. apply L1; auto. right. exact Hin.
    + intros t' b m _ [].
    + constructor.
    + constructor; [apply (Ht t top); reflexivity|constructor].
  - apply (bfs_sound Pb Pt _ _ _ _ _ _ _ _ _ _ _ E).
    + intros b' t' m _ [].
    + intros t' b' m Hpt Hin. apply L2; auto. right. exact Hin.
    + constructor; [apply (Hb b bot); reflexivity|constructor].
    + constructor.
  - apply (bfs_sound Pb Pt _ _ _ _ _ _ _ _ _ _ _ E).
    + intros b' t' m Hpb Hin. apply L1; auto.
    + intros t' b' m Hpt Hin. apply L2; auto. right. exact Hin.
    + constructor; [apply (Hb b bot); reflexivity|constructor].
    + constructor.
Qed.

(* ---------- the component built by stack_comps ---------- *)
Lemma stack_comps_compute : forall gb gt x0 x1 s t nb g,
  gb <> [] -> gt <> [] -> euls gb = Some x0 -> euls gt = Some x1 ->
  tng_fold_connect (map csrc gb) = Some s -> tng_fold_connect (map ctgt gt) = Some t ->
  (forall dx dy, cc_nbdr (mkCC s t 0 dx dy) = Some nb) ->
  (2 - (x0 + x1 + Z.of_nat nb) + Z.of_nat (arcs_of ctgt gb) = 2 * Z.of_nat g)%Z ->
  stack_comps gb gt = Some (mkCC s t g (sum_nat (map cdx gb) + sum_nat (map cdx gt)) (sum_nat (map cdy gb) + sum_nat (map cdy gt))).
Proof.
  intros gb gt x0 x1 s t nb g Nb Nt E0 E1 Es Et En Eg. unfold stack_comps.
  apply is_nil_false in Nb, Nt. rewrite Nb, Nt. cbn [orb]. unfold euls in E0, E1. rewrite E0, E1, Es, Et, En.
  fold (arcs_of ctgt gb). rewrite Eg.
  assert ((2 * Z.of_nat g <? 0)%Z = false) as -> by (apply Z.ltb_ge; lia).
  assert (Z.even (2 * Z.of_nat g) = true) as -> by (rewrite Z.even_mul; reflexivity). cbn [negb].
  f_equal. f_equal. rewrite Z.mul_comm, Z.div_mul by lia. apply Nat2Z.id.
Qed.

(* ---------- lists of components with non-empty disjoint tangles have no repetition ---------- *)
Lemma inv_nodup_paths : forall t, tng_inv t -> NoDup t.
Proof.
  induction t as [|c r IH]; intros Hi; [constructor|]. apply inv_cons in Hi. destruct Hi as (Sc & Ir & Hd).
  constructor; [|apply IH; exact Ir]. intros Hc. pose proof (simple_ne c Sc) as Hne.
  destruct (pedges c) as [|v l] eqn:E; [contradiction|]. apply (Hd v); [left; reflexivity|].
  apply in_verts. exists c. split; auto. rewrite E. left. reflexivity.
Qed.

Lemma flat_twice : forall sel (l1 l2 : list cobcomp) x, tng_inv (flat sel (l1 ++ l2)) -> In x l1 -> In x l2 -> sel x = [].
Proof.
  intros sel l1 l2 x Hi H1 H2. rewrite flat_app in Hi. apply inv_app in Hi. destruct Hi as (I1 & _ & Hd).
  destruct (sel x) as [|m r] eqn:E; [reflexivity|exfalso].
  assert (Hm1 : In m (flat sel l1)) by (eapply flat_in; [exact H1|rewrite E; left; reflexivity]).
  assert (Hm2 : In m (flat sel l2)) by (eapply flat_in; [exact H2|rewrite E; left; reflexivity]).
  pose proof (simple_ne m (inv_simple_in _ _ I1 Hm1)) as Hne. destruct (pedges m) as [|v l] eqn:Ev; [contradiction|].
  apply (Hd v); apply in_verts; exists m; (split; [assumption|rewrite Ev; left; reflexivity]).
Qed.

Lemma flat_nodup : forall sel (l : list cobcomp), tng_inv (flat sel l) -> (forall x, In x l -> sel x <> []) -> NoDup l.
Proof.
  intros sel. induction l as [|x r IH]; intros Hi Hne; [constructor|]. constructor.
  - intros Hx. apply (Hne x (or_introl eq_refl)). apply (flat_twice sel [x] r x); auto. left. reflexivity.
  - apply IH; [|intros y Hy; apply Hne; right; exact Hy]. unfold flat in *. cbn [flat_map] in Hi. apply inv_app in Hi. tauto.
Qed.

(* all components of a group are one given component: at most one of them *)
Lemma all_equal_one : forall sel (g : list cobcomp) x, tng_inv (flat sel g) -> Forall (eq x) g -> sel x <> [] -> In x g -> g = [x].
Proof.
  intros sel g x Hi Hf Hne Hin. rewrite Forall_forall in Hf.
  destruct g as [|y [|z r]]; [contradiction| |].
  - rewrite (Hf y (or_introl eq_refl)). reflexivity.
  - exfalso. apply Hne. apply (flat_twice sel [y] (z :: r) x); auto.
    + rewrite (Hf y); left; reflexivity.
    + rewrite (Hf z (or_intror (or_introl eq_refl))). left. reflexivity.
Qed.

(* ---------- cylinders ---------- *)
Definition cyl (p q : path) : cobcomp := mkCC [p] [q] 0 0 0.

Lemma cyl_nbdr : forall p q g dx dy, pclosed p = pclosed q -> (pclosed p = false -> p_connectable q p = true) ->
  cc_nbdr (mkCC [p] [q] g dx dy) = Some (if pclosed p then 2 else 1).
Proof.
  intros p q g dx dy Hc Hcon. unfold cc_nbdr, nbdr_fuel, arc_indices. cbn [csrc ctgt length seq filter nth].
  unfold p_is_arc. rewrite <- Hc. destruct (pclosed p) eqn:Hp; cbn [negb length Nat.eqb].
  - reflexivity.
  - cbn [nb_outer nb_walk length remove_idx filter find nth csrc ctgt Nat.eqb negb]. rewrite (Hcon eq_refl).
    cbn [find remove_idx filter Nat.eqb negb nb_outer]. reflexivity.
Qed.

Lemma simple_arc_self_connectable : forall m, simple m -> pclosed m = false -> p_connectable m m = true.
Proof. intros m Sm Hc. apply (shares_end_connectable m m (hd 0 (pedges m))); auto; left; reflexivity. Qed.

Lemma id_euler : forall m, simple m -> cc_euler (cc_id m) = Some (Z.of_nat (tng_euler_num [m])).
Proof.
  intros m Sm. unfold cc_euler, cc_id, cc_plain.
  rewrite (cyl_nbdr m m 0 0 0 eq_refl (simple_arc_self_connectable m Sm)).
  unfold tng_euler_num, p_is_arc. cbn [cgenus filter]. destruct (pclosed m); reflexivity.
Qed.

(* a list of identity cylinders *)
Definition ids_of (l : list path) : list cobcomp := map cc_id l.

Lemma flat_src_ids : forall l, flat csrc (ids_of l) = l.
Proof. induction l as [|m r IH]; [reflexivity|]. unfold flat, ids_of in *. cbn. rewrite IH. reflexivity. Qed.
Lemma flat_tgt_ids : forall l, flat ctgt (ids_of l) = l.
Proof. induction l as [|m r IH]; [reflexivity|]. unfold flat, ids_of in *. cbn. rewrite IH. reflexivity. Qed.

Lemma ids_data : forall l, Forall simple l ->
  euls (ids_of l) = Some (Z.of_nat (tng_euler_num l)) /\ arcs_of ctgt (ids_of l) = tng_euler_num l /\
  sum_nat (map cdx (ids_of l)) = 0 /\ sum_nat (map cdy (ids_of l)) = 0.
Proof.
  induction l as [|m r IH]; intros Hs; [repeat split; reflexivity|].
  inversion Hs as [|? ? Sm Sr]; subst. destruct (IH Sr) as (E & A & X & Y).
  assert (En : tng_euler_num (m :: r) = tng_euler_num [m] + tng_euler_num r) by (apply (euler_num_app [m] r)).
  repeat split.
  - unfold euls, ids_of in *. cbn [map sum_opt]. rewrite (id_euler m Sm), E, En. f_equal. lia.
  - unfold arcs_of, ids_of in *. cbn [map sum_nat fold_right ctgt cc_id cc_plain]. fold (sum_nat (map (fun c => tng_euler_num (ctgt c)) (map cc_id r))).
    rewrite A, En. reflexivity.
  - unfold ids_of in *. cbn [map sum_nat fold_right cdx cc_id cc_plain]. exact X.
  - unfold ids_of in *. cbn [map sum_nat fold_right cdy cc_id cc_plain]. exact Y.
Qed.

Lemma perm_ids_data : forall g l, Permutation g (ids_of l) -> Forall simple l ->
  euls g = Some (Z.of_nat (tng_euler_num l)) /\ arcs_of ctgt g = tng_euler_num l /\
  sum_nat (map cdx g) = 0 /\ sum_nat (map cdy g) = 0 /\ Permutation (flat csrc g) l /\ Permutation (flat ctgt g) l.
Proof.
  intros g l Hp Hs. destruct (ids_data l Hs) as (E & A & X & Y).
  split; [rewrite (euls_perm _ _ Hp); exact E|]. split; [rewrite (arcs_of_perm _ _ _ Hp); exact A|].
  split; [rewrite (sum_nat_perm _ _ (Permutation_map cdx Hp)); exact X|].
  split; [rewrite (sum_nat_perm _ _ (Permutation_map cdy Hp)); exact Y|].
  split; [rewrite <- (flat_src_ids l); apply flat_perm; exact Hp|rewrite <- (flat_tgt_ids l); apply flat_perm; exact Hp].
Qed.
