(* Braid::inv / product (Model/BraidOps.v): inverse laws at word level, and their effect on the observables
   of the closure that C18 speaks about: the braid permutation of w * w^-1 is the identity, the exponent sum
   of the inverse is the negative, the word length is preserved. *)
From Coq Require Import List Arith ZArith Bool Lia.
Require Import Yui.Model.Braid Yui.Model.BraidOps Yui.Proofs.C18BraidRows Yui.Proofs.C18BraidPerm.
Import ListNotations.

Lemma braid_inv_involutive : forall w, braid_inv (braid_inv w) = w.
Proof.
  intros w. unfold braid_inv. rewrite <- map_rev, rev_involutive, map_map.
  rewrite <- (map_id w) at 2. apply map_ext. intros a. unfold gen_inv. lia.
Qed.

Lemma braid_inv_app : forall u v, braid_inv (u ++ v) = braid_inv v ++ braid_inv u.
Proof. intros u v. unfold braid_inv. rewrite rev_app_distr, map_app. reflexivity. Qed.

Lemma braid_inv_length : forall w, length (braid_inv w) = length w.
Proof. intros w. unfold braid_inv. rewrite map_length, rev_length. reflexivity. Qed.

Lemma braid_inv_nil : braid_inv [] = [].
Proof. reflexivity. Qed.

Lemma braid_inv_single : forall s, braid_inv [s] = [(- s)%Z].
Proof. reflexivity. Qed.

Lemma braid_inv_nonzero : forall w, Forall (fun s => s <> 0%Z) w -> Forall (fun s => s <> 0%Z) (braid_inv w).
Proof.
  intros w H. unfold braid_inv. apply Forall_forall. intros x Hx.
  apply in_map_iff in Hx. destruct Hx as [y [Hy Hin]]. apply in_rev in Hin.
  rewrite Forall_forall in H. specialize (H y Hin). unfold gen_inv in Hy. lia.
Qed.

Lemma fold_sgn_shift : forall w a, fold_left (fun a s => (a + Z.sgn s)%Z) w a = (a + fold_left (fun a s => (a + Z.sgn s)%Z) w 0)%Z.
Proof.
  induction w as [|s w IH]; intros a; cbn [fold_left].
  - lia.
  - rewrite IH. rewrite (IH (0 + Z.sgn s)%Z). lia.
Qed.

Lemma exponent_sum_app : forall u v, exponent_sum (u ++ v) = (exponent_sum u + exponent_sum v)%Z.
Proof. intros u v. unfold exponent_sum. rewrite fold_left_app. apply fold_sgn_shift. Qed.

Lemma exponent_sum_inv : forall w, exponent_sum (braid_inv w) = (- exponent_sum w)%Z.
Proof.
  induction w as [|s w IH].
  - reflexivity.
  - change (s :: w) with ([s] ++ w). rewrite braid_inv_app, !exponent_sum_app, IH.
    unfold exponent_sum, braid_inv, gen_inv. cbn [rev app map fold_left]. rewrite Z.sgn_opp. lia.
Qed.

(* one letter and its inverse act by the same transposition *)
Lemma pstep_opp : forall p s, pstep p (- s)%Z = pstep p s.
Proof. intros p s. unfold pstep, idx. rewrite Zabs2Nat.abs_nat_spec, Z.abs_opp, <- Zabs2Nat.abs_nat_spec. reflexivity. Qed.

(* a transposition applied twice is the identity (on lists long enough to hold both positions) *)
Lemma pstep_pstep : forall p s, S (idx s) < length p -> pstep (pstep p s) s = p.
Proof.
  intros p s Hi. apply nth_ext with (d := 0) (d' := 0).
  - rewrite !pstep_length. reflexivity.
  - intros j _. rewrite nth_pstep by (rewrite pstep_length; exact Hi).
    destruct (Nat.eqb_spec j (idx s)) as [->|N1].
    + rewrite nth_pstep by exact Hi.
      assert (S (idx s) =? idx s = false) as -> by (apply Nat.eqb_neq; lia).
      rewrite Nat.eqb_refl. reflexivity.
    + destruct (Nat.eqb_spec j (S (idx s))) as [->|N2].
      * rewrite nth_pstep by exact Hi. rewrite Nat.eqb_refl. reflexivity.
      * rewrite nth_pstep by exact Hi.
        assert (j =? idx s = false) as -> by (apply Nat.eqb_neq; exact N1).
        assert (j =? S (idx s) = false) as -> by (apply Nat.eqb_neq; exact N2). reflexivity.
Qed.

Lemma fold_pstep_length : forall w p, length (fold_left pstep w p) = length p.
Proof. induction w as [|s w IH]; intros p; cbn [fold_left]; [reflexivity|]. rewrite IH, pstep_length. reflexivity. Qed.

(* w followed by its inverse acts trivially on every arrangement that is long enough *)
Lemma fold_pstep_inv : forall w p, Forall (fun s => S (idx s) < length p) w ->
  fold_left pstep (w ++ braid_inv w) p = p.
Proof.
  induction w as [|s w IH]; intros p Hw.
  - reflexivity.
  - inversion Hw as [|? ? Hs Hw']; subst.
    assert (E : (s :: w) ++ braid_inv (s :: w) = s :: ((w ++ braid_inv w) ++ [(- s)%Z])).
    { change (s :: w) with ([s] ++ w) at 2. rewrite braid_inv_app, braid_inv_single.
      cbn [app]. rewrite app_assoc. reflexivity. }
    rewrite E. cbn [fold_left]. rewrite fold_left_app. rewrite IH.
    + cbn [fold_left]. rewrite pstep_opp. apply pstep_pstep. exact Hs.
    + rewrite pstep_length. exact Hw'.
Qed.

Theorem braid_perm_mul_inv : forall n w, Forall (fun s => S (idx s) < n) w ->
  braid_perm n (w ++ braid_inv w) = seq 0 n.
Proof.
  intros n w Hw. unfold braid_perm. rewrite braid_perm_loop_fold. apply fold_pstep_inv.
  rewrite seq_length. exact Hw.
Qed.

Theorem braid_perm_inv_mul : forall n w, Forall (fun s => S (idx s) < n) w ->
  braid_perm n (braid_inv w ++ w) = seq 0 n.
Proof.
  intros n w Hw. rewrite <- (braid_inv_involutive w) at 2. apply braid_perm_mul_inv.
  unfold braid_inv. apply Forall_forall. intros x Hx. apply in_map_iff in Hx.
  destruct Hx as [y [Hy Hin]]. apply in_rev in Hin. rewrite Forall_forall in Hw. specialize (Hw y Hin).
  subst x. unfold gen_inv, idx in *. rewrite Zabs2Nat.abs_nat_spec, Z.abs_opp, <- Zabs2Nat.abs_nat_spec. exact Hw.
Qed.

Lemma braid_mul_spec : forall s1 w1 s2 w2,
  braid_mul s1 w1 s2 w2 = (if (s1 =? s2)%nat then Some (s1, w1 ++ w2) else None).
Proof. reflexivity. Qed.
