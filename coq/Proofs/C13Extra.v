(* C13, remaining pieces: util::perm_for_indices, SpVec::to_dense / stack_vecs, the transform theorem in
   the form "for every history", and ring instances with laws (Z is Base.Ring.Z_ring; here the canonical
   rationals Qc and the residues Z/p as a sigma type) showing that the hypotheses [ring_laws o] of the
   C13 theorems are satisfied by the rings named in the property (non-vacuity of the quantifier). *)
From Coq Require Import Arith List Lia Bool Ring Sorted ZArith QArith Qcanon Eqdep_dec.
Require Import Yui.Base.Ring Yui.Base.MatF Yui.Base.MatL Yui.Model.Dense Yui.Model.Sparse Yui.Model.Trans.
Require Import Yui.Proofs.C13Dense Yui.Proofs.C13SpBase Yui.Proofs.C13Sparse Yui.Proofs.C13SpArith
               Yui.Proofs.C13SpVec Yui.Proofs.C13Trans.
Import ListNotations.
Close Scope Q_scope.
Close Scope Z_scope.
Open Scope nat_scope.

(* ---------- lists: upd, folds over enumerate ---------- *)
Lemma upd_length {A} (l : list A) k x : length (upd l k x) = length l.
Proof. revert k. induction l as [|y r IH]; intros [|k]; cbn [upd length]; try reflexivity. now rewrite IH. Qed.

Lemma nth_upd_same {A} (l : list A) k x d : k < length l -> nth k (upd l k x) d = x.
Proof.
  revert k. induction l as [|y r IH]; intros [|k] H; cbn [upd nth length] in *; try lia; try reflexivity.
  apply IH. lia.
Qed.

Lemma nth_upd_other {A} (l : list A) k x d i : i <> k -> nth i (upd l k x) d = nth i l d.
Proof.
  revert k i. induction l as [|y r IH]; intros [|k] [|i] H; cbn [upd nth]; try reflexivity; try lia.
  apply IH. lia.
Qed.

Lemma fold_left_map {A B C} (f : A -> B -> A) (g : C -> B) (l : list C) (a : A) :
  fold_left f (map g l) a = fold_left (fun a x => f a (g x)) l a.
Proof. revert a. induction l as [|x r IH]; intros a; cbn [map fold_left]; [reflexivity|]. apply IH. Qed.

(* ---------- util::perm_for_indices ---------- *)
Section PermForIndices.
  Local Notation is_perm := C13Sparse.is_perm.
  Local Notation pat := C13Sparse.pat.

  (* the inverse table: inv[vec[i]] = i, later positions win *)
  Definition inv_upto (vec : list nat) (n L : nat) : list nat :=
    fold_left (fun inv k => upd inv (nth k vec 0) k) (seq 0 L) (repeat 0 n).

  Lemma inv_upto_S vec n L : inv_upto vec n (S L) = upd (inv_upto vec n L) (nth L vec 0) L.
  Proof. unfold inv_upto. now rewrite seq_S, fold_left_app. Qed.

  Lemma inv_upto_length vec n L : length (inv_upto vec n L) = n.
  Proof.
    induction L as [|L IH]; [unfold inv_upto; cbn; apply repeat_length|].
    now rewrite inv_upto_S, upd_length.
  Qed.

  Lemma inv_fold vec n :
    fold_left (fun inv ij => upd inv (snd ij) (fst ij)) (enumerate vec) (repeat 0 n) = inv_upto vec n (length vec).
  Proof.
    rewrite (enumerate_map nat 0 vec). unfold inv_upto. now rewrite fold_left_map.
  Qed.

  Lemma inv_upto_inverse vec n L : NoDup vec -> (forall x, In x vec -> x < n) -> L <= length vec ->
    forall i, i < L -> nth (nth i vec 0) (inv_upto vec n L) 0 = i.
  Proof.
    intros ND B. induction L as [|L IH]; intros HL i Hi; [lia|].
    rewrite inv_upto_S. destruct (Nat.eq_dec i L) as [->|Hne].
    - apply nth_upd_same. rewrite inv_upto_length. apply B, nth_In. lia.
    - rewrite nth_upd_other; [apply IH; lia|].
      intros E. apply Hne. apply (proj1 (NoDup_nth vec 0) ND); lia.
  Qed.

  Definition pfi_rest (n : nat) (idx : list nat) : list nat :=
    filter (fun i => negb (existsb (Nat.eqb i) idx)) (seq 0 n).
  Definition pfi_vec (n : nat) (idx : list nat) : list nat := idx ++ pfi_rest n idx.

  Lemma existsb_eqb_in x l : existsb (Nat.eqb x) l = true <-> In x l.
  Proof.
    rewrite existsb_exists. split.
    - intros [y [Hy E]]. apply Nat.eqb_eq in E. now subst.
    - intros H. exists x. split; [exact H|apply Nat.eqb_refl].
  Qed.

  Lemma pfi_rest_in n idx x : In x (pfi_rest n idx) <-> x < n /\ ~ In x idx.
  Proof.
    unfold pfi_rest. rewrite filter_In, in_seq, negb_true_iff. split; intros [H1 H2]; (split; [lia|]).
    - intros Hin. apply existsb_eqb_in in Hin. congruence.
    - destruct (existsb (Nat.eqb x) idx) eqn:E; [|reflexivity]. apply existsb_eqb_in in E. contradiction.
  Qed.

  Lemma pfi_vec_covers n idx x : x < n -> In x (pfi_vec n idx).
  Proof.
    intros H. unfold pfi_vec. apply in_app_iff. destruct (in_dec Nat.eq_dec x idx) as [Hin|Hin]; [now left|right].
    now apply pfi_rest_in.
  Qed.

  Lemma pfi_vec_bound n idx x : (forall y, In y idx -> y < n) -> In x (pfi_vec n idx) -> x < n.
  Proof.
    intros B H. unfold pfi_vec in H. apply in_app_iff in H. destruct H as [H|H]; [now apply B|].
    now apply pfi_rest_in in H.
  Qed.

  Lemma pfi_rest_sorted n idx : StronglySorted lt (pfi_rest n idx).
  Proof.
    unfold pfi_rest. generalize 0. induction n as [|n IH]; intros s; cbn [seq filter]; [constructor|].
    destruct (negb (existsb (Nat.eqb s) idx)); [|apply IH].
    constructor; [apply IH|]. apply Forall_forall. intros y Hy. apply filter_In in Hy. destruct Hy as [Hy _].
    apply in_seq in Hy. lia.
  Qed.

  Lemma sorted_lt_nodup l : StronglySorted lt l -> NoDup l.
  Proof.
    induction 1 as [|x r S IH F]; constructor; [|exact IH].
    intros Hin. rewrite Forall_forall in F. specialize (F x Hin). lia.
  Qed.

  Lemma nodup_app (l1 l2 : list nat) :
    NoDup l1 -> NoDup l2 -> (forall x, In x l1 -> In x l2 -> False) -> NoDup (l1 ++ l2).
  Proof.
    induction l1 as [|x r IH]; intros N1 N2 D; cbn [app]; [exact N2|].
    inversion N1 as [|? ? Hx Hr]; subst. constructor.
    - intros Hin. apply in_app_iff in Hin. destruct Hin as [Hin|Hin]; [contradiction|].
      apply (D x); [now left|exact Hin].
    - apply IH; try assumption. intros y Hy. apply D. now right.
  Qed.

  Lemma nodup_app_l (l1 l2 : list nat) : NoDup (l1 ++ l2) -> NoDup l1.
  Proof.
    induction l1 as [|x r IH]; intros N; [constructor|]. cbn [app] in N. inversion N as [|? ? Hx Hr]; subst.
    constructor; [|now apply IH]. intros Hin. apply Hx, in_app_iff. now left.
  Qed.

  Lemma pfi_vec_nodup n idx : NoDup idx -> NoDup (pfi_vec n idx).
  Proof.
    intros ND. unfold pfi_vec. apply nodup_app; try assumption.
    - apply sorted_lt_nodup, pfi_rest_sorted.
    - intros x Hx Hr. apply pfi_rest_in in Hr. now destruct Hr.
  Qed.

  Lemma pfi_vec_length n idx : NoDup idx -> (forall y, In y idx -> y < n) -> length (pfi_vec n idx) = n.
  Proof.
    intros ND B. apply Nat.le_antisymm.
    - assert (H : length (pfi_vec n idx) <= length (seq 0 n)); [|now rewrite seq_length in H].
      apply NoDup_incl_length; [now apply pfi_vec_nodup|].
      intros x Hx. apply in_seq. pose proof (pfi_vec_bound n idx x B Hx). lia.
    - assert (H : length (seq 0 n) <= length (pfi_vec n idx)); [|now rewrite seq_length in H].
      apply NoDup_incl_length; [apply seq_NoDup|].
      intros x Hx. apply in_seq in Hx. apply pfi_vec_covers. lia.
  Qed.

  (* with a repeated index the list idx ++ rest is longer than n *)
  Lemma pfi_vec_long n idx : ~ NoDup idx -> n < length (pfi_vec n idx).
  Proof.
    intros ND. destruct (Nat.ltb_spec n (length (pfi_vec n idx))) as [H|H]; [exact H|exfalso].
    apply ND. apply (nodup_app_l idx (pfi_rest n idx)). fold (pfi_vec n idx).
    apply (@NoDup_incl_NoDup nat (seq 0 n)); [apply seq_NoDup|now rewrite seq_length|].
    intros x Hx. apply in_seq in Hx. apply pfi_vec_covers. lia.
  Qed.

  Lemma nodup_dec (l : list nat) : {NoDup l} + {~ NoDup l}.
  Proof.
    induction l as [|x r IH]; [left; constructor|].
    destruct (in_dec Nat.eq_dec x r) as [Hin|Hin].
    - right. intros N. inversion N. contradiction.
    - destruct IH as [N|N]; [left; now constructor|right]. intros N'. inversion N'. contradiction.
  Qed.

  (* perm_for_indices(n, idx) succeeds exactly when the indices are in range and pairwise distinct; the
     result p is the permutation of 0..n-1 that sends idx[k] to k and the remaining elements, in
     increasing order, to the positions length idx, .., n-1 *)
  Theorem perm_for_indices_spec n idx :
    match perm_for_indices n idx with
    | Some p =>
        (NoDup idx /\ forall x, In x idx -> x < n) /\
        is_perm p /\ length p = n /\
        (forall k, k < n -> pat p (nth k (idx ++ pfi_rest n idx) 0) = k) /\
        (forall k, k < length idx -> pat p (nth k idx 0) = k) /\
        StronglySorted lt (pfi_rest n idx) /\
        (forall x, In x (pfi_rest n idx) <-> x < n /\ ~ In x idx)
    | None => ~ (NoDup idx /\ forall x, In x idx -> x < n)
    end.
  Proof.
    unfold perm_for_indices. destruct (forallb (fun i => i <? n) idx) eqn:Eb.
    - rewrite forallb_forall in Eb.
      assert (B : forall x, In x idx -> x < n) by (intros x Hx; now apply Nat.ltb_lt, Eb).
      fold (pfi_rest n idx). fold (pfi_vec n idx). rewrite inv_fold.
      set (vec := pfi_vec n idx). set (inv := inv_upto vec n (length vec)).
      assert (Bv : forall x, In x vec -> x < n) by (intros x Hx; now apply (pfi_vec_bound n idx x B)).
      destruct (nodup_dec idx) as [ND|ND].
      + (* valid input: inv is the inverse of vec *)
        assert (Lv : length vec = n) by now apply pfi_vec_length.
        assert (NDv : NoDup vec) by now apply pfi_vec_nodup.
        assert (Inv : forall i, i < n -> nth (nth i vec 0) inv 0 = i).
        { intros i Hi. apply inv_upto_inverse; try assumption; lia. }
        assert (Li : length inv = n) by apply inv_upto_length.
        assert (P : is_perm inv).
        { split.
          - apply (proj2 (NoDup_nth inv 0)). rewrite Li. intros j j' Hj Hj' E.
            destruct (In_nth vec j 0 (pfi_vec_covers n idx j Hj)) as [i [Hi Ei]].
            destruct (In_nth vec j' 0 (pfi_vec_covers n idx j' Hj')) as [i' [Hi' Ei']].
            rewrite <- Ei, <- Ei' in E. rewrite !Inv in E by lia. rewrite <- Ei, <- Ei'. now rewrite E.
          - intros x Hx. rewrite Li. destruct (In_nth inv x 0 Hx) as [j [Hj Ej]]. rewrite Li in Hj.
            destruct (In_nth vec j 0 (pfi_vec_covers n idx j Hj)) as [i [Hi Ei]].
            rewrite <- Ei, Inv in Ej by lia. lia. }
        pose proof (perm_new_spec inv) as S. destruct (perm_new inv) as [p|]; [|contradiction].
        destruct S as [-> _]. split; [now split|]. split; [exact P|]. split; [exact Li|].
        split; [exact Inv|]. split.
        * intros k Hk. unfold C13Sparse.pat.
          assert (Hkn : k < n).
          { unfold vec, pfi_vec in Lv. rewrite app_length in Lv. lia. }
          rewrite <- (Inv k Hkn) at 2. unfold vec, pfi_vec. now rewrite app_nth1.
        * split; [apply pfi_rest_sorted|apply pfi_rest_in].
      + (* a repeated index: the last position of vec is >= n and ends up in inv *)
        pose proof (pfi_vec_long n idx ND) as Long. fold vec in Long.
        pose proof (perm_new_spec inv) as S. destruct (perm_new inv) as [p|]; [|tauto].
        exfalso. destruct S as [_ [_ Rng]].
        assert (Li : length inv = n) by apply inv_upto_length.
        set (L := length vec - 1).
        assert (E : nth (nth L vec 0) inv 0 = L).
        { unfold inv. replace (length vec) with (S L) by (unfold L; lia). rewrite inv_upto_S.
          apply nth_upd_same. rewrite inv_upto_length. apply Bv, nth_In. unfold L. lia. }
        assert (Hin : In L inv).
        { rewrite <- E. apply nth_In. rewrite Li. apply Bv, nth_In. unfold L. lia. }
        specialize (Rng L Hin). rewrite Li in Rng. unfold L in Rng. lia.
    - intros [_ B]. assert (forallb (fun i => i <? n) idx = true); [|congruence].
      apply forallb_forall. intros x Hx. now apply Nat.ltb_lt, B.
  Qed.
End PermForIndices.

(* ---------- SpVec::to_dense and SpVec::stack_vecs ---------- *)
Section VecExtra.
  Context {R : Type} (o : ring_ops R) (L : ring_laws o).

  Local Notation "0" := (rzero o).
  Local Infix "+" := (radd o).
  Local Notation ent := (ent R).
  Local Notation spmat := (spmat R).
  Local Notation psum := (psum o).
  Local Notation gsum := (gsum o).
  Local Notation sp_wf := (@sp_wf R).
  Local Notation klt := (@klt R).
  Local Notation sv_is := (sv_is o).

  Add Ring Rring : (ring_theory_of_laws o L).

  Lemma sorted_snoc (l : list ent) e :
    StronglySorted klt (l ++ [e]) -> StronglySorted klt l /\ forall x, In x l -> klt x e.
  Proof.
    induction l as [|y r IH]; cbn [app]; intros S; [split; [constructor|intros x []]|].
    apply StronglySorted_inv in S. destruct S as [S F]. destruct (IH S) as [S' K]. split.
    - constructor; [exact S'|]. rewrite Forall_forall in *. intros x Hx. apply F, in_app_iff. now left.
    - intros x [<-|Hx]; [|now apply K]. rewrite Forall_forall in F. apply F, in_app_iff. right. now left.
  Qed.

  (* writing the entries of a strictly sorted one-column list into a zero vector *)
  Lemma to_dense_fold (l : list ent) m :
    StronglySorted klt l -> (forall e, In e l -> (e_row e < m)%nat /\ e_col e = 0%nat) ->
    let res := fold_left (fun res e => upd res (e_row e) (e_val e)) l (repeat 0 m) in
    length res = m /\ forall i, (i < m)%nat -> nth i res 0 = gsum (fun e => e_row e =? i) l.
  Proof.
    induction l as [|e l IH] using rev_ind; intros S B; cbn zeta.
    - cbn [fold_left C13SpBase.gsum]. split; [apply repeat_length|]. intros i _. apply nth_repeat.
    - rewrite fold_left_app. cbn [fold_left]. destruct (sorted_snoc l e S) as [S' K].
      destruct (IH S') as [Len Nth]; [intros x Hx; apply B, in_app_iff; now left|].
      destruct (B e) as [He Hc]; [apply in_app_iff; right; now left|].
      split; [now rewrite upd_length|]. intros i Hi.
      rewrite (gsum_app o L). cbn [C13SpBase.gsum].
      destruct (Nat.eqb_spec (e_row e) i) as [E|E].
      + subst i. rewrite nth_upd_same by lia. rewrite (gsum_false o (fun x => e_row x =? e_row e) l); [ring|].
        intros x Hx. specialize (K x Hx). unfold C13SpBase.klt in K. apply key_lt_spec in K.
        destruct (B x) as [_ Hcx]; [apply in_app_iff; now left|]. apply Nat.eqb_neq. lia.
      + rewrite nth_upd_other by congruence. rewrite Nth by exact Hi. ring.
  Qed.

  (* to_dense / into_vec / Vec::from: the list of the entries 0 .. dim-1 *)
  Theorem sv_to_dense_spec v : vec_wf v ->
    length (sv_to_dense o v) = sv_dim v /\
    forall i, (i < sv_dim v)%nat -> nth i (sv_to_dense o v) 0 = ventry o v i.
  Proof.
    intros V. pose proof V as [W N]. pose proof (proj1 (sp_wf_iff v) W) as [Bd S].
    unfold sv_to_dense, sv_dim.
    destruct (to_dense_fold (nz o (sp_st v)) (sp_m v)) as [Len Nth].
    - unfold nz. now apply sorted_filter.
    - intros e He. apply nz_in in He; [|exact L]. destruct He as [He _]. split.
      + now apply (vec_rows v e V).
      + now apply (sv_col0 v e W N).
    - split; [exact Len|]. intros i Hi. rewrite Nth by exact Hi.
      now rewrite (gsum_nz o L), (ventry_gsum o v i V).
  Qed.

  Corollary sv_to_dense_eq v : vec_wf v -> sv_to_dense o v = map (ventry o v) (seq 0 (sv_dim v)).
  Proof.
    intros V. destruct (sv_to_dense_spec v V) as [Len Nth].
    apply (nth_ext _ _ 0 0); [now rewrite map_length, seq_length|].
    intros i Hi. rewrite Len in Hi. rewrite Nth by exact Hi.
    rewrite (nth_indep _ 0 (ventry o v 0)) by (now rewrite map_length, seq_length).
    rewrite (map_nth (ventry o v)). now rewrite seq_nth.
  Qed.

  (* the stacked vector of a list of vectors *)
  Fixpoint stackf (vs : list spmat) (i : nat) : R :=
    match vs with
    | [] => 0
    | v :: r => if i <? sp_m v then ventry o v i else stackf r (i - sp_m v)
    end.
  Definition total_dim (vs : list spmat) : nat := fold_right (fun v acc => (sp_m v + acc)%nat) 0%nat vs.

  Lemma stack_fold vs : (forall v, In v vs -> vec_wf v) -> forall d0 (st0 : list ent),
    StronglySorted klt st0 -> (forall e, In e st0 -> (e_row e < d0)%nat /\ e_col e = 0%nat) ->
    let acc := fold_left (fun acc v => ((fst acc + sp_m v)%nat, snd acc ++ shift (fst acc) 0 (sp_st v))) vs (d0, st0) in
    fst acc = (d0 + total_dim vs)%nat /\ StronglySorted klt (snd acc) /\
    (forall e, In e (snd acc) -> (e_row e < fst acc)%nat /\ e_col e = 0%nat) /\
    length (snd acc) = (length st0 + fold_right (fun v a => (sp_nnz v + a)%nat) 0%nat vs)%nat /\
    forall i, psum (fun i' j' => key_eq i' j' i 0) (snd acc)
              = psum (fun i' j' => key_eq i' j' i 0) st0 + (if d0 <=? i then stackf vs (i - d0) else 0).
  Proof.
    induction vs as [|v r IH]; intros W d0 st0 S0 B0; cbn zeta; cbn [fold_left fst snd total_dim fold_right stackf].
    - splits; try assumption; try lia. intros i. destruct (d0 <=? i); ring.
    - destruct (W v (or_introl eq_refl)) as [Wv Nv].
      pose proof (proj1 (sp_wf_iff v) Wv) as [Bv Sv]. pose proof (proj1 (in_bounds_iff _ _ _) Bv) as Bnd.
      assert (S1 : StronglySorted klt (st0 ++ shift d0 0 (sp_st v))).
      { apply sorted_app; [exact S0|now apply shift_sorted|].
        intros x y Hx Hy. unfold shift in Hy. apply in_map_iff in Hy. destruct Hy as [z [<- Hz]].
        destruct (B0 x Hx) as [Hr Hc]. destruct (Bnd z Hz). unfold C13SpBase.klt. cbn [e_row e_col fst snd].
        apply key_lt_spec. lia. }
      assert (B1 : forall e, In e (st0 ++ shift d0 0 (sp_st v)) -> (e_row e < d0 + sp_m v)%nat /\ e_col e = 0%nat).
      { intros e He. apply in_app_iff in He. destruct He as [He|He].
        - destruct (B0 e He). lia.
        - unfold shift in He. apply in_map_iff in He. destruct He as [z [<- Hz]]. destruct (Bnd z Hz).
          cbn [e_row e_col fst snd]. lia. }
      destruct (IH (fun x Hx => W x (or_intror Hx)) (d0 + sp_m v)%nat _ S1 B1) as (I1 & I2 & I3 & I4 & I5).
      cbn zeta in *. splits; try assumption.
      + rewrite I1. cbn [total_dim fold_right]. fold (total_dim r). lia.
      + rewrite I4, app_length. unfold shift at 1. rewrite map_length. unfold sp_nnz at 2. lia.
      + intros i. rewrite I5, (psum_app o L), (esum_shift o). cbn [Nat.leb andb]. rewrite Nat.sub_0_r, andb_true_r.
        rewrite <- (entry_psum o v). unfold ventry.
        destruct (Nat.leb_spec d0 i) as [H1|H1].
        * destruct (Nat.ltb_spec (i - d0) (sp_m v)) as [H2|H2]; destruct (Nat.leb_spec (d0 + sp_m v) i) as [H3|H3]; try lia.
          -- ring.
          -- rewrite (entry_outside o v (i - d0) 0 Wv) by lia.
             replace (i - (d0 + sp_m v))%nat with (i - d0 - sp_m v)%nat by lia. ring.
        * destruct (Nat.leb_spec (d0 + sp_m v) i); [lia|]. ring.
  Qed.

  Theorem sv_stack_vecs_spec vs : (forall v, In v vs -> vec_wf v) ->
    exists r, sv_stack_vecs vs = Some r /\ sv_is r (total_dim vs) (stackf vs) /\
              sp_nnz r = fold_right (fun v a => (sp_nnz v + a)%nat) 0%nat vs.
  Proof.
    intros W. unfold sv_stack_vecs.
    destruct (stack_fold vs W 0%nat [] (SSorted_nil _)) as (I1 & I2 & I3 & I4 & I5); [intros e []|].
    cbn zeta in *.
    set (acc := fold_left (fun acc v => ((fst acc + sp_m v)%nat, snd acc ++ shift (fst acc) 0 (sp_st v))) vs (0%nat, [])) in *.
    assert (V : csc_validb (fst acc) 1 (snd acc) = true).
    { unfold csc_validb. apply andb_true_iff. split; [|now apply sortedb_iff].
      apply in_bounds_iff. intros e He. destruct (I3 e He). lia. }
    unfold try_csc. rewrite V. cbn [obind]. rewrite sv_new_some by reflexivity.
    eexists. split; [reflexivity|]. split.
    - unfold C13SpVec.sv_is, C13Sparse.sp_is. cbn [sp_m sp_n]. splits; try reflexivity; [lia|exact V|].
      intros i c Hi Hc. replace c with 0%nat by lia. rewrite entry_psum. cbn [sp_st]. rewrite I5.
      cbn [C13SpBase.psum Nat.leb]. rewrite Nat.sub_0_r. ring.
    - unfold sp_nnz at 1. cbn [sp_st]. rewrite I4. reflexivity.
  Qed.
End VecExtra.

(* ---------- transforms: the statement of the property for every history ---------- *)
Section TransMain.
  Context {R : Type} (o : ring_ops R) (L : ring_laws o).
  Local Notation spmat := (spmat R).
  Local Notation sp_wf := (@sp_wf R).
  Local Notation sp_is := (sp_is o).
  Local Notation sv_is := (sv_is o).

  (* what is observable of a transform that denotes (F, B) : src <-> tgt *)
  Definition tr_acts (t : trans R) (src tgt : nat) (F B : mat R) : Prop :=
    t_src t = src /\ t_tgt t = tgt /\
    (exists Fm Bm, tr_forward_mat o t = Some Fm /\ tr_backward_mat o t = Some Bm /\
                   sp_is Fm tgt src F /\ sp_is Bm src tgt B) /\
    (forall v, sp_wf v -> sp_n v = 1%nat ->
       match tr_forward o t v with
       | Some w => sv_dim v = src /\ sv_is w tgt (mvec o src F (ventry o v))
       | None => sv_dim v <> src
       end) /\
    (forall v, sp_wf v -> sp_n v = 1%nat ->
       match tr_backward o t v with
       | Some w => sv_dim v = tgt /\ sv_is w src (mvec o tgt B (ventry o v))
       | None => sv_dim v <> tgt
       end).

  Lemma denotes_acts t h : denotes o t h -> tr_acts t (hsrc h) (htgt h) (hF o h) (hB o h).
  Proof.
    intros (D1 & D2 & D3 & D4 & D5). unfold tr_acts. splits; try assumption.
    - destruct (tr_forward_mat_spec o L t D1) as [Fm [EF HF]]. destruct (tr_backward_mat_spec o L t D1) as [Bm [EB HB]].
      exists Fm, Bm. rewrite D2, D3 in *. splits; try assumption.
      + eapply sp_is_ext; [exact HF|exact D4].
      + eapply sp_is_ext; [exact HB|exact D5].
    - intros v Wv Nv. pose proof (tr_forward_spec o L t v D1 Wv Nv) as S. destruct (tr_forward o t v) as [w|].
      + destruct S as (E & S). rewrite D2, D3 in *. split; [exact E|].
        eapply sv_is_ext; [exact S|]. intros i Hi. apply mvec_ext; intros k Hk; [now apply D4|reflexivity].
      + now rewrite <- D2.
    - intros v Wv Nv. pose proof (tr_backward_spec o L t v D1 Wv Nv) as S. destruct (tr_backward o t v) as [w|].
      + destruct S as (E & S). rewrite D2, D3 in *. split; [exact E|].
        eapply sv_is_ext; [exact S|]. intros i Hi. apply mvec_ext; intros k Hk; [now apply D5|reflexivity].
      + now rewrite <- D3.
  Qed.

  (* MAIN: every finite history of new / append / append_perm / merge / reduce / sub either hits a guard
     (exactly when [hist_ok] fails) or builds a transform t such that
       - forward_mat(t) and backward_mat(t) are the products the history denotes,
       - forward(v) = F v and backward(v) = B v for every vector (and panic exactly on a wrong dimension),
       - reduce() succeeds and the reduced transform has the same four observables. *)
  Theorem tr_history_main h : hist_wf h ->
    match tr_run o h with
    | Some t =>
        hist_ok o h /\ tr_wf t /\ tr_acts t (hsrc h) (htgt h) (hF o h) (hB o h) /\
        exists t', tr_reduce o t = Some t' /\ tr_wf t' /\ tr_acts t' (hsrc h) (htgt h) (hF o h) (hB o h)
    | None => ~ hist_ok o h
    end.
  Proof.
    intros W. pose proof (tr_run_spec o L h W) as S. destruct (tr_run o h) as [t|] eqn:E; [|exact S].
    destruct S as (Ok & D). split; [exact Ok|]. split; [now destruct D|]. split; [now apply denotes_acts|].
    pose proof (tr_run_spec o L (HReduce h) W) as S'. cbn [tr_run] in S'. rewrite E in S'. cbn [obind] in S'.
    destruct (tr_reduce o t) as [t'|]; [|exfalso; now apply S'].
    destruct S' as (_ & D'). exists t'. split; [reflexivity|]. split; [now destruct D'|].
    exact (denotes_acts t' (HReduce h) D').
  Qed.

  (* forward(v) = forward_mat() * v, as one statement about any history *)
  Corollary tr_history_forward_is_mat h t v : hist_wf h -> tr_run o h = Some t ->
    sp_wf v -> sp_n v = 1%nat -> sv_dim v = t_src t ->
    exists w Fm, tr_forward o t v = Some w /\ tr_forward_mat o t = Some Fm /\
                 sv_is w (t_tgt t) (mvec o (t_src t) (entry o Fm) (ventry o v)).
  Proof.
    intros W E Wv Nv Dv. pose proof (tr_run_spec o L h W) as S. rewrite E in S. destruct S as (_ & (D1 & _)).
    pose proof (tr_forward_spec o L t v D1 Wv Nv) as S. destruct (tr_forward o t v) as [w|]; [|contradiction].
    destruct (tr_forward_mat_spec o L t D1) as [Fm [EF (F1 & F2 & F3 & F4)]]. exists w, Fm.
    splits; try reflexivity; try assumption. destruct S as (_ & S). eapply sv_is_ext; [exact S|].
    intros i Hi. apply mvec_ext; intros k Hk; [|reflexivity]. symmetry. now apply F4.
  Qed.

  Corollary tr_history_backward_is_mat h t v : hist_wf h -> tr_run o h = Some t ->
    sp_wf v -> sp_n v = 1%nat -> sv_dim v = t_tgt t ->
    exists w Bm, tr_backward o t v = Some w /\ tr_backward_mat o t = Some Bm /\
                 sv_is w (t_src t) (mvec o (t_tgt t) (entry o Bm) (ventry o v)).
  Proof.
    intros W E Wv Nv Dv. pose proof (tr_run_spec o L h W) as S. rewrite E in S. destruct S as (_ & (D1 & _)).
    pose proof (tr_backward_spec o L t v D1 Wv Nv) as S. destruct (tr_backward o t v) as [w|]; [|contradiction].
    destruct (tr_backward_mat_spec o L t D1) as [Bm [EB (B1 & B2 & B3 & B4)]]. exists w, Bm.
    splits; try reflexivity; try assumption. destruct S as (_ & S). eapply sv_is_ext; [exact S|].
    intros i Hi. apply mvec_ext; intros k Hk; [|reflexivity]. symmetry. now apply B4.
  Qed.
End TransMain.

(* ---------- rings with laws: Q (canonical rationals) and Z/p (canonical residues) ---------- *)
Definition Qc_ring : ring_ops Qc :=
  mk_ring_ops Qc (Q2Qc 0%Q) (Q2Qc 1%Q) Qcplus Qcopp Qcmult Qc_eq_bool.

Lemma Qc_ring_laws : ring_laws Qc_ring.
Proof.
  constructor; cbn.
  - apply Qcplus_comm.
  - apply Qcplus_assoc.
  - apply Qcplus_0_l.
  - apply Qcplus_opp_r.
  - apply Qcmult_comm.
  - apply Qcmult_assoc.
  - apply Qcmult_1_l.
  - apply Qcmult_plus_distr_l.
  - intros a b. split; [apply Qc_eq_bool_correct|]. intros ->. unfold Qc_eq_bool.
    destruct (Qc_eq_dec b b) as [_|N]; [reflexivity|now elim N].
Qed.

Section Fp.
  Context (p : Z).
  Local Open Scope Z_scope.

  Definition fp : Type := { x : Z | (x mod p =? x) = true }.
  Definition fp_val (a : fp) : Z := proj1_sig a.

  Lemma fp_eq (a b : fp) : fp_val a = fp_val b -> a = b.
  Proof.
    destruct a as [x Hx], b as [y Hy]. cbn. intros ->. f_equal. apply UIP_dec, bool_dec.
  Qed.

  Lemma fp_red (a : fp) : fp_val a mod p = fp_val a.
  Proof. destruct a as [x Hx]. cbn. now apply Z.eqb_eq. Qed.

  Definition fp_mk (x : Z) : fp.
  Proof. exists (x mod p). apply Z.eqb_eq. apply Zmod_mod. Defined.

  Lemma fp_val_mk x : fp_val (fp_mk x) = x mod p.
  Proof. reflexivity. Qed.

  Definition Fp_ring : ring_ops fp :=
    mk_ring_ops fp (fp_mk 0) (fp_mk 1)
      (fun a b => fp_mk (fp_val a + fp_val b)) (fun a => fp_mk (- fp_val a))
      (fun a b => fp_mk (fp_val a * fp_val b)) (fun a b => fp_val a =? fp_val b).

  Lemma Fp_ring_laws : ring_laws Fp_ring.
  Proof.
    constructor; intros; cbn [Fp_ring rzero rone radd rneg rmul reqb]; try apply fp_eq; rewrite ?fp_val_mk.
    - f_equal. apply Z.add_comm.
    - rewrite Zplus_mod_idemp_r, Zplus_mod_idemp_l. f_equal. apply Z.add_assoc.
    - rewrite Zplus_mod_idemp_l, Z.add_0_l. apply fp_red.
    - rewrite Zplus_mod_idemp_r. f_equal. apply Z.add_opp_diag_r.
    - f_equal. apply Z.mul_comm.
    - rewrite Zmult_mod_idemp_r, Zmult_mod_idemp_l. f_equal. apply Z.mul_assoc.
    - rewrite Zmult_mod_idemp_l, Z.mul_1_l. apply fp_red.
    - rewrite Zmult_mod_idemp_l, <- Zplus_mod. f_equal. apply Z.mul_add_distr_r.
    - rewrite Z.eqb_eq. split; [apply fp_eq|now intros ->].
  Qed.
End Fp.

(* ---------- the predicates used in the statements, unfolded (for the reader of Properties/C13.v) ---------- *)
Lemma sp_is_unfold {R} (o : ring_ops R) (a : spmat R) m n f :
  sp_is o a m n f <->
  sp_m a = m /\ sp_n a = n /\ sp_wfb a = true /\ forall i j, i < m -> j < n -> entry o a i j = f i j.
Proof. reflexivity. Qed.

Lemma sv_is_unfold {R} (o : ring_ops R) (v : spmat R) d f :
  sv_is o v d f <->
  sp_m v = d /\ sp_n v = 1 /\ sp_wfb v = true /\ forall i j, i < d -> j < 1 -> entry o v i j = f i.
Proof. reflexivity. Qed.

Lemma d_is_unfold {R} (o : ring_ops R) (A : dmat R) m n f :
  d_is o A m n f <->
  dm A = m /\ dn A = n /\ (length (dd A) = dm A /\ Forall (fun r => length r = dn A) (dd A)) /\
  forall i j, i < m -> j < n -> d_get o A i j = f i j.
Proof. reflexivity. Qed.

Lemma vec_wf_unfold {R} (v : spmat R) : vec_wf v <-> sp_wfb v = true /\ sp_n v = 1.
Proof. reflexivity. Qed.

Lemma sorted_klt_unfold {R} (l : list (ent R)) :
  StronglySorted klt l <->
  StronglySorted (fun e e' => e_col e < e_col e' \/ (e_col e = e_col e' /\ e_row e < e_row e')) l.
Proof.
  split; intros H.
  - induction H as [|x r S IH F]; constructor; [exact IH|]. rewrite Forall_forall in *. intros y Hy.
    specialize (F y Hy). unfold klt in F. now apply key_lt_spec in F.
  - induction H as [|x r S IH F]; constructor; [exact IH|]. rewrite Forall_forall in *. intros y Hy.
    unfold klt. apply key_lt_spec. now apply F.
Qed.

Lemma sp_wf_unfold {R} (a : spmat R) :
  sp_wf a <->
  (forall e, In e (sp_st a) -> e_row e < sp_m a /\ e_col e < sp_n a) /\
  StronglySorted (fun e e' => e_col e < e_col e' \/ (e_col e = e_col e' /\ e_row e < e_row e')) (sp_st a).
Proof. now rewrite sp_wf_iff, in_bounds_iff, sorted_klt_unfold. Qed.

Lemma is_perm_unfold (p : perm) : C13Sparse.is_perm p <-> NoDup p /\ forall x, In x p -> x < length p.
Proof. reflexivity. Qed.

Lemma entry_unfold {R} (o : ring_ops R) (L : ring_laws o) (a : spmat R) i j : sp_wf a ->
  (exists v, In (i, j, v) (sp_st a) /\ entry o a i j = v) \/
  ((forall v, ~ In (i, j, v) (sp_st a)) /\ entry o a i j = rzero o).
Proof. apply (entry_cases o L). Qed.

(* non-vacuity of the well-formedness predicates: the matrices [[1, 0s], [-, 2]] - [[1, 0s], [-, 2]] etc. *)
Definition ex_a : spmat Z := mksp 2 2 [(0, 0, 1%Z); (0, 1, 0%Z); (1, 1, 2%Z)].   (* a stored zero at (0,1) *)
Definition ex_e : spmat Z := mksp 0 3 [].                                        (* no rows *)
