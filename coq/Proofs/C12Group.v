(* group_cols of Model/Decomp.v: the classes computed by the union-find loop are the equivalence closure of
   "the two columns share a stored row", whatever the order in which the pairs are visited and however the
   is_same tests interleave with other workers' unions. *)
From Coq Require Import Arith List Bool Lia.
Require Import Yui.Base.Ring Yui.Model.Triang Yui.Model.Decomp Yui.Proofs.C12Sparse Yui.Proofs.C12UnionFind.
Import ListNotations.

Section Group.
  Context {R : Type} (a : spmat R) (cs : list nat).
  Let l := length cs.

  Definition isect_idx (i j : nat) : bool :=
    match nth_error cs i, nth_error cs j with
    | Some ci, Some cj => col_intersects a ci cj
    | _, _ => false
    end.

  (* the edges contributed by a list of visited pairs *)
  Definition Eis (ps : list (nat * nat)) : nat -> nat -> Prop :=
    fun x y => In (x, y) ps /\ x < l /\ y < l /\ isect_idx x y = true.

  Lemma Eis_bounded ps : bounded l (Eis ps).
  Proof. intros x y [_ [Hx [Hy _]]]. now split. Qed.

  Lemma Eis_snoc_yes ps i j : i < l -> j < l -> isect_idx i j = true ->
    forall x y, add_edge (Eis ps) i j x y <-> Eis (ps ++ [(i, j)]) x y.
  Proof.
    intros Hi Hj His x y. unfold add_edge, Eis. rewrite in_app_iff. cbn [In]. split.
    - intros [[H1 H2]|[-> ->]]; [tauto|]. split; [right; now left|]. now repeat split.
    - intros [[H|[H|[]]] H2]; [left; tauto|]. injection H as <- <-. now right.
  Qed.

  Lemma Eis_snoc_no ps i j : isect_idx i j = false -> forall x y, Eis ps x y <-> Eis (ps ++ [(i, j)]) x y.
  Proof.
    intros His x y. unfold Eis. rewrite in_app_iff. cbn [In]. split.
    - intros [H1 H2]. tauto.
    - intros [[H|[H|[]]] H2]; [tauto|]. injection H as <- <-. destruct H2 as [_ [_ H2]]. congruence.
  Qed.

  Definition tr_pair (e : nat * nat * bool) : nat * nat := fst e.

  (* one union slot *)
  Lemma step_na_inv p ps e p' : uf_ok p -> length p = l -> rel_eq l p (Eis ps) ->
    fst (tr_pair e) < l -> snd (tr_pair e) < l ->
    group_step_na a cs p e = Some p' ->
    uf_ok p' /\ length p' = l /\ rel_eq l p' (Eis (ps ++ [tr_pair e])).
  Proof.
    destruct e as [[i j] skip]. cbn [tr_pair fst snd]. intros Hok Hl Hrel Hi Hj. unfold group_step_na.
    destruct skip.
    - rewrite (is_same_spec p i j Hok) by lia. cbn [obind].
      destruct (Nat.eqb_spec (rootv p i) (rootv p j)) as [Es|Es]; [|discriminate].
      intros H. injection H as <-. split; [assumption|]. split; [assumption|].
      destruct (isect_idx i j) eqn:His.
      + apply (rel_eq_ext l p (add_edge (Eis ps) i j)); [now apply Eis_snoc_yes|].
        now apply rel_eq_redundant.
      + apply (rel_eq_ext l p (Eis ps)); [now apply Eis_snoc_no|assumption].
    - assert (Hci : nth_error cs i = Some (nth i cs 0)) by (apply nth_error_pget; exact Hi).
      assert (Hcj : nth_error cs j = Some (nth j cs 0)) by (apply nth_error_pget; exact Hj).
      rewrite Hci, Hcj. cbn [obind].
      assert (His : isect_idx i j = col_intersects a (nth i cs 0) (nth j cs 0)) by (unfold isect_idx; now rewrite Hci, Hcj).
      rewrite <- His. destruct (isect_idx i j) eqn:Hb.
      + destruct (union_spec p i j Hok) as [p'' [Eu [Hok' [Hl' Hm]]]]; try lia.
        rewrite Eu. intros H. injection H as <-. split; [assumption|]. split; [lia|].
        apply (rel_eq_ext l p'' (add_edge (Eis ps) i j)); [now apply Eis_snoc_yes|].
        apply (rel_eq_union l p p'' (Eis ps) i j Hl (Eis_bounded ps) Hi Hj Hrel).
        intros x y Hx Hy. apply Hm; lia.
      + intros H. injection H as <-. split; [assumption|]. split; [assumption|].
        apply (rel_eq_ext l p (Eis ps)); [now apply Eis_snoc_no|assumption].
  Qed.

  Lemma run_na_inv : forall trace p ps p', uf_ok p -> length p = l -> rel_eq l p (Eis ps) ->
    (forall e, In e trace -> fst (tr_pair e) < l /\ snd (tr_pair e) < l) ->
    ofold (group_step_na a cs) trace p = Some p' ->
    uf_ok p' /\ length p' = l /\ rel_eq l p' (Eis (ps ++ map tr_pair trace)).
  Proof.
    induction trace as [|e trace IH]; intros p ps p' Hok Hl Hrel Hb H; cbn [ofold] in H.
    - injection H as <-. cbn [map]. now rewrite app_nil_r.
    - apply obind_some in H. destruct H as [p1 [E1 H]].
      destruct (Hb e (or_introl eq_refl)) as [Hi Hj].
      destruct (step_na_inv p ps e p1 Hok Hl Hrel Hi Hj E1) as [Hok1 [Hl1 Hrel1]].
      destruct (IH p1 (ps ++ [tr_pair e]) p' Hok1 Hl1 Hrel1 (fun e' He' => Hb e' (or_intror He')) H) as [H1 [H2 H3]].
      split; [assumption|]. split; [assumption|]. cbn [map]. now rewrite <- app_assoc in H3.
  Qed.

  (* the atomic step (check and union in one critical section, as in the single-threaded build) is the
     instance of the general step whose skip flag is the current value of is_same *)
  Lemma step_atomic p i j : uf_ok p -> length p = l -> i < l -> j < l ->
    group_step a cs p (i, j) = group_step_na a cs p (i, j, rootv p i =? rootv p j).
  Proof.
    intros Hok Hl Hi Hj. unfold group_step, group_step_na. rewrite (is_same_spec p i j Hok) by lia. cbn [obind].
    destruct (rootv p i =? rootv p j); reflexivity.
  Qed.

  Lemma step_atomic_total p i j : uf_ok p -> length p = l -> i < l -> j < l ->
    exists p', group_step a cs p (i, j) = Some p'.
  Proof.
    intros Hok Hl Hi Hj. unfold group_step. rewrite (is_same_spec p i j Hok) by lia. cbn [obind].
    destruct (rootv p i =? rootv p j); [now exists p|].
    rewrite (nth_error_pget cs i Hi), (nth_error_pget cs j Hj). cbn [obind].
    destruct (col_intersects _ _ _); [|now exists p].
    destruct (union_spec p i j Hok) as [p' [E _]]; try lia. now exists p'.
  Qed.

  Lemma run_atomic_inv : forall pairs p ps, uf_ok p -> length p = l -> rel_eq l p (Eis ps) ->
    (forall e, In e pairs -> fst e < l /\ snd e < l) ->
    exists p', ofold (group_step a cs) pairs p = Some p' /\
      uf_ok p' /\ length p' = l /\ rel_eq l p' (Eis (ps ++ pairs)).
  Proof.
    induction pairs as [|[i j] pairs IH]; intros p ps Hok Hl Hrel Hb; cbn [ofold].
    - exists p. rewrite app_nil_r. auto.
    - destruct (Hb (i, j) (or_introl eq_refl)) as [Hi Hj]. cbn [fst snd] in Hi, Hj.
      destruct (step_atomic_total p i j Hok Hl Hi Hj) as [p1 E1]. rewrite E1. cbn [obind].
      rewrite (step_atomic p i j Hok Hl Hi Hj) in E1.
      destruct (step_na_inv p ps (i, j, rootv p i =? rootv p j) p1 Hok Hl Hrel Hi Hj E1) as [Hok1 [Hl1 Hrel1]].
      cbn [tr_pair fst] in Hrel1.
      destruct (IH p1 (ps ++ [(i, j)]) Hok1 Hl1 Hrel1 (fun e' He' => Hb e' (or_intror He'))) as [p' [E' [H1 [H2 H3]]]].
      exists p'. split; [exact E'|]. split; [assumption|]. split; [assumption|]. now rewrite <- app_assoc in H3.
  Qed.

  Lemma rel_eq_new : rel_eq l (uf_new l) (Eis []).
  Proof.
    destruct (uf_new_ok l) as [_ [_ Hr]]. intros x y Hx Hy. unfold same. rewrite (Hr x Hx), (Hr y Hy). split.
    - intros ->. apply conn_refl.
    - intros C. assert (G : forall a0 b, conn (Eis []) a0 b -> a0 = b).
      { intros a0 b C'. induction C' as [| ? ? [[] _] | |]; congruence. }
      now apply G.
  Qed.

  (* two runs that visited the same set of pairs end with the same roots *)
  Lemma same_pairs_same_roots p1 p2 ps1 ps2 :
    uf_ok p1 -> uf_ok p2 -> length p1 = l -> length p2 = l ->
    rel_eq l p1 (Eis ps1) -> rel_eq l p2 (Eis ps2) ->
    (forall e, In e ps1 <-> In e ps2) ->
    uf_group p1 = uf_group p2.
  Proof.
    intros Hok1 Hok2 Hl1 Hl2 Hr1 Hr2 Hin. apply uf_group_ext; [assumption|assumption|lia|].
    rewrite Hl1. apply (same_roots l p1 p2 Hok1 Hok2 Hl1 Hl2).
    intros x y Hx Hy. rewrite (Hr1 x y Hx Hy), (Hr2 x y Hx Hy).
    split; apply conn_mono; intros a0 b [H1 H2]; apply conn_step; (split; [now apply Hin|exact H2]).
  Qed.
End Group.

(* ---------- all_pairs ---------- *)
Lemma in_all_pairs l i j : In (i, j) (all_pairs l) <-> i < j /\ j < l.
Proof.
  unfold all_pairs. rewrite in_flat_map. split.
  - intros [i0 [Hi0 H]]. apply in_map_iff in H. destruct H as [j0 [E Hj0]]. injection E as -> ->.
    apply in_seq in Hi0, Hj0. lia.
  - intros [Hij Hj]. exists i. split; [apply in_seq; lia|]. apply in_map_iff. exists j. split; [reflexivity|].
    apply in_seq. lia.
Qed.

Section GroupCols.
  Context {R : Type} (a : spmat R).

  (* any visiting order of the pairs (one worker or many) gives the groups of the sequential loop *)
  Theorem group_cols_sched_indep (pairs : nat -> list (nat * nat)) :
    (forall e, In e (pairs (length (nonempty_cols a))) <-> In e (all_pairs (length (nonempty_cols a)))) ->
    group_cols_sched a pairs = group_cols a.
  Proof.
    intros Hin. unfold group_cols, group_cols_sched.
    set (cs := nonempty_cols a) in *. set (l := length cs) in *.
    destruct (l =? 0); [reflexivity|].
    destruct (uf_new_ok l) as [Hok [Hl _]].
    assert (Hb : forall e, In e (all_pairs l) -> fst e < l /\ snd e < l).
    { intros [i j] He. apply in_all_pairs in He. cbn. lia. }
    destruct (run_atomic_inv a cs (pairs l) (uf_new l) [] Hok Hl (rel_eq_new a cs)) as [p1 [E1 [Hok1 [Hl1 Hr1]]]].
    { intros e He. apply Hb. now apply Hin. }
    destruct (run_atomic_inv a cs (all_pairs l) (uf_new l) [] Hok Hl (rel_eq_new a cs) Hb) as [p2 [E2 [Hok2 [Hl2 Hr2]]]].
    fold l. rewrite E1, E2. cbn [obind]. cbn [app] in Hr1, Hr2.
    now rewrite (same_pairs_same_roots a cs p1 p2 _ _ Hok1 Hok2 Hl1 Hl2 Hr1 Hr2 Hin).
  Qed.

  (* ... also when the is_same tests and the unions of different workers interleave *)
  Theorem group_cols_trace_indep (trace : list (nat * nat * bool)) g :
    (forall e, In e (map fst trace) <-> In e (all_pairs (length (nonempty_cols a)))) ->
    group_cols_trace a trace = Some g -> group_cols a = Some g.
  Proof.
    intros Hin. unfold group_cols, group_cols_sched, group_cols_trace.
    set (cs := nonempty_cols a) in *. set (l := length cs) in *.
    destruct (l =? 0); [auto|].
    destruct (uf_new_ok l) as [Hok [Hl _]].
    assert (Hb : forall e, In e (all_pairs l) -> fst e < l /\ snd e < l).
    { intros [i j] He. apply in_all_pairs in He. cbn. lia. }
    destruct (run_atomic_inv a cs (all_pairs l) (uf_new l) [] Hok Hl (rel_eq_new a cs) Hb) as [p2 [E2 [Hok2 [Hl2 Hr2]]]].
    fold l. rewrite E2. cbn [obind]. intros H. apply obind_some in H. destruct H as [p1 [E1 H]].
    destruct (run_na_inv a cs trace (uf_new l) [] p1 Hok Hl (rel_eq_new a cs)) as [Hok1 [Hl1 Hr1]]; [|exact E1|].
    { intros e He. apply Hb, Hin. apply in_map_iff. now exists e. }
    cbn [app] in Hr1, Hr2.
    rewrite <- (same_pairs_same_roots a cs p1 p2 _ _ Hok1 Hok2 Hl1 Hl2 Hr1 Hr2 Hin). exact H.
  Qed.
End GroupCols.
