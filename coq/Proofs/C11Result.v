(* C11 - result(): on a pivot table satisfying the invariant the Kahn mirror succeeds for every hash
   order and returns every pivot in a valid order; soundness of the checker [pivots_ok];
   perm_for_indices / perms_by_pivots and triangularity of the permuted leading block. *)
From Coq Require Import ZArith List Bool Arith Lia Permutation.
Require Import Yui.Model.Pivot Yui.Proofs.C11Base Yui.Proofs.C11TopSort.
Import ListNotations.

Definition swap (p : nat * nat) : nat * nat := (snd p, fst p).
(* returned list (matrix coordinates) -> coordinates of the search (for Cols the search runs on the transpose) *)
Definition to_str (pt : ptype) (l : list (nat * nat)) : list (nat * nat) :=
  match pt with Rows => l | Cols => map swap l end.

(* ------------------------------------------------------------------------------------------------ *)
(* the checker                                                                                      *)
(* ------------------------------------------------------------------------------------------------ *)
Section Checker.
Variable M : mstr.

(* upper triangular in list order: the column of an earlier pivot does not occur in a later pivot row *)
Definition tri_spec (pivs : list (nat * nat)) : Prop :=
  forall l1 p l2, pivs = l1 ++ p :: l2 -> forall q, In q l2 -> ~ In (snd p) (cols_in M (fst q)).

Lemma tri_ok_spec : forall pivs, tri_ok M pivs = true <-> tri_spec pivs.
Proof.
  induction pivs as [|p r IH]; cbn [tri_ok].
  - split; [|reflexivity]. intros _ l1 p l2 E. destruct l1; discriminate.
  - rewrite andb_true_iff, forallb_forall, IH. split.
    + intros [H1 H2] l1 p0 l2 E q Hq. destruct l1 as [|x l1]; cbn [app] in E; inversion E; subst.
      * specialize (H1 q Hq). apply negb_true_iff in H1. apply memb_false in H1. exact H1.
      * eapply H2; [reflexivity | exact Hq].
    + intros H. split.
      * intros q Hq. apply negb_true_iff. apply memb_false. apply (H [] p r eq_refl q Hq).
      * intros l1 p0 l2 E q Hq. apply (H (p :: l1) p0 l2); [cbn [app]; rewrite E; reflexivity | exact Hq].
Qed.

Theorem pivots_ok_sound : forall pivs, pivots_ok M pivs = true <->
  NoDup (map fst pivs) /\ NoDup (map snd pivs) /\
  (forall p, In p pivs -> In (snd p) (cols_in M (fst p)) /\ is_cand M (fst p) (snd p) = true) /\
  tri_spec pivs.
Proof.
  intros pivs. unfold pivots_ok. rewrite !andb_true_iff, !nodupb_NoDup, forallb_forall, tri_ok_spec.
  split.
  - intros [[[H1 H2] H3] H4]. splits; auto. intros p Hp. specialize (H3 p Hp).
    apply andb_true_iff in H3. destruct H3 as [A B]. apply memb_In in A. split; assumption.
  - intros [H1 [H2 [H3 H4]]]. splits; auto. intros p Hp. destruct (H3 p Hp) as [A B].
    apply andb_true_iff. split; [apply memb_In; exact A | exact B].
Qed.

End Checker.

(* ------------------------------------------------------------------------------------------------ *)
(* result() on an invariant pivot table                                                             *)
(* ------------------------------------------------------------------------------------------------ *)
Section Result.
Variable M : mstr.
Variable P : plog.
Hypothesis HP : PInv M P.

Let tree := dep_tree M P.

Lemma tree_keys : map fst tree = map snd P.
Proof. unfold tree, dep_tree. rewrite map_map. reflexivity. Qed.

Lemma tree_get_pivot : forall i j, In (i, j) P -> tree_get tree j = dep_list M P (i, j).
Proof.
  destruct HP as [[_ [Hnd _]] _]. unfold tree, dep_tree. clear tree.
  assert (G : forall Q, NoDup (map snd Q) -> forall i j, In (i, j) Q ->
             tree_get (map (fun p => (snd p, dep_list M P p)) Q) j = dep_list M P (i, j)).
  { induction Q as [|[a b] r IH]; intros Hq i j Hin; [destruct Hin|].
    cbn [map snd] in *. inversion Hq as [|? ? Hb Hr]; subst. unfold tree_get. cbn [find fst snd].
    destruct (b =? j) eqn:E.
    - apply Nat.eqb_eq in E. subst b. destruct Hin as [Hin|Hin]; [inversion Hin; subst; reflexivity|].
      exfalso. apply Hb. apply pcol_map. exists i. exact Hin.
    - destruct Hin as [Hin|Hin]; [inversion Hin; subst; rewrite Nat.eqb_refl in E; discriminate|].
      apply (IH Hr i j Hin). }
  exact (G P Hnd).
Qed.

Lemma dep_list_edge : forall i a b, In (i, a) P -> (In b (dep_list M P (i, a)) <-> In b (cols_in M i) /\ b <> a /\ pcol P b).
Proof.
  intros i a b Hin. unfold dep_list. cbn [fst snd]. rewrite filter_In, andb_true_iff, negb_true_iff, Nat.eqb_neq, has_col_pcol.
  split; [intros [H1 [H2 H3]]; splits; auto | intros [H1 [H2 H3]]; splits; auto].
Qed.

Definition rowof (j : nat) : nat := match row_for P j with Some i => i | None => 0 end.

Lemma rowof_In : forall j, pcol P j -> In (rowof j, j) P.
Proof.
  intros j Hj. unfold rowof. destruct (row_for_pcol P j Hj) as [i E]. rewrite E. apply row_for_Some. exact E.
Qed.

Lemma rowof_pivot : forall i j, In (i, j) P -> rowof j = i.
Proof.
  intros i j Hin. destruct HP as [[_ [Hnd _]] _].
  eapply nodup_snd_fun; [exact Hnd | apply rowof_In; exists i; exact Hin | exact Hin].
Qed.

Definition str_pivs (ord : list nat) : list (nat * nat) := map (fun j => (rowof j, j)) ord.

Lemma str_pivs_perm : forall ord, Permutation ord (map snd P) -> Permutation (str_pivs ord) P.
Proof.
  intros ord Hp. unfold str_pivs.
  apply Permutation_trans with (map (fun j => (rowof j, j)) (map snd P)); [apply Permutation_map; exact Hp|].
  rewrite map_map. rewrite <- (map_id P) at 2. apply Permutation_refl'. apply map_ext_in.
  intros [i j] Hin. cbn [snd]. rewrite (rowof_pivot i j Hin). reflexivity.
Qed.

Lemma result_with_eq : forall pt keys ord, top_sort keys tree = Some ord -> (forall j, In j ord -> pcol P j) ->
  result_with M pt P keys = Some (match pt with Rows => str_pivs ord | Cols => map swap (str_pivs ord) end).
Proof.
  intros pt keys ord E Hall. unfold result_with. fold tree. rewrite E. clear E.
  induction ord as [|j r IH]; cbn [fold_right str_pivs map]; [destruct pt; reflexivity|].
  rewrite IH by (intros x Hx; apply Hall; right; exact Hx).
  assert (Hj : pcol P j) by (apply Hall; left; reflexivity).
  destruct (row_for_pcol P j Hj) as [i Ei].
  assert (Er : rowof j = i) by (unfold rowof; rewrite Ei; reflexivity).
  rewrite Ei. destruct pt; cbn [map swap fst snd]; rewrite Er; reflexivity.
Qed.

Theorem result_ok : forall pt keys, Permutation keys (map snd P) ->
  exists pivs, result_with M pt P keys = Some pivs /\
    pivots_ok M (to_str pt pivs) = true /\ Permutation (to_str pt pivs) P.
Proof.
  intros pt keys Hk. destruct HP as [[Hr [Hc He]] [rk Hrk]].
  assert (HV : NoDup (map fst tree)) by (rewrite tree_keys; exact Hc).
  assert (Hdata : forall a b, In a (map fst tree) -> In b (tree_get tree a) ->
                  exists i, In (i, a) P /\ In b (cols_in M i) /\ b <> a /\ pcol P b).
  { intros a b Ha Hb. rewrite tree_keys in Ha. apply pcol_map in Ha. destruct Ha as [i Hi].
    rewrite (tree_get_pivot i a Hi) in Hb. apply (dep_list_edge i a b Hi) in Hb. exists i. split; [exact Hi | exact Hb]. }
  destruct (top_sort_spec tree HV) with (rk := rk) (keys := keys) as [ord [E [Hp Hs]]].
  - intros a b Ha Hb. destruct (Hdata a b Ha Hb) as [i [_ [_ [_ H]]]]. rewrite tree_keys. apply pcol_map. exact H.
  - intros a b Ha Hb. destruct (Hdata a b Ha Hb) as [i [H1 [H2 [H3 H4]]]]. apply Hrk. exists i. splits; assumption.
  - rewrite tree_keys. exact Hk.
  - rewrite tree_keys in Hp.
    assert (Hall : forall j, In j ord -> pcol P j).
    { intros j Hj. apply pcol_map. eapply Permutation_in; [exact Hp | exact Hj]. }
    exists (match pt with Rows => str_pivs ord | Cols => map swap (str_pivs ord) end).
    split; [apply result_with_eq; assumption|].
    assert (Hto : to_str pt (match pt with Rows => str_pivs ord | Cols => map swap (str_pivs ord) end) = str_pivs ord).
    { destruct pt; cbn [to_str]; [reflexivity|]. rewrite map_map. rewrite <- (map_id (str_pivs ord)) at 2.
      apply map_ext. intros [a b]. reflexivity. }
    rewrite Hto. pose proof (str_pivs_perm ord Hp) as Hperm. split; [|exact Hperm].
    apply pivots_ok_sound. splits.
    + eapply Permutation_NoDup; [apply Permutation_sym, Permutation_map; exact Hperm | exact Hr].
    + eapply Permutation_NoDup; [apply Permutation_sym, Permutation_map; exact Hperm | exact Hc].
    + intros [i j] Hin. cbn [fst snd]. apply He. eapply Permutation_in; [exact Hperm | exact Hin].
    + (* triangular: from the order of popping *)
      assert (Hndo : NoDup ord) by (eapply Permutation_NoDup; [apply Permutation_sym; exact Hp | exact Hc]).
      intros l1 p l2 Epiv q Hq Hin.
      unfold str_pivs in Epiv. apply map_eq_app in Epiv. destruct Epiv as [o1 [o2' [Eo [E1 E2]]]].
      destruct o2' as [|b o2]; [discriminate|]. cbn [map] in E2. inversion E2 as [[Ep El2]]. subst p.
      rewrite <- El2 in Hq. apply in_map_iff in Hq. destruct Hq as [a [Ea Hao2]]. subst q. cbn [fst snd] in Hin.
      (* a comes after b in ord, and b occurs in the pivot row of a: edge a -> b, so a was popped before b *)
      assert (HaP : pcol P a) by (apply Hall; rewrite Eo; apply in_or_app; right; right; exact Hao2).
      assert (HbP : pcol P b) by (apply Hall; rewrite Eo; apply in_or_app; right; left; reflexivity).
      assert (Hab : b <> a).
      { intros Eab. subst a. rewrite Eo in Hndo. apply NoDup_remove_2 in Hndo. apply Hndo. apply in_or_app. right. exact Hao2. }
      assert (Hdep : In b (tree_get tree a)).
      { rewrite (tree_get_pivot (rowof a) a (rowof_In a HaP)). apply dep_list_edge; [apply rowof_In; exact HaP|]. splits; assumption. }
      (* tsorted (rev ord): predecessors of b lie in o1 *)
      assert (Hpre : In a o1).
      { assert (G : forall res, tsorted tree res -> forall r1 x r2, res = r1 ++ x :: r2 ->
                      forall y, In y (map fst tree) -> In x (tree_get tree y) -> In y r2).
        { induction res as [|z res IHr]; intros Hts r1 x r2 Er y Hy Hxy; [destruct r1; discriminate|].
          cbn [tsorted] in Hts. destruct Hts as [Hz Hts]. destruct r1 as [|z' r1]; cbn [app] in Er; inversion Er; subst.
          - apply Hz; assumption.
          - eapply IHr; [exact Hts | reflexivity | exact Hy | exact Hxy]. }
        assert (Er : rev ord = rev o2 ++ b :: rev o1).
        { rewrite Eo, rev_app_distr. cbn [rev]. rewrite <- app_assoc. reflexivity. }
        apply in_rev. eapply (G (rev ord) Hs (rev o2) b (rev o1) Er a); [|exact Hdep].
        rewrite tree_keys. apply pcol_map. exact HaP. }
      rewrite Eo in Hndo. apply NoDup_app_inv in Hndo. destruct Hndo as [_ [_ Hdis]].
      apply (Hdis a Hpre). right. exact Hao2.
Qed.

End Result.

(* ------------------------------------------------------------------------------------------------ *)
(* perm_for_indices                                                                                 *)
(* ------------------------------------------------------------------------------------------------ *)
Lemma set_nth_length : forall l k v, length (set_nth l k v) = length l.
Proof. induction l as [|x r IH]; intros [|k] v; cbn [set_nth length]; try reflexivity. rewrite IH. reflexivity. Qed.

Lemma set_nth_same : forall l k v d, k < length l -> nth k (set_nth l k v) d = v.
Proof.
  induction l as [|x r IH]; intros [|k] v d H; cbn [length] in H; try lia; cbn [set_nth nth]; [reflexivity|].
  apply IH. lia.
Qed.

Lemma set_nth_other : forall l k v d k', k' <> k -> nth k' (set_nth l k v) d = nth k' l d.
Proof.
  induction l as [|x r IH]; intros [|k] v d [|k'] H; cbn [set_nth nth]; try reflexivity; try lia.
  apply IH. lia.
Qed.

Lemma write_inv_spec : forall vec k inv, NoDup vec -> (forall x, In x vec -> x < length inv) ->
  length (write_inv vec k inv) = length inv /\
  (forall m, m < length vec -> nth (nth m vec 0) (write_inv vec k inv) 0 = k + m) /\
  (forall x, ~ In x vec -> nth x (write_inv vec k inv) 0 = nth x inv 0).
Proof.
  induction vec as [|j r IH]; intros k inv Hnd Hlt; cbn [write_inv].
  - splits; [reflexivity | intros m Hm; cbn in Hm; lia | reflexivity].
  - inversion Hnd as [|? ? Hj Hr]; subst.
    destruct (IH (S k) (set_nth inv j k) Hr) as [I1 [I2 I3]].
    { intros x Hx. rewrite set_nth_length. apply Hlt. right. exact Hx. }
    rewrite set_nth_length in I1. splits.
    + exact I1.
    + intros [|m] Hm; cbn [nth length] in *.
      * rewrite (I3 j Hj). rewrite set_nth_same; [lia | apply Hlt; left; reflexivity].
      * rewrite I2 by lia. lia.
    + intros x Hx. rewrite I3 by (intros H; apply Hx; right; exact H).
      apply set_nth_other. intros E. apply Hx. left. symmetry. exact E.
Qed.

Lemma perm_vec_props : forall n idx, NoDup idx -> (forall i, In i idx -> i < n) ->
  NoDup (perm_vec n idx) /\ Permutation (seq 0 n) (perm_vec n idx) /\ length (perm_vec n idx) = n.
Proof.
  intros n idx Hnd Hlt. unfold perm_vec.
  assert (Hp : Permutation (seq 0 n) (idx ++ filter (fun x => negb (memb x idx)) (seq 0 n))).
  { apply split_perm; [apply seq_NoDup | exact Hnd | intros x Hx; apply in_seq; specialize (Hlt x Hx); lia]. }
  splits.
  - eapply Permutation_NoDup; [exact Hp | apply seq_NoDup].
  - exact Hp.
  - rewrite <- (Permutation_length Hp). apply seq_length.
Qed.

Theorem perm_for_indices_spec : forall n idx, NoDup idx -> (forall i, In i idx -> i < n) ->
  exists inv, perm_for_indices n idx = Some inv /\ length inv = n /\
    (forall k, k < length idx -> nth (nth k idx 0) inv 0 = k) /\
    (forall x, x < n -> nth x inv 0 < n) /\
    (forall x, x < n -> nth x inv 0 < length idx -> In x idx) /\
    (forall x y, x < n -> y < n -> nth x inv 0 = nth y inv 0 -> x = y).
Proof.
  intros n idx Hnd Hlt. unfold perm_for_indices.
  assert (Hfa : forallb (fun i => i <? n) idx = true).
  { apply forallb_forall. intros i Hi. apply Nat.ltb_lt. apply Hlt. exact Hi. }
  rewrite Hfa. cbn [negb].
  destruct (perm_vec_props n idx Hnd Hlt) as [Hvnd [Hvp Hvl]].
  set (vec := perm_vec n idx) in *.
  destruct (write_inv_spec vec 0 (repeat 0 n) Hvnd) as [W1 [W2 W3]].
  { intros x Hx. rewrite repeat_length. apply (Permutation_in _ (Permutation_sym Hvp)) in Hx. apply in_seq in Hx. lia. }
  set (inv := write_inv vec 0 (repeat 0 n)) in *. rewrite repeat_length in W1.
  (* every x < n is vec[m] for some m < n, and then inv[x] = m *)
  assert (Hpos : forall x, x < n -> exists m, m < n /\ nth m vec 0 = x /\ nth x inv 0 = m).
  { intros x Hx. assert (Hin : In x vec) by (eapply Permutation_in; [exact Hvp | apply in_seq; lia]).
    destruct (In_nth vec x 0 Hin) as [m [Hm Em]]. exists m. rewrite Hvl in Hm. splits; auto.
    rewrite <- Em. rewrite W2 by (rewrite Hvl; exact Hm). lia. }
  assert (Hinj : forall x y, x < n -> y < n -> nth x inv 0 = nth y inv 0 -> x = y).
  { intros x y Hx Hy E. destruct (Hpos x Hx) as [m [_ [Em Ei]]]. destruct (Hpos y Hy) as [m' [_ [Em' Ei']]].
    rewrite <- Em, <- Em'. f_equal. lia. }
  assert (Hrange : forallb (fun i => i <? n) inv = true).
  { apply forallb_forall. intros v Hv. apply Nat.ltb_lt. destruct (In_nth inv v 0 Hv) as [x [Hx Ex]].
    rewrite W1 in Hx. destruct (Hpos x Hx) as [m [Hm [_ Ei]]]. lia. }
  assert (Hndi : nodupb inv = true).
  { apply nodupb_NoDup. apply (NoDup_nth inv 0). intros x y Hx Hy E. rewrite W1 in Hx, Hy. apply Hinj; assumption. }
  rewrite Hrange, Hndi. cbn [andb]. exists inv. splits; auto.
  - intros k Hk. assert (Ek : nth k idx 0 = nth k vec 0) by (unfold vec, perm_vec; rewrite app_nth1 by exact Hk; reflexivity).
    rewrite Ek, W2; [lia|]. rewrite Hvl. assert (length idx <= n); [|lia].
    rewrite <- Hvl. unfold vec, perm_vec. rewrite app_length. lia.
  - intros x Hx. destruct (Hpos x Hx) as [m [Hm [_ Ei]]]. lia.
  - intros x Hx Hl. destruct (Hpos x Hx) as [m [Hm [Em Ei]]]. rewrite Ei in Hl.
    rewrite <- Em. unfold vec, perm_vec. rewrite app_nth1 by exact Hl. apply nth_In. exact Hl.
Qed.

(* ------------------------------------------------------------------------------------------------ *)
(* triangularity of the permuted leading block                                                      *)
(* ------------------------------------------------------------------------------------------------ *)
(* [pivs] is a returned list in the coordinates of the search, accepted by the checker; p, q are the
   permutations built from its rows and columns; an entry (i, j) of the structure is moved to
   (p[i], q[j]).  Inside the leading r x r block every entry lies on or above the diagonal and the
   k-th diagonal entry is the k-th pivot. *)
Theorem triangular_block : forall M pivs, wf_str M -> pivots_ok M pivs = true ->
  exists p q, perm_for_indices (m_rows M) (map fst pivs) = Some p /\
              perm_for_indices (m_cols M) (map snd pivs) = Some q /\
    let r := length pivs in
    (forall k, k < r -> nth (fst (nth k pivs (0, 0))) p 0 = k /\ nth (snd (nth k pivs (0, 0))) q 0 = k /\
                        In (snd (nth k pivs (0, 0))) (cols_in M (fst (nth k pivs (0, 0)))) /\
                        is_cand M (fst (nth k pivs (0, 0))) (snd (nth k pivs (0, 0))) = true) /\
    (forall i j, In j (cols_in M i) -> nth i p 0 < r -> nth j q 0 < r -> nth i p 0 <= nth j q 0).
Proof.
  intros M pivs Hwf Hok. apply pivots_ok_sound in Hok. destruct Hok as [Hr [Hc [He Htri]]].
  assert (Hrl : forall i, In i (map fst pivs) -> i < m_rows M).
  { intros i Hi. apply in_map_iff in Hi. destruct Hi as [p [E Hp]]. subst. destruct (He p Hp) as [A _]. eapply wf_row_lt; eassumption. }
  assert (Hcl : forall j, In j (map snd pivs) -> j < m_cols M).
  { intros j Hj. apply in_map_iff in Hj. destruct Hj as [p [E Hp]]. subst. destruct (He p Hp) as [A _]. destruct Hwf as [_ [Hcr _]]. eapply Hcr. exact A. }
  destruct (perm_for_indices_spec (m_rows M) (map fst pivs) Hr Hrl) as [p [Ep [Lp [P1 [P2 [P3 P4]]]]]].
  destruct (perm_for_indices_spec (m_cols M) (map snd pivs) Hc Hcl) as [q [Eq [Lq [Q1 [Q2 [Q3 Q4]]]]]].
  rewrite map_length in *.
  exists p, q. cbv zeta. splits; auto.
  - intros k Hk.
    assert (Ef : nth k (map fst pivs) 0 = fst (nth k pivs (0, 0))) by (change 0 with (fst (0, 0)) at 1; apply map_nth).
    assert (Es : nth k (map snd pivs) 0 = snd (nth k pivs (0, 0))) by (change 0 with (snd (0, 0)) at 1; apply map_nth).
    rewrite <- Ef, <- Es. rewrite P1, Q1 by exact Hk. rewrite Ef, Es.
    destruct (He (nth k pivs (0, 0)) (nth_In _ _ Hk)) as [A B]. splits; auto.
  - intros i j Hij Hpi Hqj.
    assert (Hi : i < m_rows M) by (eapply wf_row_lt; eassumption).
    assert (Hj : j < m_cols M) by (destruct Hwf as [_ [Hcr _]]; eapply Hcr; exact Hij).
    pose proof (P3 i Hi Hpi) as Hin_i. pose proof (Q3 j Hj Hqj) as Hin_j.
    set (a := nth i p 0) in *. set (b := nth j q 0) in *.
    (* i is the row of the a-th pivot, j the column of the b-th *)
    assert (Ea : fst (nth a pivs (0, 0)) = i).
    { assert (Ef : nth a (map fst pivs) 0 = fst (nth a pivs (0, 0))) by (change 0 with (fst (0, 0)) at 1; apply map_nth).
      rewrite <- Ef. apply P4; [apply Hrl; apply nth_In; rewrite map_length; exact Hpi | exact Hi|].
      rewrite P1 by exact Hpi. reflexivity. }
    assert (Eb : snd (nth b pivs (0, 0)) = j).
    { assert (Es : nth b (map snd pivs) 0 = snd (nth b pivs (0, 0))) by (change 0 with (snd (0, 0)) at 1; apply map_nth).
      rewrite <- Es. apply Q4; [apply Hcl; apply nth_In; rewrite map_length; exact Hqj | exact Hj|].
      rewrite Q1 by exact Hqj. reflexivity. }
    destruct (Nat.le_gt_cases a b) as [Hle|Hgt]; [exact Hle|]. exfalso.
    (* b < a: the b-th pivot precedes the a-th, so its column must not occur in the a-th pivot row *)
    destruct (nth_split pivs (0, 0) Hqj) as [l1 [l2 [El Hl1]]].
    remember (nth b pivs (0, 0)) as x eqn:Ex.
    assert (Hlen : length pivs = length l1 + S (length l2)) by (rewrite El, app_length; reflexivity).
    apply (Htri l1 x l2 El (nth a pivs (0, 0))).
    + rewrite El. rewrite app_nth2 by lia. rewrite Hl1.
      destruct (a - b) as [|d] eqn:Ed; [lia|]. cbn [nth]. apply nth_In. lia.
    + rewrite Ea, Eb. exact Hij.
Qed.
