(* C07 / C03 - universal coefficients as a theorem about actual ranks modulo a prime (and over Q).
   Part 1: generic facts and the abstract statement.

   [complex_rank_bound]  over an integral domain, d2 * d1 = 0 forces rank d1 + rank d2 <= n (the ranks being the
                         sizes of ANY diagonal forms with non-zero entries), so "n - rank d1 - rank d2" is never a
                         truncated subtraction;
   [hom_zero_prod]       a homomorphism of ring dictionaries maps a complex to a complex;
   [uct_abstract]        d1 : Z^n0 -> Z^n1, d2 : Z^n1 -> Z^n2, d2 * d1 = 0, chain Smith forms diag(a), diag(b) over Z,
                         ANY Smith-type forms of the reduced matrices over F_p, of sizes rp1 and rp2:
                             n1 - rp1 - rp2 = (n1 - r1 - r2) + #{k : p | a_k} + #{k : p | b_k};
   [cnt_div_non_units]   #{k : p | a_k} counts the NON-UNIT factors divisible by p (a unit is prime to p), i.e. the
                         torsion coefficients the homology code lists ([non_units isu (map a (seq 0 r))]);
   [rank_over_Q]         the rank over Q (any Smith-type form over the rationals of the same matrix) is the number of
                         integral invariant factors. *)
From Coq Require Import ZArith Znumtheory Arith List Lia Ring Bool QArith Qcanon.
Require Import Yui.Base.Ring Yui.Base.MatF Yui.Model.Snf.
Require Import Yui.Proofs.C07Algebra Yui.Proofs.C07Rank Yui.Proofs.C09UniqueKer Yui.Proofs.C09UniqueModP.
Require Import Yui.Proofs.C09Inv Yui.Proofs.C09Laws.
Import ListNotations.
Local Close Scope Q_scope.
Local Close Scope Qc_scope.
Local Close Scope Z_scope.

(* ---------- the rank bound of a complex ---------- *)
Section RankBound.
  Context {R : Type} (o : ring_ops R) (L : ring_laws o) (Hint : integral o).

  Local Notation "0" := (rzero o).
  Local Notation "1" := (rone o).
  Local Infix "+" := (radd o).
  Local Infix "*" := (rmul o).

  Add Ring RringUct : (ring_theory_of_laws o L).

  Lemma mvec_mid n (x : nat -> R) i : (i < n)%nat -> mvec o n (mid o) x i = x i.
  Proof.
    intros Hi. unfold mvec, mid. rewrite (sum_single o L n i).
    - rewrite Nat.eqb_refl. ring.
    - exact Hi.
    - intros k Hk Hne. destruct (Nat.eqb_spec i k); [congruence|ring].
  Qed.

  (* d1 : n x m,  d2 : k x n *)
  Theorem complex_rank_bound n m k (d1 d2 : mat R) r1 a r2 b :
    meq k m (mmul o n d2 d1) (mzero o) ->
    smith_form o n m d1 r1 a -> smith_form o k n d2 r2 b -> (r1 + r2 <= n)%nat.
  Proof.
    intros Hdd [P1 [Pi1 [Q1 [Qi1 [HP1 [HQ1 [He1 [Hnz1 Hr1]]]]]]]] [P2 [Pi2 [Q2 [Qi2 [HP2 [HQ2 [He2 [Hnz2 Hr2]]]]]]]].
    pose proof (form_smith o n m d1 r1 a P1 Pi1 Q1 Qi1 HP1 HQ1 He1 Hnz1 Hr1) as S1.
    pose proof (form_smith o k n d2 r2 b P2 Pi2 Q2 Qi2 HP2 HQ2 He2 Hnz2 Hr2) as S2.
    destruct (le_lt_dec (r1 + r2) n) as [Hle|Hlt]; [exact Hle|exfalso].
    set (M := mmul o n Qi2 Pi1).
    (* the r2 x r1 corner of M = Q2^-1 P1^-1 vanishes *)
    assert (HM : forall i j, (i < r2)%nat -> (j < r1)%nat -> M i j = 0).
    { intros i j Hi Hj.
      assert (Hik : (i < k)%nat) by lia. assert (Hjm : (j < m)%nat) by lia.
      assert (Z0 : mmul o n (mmul o k P2 d2) (mmul o m d1 Q1) i j = 0).
      { rewrite (mmul_assoc o L). apply (mmul_zero_col o L). intros l Hl.
        rewrite <- (mmul_assoc o L). apply (mmul_zero_row o L). intros l' Hl'. now apply Hdd. }
      assert (E : mmul o n (mmul o k P2 d2) (mmul o m d1 Q1) i j = b i * a j * M i j).
      { unfold M. unfold mmul at 1 4. rewrite <- (sum_scal_l o L). apply (sum_ext o). intros l Hl.
        rewrite (smith_PA_entry o L _ _ _ _ _ _ _ _ _ S2) by assumption.
        rewrite (smith_AQ_entry o L _ _ _ _ _ _ _ _ _ S1) by assumption.
        destruct (Nat.ltb_spec i r2); [|lia]. destruct (Nat.ltb_spec j r1); [|lia].
        unfold dg. rewrite !Nat.eqb_refl.
        destruct (Nat.ltb_spec i r2); [|lia]. destruct (Nat.ltb_spec j r1); [|lia]. cbn [andb]. ring. }
      rewrite E in Z0.
      destruct (proj2 Hint _ _ Z0) as [Z1|Z1]; [|exact Z1].
      destruct (proj2 Hint _ _ Z1) as [Z2|Z2]; [now apply Hnz2 in Z2|now apply Hnz1 in Z2]. }
    (* a non-trivial x supported on [0, r1) killed by the rows r2 .. n-1 of M *)
    destruct (kernel_vector o L Hint (n - r2) r1 (fun i j => M (r2 + i)%nat j) ltac:(lia)) as [x [[j0 [Hj0 Hx0]] Hker]].
    set (xt := fun j => if j <? r1 then x j else 0).
    assert (Hr1n : (r1 <= n)%nat) by lia.
    assert (HMx : forall i, (i < n)%nat -> mvec o n M xt i = 0).
    { intros i Hi. unfold mvec.
      destruct (Nat.lt_ge_cases i r2) as [Hi2|Hi2].
      - apply (sum_zero_ext o L). intros j Hj. unfold xt.
        destruct (Nat.ltb_spec j r1); [rewrite HM by assumption|]; ring.
      - replace n with (r1 + (n - r1))%nat at 1 by lia. rewrite (sum_split o L).
        rewrite (sum_zero_ext o L (n - r1)).
        + rewrite (sum_ext o r1 _ (fun j => M (r2 + (i - r2))%nat j * x j)).
          * rewrite (Hker (i - r2)%nat) by lia. ring.
          * intros j Hj. unfold xt. destruct (Nat.ltb_spec j r1); [|lia].
            replace (r2 + (i - r2))%nat with i by lia. reflexivity.
        + intros j Hj. unfold xt. destruct (Nat.ltb_spec (r1 + j) r1); [lia|ring]. }
    (* but M is invertible: xt = (P1 Q2) M xt = 0 *)
    apply Hx0.
    assert (Hj0n : (j0 < n)%nat) by lia.
    assert (Ex : xt j0 = x j0) by (unfold xt; destruct (Nat.ltb_spec j0 r1); [reflexivity|lia]).
    rewrite <- Ex. rewrite <- (mvec_mid n xt j0 Hj0n).
    rewrite (mvec_ext_row o _ (mmul o n (mmul o n P1 Q2) M)).
    - rewrite (mvec_mmul o L). apply (mvec_zero o L). exact HMx.
    - intros l Hl. unfold M. rewrite (mmul_assoc o L).
      rewrite (mmul_ext_r o n P1 _ Pi1).
      + symmetry. now apply HP1.
      + intros l' Hl'. apply (mmul_cancel_l o L); [apply HQ2|exact Hl'].
  Qed.
End RankBound.

(* ---------- homomorphisms ---------- *)
Section HomZero.
  Context {R R' : Type} (o : ring_ops R) (o' : ring_ops R') (phi : R -> R').
  Hypothesis phi0 : phi (rzero o) = rzero o'.
  Hypothesis phi_add : forall a b, phi (radd o a b) = radd o' (phi a) (phi b).
  Hypothesis phi_mul : forall a b, phi (rmul o a b) = rmul o' (phi a) (phi b).

  Lemma hom_zero_prod n m k (d1 d2 : mat R) :
    meq k m (mmul o n d2 d1) (mzero o) ->
    meq k m (mmul o' n (fun i j => phi (d2 i j)) (fun i j => phi (d1 i j))) (mzero o').
  Proof.
    intros H i j Hi Hj.
    change (mmul o' n (mmap phi d2) (mmap phi d1) i j = mzero o' i j).
    rewrite <- (phi_mmul o o' phi phi0 phi_add phi_mul). rewrite (H i j Hi Hj). exact phi0.
  Qed.
End HomZero.

(* ---------- counting ---------- *)
Lemma filter_map_length {A B} (f : B -> bool) (g : A -> B) l :
  length (filter f (map g l)) = length (filter (fun x => f (g x)) l).
Proof.
  induction l as [|x l IH]; [reflexivity|]. cbn [map filter]. destruct (f (g x)); cbn [length]; now rewrite IH.
Qed.

Lemma filter_filter_implied {A} (f g : A -> bool) l :
  (forall x, In x l -> f x = true -> g x = true) -> filter f (filter g l) = filter f l.
Proof.
  induction l as [|x l IH]; intros H; [reflexivity|]. cbn [filter].
  assert (IH' : filter f (filter g l) = filter f l) by (apply IH; intros y Hy; apply H; now right).
  destruct (g x) eqn:Eg.
  - cbn [filter]. now rewrite IH'.
  - destruct (f x) eqn:Ef; [|exact IH']. rewrite (H x (or_introl eq_refl) Ef) in Eg. discriminate.
Qed.

Section UctZ.
  Open Scope Z_scope.
  Variable p : Z.
  Hypothesis Hp : prime p.

  Let pgt : 1 < p := p_gt_1 p Hp.

  (* [pdiv t]: p divides t *)
  Definition pdiv (t : Z) : bool := t mod p =? 0.

  Lemma pdiv_spec t : pdiv t = true <-> (p | t).
  Proof. unfold pdiv. rewrite Z.eqb_eq. apply Z.mod_divide. lia. Qed.

  Lemma cnt_div_list a r : cnt_div p a r = length (filter pdiv (map a (seq 0 r))).
  Proof. unfold cnt_div. now rewrite filter_map_length. Qed.

  (* a unit is prime to p *)
  Lemma unit_not_pdiv a b : a * b = 1 -> pdiv a = false.
  Proof.
    intros H. destruct (pdiv a) eqn:E; [|reflexivity]. apply pdiv_spec in E.
    assert (D : (p | 1)) by (rewrite <- H; now apply Z.divide_mul_l).
    apply Z.divide_1_r_nonneg in D; lia.
  Qed.

  (* the factors divisible by p are non-units: the count only sees the torsion coefficients *)
  Lemma cnt_div_non_units (isu : Z -> bool) a r :
    (forall x, isu x = true -> exists y, x * y = 1) ->
    cnt_div p a r = length (filter pdiv (filter (fun x => negb (isu x)) (map a (seq 0 r)))).
  Proof.
    intros Hs. rewrite cnt_div_list. f_equal. symmetry. apply filter_filter_implied.
    intros x _ Hx. destruct (isu x) eqn:E; [|reflexivity].
    destruct (Hs x E) as [y Hy]. rewrite (unit_not_pdiv x y Hy) in Hx. discriminate.
  Qed.

  Let Lp : ring_laws (fp_ring p) := fp_ring_laws p Hp.
  Let Ip : integral (fp_ring p) := sl_integral (fp_dict p) (fp_snf_laws p Hp).

  Definition redp (A : mat Z) : mat (fp p) := fun i j => fp_mk p (A i j).

  Lemma redp_zero_prod n m k (d1 d2 : mat Z) :
    meq k m (mmul Z_ring n d2 d1) (mzero Z_ring) ->
    meq k m (mmul (fp_ring p) n (redp d2) (redp d1)) (mzero (fp_ring p)).
  Proof.
    apply (hom_zero_prod Z_ring (fp_ring p) (fp_mk p) eq_refl (fp_mk_add p) (fp_mk_mul p)).
  Qed.

  Theorem uct_abstract n0 n1 n2 (d1 d2 : mat Z) r1 a r2 b rp1 c1 rp2 c2 :
    meq n2 n0 (mmul Z_ring n1 d2 d1) (mzero Z_ring) ->
    smith_form Z_ring n1 n0 d1 r1 a -> (forall k, (S k < r1)%nat -> (a k | a (S k))) ->
    smith_form Z_ring n2 n1 d2 r2 b -> (forall k, (S k < r2)%nat -> (b k | b (S k))) ->
    smith_form (fp_ring p) n1 n0 (redp d1) rp1 c1 ->
    smith_form (fp_ring p) n2 n1 (redp d2) rp2 c2 ->
    (r1 + r2 <= n1)%nat /\ (rp1 + rp2 <= n1)%nat /\
    meq n2 n0 (mmul (fp_ring p) n1 (redp d2) (redp d1)) (mzero (fp_ring p)) /\
    (rp1 + cnt_div p a r1 = r1)%nat /\ (rp2 + cnt_div p b r2 = r2)%nat /\
    (n1 - rp1 - rp2 = (n1 - r1 - r2) + cnt_div p a r1 + cnt_div p b r2)%nat.
  Proof.
    intros Hdd F1 C1 F2 C2 G1 G2.
    pose proof (complex_rank_bound Z_ring Z_ring_laws Z_integral n1 n0 n2 d1 d2 r1 a r2 b Hdd F1 F2) as B.
    pose proof (redp_zero_prod n1 n0 n2 d1 d2 Hdd) as Hddp.
    pose proof (complex_rank_bound (fp_ring p) Lp Ip n1 n0 n2 _ _ rp1 c1 rp2 c2 Hddp G1 G2) as Bp.
    destruct (modp_rank p Hp n1 n0 d1 r1 a rp1 c1 F1 C1 G1) as [_ E1].
    destruct (modp_rank p Hp n2 n1 d2 r2 b rp2 c2 F2 C2 G2) as [_ E2].
    repeat split; try assumption. lia.
  Qed.
End UctZ.

(* ---------- Z -> Q ---------- *)
Section RankQ.
  Definition z2q (a : Z) : Qc := Q2Qc (inject_Z a).

  Lemma z2q_add a b : z2q (a + b) = Qcplus (z2q a) (z2q b).
  Proof.
    unfold z2q, Qcplus. apply Qc_is_canon. cbn [this Q2Qc]. rewrite !Qred_correct, inject_Z_plus. reflexivity.
  Qed.

  Lemma z2q_mul a b : z2q (a * b) = Qcmult (z2q a) (z2q b).
  Proof.
    unfold z2q, Qcmult. apply Qc_is_canon. cbn [this Q2Qc]. rewrite !Qred_correct, inject_Z_mult. reflexivity.
  Qed.

  Lemma z2q_zero_iff a : z2q a = Q2Qc 0 <-> a = 0%Z.
  Proof.
    split; [|intros ->; reflexivity]. intros H.
    assert (E : Qeq (z2q a) (Q2Qc 0)) by (rewrite H; reflexivity).
    unfold z2q in E. cbn [this Q2Qc] in E. rewrite !Qred_correct in E.
    unfold Qeq, inject_Z in E. cbn [Qnum Qden] in E. lia.
  Qed.

  Definition redq (A : mat Z) : mat Qc := fun i j => z2q (A i j).

  (* the image of an integral Smith-type form is one over Q of the same size *)
  Lemma Q_smith_form m n (A : mat Z) r a :
    smith_form Z_ring m n A r a -> smith_form Q_ring m n (redq A) r (fun k => z2q (a k)).
  Proof.
    intros F. pose proof F as [_ [_ [_ [_ [_ [_ [_ [Hnz _]]]]]]]].
    apply (hom_smith_form Z_ring Q_ring z2q eq_refl eq_refl z2q_add z2q_mul m n A r a r F).
    - lia.
    - intros k Hk E. apply z2q_zero_iff in E. exact (Hnz k Hk E).
    - intros k H1 H2. lia.
  Qed.

  Theorem rank_over_Q m n (A : mat Z) r a rq c :
    smith_form Z_ring m n A r a -> smith_form Q_ring m n (redq A) rq c -> rq = r.
  Proof.
    intros F Fq.
    exact (smith_form_rank_unique Q_ring Q_ring_laws (sl_integral Q_dict Q_snf_laws) m n _ _ _ _ _ Fq (Q_smith_form m n A r a F)).
  Qed.

  Lemma redq_zero_prod n m k (d1 d2 : mat Z) :
    meq k m (mmul Z_ring n d2 d1) (mzero Z_ring) ->
    meq k m (mmul Q_ring n (redq d2) (redq d1)) (mzero Q_ring).
  Proof. apply (hom_zero_prod Z_ring Q_ring z2q eq_refl z2q_add z2q_mul). Qed.

  (* the Betti number over Q is the integral free rank *)
  Theorem uct_Q n0 n1 n2 (d1 d2 : mat Z) r1 a r2 b rq1 c1 rq2 c2 :
    smith_form Z_ring n1 n0 d1 r1 a -> smith_form Z_ring n2 n1 d2 r2 b ->
    smith_form Q_ring n1 n0 (redq d1) rq1 c1 -> smith_form Q_ring n2 n1 (redq d2) rq2 c2 ->
    (n1 - rq1 - rq2 = n1 - r1 - r2)%nat.
  Proof.
    intros F1 F2 G1 G2.
    now rewrite (rank_over_Q _ _ _ _ _ _ _ F1 G1), (rank_over_Q _ _ _ _ _ _ _ F2 G2).
  Qed.
End RankQ.
