(* C03Big, part 3: into_bigraded only moves summands: total rank and the multiset of torsion orders are conserved
   (by the table always; by the grid when all q-degrees have one parity), per homological degree and in total. *)
From Coq Require Import List ZArith Bool Lia Permutation.
Require Import Yui.Model.IntoBigraded Yui.Proofs.C03BigTable Yui.Proofs.C03BigGrid.
Import ListNotations.
Open Scope Z_scope.

(* ---------- sums over a duplicate-free list of keys that covers the keys of the generators ---------- *)
Fixpoint ksum (f : key -> nat) (S : list key) : nat :=
  match S with [] => O | k :: S' => (f k + ksum f S')%nat end.

Lemma ksum_add : forall f g S, ksum (fun k => (f k + g k)%nat) S = (ksum f S + ksum g S)%nat.
Proof. intros f g S. induction S as [|k S IH]; [reflexivity|]. cbn [ksum] in *. rewrite IH. lia. Qed.

Lemma ksum_ext : forall f g S, (forall k, f k = g k) -> ksum f S = ksum g S.
Proof. intros f g S H. induction S as [|k S IH]; [reflexivity|]. cbn [ksum] in *. rewrite H, IH. reflexivity. Qed.

Lemma ksum_zero : forall f S, (forall k, In k S -> f k = O) -> ksum f S = O.
Proof.
  intros f S H. induction S as [|k S IH]; [reflexivity|]. cbn [ksum].
  rewrite (H k) by (left; reflexivity). apply IH. intros k' Hk'. apply H. right. exact Hk'.
Qed.

Lemma ksum_indicator : forall k0 (c : bool) S, NoDup S -> In k0 S ->
  ksum (fun k => if key_eqb k k0 && c then 1%nat else O) S = if c then 1%nat else O.
Proof.
  intros k0 c S Hnd. induction Hnd as [|k S Hn Hnd IH]; intros Hin; [destruct Hin|].
  cbn [ksum]. destruct (key_eqb k k0) eqn:E.
  - apply key_eqb_spec in E. subst k. rewrite ksum_zero.
    + cbn [andb]. destruct c; reflexivity.
    + intros k' Hk'. destruct (key_eqb k' k0) eqn:E'; [|reflexivity].
      apply key_eqb_spec in E'. subst. contradiction.
  - cbn [andb]. apply key_eqb_false in E. destruct Hin as [Hin|Hin]; [congruence|]. apply IH. exact Hin.
Qed.

Lemma flat_map_nil : forall (f : key -> list Z) S, (forall k, In k S -> f k = []) -> flat_map f S = [].
Proof.
  intros f S H. induction S as [|k S IH]; [reflexivity|]. cbn [flat_map].
  rewrite (H k) by (left; reflexivity). apply IH. intros k' Hk'. apply H. right. exact Hk'.
Qed.

Lemma flat_map_indicator : forall k0 (l : list Z) S, NoDup S -> In k0 S ->
  flat_map (fun k => if key_eqb k k0 then l else []) S = l.
Proof.
  intros k0 l S Hnd. induction Hnd as [|k S Hn Hnd IH]; intros Hin; [destruct Hin|].
  cbn [flat_map]. destruct (key_eqb k k0) eqn:E.
  - apply key_eqb_spec in E. subst k. rewrite flat_map_nil; [apply app_nil_r|].
    intros k' Hk'. destruct (key_eqb k' k0) eqn:E'; [|reflexivity].
    apply key_eqb_spec in E'. subst. contradiction.
  - apply key_eqb_false in E. destruct Hin as [Hin|Hin]; [congruence|]. apply IH. exact Hin.
Qed.

Lemma flat_map_app_perm : forall (f g : key -> list Z) S,
  Permutation (flat_map (fun k => f k ++ g k) S) (flat_map f S ++ flat_map g S).
Proof.
  intros f g S. induction S as [|k S IH]; [constructor|]. cbn [flat_map].
  rewrite IH. rewrite <- !app_assoc. apply Permutation_app_head.
  rewrite !app_assoc. apply Permutation_app_tail. apply Permutation_app_comm.
Qed.

Lemma loc_cell_cons : forall k x L,
  loc_cell k (x :: L)
  = (((if key_eqb k (fst x) && is_free_b (snd x) then 1 else 0) + fst (loc_cell k L))%nat,
     (if key_eqb k (fst x) then tor_list (snd x) else []) ++ snd (loc_cell k L)).
Proof.
  intros k x L. unfold loc_cell. cbn [filter flat_map fst snd].
  destruct (key_eqb k (fst x) && is_free_b (snd x)); reflexivity.
Qed.

Lemma partition_rank : forall S L, NoDup S -> (forall x, In x L -> In (fst x) S) ->
  ksum (fun k => fst (loc_cell k L)) S = length (filter (fun x => is_free_b (snd x)) L).
Proof.
  intros S L Hnd. induction L as [|x L IH]; intros Hc.
  - apply ksum_zero. intros; reflexivity.
  - rewrite (ksum_ext (fun k => fst (loc_cell k (x :: L)))
               (fun k => ((if key_eqb k (fst x) && is_free_b (snd x) then 1 else 0) + fst (loc_cell k L))%nat) S).
    2: { intros k. rewrite loc_cell_cons. reflexivity. }
    rewrite ksum_add, IH by (intros y Hy; apply Hc; right; exact Hy).
    rewrite ksum_indicator by (try exact Hnd; apply Hc; left; reflexivity).
    cbn [filter]. destruct (is_free_b (snd x)); reflexivity.
Qed.

Lemma partition_tors : forall S L, NoDup S -> (forall x, In x L -> In (fst x) S) ->
  Permutation (flat_map (fun k => snd (loc_cell k L)) S) (flat_map (fun x => tor_list (snd x)) L).
Proof.
  intros S L Hnd. induction L as [|x L IH]; intros Hc.
  - rewrite flat_map_nil; [constructor | intros; reflexivity].
  - rewrite (flat_map_ext (fun k => snd (loc_cell k (x :: L)))
               (fun k => (if key_eqb k (fst x) then tor_list (snd x) else []) ++ snd (loc_cell k L))).
    2: { intros k. rewrite loc_cell_cons. reflexivity. }
    rewrite flat_map_app_perm. cbn [flat_map].
    rewrite flat_map_indicator by (try exact Hnd; apply Hc; left; reflexivity).
    apply Permutation_app_head. apply IH. intros y Hy. apply Hc. right. exact Hy.
Qed.

(* ---------- totals of a list of cells given by a key list ---------- *)
Lemma total_rank_map : forall (f : key -> cell) S,
  total_rank (map (fun idx => (idx, f idx)) S) = ksum (fun k => fst (f k)) S.
Proof.
  intros f S. induction S as [|k S IH]; [reflexivity|]. unfold total_rank in *. cbn [map fold_right ksum snd].
  rewrite IH. reflexivity.
Qed.

Lemma all_tors_map : forall (f : key -> cell) S,
  all_tors (map (fun idx => (idx, f idx)) S) = flat_map (fun k => snd (f k)) S.
Proof.
  intros f S. induction S as [|k S IH]; [reflexivity|]. unfold all_tors in *. cbn [map flat_map snd].
  rewrite IH. reflexivity.
Qed.

(* ---------- the input totals in terms of located generators ---------- *)
Lemma free_count_locate : forall i gs,
  length (filter (fun x => is_free_b (snd x)) (locate i gs)) = length (filter (fun g => is_free_b (fst g)) gs).
Proof.
  intros i gs. induction gs as [|[g qs] gs IH]; [reflexivity|].
  change (locate i ((g, qs) :: gs)) with (((i, chain_q_deg qs), g) :: locate i gs). cbn [filter fst snd].
  destruct (is_free_b g); cbn [length]; rewrite IH; reflexivity.
Qed.

Lemma tors_locate : forall i gs,
  flat_map (fun x => tor_list (snd x)) (locate i gs) = flat_map (fun g => tor_list (fst g)) gs.
Proof.
  intros i gs. induction gs as [|[g qs] gs IH]; [reflexivity|].
  change (locate i ((g, qs) :: gs)) with (((i, chain_q_deg qs), g) :: locate i gs). cbn [flat_map fst snd].
  rewrite IH. reflexivity.
Qed.

Lemma free_count_tagged : forall s, length (filter (fun g => is_free_b (fst g)) (tagged s)) = length (si_free s).
Proof.
  intros s. unfold tagged. rewrite filter_app, app_length.
  assert (A : forall l : list (list Z), length (filter (fun g => is_free_b (fst g)) (map (fun qs => (GFree, qs)) l)) = length l).
  { induction l as [|qs l IH]; [reflexivity|]. cbn [map filter fst is_free_b length]. rewrite IH. reflexivity. }
  assert (B : forall l : list (Z * list Z),
     filter (fun g => is_free_b (fst g)) (map (fun p => (GTor (fst p), snd p)) l) = []).
  { induction l as [|p l IH]; [reflexivity|]. cbn [map filter fst is_free_b]. exact IH. }
  rewrite A, B. cbn [length]. lia.
Qed.

Lemma tors_tagged : forall s, flat_map (fun g => tor_list (fst g)) (tagged s) = map fst (si_tors s).
Proof.
  intros s. unfold tagged. rewrite flat_map_app.
  assert (A : forall l : list (list Z), flat_map (fun g => tor_list (fst g)) (map (fun qs => (GFree, qs)) l) = []).
  { induction l as [|qs l IH]; [reflexivity|]. cbn [map flat_map fst tor_list app]. exact IH. }
  assert (B : forall l : list (Z * list Z),
     flat_map (fun g => tor_list (fst g)) (map (fun p => (GTor (fst p), snd p)) l) = map fst l).
  { induction l as [|p l IH]; [reflexivity|]. cbn [map flat_map fst tor_list app]. rewrite IH. reflexivity. }
  rewrite A, B. reflexivity.
Qed.

Lemma free_count_all_located : forall hs,
  length (filter (fun x => is_free_b (snd x)) (all_located hs)) = sum_ranks hs.
Proof.
  intros hs. induction hs as [|[i s] hs IH]; [reflexivity|].
  change (all_located ((i, s) :: hs)) with (locate i (tagged s) ++ all_located hs).
  change (sum_ranks ((i, s) :: hs)) with ((length (si_free s) + sum_ranks hs)%nat).
  rewrite filter_app, app_length, free_count_locate, free_count_tagged, IH. reflexivity.
Qed.

Lemma tors_all_located : forall hs, flat_map (fun x => tor_list (snd x)) (all_located hs) = sum_tors hs.
Proof.
  intros hs. induction hs as [|[i s] hs IH]; [reflexivity|].
  change (all_located ((i, s) :: hs)) with (locate i (tagged s) ++ all_located hs).
  change (sum_tors ((i, s) :: hs)) with (map fst (si_tors s) ++ sum_tors hs).
  rewrite flat_map_app, tors_locate, tors_tagged, IH. reflexivity.
Qed.

(* ---------- the table conserves everything (no hypothesis) ---------- *)
Lemma cellv_notin : forall k k1 e t, k <> k1 -> cellv k ((k1, e) :: t) = cellv k t.
Proof. intros k k1 e t H. unfold cellv. cbn [tbl_find]. apply key_eqb_false in H. rewrite H. reflexivity. Qed.

Lemma tbl_cells_as_map : forall t, NoDup (map fst t) ->
  tbl_cells t = map (fun k => (k, cellv k t)) (map fst t).
Proof.
  intros t. induction t as [|[k1 e] t IH]; intros Hnd; [reflexivity|].
  cbn [map fst] in Hnd. inversion Hnd as [|? ? Hn Hd]; subst.
  cbn [tbl_cells map fst snd]. f_equal.
  - unfold cellv. cbn [tbl_find]. rewrite key_eqb_refl. reflexivity.
  - fold (tbl_cells t). rewrite (IH Hd). apply map_ext_in. intros k Hk.
    rewrite cellv_notin; [reflexivity|]. intros E. subst. contradiction.
Qed.

Lemma cellv_loc : forall k hs, cellv k (collect_gen_info hs) = loc_cell k (all_located hs).
Proof. intros k hs. rewrite cellv_collect_gen_info. apply gather_zero. Qed.

Lemma collect_gen_info_conservation : forall hs,
  total_rank (tbl_cells (collect_gen_info hs)) = sum_ranks hs /\
  Permutation (all_tors (tbl_cells (collect_gen_info hs))) (sum_tors hs).
Proof.
  intros hs. pose proof (collect_gen_info_keys_nodup hs) as Hnd.
  rewrite (tbl_cells_as_map _ Hnd).
  set (S := map fst (collect_gen_info hs)) in *.
  assert (Hc : forall x, In x (all_located hs) -> In (fst x) S).
  { intros x Hx. apply keys_collect_gen_info. apply in_map. exact Hx. }
  rewrite (total_rank_map (fun k => cellv k (collect_gen_info hs)) S).
  rewrite (all_tors_map (fun k => cellv k (collect_gen_info hs)) S).
  split.
  - rewrite (ksum_ext _ (fun k => fst (loc_cell k (all_located hs)))) by (intros k; rewrite cellv_loc; reflexivity).
    rewrite (partition_rank S _ Hnd Hc). apply free_count_all_located.
  - rewrite (flat_map_ext _ (fun k => snd (loc_cell k (all_located hs)))) by (intros k; rewrite cellv_loc; reflexivity).
    rewrite (partition_tors S _ Hnd Hc). rewrite tors_all_located. apply Permutation_refl.
Qed.

(* ---------- the grid conserves everything when the q-degrees have one parity ---------- *)
Lemma same_parity_covers : forall hs, same_parity hs ->
  forall x, In x (all_located hs) -> In (fst x) (ib_support (collect_gen_info hs)).
Proof.
  intros hs Hp [[i j] g] Hx. apply in_all_located in Hx. destruct Hx as [qs [Hin Hq]]. cbn [fst snd] in *.
  subst j. apply (same_parity_on_grid hs i g qs Hp Hin).
Qed.

Lemma into_bigraded_conservation : forall hs, same_parity hs ->
  total_rank (into_bigraded hs) = sum_ranks hs /\ Permutation (all_tors (into_bigraded hs)) (sum_tors hs).
Proof.
  intros hs Hp. unfold into_bigraded.
  set (S := ib_support (collect_gen_info hs)).
  pose proof (ib_support_nodup (collect_gen_info hs)) as Hnd. fold S in Hnd.
  pose proof (same_parity_covers hs Hp) as Hc. fold S in Hc.
  rewrite (total_rank_map (fun idx => cell_of (tbl_find idx (collect_gen_info hs))) S).
  rewrite (all_tors_map (fun idx => cell_of (tbl_find idx (collect_gen_info hs))) S).
  split.
  - rewrite (ksum_ext _ (fun k => fst (loc_cell k (all_located hs))))
      by (intros k; fold (cellv k (collect_gen_info hs)); rewrite cellv_loc; reflexivity).
    rewrite (partition_rank S _ Hnd Hc). apply free_count_all_located.
  - rewrite (flat_map_ext _ (fun k => snd (loc_cell k (all_located hs))))
      by (intros k; fold (cellv k (collect_gen_info hs)); rewrite cellv_loc; reflexivity).
    rewrite (partition_tors S _ Hnd Hc). rewrite tors_all_located. apply Permutation_refl.
Qed.

(* ---------- per homological degree ---------- *)
Definition at_deg (i : Z) (L : list (key * gkind)) : list (key * gkind) := filter (fun x => fst (fst x) =? i) L.

Lemma at_deg_locate_same : forall i gs, at_deg i (locate i gs) = locate i gs.
Proof.
  intros i gs. induction gs as [|[g qs] gs IH]; [reflexivity|].
  change (locate i ((g, qs) :: gs)) with (((i, chain_q_deg qs), g) :: locate i gs).
  unfold at_deg in *. cbn [filter fst snd]. rewrite Z.eqb_refl. f_equal. exact IH.
Qed.

Lemma at_deg_locate_other : forall i i' gs, i' <> i -> at_deg i (locate i' gs) = [].
Proof.
  intros i i' gs H. induction gs as [|[g qs] gs IH]; [reflexivity|].
  change (locate i' ((g, qs) :: gs)) with (((i', chain_q_deg qs), g) :: locate i' gs).
  unfold at_deg in *. cbn [filter fst snd]. apply Z.eqb_neq in H. rewrite H. exact IH.
Qed.

Lemma at_deg_all_located : forall i hs, at_deg i (all_located hs) = locate i (gens_at hs i).
Proof.
  intros i hs. induction hs as [|[i' s] hs IH]; [reflexivity|].
  change (all_located ((i', s) :: hs)) with (locate i' (tagged s) ++ all_located hs).
  change (gens_at ((i', s) :: hs) i) with ((if i' =? i then tagged s else []) ++ gens_at hs i).
  unfold at_deg in *. rewrite filter_app. unfold locate at 2. rewrite map_app.
  apply f_equal2; [|exact IH].
  destruct (i' =? i) eqn:E.
  - apply Z.eqb_eq in E. subst. exact (at_deg_locate_same i (tagged s)).
  - apply Z.eqb_neq in E. exact (at_deg_locate_other i i' (tagged s) E).
Qed.

Lemma loc_cell_at_deg : forall k L, loc_cell k L = loc_cell k (at_deg (fst k) L).
Proof.
  intros k L. induction L as [|x L IH]; [reflexivity|].
  change (at_deg (fst k) (x :: L))
    with (if fst (fst x) =? fst k then x :: at_deg (fst k) L else at_deg (fst k) L).
  destruct (fst (fst x) =? fst k) eqn:E.
  - rewrite !loc_cell_cons, <- IH. reflexivity.
  - rewrite loc_cell_cons, <- IH.
    assert (F : key_eqb k (fst x) = false).
    { apply key_eqb_false. intros H. subst k. rewrite Z.eqb_refl in E. discriminate. }
    rewrite F. cbn [andb]. destruct (loc_cell k L); reflexivity.
Qed.

Lemma ib_row_map : forall i (f : key -> cell) S,
  ib_row i (map (fun idx => (idx, f idx)) S) = map (fun idx => (idx, f idx)) (filter (fun k => fst k =? i) S).
Proof.
  intros i f S. induction S as [|k S IH]; [reflexivity|]. cbn [map ib_row filter fst] in *.
  destruct (fst k =? i); [cbn [map]; f_equal|]; exact IH.
Qed.

Lemma into_bigraded_conservation_degree : forall hs i, same_parity hs ->
  total_rank (ib_row i (into_bigraded hs)) = length (filter (fun g => is_free_b (fst g)) (gens_at hs i)) /\
  Permutation (all_tors (ib_row i (into_bigraded hs))) (flat_map (fun g => tor_list (fst g)) (gens_at hs i)).
Proof.
  intros hs i Hp. unfold into_bigraded.
  rewrite (ib_row_map i (fun idx => cell_of (tbl_find idx (collect_gen_info hs)))).
  set (S := filter (fun k => fst k =? i) (ib_support (collect_gen_info hs))).
  assert (Hnd : NoDup S) by (apply NoDup_filter; apply ib_support_nodup).
  assert (Hc : forall x, In x (at_deg i (all_located hs)) -> In (fst x) S).
  { intros x Hx. unfold at_deg in Hx. apply filter_In in Hx. destruct Hx as [Hx Hi].
    apply filter_In. split; [apply (same_parity_covers hs Hp x Hx) | exact Hi]. }
  assert (Hk : forall k, In k S -> cell_of (tbl_find k (collect_gen_info hs)) = loc_cell k (at_deg i (all_located hs))).
  { intros k Hk. apply filter_In in Hk. destruct Hk as [_ Hi]. apply Z.eqb_eq in Hi.
    fold (cellv k (collect_gen_info hs)). rewrite cellv_loc, (loc_cell_at_deg k), Hi. reflexivity. }
  rewrite (total_rank_map (fun idx => cell_of (tbl_find idx (collect_gen_info hs))) S).
  rewrite (all_tors_map (fun idx => cell_of (tbl_find idx (collect_gen_info hs))) S).
  split.
  - assert (E : ksum (fun k => fst (cell_of (tbl_find k (collect_gen_info hs)))) S
              = ksum (fun k => fst (loc_cell k (at_deg i (all_located hs)))) S).
    { clear Hnd Hc. induction S as [|k S IH]; [reflexivity|]. cbn [ksum].
      rewrite (Hk k) by (left; reflexivity). f_equal. apply IH. intros k' Hk'. apply Hk. right. exact Hk'. }
    rewrite E, (partition_rank S _ Hnd Hc), at_deg_all_located. apply free_count_locate.
  - assert (E : flat_map (fun k => snd (cell_of (tbl_find k (collect_gen_info hs)))) S
              = flat_map (fun k => snd (loc_cell k (at_deg i (all_located hs)))) S).
    { clear Hnd Hc. induction S as [|k S IH]; [reflexivity|]. cbn [flat_map].
      rewrite (Hk k) by (left; reflexivity). f_equal. apply IH. intros k' Hk'. apply Hk. right. exact Hk'. }
    rewrite E, (partition_tors S _ Hnd Hc), at_deg_all_located, tors_locate. apply Permutation_refl.
Qed.

(* one summand of the total homology: its rank and its torsion orders are those of the row of the new grid *)
Lemma into_bigraded_conservation_summand : forall hs i s,
  NoDup (map fst hs) -> In (i, s) hs -> same_parity hs ->
  total_rank (ib_row i (into_bigraded hs)) = length (si_free s) /\
  Permutation (all_tors (ib_row i (into_bigraded hs))) (map fst (si_tors s)).
Proof.
  intros hs i s Hnd Hin Hp. destruct (into_bigraded_conservation_degree hs i Hp) as [H1 H2].
  rewrite (gens_at_nodup hs i s Hnd Hin) in H1, H2. rewrite free_count_tagged in H1. rewrite tors_tagged in H2.
  auto.
Qed.

(* ---------- the statements of Properties/C03Big.v ---------- *)
Lemma into_bigraded_conservation_full : forall hs, same_parity hs ->
  (total_rank (into_bigraded hs) = sum_ranks hs /\ Permutation (all_tors (into_bigraded hs)) (sum_tors hs)) /\
  (forall i,
     total_rank (ib_row i (into_bigraded hs)) = length (filter (fun g => is_free_b (fst g)) (gens_at hs i)) /\
     Permutation (all_tors (ib_row i (into_bigraded hs))) (flat_map (fun g => tor_list (fst g)) (gens_at hs i))) /\
  (forall i s, NoDup (map fst hs) -> In (i, s) hs ->
     total_rank (ib_row i (into_bigraded hs)) = length (si_free s) /\
     Permutation (all_tors (ib_row i (into_bigraded hs))) (map fst (si_tors s))).
Proof.
  intros hs Hp. split; [|split].
  - apply into_bigraded_conservation. exact Hp.
  - intros i. apply into_bigraded_conservation_degree. exact Hp.
  - intros i s Hnd Hin. apply into_bigraded_conservation_summand; assumption.
Qed.

Lemma into_bigraded_homogeneous_full : forall hs i s,
  NoDup (map fst hs) -> In (i, s) hs -> same_parity hs -> all_homogeneous s ->
  (forall j, ib_get (i, j) (into_bigraded hs)
             = (length (filter (lives_in j) (si_free s)), map fst (filter (fun p => lives_in j (snd p)) (si_tors s)))) /\
  total_rank (ib_row i (into_bigraded hs)) = length (si_free s) /\
  Permutation (all_tors (ib_row i (into_bigraded hs))) (map fst (si_tors s)).
Proof.
  intros hs i s Hnd Hin Hp Hh. split.
  - intros j. apply into_bigraded_homogeneous; assumption.
  - apply into_bigraded_conservation_summand; assumption.
Qed.
