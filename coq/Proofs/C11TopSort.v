(* C11 - Kahn's algorithm (top_sort mirror): on a finite graph with a rank function it returns every
   vertex, predecessors first; fuel suffices and no weight underflows. *)
From Coq Require Import ZArith List Bool Arith Lia Permutation.
Require Import Yui.Model.Pivot Yui.Proofs.C11Base.
Import ListNotations.

(* ------------------------------------------------------------------------------------------------ *)
(* counting                                                                                         *)
(* ------------------------------------------------------------------------------------------------ *)
Lemma count_nat_app : forall v l1 l2, count_nat v (l1 ++ l2) = count_nat v l1 + count_nat v l2.
Proof. intros v l1 l2. induction l1 as [|x r IH]; cbn [count_nat app]; [reflexivity | rewrite IH; lia]. Qed.

Lemma count_nat_pos : forall v l, 0 < count_nat v l <-> In v l.
Proof.
  intros v l. induction l as [|x r IH]; cbn [count_nat In]; [split; [lia | intros []]|].
  destruct (v =? x) eqn:E.
  - apply Nat.eqb_eq in E. subst. split; [intros _; left; reflexivity | lia].
  - apply Nat.eqb_neq in E. rewrite <- IH. split; [intros H; right; lia | intros [H|H]; [exfalso; apply E; symmetry; exact H | lia]].
Qed.

Lemma count_nat_perm : forall v l l', Permutation l l' -> count_nat v l = count_nat v l'.
Proof.
  intros v l l' H. induction H; cbn [count_nat]; try lia.
Qed.

Lemma NoDup_app_intro : forall {A} (l1 l2 : list A), NoDup l1 -> NoDup l2 ->
  (forall x, In x l1 -> ~ In x l2) -> NoDup (l1 ++ l2).
Proof.
  intros A l1 l2 H1 H2 Hd. induction l1 as [|x r IH]; cbn [app]; [exact H2|].
  inversion H1 as [|? ? Hx Hr]; subst. constructor.
  - intros Hin. apply in_app_or in Hin. destruct Hin as [Hin|Hin]; [apply Hx; exact Hin | apply (Hd x); [left; reflexivity | exact Hin]].
  - apply IH; [exact Hr | intros y Hy; apply Hd; right; exact Hy].
Qed.

Lemma NoDup_app_inv : forall {A} (l1 l2 : list A), NoDup (l1 ++ l2) ->
  NoDup l1 /\ NoDup l2 /\ (forall x, In x l1 -> ~ In x l2).
Proof.
  intros A l1 l2. induction l1 as [|x r IH]; cbn [app]; intros H.
  - splits; [constructor | exact H | intros x []].
  - inversion H as [|? ? Hx Hr]; subst. destruct (IH Hr) as [I1 [I2 I3]]. splits.
    + constructor; [intros Hin; apply Hx; apply in_or_app; left; exact Hin | exact I1].
    + exact I2.
    + intros y [Hy|Hy]; [subst; intros Hin; apply Hx; apply in_or_app; right; exact Hin | apply I3; exact Hy].
Qed.

(* the complement of a duplicate-free sublist *)
Lemma split_perm : forall (V S : list nat), NoDup V -> NoDup S -> incl S V ->
  Permutation V (S ++ filter (fun x => negb (memb x S)) V).
Proof.
  intros V S HV HS Hinc. apply NoDup_Permutation; [exact HV | |].
  - apply NoDup_app_intro; [exact HS | apply NoDup_filter; exact HV |].
    intros x Hx Hf. apply filter_In in Hf. destruct Hf as [_ Hf]. apply negb_true_iff in Hf.
    apply memb_false in Hf. apply Hf. exact Hx.
  - intros x. rewrite in_app_iff, filter_In. split.
    + intros Hx. destruct (memb x S) eqn:E; [left; apply memb_In; exact E | right; split; [exact Hx | reflexivity]].
    + intros [Hx|[Hx _]]; [apply Hinc; exact Hx | exact Hx].
Qed.

Lemma flat_map_ext_In : forall {A B} (f g : A -> list B) l,
  (forall a, In a l -> f a = g a) -> flat_map f l = flat_map g l.
Proof.
  intros A B f g l H. induction l as [|x r IH]; [reflexivity|]. cbn [flat_map].
  rewrite (H x (or_introl eq_refl)), IH; [reflexivity|]. intros a Ha. apply H. right. exact Ha.
Qed.

Lemma min_rank : forall (f : nat -> nat) (l : list nat), l <> [] -> exists x, In x l /\ forall y, In y l -> f x <= f y.
Proof.
  intros f l. induction l as [|a r IH]; intros Hne; [exfalso; apply Hne; reflexivity|].
  destruct r as [|b r'].
  - exists a. split; [left; reflexivity | intros y [Hy|[]]; subst; lia].
  - destruct IH as [x [Hx Hmin]]; [discriminate|].
    destruct (Nat.le_gt_cases (f a) (f x)) as [Hle|Hgt].
    + exists a. split; [left; reflexivity|]. intros y [Hy|Hy]; [subst; lia | specialize (Hmin y Hy); lia].
    + exists x. split; [right; exact Hx|]. intros y [Hy|Hy]; [subst; lia | apply Hmin; exact Hy].
Qed.

(* ------------------------------------------------------------------------------------------------ *)
(* Kahn on an abstract graph                                                                        *)
(* ------------------------------------------------------------------------------------------------ *)
Section Kahn.
Variable tree : list (nat * list nat).
Let V := map fst tree.
Let data := tree_get tree.
Hypothesis HV : NoDup V.
Hypothesis Htgt : forall a b, In a V -> In b (data a) -> In b V.
Variable rk : nat -> nat.
Hypothesis Hrk : forall a b, In a V -> In b (data a) -> rk a < rk b.

Definition inflow (S : list nat) (v : nat) : nat := count_nat v (flat_map data S).

Lemma inflow_cons : forall a S v, inflow (a :: S) v = count_nat v (data a) + inflow S v.
Proof. intros a S v. unfold inflow. cbn [flat_map]. apply count_nat_app. Qed.

Lemma inflow_app : forall S S' v, inflow (S ++ S') v = inflow S v + inflow S' v.
Proof. intros S S' v. unfold inflow. rewrite flat_map_app. apply count_nat_app. Qed.

Lemma inflow_perm : forall S S' v, Permutation S S' -> inflow S v = inflow S' v.
Proof.
  intros S S' v H. induction H.
  - reflexivity.
  - rewrite !inflow_cons. lia.
  - rewrite !inflow_cons. lia.
  - lia.
Qed.

Lemma inflow_pos : forall S v, 0 < inflow S v -> exists a, In a S /\ In v (data a).
Proof.
  intros S v H. unfold inflow in H. apply count_nat_pos in H. apply in_flat_map in H. exact H.
Qed.

Definition rest (S : list nat) : list nat := filter (fun x => negb (memb x S)) V.

Lemma inflow_split : forall S v, NoDup S -> incl S V -> inflow V v = inflow S v + inflow (rest S) v.
Proof.
  intros S v HS Hinc. rewrite (inflow_perm V (S ++ rest S) v (split_perm V S HV HS Hinc)). apply inflow_app.
Qed.

Lemma rest_In : forall S x, In x (rest S) <-> In x V /\ ~ In x S.
Proof.
  intros S x. unfold rest. rewrite filter_In, negb_true_iff, memb_false. reflexivity.
Qed.

(* flat_map snd tree = flat_map data V *)
Lemma tree_get_head : forall k l r, tree_get ((k, l) :: r) k = l.
Proof. intros k l r. unfold tree_get. cbn [find fst]. rewrite Nat.eqb_refl. reflexivity. Qed.

Lemma targets_eq : forall t, NoDup (map fst t) -> flat_map snd t = flat_map (tree_get t) (map fst t).
Proof.
  induction t as [|[k l] r IH]; intros Hnd; [reflexivity|].
  cbn [map fst flat_map snd]. rewrite tree_get_head. f_equal.
  cbn [map fst] in Hnd. inversion Hnd as [|? ? Hk Hr]; subst. rewrite (IH Hr).
  apply flat_map_ext_In. intros a Ha. unfold tree_get. cbn [find fst].
  destruct (k =? a) eqn:E; [|reflexivity]. apply Nat.eqb_eq in E. subst. exfalso. apply Hk. exact Ha.
Qed.

(* newest first: every predecessor of an entry occurs later in the list (was popped earlier) *)
Fixpoint tsorted (res : list nat) : Prop :=
  match res with
  | [] => True
  | b :: r => (forall a, In a V -> In b (data a) -> In a r) /\ tsorted r
  end.

Record Kinv (w : nat -> nat) (queue res : list nat) : Prop := mk_Kinv {
  k_nd : NoDup (res ++ queue);
  k_sub : incl (res ++ queue) V;
  k_w : forall v, w v + inflow res v = inflow V v;
  k_q : forall v, In v V -> (In v queue <-> (w v = 0 /\ ~ In v res));
  k_res0 : forall v, In v res -> w v = 0;
  k_sorted : tsorted res
}.

(* the inner loop over the successors of the popped vertex i *)
Lemma relax_spec : forall i res suf pre w q,
  data i = pre ++ suf -> In i V ->
  NoDup ((i :: res) ++ q) -> incl ((i :: res) ++ q) V ->
  (forall v, w v + inflow res v + count_nat v pre = inflow V v) ->
  (forall v, In v V -> (In v q <-> (w v = 0 /\ ~ In v (i :: res)))) ->
  (forall v, In v (i :: res) -> w v = 0) ->
  exists w' q', kahn_relax suf (w, q) = Some (w', q') /\
    NoDup ((i :: res) ++ q') /\ incl ((i :: res) ++ q') V /\
    (forall v, w' v + inflow (i :: res) v = inflow V v) /\
    (forall v, In v V -> (In v q' <-> (w' v = 0 /\ ~ In v (i :: res)))) /\
    (forall v, In v (i :: res) -> w' v = 0).
Proof.
  intros i res suf. induction suf as [|j suf IH]; intros pre w q Hd Hi Hnd Hsub Hw Hq H0.
  - cbn [kahn_relax]. exists w, q. splits; auto. intros v. rewrite inflow_cons, Hd, app_nil_r. specialize (Hw v). lia.
  - cbn [kahn_relax].
    destruct (NoDup_app_inv _ _ Hnd) as [Hnd1 [Hnd2 Hdis]].
    assert (Hinc1 : incl (i :: res) V) by (intros x Hx; apply Hsub; apply in_or_app; left; exact Hx).
    assert (Hjd : In j (data i)) by (rewrite Hd; apply in_or_app; right; left; reflexivity).
    assert (HjV : In j V) by (eapply Htgt; eassumption).
    (* the weight of j is positive *)
    assert (Hpos : 1 <= w j).
    { pose proof (inflow_split (i :: res) j Hnd1 Hinc1) as Hs. rewrite inflow_cons in Hs.
      rewrite Hd in Hs. rewrite count_nat_app in Hs. cbn [count_nat] in Hs. rewrite Nat.eqb_refl in Hs.
      specialize (Hw j). lia. }
    destruct (w j) as [|k] eqn:Ewj; [lia|].
    assert (Hjnot : ~ In j (i :: res)) by (intros H; apply H0 in H; lia).
    assert (Hjq : ~ In j q) by (intros H; apply (Hq j HjV) in H; lia).
    apply (IH (pre ++ [j])).
    + rewrite <- app_assoc. exact Hd.
    + exact Hi.
    + destruct (k =? 0); [|exact Hnd]. rewrite app_assoc. apply NoDup_snoc; [exact Hnd|].
      intros H. apply in_app_or in H. destruct H as [H|H]; [apply Hjnot; exact H | apply Hjq; exact H].
    + destruct (k =? 0); [|exact Hsub]. rewrite app_assoc. intros x Hx. apply in_app_or in Hx.
      destruct Hx as [Hx|[Hx|[]]]; [apply Hsub; exact Hx | subst; exact HjV].
    + intros v. unfold wt_upd. rewrite count_nat_app. cbn [count_nat]. specialize (Hw v).
      destruct (v =? j) eqn:E.
      * apply Nat.eqb_eq in E. subst v. rewrite Ewj in Hw. lia.
      * lia.
    + intros v Hv. unfold wt_upd. destruct (v =? j) eqn:E.
      * apply Nat.eqb_eq in E. subst v. destruct (k =? 0) eqn:Ek.
        -- apply Nat.eqb_eq in Ek. subst k. split; [intros _; split; [reflexivity | exact Hjnot]|].
           intros _. apply in_or_app. right. left. reflexivity.
        -- apply Nat.eqb_neq in Ek. split; [intros H; exfalso; apply Hjq; exact H | intros [H _]; lia].
      * apply Nat.eqb_neq in E. rewrite <- (Hq v Hv). destruct (k =? 0); [|reflexivity].
        rewrite in_app_iff. cbn [In]. split; [intros [H|[H|[]]]; [exact H | exfalso; apply E; symmetry; exact H] | intros H; left; exact H].
    + intros v Hv. unfold wt_upd. destruct (v =? j) eqn:E; [|apply H0; exact Hv].
      apply Nat.eqb_eq in E. subst v. exfalso. apply Hjnot. exact Hv.
Qed.

Lemma tsorted_push : forall w i q res, Kinv w (i :: q) res -> forall a, In a V -> In i (data a) -> In a res.
Proof.
  intros w i q res K a Ha Hia.
  destruct (NoDup_app_inv _ _ (k_nd _ _ _ K)) as [Hnd1 [Hnd2 Hdis]].
  assert (Hinc : incl res V) by (intros x Hx; apply (k_sub _ _ _ K); apply in_or_app; left; exact Hx).
  assert (HiV : In i V) by (apply (k_sub _ _ _ K); apply in_or_app; right; left; reflexivity).
  assert (Hwi : w i = 0) by (apply (k_q _ _ _ K i HiV); left; reflexivity).
  destruct (in_dec Nat.eq_dec a res) as [Hin|Hnin]; [exact Hin|]. exfalso.
  pose proof (inflow_split res i Hnd1 Hinc) as Hs. pose proof (k_w _ _ _ K i) as Hw.
  assert (Hpos : 0 < inflow (rest res) i).
  { unfold inflow. apply count_nat_pos. apply in_flat_map. exists a. split; [apply rest_In; split; assumption | exact Hia]. }
  lia.
Qed.

Lemma kahn_loop_spec : forall fuel w queue res, Kinv w queue res -> length V - length res < fuel ->
  exists ord, kahn_loop fuel tree w queue res = Some ord /\ Permutation ord V /\ tsorted (rev ord).
Proof.
  induction fuel as [|f IH]; intros w queue res K Hf; [lia|].
  cbn [kahn_loop]. destruct queue as [|i q].
  - (* queue empty: every vertex has been popped *)
    exists (rev res). split; [reflexivity|]. rewrite rev_involutive. split; [|apply (k_sorted _ _ _ K)].
    pose proof (k_nd _ _ _ K) as Hnd. pose proof (k_sub _ _ _ K) as Hsub.
    rewrite app_nil_r in Hnd, Hsub.
    assert (Hall : forall v, In v V -> In v res).
    { intros v0 Hv0. destruct (in_dec Nat.eq_dec v0 res) as [Hin|Hnin]; [exact Hin|]. exfalso.
      assert (Hne : rest res <> []).
      { intros E. assert (H : In v0 (rest res)) by (apply rest_In; split; assumption). rewrite E in H. destruct H. }
      destruct (min_rank rk (rest res) Hne) as [v [Hv Hmin]]. apply rest_In in Hv. destruct Hv as [HvV Hvr].
      assert (Hwv : w v <> 0).
      { intros E. assert (H : In v []) by (apply (k_q _ _ _ K v HvV); split; assumption). destruct H. }
      pose proof (inflow_split res v Hnd Hsub) as Hs. pose proof (k_w _ _ _ K v) as Hw.
      assert (Hpos : 0 < inflow (rest res) v) by lia.
      destruct (inflow_pos _ _ Hpos) as [a [Ha Hva]]. pose proof (Hmin a Ha) as Hle.
      apply rest_In in Ha. destruct Ha as [HaV _]. pose proof (Hrk a v HaV Hva). lia. }
    apply Permutation_trans with res; [apply Permutation_sym, Permutation_rev|].
    apply NoDup_Permutation; [exact Hnd | exact HV |]. intros x. split; [apply Hsub | apply Hall].
  - (* pop i *)
    pose proof (k_nd _ _ _ K) as Hnd. pose proof (k_sub _ _ _ K) as Hsub.
    assert (HiV : In i V) by (apply Hsub; apply in_or_app; right; left; reflexivity).
    assert (Hperm : Permutation (res ++ i :: q) ((i :: res) ++ q)).
    { cbn [app]. apply Permutation_sym, Permutation_middle. }
    destruct (relax_spec i res (data i) [] w q) as [w' [q' [E [R1 [R2 [R3 [R4 R5]]]]]]].
    + reflexivity.
    + exact HiV.
    + eapply Permutation_NoDup; [exact Hperm | exact Hnd].
    + intros x Hx. apply Hsub. eapply Permutation_in; [apply Permutation_sym; exact Hperm | exact Hx].
    + intros v. cbn [count_nat]. pose proof (k_w _ _ _ K v). lia.
    + intros v Hv. pose proof (k_q _ _ _ K v Hv) as Hq. cbn [In] in *.
      destruct (NoDup_app_inv _ _ Hnd) as [_ [Hndq _]]. inversion Hndq as [|? ? Hiq _]; subst.
      split.
      * intros Hin. assert (H : w v = 0 /\ ~ In v res) by (apply Hq; right; exact Hin). destruct H as [H1 H2].
        split; [exact H1|]. intros [H|H]; [subst; apply Hiq; exact Hin | apply H2; exact H].
      * intros [H1 H2]. assert (H : i = v \/ In v q) by (apply Hq; split; [exact H1 | intros H; apply H2; right; exact H]).
        destruct H as [H|H]; [exfalso; apply H2; left; exact H | exact H].
    + intros v [Hv|Hv]; [subst; apply (k_q _ _ _ K v HiV); left; reflexivity | apply (k_res0 _ _ _ K); exact Hv].
    + unfold data in E. rewrite E.
      assert (K' : Kinv w' q' (i :: res)).
      { constructor; auto. cbn [tsorted]. split; [apply (tsorted_push w i q res K) | apply (k_sorted _ _ _ K)]. }
      apply IH; [exact K'|].
      destruct (NoDup_app_inv _ _ R1) as [Hnd1 _].
      assert (Hinc1 : incl (i :: res) V) by (intros x Hx; apply R2; apply in_or_app; left; exact Hx).
      pose proof (NoDup_incl_length Hnd1 Hinc1) as Hlen. cbn [length] in *. lia.
Qed.

(* a valid topological order: a permutation of the vertices with predecessors first *)
Theorem top_sort_spec : forall keys, Permutation keys V ->
  exists ord, top_sort keys tree = Some ord /\ Permutation ord V /\ tsorted (rev ord).
Proof.
  intros keys Hk. unfold top_sort. cbv zeta.
  assert (Htargets : forall v, In v (flat_map snd tree) -> In v V).
  { intros v Hv. rewrite (targets_eq tree HV) in Hv. apply in_flat_map in Hv. destruct Hv as [a [Ha Hv]].
    eapply Htgt; eassumption. }
  assert (Hfa : forallb (fun v => memb v (map fst tree)) (flat_map snd tree) = true).
  { apply forallb_forall. intros v Hv. apply memb_In. apply Htargets. exact Hv. }
  rewrite Hfa. cbn [negb].
  set (w0 := fun v => count_nat v (flat_map snd tree)).
  change (filter (fun v : nat => count_nat v (flat_map snd tree) =? 0) keys) with (filter (fun v => w0 v =? 0) keys).
  assert (Hw0 : forall v, w0 v = inflow V v).
  { intros v. unfold w0, inflow. rewrite (targets_eq tree HV). reflexivity. }
  assert (K : Kinv w0 (filter (fun v => w0 v =? 0) keys) []).
  { assert (Hndk : NoDup keys) by (eapply Permutation_NoDup; [apply Permutation_sym; exact Hk | exact HV]).
    constructor; cbn [app].
    - apply NoDup_filter. exact Hndk.
    - intros x Hx. apply filter_In in Hx. eapply Permutation_in; [exact Hk | apply Hx].
    - intros v. rewrite Hw0. unfold inflow at 2. cbn [flat_map count_nat]. lia.
    - intros v Hv. rewrite filter_In, Nat.eqb_eq. split.
      + intros [_ H]. split; [exact H | intros []].
      + intros [H _]. split; [eapply Permutation_in; [apply Permutation_sym; exact Hk | exact Hv] | exact H].
    - intros v [].
    - exact I. }
  destruct (kahn_loop_spec (S (length keys + length (flat_map snd tree))) w0 _ [] K) as [ord [E [Hp Hs]]].
  { cbn [length]. rewrite (Permutation_length Hk). lia. }
  rewrite E. exists ord. rewrite (Permutation_length Hp).
  assert (Hlen : length V = length tree) by (unfold V; apply map_length).
  rewrite Hlen, Nat.ltb_irrefl. splits; auto.
Qed.

End Kahn.
