(* C13, dense part: every operation of Model/Dense.v yields the entries of its mathematical definition.
   The row / column operations are characterised as left / right multiplication by an elementary
   matrix, stated with MatF.mmul (these lemmas are meant to be reused by the Smith-normal-form proofs):

     d_swap_rows_mmul, d_mul_row_mmul, d_add_row_to_mmul, d_left_elementary_mmul     B = E * A
     d_swap_cols_mmul, d_mul_col_mmul, d_add_col_to_mmul, d_right_elementary_mmul    B = A * E

   Every [_spec] lemma has the form  match op .. with Some B => <shape, well-formedness, entries>
   | None => <the guard that failed> end, so it also says exactly when the Rust call panics. *)
From Coq Require Import Arith List Lia Bool Ring.
Require Import Yui.Base.Ring Yui.Base.MatF Yui.Base.MatL Yui.Model.Dense.
Import ListNotations.

Ltac splits := repeat match goal with |- _ /\ _ => split end.

Ltac eqb_cases :=
  repeat (match goal with
          | |- context [Nat.eqb ?a ?b] => is_var a; is_var b; destruct (Nat.eqb_spec a b)
          | H : context [Nat.eqb ?a ?b] |- _ => is_var a; is_var b; destruct (Nat.eqb_spec a b)
          end; subst);
  repeat (match goal with
          | |- context [Nat.eqb ?a ?b] => destruct (Nat.eqb_spec a b)
          end; subst);
  try reflexivity; try congruence; try lia.

Section DenseProofs.
  Context {R : Type} (o : ring_ops R) (L : ring_laws o).

  Local Notation "0" := (rzero o).
  Local Notation "1" := (rone o).
  Local Infix "+" := (radd o).
  Local Infix "*" := (rmul o).
  Local Notation "- x" := (rneg o x).

  Add Ring Rring : (ring_theory_of_laws o L).

  (* ---------- tabulation ---------- *)
  Lemma d_get_mk m n f i j : (i < m)%nat -> (j < n)%nat -> d_get o (d_mk m n f) i j = f i j.
  Proof. intros Hi Hj. unfold d_get, d_mk. cbn [dd]. now apply lget_lmk. Qed.

  Lemma d_wf_mk m n (f : nat -> nat -> R) : d_wf (d_mk m n f).
  Proof. unfold d_wf, d_mk. cbn [dm dn dd]. apply wf_lmk. Qed.

  Lemma d_wfb_wf (A : dmat R) : d_wfb A = true <-> d_wf A.
  Proof. apply wfb_wf. Qed.

  (* what "B is the m x n matrix with entries f" means *)
  Definition d_is (B : dmat R) (m n : nat) (f : nat -> nat -> R) : Prop :=
    dm B = m /\ dn B = n /\ d_wf B /\ forall i j, (i < m)%nat -> (j < n)%nat -> d_get o B i j = f i j.

  Lemma d_is_mk m n f : d_is (d_mk m n f) m n f.
  Proof.
    unfold d_is. cbn [dm dn d_mk]. splits; try reflexivity; try apply d_wf_mk.
    intros i j Hi Hj. now apply d_get_mk.
  Qed.

  Lemma d_is_ext B m n f g :
    d_is B m n f -> (forall i j, (i < m)%nat -> (j < n)%nat -> f i j = g i j) -> d_is B m n g.
  Proof.
    intros (H1 & H2 & H3 & H4) E. unfold d_is. splits; try assumption.
    intros i j Hi Hj. rewrite H4 by assumption. now apply E.
  Qed.

  (* two well-formed matrices with the same shape and entries are equal *)
  Lemma d_is_unique A B m n f : d_is A m n f -> d_is B m n f -> A = B.
  Proof.
    intros (A1 & A2 & A3 & A4) (B1 & B2 & B3 & B4).
    destruct A as [ma na da], B as [mb nb db]. cbn [dm dn dd] in *. subst.
    f_equal. unfold d_wf in A3, B3. cbn [dm dn dd] in A3, B3.
    apply (lmat_ext o m n); try assumption.
    intros i j Hi Hj. unfold d_get in A4, B4. cbn [dd] in A4, B4. rewrite A4, B4 by assumption. reflexivity.
  Qed.

  (* ---------- constructors ---------- *)
  Lemma d_from_data_spec m n data :
    match d_from_data o m n data with
    | Some A => (m * n <= length data)%nat /\
                d_is A m n (fun i j => nth (i * n + j) data 0)
    | None => (length data < m * n)%nat
    end.
  Proof.
    unfold d_from_data. destruct (m * n <=? length data) eqn:E.
    - apply Nat.leb_le in E. split; [exact E|apply d_is_mk].
    - apply Nat.leb_gt in E. exact E.
  Qed.

  Lemma d_zero_spec m n : d_is (d_zero o m n) m n (mzero o).
  Proof. apply d_is_mk. Qed.

  Lemma d_id_spec n : d_is (d_id o n) n n (mid o).
  Proof. apply d_is_mk. Qed.

  Lemma d_diag_spec m n es :
    match d_diag o m n es with
    | Some A => (length es <= m)%nat /\ (length es <= n)%nat /\
                d_is A m n (fun i j => if (i =? j) && (i <? length es) then nth i es 0 else 0)
    | None => (m < length es)%nat \/ (n < length es)%nat
    end.
  Proof.
    unfold d_diag. destruct (Nat.leb_spec (length es) m) as [E1|E1]; destruct (Nat.leb_spec (length es) n) as [E2|E2]; cbn [andb].
    - splits; try assumption; apply d_is_mk.
    - now right.
    - now left.
    - now left.
  Qed.

  (* ---------- Mat::iter and the predicates built on it ---------- *)
  Lemma d_iter_in A i j a :
    In (i, j, a) (d_iter o A) <-> (i < dm A)%nat /\ (j < dn A)%nat /\ a = d_get o A i j.
  Proof.
    unfold d_iter. rewrite in_map_iff. split.
    - intros [k [E Hk]]. apply in_seq in Hk. inversion E; subst; clear E.
      assert (Hm : (dm A <> 0)%nat) by (intros Z; rewrite Z in Hk; cbn in Hk; lia).
      splits.
      + apply Nat.mod_upper_bound. exact Hm.
      + apply Nat.div_lt_upper_bound; [exact Hm|lia].
      + reflexivity.
    - intros (Hi & Hj & ->). exists (i + j * dm A)%nat.
      assert (Hm : (dm A <> 0)%nat) by lia.
      assert (E1 : ((i + j * dm A) mod dm A = i)%nat).
      { rewrite Nat.mod_add by exact Hm. now apply Nat.mod_small. }
      assert (E2 : ((i + j * dm A) / dm A = j)%nat).
      { rewrite Nat.div_add by exact Hm. rewrite Nat.div_small by exact Hi. reflexivity. }
      split.
      + unfold d_lin. rewrite E1, E2. reflexivity.
      + apply in_seq. split; [lia|]. cbn [Nat.add].
        assert ((j + 1) * dm A <= dn A * dm A)%nat by (apply Nat.mul_le_mono_r; lia). lia.
  Qed.

  Lemma d_is_zero_spec A :
    d_is_zero o A = true <-> meq (dm A) (dn A) (d_get o A) (mzero o).
  Proof.
    unfold d_is_zero, meq, mzero. rewrite forallb_forall. split.
    - intros H i j Hi Hj. specialize (H (i, j, d_get o A i j)).
      cbn [snd] in H. apply (reqb_eq o L). apply H. apply d_iter_in. auto.
    - intros H [[i j] a] Hin. apply d_iter_in in Hin. destruct Hin as (Hi & Hj & ->).
      cbn [snd]. apply (reqb_eq o L). now apply H.
  Qed.

  Lemma d_is_id_spec A :
    d_is_id o A = true <-> dm A = dn A /\ meq (dm A) (dn A) (d_get o A) (mid o).
  Proof.
    unfold d_is_id, meq, mid. rewrite andb_true_iff, Nat.eqb_eq, forallb_forall. split.
    - intros [Hs H]. split; [exact Hs|]. intros i j Hi Hj.
      specialize (H (i, j, d_get o A i j)). cbn beta iota in H.
      assert (Hin : In (i, j, d_get o A i j) (d_iter o A)) by (apply d_iter_in; auto).
      specialize (H Hin). destruct (i =? j) eqn:E; cbn [andb orb negb] in H.
      + rewrite orb_false_r in H. now apply (reqb_eq o L).
      + now apply (reqb_eq o L).
    - intros [Hs H]. split; [exact Hs|]. intros [[i j] a] Hin.
      apply d_iter_in in Hin. destruct Hin as (Hi & Hj & ->).
      rewrite (H i j Hi Hj). unfold ris_one, ris_zero.
      destruct (i =? j) eqn:E; cbn [andb orb negb]; rewrite (reqb_refl o L); reflexivity.
  Qed.

  Lemma d_is_diag_spec A :
    d_is_diag o A = true <->
    forall i j, (i < dm A)%nat -> (j < dn A)%nat -> i <> j -> d_get o A i j = 0.
  Proof.
    unfold d_is_diag. rewrite forallb_forall. split.
    - intros H i j Hi Hj Hne. specialize (H (i, j, d_get o A i j)). cbn beta iota in H.
      assert (Hin : In (i, j, d_get o A i j) (d_iter o A)) by (apply d_iter_in; auto).
      specialize (H Hin). apply Nat.eqb_neq in Hne. rewrite Hne in H. cbn [orb] in H.
      now apply (reqb_eq o L).
    - intros H [[i j] a] Hin. apply d_iter_in in Hin. destruct Hin as (Hi & Hj & ->).
      destruct (i =? j) eqn:E; cbn [orb]; [reflexivity|].
      apply Nat.eqb_neq in E. rewrite (H i j Hi Hj E). apply (reqb_refl o L).
  Qed.

  (* ---------- sub-matrices ---------- *)
  Lemma d_submat_spec A i0 i1 j0 j1 :
    match d_submat o A i0 i1 j0 j1 with
    | Some B => (i0 <= i1 <= dm A)%nat /\ (j0 <= j1 <= dn A)%nat /\
                d_is B (i1 - i0) (j1 - j0) (fun i j => d_get o A (i0 + i) (j0 + j))
    | None => ~ ((i0 <= i1 <= dm A)%nat /\ (j0 <= j1 <= dn A)%nat)
    end.
  Proof.
    unfold d_submat.
    destruct (Nat.leb_spec i0 i1) as [E1|E1]; destruct (Nat.leb_spec i1 (dm A)) as [E2|E2];
      destruct (Nat.leb_spec j0 j1) as [E3|E3]; destruct (Nat.leb_spec j1 (dn A)) as [E4|E4]; cbn [andb];
      try lia.
    splits; try assumption; apply d_is_mk.
  Qed.

  Lemma d_submat_rows_eq A i0 i1 : d_submat_rows o A i0 i1 = d_submat o A i0 i1 0 (dn A).
  Proof. reflexivity. Qed.
  Lemma d_submat_cols_eq A j0 j1 : d_submat_cols o A j0 j1 = d_submat o A 0 (dm A) j0 j1.
  Proof. reflexivity. Qed.

  (* ---------- + - * neg ---------- *)
  Lemma d_neg_spec A : d_is (d_neg o A) (dm A) (dn A) (mneg o (d_get o A)).
  Proof. apply d_is_mk. Qed.

  Lemma d_add_spec A B :
    match d_add o A B with
    | Some C => dm A = dm B /\ dn A = dn B /\ d_is C (dm A) (dn A) (madd o (d_get o A) (d_get o B))
    | None => ~ (dm A = dm B /\ dn A = dn B)
    end.
  Proof.
    unfold d_add. destruct (Nat.eqb_spec (dm A) (dm B)) as [E1|E1]; destruct (Nat.eqb_spec (dn A) (dn B)) as [E2|E2]; cbn [andb];
      try tauto.
    splits; try assumption; apply d_is_mk.
  Qed.

  Lemma d_sub_spec A B :
    match d_sub o A B with
    | Some C => dm A = dm B /\ dn A = dn B /\ d_is C (dm A) (dn A) (msub o (d_get o A) (d_get o B))
    | None => ~ (dm A = dm B /\ dn A = dn B)
    end.
  Proof.
    unfold d_sub. destruct (Nat.eqb_spec (dm A) (dm B)) as [E1|E1]; destruct (Nat.eqb_spec (dn A) (dn B)) as [E2|E2]; cbn [andb];
      try tauto.
    splits; try assumption; apply d_is_mk.
  Qed.

  (* the product: defined (and equal to the mathematical product) when the inner dimensions agree; a
     mismatch panics except when the right operand has no column (nalgebra, see Model/Dense.v), where the
     result is the empty (dm A) x 0 matrix *)
  Lemma d_mul_spec A B :
    match d_mul o A B with
    | Some C => (dn A = dm B \/ dn B = 0%nat) /\
                d_is C (dm A) (dn B) (mmul o (dn A) (d_get o A) (d_get o B))
    | None => dn A <> dm B /\ dn B <> 0%nat
    end.
  Proof.
    unfold d_mul. destruct (Nat.eqb_spec (dn A) (dm B)) as [E1|E1]; destruct (Nat.eqb_spec (dn B) 0) as [E2|E2]; cbn [orb];
      try (split; [tauto|apply d_is_mk]).
    tauto.
  Qed.

  (* ---------- finite sums against a row / column with one or two non-zero places ---------- *)
  Lemma sum_pick n s c (f : nat -> R) :
    (s < n)%nat -> sum o n (fun t => (if t =? s then c else 0) * f t) = c * f s.
  Proof.
    intros Hs. rewrite (sum_ext o n _ (fun t => if t =? s then c * f t else 0)).
    - now rewrite (sum_delta o L).
    - intros t _. destruct (t =? s); ring.
  Qed.

  Lemma sum_pick_r n s c (f : nat -> R) :
    (s < n)%nat -> sum o n (fun t => f t * (if t =? s then c else 0)) = f s * c.
  Proof.
    intros Hs. rewrite (sum_ext o n _ (fun t => if t =? s then f t * c else 0)).
    - now rewrite (sum_delta o L).
    - intros t _. destruct (t =? s); ring.
  Qed.

  Lemma sum_pick2 n s1 c1 s2 c2 (f : nat -> R) :
    (s1 < n)%nat -> (s2 < n)%nat ->
    sum o n (fun t => ((if t =? s1 then c1 else 0) + (if t =? s2 then c2 else 0)) * f t)
    = c1 * f s1 + c2 * f s2.
  Proof.
    intros H1 H2.
    rewrite (sum_ext o n _ (fun t => (if t =? s1 then c1 else 0) * f t + (if t =? s2 then c2 else 0) * f t)).
    - rewrite (sum_add o L), !sum_pick by assumption. reflexivity.
    - intros t _. ring.
  Qed.

  Lemma sum_pick2_r n s1 c1 s2 c2 (f : nat -> R) :
    (s1 < n)%nat -> (s2 < n)%nat ->
    sum o n (fun t => f t * ((if t =? s1 then c1 else 0) + (if t =? s2 then c2 else 0)))
    = f s1 * c1 + f s2 * c2.
  Proof.
    intros H1 H2.
    rewrite (sum_ext o n _ (fun t => f t * (if t =? s1 then c1 else 0) + f t * (if t =? s2 then c2 else 0))).
    - rewrite (sum_add o L), !sum_pick_r by assumption. reflexivity.
    - intros t _. ring.
  Qed.

  (* ---------- row operations = left multiplication by an elementary matrix ---------- *)
  Definition swap_idx (i j k : nat) : nat := if k =? i then j else if k =? j then i else k.

  Lemma d_swap_rows_spec A i j :
    match d_swap_rows o A i j with
    | Some B => (i < dm A)%nat /\ (j < dm A)%nat /\
                d_is B (dm A) (dn A) (fun k l => d_get o A (swap_idx i j k) l)
    | None => ~ ((i < dm A)%nat /\ (j < dm A)%nat)
    end.
  Proof.
    unfold d_swap_rows. destruct (Nat.ltb_spec i (dm A)) as [E1|E1]; destruct (Nat.ltb_spec j (dm A)) as [E2|E2]; cbn [andb];
      try lia.
    splits; try assumption; apply d_is_mk.
  Qed.

  Lemma e_swap_row i j k t : e_swap o i j k t = if t =? swap_idx i j k then 1 else 0.
  Proof. unfold e_swap, swap_idx. eqb_cases. Qed.

  Lemma e_swap_col i j t l : e_swap o i j t l = if t =? swap_idx i j l then 1 else 0.
  Proof. unfold e_swap, swap_idx. eqb_cases. Qed.

  Lemma swap_idx_lt i j k m : (i < m)%nat -> (j < m)%nat -> (k < m)%nat -> (swap_idx i j k < m)%nat.
  Proof. intros. unfold swap_idx. destruct (k =? i); [assumption|]. destruct (k =? j); assumption. Qed.

  Theorem d_swap_rows_mmul A i j B :
    d_swap_rows o A i j = Some B ->
    dm B = dm A /\ dn B = dn A /\ d_wf B /\
    meq (dm A) (dn A) (d_get o B) (mmul o (dm A) (e_swap o i j) (d_get o A)).
  Proof.
    intros E. pose proof (d_swap_rows_spec A i j) as S. rewrite E in S.
    destruct S as (Hi & Hj & (H1 & H2 & H3 & H4)). splits; try assumption.
    intros k l Hk Hl. rewrite H4 by assumption. unfold mmul.
    rewrite (sum_ext o (dm A) _ (fun t => (if t =? swap_idx i j k then 1 else 0) * d_get o A t l)).
    - rewrite sum_pick by (now apply swap_idx_lt). ring.
    - intros t _. now rewrite e_swap_row.
  Qed.

  Lemma d_mul_row_spec A i r :
    match d_mul_row o A i r with
    | Some B => (i < dm A)%nat /\
                d_is B (dm A) (dn A) (fun k l => if k =? i then d_get o A k l * r else d_get o A k l)
    | None => (dm A <= i)%nat
    end.
  Proof.
    unfold d_mul_row. destruct (i <? dm A) eqn:E.
    - apply Nat.ltb_lt in E. split; [exact E|apply d_is_mk].
    - now apply Nat.ltb_ge in E.
  Qed.

  Lemma e_scal_row i r k t : e_scal o i r k t = if t =? k then (if k =? i then r else 1) else 0.
  Proof. unfold e_scal. now rewrite Nat.eqb_sym. Qed.

  Theorem d_mul_row_mmul A i r B :
    d_mul_row o A i r = Some B ->
    dm B = dm A /\ dn B = dn A /\ d_wf B /\
    meq (dm A) (dn A) (d_get o B) (mmul o (dm A) (e_scal o i r) (d_get o A)).
  Proof.
    intros E. pose proof (d_mul_row_spec A i r) as S. rewrite E in S.
    destruct S as (Hi & (H1 & H2 & H3 & H4)). splits; try assumption.
    intros k l Hk Hl. rewrite H4 by assumption. unfold mmul.
    rewrite (sum_ext o (dm A) _ (fun t => (if t =? k then (if k =? i then r else 1) else 0) * d_get o A t l)).
    - rewrite sum_pick by assumption. destruct (k =? i); ring.
    - intros t _. now rewrite e_scal_row.
  Qed.

  Lemma d_add_row_to_spec A i j r :
    match d_add_row_to o A i j r with
    | Some B => (i < dm A)%nat /\ (j < dm A)%nat /\
                d_is B (dm A) (dn A)
                  (fun k l => if k =? j then d_get o A j l + d_get o A i l * r else d_get o A k l)
    | None => ~ ((i < dm A)%nat /\ (j < dm A)%nat)
    end.
  Proof.
    unfold d_add_row_to. destruct (Nat.ltb_spec i (dm A)) as [E1|E1]; destruct (Nat.ltb_spec j (dm A)) as [E2|E2]; cbn [andb];
      try lia.
    splits; try assumption; apply d_is_mk.
  Qed.

  (* row j of [e_add i j r] is e_j + r e_i, every other row k is e_k *)
  Lemma e_add_row i j r k t :
    e_add o i j r k t = (if t =? k then 1 else 0) + (if t =? i then (if k =? j then r else 0) else 0).
  Proof.
    unfold e_add. rewrite (Nat.eqb_sym k t). f_equal.
    rewrite (Nat.eqb_sym t i). destruct (k =? j); destruct (i =? t); reflexivity.
  Qed.

  Theorem d_add_row_to_mmul A i j r B :
    d_add_row_to o A i j r = Some B ->
    dm B = dm A /\ dn B = dn A /\ d_wf B /\
    meq (dm A) (dn A) (d_get o B) (mmul o (dm A) (e_add o i j r) (d_get o A)).
  Proof.
    intros E. pose proof (d_add_row_to_spec A i j r) as S. rewrite E in S.
    destruct S as (Hi & Hj & (H1 & H2 & H3 & H4)). splits; try assumption.
    intros k l Hk Hl. rewrite H4 by assumption. unfold mmul.
    rewrite (sum_ext o (dm A) _
      (fun t => ((if t =? k then 1 else 0) + (if t =? i then (if k =? j then r else 0) else 0)) * d_get o A t l)).
    - rewrite sum_pick2 by assumption. destruct (Nat.eqb_spec k j) as [->|Hne]; ring.
    - intros t _. now rewrite e_add_row.
  Qed.

  Lemma d_left_elementary_spec A a b c d i j :
    match d_left_elementary o A a b c d i j with
    | Some B => (i < dm A)%nat /\ (j < dm A)%nat /\
                d_is B (dm A) (dn A)
                  (fun k l => if k =? j then d_get o A i l * c + d_get o A j l * d
                              else if k =? i then d_get o A i l * a + d_get o A j l * b
                              else d_get o A k l)
    | None => ~ ((i < dm A)%nat /\ (j < dm A)%nat)
    end.
  Proof.
    unfold d_left_elementary. destruct (Nat.ltb_spec i (dm A)) as [E1|E1]; destruct (Nat.ltb_spec j (dm A)) as [E2|E2]; cbn [andb];
      try lia.
    splits; try assumption; apply d_is_mk.
  Qed.

  Lemma e_elem_row a b c d i j k t : i <> j ->
    e_elem o a b c d i j k t =
      (if t =? i then (if k =? i then a else if k =? j then c else 0) else 0) +
      (if t =? j then (if k =? i then b else if k =? j then d else 0) else 0) +
      (if t =? k then (if k =? i then 0 else if k =? j then 0 else 1) else 0).
  Proof. intros Hij. unfold e_elem. eqb_cases; ring. Qed.

  Lemma sum_pick3 n s1 c1 s2 c2 s3 c3 (f : nat -> R) :
    (s1 < n)%nat -> (s2 < n)%nat -> (s3 < n)%nat ->
    sum o n (fun t => ((if t =? s1 then c1 else 0) + (if t =? s2 then c2 else 0) + (if t =? s3 then c3 else 0)) * f t)
    = c1 * f s1 + c2 * f s2 + c3 * f s3.
  Proof.
    intros H1 H2 H3.
    rewrite (sum_ext o n _ (fun t => ((if t =? s1 then c1 else 0) + (if t =? s2 then c2 else 0)) * f t
                                     + (if t =? s3 then c3 else 0) * f t)).
    - rewrite (sum_add o L), sum_pick2, sum_pick by assumption. reflexivity.
    - intros t _. ring.
  Qed.

  (* left_elementary([a,b,c,d], i, j) with i <> j is multiplication from the left by the matrix that is
     the identity except for E[i,i] = a, E[i,j] = b, E[j,i] = c, E[j,j] = d *)
  Theorem d_left_elementary_mmul A a b c d i j B : i <> j ->
    d_left_elementary o A a b c d i j = Some B ->
    dm B = dm A /\ dn B = dn A /\ d_wf B /\
    meq (dm A) (dn A) (d_get o B) (mmul o (dm A) (e_elem o a b c d i j) (d_get o A)).
  Proof.
    intros Hij E. pose proof (d_left_elementary_spec A a b c d i j) as S. rewrite E in S.
    destruct S as (Hi & Hj & (H1 & H2 & H3 & H4)). splits; try assumption.
    intros k l Hk Hl. rewrite H4 by assumption. unfold mmul.
    rewrite (sum_ext o (dm A) _ (fun t =>
      ((if t =? i then (if k =? i then a else if k =? j then c else 0) else 0) +
       (if t =? j then (if k =? i then b else if k =? j then d else 0) else 0) +
       (if t =? k then (if k =? i then 0 else if k =? j then 0 else 1) else 0)) * d_get o A t l)).
    - rewrite sum_pick3 by assumption.
      destruct (Nat.eqb_spec k j) as [->|Hkj].
      + destruct (Nat.eqb_spec j i); [congruence|]. ring.
      + destruct (Nat.eqb_spec k i) as [->|Hki]; ring.
    - intros t _. now rewrite e_elem_row.
  Qed.

  (* for i = j the code's second assignment wins: row i becomes (c + d) * row i *)
  Lemma d_left_elementary_same A a b c d i B :
    d_left_elementary o A a b c d i i = Some B ->
    meq (dm A) (dn A) (d_get o B) (mmul o (dm A) (e_scal o i (c + d)) (d_get o A)).
  Proof.
    intros E. pose proof (d_left_elementary_spec A a b c d i i) as S. rewrite E in S.
    destruct S as (Hi & _ & (H1 & H2 & H3 & H4)).
    intros k l Hk Hl. rewrite H4 by assumption. unfold mmul.
    rewrite (sum_ext o (dm A) _ (fun t => (if t =? k then (if k =? i then c + d else 1) else 0) * d_get o A t l)).
    - rewrite sum_pick by assumption. destruct (Nat.eqb_spec k i) as [->|Hki]; ring.
    - intros t _. now rewrite e_scal_row.
  Qed.

  (* ---------- column operations = right multiplication ---------- *)
  Lemma d_swap_cols_spec A i j :
    match d_swap_cols o A i j with
    | Some B => (i < dn A)%nat /\ (j < dn A)%nat /\
                d_is B (dm A) (dn A) (fun k l => d_get o A k (swap_idx i j l))
    | None => ~ ((i < dn A)%nat /\ (j < dn A)%nat)
    end.
  Proof.
    unfold d_swap_cols. destruct (Nat.ltb_spec i (dn A)) as [E1|E1]; destruct (Nat.ltb_spec j (dn A)) as [E2|E2]; cbn [andb];
      try lia.
    splits; try assumption; apply d_is_mk.
  Qed.

  Theorem d_swap_cols_mmul A i j B :
    d_swap_cols o A i j = Some B ->
    dm B = dm A /\ dn B = dn A /\ d_wf B /\
    meq (dm A) (dn A) (d_get o B) (mmul o (dn A) (d_get o A) (e_swap o i j)).
  Proof.
    intros E. pose proof (d_swap_cols_spec A i j) as S. rewrite E in S.
    destruct S as (Hi & Hj & (H1 & H2 & H3 & H4)). splits; try assumption.
    intros k l Hk Hl. rewrite H4 by assumption. unfold mmul.
    rewrite (sum_ext o (dn A) _ (fun t => d_get o A k t * (if t =? swap_idx i j l then 1 else 0))).
    - rewrite sum_pick_r by (now apply swap_idx_lt). ring.
    - intros t _. now rewrite e_swap_col.
  Qed.

  Lemma d_mul_col_spec A j r :
    match d_mul_col o A j r with
    | Some B => (j < dn A)%nat /\
                d_is B (dm A) (dn A) (fun k l => if l =? j then d_get o A k l * r else d_get o A k l)
    | None => (dn A <= j)%nat
    end.
  Proof.
    unfold d_mul_col. destruct (j <? dn A) eqn:E.
    - apply Nat.ltb_lt in E. split; [exact E|apply d_is_mk].
    - now apply Nat.ltb_ge in E.
  Qed.

  Theorem d_mul_col_mmul A j r B :
    d_mul_col o A j r = Some B ->
    dm B = dm A /\ dn B = dn A /\ d_wf B /\
    meq (dm A) (dn A) (d_get o B) (mmul o (dn A) (d_get o A) (e_scal o j r)).
  Proof.
    intros E. pose proof (d_mul_col_spec A j r) as S. rewrite E in S.
    destruct S as (Hj & (H1 & H2 & H3 & H4)). splits; try assumption.
    intros k l Hk Hl. rewrite H4 by assumption. unfold mmul.
    rewrite (sum_ext o (dn A) _ (fun t => d_get o A k t * (if t =? l then (if l =? j then r else 1) else 0))).
    - rewrite sum_pick_r by assumption. destruct (l =? j); ring.
    - intros t _. unfold e_scal. destruct (Nat.eqb_spec t l) as [->|Hne]; reflexivity.
  Qed.

  Lemma d_add_col_to_spec A i j r :
    match d_add_col_to o A i j r with
    | Some B => (i < dn A)%nat /\ (j < dn A)%nat /\
                d_is B (dm A) (dn A)
                  (fun k l => if l =? j then d_get o A k j + d_get o A k i * r else d_get o A k l)
    | None => ~ ((i < dn A)%nat /\ (j < dn A)%nat)
    end.
  Proof.
    unfold d_add_col_to. destruct (Nat.ltb_spec i (dn A)) as [E1|E1]; destruct (Nat.ltb_spec j (dn A)) as [E2|E2]; cbn [andb];
      try lia.
    splits; try assumption; apply d_is_mk.
  Qed.

  (* column l of [e_add j i r] (= I + r E_{i,j}) is e_l + [l = j] r e_i *)
  Lemma e_add_col i j r t l :
    e_add o j i r t l = (if t =? l then 1 else 0) + (if t =? i then (if l =? j then r else 0) else 0).
  Proof. unfold e_add. f_equal. destruct (t =? i); destruct (l =? j); reflexivity. Qed.

  (* add_col_to(i, j, r): column j += r * column i  =  A * (I + r E_{i,j}) *)
  Theorem d_add_col_to_mmul A i j r B :
    d_add_col_to o A i j r = Some B ->
    dm B = dm A /\ dn B = dn A /\ d_wf B /\
    meq (dm A) (dn A) (d_get o B) (mmul o (dn A) (d_get o A) (e_add o j i r)).
  Proof.
    intros E. pose proof (d_add_col_to_spec A i j r) as S. rewrite E in S.
    destruct S as (Hi & Hj & (H1 & H2 & H3 & H4)). splits; try assumption.
    intros k l Hk Hl. rewrite H4 by assumption. unfold mmul.
    rewrite (sum_ext o (dn A) _
      (fun t => d_get o A k t * ((if t =? l then 1 else 0) + (if t =? i then (if l =? j then r else 0) else 0)))).
    - rewrite sum_pick2_r by assumption. destruct (Nat.eqb_spec l j) as [->|Hne]; ring.
    - intros t _. now rewrite e_add_col.
  Qed.

  Lemma d_right_elementary_spec A a b c d i j :
    match d_right_elementary o A a b c d i j with
    | Some B => (i < dn A)%nat /\ (j < dn A)%nat /\
                d_is B (dm A) (dn A)
                  (fun k l => if l =? j then d_get o A k i * c + d_get o A k j * d
                              else if l =? i then d_get o A k i * a + d_get o A k j * b
                              else d_get o A k l)
    | None => ~ ((i < dn A)%nat /\ (j < dn A)%nat)
    end.
  Proof.
    unfold d_right_elementary. destruct (Nat.ltb_spec i (dn A)) as [E1|E1]; destruct (Nat.ltb_spec j (dn A)) as [E2|E2]; cbn [andb];
      try lia.
    splits; try assumption; apply d_is_mk.
  Qed.

  Lemma e_elem_col a b c d i j t l : i <> j ->
    e_elem o a b c d i j t l =
      (if t =? i then (if l =? i then a else if l =? j then b else 0) else 0) +
      (if t =? j then (if l =? i then c else if l =? j then d else 0) else 0) +
      (if t =? l then (if l =? i then 0 else if l =? j then 0 else 1) else 0).
  Proof. intros Hij. unfold e_elem. eqb_cases; ring. Qed.

  Lemma sum_pick3_r n s1 c1 s2 c2 s3 c3 (f : nat -> R) :
    (s1 < n)%nat -> (s2 < n)%nat -> (s3 < n)%nat ->
    sum o n (fun t => f t * ((if t =? s1 then c1 else 0) + (if t =? s2 then c2 else 0) + (if t =? s3 then c3 else 0)))
    = f s1 * c1 + f s2 * c2 + f s3 * c3.
  Proof.
    intros H1 H2 H3.
    rewrite (sum_ext o n _ (fun t => f t * ((if t =? s1 then c1 else 0) + (if t =? s2 then c2 else 0))
                                     + f t * (if t =? s3 then c3 else 0))).
    - rewrite (sum_add o L), sum_pick2_r, sum_pick_r by assumption. reflexivity.
    - intros t _. ring.
  Qed.

  (* right_elementary([a,b,c,d], i, j) with i <> j is multiplication from the right by the matrix that is
     the identity except for E[i,i] = a, E[j,i] = b, E[i,j] = c, E[j,j] = d  (= e_elem a c b d i j) *)
  Theorem d_right_elementary_mmul A a b c d i j B : i <> j ->
    d_right_elementary o A a b c d i j = Some B ->
    dm B = dm A /\ dn B = dn A /\ d_wf B /\
    meq (dm A) (dn A) (d_get o B) (mmul o (dn A) (d_get o A) (e_elem o a c b d i j)).
  Proof.
    intros Hij E. pose proof (d_right_elementary_spec A a b c d i j) as S. rewrite E in S.
    destruct S as (Hi & Hj & (H1 & H2 & H3 & H4)). splits; try assumption.
    intros k l Hk Hl. rewrite H4 by assumption. unfold mmul.
    rewrite (sum_ext o (dn A) _ (fun t => d_get o A k t *
      ((if t =? i then (if l =? i then a else if l =? j then c else 0) else 0) +
       (if t =? j then (if l =? i then b else if l =? j then d else 0) else 0) +
       (if t =? l then (if l =? i then 0 else if l =? j then 0 else 1) else 0)))).
    - rewrite sum_pick3_r by assumption.
      destruct (Nat.eqb_spec l j) as [->|Hlj].
      + destruct (Nat.eqb_spec j i); [congruence|]. ring.
      + destruct (Nat.eqb_spec l i) as [->|Hli]; ring.
    - intros t _. now rewrite e_elem_col.
  Qed.

  (* ---------- derived equality ---------- *)
  Lemma d_eqb_spec A B : d_wf A -> d_wf B ->
    d_eqb o A B = true <-> A = B.
  Proof.
    intros WA WB. unfold d_eqb. rewrite !andb_true_iff, !Nat.eqb_eq, (leqb_meq o L). split.
    - intros [[E1 E2] E3]. destruct A as [ma na da], B as [mb nb db]. cbn [dm dn dd] in *. subst.
      f_equal. apply (lmat_ext o mb nb); assumption.
    - intros ->. splits; try reflexivity. intros i j _ _. reflexivity.
  Qed.
End DenseProofs.
