(* C11 - progress of the transition system: no reachable non-terminal state is stuck (every busy
   thread can take its next step on its own, an idle thread can take any remaining row), and every run
   is finite: each enabled step decreases a measure bounded by (2*Pmax + 3) * rows.  A retry strictly
   advances the thread's snapshot (it consumes a pivot committed by another thread), and at most one
   pivot per remaining row is ever committed. *)
From Coq Require Import ZArith List Bool Arith Lia Permutation.
Require Import Yui.Model.Pivot Yui.Proofs.C11Base Yui.Proofs.C11Seq Yui.Proofs.C11Worker Yui.Proofs.C11Safety.
Import ListNotations.

Section Progress.
Variable M : mstr.
Hypothesis Hwf : wf_str M.
Variable nthr : nat.
Variable Pmax : nat.       (* bound on the length of the pivot log *)

Definition tau (th : thread) : nat :=
  match t_pc th with
  | PIdle => 0
  | PSearched _ => 2 * (Pmax - t_snap th) + 1
  | PRetrying => 2 * (Pmax - t_snap th) + 2
  end.
Definition beta (th : thread) : nat := match t_pc th with PIdle => 0 | _ => 1 end.

Definition sumf (f : thread -> nat) (g : nat -> thread) : nat :=
  list_sum (map (fun t => f (g t)) (seq 0 nthr)).

Definition W : nat := 2 * Pmax + 3.
Definition mu (s : gstate) : nat := W * length (g_todo s) + sumf tau (g_thr s).
(* the log can still grow by one pivot per row that is waiting or being processed *)
Definition PB (s : gstate) : Prop := length (g_log s) + length (g_todo s) + sumf beta (g_thr s) <= Pmax.

Lemma list_sum_cons : forall a l, list_sum (a :: l) = a + list_sum l.
Proof. reflexivity. Qed.

Lemma sum_upd_gen : forall (f : thread -> nat) g t v l, NoDup l -> In t l ->
  list_sum (map (fun x => f (thr_upd g t v x)) l) + f (g t) = list_sum (map (fun x => f (g x)) l) + f v.
Proof.
  intros f g t v l. induction l as [|a r IH]; intros Hnd Hin; [destruct Hin|].
  inversion Hnd as [|? ? Ha Hr]; subst. cbn [map]. rewrite !list_sum_cons. destruct Hin as [Hin|Hin].
  - subst a. rewrite thr_upd_same.
    assert (E : map (fun x => f (thr_upd g t v x)) r = map (fun x => f (g x)) r).
    { apply map_ext_in. intros x Hx. rewrite thr_upd_other; [reflexivity|]. intros E. subst. apply Ha. exact Hx. }
    rewrite E. lia.
  - specialize (IH Hr Hin). rewrite thr_upd_other by (intros E; subst; apply Ha; exact Hin). lia.
Qed.

Lemma sumf_upd : forall f g t v, t < nthr -> sumf f (thr_upd g t v) + f (g t) = sumf f g + f v.
Proof.
  intros f g t v Ht. unfold sumf. apply sum_upd_gen; [apply seq_NoDup | apply in_seq; lia].
Qed.

Lemma remove_row_length : forall x l, In x l -> S (length (remove_row x l)) = length l.
Proof.
  intros x l. induction l as [|y r IH]; intros H; [destruct H|]. cbn [remove_row].
  destruct (x =? y) eqn:E; [reflexivity|]. cbn [length]. f_equal. apply IH.
  destruct H as [H|H]; [subst; rewrite Nat.eqb_refl in E; discriminate | exact H].
Qed.

Lemma tau_le : forall th, tau th <= 2 * Pmax + 2.
Proof. intros th. unfold tau. destruct (t_pc th); lia. Qed.

Lemma update_diff_nil : forall w, wk_update_diff [] w = w.
Proof. reflexivity. Qed.

(* every enabled step is defined, preserves the bound invariant and decreases the measure *)
Lemma step_decreases : forall s e, GInv M s -> PB s -> enabled nthr s e = true ->
  exists s', step M nthr s e = Some s' /\ GInv M s' /\ PB s' /\ mu s' < mu s.
Proof.
  intros s e G HB Hen. destruct (step_ok M Hwf nthr s e G) as [s' [Es HG']]. exists s'. split; [exact Es|]. split; [exact HG'|].
  unfold step in Es. rewrite Hen in Es. cbn [negb] in Es.
  destruct e as [t row | t | t]; cbn [enabled] in Hen.
  - (* start *)
    apply andb_true_iff in Hen. destruct Hen as [Hen Hrow]. apply andb_true_iff in Hen. destruct Hen as [Ht Hidle].
    apply Nat.ltb_lt in Ht. apply memb_In in Hrow.
    destruct (wk_init M (g_log s) row) as [w0|]; [|discriminate].
    destruct (wk_search M (g_log s) w0) as [[w1 c]|]; [|discriminate]. inversion Es; subst s'. clear Es.
    unfold PB, mu in *. cbn [g_log g_todo g_thr].
    pose proof (remove_row_length row (g_todo s) Hrow) as Hl.
    pose proof (sumf_upd tau (g_thr s) t (mk_thread (length (g_log s)) w1 (pc_of_choice c)) Ht) as Ht1.
    pose proof (sumf_upd beta (g_thr s) t (mk_thread (length (g_log s)) w1 (pc_of_choice c)) Ht) as Hb1.
    assert (Hold : tau (g_thr s t) = 0 /\ beta (g_thr s t) = 0).
    { unfold tau, beta, is_idle in *. destruct (t_pc (g_thr s t)); try discriminate. split; reflexivity. }
    destruct Hold as [Ho1 Ho2].
    pose proof (tau_le (mk_thread (length (g_log s)) w1 (pc_of_choice c))) as Hn1.
    assert (Hn2 : beta (mk_thread (length (g_log s)) w1 (pc_of_choice c)) <= 1) by (unfold beta; cbn [t_pc]; destruct (pc_of_choice c); lia).
    unfold W in *. split; nia.
  - (* enter *)
    apply andb_true_iff in Hen. destruct Hen as [Ht Hpc]. apply Nat.ltb_lt in Ht.
    destruct (t_pc (g_thr s t)) as [|j|] eqn:Epc; try discriminate.
    pose proof (gi_thr M s G t) as Hti. unfold thread_inv_of in Hti. rewrite Epc in Hti. destruct Hti as [Hk [_ [_ [Hq _]]]].
    set (k := t_snap (g_thr s t)) in *.
    assert (Hold : tau (g_thr s t) = 2 * (Pmax - k) + 1 /\ beta (g_thr s t) = 1).
    { unfold tau, beta. rewrite Epc. split; reflexivity. }
    destruct Hold as [Ho1 Ho2].
    destruct (wk_should_retry (wk_update_diff (skipn k (g_log s)) (t_w (g_thr s t)))) eqn:Er.
    + (* retry: the snapshot strictly advances *)
      inversion Es; subst s'. clear Es.
      assert (Hlt : k < length (g_log s)).
      { destruct (Nat.lt_ge_cases k (length (g_log s))) as [H|H]; [exact H|]. exfalso.
        rewrite skipn_all2 in Er by exact H. rewrite update_diff_nil in Er. unfold wk_should_retry in Er. rewrite Hq in Er. discriminate. }
      unfold PB, mu in *. cbn [g_log g_todo g_thr].
      set (th' := mk_thread (length (g_log s)) (wk_update_diff (skipn k (g_log s)) (t_w (g_thr s t))) PRetrying).
      pose proof (sumf_upd tau (g_thr s) t th' Ht) as Ht1.
      pose proof (sumf_upd beta (g_thr s) t th' Ht) as Hb1.
      assert (Hn1 : tau th' = 2 * (Pmax - length (g_log s)) + 2) by reflexivity.
      assert (Hn2 : beta th' = 1) by reflexivity.
      assert (Hlog : length (g_log s) <= Pmax) by lia.
      split; lia.
    + (* commit *)
      destruct (pset (g_log s) _ j) as [P'|] eqn:Eps; [|discriminate]. inversion Es; subst s'. clear Es.
      apply pset_inv in Eps. destruct Eps as [EP' _]. subst P'.
      unfold PB, mu in *. cbn [g_log g_todo g_thr]. rewrite app_length. cbn [length].
      set (th' := mk_thread k (wk_update_diff (skipn k (g_log s)) (t_w (g_thr s t))) PIdle).
      pose proof (sumf_upd tau (g_thr s) t th' Ht) as Ht1.
      pose proof (sumf_upd beta (g_thr s) t th' Ht) as Hb1.
      assert (Hn1 : tau th' = 0) by reflexivity.
      assert (Hn2 : beta th' = 0) by reflexivity.
      split; lia.
  - (* research *)
    apply andb_true_iff in Hen. destruct Hen as [Ht Hpc]. apply Nat.ltb_lt in Ht.
    destruct (t_pc (g_thr s t)) as [|j|] eqn:Epc; try discriminate.
    set (k := t_snap (g_thr s t)) in *.
    destruct (wk_search M (firstn k (g_log s)) (t_w (g_thr s t))) as [[w1 c]|]; [|discriminate].
    inversion Es; subst s'. clear Es.
    assert (Hold : tau (g_thr s t) = 2 * (Pmax - k) + 2 /\ beta (g_thr s t) = 1).
    { unfold tau, beta. rewrite Epc. split; reflexivity. }
    destruct Hold as [Ho1 Ho2].
    unfold PB, mu in *. cbn [g_log g_todo g_thr].
    pose proof (sumf_upd tau (g_thr s) t (mk_thread k w1 (pc_of_choice c)) Ht) as Ht1.
    pose proof (sumf_upd beta (g_thr s) t (mk_thread k w1 (pc_of_choice c)) Ht) as Hb1.
    assert (Hn1 : tau (mk_thread k w1 (pc_of_choice c)) <= 2 * (Pmax - k) + 1) by (unfold tau; cbn [t_pc t_snap]; destruct c; cbn [pc_of_choice]; lia).
    assert (Hn2 : beta (mk_thread k w1 (pc_of_choice c)) <= 1) by (unfold beta; cbn [t_pc]; destruct (pc_of_choice c); lia).
    split; lia.
Qed.

(* number of enabled events taken by a run *)
Fixpoint eff_steps (sched : list event) (s : gstate) : nat :=
  match sched with
  | [] => 0
  | e :: r =>
      match step M nthr s e with
      | Some s' => (if enabled nthr s e then 1 else 0) + eff_steps r s'
      | None => 0
      end
  end.

Lemma disabled_step : forall s e, enabled nthr s e = false -> step M nthr s e = Some s.
Proof. intros s e H. unfold step. rewrite H. reflexivity. Qed.

Theorem runs_bounded : forall sched s, GInv M s -> PB s -> eff_steps sched s <= mu s.
Proof.
  induction sched as [|e r IH]; intros s G HB; cbn [eff_steps]; [lia|].
  destruct (enabled nthr s e) eqn:Een.
  - destruct (step_decreases s e G HB Een) as [s' [Es [G' [HB' Hlt]]]]. rewrite Es. specialize (IH s' G' HB'). lia.
  - rewrite (disabled_step s e Een). specialize (IH s G HB). lia.
Qed.

(* no stuck state: a busy thread's own next event is enabled; an idle thread can start any waiting row *)
Theorem no_stuck : forall s t, t < nthr ->
  match t_pc (g_thr s t) with
  | PSearched _ => enabled nthr s (EEnter t) = true
  | PRetrying => enabled nthr s (EResearch t) = true
  | PIdle => forall row, In row (g_todo s) -> enabled nthr s (EStart t row) = true
  end.
Proof.
  intros s t Ht. apply Nat.ltb_lt in Ht. destruct (t_pc (g_thr s t)) eqn:Epc; cbn [enabled].
  - intros row Hrow. unfold is_idle. rewrite Ht, Epc. apply memb_In in Hrow. rewrite Hrow. reflexivity.
  - rewrite Ht, Epc. reflexivity.
  - rewrite Ht, Epc. reflexivity.
Qed.

Theorem nonterminal_enabled : forall s, 0 < nthr -> terminal nthr s = false -> exists e, enabled nthr s e = true.
Proof.
  intros s Hn Hterm. unfold terminal in Hterm. apply andb_false_iff in Hterm.
  destruct (forallb (fun t => is_idle (g_thr s t)) (seq 0 nthr)) eqn:Eall.
  - (* every thread idle: rows are waiting, thread 0 can start one *)
    destruct Hterm as [Hterm|Hterm]; [|discriminate].
    destruct (g_todo s) as [|row rest] eqn:Et; [discriminate|].
    exists (EStart 0 row). pose proof (no_stuck s 0 Hn) as H.
    assert (Hi : is_idle (g_thr s 0) = true).
    { rewrite forallb_forall in Eall. apply Eall. apply in_seq. lia. }
    unfold is_idle in Hi. destruct (t_pc (g_thr s 0)); try discriminate. apply H. rewrite Et. left. reflexivity.
  - (* some thread is busy: its own step is enabled *)
    assert (Hex : exists t, t < nthr /\ is_idle (g_thr s t) = false).
    { clear Hterm. assert (G : forall l, forallb (fun t => is_idle (g_thr s t)) l = false -> exists t, In t l /\ is_idle (g_thr s t) = false).
      { induction l as [|a r IH]; cbn [forallb]; intros H; [discriminate|]. apply andb_false_iff in H.
        destruct (is_idle (g_thr s a)) eqn:Ea.
        - destruct H as [H|H]; [discriminate|]. destruct (IH H) as [t [Ht1 Ht2]]. exists t. split; [right; exact Ht1 | exact Ht2].
        - exists a. split; [left; reflexivity | exact Ea]. }
      destruct (G _ Eall) as [t [Ht1 Ht2]]. exists t. apply in_seq in Ht1. split; [lia | exact Ht2]. }
    destruct Hex as [t [Ht Hb]]. pose proof (no_stuck s t Ht) as H. unfold is_idle in Hb.
    destruct (t_pc (g_thr s t)); [discriminate | exists (EEnter t); exact H | exists (EResearch t); exact H].
Qed.

End Progress.

(* from the initial state of the parallel phase *)
Lemma init_PB : forall M nthr P, PB nthr (length P + length (remain_rows M P)) (init_state M P).
Proof.
  intros M nthr P. unfold PB, init_state, sumf. cbn [g_log g_todo g_thr].
  assert (E : list_sum (map (fun _ : nat => beta idle_thread) (seq 0 nthr)) = 0).
  { induction (seq 0 nthr) as [|a r IH]; [reflexivity|]. cbn [map]. rewrite list_sum_cons, IH. reflexivity. }
  rewrite E. lia.
Qed.

Lemma init_mu : forall M nthr Pmax P, mu nthr Pmax (init_state M P) = W Pmax * length (remain_rows M P).
Proof.
  intros M nthr Pmax P. unfold mu, init_state, sumf. cbn [g_log g_todo g_thr].
  assert (E : list_sum (map (fun _ : nat => tau Pmax idle_thread) (seq 0 nthr)) = 0).
  { induction (seq 0 nthr) as [|a r IH]; [reflexivity|]. cbn [map]. rewrite list_sum_cons, IH. reflexivity. }
  rewrite E. lia.
Qed.

Theorem progress_bound : forall M (Hwf : wf_str M) nthr P sched, PInv M P ->
  let R := length (remain_rows M P) in
  eff_steps M nthr sched (init_state M P) <= (2 * (length P + R) + 3) * R.
Proof.
  intros M Hwf nthr P sched HP R.
  pose proof (runs_bounded M Hwf nthr (length P + R) sched (init_state M P) (init_state_inv M P HP) (init_PB M nthr P)) as H.
  rewrite init_mu in H. exact H.
Qed.
