(* Vertical composition, part 7: the identity cobordism at the bottom.
   Cob::id(&c.src()).stack(c) gives back the components of c (unit test `stack_id` of cob.rs), for every cobordism whose
   source tangles are pairwise disjoint, whose components have normalised source and target tangles and on which
   nbdr_comps returns. *)
From Coq Require Import List Arith Bool Lia ZArith Permutation Sorted.
Import ListNotations.
Require Import Yui.Model.Link Yui.Model.Tng Yui.Model.TngCob Yui.Model.TngStack.
Require Import Yui.Proofs.TngPBase Yui.Proofs.TngPSegs Yui.Proofs.TngPDeg Yui.Proofs.TngPJoin Yui.Proofs.TngPStep
  Yui.Proofs.TngPSeq Yui.Proofs.TngPConn Yui.Proofs.TngPMain Yui.Proofs.TngPCob Yui.Proofs.TngPCobDeg
  Yui.Proofs.TngPStackBase Yui.Proofs.TngPStackBfs Yui.Proofs.TngPStackWf Yui.Proofs.TngPStackDeg
  Yui.Proofs.TngPStackAssoc Yui.Proofs.TngPStackId.

Definition ok_comp (t : cobcomp) : Prop := tng_ok (csrc t) /\ tng_ok (ctgt t) /\ cc_nbdr t <> None.

Definition idl_inv (bot top : list cobcomp) : Prop :=
  stack_wf bot top /\ Permutation bot (ids_of (flat csrc top)) /\ Forall ok_comp top.

Lemma ids_of_app : forall a b, ids_of (a ++ b) = ids_of a ++ ids_of b.
Proof. intros. unfold ids_of. apply map_app. Qed.

Lemma in_ids_of : forall l b, In b (ids_of l) <-> exists m, b = cc_id m /\ In m l.
Proof. intros l b. unfold ids_of. rewrite in_map_iff. split; intros (m & H1 & H2); exists m; auto. Qed.

Lemma cc_id_inj : forall m m', cc_id m = cc_id m' -> m = m'.
Proof. intros m m' E. inversion E. reflexivity. Qed.

Lemma nodup_ids_of : forall l, NoDup l -> NoDup (ids_of l).
Proof.
  induction l as [|m r IH]; intros Hn; [constructor|]. inversion Hn; subst. cbn. constructor; [|apply IH; assumption].
  intros Hi. apply in_ids_of in Hi. destruct Hi as (m' & E & Hm'). apply cc_id_inj in E. subst. contradiction.
Qed.

Lemma hit_self : forall sel t m, In m (sel t) -> hit sel m t = true.
Proof. intros sel t m Hm. apply hit_iff. exists m. split; auto. apply unori_eq_refl. Qed.

Lemma first_label : forall m, simple m -> exists v, In v (pedges m).
Proof. intros m Sm. pose proof (simple_ne m Sm). destruct (pedges m) as [|v l]; [contradiction|]. exists v. left. reflexivity. Qed.

Lemma ok_tail : forall (P : cobcomp -> Prop) l l1 l2, Permutation l (l1 ++ l2) -> Forall P l -> Forall P l1.
Proof.
  intros P l l1 l2 Hp Hf. rewrite Forall_forall in *. intros x Hx. apply Hf.
  eapply Permutation_in; [apply Permutation_sym; exact Hp|]. apply in_or_app. left. exact Hx.
Qed.

Lemma fold_connect_single : forall t, tng_ok t -> tng_fold_connect [t] = Some t.
Proof.
  intros t [Hi Hs]. destruct (fold_connect_disjoint [t]) as (r & Er & Pr & Sr); [cbn; rewrite app_nil_r; exact Hi|].
  cbn [concat] in Pr. rewrite app_nil_r in Pr. rewrite Er. f_equal. symmetry. apply sorted_perm_eq; auto.
  apply Permutation_sym. exact Pr.
Qed.

Lemma fold_connect_perm : forall (g : list cobcomp) sel t, tng_inv (flat sel g) -> Permutation (flat sel g) t -> tng_ok t ->
  tng_fold_connect (map sel g) = Some t.
Proof.
  intros g sel t Hi Hp [It St]. destruct (fold_connect_disjoint (map sel g)) as (r & Er & Pr & Sr); [rewrite concat_map_flat; exact Hi|].
  rewrite concat_map_flat in Pr. rewrite Er. f_equal. symmetry. apply sorted_perm_eq; auto.
  eapply perm_trans; [apply Permutation_sym; exact Hp|apply Permutation_sym; exact Pr].
Qed.

Lemma idl_step : forall b0 bot1 top bot' top' gb gt, idl_inv (b0 :: bot1) top ->
  take_stackable (b0 :: bot1) top = Some (bot', top', gb, gt) ->
  exists t0, gt = [t0] /\ gb <> [] /\ stack_comps gb gt = Some t0 /\ Permutation top (top' ++ [t0]) /\ idl_inv bot' top'.
Proof.
  intros b0 bot1 top bot' top' gb gt (W & PB & OK) Et.
  pose proof (wf_mid_t _ _ W) as IT. pose proof (wf_mid_b _ _ W) as IB.
  assert (Hb0 : In b0 (ids_of (flat csrc top))) by (eapply Permutation_in; [exact PB|left; reflexivity]).
  apply in_ids_of in Hb0. destruct Hb0 as (m0 & -> & Hm0).
  destruct (flat_in_inv _ _ _ Hm0) as (t0 & Ht0 & Hm0t).
  assert (Hbot : forall b, In b (cc_id m0 :: bot1) -> exists m, b = cc_id m /\ In m (flat csrc top)).
  { intros b Hb. apply in_ids_of. eapply Permutation_in; [exact PB|exact Hb]. }
  destruct (take_stackable_perm _ _ _ _ _ _ Et) as (Pa & Pb & _ & Hhd & _).
  pose proof (take_stackable_closed _ _ _ _ _ _ IB IT Et) as Cl. pose proof Cl as [C1 C2].
  destruct (Hhd _ _ eq_refl) as (more & Hgb).
  (* soundness: the group lies over t0 *)
  destruct (take_stackable_sound (fun b => exists m, b = cc_id m /\ In m (csrc t0)) (eq t0) _ _ _ _ _ _ Et) as [Fb Ft].
  { intros b t m (m1 & -> & Hm1) Ht Hm Hh. cbn in Hm. destruct Hm as [<-|[]].
    destruct (hit_shares csrc top m1 t IT Ht Hh) as [_ Hs].
    destruct (first_label m1 (inv_simple_in _ _ IT (flat_in _ _ _ _ Ht0 Hm1))) as (v & Hv).
    apply (owner_unique' csrc top t0 t v IT Ht0 Ht); [apply in_verts; exists m1; auto|apply Hs; exact Hv]. }
  { intros t b m <- Hb Hm Hh. destruct (Hbot b Hb) as (m1 & -> & Hm1). exists m. split; auto.
    apply hit_iff in Hh. destruct Hh as (m2 & Hm2 & He). cbn in Hm2. destruct Hm2 as [<-|[]].
    destruct (unori_eq_shares m1 m (inv_simple_in _ _ IT Hm1) He) as (_ & _ & Hs).
    destruct (first_label m1 (inv_simple_in _ _ IT Hm1)) as (v & Hv). f_equal.
    apply (inv_same_comp (flat csrc top) m1 m v IT); auto; [eapply flat_in; eauto|apply Hs; exact Hv]. }
  { intros b r E. inversion E; subst. exists m0. auto. }
  { intros t r E. discriminate. }
  (* t0 is collected, once *)
  assert (Ht0g : In t0 gt).
  { assert (H : In t0 (top' ++ gt)) by (eapply Permutation_in; eauto). apply in_app_or in H. destruct H as [H|H]; auto.
    exfalso. assert (Hh := hit_self csrc t0 m0 Hm0t).
    rewrite (C1 (cc_id m0) m0 t0) in Hh; [discriminate|rewrite Hgb; left; reflexivity|left; reflexivity|exact H]. }
  assert (Egt : gt = [t0]).
  { apply (all_equal_one csrc gt t0); auto; [apply (flat_sub csrc top top' gt Pb IT)|intros E; rewrite E in Hm0t; contradiction]. }
  subst gt.
  (* the bottom half of the group: the identities over the source tangle of t0 *)
  assert (It0 : tng_inv (csrc t0)) by (apply (flat_inv_in csrc top); auto).
  assert (Pg : Permutation gb (ids_of (csrc t0))).
  { apply NoDup_Permutation.
    - apply (flat_nodup ctgt); [apply (flat_sub ctgt _ bot' gb Pa IB)|].
      intros x Hx. rewrite Forall_forall in Fb. destruct (Fb x Hx) as (m & -> & _). discriminate.
    - apply nodup_ids_of. apply inv_nodup_paths. exact It0.
    - intros x. rewrite in_ids_of. split.
      + intros Hx. rewrite Forall_forall in Fb. apply Fb. exact Hx.
      + intros (m & -> & Hm).
        assert (Hin : In (cc_id m) (cc_id m0 :: bot1)).
        { eapply Permutation_in; [apply Permutation_sym; exact PB|]. apply in_ids_of. exists m. split; auto. eapply flat_in; eauto. }
        assert (H : In (cc_id m) (bot' ++ gb)) by (eapply Permutation_in; eauto).
        apply in_app_or in H. destruct H as [H|H]; auto. exfalso.
        assert (Hh : hit ctgt m (cc_id m) = true) by (apply hit_self; left; reflexivity).
        rewrite (C2 t0 m (cc_id m)) in Hh; [discriminate|left; reflexivity|exact Hm|exact H]. }
  assert (Hgne : gb <> []) by (rewrite Hgb; discriminate).
  assert (OK0 : ok_comp t0) by (rewrite Forall_forall in OK; apply OK; exact Ht0).
  destruct OK0 as (Os & Ot & On). destruct (cc_nbdr t0) as [nb|] eqn:Enb; [|congruence].
  destruct (perm_ids_data gb (csrc t0) Pg (proj1 It0)) as (Eu & Ar & Dx & Dy & Ps & _).
  assert (Ec : stack_comps gb [t0] = Some t0).
  { rewrite (stack_comps_compute gb [t0] (Z.of_nat (tng_euler_num (csrc t0))) (2 - 2 * Z.of_nat (cgenus t0) - Z.of_nat nb)%Z
               (csrc t0) (ctgt t0) nb (cgenus t0)); auto.
    - rewrite Dx, Dy. destruct t0 as [s t g x y]. cbn. f_equal. f_equal; lia.
    - discriminate.
    - rewrite euls_single. unfold cc_euler. rewrite Enb. reflexivity.
    - apply (fold_connect_perm gb csrc); auto. apply (flat_sub csrc _ bot' gb Pa (wf_src _ _ W)).
    - cbn [map]. apply fold_connect_single. exact Ot.
    - intros dx dy. rewrite <- Enb. apply cc_nbdr_ext; reflexivity.
    - rewrite Ar. lia. }
  exists t0. split; [reflexivity|]. split; [exact Hgne|]. split; [exact Ec|]. split; [exact Pb|].
  split; [exact (wf_rest _ _ _ _ _ _ W Pa Pb Cl)|]. split; [|eapply ok_tail; eauto].
  apply (Permutation_app_inv_r gb).
  eapply perm_trans; [apply Permutation_sym; exact Pa|]. eapply perm_trans; [exact PB|].
  eapply perm_trans; [apply Permutation_map; apply flat_perm; exact Pb|]. fold (ids_of (flat csrc (top' ++ [t0]))).
  rewrite flat_app, ids_of_app. apply Permutation_app_head. unfold flat at 1. cbn [flat_map]. rewrite app_nil_r.
  apply Permutation_sym. exact Pg.
Qed.

Lemma idl_loop : forall fuel bot top acc, idl_inv bot top -> length bot + length top <= fuel ->
  exists out, stack_loop fuel bot top acc = Some (Some out) /\ Permutation out (acc ++ top).
Proof.
  induction fuel as [|f IH]; intros bot top acc Inv Hl.
  - destruct bot; [|cbn in Hl; lia]. destruct top; [|cbn in Hl; lia]. exists acc. cbn. rewrite app_nil_r. auto.
  - destruct bot as [|b0 bot1].
    + exists (acc ++ top). split; [apply stack_loop_bot_nil; cbn in Hl; lia|apply Permutation_refl].
    + cbn [stack_loop is_nil andb].
      destruct (take_stackable (b0 :: bot1) top) as [[[[bot' top'] gb] gt]|] eqn:Et; [|exfalso; eapply take_stackable_some; eauto].
      destruct (idl_step _ _ _ _ _ _ _ Inv Et) as (t0 & -> & Hg & Ec & Pt & Inv').
      destruct (take_stackable_perm _ _ _ _ _ _ Et) as (Pa & _).
      cbn [is_nil]. apply is_nil_false in Hg. rewrite Hg, Ec.
      destruct (IH bot' top' (acc ++ [t0]) Inv') as (out & Eo & Po).
      { apply Permutation_length in Pa, Pt. rewrite app_length in Pa, Pt. cbn [length] in *.
        apply is_nil_false in Hg. destruct gb; [congruence|]. cbn [length] in Pa. lia. }
      exists out. split; [exact Eo|]. eapply perm_trans; [exact Po|]. rewrite <- app_assoc.
      apply Permutation_app_head. eapply perm_trans; [|apply Permutation_sym; exact Pt]. apply Permutation_app_comm.
Qed.

(* no empty path in a list of components with simple tangles: the sort of the Vec does not panic *)
Lemma simple_no_empty : forall t, Forall simple t -> existsb (fun p => is_nil (pedges p)) t = false.
Proof.
  induction t as [|p r IH]; intros Hf; [reflexivity|]. inversion Hf; subst. cbn [existsb]. rewrite IH by assumption.
  pose proof (simple_ne p H1). destruct (pedges p); [contradiction|reflexivity].
Qed.

Lemma cob_sort_some : forall cs, Forall (fun c => Forall simple (csrc c) /\ Forall simple (ctgt c)) cs ->
  cob_sort cs = Some (cc_isort cs).
Proof.
  intros cs Hf. unfold cob_sort. assert (existsb has_empty_path cs = false) as ->; [|rewrite andb_false_r; reflexivity].
  induction Hf as [|c r [H1 H2] Hf IH]; [reflexivity|]. cbn [existsb]. rewrite IH. unfold has_empty_path.
  rewrite (simple_no_empty _ H1), (simple_no_empty _ H2). reflexivity.
Qed.

Definition cob_okl (a : list cobcomp) : Prop := tng_inv (flat csrc a) /\ Forall ok_comp a.

Theorem cob_stack_id_l : forall a, cob_okl a ->
  exists S ids c, cob_src a = Some S /\ cob_id S = Some ids /\ cob_stack ids a = Some c /\ Permutation c a.
Proof.
  intros a [Ia OK].
  destruct (fold_connect_disjoint (map csrc a)) as (S & ES & PS & SS); [rewrite concat_map_flat; exact Ia|].
  rewrite concat_map_flat in PS.
  assert (IS : tng_inv S) by (eapply inv_perm; [apply Permutation_sym; exact PS|exact Ia]).
  assert (Eid : cob_id S = Some (cc_isort (ids_of S))).
  { unfold cob_id, cob_new. apply cob_sort_some. apply Forall_forall. intros c Hc. apply in_ids_of in Hc.
    destruct Hc as (m & -> & Hm). cbn. split; repeat constructor; eapply inv_simple_in; eauto. }
  exists S, (cc_isort (ids_of S)).
  assert (Pids : Permutation (cc_isort (ids_of S)) (ids_of (flat csrc a))).
  { eapply perm_trans; [apply cc_isort_perm|]. apply Permutation_map. exact PS. }
  assert (Inv : idl_inv (cc_isort (ids_of S)) a).
  { split; [|split; [exact Pids|exact OK]].
    assert (F1 : Permutation (flat csrc (cc_isort (ids_of S))) (flat csrc a)).
    { eapply perm_trans; [apply flat_perm; exact Pids|]. rewrite flat_src_ids. apply Permutation_refl. }
    assert (F2 : Permutation (flat ctgt (cc_isort (ids_of S))) (flat csrc a)).
    { eapply perm_trans; [apply flat_perm; exact Pids|]. rewrite flat_tgt_ids. apply Permutation_refl. }
    constructor.
    - eapply inv_perm; [apply Permutation_sym; exact F1|exact Ia].
    - eapply inv_perm; [apply Permutation_sym; exact F2|exact Ia].
    - exact Ia.
    - intros m Hm. exists m. split; [eapply Permutation_in; [exact F2|exact Hm]|apply unori_eq_refl].
    - intros m Hm. exists m. split; [eapply Permutation_in; [apply Permutation_sym; exact F2|exact Hm]|apply unori_eq_refl]. }
  unfold cob_stack, cob_stack_fuel.
  destruct (is_nil (cc_isort (ids_of S))) eqn:N1.
  { exists a. repeat split; auto. }
  destruct (is_nil a) eqn:N2.
  { destruct a; [|discriminate]. exfalso. apply Permutation_sym, Permutation_nil in Pids.
    rewrite Pids in N1. discriminate. }
  destruct (idl_loop (length (cc_isort (ids_of S)) + length a) _ _ [] Inv (Nat.le_refl _)) as (out & Eo & Po).
  rewrite Eo. cbn [app] in Po.
  assert (Es : cob_sort out = Some (cc_isort out)).
  { apply cob_sort_some. apply Forall_forall. intros c Hc.
    assert (Hc' : In c a) by (eapply Permutation_in; eauto). rewrite Forall_forall in OK.
    destruct (OK c Hc') as (Os & Ot & _). split; [apply Os|apply Ot]. }
  exists (cc_isort out). repeat split; auto. eapply perm_trans; [apply cc_isort_perm|exact Po].
Qed.
