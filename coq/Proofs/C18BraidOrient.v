(* C18 - a braid closure is consistently oriented by "every strand runs downwards": the half-edges of
   crossing k at level k are heads, those at level k+1 are tails; the other end of an edge is found by
   sliding along the vertical segment to the next crossing that touches the position (through the
   gluing of level |w| to level 0 if necessary).  The sign of crossing k for this orientation is the sign
   of letter k. *)
From Coq Require Import List Arith Bool Lia ZArith.
Require Import Yui.Model.Link Yui.Model.Braid Yui.Proofs.C18Base Yui.Proofs.C18Traverse
  Yui.Proofs.C18Components Yui.Proofs.C18Orient Yui.Proofs.C18BraidRows.
Import ListNotations.

Definition braid_o (w : list Z) (p : pos) : bool := negb (slot_out (nth (fst p) w 0%Z) (snd p)).
Definition letter_sign (s : Z) : sign := if (0 <? s)%Z then Pos else Neg.
Definition touchb (w : list Z) (k j : nat) : bool :=
  (j =? idx (nth k w 0%Z)) || (j =? S (idx (nth k w 0%Z))).

Lemma slot_out_pass : forall s j, j < 4 -> slot_out s ((j + 2) mod 4) = negb (slot_out s j).
Proof.
  intros s j Hj. unfold slot_out. destruct (0 <? s)%Z; destruct j as [|[|[|[|j]]]]; try lia; reflexivity.
Qed.
Lemma slot_off_pass : forall s j, j < 4 -> slot_off s ((j + 2) mod 4) = 1 - slot_off s j.
Proof.
  intros s j Hj. unfold slot_off. destruct (0 <? s)%Z; destruct j as [|[|[|[|j]]]]; try lia; reflexivity.
Qed.
Lemma slot_off_le : forall s j, slot_off s j <= 1.
Proof. intros s j. unfold slot_off. destruct (0 <? s)%Z; destruct j as [|[|[|j]]]; lia. Qed.
(* the slot of crossing k at a given level and offset *)
Lemma slot_exists : forall s (out : bool) off, off <= 1 ->
  exists j, j < 4 /\ slot_out s j = out /\ slot_off s j = off.
Proof.
  intros s out off Ho. unfold slot_out, slot_off.
  destruct (0 <? s)%Z; destruct out; destruct off as [|[|off]]; try lia.
  - exists 1; split; [lia|split; reflexivity]. - exists 2; split; [lia|split; reflexivity].
  - exists 0; split; [lia|split; reflexivity]. - exists 3; split; [lia|split; reflexivity].
  - exists 2; split; [lia|split; reflexivity]. - exists 3; split; [lia|split; reflexivity].
  - exists 1; split; [lia|split; reflexivity]. - exists 0; split; [lia|split; reflexivity].
Qed.

Section BraidOrient.
  Variable n : nat.
  Variable w : list Z.
  Variable l : link.
  Variable lb : nat -> nat -> nat.
  Hypothesis D : BraidDiag n w l lb.

  Let m := length w.
  Let Hv : Valid l := bd_valid _ _ _ _ D.
  Local Notation sk k := (nth k w 0%Z).
  Local Notation ik k := (idx (nth k w 0%Z)).

  Lemma bd_InR : forall p, InR l p <-> fst p < m /\ snd p < 4.
  Proof. intros p. unfold InR. rewrite (bd_len _ _ _ _ D). reflexivity. Qed.

  Lemma closure_unresolved : Unresolved l.
  Proof.
    intros i Hi. rewrite (bd_len _ _ _ _ D) in Hi. unfold is_resolved. rewrite (bd_X _ _ _ _ D i Hi). reflexivity.
  Qed.

  Lemma bd_exit : forall k j, k < m -> exit_of l (k, j) = (k, (j + 2) mod 4).
  Proof. intros k j Hk. unfold exit_of. cbn [fst snd]. rewrite (bd_X _ _ _ _ D k Hk). reflexivity. Qed.

  Lemma lb_m : forall j, j < n -> lb m j = j.
  Proof. intros. apply (bd_wrap _ _ _ _ D); auto. Qed.
  Lemma lb_0 : forall j, j < n -> lb 0 j = j.
  Proof. intros. apply (bd_top _ _ _ _ D); auto. Qed.

  Lemma touchb_spec : forall k j, touchb w k j = true <-> j = ik k \/ j = S (ik k).
  Proof. intros. unfold touchb. rewrite orb_true_iff, !Nat.eqb_eq. tauto. Qed.
  Lemma touchb_false : forall k j, touchb w k j = false <-> j <> ik k /\ j <> S (ik k).
  Proof. intros. unfold touchb. rewrite orb_false_iff, !Nat.eqb_neq. tauto. Qed.

  (* the label does not change along a vertical segment without crossings *)
  Lemma seg_keep : forall d k j, k + d <= m -> j < n ->
    (forall k', k <= k' < k + d -> touchb w k' j = false) -> lb (k + d) j = lb k j.
  Proof.
    induction d as [|d IH]; intros k j Hk Hj Hno; [f_equal; lia|].
    replace (k + S d) with (S (k + d)) by lia.
    destruct (proj1 (touchb_false (k + d) j) (Hno (k + d) ltac:(lia))) as [N1 N2].
    rewrite (bd_keep _ _ _ _ D (k + d) j) by (auto; unfold m in *; lia).
    apply IH; auto; try lia. intros k' Hk'. apply Hno. lia.
  Qed.

  (* sliding down from level k: the next crossing touching position j, or the bottom *)
  Lemma find_down : forall d k j, k + d = m -> j < n ->
    (exists k', k <= k' < m /\ touchb w k' j = true /\ lb k' j = lb k j) \/
    ((forall k', k <= k' < m -> touchb w k' j = false) /\ lb m j = lb k j).
  Proof.
    induction d as [|d IH]; intros k j Hk Hj.
    - right. split; [intros; lia|]. f_equal. lia.
    - destruct (touchb w k j) eqn:T.
      + left. exists k. split; [lia|]. auto.
      + destruct (IH (S k) j ltac:(lia) Hj) as [(k' & Hk' & T' & E)|[Hno E]].
        * left. exists k'. split; [lia|]. split; auto. rewrite E.
          apply touchb_false in T. apply (bd_keep _ _ _ _ D); try tauto; unfold m in *; lia.
        * right. split.
          { intros k' Hk'. destruct (Nat.eq_dec k' k) as [->|N]; auto. apply Hno. lia. }
          rewrite E. apply touchb_false in T. apply (bd_keep _ _ _ _ D); try tauto; unfold m in *; lia.
  Qed.

  (* sliding up from level k: the previous crossing touching position j, or the top *)
  Lemma find_up : forall k j, k <= m -> j < n ->
    (exists k', k' < k /\ touchb w k' j = true /\ lb (S k') j = lb k j) \/
    ((forall k', k' < k -> touchb w k' j = false) /\ lb 0 j = lb k j).
  Proof.
    induction k as [|k IH]; intros j Hk Hj.
    - right. split; [intros; lia|]. reflexivity.
    - destruct (touchb w k j) eqn:T.
      + left. exists k. split; [lia|]. auto.
      + assert (E0 : lb (S k) j = lb k j).
        { apply touchb_false in T. apply (bd_keep _ _ _ _ D); try tauto; unfold m in *; lia. }
        destruct (IH j ltac:(lia) Hj) as [(k' & Hk' & T' & E)|[Hno E]].
        * left. exists k'. split; [lia|]. split; auto. congruence.
        * right. split; [|congruence].
          intros k' Hk'. destruct (Nat.eq_dec k' k) as [->|N]; auto. apply Hno. lia.
  Qed.

  Lemma edge_lab : forall k j, k < m -> j < 4 ->
    edge_at l (k, j) = lb (k + b2n (slot_out (sk k) j)) (ik k + slot_off (sk k) j).
  Proof. intros. apply (bd_edge _ _ _ _ D); auto. Qed.

  (* the half-edge of crossing k' at level (k' + out) and position j *)
  Lemma half_edge_at : forall k' j (out : bool), k' < m -> touchb w k' j = true ->
    exists q, InR l q /\ fst q = k' /\ slot_out (sk k') (snd q) = out /\
              edge_at l q = lb (k' + b2n out) j.
  Proof.
    intros k' j out Hk T. apply touchb_spec in T.
    destruct (slot_exists (sk k') out (j - ik k') ltac:(lia)) as (s & Hs & So & Sf).
    exists (k', s). split; [apply bd_InR; cbn; auto|]. split; auto. split; auto.
    rewrite edge_lab by auto. rewrite So, Sf. f_equal. lia.
  Qed.

  (* every half-edge has a partner with the same label at the opposite kind of level *)
  Lemma partner : forall p, InR l p ->
    exists q, InR l q /\ edge_at l q = edge_at l p /\ braid_o w q = negb (braid_o w p).
  Proof.
    intros [k s] Hp. apply bd_InR in Hp. cbn [fst snd] in Hp. destruct Hp as [Hk Hs].
    pose proof (bd_idx _ _ _ _ D k Hk) as Hi. fold m in Hi.
    pose proof (slot_off_le (sk k) s) as Hoff.
    set (j := ik k + slot_off (sk k) s).
    assert (Hj : j < n) by (unfold j; lia).
    assert (Tk : touchb w k j = true) by (apply touchb_spec; unfold j; lia).
    unfold braid_o. cbn [fst snd]. rewrite (edge_lab k s Hk Hs). fold j.
    destruct (slot_out (sk k) s) eqn:So; cbn [b2n negb].
    - (* a tail at level k+1: slide down *)
      assert (Wrap : forall k', k' < m -> touchb w k' j = true -> lb k' j = lb (k + 1) j ->
                exists q, InR l q /\ edge_at l q = lb (k + 1) j /\
                          negb (slot_out (sk (fst q)) (snd q)) = negb false).
      { intros k' Hk' T' E. destruct (half_edge_at k' j false Hk' T') as (q & Hq & Fq & Oq & Eq).
        exists q. split; auto. cbn [b2n] in Eq. rewrite Nat.add_0_r in Eq. split; [congruence|].
        rewrite Fq, Oq. reflexivity. }
      destruct (find_down (m - (k + 1)) (k + 1) j ltac:(lia) Hj) as [(k' & Hk' & T' & E)|[Hno E]].
      + apply (Wrap k'); auto; lia.
      + assert (Em0 : lb m j = lb 0 j) by (rewrite lb_m, lb_0; auto). rewrite Em0 in E.
        destruct (find_down m 0 j ltac:(lia) Hj) as [(k' & Hk' & T' & E')|[Hno' _]].
        * apply (Wrap k'); auto; try lia; congruence.
        * rewrite (Hno' k ltac:(lia)) in Tk. discriminate.
    - (* a head at level k: slide up *)
      rewrite Nat.add_0_r.
      assert (Wrap : forall k', k' < m -> touchb w k' j = true -> lb (S k') j = lb k j ->
                exists q, InR l q /\ edge_at l q = lb k j /\
                          negb (slot_out (sk (fst q)) (snd q)) = negb true).
      { intros k' Hk' T' E. destruct (half_edge_at k' j true Hk' T') as (q & Hq & Fq & Oq & Eq).
        exists q. split; auto. cbn [b2n] in Eq. rewrite Nat.add_1_r in Eq. split; [congruence|].
        rewrite Fq, Oq. reflexivity. }
      destruct (find_up k j ltac:(lia) Hj) as [(k' & Hk' & T' & E)|[Hno E]].
      + apply (Wrap k'); auto; lia.
      + assert (Em0 : lb 0 j = lb m j) by (rewrite lb_m, lb_0; auto). rewrite Em0 in E.
        destruct (find_up m j ltac:(lia) Hj) as [(k' & Hk' & T' & E')|[Hno' _]].
        * apply (Wrap k'); auto; try lia; congruence.
        * rewrite (Hno' k ltac:(lia)) in Tk. discriminate.
  Qed.

  Theorem closure_oriented : Oriented l (braid_o w).
  Proof.
    split; [|split].
    - intros [k j] Hp. apply bd_InR in Hp. cbn [fst snd] in Hp. destruct Hp as [Hk Hj].
      rewrite (bd_exit k j Hk). unfold braid_o. cbn [fst snd]. rewrite slot_out_pass by auto. reflexivity.
    - intros p Hp. destruct (partner p Hp) as (q & Hq & Eq & Oq).
      destruct (same_label_cases l Hv p q Hp Hq Eq) as [->| ->]; auto.
      destruct (braid_o w p); discriminate.
    - intros i Hi. unfold braid_o, slot_out. cbn [fst snd]. destruct (0 <? sk i)%Z; reflexivity.
  Qed.

  Lemma braid_sgn_at : forall k, k < m -> sgn_at l (braid_o w) k = letter_sign (sk k).
  Proof.
    intros k Hk. unfold sgn_at, braid_o, letter_sign, slot_out. rewrite (bd_X _ _ _ _ D k Hk).
    cbn [fst snd]. destruct (0 <? sk k)%Z; reflexivity.
  Qed.
End BraidOrient.
