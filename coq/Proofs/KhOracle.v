(* Facts about the homology oracle of KhHomology.v that hold by construction. *)
From Coq Require Import List Bool ZArith Lia.
Require Import Yui.Model.KhCube Yui.Model.KhHomology.
Import ListNotations.

(* the oracle answers only on instances it has itself checked to be complexes (d.d = 0 in every degree) *)
Lemma kh_groups_checked c g : kh_groups c = Some g -> cube_ok c = true.
Proof. unfold kh_groups. destruct (cube_ok c); [reflexivity|discriminate]. Qed.

Lemma kh_groups_bigraded_checked c g : kh_groups_bigraded c = Some g -> cube_ok c = true.
Proof. unfold kh_groups_bigraded. destruct (cube_ok c); [reflexivity|discriminate]. Qed.

Lemma cube_ok_dd c : cube_ok c = true -> forall k, (k < c_n c)%nat -> dd_zero c k = true.
Proof.
  unfold cube_ok. rewrite forallb_forall. intros H k Hk. apply H. apply in_seq. lia.
Qed.

(* [groups_from] lists exactly the degrees k, k+1, ..., k+todo-1 *)
Lemma groups_from_degrees c sel k todo dprev gs :
  groups_from c sel k todo dprev = Some gs -> map fst gs = seq k todo.
Proof.
  revert k dprev gs. induction todo as [|m IH]; intros k dprev gs H; cbn [groups_from] in H.
  - inversion H. reflexivity.
  - destruct (factors c k sel) as [dk|]; [|discriminate].
    destruct (groups_from c sel (S k) m dk) as [rest|] eqn:E; [|discriminate].
    inversion H. cbn [map fst seq]. f_equal. now apply IH with (dprev := dk).
Qed.

(* ranks over Q and dimensions over F_p are computed from the same invariant factors: they differ from
   the free rank exactly by the number of factors divisible by p in d_(k-1) and d_k (universal
   coefficients at the level of Smith forms) *)
Lemma filter_split_len {A} (f : A -> bool) (l : list A) :
  length l = (length (filter f l) + length (filter (fun x => negb (f x)) l))%nat.
Proof.
  induction l as [|x l IH]; [reflexivity|]. cbn [filter length]. destruct (f x); cbn [negb length]; lia.
Qed.

Lemma group_at_uct p n dprev dk (Hp : p = 2%Z \/ p = 3%Z) :
  let g := group_at n dprev dk in
  (if Z.eqb p 2 then g_dim2 g else g_dim3 g)
  = (g_rank g + Z.of_nat (length (filter (fun d => negb (not_div p d)) dk))
              + Z.of_nat (length (filter (fun d => negb (not_div p d)) dprev)))%Z.
Proof.
  cbv zeta. unfold group_at, zlen. cbn [g_rank g_dim2 g_dim3].
  pose proof (filter_split_len (not_div p) dk) as H1.
  pose proof (filter_split_len (not_div p) dprev) as H2.
  destruct Hp as [-> | ->]; cbn [Z.eqb Pos.eqb]; lia.
Qed.
