(* Cobordism bookkeeping (Model/TngCob.v), part 1: nbdr_comps terminates (the fuel of the model is never
   exhausted) and ignores genus and dots; CobComp::connect: chi(S u S') = chi(S) + chi(S') - #(shared end points),
   whenever it returns. *)
From Coq Require Import List Arith Bool Lia ZArith Permutation.
Import ListNotations.
Require Import Yui.Model.Link Yui.Model.Tng Yui.Model.TngCob.

(* ---------- fuel ---------- *)
Lemma filter_len_le : forall (f : nat -> bool) l, length (filter f l) <= length l.
Proof. intros f l. induction l as [|x l IH]; cbn; [lia|]. destruct (f x); cbn; lia. Qed.
Lemma remove_idx_length : forall i l, In i l -> length (remove_idx i l) < length l.
Proof.
  intros i l. unfold remove_idx. induction l as [|x l IH]; [contradiction|]. cbn [filter].
  intros [->|Hi].
  - rewrite Nat.eqb_refl. cbn [negb length]. pose proof (filter_len_le (fun k => negb (k =? i)) l). lia.
  - specialize (IH Hi). destruct (negb (x =? i)); cbn [length]; lia.
Qed.
Lemma remove_idx_le : forall i l, length (remove_idx i l) <= length l.
Proof. intros. apply filter_len_le. Qed.

Lemma nb_walk_fuel : forall fuel c i0 sa ta, In i0 sa -> length sa <= fuel -> nb_walk fuel c i0 sa ta <> None.
Proof.
  induction fuel as [|f IH]; intros c i0 sa ta Hi Hl.
  - destruct sa; [contradiction|cbn in Hl; lia].
  - cbn [nb_walk]. destruct (find _ ta) as [j|]; [|discriminate].
    destruct (find _ (remove_idx i0 sa)) as [i1|] eqn:Ef; [|discriminate].
    apply IH.
    + apply find_some in Ef. apply Ef.
    + pose proof (remove_idx_length i0 sa Hi). lia.
Qed.

Lemma nb_walk_shrinks : forall fuel c i0 sa ta sa' ta', In i0 sa ->
  nb_walk fuel c i0 sa ta = Some (Some (sa', ta')) -> length sa' < length sa.
Proof.
  induction fuel as [|f IH]; intros c i0 sa ta sa' ta' Hi; cbn [nb_walk]; [discriminate|].
  destruct (find _ ta) as [j|]; [|discriminate].
  pose proof (remove_idx_length i0 sa Hi) as Hlt.
  destruct (find _ (remove_idx i0 sa)) as [i1|] eqn:Ef.
  - intros E. apply find_some in Ef. pose proof (IH _ _ _ _ _ _ (proj1 Ef) E). lia.
  - intros E. inversion E; subst. exact Hlt.
Qed.

Lemma nb_outer_fuel : forall fuel c sa ta count, length sa < fuel -> nb_outer fuel c sa ta count <> None.
Proof.
  induction fuel as [|f IH]; intros c sa ta count Hl; [lia|].
  destruct sa as [|i0 sa]; [cbn; discriminate|]. cbn [nb_outer].
  destruct (nb_walk (S (length (i0 :: sa))) c i0 (i0 :: sa) ta) as [[[sa' ta']|]|] eqn:Ew.
  - apply IH. assert (Hin : In i0 (i0 :: sa)) by (left; reflexivity).
    pose proof (nb_walk_shrinks _ _ _ _ _ _ _ Hin Ew). cbn [length] in *. lia.
  - discriminate.
  - exfalso. eapply nb_walk_fuel; [| |exact Ew]; [left; reflexivity|lia].
Qed.

(* the fuel of the model is never exhausted: the loops of nbdr_comps terminate *)
Theorem nbdr_fuel_sufficient : forall c, nbdr_fuel c <> None.
Proof.
  intros c. unfold nbdr_fuel. destruct (negb _); [discriminate|].
  destruct (nb_outer _ c _ _ 0) as [[side|]|] eqn:Eo; try discriminate.
  exfalso. eapply nb_outer_fuel; [|exact Eo]. lia.
Qed.

(* ---------- nbdr_comps looks at src and tgt only ---------- *)
Lemma nb_walk_ext : forall fuel c d i0 sa ta, csrc c = csrc d -> ctgt c = ctgt d ->
  nb_walk fuel c i0 sa ta = nb_walk fuel d i0 sa ta.
Proof.
  induction fuel as [|f IH]; intros c d i0 sa ta Es Et; [reflexivity|]. cbn [nb_walk]. rewrite Es, Et.
  destruct (find _ ta); [|reflexivity]. destruct (find _ (remove_idx i0 sa)); [|reflexivity]. apply IH; auto.
Qed.
Lemma nb_outer_ext : forall fuel c d sa ta count, csrc c = csrc d -> ctgt c = ctgt d ->
  nb_outer fuel c sa ta count = nb_outer fuel d sa ta count.
Proof.
  induction fuel as [|f IH]; intros c d sa ta count Es Et; destruct sa as [|i0 sa]; try reflexivity.
  cbn [nb_outer]. rewrite (nb_walk_ext _ c d) by auto.
  destruct (nb_walk _ d i0 (i0 :: sa) ta) as [[[sa' ta']|]|]; try reflexivity. apply IH; auto.
Qed.
Lemma cc_nbdr_ext : forall c d, csrc c = csrc d -> ctgt c = ctgt d -> cc_nbdr c = cc_nbdr d.
Proof.
  intros c d Es Et. unfold cc_nbdr, nbdr_fuel. rewrite Es, Et.
  rewrite (nb_outer_ext _ c d) by auto. reflexivity.
Qed.

(* ---------- the genus update of connect ---------- *)
Lemma even_half : forall g : Z, (0 <= g)%Z -> Z.even g = true -> (2 * Z.of_nat (Z.to_nat (g / 2)) = g)%Z.
Proof.
  intros g Hg He. rewrite Z2Nat.id by (apply Z.div_pos; lia).
  apply Z.even_spec in He. destruct He as [k Hk]. subst g.
  replace (2 * k / 2)%Z with k; [lia|]. rewrite Z.mul_comm, Z.div_mul; lia.
Qed.

Theorem cc_connect_euler : forall c o r, cc_connect c o = Some r ->
  exists x1 x2, cc_euler c = Some x1 /\ cc_euler o = Some x2 /\
    cc_euler r = Some (x1 + x2 - Z.of_nat (shared_endpts c o))%Z /\
    0 < shared_endpts c o /\
    tng_connect (csrc c) (csrc o) = Some (csrc r) /\ tng_connect (ctgt c) (ctgt o) = Some (ctgt r) /\
    cdx r = cdx c + cdx o /\ cdy r = cdy c + cdy o.
Proof.
  intros c o r. unfold cc_connect.
  destruct (cc_euler c) as [x1|] eqn:E1; [|discriminate].
  destruct (cc_euler o) as [x2|] eqn:E2; [|discriminate].
  destruct (shared_endpts c o =? 0) eqn:Ea; [discriminate|]. apply Nat.eqb_neq in Ea.
  destruct (tng_connect (csrc c) (csrc o)) as [s'|] eqn:Es; [|discriminate].
  destruct (tng_connect (ctgt c) (ctgt o)) as [t'|] eqn:Et; [|discriminate].
  destruct (cc_nbdr _) as [b|] eqn:Eb; [|discriminate].
  set (g := (2 - (x1 + x2 + Z.of_nat b) + Z.of_nat (shared_endpts c o))%Z).
  destruct (g <? 0)%Z eqn:Eg; [discriminate|]. apply Z.ltb_ge in Eg.
  destruct (Z.even g) eqn:Ee; cbn [negb]; [|discriminate].
  intros E. inversion E; subst r; clear E. exists x1, x2. cbn [csrc ctgt cdx cdy].
  repeat split; auto; try lia.
  unfold cc_euler.
  rewrite (cc_nbdr_ext _ (mkCC s' t' (cgenus c) (cdx c) (cdy c))) by reflexivity. rewrite Eb.
  cbn [cgenus]. f_equal. pose proof (even_half g Eg Ee). unfold g in *. lia.
Qed.

(* ---------- invertible components ---------- *)
Theorem cc_inv_involutive : forall c c', cc_inv c = Some c' -> cc_is_invertible c' = true /\ cc_inv c' = Some c.
Proof.
  intros [s t g x y] c'. unfold cc_inv, cc_is_invertible, cc_is_cyl. cbn [csrc ctgt cgenus cdx cdy].
  destruct ((length s =? 1) && (length t =? 1)) eqn:E1; cbn [andb]; [|discriminate].
  destruct (g =? 0) eqn:Eg; cbn [andb]; [|discriminate].
  destruct (x =? 0) eqn:Ex; cbn [andb]; [|discriminate].
  destruct (y =? 0) eqn:Ey; [|discriminate].
  apply Nat.eqb_eq in Eg, Ex, Ey. subst. intros E. inversion E; subst c'; clear E.
  unfold cc_plain. cbn [csrc ctgt cgenus cdx cdy]. rewrite andb_comm in E1. rewrite E1. cbn. auto.
Qed.

(* a cylinder over a circle, or over an arc (same end points at the bottom and at the top), has degree 0 *)
Theorem cc_cylinder_deg : forall p q,
  (pclosed p = true /\ pclosed q = true) \/
  (pclosed p = false /\ pclosed q = false /\ p_connectable q p = true /\ hd 0 (pedges p) <> last (pedges p) 0) ->
  cc_is_invertible (cc_plain [p] [q] 0) = true /\
  cc_nbdr (cc_plain [p] [q] 0) = Some (if pclosed p then 2 else 1) /\
  cc_euler (cc_plain [p] [q] 0) = Some (if pclosed p then 0 else 1)%Z /\
  cc_deg (cc_plain [p] [q] 0) = Some 0%Z.
Proof.
  intros p q Hpq. split; [reflexivity|].
  assert (Hn : cc_nbdr (cc_plain [p] [q] 0) = Some (if pclosed p then 2 else 1)).
  { unfold cc_nbdr, nbdr_fuel, arc_indices, cc_plain. cbn [csrc ctgt length seq filter nth].
    unfold p_is_arc. destruct Hpq as [[Hp Hq]|(Hp & Hq & Hc & _)]; rewrite Hp, Hq; cbn [negb length Nat.eqb].
    - reflexivity.
    - cbn [nb_outer nb_walk length remove_idx filter find nth csrc ctgt Nat.eqb negb]. rewrite Hc.
      cbn [find remove_idx filter Nat.eqb negb nb_outer]. reflexivity. }
  split; [exact Hn|]. unfold cc_deg, cc_euler. rewrite Hn. unfold cc_plain, cc_ndots, endpts_set, tng_endpts, p_ends.
  cbn [csrc cgenus cdx cdy flat_map].
  destruct Hpq as [[Hp Hq]|(Hp & Hq & Hc & Hne)]; rewrite Hp.
  - cbn. auto.
  - cbn [app nodup]. destruct (in_dec Nat.eq_dec (hd 0 (pedges p)) [last (pedges p) 0]) as [[E|[]]|Hn'].
    + exfalso. apply Hne. auto.
    + cbn. auto.
Qed.
