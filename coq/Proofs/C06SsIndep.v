(* C06 (ss oracle) - the divisibility of a homology class does not depend on the homology coordinates:
   for two coordinate systems (p, q, tors), (p', q', tors') of the homology of d1, d2 that both satisfy
   [gens_ok] and [complete_ok] (Proofs/C07Calc.v) with the same rank and non-zero torsion orders, the free
   coordinates of every cycle are related by an integer matrix in each direction
        p'_free z = (p'_free q_free) (p_free z),        p_free z = (p_free q'_free) (p'_free z),
   hence every integer divides all free coordinates in one system iff it does in the other, and [div_c]
   of the two coordinate vectors agree.  In particular the d of [ss_spec] does not depend on the route
   by which the Smith normal forms were found. *)
From Coq Require Import List Arith Bool ZArith Lia.
Require Import Yui.Base.Ring Yui.Base.MatF Yui.Base.MatL.
Require Import Yui.Model.HomologyCalc Yui.Model.KhSs.
Require Import Yui.Proofs.C07Calc Yui.Proofs.C06SsDiv.
Import ListNotations.
Open Scope Z_scope.

Local Notation sumZ := (sum Z_ring).
Local Notation mvZ := (mvec Z_ring).
Local Notation mmZ := (mmul Z_ring).
Local Notation mg := (mget Z_ring).

Lemma sumZ_ext n f g : (forall k, (k < n)%nat -> f k = g k) -> sumZ n f = sumZ n g.
Proof. exact (sum_ext Z_ring n f g). Qed.
Lemma sumZ_add n f g : sumZ n (fun k => f k + g k) = sumZ n f + sumZ n g.
Proof. exact (sum_add Z_ring Z_ring_laws n f g). Qed.
Lemma sumZ_scal n a f : sumZ n (fun k => a * f k) = a * sumZ n f.
Proof. exact (sum_scal_l Z_ring Z_ring_laws n a f). Qed.
Lemma sumZ_zero n f : (forall k, (k < n)%nat -> f k = 0) -> sumZ n f = 0.
Proof. exact (sum_zero_ext Z_ring Z_ring_laws n f). Qed.
Lemma sumZ_split n m f : sumZ (n + m) f = sumZ n f + sumZ m (fun k => f (n + k)%nat).
Proof. exact (sum_split Z_ring Z_ring_laws n m f). Qed.
Lemma sumZ_divide m n f : (forall k, (k < n)%nat -> (m | f k)) -> (m | sumZ n f).
Proof.
  induction n as [|n IH]; intros H; cbn [sum].
  - apply Z.divide_0_r.
  - change (m | sumZ n f + f n). apply Z.divide_add_r; [apply IH; intros; apply H; lia|apply H; lia].
Qed.

Lemma mvZ_unfold n A v i : mvZ n A v i = sumZ n (fun k => A i k * v k).
Proof. reflexivity. Qed.
Lemma mmZ_unfold n A B i j : mmZ n A B i j = sumZ n (fun k => A i k * B k j).
Proof. reflexivity. Qed.

Lemma mvZ_ext n A u v i : (forall k, (k < n)%nat -> u k = v k) -> mvZ n A u i = mvZ n A v i.
Proof. intros H. rewrite !mvZ_unfold. apply sumZ_ext. intros k Hk. now rewrite H. Qed.
Lemma mvZ_add n A u v i : mvZ n A (fun k => u k + v k) i = mvZ n A u i + mvZ n A v i.
Proof. rewrite !mvZ_unfold, <- sumZ_add. apply sumZ_ext. intros k _. ring. Qed.
Lemma mvZ_scal n A a v i : mvZ n A (fun k => a * v k) i = a * mvZ n A v i.
Proof. rewrite !mvZ_unfold, <- sumZ_scal. apply sumZ_ext. intros k _. ring. Qed.
Lemma mvZ_col n A B j i : mvZ n A (fun k => B k j) i = mmZ n A B i j.
Proof. reflexivity. Qed.
Lemma mvZ_mmZ n p A B v i : mvZ p (mmZ n A B) v i = mvZ n A (mvZ p B v) i.
Proof. exact (mvec_mmul Z_ring Z_ring_laws n p A B v i). Qed.

Section Indep.
  Variables (d1 d2 : dmat Z) (rank : nat).
  Let n := nr d1.

  Definition tors_nz (tors : list Z) : Prop := forall s, (s < length tors)%nat -> nth s tors 0 <> 0.

  (* the torsion generators of one system have zero free coordinates in every other system *)
  Lemma tors_gen_free_zero tors p q tors' p' q' :
    gens_ok Z_ring d1 d2 rank tors p q -> complete_ok Z_ring d1 d2 rank tors p q -> tors_nz tors ->
    gens_ok Z_ring d1 d2 rank tors' p' q' ->
    forall i j, (i < rank)%nat -> (rank <= j < rank + length tors)%nat ->
    mmZ n (mg p') (mg q) i j = 0.
  Proof.
    intros G1 C1 Tnz G2 i j Hi Hj.
    unfold gens_ok in G1, G2. cbn zeta in G1, G2. fold n in G1, G2.
    destruct G1 as [_ [_ [_ [_ [Gcyc [Gid _]]]]]].
    destruct G2 as [_ [_ [_ [_ [_ [_ Gbd']]]]]].
    unfold complete_ok in C1. cbn zeta in C1. fold n in C1.
    set (h := (rank + length tors)%nat) in *.
    set (s := (j - rank)%nat).
    set (t := nth s tors 0).
    assert (Ht : t <> 0) by (apply Tnz; unfold s; lia).
    set (z := fun k => t * mg q k j).
    (* z is a cycle *)
    assert (Zc : forall i', (i' < nr d2)%nat -> mvZ n (mg d2) z i' = 0).
    { intros i' Hi'. unfold z. rewrite mvZ_scal, mvZ_col.
      rewrite (Gcyc i' j Hi' ltac:(lia)). unfold mzero. cbn. lia. }
    (* its coordinates *)
    assert (Zp : forall i', (i' < h)%nat -> mvZ n (mg p) z i' = t * (if (i' =? j)%nat then 1 else 0)).
    { intros i' Hi'. unfold z. rewrite mvZ_scal, mvZ_col.
      rewrite (Gid i' j Hi' ltac:(lia)). reflexivity. }
    destruct (C1 z Zc) as [_ Cb].
    destruct Cb as [x Hx].
    - intros i' Hi'. rewrite Zp by lia. destruct (Nat.eqb_spec i' j); [lia|]. cbn. lia.
    - intros s' Hs'. rewrite Zp by lia.
      destruct (Nat.eqb_spec (rank + s') j) as [E|E].
      + exists 1. replace s' with s by (unfold s; lia). fold t. cbn. lia.
      + exists 0. cbn. lia.
    - (* t * (p' q)_(i j) = (p' z)_i = (p' d1 x)_i = 0 *)
      assert (E : t * mmZ n (mg p') (mg q) i j = 0).
      { rewrite <- mvZ_col, <- mvZ_scal. fold z.
        rewrite (mvZ_ext n (mg p') z (mvZ (nc d1) (mg d1) x)) by exact Hx.
        destruct (Gbd' x i ltac:(lia)) as [G0 _]. exact (G0 Hi). }
      apply Z.mul_eq_0 in E. destruct E; [contradiction|assumption].
  Qed.

  (* the free coordinates in one system are an integer combination of the free coordinates in the other *)
  Lemma free_coords_change tors p q tors' p' q' (z : nat -> Z) :
    gens_ok Z_ring d1 d2 rank tors p q -> complete_ok Z_ring d1 d2 rank tors p q -> tors_nz tors ->
    gens_ok Z_ring d1 d2 rank tors' p' q' ->
    (forall i, (i < nr d2)%nat -> mvZ n (mg d2) z i = 0) ->
    forall i, (i < rank)%nat ->
    mvZ n (mg p') z i = sumZ rank (fun j => mmZ n (mg p') (mg q) i j * mvZ n (mg p) z j).
  Proof.
    intros G1 C1 Tnz G2 Zc i Hi.
    pose proof (tors_gen_free_zero _ _ _ _ _ _ G1 C1 Tnz G2 i) as Hz.
    unfold gens_ok in G2. cbn zeta in G2. fold n in G2.
    destruct G2 as [_ [_ [_ [_ [_ [_ Gbd']]]]]].
    unfold complete_ok in C1. cbn zeta in C1. fold n in C1.
    destruct (C1 z Zc) as [[x Hx] _].
    rewrite (mvZ_ext n (mg p') z _ i Hx).
    rewrite mvZ_add.
    destruct (Gbd' x i ltac:(lia)) as [G0 _]. cbn zeta in G0.
    replace (mvZ n (mg p') (mvZ (nc d1) (mg d1) x) i) with 0 by (symmetry; exact (G0 Hi)).
    rewrite Z.add_0_r, <- mvZ_mmZ, mvZ_unfold, sumZ_split.
    rewrite (sumZ_zero (length tors)); [lia|].
    intros k Hk. rewrite Hz by lia. lia.
  Qed.

  (* every integer m (m = 0: vanishing) divides the free coordinates in one system iff in the other *)
  Theorem free_divisibility_independent tors p q tors' p' q' (z : nat -> Z) (m : Z) :
    gens_ok Z_ring d1 d2 rank tors p q -> complete_ok Z_ring d1 d2 rank tors p q -> tors_nz tors ->
    gens_ok Z_ring d1 d2 rank tors' p' q' -> complete_ok Z_ring d1 d2 rank tors' p' q' -> tors_nz tors' ->
    (forall i, (i < nr d2)%nat -> mvZ n (mg d2) z i = 0) ->
    ((forall i, (i < rank)%nat -> (m | mvZ n (mg p) z i)) <-> (forall i, (i < rank)%nat -> (m | mvZ n (mg p') z i))).
  Proof.
    intros G1 C1 T1 G2 C2 T2 Zc. split; intros H i Hi.
    - rewrite (free_coords_change _ _ _ _ _ _ z G1 C1 T1 G2 Zc i Hi).
      apply sumZ_divide. intros j Hj. apply Z.divide_mul_r. now apply H.
    - rewrite (free_coords_change _ _ _ _ _ _ z G2 C2 T2 G1 Zc i Hi).
      apply sumZ_divide. intros j Hj. apply Z.divide_mul_r. now apply H.
  Qed.
End Indep.

(* ---------- list level ---------- *)
Lemma is_zero_divides_0 v : is_zero_vec v <-> divides_all 0 v.
Proof.
  unfold is_zero_vec, divides_all. rewrite !Forall_forall. split; intros H a Ha.
  - rewrite (H a Ha). apply Z.divide_0_r.
  - now apply Z.divide_0_l, H.
Qed.

Lemma div_c_same c v w : 2 <= Z.abs c ->
  (forall m, divides_all m v <-> divides_all m w) -> div_c c v = div_c c w.
Proof.
  intros Hc H. destruct (div_c c v) as [d|] eqn:E.
  - symmetry. apply (div_c_characterised c w d Hc). apply (div_c_characterised c v d Hc) in E.
    destruct E as [E0 [E1 E2]]. rewrite is_zero_divides_0 in *. rewrite <- !H. tauto.
  - symmetry. apply div_c_none. apply div_c_none in E. rewrite is_zero_divides_0 in *. now apply H.
Qed.

Lemma divides_all_tab m (f : nat -> Z) k :
  divides_all m (map f (seq 0 k)) <-> (forall i, (i < k)%nat -> (m | f i)).
Proof.
  unfold divides_all. rewrite Forall_forall. split.
  - intros H i Hi. apply H. apply in_map. apply in_seq. lia.
  - intros H a Ha. apply in_map_iff in Ha. destruct Ha as [i [<- Hi]]. apply in_seq in Hi. apply H. lia.
Qed.

Lemma nth_firstn_lt (w : list Z) : forall i k, (i < k)%nat -> nth i (firstn k w) 0 = nth i w 0.
Proof.
  induction w as [|a w IH]; intros i k Hik.
  - rewrite firstn_nil. reflexivity.
  - destruct k as [|k]; [lia|]. cbn [firstn]. destruct i as [|i]; [reflexivity|]. cbn [nth]. apply IH. lia.
Qed.

Lemma divides_all_firstn m (w : list Z) k : (k <= length w)%nat ->
  (divides_all m (firstn k w) <-> (forall i, (i < k)%nat -> (m | nth i w 0))).
Proof.
  intros Hk. unfold divides_all. rewrite Forall_forall. split.
  - intros H i Hi. rewrite <- (nth_firstn_lt w i k Hi). apply H. apply nth_In. rewrite firstn_length. lia.
  - intros H a Ha. destruct (In_nth _ _ 0 Ha) as [i [Hi <-]]. rewrite firstn_length in Hi.
    rewrite nth_firstn_lt by lia. apply H. lia.
Qed.
