(* C07, part 5: corollaries that combine the previous parts - the rank formula against ANY diagonal forms of
   the two differentials (the rank is an invariant, C07Rank.v), and the statement for the public route
   ChainComplexBase::homology_at. *)
From Coq Require Import ZArith Arith List Lia Bool.
Require Import Yui.Base.Ring Yui.Base.MatF Yui.Base.MatL Yui.Model.HomologyCalc.
Require Import Yui.Proofs.C07Algebra Yui.Proofs.C07Calc Yui.Proofs.C07Rank Yui.Proofs.C07Complex.
Import ListNotations.

Section C07Main.
  Context {R : Type} (o : ring_ops R) (L : ring_laws o) (Hint : integral o).
  Variable isu : R -> bool.
  Hypothesis isu_complete : forall a b, rmul o a b = rone o -> isu a = true.
  Variable snf : dmat R -> bool -> bool -> bool -> bool -> option (snf_result R).
  Hypothesis isu_sound : forall a, isu a = true -> exists b, rmul o a b = rone o.
  Hypothesis HC : snf_contract o snf.

  (* rank = n - rank d_in - rank d_out for whatever diagonal forms the two ranks are read off *)
  Theorem calculate_rank_formula d1 d2 wt rank tors tr :
    mwf d1 -> mwf d2 -> zero_prod o d1 d2 ->
    calculate o isu snf d1 d2 wt = Some (rank, tors, tr) ->
    forall rho1 a rho2 b,
      smith_form o (nr d1) (nc d1) (mget o d1) rho1 a ->
      smith_form o (nr d2) (nc d2) (mget o d2) rho2 b ->
      (rank + rho1 + rho2 = nr d1)%nat.
  Proof.
    intros W1 W2 Hdd H rho1 a rho2 b F1 F2.
    destruct (calculate_rank_tors o L Hint isu isu_complete snf isu_sound d1 d2 wt rank tors tr HC W1 W2 Hdd H)
      as [_ [r1 [r2 [a' [b' [t [G1 [G2 [Hr _]]]]]]]]].
    rewrite (smith_form_rank_unique o L Hint _ _ _ _ _ _ _ F1 G1).
    rewrite (smith_form_rank_unique o L Hint _ _ _ _ _ _ _ F2 G2).
    exact Hr.
  Qed.

  (* the public route: the summand reported in degree i *)
  Theorem homology_at_correct C i h :
    homology_at o isu snf C i = Some h ->
    exists d_in d_out,
      d_matrix o C (i - c_ddeg C)%Z = Some d_in /\ d_matrix o C i = Some d_out /\
      s_ngens h = c_rank C i /\ nr d_in = c_rank C i /\ nc d_out = c_rank C i /\
      (zero_prod o d_in d_out ->
       (forall rho1 a rho2 b,
          smith_form o (nr d_in) (nc d_in) (mget o d_in) rho1 a ->
          smith_form o (nr d_out) (nc d_out) (mget o d_out) rho2 b ->
          (s_rank h + rho1 + rho2 = c_rank C i)%nat) /\
       (exists (r1 : nat) (a : nat -> R),
          smith_form o (nr d_in) (nc d_in) (mget o d_in) r1 a /\
          (forall k, (S k < r1)%nat -> exists c, a (S k) = rmul o (a k) c) /\
          s_tors h = non_units isu (map a (seq O r1))) /\
       exists p q,
         forward_mat o (s_trans h) = Some p /\ backward_mat o (s_trans h) = Some q /\
         gens_ok o d_in d_out (s_rank h) (s_tors h) p q /\
         complete_ok o d_in d_out (s_rank h) (s_tors h) p q).
  Proof.
    intros H.
    destruct (homology_at_calc o isu snf C i h H)
      as [d0 [d1 [t [E0 [E1 [W0 [W1 [S0 [S1 [Hcalc [Hng [Hsrc [Htgt [Hf Hb]]]]]]]]]]]]]].
    exists d0, d1.
    split; [exact E0|]. split; [exact E1|]. split; [exact Hng|]. split; [exact S0|]. split; [exact S1|].
    intros Hdd. split; [|split].
    - intros rho1 a rho2 b F1 F2. rewrite <- S0.
      exact (calculate_rank_formula d0 d1 true _ _ _ W0 W1 Hdd Hcalc rho1 a rho2 b F1 F2).
    - destruct (calculate_rank_tors o L Hint isu isu_complete snf isu_sound d0 d1 true _ _ _ HC W0 W1 Hdd Hcalc)
        as [_ [r1 [r2 [a [b [t' [G1 [_ [_ [Hch [Ht _]]]]]]]]]]].
      exists r1, a. split; [exact G1|]. split; [exact Hch|exact Ht].
    - destruct (calculate_generators o L Hint isu isu_complete snf isu_sound d0 d1 _ _ _ HC W0 W1 Hdd Hcalc)
        as [t1 [p [q [Et [Ep [Eq [_ [_ Hg]]]]]]]].
      destruct (calculate_complete o L Hint isu isu_complete snf isu_sound d0 d1 _ _ _ HC W0 W1 Hdd Hcalc)
        as [t2 [p' [q' [Et' [Ep' [Eq' Hc]]]]]].
      injection Et as <-. injection Et' as <-.
      rewrite Ep in Ep'. injection Ep' as <-. rewrite Eq in Eq'. injection Eq' as <-.
      exists p, q. rewrite Hf, Hb. split; [exact Ep|]. split; [exact Eq|]. split; [exact Hg|exact Hc].
  Qed.
End C07Main.
