(* Soundness of the sparse Smith diagonalisation of Model/KhHomology.v, part 2: matrix equivalence.
   Integer matrices as functions (Base/MatF.v over Z_ring).  [equiv m n A B] : there are square integer
   matrices P, P', Q, Q' with P P' = I = P' P (m x m), Q Q' = I = Q' Q (n x n) and P A Q = B on the
   m x n window.  It is reflexive and transitive, and contains the elementary operations the loop uses:
   adding multiples of one row to the other rows, adding multiples of one column to the other columns,
   permuting rows / columns, scaling rows by units. *)
From Coq Require Import List Arith Bool ZArith Lia.
Require Import Yui.Base.Ring Yui.Base.MatF Yui.Proofs.C07Algebra.
Import ListNotations.
Open Scope Z_scope.

Notation zmat := (mat Z).
Notation zmul := (mmul Z_ring).
Notation zid := (mid Z_ring).
Notation zinv := (inv_pair Z_ring).

(* ---------- the lemmas of MatF with Z syntax ---------- *)
Lemma zsum_ext n f g : (forall k, (k < n)%nat -> f k = g k) -> sum Z_ring n f = sum Z_ring n g.
Proof. exact (sum_ext Z_ring n f g). Qed.
Lemma zsum_add n f g : sum Z_ring n (fun k => f k + g k) = sum Z_ring n f + sum Z_ring n g.
Proof. exact (sum_add Z_ring Z_ring_laws n f g). Qed.
Lemma zsum_delta n i f : (i < n)%nat -> sum Z_ring n (fun k => if (k =? i)%nat then f k else 0) = f i.
Proof. exact (sum_delta Z_ring Z_ring_laws n i f). Qed.
Lemma zmul_unfold n A B i j : zmul n A B i j = sum Z_ring n (fun k => A i k * B k j).
Proof. reflexivity. Qed.
Lemma zid_unfold i j : zid i j = if (i =? j)%nat then 1 else 0.
Proof. reflexivity. Qed.

Lemma zinv_id k : zinv k zid zid.
Proof. split; intros i j Hi Hj; now apply (mmul_id_l Z_ring Z_ring_laws). Qed.

Lemma zinv_mul m P1 Pi1 P2 Pi2 :
  zinv m P1 Pi1 -> zinv m P2 Pi2 -> zinv m (zmul m P2 P1) (zmul m Pi1 Pi2).
Proof.
  intros [A1 B1] [A2 B2]. split; intros i j Hi Hj.
  - rewrite (mmul_assoc Z_ring Z_ring_laws).
    rewrite (mmul_ext_r Z_ring m P2 _ Pi2).
    + now apply A2.
    + intros l Hl. apply (mmul_cancel_l Z_ring Z_ring_laws); assumption.
  - rewrite (mmul_assoc Z_ring Z_ring_laws).
    rewrite (mmul_ext_r Z_ring m Pi1 _ P1).
    + now apply B1.
    + intros l Hl. apply (mmul_cancel_l Z_ring Z_ring_laws); assumption.
Qed.

(* ---------- equivalence ---------- *)
Definition equiv (m n : nat) (A B : zmat) : Prop :=
  exists P Pi Q Qi : zmat, zinv m P Pi /\ zinv n Q Qi /\ meq m n (zmul m P (zmul n A Q)) B.

Lemma equiv_meq_r m n A B B' : equiv m n A B -> meq m n B B' -> equiv m n A B'.
Proof.
  intros [P [Pi [Q [Qi [HP [HQ HE]]]]]] HB. exists P, Pi, Q, Qi.
  split; [exact HP|]. split; [exact HQ|]. eapply meq_trans; eassumption.
Qed.

Lemma equiv_of_meq m n A B : meq m n A B -> equiv m n A B.
Proof.
  intros H. exists zid, zid, zid, zid. split; [apply zinv_id|]. split; [apply zinv_id|].
  intros i j Hi Hj. rewrite (mmul_id_l Z_ring Z_ring_laws) by assumption.
  rewrite (mmul_id_r Z_ring Z_ring_laws) by assumption. now apply H.
Qed.

Lemma equiv_refl m n A : equiv m n A A.
Proof. apply equiv_of_meq, meq_refl. Qed.

Lemma equiv_trans m n A B C : equiv m n A B -> equiv m n B C -> equiv m n A C.
Proof.
  intros [P1 [Pi1 [Q1 [Qi1 [HP1 [HQ1 HE1]]]]]] [P2 [Pi2 [Q2 [Qi2 [HP2 [HQ2 HE2]]]]]].
  exists (zmul m P2 P1), (zmul m Pi1 Pi2), (zmul n Q1 Q2), (zmul n Qi2 Qi1).
  split; [now apply zinv_mul|].
  split; [apply inv_pair_sym; apply zinv_mul; apply inv_pair_sym; assumption|].
  intros i j Hi Hj. rewrite <- (HE2 i j Hi Hj).
  rewrite (mmul_assoc Z_ring Z_ring_laws).
  apply (mmul_ext_r Z_ring). intros l Hl.
  rewrite (mmul_ext_r Z_ring m P1 _ (zmul n (zmul n A Q1) Q2))
    by (intros l' _; symmetry; apply (mmul_assoc Z_ring Z_ring_laws)).
  rewrite <- (mmul_assoc Z_ring Z_ring_laws).
  apply (mmul_ext_l Z_ring). intros l' Hl'. now apply HE1.
Qed.

Lemma equiv_left m n A B P Pi : zinv m P Pi -> meq m n (zmul m P A) B -> equiv m n A B.
Proof.
  intros HP HE. exists P, Pi, zid, zid. split; [exact HP|]. split; [apply zinv_id|].
  intros i j Hi Hj. rewrite <- (HE i j Hi Hj). apply (mmul_ext_r Z_ring). intros l Hl.
  now apply (mmul_id_r Z_ring Z_ring_laws).
Qed.

Lemma equiv_right m n A B Q Qi : zinv n Q Qi -> meq m n (zmul n A Q) B -> equiv m n A B.
Proof.
  intros HQ HE. exists zid, zid, Q, Qi. split; [apply zinv_id|]. split; [exact HQ|].
  intros i j Hi Hj. rewrite (mmul_id_l Z_ring Z_ring_laws) by assumption. now apply HE.
Qed.

(* ---------- adding multiples of row i to the other rows ---------- *)
Definition rowT (i : nat) (q : nat -> Z) : zmat :=
  fun x l => (if (l =? x)%nat then 1 else 0) + (if (l =? i)%nat then (if (x =? i)%nat then 0 else q x) else 0).

Lemma rowT_mul m i q M x c : (i < m)%nat -> (x < m)%nat ->
  zmul m (rowT i q) M x c = M x c + (if (x =? i)%nat then 0 else q x * M i c).
Proof.
  intros Hi Hx. rewrite zmul_unfold. unfold rowT.
  rewrite (zsum_ext m _ (fun l => (if (l =? x)%nat then M l c else 0)
                                 + (if (l =? i)%nat then (if (x =? i)%nat then 0 else q x * M l c) else 0))).
  - rewrite zsum_add, (zsum_delta m x (fun l => M l c)) by exact Hx.
    rewrite (zsum_delta m i (fun l => if (x =? i)%nat then 0 else q x * M l c)) by exact Hi. reflexivity.
  - intros l _. destruct (l =? x)%nat; destruct (l =? i)%nat; destruct (x =? i)%nat; ring.
Qed.

Lemma rowT_inv m i q : (i < m)%nat -> zinv m (rowT i q) (rowT i (fun x => - q x)).
Proof.
  intros Hi.
  assert (H : forall q1 q2, (forall x, q2 x = - q1 x) -> meq m m (zmul m (rowT i q1) (rowT i q2)) zid).
  { intros q1 q2 Hq x c Hx Hc. rewrite rowT_mul by assumption. unfold rowT. rewrite zid_unfold.
    rewrite (Hq x), (Nat.eqb_sym c x), Nat.eqb_refl.
    destruct (Nat.eqb_spec x c) as [Exc|Hxc]; destruct (Nat.eqb_spec c i) as [Eci|Hci];
      destruct (Nat.eqb_spec x i) as [Exi|Hxi]; subst; lia. }
  split; apply H; intros x; lia.
Qed.

Lemma equiv_row_op m n M M' i q : (i < m)%nat ->
  meq m n M' (fun x c => M x c + (if (x =? i)%nat then 0 else q x * M i c)) -> equiv m n M M'.
Proof.
  intros Hi HE. apply (equiv_left m n M M' (rowT i q) (rowT i (fun x => - q x))); [now apply rowT_inv|].
  intros x c Hx Hc. rewrite rowT_mul by assumption. symmetry. now apply HE.
Qed.

(* ---------- adding multiples of column j to the other columns ---------- *)
Definition colT (j : nat) (q : nat -> Z) : zmat :=
  fun l c => (if (l =? c)%nat then 1 else 0) + (if (l =? j)%nat then (if (c =? j)%nat then 0 else q c) else 0).

Lemma colT_mul n j q M x c : (j < n)%nat -> (c < n)%nat ->
  zmul n M (colT j q) x c = M x c + (if (c =? j)%nat then 0 else q c * M x j).
Proof.
  intros Hj Hc. rewrite zmul_unfold. unfold colT.
  rewrite (zsum_ext n _ (fun l => (if (l =? c)%nat then M x l else 0)
                                 + (if (l =? j)%nat then (if (c =? j)%nat then 0 else q c * M x l) else 0))).
  - rewrite zsum_add, (zsum_delta n c (fun l => M x l)) by exact Hc.
    rewrite (zsum_delta n j (fun l => if (c =? j)%nat then 0 else q c * M x l)) by exact Hj. reflexivity.
  - intros l _. destruct (l =? c)%nat; destruct (l =? j)%nat; destruct (c =? j)%nat; ring.
Qed.

Lemma colT_inv n j q : (j < n)%nat -> zinv n (colT j q) (colT j (fun c => - q c)).
Proof.
  intros Hj.
  assert (H : forall q1 q2, (forall c, q2 c = - q1 c) -> meq n n (zmul n (colT j q1) (colT j q2)) zid).
  { intros q1 q2 Hq x c Hx Hc. rewrite colT_mul by assumption. unfold colT. rewrite zid_unfold.
    rewrite (Hq c), Nat.eqb_refl.
    destruct (Nat.eqb_spec x c) as [Exc|Hxc]; destruct (Nat.eqb_spec c j) as [Ecj|Hcj];
      destruct (Nat.eqb_spec x j) as [Exj|Hxj]; subst; lia. }
  split; apply H; intros c; lia.
Qed.

Lemma equiv_col_op m n M M' j q : (j < n)%nat ->
  meq m n M' (fun x c => M x c + (if (c =? j)%nat then 0 else q c * M x j)) -> equiv m n M M'.
Proof.
  intros Hj HE. apply (equiv_right m n M M' (colT j q) (colT j (fun c => - q c))); [now apply colT_inv|].
  intros x c Hx Hc. rewrite colT_mul by assumption. symmetry. now apply HE.
Qed.

(* ---------- permutations ---------- *)
Definition bij (m : nat) (f g : nat -> nat) : Prop :=
  forall x, (x < m)%nat -> (f x < m)%nat /\ (g x < m)%nat /\ g (f x) = x /\ f (g x) = x.

Lemma bij_sym m f g : bij m f g -> bij m g f.
Proof. intros H x Hx. destruct (H x Hx) as [H1 [H2 [H3 H4]]]. auto. Qed.

Definition rowP (f : nat -> nat) : zmat := fun x l => if (l =? f x)%nat then 1 else 0.
Definition colP (f : nat -> nat) : zmat := fun l c => if (l =? f c)%nat then 1 else 0.

Lemma rowP_mul m f M x c : (f x < m)%nat -> zmul m (rowP f) M x c = M (f x) c.
Proof.
  intros Hx. rewrite zmul_unfold. unfold rowP.
  rewrite (zsum_ext m _ (fun l => if (l =? f x)%nat then M l c else 0)).
  - now rewrite (zsum_delta m (f x) (fun l => M l c)).
  - intros l _. destruct (l =? f x)%nat; ring.
Qed.

Lemma colP_mul n f M x c : (f c < n)%nat -> zmul n M (colP f) x c = M x (f c).
Proof.
  intros Hc. rewrite zmul_unfold. unfold colP.
  rewrite (zsum_ext n _ (fun l => if (l =? f c)%nat then M x l else 0)).
  - now rewrite (zsum_delta n (f c) (fun l => M x l)).
  - intros l _. destruct (l =? f c)%nat; ring.
Qed.

Lemma rowP_inv m f g : bij m f g -> zinv m (rowP f) (rowP g).
Proof.
  intros H.
  assert (K : forall f g, bij m f g -> meq m m (zmul m (rowP f) (rowP g)) zid).
  { clear f g H. intros f g H x c Hx Hc. destruct (H x Hx) as [H1 [H2 [H3 H4]]].
    rewrite rowP_mul by exact H1. unfold rowP. rewrite zid_unfold, H3, (Nat.eqb_sym c x). reflexivity. }
  split; [now apply K|apply K; now apply bij_sym].
Qed.

Lemma colP_inv n f g : bij n f g -> zinv n (colP f) (colP g).
Proof.
  intros H.
  assert (K : forall f g, bij n f g -> meq n n (zmul n (colP f) (colP g)) zid).
  { clear f g H. intros f g H x c Hx Hc. destruct (H c Hc) as [H1 [H2 [H3 H4]]].
    rewrite colP_mul by exact H2. unfold colP. rewrite zid_unfold.
    destruct (Nat.eqb_spec x c) as [->|Hne].
    - now rewrite H4, Nat.eqb_refl.
    - destruct (Nat.eqb_spec x (f (g c))) as [E|_]; [|reflexivity]. rewrite H4 in E. contradiction. }
  split; [now apply K|apply K; now apply bij_sym].
Qed.

Lemma equiv_row_perm m n M M' f g : bij m f g ->
  meq m n M' (fun x c => M (f x) c) -> equiv m n M M'.
Proof.
  intros H HE. apply (equiv_left m n M M' (rowP f) (rowP g)); [now apply rowP_inv|].
  intros x c Hx Hc. rewrite rowP_mul by apply (H x Hx). symmetry. now apply HE.
Qed.

Lemma equiv_col_perm m n M M' f g : bij n f g ->
  meq m n M' (fun x c => M x (f c)) -> equiv m n M M'.
Proof.
  intros H HE. apply (equiv_right m n M M' (colP f) (colP g)); [now apply colP_inv|].
  intros x c Hx Hc. rewrite colP_mul by apply (H c Hc). symmetry. now apply HE.
Qed.

(* ---------- scaling rows by units ---------- *)
Definition rowD (u : nat -> Z) : zmat := fun x l => if (l =? x)%nat then u x else 0.

Lemma rowD_mul m u M x c : (x < m)%nat -> zmul m (rowD u) M x c = u x * M x c.
Proof.
  intros Hx. rewrite zmul_unfold. unfold rowD.
  rewrite (zsum_ext m _ (fun l => if (l =? x)%nat then u x * M l c else 0)).
  - now rewrite (zsum_delta m x (fun l => u x * M l c)).
  - intros l _. destruct (l =? x)%nat; ring.
Qed.

Lemma equiv_row_scale m n M M' u : (forall x, u x * u x = 1) ->
  meq m n M' (fun x c => u x * M x c) -> equiv m n M M'.
Proof.
  intros Hu HE. apply (equiv_left m n M M' (rowD u) (rowD u)).
  - split; intros x c Hx Hc; rewrite rowD_mul by assumption; unfold rowD; rewrite zid_unfold, (Nat.eqb_sym c x);
      destruct (x =? c)%nat; [apply Hu|ring|apply Hu|ring].
  - intros x c Hx Hc. rewrite rowD_mul by assumption. symmetry. now apply HE.
Qed.

(* ---------- a permutation of [0, n) that starts with a given duplicate-free list ---------- *)
Lemma perm_of_list n (cs : list nat) :
  NoDup cs -> (forall c, In c cs -> (c < n)%nat) ->
  exists f g, bij n f g /\ forall t, (t < length cs)%nat -> f t = nth t cs O.
Proof.
  induction cs as [|c cs IH] using rev_ind; intros Hnd Hb.
  - exists (fun x => x), (fun x => x). split; [intros x Hx; auto|]. intros t Ht. cbn [length] in Ht. lia.
  - assert (Hnd' : NoDup cs /\ ~ In c cs).
    { apply NoDup_remove in Hnd. rewrite app_nil_r in Hnd. exact Hnd. }
    destruct Hnd' as [Hnd' Hnin].
    destruct (IH Hnd' (fun c' H => Hb c' (in_or_app _ _ _ (or_introl H)))) as [f [g [Hfg Hf]]].
    assert (Hc : (c < n)%nat) by (apply Hb, in_or_app; right; now left).
    set (t := length cs). set (x := g c).
    destruct (Hfg c Hc) as [_ [Hx [_ Hfx]]]. fold x in Hx, Hfx.
    assert (Htx : (t <= x)%nat).
    { destruct (Nat.le_gt_cases t x) as [H|H]; [exact H|exfalso].
      apply Hnin. rewrite <- Hfx, (Hf x H). now apply nth_In. }
    set (sw := fun y => if (y =? t)%nat then x else if (y =? x)%nat then t else y).
    assert (Hsw : forall y, (y < n)%nat -> (sw y < n)%nat /\ sw (sw y) = y).
    { intros y Hy. unfold sw.
      destruct (Nat.eqb_spec y t) as [->|Hyt].
      - split; [exact Hx|]. destruct (Nat.eqb_spec x t) as [E|_]; [exact E|]. now rewrite Nat.eqb_refl.
      - destruct (Nat.eqb_spec y x) as [->|Hyx].
        + split; [lia|]. now rewrite Nat.eqb_refl.
        + split; [exact Hy|]. destruct (Nat.eqb_spec y t); [contradiction|].
          destruct (Nat.eqb_spec y x); [contradiction|reflexivity]. }
    exists (fun y => f (sw y)), (fun z => sw (g z)). split.
    + intros y Hy. destruct (Hsw y Hy) as [S1 S2]. destruct (Hfg (sw y) S1) as [F1 [_ [F3 _]]].
      destruct (Hfg y Hy) as [_ [G2 [_ G4]]]. destruct (Hsw (g y) G2) as [S3 S4].
      split; [exact F1|]. split; [exact S3|]. split; [now rewrite F3|now rewrite S4].
    + intros s Hs. rewrite app_length in Hs. cbn [length] in Hs. fold t in Hs.
      destruct (Nat.eq_dec s t) as [->|Hst].
      * unfold sw. rewrite Nat.eqb_refl, Hfx. unfold t. now rewrite nth_middle.
      * assert (Hlt : (s < t)%nat) by lia. unfold sw.
        destruct (Nat.eqb_spec s t); [contradiction|]. destruct (Nat.eqb_spec s x); [lia|].
        rewrite (Hf s Hlt). now rewrite app_nth1.
Qed.
