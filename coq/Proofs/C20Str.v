(* C20: lemmas on strings (lists of code points) and on decimal printing / parsing. *)
From Coq Require Import ZArith NArith List Bool Arith Lia ZifyN ZifyBool ZifyNat.
Require Import Yui.Model.Table.
Import ListNotations.

Lemma str_eqb_eq : forall a b, str_eqb a b = true <-> a = b.
Proof.
  induction a as [|x a IH]; destruct b as [|y b]; cbn [str_eqb]; split; intro H; try reflexivity; try discriminate.
  - apply andb_true_iff in H. destruct H as [H1 H2]. apply N.eqb_eq in H1. apply IH in H2. now subst.
  - inversion H; subst. apply andb_true_iff. split; [apply N.eqb_refl | now apply IH].
Qed.
Lemma str_eqb_refl : forall a, str_eqb a a = true.
Proof. intro a. now apply str_eqb_eq. Qed.
Lemma str_eqb_neq : forall a b, str_eqb a b = false <-> a <> b.
Proof.
  intros a b. split.
  - intros H E. apply str_eqb_eq in E. congruence.
  - intro H. destruct (str_eqb a b) eqn:E; [apply str_eqb_eq in E; contradiction | reflexivity].
Qed.

(* ---------- decimal digits ---------- *)
Definition digit_str (s : str) : Prop := Forall (fun c => is_digit c = true) s.

Lemma is_digit_spec : forall c, is_digit c = true <-> (48 <= c <= 57)%N.
Proof.
  intro c. unfold is_digit. rewrite andb_true_iff, !N.leb_le. reflexivity.
Qed.

Lemma mod10_digit : forall n, is_digit (48 + n mod 10)%N = true.
Proof.
  intro n. apply is_digit_spec. pose proof (N.mod_lt n 10 ltac:(discriminate)). lia.
Qed.

Lemma digits_val_app : forall a b acc,
  digits_val (a ++ b) acc = match digits_val a acc with Some v => digits_val b v | None => None end.
Proof.
  induction a as [|c a IH]; intros b acc; cbn [digits_val app]; [reflexivity|].
  destruct (is_digit c); [apply IH | reflexivity].
Qed.

(* the loop prints n in front of acc: all characters are digits and the value is n followed by acc *)
Lemma digits_fuel_spec : forall fuel n acc,
  (n < 2 ^ N.of_nat fuel)%N ->
  exists ds, digits_fuel fuel n acc = ds ++ acc /\ digit_str ds /\
             (forall a, digits_val ds a = Some (a * 10 ^ N.of_nat (length ds) + n)%N) /\
             (fuel <> 0%nat -> ds <> []).
Proof.
  induction fuel as [|f IH]; intros n acc Hn.
  - cbn in Hn. assert (n = 0%N) by lia. subst. exists []. cbn. repeat split; try constructor.
    + intro a. f_equal. lia.
    + congruence.
  - cbn [digits_fuel].
    assert (Hdiv : (n / 10 < 2 ^ N.of_nat f)%N).
    { rewrite Nat2N.inj_succ, N.pow_succ_r' in Hn.
      apply N.div_lt_upper_bound; [discriminate|]. lia. }
    destruct (n / 10 =? 0)%N eqn:E.
    + apply N.eqb_eq in E. exists [(48 + n mod 10)%N]. cbn [app length]. repeat split.
      * constructor; [apply mod10_digit | constructor].
      * intro a. cbn [digits_val]. rewrite mod10_digit. f_equal.
        pose proof (N.div_mod n 10 ltac:(discriminate)). rewrite E in H.
        replace (48 + n mod 10 - 48)%N with (n mod 10)%N by lia. cbn. lia.
      * discriminate.
    + destruct (IH (n / 10)%N ((48 + n mod 10)%N :: acc) Hdiv) as (ds & Heq & Hd & Hv & _).
      exists (ds ++ [(48 + n mod 10)%N]). repeat split.
      * rewrite Heq, <- app_assoc. reflexivity.
      * apply Forall_app. split; [exact Hd | constructor; [apply mod10_digit | constructor]].
      * intro a. rewrite digits_val_app, Hv. cbn [digits_val]. rewrite mod10_digit. f_equal.
        rewrite app_length. cbn [length]. rewrite Nat.add_1_r, Nat2N.inj_succ, N.pow_succ_r'.
        pose proof (N.div_mod n 10 ltac:(discriminate)).
        replace (48 + n mod 10 - 48)%N with (n mod 10)%N by lia. lia.
      * intros _ Hnil. apply app_eq_nil in Hnil. destruct Hnil as [_ Hnil]. discriminate.
Qed.

Lemma str_of_N_spec : forall n,
  digit_str (str_of_N n) /\ str_of_N n <> [] /\ digits_val (str_of_N n) 0 = Some n.
Proof.
  intro n. unfold str_of_N.
  assert (Hn : (n < 2 ^ N.of_nat (S (N.to_nat (N.log2 n))))%N).
  { rewrite Nat2N.inj_succ, N2Nat.id.
    destruct n as [|p]; [cbn; lia|]. apply N.log2_spec. lia. }
  destruct (digits_fuel_spec _ n [] Hn) as (ds & Heq & Hd & Hv & Hne).
  rewrite Heq, app_nil_r. split; [exact Hd | split; [now apply Hne |]]. rewrite Hv. f_equal; lia.
Qed.

Lemma parse_N_dec_str_of_N : forall n, parse_N_dec (str_of_N n) = Some n.
Proof.
  intro n. destruct (str_of_N_spec n) as (_ & Hne & Hv). unfold parse_N_dec.
  destruct (str_of_N n); [congruence | exact Hv].
Qed.

Lemma digit_str_hd : forall c s, digit_str (c :: s) -> (48 <= c <= 57)%N.
Proof. intros c s H. inversion H; subst. now apply is_digit_spec. Qed.

Lemma parse_Z_dec_str_of_Z : forall z, parse_Z_dec (str_of_Z z) = Some z.
Proof.
  intro z. destruct z as [|p|p]; cbn [str_of_Z].
  - reflexivity.
  - destruct (str_of_N_spec (Npos p)) as (Hd & Hne & _).
    pose proof (parse_N_dec_str_of_N (Npos p)) as HP.
    unfold parse_Z_dec. destruct (str_of_N (Npos p)) as [|c r] eqn:E; [congruence|].
    apply digit_str_hd in Hd.
    destruct (c =? 45)%N eqn:E1; [apply N.eqb_eq in E1; lia|].
    destruct (c =? 43)%N eqn:E2; [apply N.eqb_eq in E2; lia|].
    rewrite HP. reflexivity.
  - unfold parse_Z_dec. rewrite N.eqb_refl, parse_N_dec_str_of_N. reflexivity.
Qed.

(* the characters of a printed integer: digits or '-' *)
Lemma str_of_Z_chars : forall z c, In c (str_of_Z z) -> (48 <= c <= 57)%N \/ c = 45%N.
Proof.
  intros z c H. destruct z as [|p|p]; cbn [str_of_Z] in H.
  - destruct H as [H|[]]. subst. left. lia.
  - destruct (str_of_N_spec (Npos p)) as (Hd & _). left. unfold digit_str in Hd. rewrite Forall_forall in Hd.
    apply is_digit_spec. now apply Hd.
  - destruct H as [H|H]; [now right|].
    destruct (str_of_N_spec (Npos p)) as (Hd & _). left. unfold digit_str in Hd. rewrite Forall_forall in Hd.
    apply is_digit_spec. now apply Hd.
Qed.
Lemma str_of_Z_nonempty : forall z, str_of_Z z <> [].
Proof.
  intro z. destruct z as [|p|p]; cbn [str_of_Z]; try discriminate.
  now destruct (str_of_N_spec (Npos p)) as (_ & Hne & _).
Qed.
