(* Each `eliminate` step of the tangle complex model (Model/TngComplex.v) is Gaussian elimination in a pre-additive
   category: for ANY interpretation [sem] of the linear combinations of cobordisms on the edges as morphisms of a
   pre-additive category that is compatible with the five operations the step uses (composition `*`, part_eval, `-`,
   unary minus, inv) on TYPED combinations,
     - the new edge map is  E'(x, y) = E(x, y) - E(k0, y) a^-1 E(x, k1)  for all remaining vertices x, y
       ([eliminate_entry]: the entry-wise form of  d - c a^-1 b  of Proofs/TngPElim.v, the blocks A = {k0}, A' = {k1}
       being single vertices), and all edges stay typed;
     - if  sum_m E(m, y) E(x, m) = 0  for all x, y  (d d = 0) before the step, the same holds after it
       ([eliminate_dd]).
   The hypotheses on [sem] say that composition of LcCob is associative / bilinear and that part_eval respects the
   meaning: Model/TngStack.v proves this only numerically (degrees, Euler numbers), and the category of dotted
   cobordisms modulo Bar-Natan's local relations is not formalised - the hypotheses are stated, not discharged. *)
From Coq Require Import List Arith Bool ZArith Lia Setoid Morphisms.
Import ListNotations.
Require Import Yui.Model.Link Yui.Model.Tng Yui.Model.TngCob Yui.Model.TngStack Yui.Model.TngComplex.
Require Import Yui.Proofs.TngPElim Yui.Proofs.TngPCpx.

Section Graph.
  Context (C : preadd_ops) (L : preadd_laws C).
  Local Notation "f == g" := (peq C f g) (at level 70, no associativity).
  Local Notation "f + g" := (padd C f g).
  Local Notation "- f" := (pneg C f).
  Local Notation "f 'o' g" := (pcomp C f g) (at level 40, left associativity).
  Local Notation "0" := (pzero C).
  Local Notation "1" := (pid C).

  #[local] Instance eqv_k X Y : Equivalence (@peq C X Y) := peq_Equivalence C L X Y.
  #[local] Instance add_k X Y : Proper (@peq C X Y ==> @peq C X Y ==> @peq C X Y) (@padd C X Y) := padd_Proper C L X Y.
  #[local] Instance neg_k X Y : Proper (@peq C X Y ==> @peq C X Y) (@pneg C X Y) := pneg_Proper C L X Y.
  #[local] Instance comp_k X Y Z : Proper (@peq C Y Z ==> @peq C X Y ==> @peq C X Z) (@pcomp C X Y Z) :=
    pcomp_Proper C L X Y Z.

  (* sums over a list of keys *)
  Fixpoint lsum {X Y} (ms : list tkey) (F : tkey -> phom C X Y) : phom C X Y :=
    match ms with [] => 0 | m :: r => F m + lsum r F end.

  Lemma lsum_ext X Y ms (F G : tkey -> phom C X Y) : (forall m, In m ms -> F m == G m) -> lsum ms F == lsum ms G.
  Proof.
    induction ms as [|m ms IH]; intros E; cbn [lsum]; [reflexivity|].
    rewrite (E m) by now left. rewrite IH; [reflexivity|]. intros k Hk. apply E. now right.
  Qed.
  Lemma lsum_zero X Y ms : lsum ms (fun _ => (0 : phom C X Y)) == 0.
  Proof. induction ms as [|m ms IH]; cbn [lsum]; [reflexivity|]. rewrite IH. apply (padd_0_l C L). Qed.
  Lemma lsum_add X Y ms (F G : tkey -> phom C X Y) : lsum ms (fun m => F m + G m) == lsum ms F + lsum ms G.
  Proof.
    induction ms as [|m ms IH]; cbn [lsum]; [now rewrite (padd_0_l C L)|].
    rewrite IH. rewrite !(padd_assoc C L). apply (padd_eq C L); [reflexivity|].
    rewrite <- !(padd_assoc C L). apply (padd_eq C L); [|reflexivity]. apply (padd_comm C L).
  Qed.
  Lemma lsum_neg X Y ms (F : tkey -> phom C X Y) : lsum ms (fun m => - F m) == - lsum ms F.
  Proof.
    induction ms as [|m ms IH]; cbn [lsum]; [now rewrite (pneg_0 C L)|]. rewrite IH. now rewrite (pneg_add C L).
  Qed.
  Lemma lsum_comp_l X Y Z ms (F : tkey -> phom C Y Z) (g : phom C X Y) : lsum ms F o g == lsum ms (fun m => F m o g).
  Proof.
    induction ms as [|m ms IH]; cbn [lsum]; [apply (pcomp_0_l C L)|]. rewrite (pcomp_add_l C L). now rewrite IH.
  Qed.
  Lemma lsum_comp_r X Y Z ms (f : phom C Y Z) (G : tkey -> phom C X Y) : f o lsum ms G == lsum ms (fun m => f o G m).
  Proof.
    induction ms as [|m ms IH]; cbn [lsum]; [apply (pcomp_0_r C L)|]. rewrite (pcomp_add_r C L). now rewrite IH.
  Qed.

  Lemma filter_notin ms k : ~ In k ms -> filter (fun j => negb (key_eqb j k)) ms = ms.
  Proof.
    induction ms as [|m ms IH]; intros Hn; [reflexivity|]. cbn [filter].
    destruct (key_eqb_spec m k) as [->|Hne]; [exfalso; apply Hn; now left|]. cbn [negb]. f_equal. apply IH.
    intros Hi. apply Hn. now right.
  Qed.
  Lemma lsum_remove X Y ms k (F : tkey -> phom C X Y) :
    NoDup ms -> In k ms -> lsum ms F == F k + lsum (filter (fun j => negb (key_eqb j k)) ms) F.
  Proof.
    induction ms as [|m ms IH]; intros Hn Hi; [contradiction|]. inversion Hn as [|? ? Hm Hn']; subst.
    cbn [lsum filter]. destruct (key_eqb_spec m k) as [->|Hne]; cbn [negb].
    - now rewrite filter_notin.
    - destruct Hi as [->|Hi]; [contradiction|]. cbn [lsum]. rewrite (IH Hn' Hi).
      rewrite <- !(padd_assoc C L). apply (padd_eq C L); [|reflexivity]. apply (padd_comm C L).
  Qed.

  (* ---------- Gaussian elimination on a graph of morphisms ---------- *)
  Section ElimGraph.
    Context (ob : tkey -> pobj C) (E : forall k l : tkey, phom C (ob k) (ob l)).
    Context (V : list tkey) (k0 k1 : tkey) (a' : phom C (ob k1) (ob k0)).
    Context (HV : NoDup V) (H0 : In k0 V) (H1 : In k1 V) (Hne : k0 <> k1).
    Context (Hl : a' o E k0 k1 == 1) (Hr : E k0 k1 o a' == 1).
    Context (Z0 : E k0 k0 == 0) (Z1 : E k1 k1 == 0).
    Context (DD : forall x y, In x V -> In y V -> lsum V (fun m => E m y o E x m) == 0).

    Definition V' : list tkey := filter (fun j => negb (key_eqb j k1)) (filter (fun j => negb (key_eqb j k0)) V).
    Definition E' (x y : tkey) : phom C (ob x) (ob y) := E x y + - (E k0 y o a' o E x k1).

    (* the sum over the remaining vertices *)
    Lemma punctured x y :
      In x V -> In y V -> lsum V' (fun m => E m y o E x m) == - (E k0 y o E x k0) + - (E k1 y o E x k1).
    Proof.
      intros Hx Hy. pose proof (DD x y Hx Hy) as D. rewrite (lsum_remove _ _ V k0) in D by assumption.
      rewrite (lsum_remove _ _ _ k1) in D.
      2:{ apply NoDup_filter. assumption. }
      2:{ apply filter_In. split; [assumption|]. destruct (key_eqb_spec k1 k0); [congruence|reflexivity]. }
      fold V' in D. rewrite <- (padd_assoc C L) in D. rewrite (padd_comm C L) in D.
      apply (padd_eq_0_neg C L) in D. rewrite D. apply (pneg_add C L).
    Qed.

    Theorem elim_graph_dd x y : In x V -> In y V -> lsum V' (fun m => E' m y o E' x m) == 0.
    Proof.
      intros Hx Hy. set (bx := E x k1). set (gy := E k0 y o a').
      (* expand every summand *)
      rewrite (lsum_ext _ _ V' _ (fun m =>
        (E m y o E x m + - ((E m y o E k0 m) o (a' o bx))) + (- (gy o (E m k1 o E x m)) + gy o ((E m k1 o E k0 m) o (a' o bx))))).
      2:{ intros m _. unfold E'. fold bx gy. fold (E k0 m o a').
          rewrite (pcomp_add_l C L), !(pcomp_add_r C L). rewrite !(pcomp_neg_l C L), !(pcomp_neg_r C L), (pneg_neg C L).
          rewrite !(pcomp_assoc C L). reflexivity. }
      rewrite !lsum_add, !lsum_neg. rewrite <- !lsum_comp_r. rewrite <- !lsum_comp_l.
      rewrite (punctured x y), (punctured k0 y), (punctured x k1), (punctured k0 k1) by assumption.
      (* P(k0, y), P(x, k1), P(k0, k1) *)
      rewrite Z0, Z1. rewrite !(pcomp_0_r C L), !(pcomp_0_l C L), !(pneg_0 C L), !(padd_0_l C L), !(padd_0_r C L).
      rewrite !(pcomp_0_l C L), !(pcomp_0_r C L), (padd_0_r C L).
      rewrite !(pcomp_neg_l C L), !(pcomp_neg_r C L), !(pneg_neg C L).
      (* E k1 y o a o a' o bx = E k1 y o bx ;  gy o a o E x k0 = E k0 y o E x k0 *)
      rewrite (pcomp_assoc C L _ _ _ _ (E k1 y) (E k0 k1) (a' o bx)).
      rewrite <- (pcomp_assoc C L _ _ _ _ (E k0 k1) a' bx). rewrite Hr, (pcomp_id_l C L).
      unfold gy. rewrite (pcomp_assoc C L _ _ _ _ (E k0 y) a' (E k0 k1 o E x k0)).
      rewrite <- (pcomp_assoc C L _ _ _ _ a' (E k0 k1) (E x k0)). rewrite Hl, (pcomp_id_l C L).
      fold bx.
      rewrite (padd_assoc C L _ _ (- (E k0 y o E x k0))). rewrite (padd_neg_l C L), (padd_0_r C L).
      apply (padd_neg_l C L).
    Qed.
  End ElimGraph.
End Graph.

(* ------------------------------------------------------------------------------------------------ *)
(* the model's eliminate under an interpretation of the edges                                       *)
(* ------------------------------------------------------------------------------------------------ *)
Lemma find_v_In vs k v : find_v vs k = Some v -> In k (map vkey vs).
Proof.
  induction vs as [|u vs IH]; cbn [find_v map]; [discriminate|].
  destruct (key_eqb_spec (vkey u) k) as [->|]; [now left|]. intros E. right. now apply IH.
Qed.
Lemma key_mem_filter_ne k j ks : k <> j -> key_mem k (filter (fun l => negb (key_eqb l j)) ks) = key_mem k ks.
Proof.
  intros Hne. destruct (key_mem k ks) eqn:E.
  - apply key_mem_In. apply filter_In. split; [now apply key_mem_In|]. destruct (key_eqb_spec k j); [contradiction|reflexivity].
  - destruct (key_mem k (filter _ ks)) eqn:E2; [|reflexivity]. apply key_mem_In, filter_In in E2.
    destruct E2 as [E2 _]. apply key_mem_In in E2. congruence.
Qed.

Section Sem.
  Context (C : preadd_ops) (L : preadd_laws C).
  Local Notation "f == g" := (peq C f g) (at level 70, no associativity).
  Local Notation "f + g" := (padd C f g).
  Local Notation "- f" := (pneg C f).
  Local Notation "f 'o' g" := (pcomp C f g) (at level 40, left associativity).
  Local Notation "0" := (pzero C).
  Local Notation "1" := (pid C).

  #[local] Instance eqv_s X Y : Equivalence (@peq C X Y) := peq_Equivalence C L X Y.
  #[local] Instance add_s X Y : Proper (@peq C X Y ==> @peq C X Y ==> @peq C X Y) (@padd C X Y) := padd_Proper C L X Y.
  #[local] Instance neg_s X Y : Proper (@peq C X Y ==> @peq C X Y) (@pneg C X Y) := pneg_Proper C L X Y.
  #[local] Instance comp_s X Y Z : Proper (@peq C Y Z ==> @peq C X Y ==> @peq C X Z) (@pcomp C X Y Z) :=
    pcomp_Proper C L X Y Z.

  (* the object of a vertex, the meaning of a linear combination of cobordisms between two vertices, and which
     combinations are morphisms between two vertices at all ("typed": what TngComplex::validate checks) *)
  Context (ob : tkey -> pobj C).
  Context (sem : forall k l : tkey, lccob -> phom C (ob k) (ob l)).
  Context (ty : tkey -> tkey -> lccob -> Prop).
  Context (h t : Z).

  Record sem_laws : Prop := mk_sem_laws {
    sem_nil : forall k l, sem k l [] == 0;
    sem_mul : forall k l m f g fg, ty l m f -> ty k l g -> lc_mul f g = Some fg ->
                ty k m fg /\ sem k m fg == sem l m f o sem k l g;
    sem_pe : forall k l f g, ty k l f -> lc_part_eval h t f = Some g -> ty k l g /\ sem k l g == sem k l f;
    sem_sub : forall k l f g, ty k l f -> ty k l g ->
                ty k l (lc_sub f g) /\ sem k l (lc_sub f g) == sem k l f + - sem k l g;
    sem_negv : forall k l f, ty k l f -> ty k l (lc_negv f) /\ sem k l (lc_negv f) == - sem k l f;
    sem_inv : forall k l a a', ty k l a -> lc_inv a = Some (Some a') ->
                ty l k a' /\ sem l k a' o sem k l a == 1 /\ sem k l a o sem l k a' == 1;
  }.

  (* the matrix of the differential: no edge = 0 *)
  Definition Eof (vs : list vertex) (k l : tkey) : phom C (ob k) (ob l) :=
    match edge vs k l with Some f => sem k l f | None => 0 end.
  Definition typed (vs : list vertex) : Prop := forall k l f, edge vs k l = Some f -> ty k l f.
  (* in_edges records every edge *)
  Definition in_complete (vs : list vertex) : Prop :=
    forall k l v f, edge vs k l = Some f -> find_v vs l = Some v -> In k (vin v).

  Context (SL : sem_laws).

  Lemma sem_nz k l f : match nz f with Some g => sem k l g | None => 0 end == sem k l f.
  Proof.
    unfold nz. destruct f as [|p f]; cbn [is_nil]; [|reflexivity]. symmetry. apply (sem_nil SL).
  Qed.

  Theorem eliminate_entry c k0 k1 c' :
    c_h c = h -> c_t c = t -> typed (c_verts c) -> in_complete (c_verts c) ->
    cpx_eliminate c k0 k1 = Some c' ->
    exists a ainv,
      edge (c_verts c) k0 k1 = Some a /\ lc_inv a = Some (Some ainv) /\ ty k1 k0 ainv /\
      sem k1 k0 ainv o sem k0 k1 a == 1 /\ sem k0 k1 a o sem k1 k0 ainv == 1 /\
      (forall l0 l1, l0 <> k0 -> l0 <> k1 -> l1 <> k0 -> l1 <> k1 ->
         Eof (c_verts c') l0 l1 ==
         Eof (c_verts c) l0 l1 + - (Eof (c_verts c) k0 l1 o sem k1 k0 ainv o Eof (c_verts c) l0 k1)) /\
      (forall l0 l1 f, l0 <> k0 -> l0 <> k1 -> l1 <> k0 -> l1 <> k1 -> edge (c_verts c') l0 l1 = Some f -> ty l0 l1 f).
  Proof.
    intros Eh Et Ty Ic El. apply eliminate_spec in El.
    destruct El as (a & ainv & v0 & v1 & Ea & Einv & Ev0 & Ev1 & _ & _ & _ & _ & _ & _ & _ & Hed & Hval).
    rewrite Eh, Et in Hed, Hval.
    destruct (sem_inv SL k0 k1 a ainv (Ty _ _ _ Ea) Einv) as (Tai & Il & Ir).
    exists a, ainv. repeat (split; [assumption|]).
    (* the rewritten entries *)
    assert (Prod : forall l0 l1, key_mem l0 (elim_ins k0 v1) && key_mem l1 (elim_outs k1 v0) = true ->
              exists f, elim_value h t (c_verts c) k0 k1 ainv l0 l1 = Some f /\ ty l0 l1 f /\
                sem l0 l1 f == Eof (c_verts c) l0 l1 + - (Eof (c_verts c) k0 l1 o sem k1 k0 ainv o Eof (c_verts c) l0 k1)).
    { intros l0 l1 Hm. destruct (Hval l0 l1 Hm) as [f Ef]. exists f. split; [assumption|].
      unfold elim_value in Ef. unfold Eof.
      destruct (edge (c_verts c) l0 k1) as [b|] eqn:Eb; [|discriminate].
      destruct (edge (c_verts c) k0 l1) as [c0|] eqn:Ec; [|discriminate].
      destruct (lc_mul c0 ainv) as [ca|] eqn:Eca; [|discriminate].
      destruct (lc_mul ca b) as [cab0|] eqn:Ecab0; [|discriminate].
      destruct (lc_part_eval h t cab0) as [cab|] eqn:Ecab; [|discriminate].
      destruct (sem_mul SL k1 k0 l1 c0 ainv ca (Ty _ _ _ Ec) Tai Eca) as [T1 S1].
      destruct (sem_mul SL l0 k1 l1 ca b cab0 T1 (Ty _ _ _ Eb) Ecab0) as [T2 S2].
      destruct (sem_pe SL l0 l1 cab0 cab T2 Ecab) as [T3 S3].
      assert (S4 : sem l0 l1 cab == sem k0 l1 c0 o sem k1 k0 ainv o sem l0 k1 b) by (now rewrite S3, S2, S1).
      destruct (has_edge (c_verts c) l0 l1) as [[|]|] eqn:Ehe; [| |discriminate].
      - destruct (edge (c_verts c) l0 l1) as [d|] eqn:Ed; [|discriminate]. injection Ef as <-.
        destruct (sem_sub SL l0 l1 d cab (Ty _ _ _ Ed) T3) as [T5 S5]. split; [assumption|]. now rewrite S5, S4.
      - injection Ef as <-. rewrite (has_edge_edge _ _ _ Ehe).
        destruct (sem_negv SL l0 l1 cab T3) as [T5 S5]. split; [assumption|].
        rewrite S5, S4. symmetry. apply (padd_0_l C L). }
    split.
    - intros l0 l1 N00 N01 N10 N11. unfold Eof at 1. rewrite (Hed l0 l1 N00 N01 N10 N11).
      destruct (key_mem l0 (elim_ins k0 v1) && key_mem l1 (elim_outs k1 v0)) eqn:Hm.
      + destruct (Prod l0 l1 Hm) as (f & Ef & _ & Sf). rewrite Ef. now rewrite sem_nz.
      + fold (Eof (c_verts c) l0 l1).
        assert (Z : Eof (c_verts c) k0 l1 o sem k1 k0 ainv o Eof (c_verts c) l0 k1 == 0).
        { apply andb_false_iff in Hm. destruct Hm as [Hm|Hm].
          - unfold elim_ins in Hm. rewrite key_mem_filter_ne in Hm by assumption.
            assert (En : edge (c_verts c) l0 k1 = None).
            { destruct (edge (c_verts c) l0 k1) as [b|] eqn:Eb; [|reflexivity].
              pose proof (Ic _ _ _ _ Eb Ev1) as Hi. apply key_mem_In in Hi. congruence. }
            unfold Eof at 2. rewrite En. apply (pcomp_0_r C L).
          - unfold elim_outs in Hm. rewrite key_mem_filter_ne in Hm by assumption.
            assert (En : edge (c_verts c) k0 l1 = None).
            { unfold edge. rewrite Ev0. unfold out_keys in Hm. rewrite key_mem_find_e in Hm.
              now destruct (find_e (vout v0) l1). }
            unfold Eof at 1. rewrite En. now rewrite !(pcomp_0_l C L). }
        rewrite Z, (pneg_0 C L). symmetry. apply (padd_0_r C L).
    - intros l0 l1 f N00 N01 N10 N11. rewrite (Hed l0 l1 N00 N01 N10 N11).
      destruct (key_mem l0 (elim_ins k0 v1) && key_mem l1 (elim_outs k1 v0)) eqn:Hm.
      + destruct (Prod l0 l1 Hm) as (g & Eg & Tg & _). rewrite Eg. unfold nz. destruct (is_nil g); [discriminate|].
        now intros [= <-].
      + apply Ty.
  Qed.

  (* d d = 0 is preserved *)
  Theorem eliminate_dd c k0 k1 c' :
    c_h c = h -> c_t c = t -> typed (c_verts c) -> in_complete (c_verts c) ->
    NoDup (map vkey (c_verts c)) -> k0 <> k1 ->
    edge (c_verts c) k0 k0 = None -> edge (c_verts c) k1 k1 = None ->
    cpx_eliminate c k0 k1 = Some c' ->
    (forall x y, In x (map vkey (c_verts c)) -> In y (map vkey (c_verts c)) ->
       lsum C (map vkey (c_verts c)) (fun m => Eof (c_verts c) m y o Eof (c_verts c) x m) == 0) ->
    forall x y, In x (map vkey (c_verts c')) -> In y (map vkey (c_verts c')) ->
      lsum C (map vkey (c_verts c')) (fun m => Eof (c_verts c') m y o Eof (c_verts c') x m) == 0.
  Proof.
    intros Eh Et Ty Ic Nd Hne S0 S1 El DD x y Hx Hy.
    destruct (eliminate_entry c k0 k1 c' Eh Et Ty Ic El) as (a & ainv & Ea & Einv & Tai & Il & Ir & Hent & _).
    apply eliminate_spec in El.
    destruct El as (a2 & ainv2 & v0 & v1 & Ea2 & _ & Ev0 & Ev1 & _ & _ & _ & _ & _ & Hk & _).
    rewrite Hk in Hx, Hy |- *. fold (V' (map vkey (c_verts c)) k0 k1) in Hx, Hy |- *.
    assert (Mem : forall m, In m (V' (map vkey (c_verts c)) k0 k1) -> In m (map vkey (c_verts c)) /\ m <> k0 /\ m <> k1).
    { intros m Hm. unfold V' in Hm. apply filter_In in Hm. destruct Hm as [Hm M1]. apply filter_In in Hm.
      destruct Hm as [Hm M0]. apply negb_true_iff, key_eqb_neq in M0, M1. now repeat split. }
    destruct (Mem x Hx) as (Hxv & Nx0 & Nx1). destruct (Mem y Hy) as (Hyv & Ny0 & Ny1).
    assert (Ea0 : Eof (c_verts c) k0 k1 = sem k0 k1 a) by (unfold Eof; now rewrite Ea).
    rewrite (lsum_ext C L _ _ _ _ (fun m => E' C ob (Eof (c_verts c)) k0 k1 (sem k1 k0 ainv) m y o
                                             E' C ob (Eof (c_verts c)) k0 k1 (sem k1 k0 ainv) x m)).
    - apply (elim_graph_dd C L ob (Eof (c_verts c)) (map vkey (c_verts c)) k0 k1 (sem k1 k0 ainv)); try assumption.
      + eapply find_v_In; eassumption.
      + eapply find_v_In; eassumption.
      + now rewrite Ea0.
      + now rewrite Ea0.
      + unfold Eof. now rewrite S0.
      + unfold Eof. now rewrite S1.
    - intros m Hm. destruct (Mem m Hm) as (_ & M0 & M1).
      unfold E'. now rewrite (Hent m y), (Hent x m) by assumption.
  Qed.
End Sem.
