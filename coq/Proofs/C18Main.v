(* C18 - corollaries combining the component theorem with resolutions. *)
From Coq Require Import List Arith Bool Lia ZArith.
Require Import Yui.Model.Link Yui.Proofs.C18Base Yui.Proofs.C18Traverse Yui.Proofs.C18Components
  Yui.Proofs.C18Resolve.
Import ListNotations.

(* a full resolution state of a valid code: a crossingless valid diagram; its components are circles,
   partition the labels, and their number is the number of classes of the edge identification *)
Theorem resolution_circles : forall l s, Valid l -> length s = crossing_num l ->
  exists l' cs, resolved_by l s = Some l' /\ crossing_num l' = 0 /\ edge_labels l' = edge_labels l /\
    Valid l' /\ components l' = Some cs /\
    Forall (fun c => pclosed c = true /\ pedges c <> []) cs /\
    NoDup (concat (map pedges cs)) /\
    (forall e, In e (concat (map pedges cs)) <-> In e (edge_labels l)) /\
    (forall c, In c cs -> forall e, In e (pedges c) -> forall e', In e' (pedges c) <-> conn l' e e') /\
    (forall reps, reps_of l' reps -> length cs = length reps).
Proof.
  intros l s Hv Hs. destruct (resolved_by_spec s l) as [A _].
  destruct (A ltac:(lia)) as (l' & E & EL & LN & CN).
  assert (Hv' : Valid l') by (eapply Valid_labels; eauto).
  destruct (components_valid l' Hv') as (cs & Ec & F & ND & Cov & Cl).
  exists l', cs. split; auto. split; [lia|]. split; auto. split; auto. split; auto.
  split. { rewrite Forall_forall in *. intros c Hc. destruct (F c Hc) as (? & ? & _). auto. }
  split; auto. split. { intros e. rewrite <- EL. apply Cov. }
  split; auto. intros reps Hr. eapply components_count; eauto.
Qed.

(* a state that is too long makes resolved_by panic; a shorter one resolves a prefix *)
Theorem resolved_by_defined : forall l s, resolved_by l s = None <-> crossing_num l < length s.
Proof.
  intros l s. destruct (resolved_by_spec s l) as [A B]. split; auto.
  intros E. destruct (le_lt_dec (length s) (crossing_num l)) as [H|H]; auto.
  destruct (A H) as (l' & E' & _). congruence.
Qed.

Lemma count_pos_neg_length : forall sg, count_pos sg + count_neg sg = length sg.
Proof. unfold count_pos, count_neg. induction sg as [|[] sg IH]; cbn; lia. Qed.

Theorem writhe_def : forall l,
  writhe l = option_map (fun sg => (Z.of_nat (count_pos sg) - Z.of_nat (count_neg sg))%Z) (crossing_signs l) /\
  (forall sg, crossing_signs l = Some sg -> length sg = crossing_num l /\
     signed_crossing_nums l = Some (count_pos sg, count_neg sg) /\ count_pos sg + count_neg sg = crossing_num l).
Proof.
  intros l. split.
  - unfold writhe, signed_crossing_nums. destruct (crossing_signs l); reflexivity.
  - intros sg E. assert (length sg = crossing_num l) as HL.
    { unfold crossing_signs in E.
      destruct (sign_loop l (starts_j l 0) [] (repeat None (length l))) as [[p s0]|]; [|discriminate].
      destruct (if unsigned_left l s0 then sign_loop l (starts_j l 1 ++ starts_j l 2) p s0 else Some (p, s0))
        as [[p' s']|]; [|discriminate].
      destruct (length (flatten_opt s') =? crossing_num l) eqn:Q; [|discriminate].
      inversion E; subst. apply Nat.eqb_eq; auto. }
    split; auto. split; [unfold signed_crossing_nums; rewrite E; reflexivity|].
    rewrite count_pos_neg_length. auto.
Qed.
