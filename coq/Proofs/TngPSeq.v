(* Tangle layer, part 6: sequences of append_arc, Tng::connect, Tng::from_resolved and the tangle of a list of
   resolved crossings never panic under the degree bound and end in normal form (simple, pairwise disjoint
   components, sorted), with the segments of the input. *)
From Coq Require Import List Arith Bool Lia Permutation Sorted.
Import ListNotations.
Require Import Yui.Model.Link Yui.Model.Tng Yui.Proofs.TngPBase Yui.Proofs.TngPSegs Yui.Proofs.TngPDeg
  Yui.Proofs.TngPJoin Yui.Proofs.TngPStep.

Definition tng_ok (t : list path) : Prop := tng_inv t /\ tng_sorted t.
Definition simple_arc (p : path) : Prop := simple p /\ pclosed p = false.

(* for a in arcs { t.append_arc(a) } *)
Fixpoint append_all (t : tng) (arcs : list path) : option tng :=
  match arcs with
  | [] => Some t
  | a :: r => match append_arc t a with None => None | Some t' => append_all t' r end
  end.

Lemma ok_nil : tng_ok [].
Proof. split; [apply inv_nil|constructor]. Qed.

Theorem append_all_ok : forall arcs t, tng_ok t -> Forall simple_arc arcs ->
  deg_le2 (tsegs t ++ flat_map segs arcs) ->
  exists t', append_all t arcs = Some t' /\ tng_ok t' /\ Permutation (tsegs t') (tsegs t ++ flat_map segs arcs).
Proof.
  induction arcs as [|a r IH]; intros t Hok Ha Hd; cbn [append_all flat_map].
  - exists t. rewrite app_nil_r. auto.
  - inversion Ha as [|? ? [Sa Hac] Hr]; subst. destruct Hok as [Hinv Hso].
    assert (Hd1 : deg_le2 (tsegs t ++ segs a)).
    { cbn [flat_map] in Hd. rewrite app_assoc in Hd. apply deg_le2_app_l in Hd. exact Hd. }
    destruct (append_arc_inv t a Hinv Sa Hac Hd1) as (t1 & E1 & Hi1 & Hs1). rewrite E1.
    destruct (append_arc_segs t a t1 (inv_twf _ Hinv) (simple_pwf _ Sa) E1) as [P1 _].
    destruct (IH t1 (conj Hi1 Hs1) Hr) as (t' & E' & Hok' & P').
    { eapply deg_le2_perm; [|exact Hd]. cbn [flat_map]. rewrite app_assoc.
      apply Permutation_app_tail. apply Permutation_sym. exact P1. }
    exists t'. split; auto. split; auto.
    eapply perm_trans; [exact P'|]. rewrite app_assoc. apply Permutation_app_tail. exact P1.
Qed.

(* ---------- Tng::connect ---------- *)
Lemma connect_loop_inv : forall other t, tng_inv t -> Forall simple other ->
  deg_le2 (tsegs t ++ tsegs other) ->
  exists t', tng_connect_loop t other = Some t' /\ tng_inv t' /\ Permutation (tsegs t') (tsegs t ++ tsegs other).
Proof.
  induction other as [|c r IH]; intros t Hinv Ho Hd; cbn [tng_connect_loop].
  - exists t. cbn. rewrite app_nil_r. auto.
  - inversion Ho as [|? ? Sc Sr]; subst.
    assert (Hd1 : deg_le2 (tsegs t ++ segs c)).
    { cbn [tsegs flat_map] in Hd. rewrite app_assoc in Hd. apply deg_le2_app_l in Hd. exact Hd. }
    destruct (pclosed c) eqn:Hc.
    + assert (Hi1 : tng_inv (t ++ [c])).
      { eapply inv_perm; [apply Permutation_cons_append|]. apply inv_cons. split; [auto|split; [auto|]].
        intros v Hv. eapply new_circle; eauto. }
      destruct (IH (t ++ [c]) Hi1 Sr) as (t' & E' & Hi' & P').
      { eapply deg_le2_perm; [|exact Hd]. rewrite tsegs_app. cbn [tsegs flat_map]. rewrite app_nil_r, <- app_assoc.
        apply Permutation_refl. }
      exists t'. split; auto. split; auto. eapply perm_trans; [exact P'|].
      rewrite tsegs_app. cbn [tsegs flat_map]. rewrite app_nil_r, <- app_assoc. apply Permutation_refl.
    + destruct (append_arc_inv t c Hinv Sc Hc Hd1) as (t1 & E1 & Hi1 & _). rewrite E1.
      destruct (append_arc_segs t c t1 (inv_twf _ Hinv) (simple_pwf _ Sc) E1) as [P1 _].
      destruct (IH t1 Hi1 Sr) as (t' & E' & Hi' & P').
      { eapply deg_le2_perm; [|exact Hd]. cbn [tsegs flat_map]. rewrite app_assoc.
        apply Permutation_app_tail. apply Permutation_sym. exact P1. }
      exists t'. split; auto. split; auto.
      eapply perm_trans; [exact P'|]. cbn [tsegs flat_map]. rewrite app_assoc. apply Permutation_app_tail. exact P1.
Qed.

Theorem tng_connect_ok : forall t other, tng_inv t -> Forall simple other ->
  deg_le2 (tsegs t ++ tsegs other) ->
  exists t', tng_connect t other = Some t' /\ tng_ok t' /\ Permutation (tsegs t') (tsegs t ++ tsegs other).
Proof.
  intros t other Hinv Ho Hd. unfold tng_connect.
  destruct (connect_loop_inv other t Hinv Ho Hd) as (t1 & E1 & Hi1 & P1). rewrite E1.
  rewrite sort_total by apply Hi1. eexists. split; [reflexivity|]. split; [split|].
  - eapply inv_perm; [apply Permutation_sym; apply isort_perm|exact Hi1].
  - apply isort_sorted.
  - eapply perm_trans; [apply tsegs_perm; apply isort_perm|exact P1].
Qed.

(* ---------- Tng::from_resolved ---------- *)
Lemma c_comp_simple : forall a b, simple (c_comp a b).
Proof.
  intros a b. unfold c_comp, simple. destruct (a =? b) eqn:E; cbn [pedges pclosed].
  - split; [repeat constructor; auto|discriminate].
  - apply Nat.eqb_neq in E. split; [|cbn; lia]. constructor; [|repeat constructor; auto].
    intros [Hc|[]]. congruence.
Qed.

Lemma c_comp_arc_ends : forall a b v, pclosed (c_comp a b) = false -> In v (pedges (c_comp a b)) ->
  is_end (c_comp a b) v.
Proof.
  intros a b v. unfold c_comp, is_end. destruct (a =? b); cbn [pedges pclosed]; [discriminate|].
  intros _ [<-|[<-|[]]]; cbn; auto.
Qed.

Theorem from_resolved_ok : forall x, is_resolved x = true -> deg_le2 (crossing_segs x) ->
  exists t, tng_from_resolved x = Some t /\ tng_ok t /\ Permutation (tsegs t) (crossing_segs x).
Proof.
  intros x Hr Hd. unfold tng_from_resolved. rewrite Hr.
  destruct (c_arcs x) as [c0 c1] eqn:Ea.
  assert (Hs : simple c0 /\ simple c1 /\ segs c0 ++ segs c1 = crossing_segs x /\
               (forall v, pclosed c0 = false -> In v (pedges c0) -> is_end c0 v) /\
               (forall v, pclosed c1 = false -> In v (pedges c1) -> is_end c1 v)).
  { pose proof (c_arcs_segs x) as Hs. rewrite Ea in Hs. cbn [fst snd] in Hs.
    unfold c_arcs in Ea. destruct (ct x); inversion Ea; subst; repeat split;
      try apply c_comp_simple; auto; intros v Hc Hv; apply c_comp_arc_ends; auto. }
  destruct Hs as (S0 & S1 & Hs & E0 & E1).
  destruct (p_connectable c0 c1) eqn:Hc.
  - destruct (connectable_arcs _ _ Hc) as [H0 H1].
    destruct (connect_simple c0 c1 S0 S1 Hc) as (c & Ec & Sc & _).
    { intros v Hv0 Hv1. split; auto. }
    rewrite Ec. unfold tng_new.
    assert (Hi : tng_inv [c]).
    { apply inv_cons. split; [auto|split; [apply inv_nil|]]. intros v _ []. }
    rewrite sort_total by apply Hi. eexists. split; [reflexivity|]. split; [split|].
    + eapply inv_perm; [apply Permutation_sym; apply isort_perm|exact Hi].
    + apply isort_sorted.
    + eapply perm_trans; [apply tsegs_perm; apply isort_perm|]. cbn [tsegs flat_map]. rewrite app_nil_r, <- Hs.
      apply p_connect_segs; auto using simple_pwf.
  - unfold tng_new.
    assert (Hi : tng_inv [c0; c1]).
    { apply inv_cons. split; [auto|split].
      - apply inv_cons. split; [auto|split; [apply inv_nil|]]. intros v _ [].
      - intros v Hv0 Hv1. cbn [verts flat_map] in Hv1. rewrite app_nil_r in Hv1.
        rewrite <- Hs in Hd. specialize (Hd v). rewrite deg_app in Hd.
        pose proof (deg_ge1 c0 v S0 Hv0). pose proof (deg_ge1 c1 v S1 Hv1).
        destruct (pclosed c0) eqn:Hc0; [pose proof (deg_closed_ge2 c0 v S0 Hc0 Hv0); lia|].
        destruct (pclosed c1) eqn:Hc1; [pose proof (deg_closed_ge2 c1 v S1 Hc1 Hv1); lia|].
        rewrite (shares_end_connectable c0 c1 v Hc0 Hc1 (E0 v eq_refl Hv0) (E1 v eq_refl Hv1)) in Hc. discriminate. }
    rewrite sort_total by apply Hi. eexists. split; [reflexivity|]. split; [split|].
    + eapply inv_perm; [apply Permutation_sym; apply isort_perm|exact Hi].
    + apply isort_sorted.
    + eapply perm_trans; [apply tsegs_perm; apply isort_perm|]. cbn [tsegs flat_map]. rewrite app_nil_r, <- Hs.
      apply Permutation_refl.
Qed.

(* ---------- the tangle of a list of resolved crossings ---------- *)
Theorem tng_of_crossings_from_ok : forall xs t, tng_ok t -> Forall (fun x => is_resolved x = true) xs ->
  deg_le2 (tsegs t ++ flat_map crossing_segs xs) ->
  exists t', tng_of_crossings_from t xs = Some t' /\ tng_ok t' /\
    Permutation (tsegs t') (tsegs t ++ flat_map crossing_segs xs).
Proof.
  induction xs as [|x r IH]; intros t Hok Hr Hd; cbn [tng_of_crossings_from flat_map].
  - exists t. rewrite app_nil_r. auto.
  - inversion Hr as [|? ? Hx Hrr]; subst.
    assert (Hdx : deg_le2 (crossing_segs x)).
    { cbn [flat_map] in Hd. apply deg_le2_app_r in Hd. apply deg_le2_app_l in Hd. exact Hd. }
    destruct (from_resolved_ok x Hx Hdx) as (tx & Ex & [Hix _] & Px). rewrite Ex.
    destruct (tng_connect_ok t tx (proj1 Hok) (proj1 Hix)) as (t1 & E1 & Hok1 & P1).
    { cbn [flat_map] in Hd. rewrite app_assoc in Hd. apply deg_le2_app_l in Hd.
      eapply deg_le2_perm; [|exact Hd]. apply Permutation_app_head. apply Permutation_sym. exact Px. }
    rewrite E1.
    assert (P1' : Permutation (tsegs t1) (tsegs t ++ crossing_segs x)).
    { eapply perm_trans; [exact P1|]. apply Permutation_app_head. exact Px. }
    destruct (IH t1 Hok1 Hrr) as (t' & E' & Hok' & P').
    { eapply deg_le2_perm; [|exact Hd]. cbn [flat_map]. rewrite app_assoc.
      apply Permutation_app_tail. apply Permutation_sym. exact P1'. }
    exists t'. split; auto. split; auto.
    eapply perm_trans; [exact P'|]. rewrite app_assoc. apply Permutation_app_tail. exact P1'.
Qed.

(* the degree bound in terms of the PD code: every label occurs at most twice among the 4n slots *)
Lemma crossing_segs_ends : forall x, Permutation (ends_of (crossing_segs x)) (cedges x).
Proof.
  intros x. unfold crossing_segs, cedges.
  destruct (ct x); cbn [ends_of flat_map app];
    repeat match goal with |- context [nseg ?a ?b] =>
      let Hp := fresh in pose proof (nseg_ends_perm a b) as Hp; revert Hp;
      generalize (fst (nseg a b)) (snd (nseg a b)); intros ? ? Hp end.
  - change [n; n0; n1; n2] with ([n; n0] ++ [n1; n2]).
    eapply perm_trans; [apply Permutation_app; eassumption|]. cbn.
    apply perm_skip. apply perm_swap.
  - change [n; n0; n1; n2] with ([n; n0] ++ [n1; n2]).
    eapply perm_trans; [apply Permutation_app; eassumption|]. cbn.
    apply perm_skip. apply perm_swap.
  - change [n; n0; n1; n2] with ([n; n0] ++ [n1; n2]).
    eapply perm_trans; [apply Permutation_app; eassumption|]. cbn.
    apply perm_skip. eapply perm_trans; [apply perm_swap|]. apply perm_skip. apply perm_swap.
  - change [n; n0; n1; n2] with ([n; n0] ++ [n1; n2]).
    eapply perm_trans; [apply Permutation_app; eassumption|]. apply Permutation_refl.
Qed.

Definition labels_le2 (xs : list crossing) : Prop :=
  forall v, count_occ Nat.eq_dec (edge_labels xs) v <= 2.

Lemma labels_le2_deg : forall xs, labels_le2 xs -> deg_le2 (flat_map crossing_segs xs).
Proof.
  intros xs Hl v. specialize (Hl v). unfold deg.
  rewrite (count_perm _ (edge_labels xs)); auto. clear Hl.
  unfold ends_of, edge_labels. induction xs as [|x r IH]; [constructor|].
  cbn [flat_map]. rewrite flat_map_app. apply Permutation_app; [apply crossing_segs_ends|exact IH].
Qed.

Theorem tng_of_crossings_ok : forall xs, Forall (fun x => is_resolved x = true) xs -> labels_le2 xs ->
  exists t, tng_of_crossings xs = Some t /\ tng_ok t /\ Permutation (tsegs t) (flat_map crossing_segs xs).
Proof.
  intros xs Hr Hl. unfold tng_of_crossings, tng_empty.
  destruct (tng_of_crossings_from_ok xs [] ok_nil Hr) as (t & E & Hok & P).
  { cbn. apply labels_le2_deg; auto. }
  exists t. auto.
Qed.
