(* C06 (ss oracle) - the coordinates that [ss_spec] (Model/KhSs.v) reads the divisibility from ARE
   coordinates of the homology H^0 of the cube complex: whenever [ss_setup] returns, the two dense
   matrices compose to zero, the canonical chains are cycles, and the forward / backward matrices of the
   returned [trans] satisfy [gens_ok] and [complete_ok] of Proofs/C07Calc.v (generators are cycles, their
   coordinates are the standard basis, boundaries have coordinates 0 / multiples of the torsion orders,
   every cycle is homologous to the combination of the generators given by its coordinates, a cycle is a
   boundary as soon as its coordinates vanish modulo the torsion orders).  This is C07's theorem for the
   homology calculator instantiated with the mirror of snf.rs, whose contract is C09's theorem. *)
From Coq Require Import List Arith Bool ZArith Lia.
Require Import Yui.Base.Ring Yui.Base.MatF Yui.Base.MatL.
Require Import Yui.Model.KhCube Yui.Model.KhHomology Yui.Model.KhLee Yui.Model.KhSigns Yui.Model.HomologyCalc Yui.Model.KhSs.
Require Yui.Model.Snf Yui.Model.Link.
Require Import Yui.Proofs.C07Algebra Yui.Proofs.C07Calc Yui.Proofs.C07UctCalc Yui.Proofs.C09Contract.
Import ListNotations.

(* the SNF routine of the oracle is the routine for which C09 discharges C07's contract *)
Lemma ss_snf_adapter : ss_snf = snf_adapter Snf.Z_dict.
Proof. reflexivity. Qed.

Lemma ss_snf_contract : snf_contract Z_ring ss_snf.
Proof. rewrite ss_snf_adapter. exact Z_snf_contract. Qed.

Lemma dense_d_wf c k A : dense_d c k = Some A -> mwf A.
Proof.
  unfold dense_d. destruct (rows_at c k); [|discriminate]. intros H. injection H as <-. apply mwf_dmk.
Qed.
Lemma dense_in_wf c k A : dense_in c k = Some A -> mwf A.
Proof.
  destruct k as [|k]; cbn [dense_in]; [|apply dense_d_wf]. intros H. injection H as <-. apply mwf_dmk.
Qed.

Lemma dense_vec_length n z : length (dense_vec n z) = n.
Proof. unfold dense_vec. now rewrite map_length, seq_length. Qed.

Record ss_coords_ok (red : bool) (D : ss_data) : Prop := mk_ss_coords_ok {
  sc_wf1 : mwf (sd_d1 D);
  sc_wf2 : mwf (sd_d2 D);
  sc_shape : nr (sd_d1 D) = nc (sd_d2 D);
  sc_dd : zero_prod Z_ring (sd_d1 D) (sd_d2 D);
  sc_cycles : forall z, In z (sd_chains D) -> length z = nr (sd_d1 D) /\ is_cycle (sd_d2 D) z = true;
  sc_calc : calculate Z_ring Snf.Z_is_unit ss_snf (sd_d1 D) (sd_d2 D) true
            = Some (sd_rank D, sd_tors D, Some (sd_trans D));
  sc_rank : sd_rank D = (if red then 1 else 2)%nat;
}.

Lemma ss_setup_ok l c red D : ss_setup l c red = Some D -> ss_coords_ok red D.
Proof.
  unfold ss_setup. intros H.
  destruct (Z.abs c <? 2)%Z; [discriminate|].
  destruct (Link.is_knot (to_link l)) as [[|]|]; try discriminate.
  inv_bind H. inv_bind H.
  match type of H with obind ?x _ = _ => destruct x as [chains|] eqn:Ech; cbn [obind] in H; [|discriminate] end.
  inv_bind H. rename d into d1. inv_bind H. rename d into d2.
  destruct (nr d1 =? nc d2)%nat eqn:En; cbn [negb] in H; [|discriminate]. apply Nat.eqb_eq in En.
  inv_bind H. rename d into dd.
  destruct (d_is_zero Z_ring dd) eqn:Ez; cbn [negb] in H; [|discriminate].
  match type of H with (if negb ?b then _ else _) = _ => destruct b eqn:Ecy; cbn [negb] in H; [|discriminate] end.
  inv_bind H. destruct p0 as [[rank tors] ot]. inv_bind H.
  match type of H with (if negb ?b then _ else _) = _ => destruct b eqn:Erk; cbn [negb] in H; [|discriminate] end.
  injection H as <-.
  pose proof (dense_in_wf _ _ _ E1) as W1. pose proof (dense_d_wf _ _ _ E2) as W2.
  constructor; cbn [sd_d1 sd_d2 sd_chains sd_rank sd_tors sd_trans].
  - exact W1.
  - exact W2.
  - exact En.
  - destruct (dmul_some Z_ring _ _ _ E3) as [_ [Hr [Hc [_ Hm]]]].
    rewrite (d_is_zero_spec Z_ring Z_ring_laws) in Ez.
    unfold zero_prod. intros i j Hi Hj. rewrite En. rewrite <- Hm by assumption.
    apply Ez; [now rewrite Hr|now rewrite Hc].
  - intros z Hz. apply in_map_iff in Hz. destruct Hz as [x [<- Hx]]. split; [apply dense_vec_length|].
    rewrite forallb_forall in Ecy. apply Ecy. now apply in_map.
  - exact E4.
  - now apply Nat.eqb_eq in Erk.
Qed.

(* the coordinates are homology coordinates *)
Theorem ss_setup_coordinates l c red D :
  ss_setup l c red = Some D ->
  exists p q,
    forward_mat Z_ring (sd_trans D) = Some p /\ backward_mat Z_ring (sd_trans D) = Some q /\
    gens_ok Z_ring (sd_d1 D) (sd_d2 D) (sd_rank D) (sd_tors D) p q /\
    complete_ok Z_ring (sd_d1 D) (sd_d2 D) (sd_rank D) (sd_tors D) p q.
Proof.
  intros H. destruct (ss_setup_ok _ _ _ _ H) as [W1 W2 En Hdd _ Hc _].
  destruct (calculate_generators Z_ring Z_ring_laws Z_integral Snf.Z_is_unit Z_isu_complete ss_snf Z_isu_sound
              _ _ _ _ _ ss_snf_contract W1 W2 Hdd Hc) as [t [p [q [Et [Hp [Hq [_ [_ Hg]]]]]]]].
  destruct (calculate_complete Z_ring Z_ring_laws Z_integral Snf.Z_is_unit Z_isu_complete ss_snf Z_isu_sound
              _ _ _ _ _ ss_snf_contract W1 W2 Hdd Hc) as [t' [p' [q' [Et' [Hp' [Hq' Hco]]]]]].
  injection Et as <-. injection Et' as <-.
  exists p, q. split; [exact Hp|]. split; [exact Hq|]. split; [exact Hg|].
  rewrite Hp in Hp'. rewrite Hq in Hq'. injection Hp' as <-. injection Hq' as <-. exact Hco.
Qed.

(* rank H^0 = dim C^0 - rank d^{-1} - rank d^0, and it is the 1 (reduced) / 2 (unreduced) the library asserts *)
Theorem ss_setup_rank l c red D :
  ss_setup l c red = Some D ->
  sd_rank D = (if red then 1 else 2)%nat /\
  exists (r1 r2 : nat) (a b : nat -> Z),
    smith_form Z_ring (nr (sd_d1 D)) (nc (sd_d1 D)) (mget Z_ring (sd_d1 D)) r1 a /\
    smith_form Z_ring (nr (sd_d2 D)) (nc (sd_d2 D)) (mget Z_ring (sd_d2 D)) r2 b /\
    (sd_rank D + r1 + r2 = nr (sd_d1 D))%nat.
Proof.
  intros H. destruct (ss_setup_ok _ _ _ _ H) as [W1 W2 En Hdd _ Hc Hrk].
  split; [exact Hrk|].
  destruct (calculate_rank_tors Z_ring Z_ring_laws Z_integral Snf.Z_is_unit Z_isu_complete ss_snf Z_isu_sound
                _ _ _ _ _ _ ss_snf_contract W1 W2 Hdd Hc) as [_ [r1 [r2 [a [b [t [S1 [S2 [Hr _]]]]]]]]].
    exists r1, r2, a, b. split; [exact S1|]. split; [exact S2|exact Hr].
Qed.
