(* C18 - traverse_edges on a valid code: the successor map is a permutation of the 4n half-edges, the
   fuel 4n+1 suffices, and the traversal lists exactly one orbit (followed by the start again). *)
From Coq Require Import List Arith Bool Lia.
Require Import Yui.Model.Link Yui.Proofs.C18Base.
Import ListNotations.

Lemma NoDup_map_local : forall A B (f : A -> B) (l : list A),
  (forall a b, In a l -> In b l -> f a = f b -> a = b) -> NoDup l -> NoDup (map f l).
Proof.
  induction l as [|x l IH]; intros Hinj Hnd; cbn; [constructor|].
  inversion Hnd; subst. constructor.
  - intros Hx. apply in_map_iff in Hx. destruct Hx as [y [E Hy]].
    assert (y = x) by (apply Hinj; cbn; auto). subst. contradiction.
  - apply IH; auto. intros a b Ha Hb. apply Hinj; cbn; auto.
Qed.

Section Traverse.
  Variable l : link.
  Hypothesis Hv : Valid l.
  Variable start : pos.
  Hypothesis Hs : InR l start.

  Local Notation sg := (sig l).
  Definition orbit_list (m : nat) : list pos := map (fun k => sig l k start) (seq 0 m).
  Definition Inj (k : nat) : Prop := forall a b, a <= k -> b <= k -> sg a start = sg b start -> a = b.

  Lemma orbit_list_InR : forall m p, In p (orbit_list m) -> InR l p.
  Proof.
    intros m p Hp. apply in_map_iff in Hp. destruct Hp as [k [<- _]]. apply sig_InR; auto.
  Qed.
  Lemma Inj_NoDup : forall k, Inj k -> NoDup (orbit_list (S k)).
  Proof.
    intros k HI. apply NoDup_map_local; [|apply seq_NoDup].
    intros a b Ha Hb. apply in_seq in Ha, Hb. apply HI; lia.
  Qed.
  Lemma Inj_bound : forall k, Inj k -> S k <= 4 * length l.
  Proof.
    intros k HI. pose proof (InR_bound l _ (Inj_NoDup k HI) (orbit_list_InR (S k))) as B.
    unfold orbit_list in B. rewrite map_length, seq_length in B. exact B.
  Qed.

  Lemma traverse_loop_valid : forall fuel k,
    Inj k -> 4 * length l + 1 <= fuel + k ->
    exists m, k < m /\ sg m start = start /\ Inj (m - 1) /\
      traverse_loop l start fuel (sg k start) =
      Some (map (fun i => sg i start) (seq k (m - k)) ++ [start]).
  Proof.
    induction fuel as [|fuel IH]; intros k HI Hf.
    - pose proof (Inj_bound k HI). lia.
    - cbn [traverse_loop]. rewrite (succ_sigma l Hv) by (apply sig_InR; auto).
      change (sigma l (sg k start)) with (sg (S k) start).
      destruct (pos_eqb (sg (S k) start) start) eqn:E.
      + apply pos_eqb_spec in E. exists (S k). split; [lia|]. split; [exact E|].
        split; [replace (S k - 1) with k by lia; exact HI|].
        replace (S k - k) with 1 by lia. reflexivity.
      + apply pos_eqb_neq in E.
        assert (HI' : Inj (S k)).
        { assert (Hone : forall b, b <= k -> sg (S k) start = sg b start -> False).
          { intros b Hb Eb. destruct b as [|b]; [cbn in Eb; contradiction|].
            cbn [sig] in Eb. apply (sigma_inj l Hv) in Eb; try (apply sig_InR; auto).
            apply HI in Eb; lia. }
          intros a b Ha Hb Eab.
          destruct (Nat.eq_dec a (S k)) as [->|Na]; destruct (Nat.eq_dec b (S k)) as [->|Nb]; auto.
          - exfalso. apply (Hone b); auto; lia.
          - exfalso. apply (Hone a); auto; lia.
          - apply HI; auto; lia. }
        destruct (IH (S k) HI' ltac:(lia)) as (m & Hm & Hc & HIm & Ht).
        exists m. split; [lia|]. split; [exact Hc|]. split; [exact HIm|].
        rewrite Ht. cbn [option_map].
        replace (m - k) with (S (m - S k)) by lia. reflexivity.
  Qed.

  (* the orbit of [start]: period m, listed by traverse_edges *)
  Theorem traverse_valid :
    exists m, 1 <= m /\ m <= 4 * length l /\ sg m start = start /\ NoDup (orbit_list m) /\
              traverse_edges l start = Some (orbit_list m ++ [start]).
  Proof.
    assert (HI0 : Inj 0) by (intros a b Ha Hb _; lia).
    destruct (traverse_loop_valid (4 * length l + 1) 0 HI0 ltac:(lia)) as (m & Hm & Hc & HIm & Ht).
    exists m. split; [lia|].
    split. { pose proof (Inj_bound _ HIm). lia. }
    split; [exact Hc|].
    split. { replace m with (S (m - 1)) by lia. apply Inj_NoDup; auto. }
    unfold traverse_edges. assert (in_range l start = true) as -> by (apply in_range_spec; auto).
    cbn [sig] in Ht. rewrite Ht. rewrite Nat.sub_0_r. reflexivity.
  Qed.

  (* facts about a closed orbit *)
  Variable m : nat.
  Hypothesis Hm : 1 <= m.
  Hypothesis Hc : sg m start = start.

  Lemma orbit_In : forall p, In p (orbit_list m) <-> exists k, k < m /\ p = sg k start.
  Proof.
    intros p. unfold orbit_list. rewrite in_map_iff. split.
    - intros [k [<- Hk]]. apply in_seq in Hk. exists k. split; auto; lia.
    - intros [k [Hk ->]]. exists k. split; auto. apply in_seq. lia.
  Qed.
  Lemma orbit_start : In start (orbit_list m).
  Proof. apply orbit_In. exists 0. split; auto; lia. Qed.
  Lemma sig_period : forall t k, sg (k + t * m) start = sg k start.
  Proof.
    induction t; intros k; [f_equal; lia|].
    replace (k + S t * m) with ((k + t * m) + m) by lia.
    rewrite (sig_add l), Hc. replace (k + t * m) with (k + t * m + 0) by lia.
    rewrite Nat.add_0_r. apply IHt.
  Qed.
  Lemma orbit_sigma_closed : forall p, In p (orbit_list m) -> In (sigma l p) (orbit_list m).
  Proof.
    intros p Hp. apply orbit_In in Hp. destruct Hp as [k [Hk ->]]. apply orbit_In.
    destruct (Nat.eq_dec (S k) m) as [E|N].
    - exists 0. split; [lia|]. cbn [sig]. change (sigma l (sg k start)) with (sg (S k) start).
      rewrite E. exact Hc.
    - exists (S k). split; [lia|]. reflexivity.
  Qed.
  Lemma orbit_pred : forall p, In p (orbit_list m) -> exists q, In q (orbit_list m) /\ sigma l q = p.
  Proof.
    intros p Hp. apply orbit_In in Hp. destruct Hp as [k [Hk ->]].
    destruct k as [|k].
    - exists (sg (m - 1) start). split; [apply orbit_In; exists (m - 1); split; auto; lia|].
      change (sigma l (sg (m - 1) start)) with (sg (S (m - 1)) start).
      replace (S (m - 1)) with m by lia. cbn [sig]. exact Hc.
    - exists (sg k start). split; [apply orbit_In; exists k; split; auto; lia|]. reflexivity.
  Qed.
  Lemma orbit_reach : forall p q, In p (orbit_list m) -> In q (orbit_list m) -> exists d, q = sg d p.
  Proof.
    intros p q Hp Hq. apply orbit_In in Hp, Hq.
    destruct Hp as [a [Ha ->]], Hq as [b [Hb ->]].
    exists (b + m - a). rewrite <- (sig_add l). replace (b + m - a + a) with (b + 1 * m) by lia.
    symmetry. apply sig_period.
  Qed.
  Lemma orbit_sig_closed : forall d p, In p (orbit_list m) -> In (sg d p) (orbit_list m).
  Proof. induction d; intros p Hp; cbn [sig]; auto. apply orbit_sigma_closed; auto. Qed.
End Traverse.
