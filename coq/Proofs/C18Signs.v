(* C18 - crossing signs: negated by mirror, invariant under injective relabelling of the edges
   (both for every code, valid or not); components are relabelled accordingly. *)
From Coq Require Import List Arith Bool Lia ZArith.
Require Import Yui.Model.Link Yui.Proofs.C18Base.
Import ListNotations.

(* ---------------------------------------------------------------------------------------------- *)
(* traversals stay inside the diagram *)
Lemma traverse_loop_InR : forall l start fuel cur ps, InR l start -> InR l cur ->
  traverse_loop l start fuel cur = Some ps -> forall p, In p ps -> InR l p.
Proof.
  intros l start. induction fuel as [|fuel IH]; intros cur ps Hs Hc E p Hp; cbn in E; [discriminate|].
  unfold succ in E. destruct (pass_edge l (exit_of l cur)) as [nx|] eqn:PE.
  - apply pass_edge_some in PE. destruct PE as (Hn & _ & _).
    destruct (pos_eqb nx start).
    + inversion E; subst. destruct Hp as [<-|[<-|[]]]; auto.
    + destruct (traverse_loop l start fuel nx) as [r|] eqn:T; cbn in E; [|discriminate].
      inversion E; subst. destruct Hp as [<-|Hp]; auto. eapply IH; eauto.
  - inversion E; subst. destruct Hp as [<-|[<-|[]]]; auto. apply exit_InR; auto.
Qed.
Lemma traverse_InR : forall l start ps, traverse_edges l start = Some ps -> forall p, In p ps -> InR l p.
Proof.
  intros l start ps E p Hp. unfold traverse_edges in E. destruct (in_range l start) eqn:R; [|discriminate].
  apply in_range_spec in R. eapply traverse_loop_InR; eauto.
Qed.

(* two diagrams with the same shape: same half-edge pairing and same passage through crossings *)
Definition sim (l l' : link) : Prop :=
  length l' = length l /\
  forall p, InR l p -> exit_of l' p = exit_of l p /\ pass_edge l' p = pass_edge l p.

Lemma traverse_loop_sim : forall l l', sim l l' -> forall start fuel cur, InR l cur ->
  traverse_loop l' start fuel cur = traverse_loop l start fuel cur.
Proof.
  intros l l' [HL HS] start. induction fuel as [|fuel IH]; intros cur Hc; cbn; auto.
  unfold succ. destruct (HS cur Hc) as [E1 _]. rewrite E1.
  destruct (HS (exit_of l cur) (exit_InR l cur Hc)) as [_ E2]. rewrite E2.
  destruct (pass_edge l (exit_of l cur)) as [nx|] eqn:PE; auto.
  apply pass_edge_some in PE. destruct PE as (Hn & _ & _).
  destruct (pos_eqb nx start); auto. rewrite IH; auto.
Qed.
Lemma traverse_sim : forall l l', sim l l' -> forall start, traverse_edges l' start = traverse_edges l start.
Proof.
  intros l l' S start. unfold traverse_edges. pose proof S as [HL _].
  assert (in_range l' start = in_range l start) as -> by (unfold in_range; rewrite HL; auto).
  destruct (in_range l start) eqn:R; auto. apply in_range_spec in R. rewrite HL.
  apply traverse_loop_sim; auto.
Qed.

(* ---------------------------------------------------------------------------------------------- *)
(* mirror *)
Lemma cross_at_map : forall (f : crossing -> crossing) l i, i < length l ->
  cross_at (map f l) i = f (cross_at l i).
Proof.
  intros f l i Hi. unfold cross_at. rewrite (nth_indep _ dummy_c (f dummy_c)) by (rewrite map_length; auto).
  apply map_nth.
Qed.
Lemma cross_at_out : forall l i, length l <= i -> cross_at l i = dummy_c.
Proof. intros. unfold cross_at. apply nth_overflow; auto. Qed.

Lemma mirror_length : forall l, length (mirror l) = length l.
Proof. intros. apply map_length. Qed.
Lemma mirror_hedges : forall l i, hedges_from i (mirror l) = hedges_from i l.
Proof. induction l as [|c l IH]; intros; cbn; auto. rewrite IH. reflexivity. Qed.
Lemma mirror_edge_at : forall l p, edge_at (mirror l) p = edge_at l p.
Proof.
  intros l [i j]. unfold edge_at. cbn [fst snd]. destruct (lt_dec i (length l)) as [Hi|Hi].
  - unfold mirror. rewrite cross_at_map; auto.
  - rewrite !cross_at_out; auto; try lia. rewrite mirror_length. lia.
Qed.
Lemma mirror_ct : forall l i, i < length l -> ct (cross_at (mirror l) i) = mirror_t (ct (cross_at l i)).
Proof. intros. unfold mirror. rewrite cross_at_map; auto. Qed.
Lemma pass_mirror_t : forall t j, pass (mirror_t t) j = pass t j.
Proof. destruct t; reflexivity. Qed.
Lemma mirror_pass_edge : forall l p, pass_edge (mirror l) p = pass_edge l p.
Proof. intros. unfold pass_edge, hedges. rewrite mirror_hedges, mirror_edge_at. reflexivity. Qed.
Lemma mirror_sim : forall l, sim l (mirror l).
Proof.
  intros l. split; [apply mirror_length|]. intros p [Hi Hj]. split; [|apply mirror_pass_edge].
  unfold exit_of. rewrite mirror_ct; auto. rewrite pass_mirror_t. reflexivity.
Qed.

Definition negs (sg : list (option sign)) : list (option sign) := map (option_map neg_sign) sg.

Lemma set_nth_map : forall A B (f : A -> B) i x l, set_nth i (f x) (map f l) = map f (set_nth i x l).
Proof. induction i; destruct l; cbn; auto. rewrite IHi. auto. Qed.
Lemma set_nth_length : forall A i (x : A) l, length (set_nth i x l) = length l.
Proof. induction i; destruct l; cbn; auto. Qed.

Lemma sign_of_mirror : forall t j, sign_of (mirror_t t) j = option_map neg_sign (sign_of t j).
Proof.
  intros t j. destruct t; cbn; auto; do 4 (destruct j as [|j]; cbn; auto).
Qed.

Lemma visit_sign_mirror : forall l sg p, InR l p ->
  visit_sign (mirror l) (negs sg) p = negs (visit_sign l sg p).
Proof.
  intros l sg p [Hi _]. unfold visit_sign. rewrite mirror_ct; auto. rewrite sign_of_mirror.
  destruct (sign_of (ct (cross_at l (fst p))) (snd p)); cbn [option_map]; auto.
  unfold negs. rewrite <- set_nth_map. reflexivity.
Qed.
Lemma fold_visit_mirror : forall l ps sg, (forall p, In p ps -> InR l p) ->
  fold_left (visit_sign (mirror l)) ps (negs sg) = negs (fold_left (visit_sign l) ps sg).
Proof.
  induction ps as [|p ps IH]; intros sg H; cbn; auto.
  rewrite visit_sign_mirror by (apply H; cbn; auto). apply IH. intros; apply H; cbn; auto.
Qed.

Definition neg_res (r : list nat * list (option sign)) := (fst r, negs (snd r)).

Lemma sign_loop_mirror : forall l starts passed sg,
  sign_loop (mirror l) starts passed (negs sg) = option_map neg_res (sign_loop l starts passed sg).
Proof.
  intros l. induction starts as [|p r IH]; intros passed sg; cbn [sign_loop]; auto.
  rewrite mirror_edge_at. destruct (mem (edge_at l p) passed); auto.
  rewrite (traverse_sim l (mirror l) (mirror_sim l)).
  destruct (traverse_edges l p) as [ps|] eqn:T; auto.
  rewrite fold_visit_mirror by (eapply traverse_InR; eauto).
  rewrite (map_ext _ _ (mirror_edge_at l)). apply IH.
Qed.

Lemma is_resolved_mirror : forall c, is_resolved (mirror_c c) = is_resolved c.
Proof. intros [[] ? ? ? ?]; reflexivity. Qed.
Lemma crossing_num_mirror : forall l, crossing_num (mirror l) = crossing_num l.
Proof.
  intros. unfold crossing_num, mirror. induction l as [|c l IH]; cbn; auto.
  rewrite is_resolved_mirror. destruct (is_resolved c); cbn; auto.
Qed.
Lemma unsigned_left_mirror : forall l sg, unsigned_left (mirror l) (negs sg) = unsigned_left l sg.
Proof.
  intros. unfold unsigned_left. rewrite mirror_length.
  assert (H : forall i, In i (seq 0 (length l)) ->
    negb (is_resolved (cross_at (mirror l) i)) && is_none (nth i (negs sg) None) =
    negb (is_resolved (cross_at l i)) && is_none (nth i sg None)).
  { intros i Hi. apply in_seq in Hi. unfold mirror. rewrite cross_at_map by lia.
    rewrite is_resolved_mirror. f_equal. unfold negs.
    change (@None sign) with (option_map neg_sign None) at 1. rewrite map_nth.
    destruct (nth i sg None); reflexivity. }
  induction (seq 0 (length l)) as [|i s IH]; cbn; auto.
  rewrite H by (cbn; auto). rewrite IH; auto. intros; apply H; cbn; auto.
Qed.
Lemma flatten_negs : forall sg, flatten_opt (negs sg) = map neg_sign (flatten_opt sg).
Proof.
  unfold flatten_opt, negs. induction sg as [|[s|] sg IH]; cbn; auto. rewrite IH. reflexivity.
Qed.
Lemma negs_repeat : forall n, negs (repeat None n) = repeat None n.
Proof. induction n; cbn; auto. unfold negs in *. rewrite IHn. reflexivity. Qed.

Theorem crossing_signs_mirror : forall l,
  crossing_signs (mirror l) = option_map (map neg_sign) (crossing_signs l).
Proof.
  intros l. unfold crossing_signs. rewrite mirror_length, crossing_num_mirror.
  unfold starts_j. rewrite mirror_length. fold (starts_j l 0) (starts_j l 1) (starts_j l 2).
  rewrite <- (negs_repeat (length l)) at 1. rewrite sign_loop_mirror.
  destruct (sign_loop l (starts_j l 0) [] (repeat None (length l))) as [[passed sg]|]; cbn [option_map]; auto.
  unfold neg_res at 1. cbn [fst snd]. rewrite unsigned_left_mirror.
  destruct (unsigned_left l sg).
  - rewrite sign_loop_mirror.
    destruct (sign_loop l (starts_j l 1 ++ starts_j l 2) passed sg) as [[passed' sg']|]; cbn [option_map]; auto.
    unfold neg_res. cbn [fst snd]. rewrite flatten_negs, map_length.
    destruct (length (flatten_opt sg') =? crossing_num l); reflexivity.
  - rewrite flatten_negs, map_length.
    destruct (length (flatten_opt sg) =? crossing_num l); reflexivity.
Qed.

Lemma count_pos_neg : forall sg, count_pos (map neg_sign sg) = count_neg sg /\ count_neg (map neg_sign sg) = count_pos sg.
Proof.
  unfold count_pos, count_neg. induction sg as [|[] sg [IH1 IH2]]; cbn; auto; rewrite IH1, IH2; auto.
Qed.
Theorem signed_nums_mirror : forall l,
  signed_crossing_nums (mirror l) = option_map (fun pn => (snd pn, fst pn)) (signed_crossing_nums l).
Proof.
  intros. unfold signed_crossing_nums. rewrite crossing_signs_mirror.
  destruct (crossing_signs l) as [sg|]; cbn; auto. destruct (count_pos_neg sg) as [-> ->]. reflexivity.
Qed.
Theorem writhe_mirror : forall l, writhe (mirror l) = option_map Z.opp (writhe l).
Proof.
  intros. unfold writhe. rewrite signed_nums_mirror.
  destruct (signed_crossing_nums l) as [[p n]|]; cbn; auto. f_equal. lia.
Qed.

(* ---------------------------------------------------------------------------------------------- *)
(* relabelling by a map that is injective on the labels of the code *)
Definition inj_on (rho : nat -> nat) (s : list nat) : Prop :=
  forall a b, In a s -> In b s -> rho a = rho b -> a = b.

Lemma relabel_length : forall rho l, length (relabel rho l) = length l.
Proof. intros. apply map_length. Qed.
Lemma relabel_ct : forall rho l i, ct (cross_at (relabel rho l) i) = ct (cross_at l i).
Proof.
  intros. destruct (lt_dec i (length l)).
  - unfold relabel. rewrite cross_at_map; auto.
  - rewrite !cross_at_out; auto; try lia. rewrite relabel_length; lia.
Qed.
Lemma relabel_edge_at : forall rho l p, InR l p -> edge_at (relabel rho l) p = rho (edge_at l p).
Proof.
  intros rho l [i j] [Hi Hj]. unfold edge_at, relabel. cbn [fst snd] in *. rewrite cross_at_map; auto.
  destruct (cross_at l i). do 4 (destruct j as [|j]; [reflexivity|]). reflexivity.
Qed.
Lemma relabel_hedges : forall rho l i,
  hedges_from i (relabel rho l) = map (fun h => (fst h, rho (snd h))) (hedges_from i l).
Proof. induction l as [|c l IH]; intros; cbn; auto. rewrite IH. reflexivity. Qed.

Lemma find_map' : forall A B (f : A -> B) (g : B -> bool) l,
  find g (map f l) = option_map f (find (fun x => g (f x)) l).
Proof. induction l as [|a l IH]; cbn; auto. destruct (g (f a)); auto. Qed.
Lemma find_ext_in : forall A (f g : A -> bool) l, (forall x, In x l -> f x = g x) -> find f l = find g l.
Proof.
  induction l as [|a l IH]; intros H; cbn; auto. rewrite (H a) by (cbn; auto).
  destruct (g a); auto. apply IH. intros; apply H; cbn; auto.
Qed.

Lemma relabel_pass_edge : forall rho l, inj_on rho (edge_labels l) ->
  forall p, InR l p -> pass_edge (relabel rho l) p = pass_edge l p.
Proof.
  intros rho l Hinj p Hp. unfold pass_edge, hedges. rewrite relabel_hedges, relabel_edge_at; auto.
  rewrite find_map'. cbn [fst snd].
  rewrite (find_ext_in _ _ (fun h => (snd h =? edge_at l p) && negb (pos_eqb (fst h) p))).
  - destruct (find _ (hedges_from 0 l)); reflexivity.
  - intros [q e] Hq. cbn [fst snd]. f_equal.
    apply (hedges_spec l q e) in Hq. destruct Hq as [Hq ->].
    destruct (Nat.eqb_spec (edge_at l q) (edge_at l p)) as [E|N].
    + rewrite E. apply Nat.eqb_refl.
    + apply Nat.eqb_neq. intros E. apply N. apply Hinj; auto; apply edge_at_in_labels; auto.
Qed.
Lemma relabel_sim : forall rho l, inj_on rho (edge_labels l) -> sim l (relabel rho l).
Proof.
  intros rho l Hinj. split; [apply relabel_length|]. intros p Hp. split.
  - unfold exit_of. rewrite relabel_ct. reflexivity.
  - apply relabel_pass_edge; auto.
Qed.

Lemma visit_sign_relabel : forall rho l sg p, visit_sign (relabel rho l) sg p = visit_sign l sg p.
Proof. intros. unfold visit_sign. rewrite relabel_ct. reflexivity. Qed.
Lemma fold_visit_relabel : forall rho l ps sg,
  fold_left (visit_sign (relabel rho l)) ps sg = fold_left (visit_sign l) ps sg.
Proof. induction ps as [|p ps IH]; intros; cbn; auto. rewrite visit_sign_relabel. apply IH. Qed.

Lemma mem_map_inj : forall rho s e passed, inj_on rho s -> In e s -> incl passed s ->
  mem (rho e) (map rho passed) = mem e passed.
Proof.
  intros rho s e passed Hinj He Hinc. destruct (mem e passed) eqn:M.
  - apply mem_spec in M. apply mem_spec. apply in_map; auto.
  - apply mem_false in M. apply mem_false. intros Hx. apply in_map_iff in Hx.
    destruct Hx as [a [E Ha]]. apply M. assert (a = e) by (apply Hinj; auto). subst; auto.
Qed.

Definition rel_res (rho : nat -> nat) (r : list nat * list (option sign)) := (map rho (fst r), snd r).

Lemma sign_loop_relabel : forall rho l, inj_on rho (edge_labels l) ->
  forall starts passed sg, (forall p, In p starts -> InR l p) -> incl passed (edge_labels l) ->
  sign_loop (relabel rho l) starts (map rho passed) sg = option_map (rel_res rho) (sign_loop l starts passed sg).
Proof.
  intros rho l Hinj. induction starts as [|p r IH]; intros passed sg Hs Hp; cbn [sign_loop]; auto.
  assert (HpR : InR l p) by (apply Hs; cbn; auto).
  rewrite relabel_edge_at; auto.
  rewrite (mem_map_inj rho (edge_labels l)); auto; [|apply edge_at_in_labels; auto].
  destruct (mem (edge_at l p) passed); [apply IH; auto; intros; apply Hs; cbn; auto|].
  rewrite (traverse_sim l _ (relabel_sim rho l Hinj)).
  destruct (traverse_edges l p) as [ps|] eqn:T; auto.
  rewrite fold_visit_relabel.
  assert (HR : forall q, In q ps -> InR l q) by (eapply traverse_InR; eauto).
  assert (map (edge_at (relabel rho l)) ps = map rho (map (edge_at l) ps)) as ->.
  { rewrite map_map. apply map_ext_in. intros q Hq. apply relabel_edge_at; auto. }
  rewrite <- map_app. apply IH; [intros; apply Hs; cbn; auto|].
  intros e He. apply in_app_iff in He. destruct He as [He|He]; auto.
  apply in_map_iff in He. destruct He as [q [<- Hq]]. apply edge_at_in_labels; auto.
Qed.

Lemma is_resolved_relabel : forall rho c, is_resolved (relabel_c rho c) = is_resolved c.
Proof. intros rho [[] ? ? ? ?]; reflexivity. Qed.
Lemma crossing_num_relabel : forall rho l, crossing_num (relabel rho l) = crossing_num l.
Proof.
  intros. unfold crossing_num, relabel. induction l as [|c l IH]; cbn; auto.
  rewrite is_resolved_relabel. destruct (is_resolved c); cbn; auto.
Qed.
Lemma unsigned_left_relabel : forall rho l sg, unsigned_left (relabel rho l) sg = unsigned_left l sg.
Proof.
  intros. unfold unsigned_left. rewrite relabel_length.
  assert (H : forall i, is_resolved (cross_at (relabel rho l) i) = is_resolved (cross_at l i)).
  { intros i. unfold is_resolved. rewrite relabel_ct. reflexivity. }
  induction (seq 0 (length l)) as [|i s IH]; cbn; auto. rewrite H, IH. reflexivity.
Qed.

Lemma starts_j_InR : forall l j0 p, j0 < 4 -> In p (starts_j l j0) -> InR l p.
Proof.
  intros l j0 [i j] Hj Hp. unfold starts_j in Hp. apply in_map_iff in Hp. destruct Hp as [i0 [E Hi]].
  inversion E; subst. apply in_seq in Hi. split; cbn; lia.
Qed.

Lemma sign_loop_passed_incl : forall l starts passed sg passed' sg',
  incl passed (edge_labels l) -> sign_loop l starts passed sg = Some (passed', sg') -> incl passed' (edge_labels l).
Proof.
  intros l. induction starts as [|p r IH]; intros passed sg passed' sg' Hp E; cbn [sign_loop] in E.
  - inversion E; subst; auto.
  - destruct (mem (edge_at l p) passed); [eapply IH; eauto|].
    destruct (traverse_edges l p) as [ps|] eqn:T; [|discriminate].
    eapply IH; [|exact E]. intros e He. apply in_app_iff in He. destruct He as [He|He]; auto.
    apply in_map_iff in He. destruct He as [q [<- Hq]]. apply edge_at_in_labels. eapply traverse_InR; eauto.
Qed.

Theorem crossing_signs_relabel : forall rho l, inj_on rho (edge_labels l) ->
  crossing_signs (relabel rho l) = crossing_signs l.
Proof.
  intros rho l Hinj. unfold crossing_signs. rewrite relabel_length, crossing_num_relabel.
  unfold starts_j. rewrite relabel_length. fold (starts_j l 0) (starts_j l 1) (starts_j l 2).
  change (@nil nat) with (map rho []) at 1.
  rewrite (sign_loop_relabel rho l Hinj); [|intros p Hp; apply (starts_j_InR l 0); auto; lia|intros e []].
  destruct (sign_loop l (starts_j l 0) [] (repeat None (length l))) as [[passed sg]|] eqn:S0; cbn [option_map]; auto.
  unfold rel_res at 1. cbn [fst snd]. rewrite unsigned_left_relabel.
  destruct (unsigned_left l sg); auto.
  rewrite (sign_loop_relabel rho l Hinj).
  - destruct (sign_loop l (starts_j l 1 ++ starts_j l 2) passed sg) as [[passed' sg']|]; reflexivity.
  - intros p Hp. apply in_app_iff in Hp.
    destruct Hp as [Hp|Hp]; [apply (starts_j_InR l 1)|apply (starts_j_InR l 2)]; auto; lia.
  - eapply sign_loop_passed_incl; [|exact S0]. intros e [].
Qed.

Theorem writhe_relabel : forall rho l, inj_on rho (edge_labels l) ->
  signed_crossing_nums (relabel rho l) = signed_crossing_nums l /\ writhe (relabel rho l) = writhe l.
Proof.
  intros rho l Hinj. unfold writhe, signed_crossing_nums. rewrite crossing_signs_relabel; auto.
Qed.

(* components of a relabelled code *)
Lemma last_cons_indep : forall A (l : list A) a d d', last (a :: l) d = last (a :: l) d'.
Proof. induction l as [|x l IH]; intros; cbn; auto. apply (IH x). Qed.
Lemma last_map_cons : forall (rho : nat -> nat) l a d, last (map rho (a :: l)) d = rho (last (a :: l) d).
Proof.
  induction l as [|x l IH]; intros; cbn; auto. apply (IH x).
Qed.
Lemma last_cons_In : forall A (l : list A) a d, In (last (a :: l) d) (a :: l).
Proof. induction l as [|x l IH]; intros; cbn; auto. right. apply (IH x). Qed.
Lemma removelast_map' : forall A B (f : A -> B) l, removelast (map f l) = map f (removelast l).
Proof. induction l as [|x [|y l'] IH]; cbn in *; auto. f_equal. apply IH. Qed.

Lemma mk_comp_map : forall rho es, inj_on rho es -> mk_comp (map rho es) = relabel_path rho (mk_comp es).
Proof.
  intros rho es Hinj. unfold mk_comp. rewrite map_length.
  destruct es as [|a es]; [reflexivity|].
  destruct (1 <? length (a :: es)) eqn:Len; cbn [andb]; [|reflexivity].
  rewrite last_map_cons. cbn [hd map].
  pose proof (last_cons_In _ es a 0) as Hin.
  destruct (Nat.eqb_spec a (last (a :: es) 0)) as [E|N].
  - rewrite <- E. rewrite Nat.eqb_refl. unfold relabel_path. cbn [pedges pclosed]. f_equal.
    change (rho a :: map rho es) with (map rho (a :: es)). apply removelast_map'.
  - assert (rho a =? rho (last (a :: es) 0) = false) as ->; [|reflexivity].
    apply Nat.eqb_neq. intros E. apply N. apply Hinj; cbn; auto.
Qed.

Lemma comp_loop_relabel : forall rho l, inj_on rho (edge_labels l) ->
  forall starts passed, (forall p, In p starts -> InR l p) -> incl passed (edge_labels l) ->
  comp_loop (relabel rho l) starts (map rho passed) = option_map (map (relabel_path rho)) (comp_loop l starts passed).
Proof.
  intros rho l Hinj. induction starts as [|p r IH]; intros passed Hs Hp; cbn [comp_loop]; auto.
  assert (HpR : InR l p) by (apply Hs; cbn; auto).
  rewrite relabel_edge_at; auto.
  rewrite (mem_map_inj rho (edge_labels l)); auto; [|apply edge_at_in_labels; auto].
  destruct (mem (edge_at l p) passed); [apply IH; auto; intros; apply Hs; cbn; auto|].
  rewrite (traverse_sim l _ (relabel_sim rho l Hinj)).
  destruct (traverse_edges l p) as [ps|] eqn:T; auto.
  assert (HR : forall q, In q ps -> InR l q) by (eapply traverse_InR; eauto).
  assert (map (edge_at (relabel rho l)) ps = map rho (map (edge_at l) ps)) as ->.
  { rewrite map_map. apply map_ext_in. intros q Hq. apply relabel_edge_at; auto. }
  assert (Hinc : incl (map (edge_at l) ps) (edge_labels l)).
  { intros e He. apply in_map_iff in He. destruct He as [q [<- Hq]]. apply edge_at_in_labels; auto. }
  rewrite <- map_app. rewrite IH; [|intros; apply Hs; cbn; auto|].
  - rewrite mk_comp_map.
    + destruct (comp_loop l r (map (edge_at l) ps ++ passed)); reflexivity.
    + intros a b Ha Hb. apply Hinj; auto.
  - intros e He. apply in_app_iff in He. destruct He; auto.
Qed.

Theorem components_relabel : forall rho l, inj_on rho (edge_labels l) ->
  components (relabel rho l) = option_map (map (relabel_path rho)) (components l).
Proof.
  intros rho l Hinj. unfold components, comp_starts, starts_j. rewrite relabel_length.
  fold (starts_j l 0) (starts_j l 1) (starts_j l 2).
  change (@nil nat) with (map rho []) at 1. apply comp_loop_relabel; auto; [|intros e []].
  intros p Hp. apply in_app_iff in Hp. destruct Hp as [Hp|Hp]; [apply (starts_j_InR l 0); auto; lia|].
  apply in_app_iff in Hp.
  destruct Hp as [Hp|Hp]; [apply (starts_j_InR l 1)|apply (starts_j_InR l 2)]; auto; lia.
Qed.
