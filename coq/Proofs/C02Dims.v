(* C02 invariance, part 8: for ANY rho injective on the edge labels the unreduced cube of the relabelled
   diagram has the same number of generators in every cube degree and every local quantum degree
   (the circles of a resolution are the images of the original circles, in a possibly different order:
   Proofs/C02Relabel.v; the generator count only depends on the number of circles). *)
From Coq Require Import List Arith Bool ZArith Lia.
Require Import Yui.Model.KhCube Yui.Model.KhHomology.
Require Import Yui.Proofs.C02Sorted Yui.Proofs.C02Canon Yui.Proofs.C02Relabel Yui.Proofs.C02Reorder.
Import ListNotations.
Close Scope Z_scope.

Theorem count_gens_relabel_inj rho l h t k sel sf : inj_on rho (all_edges l) -> sel_wx sel sf ->
  count_gens (build_cube (relabel rho l) None h t) k sel = count_gens (build_cube l None h t) k sel.
Proof.
  intros Hinj Hs. rewrite !(count_gens_W _ None h t k sel sf Hs). rewrite relabel_crossing_num.
  destruct (k <=? crossing_num l); [|reflexivity]. f_equal.
  unfold W. rewrite relabel_crossing_num, !map_map. apply map_ext. intros s.
  unfold cnt. cbn [fst snd base_index]. now rewrite (circles_relabel_length rho l s Hinj).
Qed.
