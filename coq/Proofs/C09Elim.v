(* C09 - termination of eliminate_at (no "Detect endless loop" panic, the while loop ends within the fuel
   2*log2 N(pivot) + 4) and hence of the whole run, relative to the termination of EucRing::gcdx
   ([gcdx_total]) and of the preprocessing ([pre_total]).
   One iteration of the loop = eliminate_col; eliminate_row at the pivot (i, i):
     - eliminate_col clears column i (every step replaces the pivot by a divisor d = s*x + t*y of itself and
       makes the entry below zero), possibly filling row i;
     - eliminate_row clears row i; a step whose cofactor x/d is a unit takes the shortcut (d, (x/d)^-1, 0) of
       SnfCalc::gcdx and therefore only scales column i, every other step replaces the pivot by a PROPER divisor.
   So after an iteration either row and column are clean (the loop test fails next time) or the pivot is a
   proper divisor of the previous one, whose norm is at most half as large. *)
From Coq Require Import ZArith NArith List Bool Arith Lia Ring.
Require Import Yui.Base.Ring Yui.Base.MatF Yui.Base.MatL Yui.Model.Snf Yui.Proofs.C09Mat Yui.Proofs.C09Inv
  Yui.Proofs.C09Run Yui.Proofs.C09Exit Yui.Proofs.C09Diag Yui.Proofs.C09Laws Yui.Proofs.C09Term.
Import ListNotations.

Lemma filter_at_most_one {X : Type} (p : X -> bool) (d : X) (l : list X) : forall i,
  (forall k, k < length l -> k <> i -> p (nth k l d) = false) -> length (filter p l) <= 1.
Proof.
  induction l as [|x l IH]; intros i H; cbn [filter]; [cbn; lia|].
  destruct i as [|i].
  - assert (E : filter p l = []).
    { clear IH. assert (G : forall y, In y l -> p y = false).
      { intros y Hy. destruct (In_nth l y d Hy) as [k [Hk <-]]. apply (H (S k)); cbn; lia. }
      induction l as [|z l IHl]; [reflexivity|]. cbn [filter]. rewrite (G z (or_introl eq_refl)).
      apply IHl; [|intros; apply G; now right].
      intros k Hk Hne. destruct k as [|k]; [lia|]. destruct k as [|k].
      - apply (H 1); cbn; lia.
      - apply (H (S (S (S k)))); cbn in *; lia. }
    rewrite E. destruct (p x); cbn; lia.
  - rewrite (H 0) by (cbn; lia). cbn [nth]. apply (IH i). intros k Hk Hne. apply (H (S k)); cbn; lia.
Qed.

(* a fold over an index range that never fails and carries an invariant *)
Lemma ofold_seq_total {S : Type} (I : nat -> S -> Prop) (f : nat -> S -> option S) len : forall a s,
  (forall k x, a <= k < a + len -> I k x -> exists x', f k x = Some x' /\ I (Datatypes.S k) x') ->
  I a s -> exists s', ofold f (seq a len) s = Some s' /\ I (a + len) s'.
Proof.
  induction len as [|len IH]; intros a s Hf Hs; cbn [seq ofold].
  - exists s. rewrite Nat.add_0_r. now split.
  - destruct (Hf a s ltac:(lia) Hs) as [s1 [E H1]]. rewrite E.
    replace (a + Datatypes.S len) with (Datatypes.S a + len) by lia.
    apply IH; [|exact H1]. intros k x Hk. apply Hf. lia.
Qed.

Section Elim.
  Context {R : Type} (D : euc_dict R) (SL : snf_laws D) (NL : norm_laws D) (GT : gcdx_total D).
  Let o := ed_ring D.
  Let L : ring_laws o := sl_ring D SL.
  Add Ring Rring : (ring_theory_of_laws o L).

  Local Notation "0" := (rzero o).
  Local Notation "1" := (rone o).
  Local Infix "+" := (radd o).
  Local Infix "*" := (rmul o).
  Local Notation "- x" := (rneg o x).
  Local Notation get := (lget o).
  Local Notation nonunit := (nonunit D).
  Implicit Types T : lmat R.

  Variables m n : nat.

  Definition ColClean (i : nat) T : Prop := forall k, k < m -> k <> i -> get T k i = 0.
  Definition RowClean (i : nat) T : Prop := forall l, l < n -> l <> i -> get T i l = 0.

  Lemma col_nz_clean T i : wf m n T -> ColClean i T -> col_nz D T i <= 1.
  Proof.
    intros W H. unfold col_nz. apply (filter_at_most_one _ [] T i).
    intros k Hk Hne. apply negb_false_iff. apply (is_zero_true D SL).
    apply (H k); [destruct W; lia|exact Hne].
  Qed.

  Lemma row_nz_clean T i : wf m n T -> i < m -> RowClean i T -> row_nz D T i <= 1.
  Proof.
    intros W Hi H. unfold row_nz. apply (filter_at_most_one _ 0 (nth i T []) i).
    intros k Hk Hne. rewrite (wf_row m n T i W Hi) in Hk.
    apply negb_false_iff. apply (is_zero_true D SL). apply (H k Hk Hne).
  Qed.

  Lemma nonunit_mul_l c a : nonunit c -> nonunit (a * c).
  Proof. intros Hc z Hz. apply (Hc (a * z)). rewrite <- Hz. ring. Qed.
  Lemma nonunit_mul_r c a : nonunit c -> nonunit (c * a).
  Proof. intros Hc z Hz. apply (Hc (a * z)). rewrite <- Hz. ring. Qed.

  (* SnfCalc::gcdx on a non-zero pivot: total; t = 0 unless the cofactor x/d is a non-unit *)
  Lemma snf_gcdx_cases x y :
    x <> 0 ->
    exists d s t, snf_gcdx D x y = Some (d, s, t) /\
      d <> 0 /\ d = s * x + t * y /\
      x = rdiv (ed_euc D) x d * d /\ y = rdiv (ed_euc D) y d * d /\
      (t = 0 \/ nonunit (rdiv (ed_euc D) x d)).
  Proof.
    intros Hx. destruct (snf_gcdx_total D SL GT x y Hx) as (d & s & t & G).
    exists d, s, t. split; [exact G|].
    destruct (snf_gcdx_spec D SL _ _ _ _ _ G) as (Hd & Hb & Hxa & Hyb & _).
    repeat (split; [assumption|]).
    unfold snf_gcdx in G. destruct (ed_gcdx D x y) as [[[d0 s0] t0]|]; cbn [sbind] in G; [|discriminate].
    destruct (ris_zero (ed_ring D) d0); [discriminate|].
    destruct (rinv (ed_unit D) (rdiv (ed_euc D) x d0)) as [ai|] eqn:I; injection G as <- <- <-.
    - now left.
    - right. intros z Hz. destruct (nl_inv_complete D NL _ _ Hz) as [ai Hai]. congruence.
  Qed.

  (* ---------- eliminate_col at the pivot (i, i) ---------- *)
  Section AtPivot.
    Variable i : nat.
    Hypothesis Him : i < m.
    Hypothesis Hin : i < n.

    (* state of the column phase after the rows < k have been treated; p0 = the pivot at the start *)
    Definition CI (p0 : R) (s0 : state R) (k : nat) (sm : state R * bool) : Prop :=
      let T := st_t (fst sm) in
      wf m n T /\ get T i i <> 0 /\ (exists c, p0 = c * get T i i) /\
      (forall i1, i1 < k -> i1 < m -> i1 <> i -> get T i1 i = 0) /\
      (snd sm = false -> fst sm = s0).

    Lemma elim_col_body_total p0 s0 k sm :
      k < m -> CI p0 s0 k sm ->
      exists sm', elim_col_body D i i k sm = Some sm' /\ CI p0 s0 (S k) sm'.
    Proof.
      intros Hk (W & Hp & [c Hc] & Hcl & Hfl). unfold elim_col_body. cbv zeta.
      rewrite !mget_lget. fold o.
      destruct (Nat.eqb_spec k i) as [->|Hki]; cbn [orb].
      { eexists. split; [reflexivity|]. repeat split; try assumption; [now exists c|].
        intros i1 H1 H2 H3. apply Hcl; lia. }
      destruct (ris_zero o (get (st_t (fst sm)) k i)) eqn:Z.
      { apply (is_zero_true D SL) in Z. eexists. split; [reflexivity|].
        repeat split; try assumption; [now exists c|].
        intros i1 H1 H2 H3. destruct (Nat.eq_dec i1 k) as [->|]; [exact Z|apply Hcl; lia]. }
      set (T := st_t (fst sm)) in *. set (x := get T i i) in *. set (y := get T k i) in *.
      destruct (snf_gcdx_cases x y Hp) as (d & sx & ty & G & Hd & Hb & Hxa & Hyb & _).
      rewrite G. cbn [sbind]. eexists. split; [reflexivity|].
      set (a := rdiv (ed_euc D) x d) in *. set (b := rdiv (ed_euc D) y d) in *. clearbody a b.
      unfold CI. cbn [fst snd s_left_elem st_t]. fold T.
      assert (HE : forall r l, r < m -> l < n ->
                get (m_left_elem D sx ty (- b) a i k T) r l =
                  if r =? k then get T i l * - b + get T k l * a
                  else if r =? i then get T i l * sx + get T k l * ty else get T r l).
      { intros r l Hr Hl. apply (get_left_elem D m n); assumption. }
      split; [now apply wf_left_elem|]. split; [|split; [|split; [|discriminate]]].
      - rewrite HE by assumption. destruct (Nat.eqb_spec i k); [congruence|]. rewrite Nat.eqb_refl.
        fold x. fold y. intros E. apply Hd. rewrite Hb, <- E. ring.
      - exists (c * a). rewrite HE by assumption. destruct (Nat.eqb_spec i k); [congruence|]. rewrite Nat.eqb_refl.
        fold x. fold y. replace (x * sx + y * ty) with d by (rewrite Hb; ring).
        rewrite Hc. fold x. rewrite Hxa at 1. ring.
      - intros i1 H1 H2 H3. rewrite HE by assumption.
        destruct (Nat.eqb_spec i1 k) as [->|Hne].
        + fold x. fold y. rewrite Hxa, Hyb. ring.
        + destruct (Nat.eqb_spec i1 i); [contradiction|]. apply Hcl; lia.
    Qed.

    Lemma eliminate_col_total s :
      wf m n (st_t s) -> get (st_t s) i i <> 0 ->
      exists r1, eliminate_col D m i i s = Some r1 /\
        wf m n (st_t (fst r1)) /\ get (st_t (fst r1)) i i <> 0 /\
        (exists c, get (st_t s) i i = c * get (st_t (fst r1)) i i) /\
        ColClean i (st_t (fst r1)) /\ (snd r1 = false -> fst r1 = s).
    Proof.
      intros W Hp. unfold eliminate_col.
      destruct (ofold_seq_total (CI (get (st_t s) i i) s) (elim_col_body D i i) m 0 (s, false)) as (r1 & E & HI).
      - intros k x Hk HI. apply elim_col_body_total; [lia|exact HI].
      - unfold CI. cbn [fst snd]. split; [exact W|]. split; [exact Hp|]. split; [exists 1; ring|].
        split; [intros; lia|reflexivity].
      - exists r1. split; [exact E|]. destruct HI as (W1 & Hp1 & Hc1 & Hcl & Hfl). cbn [Nat.add] in Hcl.
        repeat split; try assumption. intros k Hk Hne. apply Hcl; assumption.
    Qed.

    (* ---------- eliminate_row at the pivot (i, i) ---------- *)
    Definition RI (p1 : R) (s0 : state R) (k : nat) (sm : state R * bool) : Prop :=
      let T := st_t (fst sm) in
      wf m n T /\ get T i i <> 0 /\
      (exists c, p1 = c * get T i i /\ (ColClean i T \/ nonunit c)) /\
      (forall j1, j1 < k -> j1 < n -> j1 <> i -> get T i j1 = 0) /\
      (snd sm = false -> fst sm = s0).

    Lemma elim_row_body_total p1 s0 k sm :
      k < n -> RI p1 s0 k sm ->
      exists sm', elim_row_body D i i k sm = Some sm' /\ RI p1 s0 (S k) sm'.
    Proof.
      intros Hk (W & Hp & [c [Hc Hcc]] & Hcl & Hfl). unfold elim_row_body. cbv zeta.
      rewrite !mget_lget. fold o.
      destruct (Nat.eqb_spec k i) as [->|Hki]; cbn [orb].
      { eexists. split; [reflexivity|]. repeat split; try assumption; [now exists c|].
        intros j1 H1 H2 H3. apply Hcl; lia. }
      destruct (ris_zero o (get (st_t (fst sm)) i k)) eqn:Z.
      { apply (is_zero_true D SL) in Z. eexists. split; [reflexivity|].
        repeat split; try assumption; [now exists c|].
        intros j1 H1 H2 H3. destruct (Nat.eq_dec j1 k) as [->|]; [exact Z|apply Hcl; lia]. }
      set (T := st_t (fst sm)) in *. set (x := get T i i) in *. set (y := get T i k) in *.
      destruct (snf_gcdx_cases x y Hp) as (d & sx & ty & G & Hd & Hb & Hxa & Hyb & Hcase).
      rewrite G. cbn [sbind]. eexists. split; [reflexivity|].
      set (a := rdiv (ed_euc D) x d) in *. set (b := rdiv (ed_euc D) y d) in *. clearbody a b.
      unfold RI. cbn [fst snd s_right_elem st_t]. fold T.
      assert (HE : forall r l, r < m -> l < n ->
                get (m_right_elem D sx ty (- b) a i k T) r l =
                  if l =? k then get T r i * - b + get T r k * a
                  else if l =? i then get T r i * sx + get T r k * ty else get T r l).
      { intros r l Hr Hl. apply (get_right_elem D m n); assumption. }
      assert (Epiv : get (m_right_elem D sx ty (- b) a i k T) i i = d).
      { rewrite HE by assumption. destruct (Nat.eqb_spec i k); [congruence|]. rewrite Nat.eqb_refl.
        fold x. fold y. rewrite Hb. ring. }
      split; [now apply wf_right_elem|]. split; [|split; [|split; [|discriminate]]].
      - rewrite Epiv. exact Hd.
      - exists (c * a). rewrite Epiv. split.
        + rewrite Hc. fold x. rewrite Hxa at 1. ring.
        + destruct Hcase as [Ht0|Hnu]; [|right; now apply nonunit_mul_l].
          destruct Hcc as [Hclean|Hnu]; [left|right; now apply nonunit_mul_r].
          intros r Hr Hne. rewrite HE by assumption.
          destruct (Nat.eqb_spec i k); [congruence|]. rewrite Nat.eqb_refl.
          rewrite (Hclean r Hr Hne), Ht0. ring.
      - intros j1 H1 H2 H3. rewrite HE by assumption.
        destruct (Nat.eqb_spec j1 k) as [->|Hne].
        + fold x. fold y. rewrite Hxa, Hyb. ring.
        + destruct (Nat.eqb_spec j1 i); [contradiction|]. apply Hcl; lia.
    Qed.

    Lemma eliminate_row_total s :
      wf m n (st_t s) -> get (st_t s) i i <> 0 -> ColClean i (st_t s) ->
      exists r2, eliminate_row D n i i s = Some r2 /\
        wf m n (st_t (fst r2)) /\ get (st_t (fst r2)) i i <> 0 /\
        (exists c, get (st_t s) i i = c * get (st_t (fst r2)) i i /\ (ColClean i (st_t (fst r2)) \/ nonunit c)) /\
        RowClean i (st_t (fst r2)) /\ (snd r2 = false -> fst r2 = s).
    Proof.
      intros W Hp Hclean. unfold eliminate_row.
      destruct (ofold_seq_total (RI (get (st_t s) i i) s) (elim_row_body D i i) n 0 (s, false)) as (r2 & E & HI).
      - intros k x Hk HI. apply elim_row_body_total; [lia|exact HI].
      - unfold RI. cbn [fst snd]. split; [exact W|]. split; [exact Hp|].
        split; [exists 1; split; [ring|now left]|]. split; [intros; lia|reflexivity].
      - exists r2. split; [exact E|]. destruct HI as (W1 & Hp1 & Hc1 & Hcl & Hfl). cbn [Nat.add] in Hcl.
        repeat split; try assumption. intros k Hk Hne. apply Hcl; assumption.
    Qed.

    (* ---------- the while loop ---------- *)
    Lemma eliminate_loop_total fuel : forall s,
      wf m n (st_t s) -> get (st_t s) i i <> 0 ->
      esize D (get (st_t s) i i) + 2 <= fuel \/
        (1 <= fuel /\ RowClean i (st_t s) /\ ColClean i (st_t s)) ->
      exists s', eliminate_loop D m n fuel i i s = Some s'.
    Proof.
      induction fuel as [|f IH]; intros s W Hp Hf; [lia|]. cbn [eliminate_loop].
      destruct ((1 <? row_nz D (st_t s) i) || (1 <? col_nz D (st_t s) i)) eqn:C; [|eexists; reflexivity].
      destruct Hf as [Hf|(_ & HR & HC)].
      2:{ exfalso. apply orb_true_iff in C. destruct C as [C|C]; apply Nat.ltb_lt in C.
          - pose proof (row_nz_clean (st_t s) i W Him HR). lia.
          - pose proof (col_nz_clean (st_t s) i W HC). lia. }
      destruct (eliminate_col_total s W Hp) as (r1 & E1 & W1 & Hp1 & [c0 Hc0] & HC1 & Hfl1).
      rewrite E1. cbn [sbind].
      destruct (eliminate_row_total (fst r1) W1 Hp1 HC1) as (r2 & E2 & W2 & Hp2 & [c [Hc Hcc]] & HR2 & Hfl2).
      rewrite E2. cbn [sbind].
      destruct (snd r1 || snd r2) eqn:Fl.
      - apply IH; try assumption.
        destruct Hcc as [HC2|Hnu].
        + right. split; [lia|]. split; assumption.
        + left.
          assert (Hlt : esize D (get (st_t (fst r2)) i i) < esize D (get (st_t s) i i)).
          { rewrite Hc0, Hc.
            replace (c0 * (c * get (st_t (fst r2)) i i)) with (c0 * c * get (st_t (fst r2)) i i) by ring.
            apply (esize_lt D SL NL); [exact Hp2| |now apply nonunit_mul_l].
            intros E. apply Hp. rewrite Hc0, Hc.
            replace (c0 * (c * get (st_t (fst r2)) i i)) with (c0 * c * get (st_t (fst r2)) i i) by ring.
            rewrite E. ring. }
          lia.
      - (* nothing was modified although the loop test held: impossible *)
        exfalso. apply orb_false_iff in Fl. destruct Fl as [F1 F2].
        rewrite (Hfl2 F2), (Hfl1 F1) in HR2. rewrite (Hfl1 F1) in HC1.
        apply orb_true_iff in C. destruct C as [C|C]; apply Nat.ltb_lt in C.
        + pose proof (row_nz_clean (st_t s) i W Him HR2). lia.
        + pose proof (col_nz_clean (st_t s) i W HC1). lia.
    Qed.

    Lemma eliminate_at_total s :
      wf m n (st_t s) -> get (st_t s) i i <> 0 ->
      exists s', eliminate_at D (default_fuel D) m n i i s = Some s'.
    Proof.
      intros W Hp. unfold eliminate_at. cbv zeta. rewrite mget_lget. fold o.
      replace (ris_zero o (get (st_t s) i i)) with false by (symmetry; now apply (is_zero_false D SL)).
      apply eliminate_loop_total; try assumption. left. cbn [default_fuel fp_elim]. fold o. lia.
    Qed.
  End AtPivot.
End Elim.
