(* C09 - termination of eliminate_at (no "Detect endless loop" panic, the while loop ends within the fuel
   2*log2 N(pivot) + 4) and hence of the whole run, relative to the termination of EucRing::gcdx
   ([gcdx_total]) and of the preprocessing ([pre_total]).
   One iteration of the loop = eliminate_col; eliminate_row at the pivot (i, i):
     - eliminate_col clears column i (every step replaces the pivot by a divisor d = s*x + t*y of itself and
       makes the entry below zero), possibly filling row i;
     - eliminate_row clears row i; a step whose cofactor x/d is a unit takes the shortcut (d, (x/d)^-1, 0) of
       SnfCalc::gcdx and therefore only scales column i, every other step replaces the pivot by a PROPER divisor.
   So after an iteration either row and column are clean (the loop test fails next time) or the pivot is a
   proper divisor of the previous one, whose norm is at most half as large. *)
From Coq Require Import ZArith NArith List Bool Arith Lia Ring.
Require Import Yui.Base.Ring Yui.Base.MatF Yui.Base.MatL Yui.Model.Snf Yui.Proofs.C09Mat Yui.Proofs.C09Inv
  Yui.Proofs.C09Run Yui.Proofs.C09Exit Yui.Proofs.C09Diag Yui.Proofs.C09Laws Yui.Proofs.C09Term
  Yui.Proofs.C09Total.
Import ListNotations.

Lemma filter_none_nil {X : Type} (p : X -> bool) (l : list X) :
  (forall y, In y l -> p y = false) -> filter p l = [].
Proof.
  induction l as [|z l IH]; intros G; [reflexivity|]. cbn [filter].
  rewrite (G z (or_introl eq_refl)). apply IH. intros y Hy. apply G. now right.
Qed.

Lemma filter_at_most_one {X : Type} (p : X -> bool) (d : X) (l : list X) : forall i,
  (forall k, k < length l -> k <> i -> p (nth k l d) = false) -> length (filter p l) <= 1.
Proof.
  induction l as [|x l IH]; intros i H; cbn [filter]; [cbn; lia|].
  destruct i as [|i].
  - assert (E : filter p l = []).
    { apply filter_none_nil. intros y Hy. destruct (In_nth l y d Hy) as [k [Hk <-]].
      apply (H (S k)); cbn; lia. }
    rewrite E. destruct (p x); cbn; lia.
  - assert (E0 : p x = false) by (apply (H 0); cbn; lia). rewrite E0. apply (IH i). intros k Hk Hne. apply (H (S k)); cbn; lia.
Qed.

(* a fold over an index range that never fails and carries an invariant *)
Lemma ofold_seq_total {S : Type} (I : nat -> S -> Prop) (f : nat -> S -> option S) len : forall a s,
  (forall k x, a <= k < a + len -> I k x -> exists x', f k x = Some x' /\ I (Datatypes.S k) x') ->
  I a s -> exists s', ofold f (seq a len) s = Some s' /\ I (a + len) s'.
Proof.
  induction len as [|len IH]; intros a s Hf Hs; cbn [seq ofold].
  - exists s. rewrite Nat.add_0_r. now split.
  - destruct (Hf a s ltac:(lia) Hs) as [s1 [E H1]]. rewrite E.
    replace (a + Datatypes.S len) with (Datatypes.S a + len) by lia.
    apply IH; [|exact H1]. intros k x Hk. apply Hf. lia.
Qed.

Section Elim.
  Context {R : Type} (D : euc_dict R) (SL : snf_laws D) (NL : norm_laws D) (GT : gcdx_total D).
  Let o := ed_ring D.
  Let L : ring_laws o := sl_ring D SL.
  Add Ring Rring : (ring_theory_of_laws o L).

  Local Notation "0" := (rzero o).
  Local Notation "1" := (rone o).
  Local Infix "+" := (radd o).
  Local Infix "*" := (rmul o).
  Local Notation "- x" := (rneg o x).
  Local Notation get := (lget o).
  Local Notation nonunit := (nonunit D).
  Implicit Types T : lmat R.

  Variables m n : nat.

  Definition ColClean (i : nat) T : Prop := forall k, k < m -> k <> i -> get T k i = 0.
  Definition RowClean (i : nat) T : Prop := forall l, l < n -> l <> i -> get T i l = 0.

  Lemma col_nz_clean T i : wf m n T -> ColClean i T -> col_nz D T i <= 1.
  Proof.
    intros W H. unfold col_nz. apply (filter_at_most_one _ [] T i).
    intros k Hk Hne. apply negb_false_iff. apply (is_zero_true D SL).
    apply (H k); [destruct W; lia|exact Hne].
  Qed.

  Lemma row_nz_clean T i : wf m n T -> i < m -> RowClean i T -> row_nz D T i <= 1.
  Proof.
    intros W Hi H. unfold row_nz. apply (filter_at_most_one _ 0 (nth i T []) i).
    intros k Hk Hne. rewrite (wf_row m n T i W Hi) in Hk.
    apply negb_false_iff. apply (is_zero_true D SL). apply (H k Hk Hne).
  Qed.

  Lemma nonunit_mul_l c a : nonunit c -> nonunit (a * c).
  Proof. intros Hc z Hz. apply (Hc (a * z)). fold o. transitivity (a * c * z); [ring|exact Hz]. Qed.
  Lemma nonunit_mul_r c a : nonunit c -> nonunit (c * a).
  Proof. intros Hc z Hz. apply (Hc (a * z)). fold o. transitivity (c * a * z); [ring|exact Hz]. Qed.

  (* SnfCalc::gcdx on a non-zero pivot: total; t = 0 unless the cofactor x/d is a non-unit *)
  Lemma snf_gcdx_cases x y :
    x <> 0 ->
    exists d s t, snf_gcdx D x y = Some (d, s, t) /\
      d <> 0 /\ d = s * x + t * y /\
      x = rdiv (ed_euc D) x d * d /\ y = rdiv (ed_euc D) y d * d /\
      (t = 0 \/ nonunit (rdiv (ed_euc D) x d)).
  Proof.
    intros Hx. destruct (snf_gcdx_total D SL GT x y Hx) as (d & s & t & G).
    exists d, s, t. split; [exact G|].
    destruct (snf_gcdx_spec D SL _ _ _ _ _ G) as (Hd & Hb & Hxa & Hyb & _).
    repeat (split; [assumption|]).
    unfold snf_gcdx in G. destruct (ed_gcdx D x y) as [[[d0 s0] t0]|]; cbn [sbind] in G; [|discriminate].
    destruct (ris_zero (ed_ring D) d0); [discriminate|].
    destruct (rinv (ed_unit D) (rdiv (ed_euc D) x d0)) as [ai|] eqn:I; injection G as <- <- <-.
    - now left.
    - right. intros z Hz. destruct (nl_inv_complete D NL _ _ Hz) as [ai Hai]. congruence.
  Qed.

  (* ---------- eliminate_col at the pivot (i, i) ---------- *)
  Section AtPivot.
    Variable i : nat.
    Hypothesis Him : i < m.
    Hypothesis Hin : i < n.

    (* state of the column phase after the rows < k have been treated; p0 = the pivot at the start *)
    Definition CI (p0 : R) (s0 : state R) (k : nat) (sm : state R * bool) : Prop :=
      let T := st_t (fst sm) in
      wf m n T /\ get T i i <> 0 /\ (exists c, p0 = c * get T i i) /\
      (forall i1, i1 < k -> i1 < m -> i1 <> i -> get T i1 i = 0) /\
      (snd sm = false -> fst sm = s0).

    Lemma elim_col_body_total p0 s0 k sm :
      k < m -> CI p0 s0 k sm ->
      exists sm', elim_col_body D i i k sm = Some sm' /\ CI p0 s0 (S k) sm'.
    Proof.
      intros Hk (W & Hp & [c Hc] & Hcl & Hfl). unfold elim_col_body. cbv zeta.
      rewrite !mget_lget. fold o.
      destruct (Nat.eqb_spec k i) as [->|Hki]; cbn [orb].
      { eexists. split; [reflexivity|]. unfold CI. cbv zeta.
        split; [exact W|]. split; [exact Hp|]. split; [now exists c|]. split; [|exact Hfl].
        intros i1 H1 H2 H3. apply Hcl; lia. }
      destruct (ris_zero o (get (st_t (fst sm)) k i)) eqn:Z.
      { apply (is_zero_true D SL) in Z. eexists. split; [reflexivity|]. unfold CI. cbv zeta.
        split; [exact W|]. split; [exact Hp|]. split; [now exists c|]. split; [|exact Hfl].
        intros i1 H1 H2 H3. destruct (Nat.eq_dec i1 k) as [->|]; [exact Z|apply Hcl; lia]. }
      set (T := st_t (fst sm)) in *. set (x := get T i i) in *. set (y := get T k i) in *.
      destruct (snf_gcdx_cases x y Hp) as (d & sx & ty & G & Hd & Hb & Hxa & Hyb & _).
      rewrite G. cbn [sbind]. eexists. split; [reflexivity|].
      set (a := rdiv (ed_euc D) x d) in *. set (b := rdiv (ed_euc D) y d) in *. clearbody a b.
      unfold CI. cbn [fst snd s_left_elem st_t]. fold T.
      assert (HE : forall r l, r < m -> l < n ->
                get (m_left_elem D sx ty (- b) a i k T) r l =
                  if r =? k then get T i l * - b + get T k l * a
                  else if r =? i then get T i l * sx + get T k l * ty else get T r l).
      { intros r l Hr Hl. apply (get_left_elem D m n); assumption. }
      split; [now apply wf_left_elem|]. split; [|split; [|split; [|discriminate]]].
      - rewrite HE by assumption. destruct (Nat.eqb_spec i k); [congruence|]. rewrite Nat.eqb_refl.
        fold x. fold y. intros E. apply Hd. rewrite Hb, <- E. ring.
      - exists (c * a). rewrite HE by assumption. destruct (Nat.eqb_spec i k); [congruence|]. rewrite Nat.eqb_refl.
        fold x. fold y. replace (x * sx + y * ty) with d by (rewrite Hb; ring).
        rewrite Hc. fold x. rewrite Hxa at 1. ring.
      - intros i1 H1 H2 H3. rewrite HE by assumption.
        destruct (Nat.eqb_spec i1 k) as [->|Hne].
        + fold x. fold y. rewrite Hxa, Hyb. ring.
        + destruct (Nat.eqb_spec i1 i); [contradiction|]. apply Hcl; lia.
    Qed.

    Lemma eliminate_col_total s :
      wf m n (st_t s) -> get (st_t s) i i <> 0 ->
      exists r1, eliminate_col D m i i s = Some r1 /\
        wf m n (st_t (fst r1)) /\ get (st_t (fst r1)) i i <> 0 /\
        (exists c, get (st_t s) i i = c * get (st_t (fst r1)) i i) /\
        ColClean i (st_t (fst r1)) /\ (snd r1 = false -> fst r1 = s).
    Proof.
      intros W Hp. unfold eliminate_col.
      destruct (ofold_seq_total (CI (get (st_t s) i i) s) (elim_col_body D i i) m 0 (s, false)) as (r1 & E & HI).
      - intros k x Hk HI. apply elim_col_body_total; [lia|exact HI].
      - unfold CI. cbn [fst snd]. split; [exact W|]. split; [exact Hp|]. split; [exists 1; ring|].
        split; [intros; lia|reflexivity].
      - exists r1. split; [exact E|]. destruct HI as (W1 & Hp1 & Hc1 & Hcl & Hfl). cbn [Nat.add] in Hcl.
        split; [exact W1|]. split; [exact Hp1|]. split; [exact Hc1|]. split; [|exact Hfl].
        intros k Hk Hne. apply Hcl; assumption.
    Qed.

    (* ---------- eliminate_row at the pivot (i, i) ---------- *)
    Definition RI (p1 : R) (s0 : state R) (k : nat) (sm : state R * bool) : Prop :=
      let T := st_t (fst sm) in
      wf m n T /\ get T i i <> 0 /\
      (exists c, p1 = c * get T i i /\ (ColClean i T \/ nonunit c)) /\
      (forall j1, j1 < k -> j1 < n -> j1 <> i -> get T i j1 = 0) /\
      (snd sm = false -> fst sm = s0).

    Lemma elim_row_body_total p1 s0 k sm :
      k < n -> RI p1 s0 k sm ->
      exists sm', elim_row_body D i i k sm = Some sm' /\ RI p1 s0 (S k) sm'.
    Proof.
      intros Hk (W & Hp & [c [Hc Hcc]] & Hcl & Hfl). unfold elim_row_body. cbv zeta.
      rewrite !mget_lget. fold o.
      destruct (Nat.eqb_spec k i) as [->|Hki]; cbn [orb].
      { eexists. split; [reflexivity|]. unfold RI. cbv zeta.
        split; [exact W|]. split; [exact Hp|]. split; [now exists c|]. split; [|exact Hfl].
        intros j1 H1 H2 H3. apply Hcl; lia. }
      destruct (ris_zero o (get (st_t (fst sm)) i k)) eqn:Z.
      { apply (is_zero_true D SL) in Z. eexists. split; [reflexivity|]. unfold RI. cbv zeta.
        split; [exact W|]. split; [exact Hp|]. split; [now exists c|]. split; [|exact Hfl].
        intros j1 H1 H2 H3. destruct (Nat.eq_dec j1 k) as [->|]; [exact Z|apply Hcl; lia]. }
      set (T := st_t (fst sm)) in *. set (x := get T i i) in *. set (y := get T i k) in *.
      destruct (snf_gcdx_cases x y Hp) as (d & sx & ty & G & Hd & Hb & Hxa & Hyb & Hcase).
      rewrite G. cbn [sbind]. eexists. split; [reflexivity|].
      set (a := rdiv (ed_euc D) x d) in *. set (b := rdiv (ed_euc D) y d) in *. clearbody a b.
      unfold RI. cbn [fst snd s_right_elem st_t]. fold T.
      assert (HE : forall r l, r < m -> l < n ->
                get (m_right_elem D sx ty (- b) a i k T) r l =
                  if l =? k then get T r i * - b + get T r k * a
                  else if l =? i then get T r i * sx + get T r k * ty else get T r l).
      { intros r l Hr Hl. apply (get_right_elem D m n); assumption. }
      assert (Epiv : get (m_right_elem D sx ty (- b) a i k T) i i = d).
      { rewrite HE by assumption. destruct (Nat.eqb_spec i k); [congruence|]. rewrite Nat.eqb_refl.
        fold x. fold y. rewrite Hb. ring. }
      split; [now apply wf_right_elem|]. split; [|split; [|split; [|discriminate]]].
      - rewrite Epiv. exact Hd.
      - exists (c * a). rewrite Epiv. split.
        + rewrite Hc. fold x. rewrite Hxa at 1. ring.
        + destruct Hcase as [Ht0|Hnu]; [|right; now apply nonunit_mul_l].
          destruct Hcc as [Hclean|Hnu]; [left|right; now apply nonunit_mul_r].
          intros r Hr Hne. rewrite HE by assumption.
          destruct (Nat.eqb_spec i k); [congruence|]. rewrite Nat.eqb_refl.
          rewrite (Hclean r Hr Hne), Ht0. ring.
      - intros j1 H1 H2 H3. rewrite HE by assumption.
        destruct (Nat.eqb_spec j1 k) as [->|Hne].
        + fold x. fold y. rewrite Hxa, Hyb. ring.
        + destruct (Nat.eqb_spec j1 i); [contradiction|]. apply Hcl; lia.
    Qed.

    Lemma eliminate_row_total s :
      wf m n (st_t s) -> get (st_t s) i i <> 0 -> ColClean i (st_t s) ->
      exists r2, eliminate_row D n i i s = Some r2 /\
        wf m n (st_t (fst r2)) /\ get (st_t (fst r2)) i i <> 0 /\
        (exists c, get (st_t s) i i = c * get (st_t (fst r2)) i i /\ (ColClean i (st_t (fst r2)) \/ nonunit c)) /\
        RowClean i (st_t (fst r2)) /\ (snd r2 = false -> fst r2 = s).
    Proof.
      intros W Hp Hclean. unfold eliminate_row.
      destruct (ofold_seq_total (RI (get (st_t s) i i) s) (elim_row_body D i i) n 0 (s, false)) as (r2 & E & HI).
      - intros k x Hk HI. apply elim_row_body_total; [lia|exact HI].
      - unfold RI. cbn [fst snd]. split; [exact W|]. split; [exact Hp|].
        split; [exists 1; split; [ring|now left]|]. split; [intros; lia|reflexivity].
      - exists r2. split; [exact E|]. destruct HI as (W1 & Hp1 & Hc1 & Hcl & Hfl). cbn [Nat.add] in Hcl.
        split; [exact W1|]. split; [exact Hp1|]. split; [exact Hc1|]. split; [|exact Hfl].
        intros k Hk Hne. apply Hcl; assumption.
    Qed.

    (* ---------- the while loop ---------- *)
    Lemma eliminate_loop_total fuel : forall s,
      wf m n (st_t s) -> get (st_t s) i i <> 0 ->
      esize D (get (st_t s) i i) + 2 <= fuel \/
        (1 <= fuel /\ RowClean i (st_t s) /\ ColClean i (st_t s)) ->
      exists s', eliminate_loop D m n fuel i i s = Some s'.
    Proof.
      induction fuel as [|f IH]; intros s W Hp Hf; [lia|]. cbn [eliminate_loop].
      destruct ((1 <? row_nz D (st_t s) i) || (1 <? col_nz D (st_t s) i)) eqn:C; [|eexists; reflexivity].
      destruct Hf as [Hf|(_ & HR & HC)].
      2:{ exfalso. apply orb_true_iff in C. destruct C as [C|C]; apply Nat.ltb_lt in C.
          - pose proof (row_nz_clean (st_t s) i W Him HR). lia.
          - pose proof (col_nz_clean (st_t s) i W HC). lia. }
      destruct (eliminate_col_total s W Hp) as (r1 & E1 & W1 & Hp1 & [c0 Hc0] & HC1 & Hfl1).
      rewrite E1. cbn [sbind].
      destruct (eliminate_row_total (fst r1) W1 Hp1 HC1) as (r2 & E2 & W2 & Hp2 & [c [Hc Hcc]] & HR2 & Hfl2).
      rewrite E2. cbn [sbind].
      destruct (snd r1 || snd r2) eqn:Fl.
      - apply IH; try assumption.
        destruct Hcc as [HC2|Hnu].
        + right. split; [lia|]. split; assumption.
        + left.
          assert (Hlt : esize D (get (st_t (fst r2)) i i) < esize D (get (st_t s) i i)).
          { rewrite Hc0, Hc.
            replace (c0 * (c * get (st_t (fst r2)) i i)) with (c0 * c * get (st_t (fst r2)) i i) by ring.
            apply (esize_lt D NL); [exact Hp2| |now apply nonunit_mul_l].
            intros E. apply Hp. rewrite Hc0, Hc.
            replace (c0 * (c * get (st_t (fst r2)) i i)) with (c0 * c * get (st_t (fst r2)) i i) by ring.
            fold o in E. rewrite E. ring. }
          lia.
      - (* nothing was modified although the loop test held: impossible *)
        exfalso. apply orb_false_iff in Fl. destruct Fl as [F1 F2].
        rewrite (Hfl2 F2), (Hfl1 F1) in HR2. rewrite (Hfl1 F1) in HC1.
        apply orb_true_iff in C. destruct C as [C|C]; apply Nat.ltb_lt in C.
        + pose proof (row_nz_clean (st_t s) i W Him HR2). lia.
        + pose proof (col_nz_clean (st_t s) i W HC1). lia.
    Qed.

    Lemma eliminate_at_total s :
      wf m n (st_t s) -> get (st_t s) i i <> 0 ->
      exists s', eliminate_at D (default_fuel D) m n i i s = Some s'.
    Proof.
      intros W Hp. unfold eliminate_at. cbv zeta. rewrite mget_lget. fold o.
      replace (ris_zero o (get (st_t s) i i)) with false by (symmetry; now apply (is_zero_false D SL)).
      apply eliminate_loop_total; try assumption. left. cbn [default_fuel fp_elim]. fold o. lia.
    Qed.
  End AtPivot.
End Elim.

(* the preprocessing returns (C10: termination of lll_hnf; [True] without preprocessing) *)
Definition pre_total {R : Type} (D : euc_dict R) : Prop :=
  match ed_pre D with
  | None => True
  | Some f => forall m n b1 b2 (A : lmat R), wf m n A -> exists r, f m n b1 b2 A = Some r
  end.

Section RunTotal.
  Context {R : Type} (D : euc_dict R) (SL : snf_laws D) (NL : norm_laws D) (GT : gcdx_total D).
  Let o := ed_ring D.
  Local Notation get := (lget o).
  Local Notation dfl := (default_fuel D).

  Variables m n : nat.
  Variable A : lmat R.
  Variables f1 f2 f3 f4 : bool.
  Local Notation SI := (SInv D m n A f1 f2 f3 f4).

  Lemma SI_wf s : SI s -> wf m n (st_t s).
  Proof. intros (P & Pi & Q & Qi & W & _). exact W. Qed.

  Lemma eliminate_step_total i j s :
    i < m -> i <= j -> j < n -> SI s -> exists r, eliminate_step D dfl m n i j s = Some r.
  Proof.
    intros Hi Hij Hj HS. pose proof (SI_wf s HS) as W. unfold eliminate_step. cbv zeta.
    destruct (select_pivot D m (st_t s) i j) as [ip|] eqn:SP; [|eexists; reflexivity].
    apply (select_pivot_range D) in SP. destruct SP as [Hip Hnz].
    apply (is_zero_false D SL) in Hnz. rewrite mget_lget in Hnz.
    set (s1 := if i <? ip then s_swap_rows i ip s else s).
    assert (H1 : wf m n (st_t s1) /\ get (st_t s1) i j <> rzero o).
    { unfold s1. destruct (Nat.ltb_spec i ip).
      - cbn [s_swap_rows st_t]. split; [apply wf_swap_rows; try assumption; lia|].
        rewrite (get_swap_rows D m n) by (try assumption; lia). unfold swp. now rewrite Nat.eqb_refl.
      - assert (ip = i) by lia. subst ip. now split. }
    destruct H1 as [W1 HP1].
    set (s2 := if i <? j then s_swap_cols i j s1 else s1).
    assert (H2 : wf m n (st_t s2) /\ get (st_t s2) i i <> rzero o).
    { unfold s2. destruct (Nat.ltb_spec i j).
      - cbn [s_swap_cols st_t]. split; [now apply wf_swap_cols|].
        rewrite (get_swap_cols D m n) by (try assumption; lia). unfold swp. now rewrite Nat.eqb_refl.
      - assert (j = i) by lia. subst j. now split. }
    destruct H2 as [W2 HP2].
    set (v := rnunit (ed_unit D) (mget D (st_t s2) i i)).
    destruct (sl_nunit_inv D SL (mget D (st_t s2) i i)) as [vi Hvi]. fold v in Hvi.
    assert (H3 : exists s3, (if ris_one (ed_ring D) v then Some s2 else s_mul_col D i v s2) = Some s3 /\
                            wf m n (st_t s3) /\ get (st_t s3) i i <> rzero o).
    { destruct (ris_one (ed_ring D) v).
      - exists s2. now split.
      - rewrite (s_mul_col_eq D i v vi s2 Hvi). eexists. split; [reflexivity|]. cbn [st_t].
        split; [now apply wf_mul_col|].
        rewrite (get_mul_col D m n) by (try assumption; lia). rewrite Nat.eqb_refl.
        intros E. destruct (mul_eq_0 D SL _ _ E) as [E1|E1]; [now apply HP2|].
        apply (unit_neq_0 D SL v vi); [|exact E1]. apply (sl_inv D SL). exact Hvi. }
    destruct H3 as (s3 & E3 & W3 & HP3). rewrite E3. cbn [sbind].
    destruct (eliminate_at_total D SL NL GT m n i Hi ltac:(lia) s3 W3 HP3) as [s4 E4].
    rewrite E4. cbn [sbind]. eexists; reflexivity.
  Qed.

  Lemma eliminate_all_loop_total k : forall j0 i s,
    Nat.add j0 k = n -> i <= j0 -> SI s ->
    exists s', eliminate_all_loop D dfl m n (seq j0 k) i s = Some s'.
  Proof.
    induction k as [|k IH]; intros j0 i s Hn Hij HS; cbn [seq eliminate_all_loop]; [eexists; reflexivity|].
    destruct (Nat.leb_spec m i); [eexists; reflexivity|].
    destruct (eliminate_step_total i j0 s ltac:(lia) Hij ltac:(lia) HS) as [sb E]. rewrite E. cbn [sbind].
    apply IH; [lia|destruct (snd sb); lia|].
    apply (eliminate_step_inv D SL dfl m n A f1 f2 f3 f4 i j0 s sb); try assumption; lia.
  Qed.

  Lemma process_total (Hpre : pre_ok D) (Htot : pre_total D) :
    wf m n A -> exists s', process D dfl m n (init_state D m n A (f1, f2, f3, f4)) = Some s'.
  Proof.
    intros W. unfold process. destruct (mat_is_zero D _); [eexists; reflexivity|].
    assert (E1 : exists s1, preprocess D m n (init_state D m n A (f1, f2, f3, f4)) = Some s1).
    { unfold preprocess. unfold pre_total in Htot. destruct (ed_pre D) as [f|]; [|eexists; reflexivity].
      cbn [init_state st_t st_p st_pinv st_q st_qinv].
      destruct (Htot m n (if (if f1 then Some (id_mat D m) else None) then true else false)
                     (if (if f2 then Some (id_mat D m) else None) then true else false) A W) as [[[h p] pi] E].
      rewrite E. cbn [sbind]. eexists; reflexivity. }
    destruct E1 as [s1 E1]. rewrite E1. cbn [sbind].
    pose proof (preprocess_init_inv D SL m n A f1 f2 f3 f4 Hpre s1 W E1) as HS1.
    destruct (eliminate_all_loop_total n 0 0 s1 ltac:(lia) ltac:(lia) HS1) as [s2 E2].
    unfold eliminate_all. rewrite E2. cbn [sbind].
    destruct (eliminate_all_diag D SL dfl m n s1 s2 (SI_wf s1 HS1) E2) as [r HD].
    apply (diag_normalize_total D SL NL GT m n r s2 HD).
  Qed.
End RunTotal.

(* ---------- the call returns ---------- *)
Theorem snf_terminates {R : Type} (D : euc_dict R) :
  snf_laws D -> norm_laws D -> gcdx_total D -> pre_ok D -> pre_total D ->
  forall m n (A : lmat R) fl, wf m n A -> exists res, snf D (mk_dmat m n A) fl = Some res.
Proof.
  intros SL NL GT Hpre Htot m n A [[[f1 f2] f3] f4] W.
  unfold snf, snf_run. cbv zeta. cbn [dm_m dm_n dm_rows].
  destruct (process_total D SL NL GT m n A f1 f2 f3 f4 Hpre Htot W) as [s E]. rewrite E. cbn [sbind].
  eexists; reflexivity.
Qed.

(* termination and specification together *)
Theorem snf_total {R : Type} (D : euc_dict R) :
  snf_laws D -> norm_laws D -> gcdx_total D -> pre_ok D -> pre_total D ->
  forall m n (A : lmat R) f1 f2 f3 f4, wf m n A ->
  exists res, snf D (mk_dmat m n A) (f1, f2, f3, f4) = Some res /\ snf_spec D m n A f1 f2 f3 f4 res.
Proof.
  intros SL NL GT Hpre Htot m n A f1 f2 f3 f4 W.
  destruct (snf_terminates D SL NL GT Hpre Htot m n A (f1, f2, f3, f4) W) as [res E].
  exists res. split; [exact E|]. exact (snf_total_partial D SL Hpre (default_fuel D) m n A f1 f2 f3 f4 res W E).
Qed.

(* closed instances: the dictionaries without preprocessing whose gcdx is proved to terminate *)
Corollary Z_snf_total : forall m n (A : lmat Z) f1 f2 f3 f4, wf m n A ->
  exists res, snf Z_dict (mk_dmat m n A) (f1, f2, f3, f4) = Some res /\ snf_spec Z_dict m n A f1 f2 f3 f4 res.
Proof.
  destruct (Zpre_term_laws None) as [NL GT]. exact (snf_total Z_dict Z_snf_laws NL GT I I).
Qed.

Corollary field_snf_total {F : Type} (o : ring_ops F) (finv : F -> F) :
  ring_laws o -> rone o <> rzero o -> (forall a, a <> rzero o -> rmul o a (finv a) = rone o) ->
  forall m n (A : lmat F) f1 f2 f3 f4, wf m n A ->
  exists res, snf (field_dict o finv) (mk_dmat m n A) (f1, f2, f3, f4) = Some res /\
              snf_spec (field_dict o finv) m n A f1 f2 f3 f4 res.
Proof.
  intros L H10 Hinv. destruct (field_term_laws o finv L H10 Hinv) as [NL GT].
  exact (snf_total (field_dict o finv) (field_snf_laws o finv L H10 Hinv) NL GT I I).
Qed.

Corollary Q_snf_total : forall m n (A : lmat Qcanon.Qc) f1 f2 f3 f4, wf m n A ->
  exists res, snf Q_dict (mk_dmat m n A) (f1, f2, f3, f4) = Some res /\ snf_spec Q_dict m n A f1 f2 f3 f4 res.
Proof.
  apply (field_snf_total Q_ring Qcanon.Qcinv Q_ring_laws).
  - cbn. intros H. apply (f_equal Qcanon.this) in H. discriminate H.
  - intros a Ha. cbn. now apply Qcanon.Qcmult_inv_r.
Qed.

Corollary F2_snf_total : forall m n (A : lmat bool) f1 f2 f3 f4, wf m n A ->
  exists res, snf F2_dict (mk_dmat m n A) (f1, f2, f3, f4) = Some res /\ snf_spec F2_dict m n A f1 f2 f3 f4 res.
Proof.
  apply (field_snf_total F2_ring (fun a => a) F2_ring_laws).
  - discriminate.
  - intros a Ha. destruct a; [reflexivity|]. exfalso. now apply Ha.
Qed.

Corollary fp_snf_total (p : Z) : Znumtheory.prime p ->
  forall m n (A : lmat (fp p)) f1 f2 f3 f4, wf m n A ->
  exists res, snf (fp_dict p) (mk_dmat m n A) (f1, f2, f3, f4) = Some res /\ snf_spec (fp_dict p) m n A f1 f2 f3 f4 res.
Proof.
  intros Hp. exact (field_snf_total (fp_ring p) (fp_inv p) (fp_ring_laws p Hp) (fp_one_neq_zero p Hp) (fp_inv_r p Hp)).
Qed.
