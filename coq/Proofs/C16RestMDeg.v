(* C16 (rest): exact specification of the checked division (SubAssign), all_leq / divides, is_unit and inv
   of MultiDeg / MultiVar (Model/Mono.v) on reduced multi-degrees, for every exponent type with [exp_laws]. *)
From Coq Require Import List Bool Arith NArith ZArith Lia.
Require Import Yui.Model.Mono Yui.Proofs.C16Mono Yui.Proofs.C16MDeg Yui.Proofs.C16RestMono.
Import ListNotations.

Section MDegRest.
  Context {I : Type} (e : exp_ops I) (eZ : I -> Z) (EL : exp_laws e eZ).
  Notation mdeg := (@Mono.mdeg I).
  Notation md_at := (md_at e).
  Notation md_add := (md_add e).
  Notation md_reduce := (md_reduce e).
  Notation Reduced := (Reduced e).
  Notation sub_step := (fun (acc : option mdeg) (p : nat * I) => obind acc (fun l =>
                          obind (esub e (md_at l (fst p)) (snd p)) (fun v => Some (md_set l (fst p) v)))).

  Lemma fold_sub_none (b : mdeg) : fold_left sub_step b None = None.
  Proof. induction b as [|q b IH]; cbn [fold_left obind]; auto. Qed.

  (* the loop of `-=` runs through iff the type is signed or no exponent underflows *)
  Lemma fold_sub_defined lo b : sorted_from lo b -> forall acc,
    ((exists r, fold_left sub_step b (Some acc) = Some r) <->
     (esigned e = true \/ forall i, (eZ (md_at b i) <= eZ (md_at acc i))%Z)).
  Proof.
    revert lo. induction b as [|[j d] b IH]; intros lo Sb acc; cbn [fold_left].
    - split; [|intros _; eauto]. intros _. destruct (signed_dec e) as [Sg|Sg]; [now left|right].
      intros i. rewrite at_nil, (eZ_0 e eZ EL). apply (eunsigned e eZ EL Sg).
    - cbn [sorted_from fst] in Sb. destruct Sb as [Sb1 Sb2]. cbn [obind fst snd].
      destruct (esub e (md_at acc j) d) as [v|] eqn:Ev; cbn [obind].
      + rewrite (IH _ Sb2). pose proof (esub_some e eZ EL _ _ _ Ev) as Hv.
        split; (intros [Sg|H]; [now left|]); destruct (signed_dec e) as [Sg|Sg]; try (now left); right; intros i.
        * rewrite at_cons. specialize (H i). rewrite at_set in H.
          destruct (Nat.eqb_spec j i) as [->|N]; [|assumption].
          pose proof (eunsigned e eZ EL Sg v). lia.
        * rewrite at_set. specialize (H i). rewrite at_cons in H.
          destruct (Nat.eqb_spec j i) as [->|N]; [|assumption].
          rewrite (at_below e (S i) b i) by (assumption || lia). rewrite (eZ_0 e eZ EL). apply (eunsigned e eZ EL Sg).
      + rewrite fold_sub_none. apply (esub_is_none e eZ EL) in Ev as [Sg H].
        split; [intros [r [=]]|]. intros [Sg'|H']; [congruence|]. specialize (H' j). rewrite at_cons, Nat.eqb_refl in H'. lia.
  Qed.

  Theorem md_sub_defined a b : Reduced b ->
    ((exists c, md_sub e a b = Some c) <-> (esigned e = true \/ forall i, (eZ (md_at b i) <= eZ (md_at a i))%Z)).
  Proof.
    intros [Sb _]. rewrite <- (fold_sub_defined 0 b Sb a). unfold md_sub.
    destruct (fold_left _ b (Some a)) as [r|]; cbn [obind]; split; intros [c H]; eauto; discriminate.
  Qed.

  (* the quotient is the pointwise difference *)
  Theorem md_sub_at a b c : Reduced a -> Reduced b -> md_sub e a b = Some c ->
    forall i, eZ (md_at c i) = (eZ (md_at a i) - eZ (md_at b i))%Z.
  Proof.
    intros Ha Hb H i. destruct (md_sub_sound e eZ EL a b c Ha Hb H) as [Hc E].
    rewrite <- E, (at_add e eZ EL) by assumption. rewrite (eZ_add e eZ EL). lia.
  Qed.

  Lemma sorted_in_ge lo (l : mdeg) q : sorted_from lo l -> In q l -> lo <= fst q.
  Proof.
    revert lo. induction l as [|r l IHl]; intros lo; [intros _ []|]. cbn [sorted_from].
    intros [G1 G2] [<-|Hq]; [assumption|]. specialize (IHl _ G2 Hq). lia.
  Qed.
  Lemma at_in lo (a : mdeg) p : sorted_from lo a -> In p a -> md_at a (fst p) = snd p.
  Proof.
    revert lo. induction a as [|[k c] t IH]; intros lo; [intros _ []|]. cbn [sorted_from fst].
    intros [H1 H2] [<-|Hp]; cbn [fst snd]; rewrite at_cons.
    - now rewrite Nat.eqb_refl.
    - destruct (Nat.eqb_spec k (fst p)) as [->|N]; [|now apply (IH (S k))].
      exfalso. pose proof (sorted_in_ge _ _ _ H2 Hp). lia.
  Qed.
  Lemma get_in_md (a : mdeg) i d : md_get a i = Some d -> In (i, d) a.
  Proof.
    induction a as [|[k c] t IH]; cbn [md_get]; [discriminate|].
    destruct (Nat.eqb_spec k i) as [->|N]; [intros [= ->]; now left|intros H; right; auto].
  Qed.

  (* all_leq compares the exponent functions pointwise *)
  Theorem md_all_leq_spec a b : Reduced a -> Reduced b ->
    (md_all_leq e a b = true <-> forall i, (eZ (md_at a i) <= eZ (md_at b i))%Z).
  Proof.
    intros [Sa _] [Sb _]. unfold md_all_leq. rewrite andb_true_iff, !forallb_forall. split.
    - intros [H1 H2] i. unfold Mono.md_at at 1. destruct (md_get a i) as [d|] eqn:G.
      + apply get_in_md in G. specialize (H1 _ G). cbn [fst snd] in H1. now apply (ele_Z e eZ EL).
      + unfold Mono.md_at. destruct (md_get b i) as [d|] eqn:G'; [|lia].
        apply get_in_md in G'. specialize (H2 _ G'). cbn [fst snd] in H2. apply (ele_Z e eZ EL) in H2.
        unfold Mono.md_at in H2. now rewrite G in H2.
    - intros H. split; intros p Hp; apply (ele_Z e eZ EL).
      + rewrite <- (at_in 0 a p Sa Hp). apply H.
      + rewrite <- (at_in 0 b p Sb Hp). apply H.
  Qed.

  Theorem mvar_div_laws : mono_div_laws (mvar_mono e) Reduced.
  Proof.
    constructor.
    - apply (mdiv_iff_of_none (mvar_mono e) Reduced (mvar_laws e eZ EL)).
      intros x y z Hx Hy Hz E D. cbn [mmul mdiv mvar_mono] in *.
      assert (exists c, md_sub e x y = Some c) as [c Hc]; [|congruence].
      apply (md_sub_defined x y Hy). destruct (signed_dec e) as [Sg|Sg]; [now left|right]. intros i.
      rewrite <- E, (at_add e eZ EL) by assumption. rewrite (eZ_add e eZ EL).
      pose proof (eunsigned e eZ EL Sg (md_at z i)). lia.
    - intros x y Hx Hy. cbn [mdivides mdiv mvar_mono]. rewrite (md_sub_defined x y Hy).
      destruct (esigned e); [split; auto|]. rewrite (md_all_leq_spec y x Hy Hx).
      split; [now right|]. intros [H|H]; [discriminate|assumption].
  Qed.

  Theorem mvar_unit_spec x : Reduced x ->
    (esigned e = true -> mis_unit (mvar_mono e) x = true /\ minv (mvar_mono e) x = Some (md_neg e x)) /\
    (esigned e = false -> (mis_unit (mvar_mono e) x = true <-> x = []) /\
                          (minv (mvar_mono e) x = if mis_unit (mvar_mono e) x then Some [] else None)).
  Proof.
    intros _. cbn [mis_unit minv mvar_mono]. split; intros ->; [auto|]. split; [|reflexivity].
    destruct x; cbn; split; congruence.
  Qed.

  Theorem mvar_unit_laws : mono_unit_laws (mvar_mono e) Reduced.
  Proof.
    constructor; cbn [mis_unit minv mmul mone mvar_mono].
    - intros x y Hx H. destruct (esigned e) eqn:Sg.
      + injection H as <-. now apply (Reduced_neg e eZ EL).
      + destruct x; cbn in H; [|discriminate]. injection H as <-. split; [apply Reduced_nil|reflexivity].
    - intros x _. destruct (esigned e); [split; eauto|].
      destruct (md_is_zero x); split; eauto; try discriminate. intros [y [=]].
    - intros x y Hx Hy E. destruct (esigned e) eqn:Sg; [reflexivity|].
      assert (x = []); [|now subst].
      apply (mdeg_ext e); [assumption|apply Reduced_nil|]. intros i. rewrite at_nil.
      apply (eadd_zero_unsigned e eZ EL _ (md_at y i) Sg). rewrite <- (at_add e eZ EL) by assumption. now rewrite E.
  Qed.
End MDegRest.
