(* Vertical composition, part 9: an invertible cobordism (all components cylinders of genus 0 without dots) stacked
   with its inverse gives the identity cobordism of its source tangle, and the inverse stacked with it the identity of
   its target tangle (up to the order of the components before the final sort; see TngPStackSort.v). *)
From Coq Require Import List Arith Bool Lia ZArith Permutation Sorted.
Import ListNotations.
Require Import Yui.Model.Link Yui.Model.Tng Yui.Model.TngCob Yui.Model.TngStack.
Require Import Yui.Proofs.TngPBase Yui.Proofs.TngPSegs Yui.Proofs.TngPDeg Yui.Proofs.TngPJoin Yui.Proofs.TngPStep
  Yui.Proofs.TngPSeq Yui.Proofs.TngPConn Yui.Proofs.TngPMain Yui.Proofs.TngPCob Yui.Proofs.TngPCobDeg
  Yui.Proofs.TngPStackBase Yui.Proofs.TngPStackBfs Yui.Proofs.TngPStackWf Yui.Proofs.TngPStackDeg
  Yui.Proofs.TngPStackAssoc Yui.Proofs.TngPStackId Yui.Proofs.TngPStackIdL.

Definition flip (x : cobcomp) : cobcomp := cc_plain (ctgt x) (csrc x) 0.
Definition cyl_ok (x : cobcomp) : Prop :=
  exists p q, x = cyl p q /\ pclosed p = pclosed q /\ (pclosed p = false -> p_connectable q p = true).
Definition src_id (x : cobcomp) : cobcomp := cc_id (hd dummy_p (csrc x)).

(* is_invertible, and nbdr_comps returns: a cylinder between two components of the same kind; arcs share their ends *)
Lemma invertible_cyl_ok : forall x, cc_is_invertible x = true -> cc_nbdr x <> None -> cyl_ok x.
Proof.
  intros [s t g dx dy]. unfold cc_is_invertible, cc_is_cyl. cbn [csrc ctgt cgenus cdx cdy]. intros Hi Hn.
  apply andb_true_iff in Hi. destruct Hi as [Hi Hy]. apply andb_true_iff in Hi. destruct Hi as [Hi Hx].
  apply andb_true_iff in Hi. destruct Hi as [Hi Hg]. apply andb_true_iff in Hi. destruct Hi as [Hs Ht].
  apply Nat.eqb_eq in Hs, Ht, Hg, Hx, Hy. subst g dx dy.
  destruct s as [|p [|? ?]]; try discriminate. destruct t as [|q [|? ?]]; try discriminate.
  exists p, q. split; [reflexivity|].
  unfold cc_nbdr, nbdr_fuel, arc_indices in Hn. cbn [csrc ctgt length seq filter nth] in Hn. unfold p_is_arc in Hn.
  destruct (pclosed p) eqn:Hp, (pclosed q) eqn:Hq; cbn [negb length Nat.eqb] in Hn; try congruence.
  - split; [reflexivity|discriminate].
  - split; [reflexivity|]. intros _.
    cbn [nb_outer nb_walk length remove_idx filter find nth csrc ctgt Nat.eqb negb] in Hn.
    destruct (p_connectable q p); [reflexivity|]. cbn in Hn. congruence.
Qed.

Lemma flip_cyl : forall p q, flip (cyl p q) = cyl q p.
Proof. reflexivity. Qed.

Definition inv_inv (bot top : list cobcomp) : Prop :=
  stack_wf bot top /\ Permutation top (map flip bot) /\ Forall cyl_ok bot.

Lemma ok_single : forall p, simple p -> tng_ok [p].
Proof.
  intros p Sp. split; [|repeat constructor]. apply inv_cons. split; [exact Sp|]. split; [apply inv_nil|intros v _ []].
Qed.

Lemma inv_step : forall b0 bot1 top bot' top' gb gt, inv_inv (b0 :: bot1) top ->
  take_stackable (b0 :: bot1) top = Some (bot', top', gb, gt) ->
  gb = [b0] /\ gt = [flip b0] /\ Permutation (b0 :: bot1) (bot' ++ [b0]) /\ Permutation top (top' ++ [flip b0]) /\
  stack_comps [b0] [flip b0] = Some (src_id b0) /\ inv_inv bot' top'.
Proof.
  intros b0 bot1 top bot' top' gb gt (W & PT & OK) Et.
  pose proof (wf_mid_t _ _ W) as IT. pose proof (wf_mid_b _ _ W) as IB. pose proof (wf_src _ _ W) as IS.
  assert (Htop : forall t, In t top -> exists b, t = flip b /\ In b (b0 :: bot1)).
  { intros t Ht. assert (H : In t (map flip (b0 :: bot1))) by (eapply Permutation_in; eauto).
    apply in_map_iff in H. destruct H as (b & <- & Hb). exists b. auto. }
  destruct (take_stackable_perm _ _ _ _ _ _ Et) as (Pa & Pb & _ & Hhd & _).
  pose proof (take_stackable_closed _ _ _ _ _ _ IB IT Et) as Cl. pose proof Cl as [C1 C2].
  destruct (Hhd _ _ eq_refl) as (more & Hgb).
  assert (Hb0 : In b0 (b0 :: bot1)) by (left; reflexivity).
  assert (OK0 : cyl_ok b0) by (inversion OK; assumption). destruct OK0 as (p0 & q0 & -> & Hk & Hcon).
  assert (Sq0 : simple q0) by (apply (inv_simple_in _ _ IB); apply (flat_in ctgt _ (cyl p0 q0)); auto; left; reflexivity).
  assert (Sp0 : simple p0) by (apply (inv_simple_in _ _ IS); apply (flat_in csrc _ (cyl p0 q0)); auto; left; reflexivity).
  destruct (first_label q0 Sq0) as (v & Hv).
  assert (Hown : forall b, In b (cyl p0 q0 :: bot1) -> hit ctgt q0 b = true -> cyl p0 q0 = b).
  { intros b Hb Hh. destruct (hit_shares ctgt _ q0 b IB Hb Hh) as [_ Hs].
    apply (owner_unique' ctgt _ (cyl p0 q0) b v IB Hb0 Hb); [apply in_verts; exists q0; split; [left; reflexivity|exact Hv]|apply Hs; exact Hv]. }
  destruct (take_stackable_sound (eq (cyl p0 q0)) (eq (flip (cyl p0 q0))) _ _ _ _ _ _ Et) as [Fb Ft].
  { intros b t m <- Ht Hm Hh. cbn in Hm. destruct Hm as [<-|[]]. destruct (Htop t Ht) as (b' & -> & Hb').
    rewrite (Hown b' Hb'); [reflexivity|]. exact Hh. }
  { intros t b m <- Hb Hm Hh. cbn in Hm. destruct Hm as [<-|[]]. apply Hown; auto. }
  { intros b r E. inversion E. reflexivity. }
  { intros t r E. discriminate. }
  assert (Egb : gb = [cyl p0 q0]).
  { apply (all_equal_one ctgt gb (cyl p0 q0)); auto; [apply (flat_sub ctgt _ bot' gb Pa IB)|discriminate|rewrite Hgb; left; reflexivity]. }
  assert (Hfl : In (flip (cyl p0 q0)) top).
  { eapply Permutation_in; [apply Permutation_sym; exact PT|]. apply in_map. exact Hb0. }
  assert (Hflg : In (flip (cyl p0 q0)) gt).
  { assert (H : In (flip (cyl p0 q0)) (top' ++ gt)) by (eapply Permutation_in; eauto).
    apply in_app_or in H. destruct H as [H|H]; auto. exfalso.
    assert (Hh : hit csrc q0 (flip (cyl p0 q0)) = true) by (apply hit_self; left; reflexivity).
    rewrite (C1 (cyl p0 q0) q0 (flip (cyl p0 q0))) in Hh; [discriminate|rewrite Hgb; left; reflexivity|left; reflexivity|exact H]. }
  assert (Egt : gt = [flip (cyl p0 q0)]).
  { apply (all_equal_one csrc gt); auto; [apply (flat_sub csrc _ top' gt Pb IT)|discriminate]. }
  clear Hgb Fb Ft. subst gb gt. split; [reflexivity|]. split; [reflexivity|]. split; [exact Pa|]. split; [exact Pb|].
  split.
  { assert (Hcon' : pclosed q0 = false -> p_connectable p0 q0 = true).
    { intros Hq. rewrite p_connectable_sym. apply Hcon. congruence. }
    set (nb := if pclosed p0 then 2 else 1).
    rewrite (stack_comps_compute [cyl p0 q0] [flip (cyl p0 q0)] (2 - Z.of_nat nb)%Z (2 - Z.of_nat nb)%Z [p0] [p0] nb 0).
    - reflexivity.
    - discriminate.
    - discriminate.
    - rewrite euls_single. unfold cc_euler, cyl. rewrite (cyl_nbdr p0 q0 0 0 0 Hk Hcon). cbn [cgenus]. unfold nb. f_equal; lia.
    - rewrite euls_single. unfold cc_euler. rewrite flip_cyl. unfold cyl. rewrite (cyl_nbdr q0 p0 0 0 0 (eq_sym Hk) Hcon').
      cbn [cgenus]. unfold nb. rewrite Hk. f_equal; lia.
    - cbn [map csrc cyl]. apply fold_connect_single. apply ok_single. exact Sp0.
    - cbn [map ctgt flip cc_plain csrc cyl]. apply fold_connect_single. apply ok_single. exact Sp0.
    - intros dx dy. apply (cyl_nbdr p0 p0 0 dx dy eq_refl). apply simple_arc_self_connectable. exact Sp0.
    - unfold arcs_of, tng_euler_num, p_is_arc, nb. cbn [map sum_nat fold_right ctgt cyl filter]. rewrite <- Hk.
      destruct (pclosed p0); cbn; lia. }
  split; [exact (wf_rest _ _ _ _ _ _ W Pa Pb Cl)|]. split; [|eapply ok_tail; eauto].
  apply (Permutation_app_inv_r [flip (cyl p0 q0)]).
  eapply perm_trans; [apply Permutation_sym; exact Pb|]. eapply perm_trans; [exact PT|].
  eapply perm_trans; [apply Permutation_map; exact Pa|]. rewrite map_app. apply Permutation_refl.
Qed.

Lemma inv_loop : forall fuel bot top acc, inv_inv bot top -> length bot + length top <= fuel ->
  exists out, stack_loop fuel bot top acc = Some (Some out) /\ Permutation out (acc ++ map src_id bot).
Proof.
  induction fuel as [|f IH]; intros bot top acc Inv Hl.
  - destruct bot; [|cbn in Hl; lia]. destruct top; [|cbn in Hl; lia]. exists acc. cbn. rewrite app_nil_r. auto.
  - destruct bot as [|b0 bot1].
    + destruct Inv as (_ & PT & _). cbn in PT. apply Permutation_sym, Permutation_nil in PT. subst top.
      exists acc. cbn. rewrite app_nil_r. auto.
    + cbn [stack_loop is_nil andb].
      destruct (take_stackable (b0 :: bot1) top) as [[[[bot' top'] gb] gt]|] eqn:Et; [|exfalso; eapply take_stackable_some; eauto].
      destruct (inv_step _ _ _ _ _ _ _ Inv Et) as (-> & -> & Pa & Pt & Ec & Inv').
      cbn [is_nil]. rewrite Ec.
      assert (Hlen : length bot' + length top' <= f).
      { apply Permutation_length in Pa, Pt. rewrite app_length in Pa, Pt. cbn [length] in *. lia. }
      destruct (IH bot' top' (acc ++ [src_id b0]) Inv' Hlen) as (out & Eo & Po).
      exists out. split; [exact Eo|]. eapply perm_trans; [exact Po|]. rewrite <- app_assoc. apply Permutation_app_head.
      eapply perm_trans; [|apply Permutation_map; apply Permutation_sym; exact Pa]. rewrite map_app. apply Permutation_app_comm.
Qed.

(* ---------- Cob::inv ---------- *)
Definition cob_inv_ok (c : list cobcomp) : Prop :=
  tng_inv (flat csrc c) /\ tng_inv (flat ctgt c) /\ Forall cyl_ok c.

Lemma cyls_flat_src : forall c, Forall cyl_ok c -> ids_of (flat csrc c) = map src_id c.
Proof.
  induction c as [|x r IH]; intros Hf; [reflexivity|]. inversion Hf as [|? ? (p & q & -> & _) Hr]; subst.
  unfold flat, ids_of in *. cbn. rewrite IH by assumption. reflexivity.
Qed.

Lemma cyls_invertible : forall c, Forall cyl_ok c -> cob_is_invertible c = true.
Proof.
  induction c as [|x r IH]; intros Hf; [reflexivity|]. inversion Hf as [|? ? (p & q & -> & _) Hr]; subst.
  unfold cob_is_invertible in *. cbn [forallb]. rewrite IH by assumption. reflexivity.
Qed.

Lemma flip_flip : forall x, cyl_ok x -> flip (flip x) = x.
Proof. intros x (p & q & -> & _). reflexivity. Qed.

Lemma flip_cyl_ok : forall x, cyl_ok x -> cyl_ok (flip x).
Proof.
  intros x (p & q & -> & Hk & Hc). exists q, p. split; [reflexivity|]. split; [auto|].
  intros Hq. rewrite p_connectable_sym. apply Hc. congruence.
Qed.

Lemma flat_flip_src : forall c, flat csrc (map flip c) = flat ctgt c.
Proof. induction c as [|x r IH]; [reflexivity|]. unfold flat in *. cbn. rewrite IH. reflexivity. Qed.
Lemma flat_flip_tgt : forall c, flat ctgt (map flip c) = flat csrc c.
Proof. induction c as [|x r IH]; [reflexivity|]. unfold flat in *. cbn. rewrite IH. reflexivity. Qed.

Lemma inv_inv_intro : forall bot top, cob_inv_ok bot -> Permutation top (map flip bot) -> inv_inv bot top.
Proof.
  intros bot top (Is & It & OK) Hp. split; [|split; assumption].
  assert (F : Permutation (flat csrc top) (flat ctgt bot)).
  { eapply perm_trans; [apply flat_perm; exact Hp|]. rewrite flat_flip_src. apply Permutation_refl. }
  constructor; auto.
  - eapply inv_perm; [apply Permutation_sym; exact F|exact It].
  - intros m Hm. exists m. split; [eapply Permutation_in; [apply Permutation_sym; exact F|exact Hm]|apply unori_eq_refl].
  - intros m Hm. exists m. split; [eapply Permutation_in; [exact F|exact Hm]|apply unori_eq_refl].
Qed.

Lemma cob_stack_cyls : forall bot top, cob_inv_ok bot -> Permutation top (map flip bot) ->
  exists r, cob_stack bot top = Some r /\ Permutation r (map src_id bot).
Proof.
  intros bot top OKb Hp. pose proof (inv_inv_intro bot top OKb Hp) as Inv.
  unfold cob_stack, cob_stack_fuel. destruct (is_nil bot) eqn:N1.
  { destruct bot; [|discriminate]. cbn in Hp. apply Permutation_sym, Permutation_nil in Hp. subst top. exists []. auto. }
  destruct (is_nil top) eqn:N2.
  { destruct top; [|discriminate]. apply Permutation_nil in Hp. destruct bot; discriminate. }
  destruct (inv_loop (length bot + length top) _ _ [] Inv (Nat.le_refl _)) as (out & Eo & Po). rewrite Eo. cbn [app] in Po.
  destruct OKb as (Is & _ & OK).
  assert (Es : cob_sort out = Some (cc_isort out)).
  { apply cob_sort_some. apply Forall_forall. intros x Hx.
    assert (Hx' : In x (map src_id bot)) by (eapply Permutation_in; eauto). apply in_map_iff in Hx'.
    destruct Hx' as (b & <- & Hb). rewrite Forall_forall in OK. destruct (OK b Hb) as (p & q & -> & _).
    assert (Sp : simple p) by (apply (inv_simple_in _ _ Is); apply (flat_in csrc _ (cyl p q)); auto; left; reflexivity).
    cbn. split; (constructor; [exact Sp|constructor]). }
  exists (cc_isort out). split; [exact Es|]. eapply perm_trans; [apply cc_isort_perm|exact Po].
Qed.

Theorem cob_stack_inv : forall c, cob_inv_ok c ->
  exists ic r1 r2 S T ids idt,
    cob_inv c = Some (Some ic) /\
    cob_stack c ic = Some r1 /\ cob_src c = Some S /\ cob_id S = Some ids /\ Permutation r1 ids /\
    cob_stack ic c = Some r2 /\ cob_tgt c = Some T /\ cob_id T = Some idt /\ Permutation r2 idt.
Proof.
  intros c OKc. pose proof OKc as (Is & It & OK).
  assert (Eic : cob_inv c = Some (Some (cc_isort (map flip c)))).
  { unfold cob_inv. rewrite (cyls_invertible c OK). f_equal. unfold cob_new. apply cob_sort_some.
    apply Forall_forall. intros x Hx. apply in_map_iff in Hx. destruct Hx as (b & <- & Hb).
    cbn. split; [apply (flat_inv_in ctgt c b It Hb)|apply (flat_inv_in csrc c b Is Hb)]. }
  set (ic := cc_isort (map flip c)) in *.
  assert (Pic : Permutation ic (map flip c)) by apply cc_isort_perm.
  destruct (cob_stack_cyls c ic OKc Pic) as (r1 & E1 & P1).
  assert (OKi : cob_inv_ok ic).
  { split; [|split].
    - eapply inv_perm; [apply Permutation_sym; apply flat_perm; exact Pic|]. rewrite flat_flip_src. exact It.
    - eapply inv_perm; [apply Permutation_sym; apply flat_perm; exact Pic|]. rewrite flat_flip_tgt. exact Is.
    - apply Forall_forall. intros x Hx. assert (Hx' : In x (map flip c)) by (eapply Permutation_in; eauto).
      apply in_map_iff in Hx'. destruct Hx' as (b & <- & Hb). apply flip_cyl_ok. rewrite Forall_forall in OK. auto. }
  assert (Pc : Permutation c (map flip ic)).
  { eapply perm_trans; [|apply Permutation_map; apply Permutation_sym; exact Pic]. rewrite map_map.
    rewrite (map_ext_in (fun x => flip (flip x)) (fun x => x)); [rewrite map_id; apply Permutation_refl|].
    intros x Hx. apply flip_flip. rewrite Forall_forall in OK. auto. }
  destruct (cob_stack_cyls ic c OKi Pc) as (r2 & E2 & P2).
  destruct (fold_connect_disjoint (map csrc c)) as (S & ES & PS & _); [rewrite concat_map_flat; exact Is|].
  destruct (fold_connect_disjoint (map ctgt c)) as (T & ET & PT & _); [rewrite concat_map_flat; exact It|].
  rewrite concat_map_flat in PS, PT.
  assert (Hid : forall U, Forall simple U -> cob_id U = Some (cc_isort (ids_of U))).
  { intros U HU. unfold cob_id, cob_new. apply cob_sort_some. apply Forall_forall. intros x Hx. apply in_ids_of in Hx.
    destruct Hx as (m & -> & Hm). rewrite Forall_forall in HU. cbn. split; (constructor; [apply HU; exact Hm|constructor]). }
  assert (SS : Forall simple S) by (apply (inv_perm _ _ (Permutation_sym PS)) in Is; apply Is).
  assert (ST : Forall simple T) by (apply (inv_perm _ _ (Permutation_sym PT)) in It; apply It).
  exists ic, r1, r2, S, T, (cc_isort (ids_of S)), (cc_isort (ids_of T)).
  split; [exact Eic|]. split; [exact E1|]. split; [exact ES|]. split; [apply Hid; exact SS|]. split.
  { eapply perm_trans; [exact P1|]. rewrite <- (cyls_flat_src c OK).
    eapply perm_trans; [|apply Permutation_sym; apply cc_isort_perm]. apply Permutation_map. apply Permutation_sym. exact PS. }
  split; [exact E2|]. split; [exact ET|]. split; [apply Hid; exact ST|].
  eapply perm_trans; [exact P2|]. rewrite <- (cyls_flat_src ic (proj2 (proj2 OKi))).
  eapply perm_trans; [|apply Permutation_sym; apply cc_isort_perm]. apply Permutation_map.
  eapply perm_trans; [apply flat_perm; exact Pic|]. rewrite flat_flip_src. apply Permutation_sym. exact PT.
Qed.
